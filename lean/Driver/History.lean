/- Driver.History — the `history` engine (C02): judges every step of a history of modifying calls. -/
import Hw.Topo.History
import Hw.Topo.InsertWF
import Hw.Topo.RenderOf
import Hw.Topo.MiscInsert
import Driver.Topo
namespace Driver.HistoryEng
open Hw.Topo Hw.Topo.Hist Driver

structure St where
  prev : Option Dump := none
  cur : TopoEng.Partial := {}
  op : List String := []
  ret : Option (Int × String) := none

/-- argument sets: `-` NULL, `<hex>` finite, `I<hex>` all bits above the printed digits set (clamped to `width`) -/
def parseArgSet (s : String) (width : Nat) : Option (Option Nat) :=
  if s = "-" then some none
  else if s.startsWith "I" then
    let h := (s.drop 1).toString
    match parseHex h with
    | some v =>
      let k := 4 * h.length
      let top := if k < width then ((1 <<< (width - k)) - 1) <<< k else 0
      some (some (v ||| top))
    | none => none
  else (parseHex s).map some

def optStr (s : String) : Option (Option String) := TopoEng.hexStr s

def widthOf (d : Dump) : Nat :=
  match d.objs[0]? with
  | some r => (max ((r.ccpuset.getD 0).log2) ((r.cnodeset.getD 0).log2)) + 70
  | none => 70

def parseOp (d : Dump) (t : List String) : Option HOp :=
  match t with
  | ["allow", f, c, n] => do
    let f ← parseNat f; let c ← parseArgSet c (widthOf d); let n ← parseArgSet n (widthOf d)
    pure (.allow f c n)
  | ["addinfo", i, n, v] => do
    let i ← parseNat i; let n ← optStr n; let v ← optStr v
    pure (.addInfo (i % d.objs.length) n v)
  | ["modinfos", i, op, n, v] => do
    let i ← parseNat i; let op ← parseNat op; let n ← optStr n; let v ← optStr v
    pure (.modifyInfos (i % d.objs.length) op n v)
  | ["subtype", i, s] => do
    let i ← parseNat i; let s ← optStr s
    pure (.setSubtype (i % d.objs.length) s)
  | _ => none

def retMatches (r : Ret) (c : Int × String) : Bool :=
  match r with
  | .ok v => c.1 == v
  | .einval => c.1 == -1 && c.2 == "EINVAL"

/-- first field in which two dumps differ (for diagnostics) -/
def firstDiff (a b : Dump) : String :=
  if a.allowedCpuset != b.allowedCpuset || a.allowedNodeset != b.allowedNodeset then "allowed-sets"
  else if a.objs.length != b.objs.length then "object-count"
  else match (a.objs.zip b.objs).find? (fun p => p.1 != p.2) with
    | some p => "object@" ++ toString p.1.id
    | none => if a.levels != b.levels then "levels" else if a.flags != b.flags then "flags" else "other"

/-! ### Group insertion: the tree shape after the call is PREDICTED by the model of `hwloc___insert_object_by_cpuset` -/

/-- the tree the model runs on: `Ins.treeH` (laminar for every well-formed dump: `lam_treeH`) -/
def treeOf (d : Dump) : Ins.T :=
  match d.objs[d.root.toNat]? with
  | some r => Ins.treeH d d.fuel r
  | none => .node default []

def parseGroupArgs (d : Dump) (t : List String) : Option Ins.GArgs :=
  match t with
  | "group" :: c :: n :: dm :: _ :: rest => do
    let c ← parseArgSet c (widthOf d); let n ← parseArgSet n (widthOf d); let dm ← parseNat dm
    let (k, sk) ← (match rest with
      | [k, sk] => do let k ← parseNat k; let sk ← parseNat sk; pure (k, sk)
      | [] => some (0, 0)
      | _ => none)
    pure { cpuset := c, nodeset := n, dm := dm != 0, kind := k, subkind := sk }
  | _ => none

/-! ### renderer tie for the two calls that change the tree shape: the WHOLE dump after the call (ids, every link, levels,
cousins, type depths) is predicted by `render` from the predicted tree; carried from the real dump: attributes / names /
infos / total_memory / symmetric_subtree, and the four sets of a NEW Group -/

open Hw.Topo.Restrict in
def renderAgainst (pred : Tree) (prev new : Dump) : Option String :=
  let tn := gpTable new
  dumpDiff (render pred ⟨prev.flags, prev.filters, prev.allowedCpuset, prev.allowedNodeset⟩ (extraOf tn tn)) new

/-- `OP misc`: the WHOLE dump after the call is predicted by the dump-level model `Hw.Topo.MiscIns.insertMisc` (the model the
    C02_insert_misc_* theorems are about) and compared for equality; the only input taken from the real result is the
    gp_index of the new object (next_gp_index is not observable), which must be above every old gp_index -/
def judgeMiscDump (prev new : Dump) (op : List String) (ret : Option (Int × String)) : List String :=
  match op with
  | ["misc", id, name] =>
    match parseNat id, optStr name with
    | some id, some name =>
      let p := id % prev.objs.length
      let mg := Hw.Topo.MiscIns.maxGp prev
      let newGp := (new.objs.find? (fun o => !(prev.objs.any (fun p => p.gp == o.gp)))).map (·.gp)
      match newGp with
      | none =>
        let (pd, pr) := Hw.Topo.MiscIns.stepM prev (.misc p name 0)
        if pr == .einval then
          (if (match ret with | some c => retMatches pr c | none => false) then [] else ["misc-return-differs-from-dump-model"]) ++
          (if pd == new then [] else ["misc-state-differs-from-dump-model:" ++ firstDiff pd new])
        else ["misc-dump-model:no-new-object"]
      | some g =>
        if g ≤ mg then ["misc-dump-model:new-gp-not-fresh"] else
        let (pd, pr) := Hw.Topo.MiscIns.stepM prev (.misc p name (g - mg - 1))
        (if (match ret with | some c => retMatches pr c | none => false) then [] else ["misc-return-differs-from-dump-model"]) ++
        (if pd == new then [] else ["misc-state-differs-from-dump-model:" ++
          (match Hw.Topo.Restrict.dumpDiff pd new with | some s => s | none => "?")])
    | _, _ => ["misc-op-unparsable"]
  | _ => ["misc-op-unparsable"]

open Hw.Topo.Restrict in
/-- `OP misc <objid> <namehex>`: hwloc_topology_insert_misc_object appends the new object at the END of the parent's Misc list;
    EINVAL and nothing changes when the Misc filter is KEEP_NONE -/
def judgeMisc (prev new : Dump) (op : List String) (ret : Option (Int × String)) : List String :=
  match op with
  | ["misc", id, name] =>
    match parseNat id, optStr name, Hw.Topo.Restrict.treeOf prev with
    | some id, some name, .ok tree =>
      let rc := (ret.map (·.1)).getD 99
      let en := (ret.map (·.2)).getD ""
      if (prev.filters[tMISC]?).getD 0 == 1 then
        (if rc == -1 && en == "EINVAL" then [] else ["misc-render-differs:return-with-filter-keep-none"]) ++
        (if prev == new then [] else ["misc-render-differs:modified-on-failure"])
      else
        match new.objs.find? (fun o => !(prev.objs.any (fun p => p.gp == o.gp))) with
        | none => ["misc-render-differs:no-new-object"]
        | some no =>
          let pred := insertMiscT (id % prev.objs.length) (.node (miscObj no.gp) [] [] [] []) 0 tree
          (if rc == 0 then [] else ["misc-render-differs:return"]) ++
          (if no.type == tMISC && no.name == name then [] else ["misc-render-differs:new-object-type-or-name"]) ++
          (match renderAgainst pred prev new with | none => [] | some s => ["misc-render-differs:" ++ s])
    | _, _, .error e => ["misc-before-dump-not-a-tree:" ++ e]
    | _, _, _ => ["misc-op-unparsable"]
  | _ => ["misc-op-unparsable"]

/-- the model's predicted normal tree (gp-labelled, with the memory children of every normal object) as a four-list tree:
    normal objects and the order of their children from the prediction, every subtree that the insertion does not touch
    (memory subtrees, I/O and Misc lists) from the BEFORE tree, the new Group (if any) from the real dump -/
def convT (before : Hw.Topo.Restrict.Tree) (newObj : Nat → Option Hw.Topo.Restrict.RObj) (touched : Nat) : Ins.T → Hw.Topo.Restrict.Tree
  | .node o kids =>
    let base := Hw.Topo.Restrict.findGpT o.gp before
    -- the new Group, or the Group it was merged into (hwloc_replace_linked_object may overwrite its contents), comes from the real dump
    let robj0 := match base with
      | some b => if o.gp == touched then (newObj o.gp).getD b.obj else b.obj
      | none => (newObj o.gp).getD default
    -- Group attributes (kind, subkind, dont_merge: merged into an existing Group by the call) are the model's prediction
    let robj := if o.type == tGROUP then { robj0 with gkind := o.kind, gsubkind := o.subkind, dmByte := if o.dm then 1 else 0 } else robj0
    .node robj (convL before newObj touched kids) (o.mem.filterMap (fun g => Hw.Topo.Restrict.findGpT g before))
      ((base.map (·.ios)).getD []) ((base.map (·.mis)).getD [])
where convL (before : Hw.Topo.Restrict.Tree) (newObj : Nat → Option Hw.Topo.Restrict.RObj) (touched : Nat) : List Ins.T → List Hw.Topo.Restrict.Tree
  | [] => []
  | c :: cs => convT before newObj touched c :: convL before newObj touched cs

open Hw.Topo.Restrict in
def groupRender (prev new : Dump) (t : Ins.T) (touched : Nat) : List String :=
  match Hw.Topo.Restrict.treeOf prev with
  | .error e => ["group-before-dump-not-a-tree:" ++ e]
  | .ok before =>
    let newObj (g : Nat) : Option RObj := (new.objs.find? (fun o => o.gp == g)).map robjOf
    match renderAgainst (convT before newObj touched t) prev new with
    | none => []
    | some s => ["group-render-differs:" ++ s]

/-- judgement of an `OP group` step: `[]` when the return class and the whole tree shape (parents, order, Group attributes, memory
children of every normal object) are the ones the model predicts -/
def judgeGroup (prev new : Dump) (op : List String) (ret : Option (Int × String)) : List String :=
  match parseGroupArgs prev op, prev.objs[prev.root.toNat]? with
  | some a, some r =>
    let numas := (prev.objs.filter (fun o => o.type == tNUMA)).map (fun o => (o.osidx.toNat, o.cpuset.getD 0))
    let newGp := ((new.objs.find? (fun o => !(prev.objs.any (fun p => p.gp == o.gp)))).map (·.gp)).getD 0
    let rc := (ret.map (·.1)).getD 99
    let after := Ins.rows 0 (treeOf new)
    let shape (t : Ins.T) (touched : Nat := newGp) : List String :=
      (if Ins.rows 0 t == after then [] else ["group-shape-differs-from-model"]) ++ groupRender prev new t touched
    -- hypothesis of the insertion theorems (C02_insert_*): the real tree is laminar (sound check `lamB`)
    (if Ins.lamB (treeOf prev) then [] else ["group-precondition-tree-not-laminar"]) ++
    match Ins.insertGroup ((prev.filters[tGROUP]?).getD 0) (r.cpuset.getD 0) (r.nodeset.getD 0) numas (treeOf prev) newGp a with
    | .einval => if rc == -1 then [] else ["group-return-differs-from-model:einval"]
    | .mergedRoot => (if rc == 1 then [] else ["group-return-differs-from-model:merged-root"]) ++ shape (treeOf prev)
    | .core _ (.inserted t) => (if rc == 0 then [] else ["group-return-differs-from-model:inserted"]) ++ shape (Ins.fixOrder newGp t)
    | .core _ (.merged t g) =>
      -- merged into a Group: the same completion and reordering run on that Group
      let isGroup := prev.objs.any (fun o => o.gp == g && o.type == tGROUP)
      (if rc == 1 then [] else ["group-return-differs-from-model:merged"]) ++ shape (if isGroup then Ins.fixOrder g t else t) g
    | .core _ (.failed t) => (if rc == -1 then [] else ["group-return-differs-from-model:failed"]) ++ shape t
    | .core _ .stuck => ["group-model-stuck"]
  | _, _ => ["group-op-unparsable"]

def judge (st : St) (new : Dump) : String :=
  let wf := wfCheck new ++ Hw.Topo.Sym.symCheck new
  let r1 := if wf.isEmpty then [] else ["wf:" ++ ",".intercalate (wf.take 4)]
  let r2 := match st.prev with
    | none => []
    | some prev =>
      let g := if gpStable prev new then [] else ["gp-index-or-type-changed"]
      let opname := st.op.head?.getD ""
      let failed := match st.ret with | some (r, _) => decide (r < 0) | none => false
      let p := match parseOp prev st.op with
        | some hop =>
          let (pd, pr) := step prev hop
          (if (match st.ret with | some c => retMatches pr c | none => false) then [] else ["return-differs-from-model"]) ++
          (if pd == new then [] else ["state-differs-from-model:" ++ firstDiff pd new])
        | none =>
          -- calls documented to leave the topology untouched on failure
          if failed && (opname == "restrict" || opname == "allow" || opname == "group") then
            (if prev == new then [] else ["modified-on-failure:" ++ firstDiff prev new])
          else []
      let gi := if opname == "group" then judgeGroup prev new st.op st.ret
                else if opname == "misc" then judgeMisc prev new st.op st.ret ++ judgeMiscDump prev new st.op st.ret else []
      g ++ p ++ gi
  let rs := r1 ++ r2
  if rs.isEmpty then "OK" else "FAIL " ++ " ".intercalate rs

def step (st : St) (line : String) : St × String :=
  let t := tokens line
  match t with
  | "LOAD" :: _ => ({}, ".")
  | ["LOADFAIL"] => (st, ".")
  | "OP" :: rest => ({ st with op := rest, ret := none }, ".")
  | ["RET", r, e] => ({ st with ret := (parseInt r).map (fun r => (r, e)) }, ".")
  | "UD" :: _ => (st, " ".intercalate t)
  | _ =>
    let (p', r) := TopoEng.feed st.cur t
    match r with
    | none => ({ st with cur := p' }, ".")
    | some (.error e) => ({ st with cur := {}, prev := none }, "FAIL dump-unparsable:" ++ e)
    | some (.ok d) => ({ st with cur := {}, prev := some d }, judge st d)

end Driver.HistoryEng
