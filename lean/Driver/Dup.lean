/- Driver.Dup — the `dup` engine (C12): predicts the internal state of the copy made by hwloc_topology_dup, the state of
   either copy after a modelled modifying call, and "the other copy is unchanged"; answers the allocation-trace line with
   the shmem length computed by the bump-allocator model; echoes the verdict lines computed by the harness in C. -/
import Hw.Topo.Dup
import Driver.Topo
import Driver.History
namespace Driver.DupEng
open Hw.Topo Hw.Topo.Hist Hw.Topo.Dup Driver

inductive Expect
  | any                          -- first observation, or after a call the model does not predict
  | exact (s : TopoState)        -- full internal state predicted (right after dup)
  | equiv (s : TopoState)        -- public view predicted

structure Slot where
  cur : Option TopoState := none
  expect : Expect := .any

/-- an observation being assembled -/
structure Build where
  part : TopoEng.Partial := {}
  dump : Option Dump := none
  ud : List Nat := []
  pts : List (Nat × List (Nat × Nat)) := []
  is : Option (Nat × Int × Int × Nat × List Nat) := none
  ig : List Int := []
  ii : List (String × String) := []
  dists : List Dist := []
  mems : List MemAttr := []
  kinds : List CpuKind := []
  bad : Option String := none

structure St where
  a : Slot := {}
  b : Slot := {}
  bld : Build := {}
  op : List String := []

def natList (s : String) : Option (List Nat) := if s = "-" then some [] else (s.splitOn ",").mapM parseNat
def intList (s : String) : Option (List Int) := if s = "-" then some [] else (s.splitOn ",").mapM parseInt

def pairs : List Nat → Option (List (Nat × Nat))
  | [] => some []
  | a :: b :: r => (pairs r).map ((a, b) :: ·)
  | _ => none

def parseInit (s : String) : Option Init :=
  match s.splitOn ":" with
  | ["C", set, v] => do let set ← parseHex set; let v ← parseNat v; pure (.cpuset set v)
  | ["O", t, g, c, v] => do let t ← parseInt t; let g ← parseNat g; let c ← parseNat c; let v ← parseNat v; pure (.object t g (c != 0) v)
  | _ => none

def failB (b : Build) (msg : String) : Build := { b with bad := b.bad.orElse (fun _ => some msg) }

def feedI (b : Build) (t : List String) : Build :=
  match t with
  | "IU" :: n :: vs => match parseNat n, vs.mapM parseNat with
    | some n, some l => if l.length = n then { b with ud := l } else failB b "bad-IU-count"
    | _, _ => failB b "bad-IU"
  | "IP" :: id :: n :: vs => match parseNat id, parseNat n, vs.mapM parseNat with
    | some id, some n, some l => match pairs l with
      | some ps => if ps.length = n then { b with pts := (id, ps) :: b.pts } else failB b "bad-IP-count"
      | none => failB b "bad-IP"
    | _, _, _ => failB b "bad-IP"
  | ["IS", st, pid, udnd, tud, sup] => match parseNat st, parseInt pid, parseInt udnd, parseNat tud, natList sup with
    | some st, some pid, some udnd, some tud, some sup => { b with is := some (st, pid, udnd, tud, sup) }
    | _, _, _, _, _ => failB b "bad-IS"
  | "IG" :: vs => match vs.mapM parseInt with
    | some l => { b with ig := l }
    | none => failB b "bad-IG"
  | "II" :: n :: vs => match parseNat n, TopoEng.parseInfos vs with
    | some n, some l => if l.length = n then { b with ii := l } else failB b "bad-II-count"
    | _, _ => failB b "bad-II"
  | ["ID", id, name, kind, ifl, ut, nb, types, idx, vals, cached] =>
    match parseNat id, TopoEng.hexStr name, parseNat kind, parseNat ifl, parseInt ut, parseNat nb, intList types, natList idx, natList vals, parseNat cached with
    | some id, some name, some kind, some ifl, some ut, some nb, some ty, some idx, some vals, some cached =>
      if idx.length = nb ∧ vals.length = nb * nb then
        { b with dists := { id := id, name := name, kind := kind, iflags := ifl, uniqueType := ut, nbobjs := nb,
                            types := if types = "-" then none else some ty, indexes := idx, values := vals, cached := cached } :: b.dists }
      else failB b "bad-ID-count"
    | _, _, _, _, _, _, _, _, _, _ => failB b "bad-ID"
  | ["IM", idx, name, fl, ifl, _nt] => match parseNat idx, TopoEng.hexStr name, parseNat fl, parseNat ifl with
    | some idx, some name, some fl, some ifl =>
      if idx = b.mems.length then { b with mems := { name := name.getD "", flags := fl, iflags := ifl, targets := [] } :: b.mems } else failB b "bad-IM-index"
    | _, _, _, _ => failB b "bad-IM"
  | "IT" :: mid :: _tid :: ty :: gp :: v :: c :: ni :: inits =>
    match parseNat mid, parseInt ty, parseNat gp, parseNat v, parseNat c, parseNat ni, inits.mapM parseInit with
    | some mid, some ty, some gp, some v, some c, some ni, some inits =>
      match b.mems with
      | m :: rest =>
        if mid + 1 = b.mems.length ∧ inits.length = ni then
          { b with mems := { m with targets := { type := ty, gp := gp, value := v, cached := c != 0, inits := inits } :: m.targets } :: rest }
        else failB b "bad-IT-index"
      | [] => failB b "IT-without-IM"
    | _, _, _, _, _, _, _ => failB b "bad-IT"
  | "IK" :: _idx :: set :: eff :: forced :: rk :: n :: vs =>
    let inf := set.startsWith "I"
    match parseHex (if inf then (set.drop 1).toString else set), parseInt eff, parseInt forced, parseNat rk, parseNat n, TopoEng.parseInfos vs with
    | some set, some eff, some forced, some rk, some n, some infos =>
      if infos.length = n then { b with kinds := { cpuset := set, inf := inf, eff := eff, forced := forced, ranking := rk, infos := infos } :: b.kinds }
      else failB b "bad-IK-count"
    | _, _, _, _, _, _ => failB b "bad-IK"
  | _ => failB b "bad-I-line"

def Build.finish (b : Build) : Except String TopoState :=
  match b.bad, b.dump, b.is with
  | some e, _, _ => .error e
  | none, none, _ => .error "no-dump"
  | none, _, none => .error "no-IS-line"
  | none, some d, some (st, pid, udnd, tud, sup) =>
    .ok { dump := d, userdata := b.ud, pageTypes := b.pts.reverse, state := st, pid := pid, udNotDecoded := udnd, topoUserdata := tud,
          support := sup, grouping := b.ig, infos := b.ii, dists := b.dists.reverse,
          memattrs := (b.mems.map (fun m => { m with targets := m.targets.reverse })).reverse, cpukinds := b.kinds.reverse }

def judge (sl : Slot) (n : TopoState) : String :=
  match sl.expect with
  | .any => "ok"
  | .exact p => if p = n then "ok" else "FAIL copy-differs-from-model:" ++ firstDiffExact p n
  | .equiv p => if decide (TopoEquivD p n) then "ok" else "FAIL state-differs-from-model:" ++ firstDiff p n

def getSlot (st : St) (s : String) : Slot := if s = "B" then st.b else st.a
def setSlot (st : St) (s : String) (sl : Slot) : St := if s = "B" then { st with b := sl } else { st with a := sl }

def echoKeys : List String := ["PROV", "PUBEQ", "RAWEQ", "GPNEXT", "FRAME", "SURV", "TWIN", "DUPRET", "BMDUP"]

def step (st : St) (line : String) : St × String :=
  let t := tokens line
  match t with
  | "LOAD" :: _ => ({}, ".")
  | ["LOADFAIL"] => (st, ".")
  | ["FIN", _] => (st, ".")
  | ["DUP"] =>
    let e := match st.a.cur with | some s => Expect.exact (dupState s) | none => Expect.any
    ({ st with b := { cur := none, expect := e } }, ".")
  | "OP" :: rest => ({ st with op := rest }, ".")
  | ["RET", _, _] =>
    match st.op with
    | slot :: optoks =>
      let sl := getSlot st slot
      let e := match sl.cur with
        | some s => match HistoryEng.parseOp s.dump optoks with
          | some hop => Expect.equiv (stepS s hop).1
          | none => Expect.any
        | none => Expect.any
      (setSlot st slot { sl with expect := e }, ".")
    | [] => (st, "bad-op RET-without-OP")
  | ["OBS", slot] =>
    match st.bld.finish with
    | .error e => ({ st with bld := {} }, "OBS " ++ slot ++ " FAIL observation-unparsable:" ++ e)
    | .ok n =>
      let sl := getSlot st slot
      let v := judge sl n
      ({ setSlot st slot { cur := some n, expect := .equiv n } with bld := {} }, "OBS " ++ slot ++ " " ++ v)
  | "TRACE" :: page :: hdr :: n :: sizes =>
    match parseNat page, parseNat hdr, parseNat n, sizes.mapM parseNat with
    | some page, some hdr, some n, some l => if l.length = n then (st, "LEN " ++ toString (shmemLength page hdr l)) else (st, "bad-op TRACE-count")
    | _, _, _, _ => (st, "bad-op TRACE")
  | k :: _ =>
    if echoKeys.contains k then (st, " ".intercalate t)
    else if k.startsWith "I" && k.length = 2 then ({ st with bld := feedI st.bld t }, ".")
    else
      let (p', r) := TopoEng.feed st.bld.part t
      match r with
      | none => ({ st with bld := { st.bld with part := p' } }, ".")
      | some (.error e) => ({ st with bld := failB { st.bld with part := {} } ("dump:" ++ e) }, ".")
      | some (.ok d) => ({ st with bld := { st.bld with part := {}, dump := some d } }, ".")
  | [] => (st, "bad-op empty")

end Driver.DupEng
