/- Driver.Conc — line protocol for the engines `readonly` and `conc` (C17).

   engine `readonly` (stateless: every line carries the cache state S = `d=<id>:<valid><survives>,..|-  a=<conv><needinit><valid>,..|-`
   observed by the harness):
     load <seed> | mods <seed> | arena <mode> [mask] | drop   -> ok
     observe after-load|after-refresh S                        -> seen   iff the model's CachesValid holds for S
     observe after-mod S                                       -> seen
     expect-valid                                              -> valid  (corpus: the harness reports whether every flag is set)
     refresh S                                                 -> S' = Hw.Conc.refresh
     call <entry> <id> <ok> S                                  -> ro | write dist <id> | write attr <i>   (first unlocked write of `events`)
     wcall <entry> <id> <ok> S                                 -> S' after the writes of `events` landed
     cinit users=<n> reg=<b> | cfini users=<n> reg=<b>         -> users=<n'> reg=<b'>   (GENERATED IR run sequentially)
     reg <op> <variant> <a> <b> users=<n> reg=<b>              -> <result> users=<n'> reg=<b'>   (`regOp`: the entry points and the path
                                                                  named by op/variant, `Reg.runHist` over the GENERATED IR)
     reglive <k> users=<n> reg=<b>                             -> consistent   iff n = k (topologies alive) and reg <-> n > 0
   engine `conc`:
     search <threads> <rounds>      exhaustive interleaving search of the GENERATED init/fini programs
                                    -> ok states=<n> | fail <what> schedule=<t,t,..>
     trace <threads> <t,t,..>       run one schedule -> final state + verdict
     ir                             -> the generated programs and whether they equal the model programs
-/
import Hw.Io.Conc
import Hw.Io.ConcEntry
import Hw.Gen.ComponentsIR
import Driver.Util
import Std.Data.HashSet
namespace Driver.ConcEng
open Hw.Conc Driver

def b01 (b : Bool) : String := if b then "1" else "0"

def parseBit (c : Char) : Option Bool := if c = '1' then some true else if c = '0' then some false else none

def parseDist (s : String) : Option DistSlot :=
  match s.splitOn ":" with
  | [i, f] => match i.toNat?, f.toList with
    | some id, [v, sv] => match parseBit v, parseBit sv with
      | some v, some sv => some { id := id, valid := v, survives := sv }
      | _, _ => none
    | _, _ => none
  | _ => none

def parseAttr (s : String) : Option AttrSlot :=
  match s.toList with
  | [c, n, v] => match parseBit c, parseBit n, parseBit v with
    | some c, some n, some v => some { conv := c, needInit := n, valid := v }
    | _, _, _ => none
  | _ => none

def parseList {α} (f : String → Option α) (s : String) : Option (List α) :=
  if s = "-" then some [] else (s.splitOn ",").mapM f

def parseState (d a : String) : Option TopoState :=
  if !(d.startsWith "d=") || !(a.startsWith "a=") then none else
  match parseList parseDist (d.drop 2).toString, parseList parseAttr (a.drop 2).toString with
  | some ds, some as => some { dists := ds, attrs := as, warm := allStatics }
  | _, _ => none

def showState (s : TopoState) : String :=
  let d := if s.dists.isEmpty then "-" else
    ",".intercalate (s.dists.map fun d => toString d.id ++ ":" ++ b01 d.valid ++ b01 d.survives)
  let a := if s.attrs.isEmpty then "-" else
    ",".intercalate (s.attrs.map fun a => b01 a.conv ++ b01 a.needInit ++ b01 a.valid)
  "d=" ++ d ++ " a=" ++ a

/-- names of harness/consult.h -> footprint class -/
def entryReader (name : String) (id : Nat) (ok : Bool) : Option Reader :=
  match name with
  | "depth_queries" | "get_obj_by_depth" | "get_next_obj" | "os_index_lookup" | "tree_walk" | "ancestors"
  | "cpuset_helpers" | "distrib" | "io_iter" | "topology_meta" | "topology_check" | "topology_dup"
  | "shmem_get_length" | "type_predicates" => some (.pure .traversal)
  | "diff_build" => some .diffBuild
  | "type_snprintf" => some (.pure .typePrint)
  | "info_queries" => some (.pure .infoQuery)
  | "set_getters" => some (.pure .setGetter)
  | "bitmap_queries" => some (.pure .bitmapQuery)
  | "cpukinds" => some (.pure .cpukindQuery)
  | "memattr_meta" => some (.pure .memattrMeta)
  | "local_numanodes" => some (.pure .localNumanodes)
  | "export_synthetic" => some (.pure .exportSynthetic)
  | "distances_get" | "distances_get_by_depth" | "distances_get_by_type" | "distances_get_by_name" => some (.distancesGet ok)
  | "memattr_get_value" => some (.memattrQuery .value id ok)
  | "memattr_get_targets" => some (.memattrQuery .targets id ok)
  | "memattr_get_initiators" => some (.memattrQuery .initiators id ok)
  | "memattr_get_best_target" => some (.memattrQuery .bestTarget id ok)
  | "memattr_get_best_initiator" => some (.memattrQuery .bestInitiator id ok)
  | "export_xmlbuffer" | "export_xmlbuffer_v2" | "export_xml_file" => some (.exportXml ok)
  | _ => none

def showLoc : Loc → String
  | .dist id => "dist " ++ toString id
  | .distList => "distlist"
  | .attr i => "attr " ++ toString i
  | .kinds => "kinds"
  | .static _ => "static"
  | .registry => "registry"
  | .topo => "other"

def firstWrite (s : TopoState) (r : Reader) : String :=
  match unlockedWrites (events s r) with
  | [] => "ro"
  | l :: _ => "write " ++ showLoc l

/-! ### sequential run of the generated IR -/
open Hw.Conc.Reg in
def runCall (c : Cfg) (t : Nat) (target : Phase) : Nat → Cfg
  | 0 => c
  | fuel + 1 =>
    match c.thr[t]? with
    | some th => if th.phase = target then c else
        runCall (step Hw.Gen.ComponentsIR.initProg Hw.Gen.ComponentsIR.finiProg c t) t target fuel
    | none => c

def parseKV (pfx s : String) : Option Nat := if s.startsWith pfx then (s.drop pfx.length).toString.toNat? else none

open Hw.Conc.Reg in
def seqCall (init : Bool) (users : Nat) (reg : Bool) : String :=
  let between : Thr := { phase := .between }
  let c : Cfg := { users := users, reg := reg, thr := List.replicate users between ++ [{}] }
  let c' := if init then runCall c users .between 64
            else if users = 0 then { c with bad := true } else runCall c 0 .idle 64
  if c'.bad then "model-error" else
  "users=" ++ toString c'.users ++ " reg=" ++ b01 c'.reg

/-! ### public entry points reaching the registry (ops `reg`): op + variant -> the entry points the harness calls for it
    (with the path the variant forces) and the result the harness prints -/
open Hw.Conc.Reg in
def regOp (op var : String) : Option (List Entry × String) :=
  let complexV := ["hand-complex-first", "hand-complex-mid", "hand-complex-last", "hand-complex-only", "slot-complex"]
  let okV := ["empty", "hand-attrs", "slot-ok"]
  match op with
  | "init" => some ([.topologyInit], "ok")
  | "setsrc" =>
    if ["synth-ok", "xml-ok", "xmlbuf-ok", "xmlbuf-loadfail"].contains var then some ([.setSource], "ok")
    else if ["synth-bad", "xml-nofile", "xmlbuf-bad"].contains var then some ([.setSource], "fail") else none
  | "setcomp" =>
    if var = "ok" then some ([.setSource], "ok")
    else if var = "unknown" || var = "badflags" then some ([.setSource], "fail") else none
  | "load" =>
    if var = "ok" || var = "native" then some ([.load], "ok")
    else if var = "fail" then some ([.load], "fail")
    else if var = "busy" then some ([.load], "EBUSY") else none
  | "dup" =>
    if var = "ok" then some ([.topologyDup true], "ok")
    else if var = "unloaded" then some ([.topologyDup false], "EINVAL") else none
  | "destroy" =>
    if ["inited", "configured", "loaded", "failed", "adopted"].contains var then some ([.topologyDestroy], "ok") else none
  | "export" =>
    if var = "buf" || var = "file" then some ([.exportXml], "ok")
    else if var = "badflags" then some ([.exportXml], "fail") else none
  | "freebuf" => some ([.exportXml], "ok")
  | "diffbuild" =>
    if var = "same" || var = "mem" then some ([.topologyDup true, .diffBuild, .topologyDestroy], "ok")
    else if var = "complex" then some ([.topologyInit, .setSource, .load, .diffBuild, .topologyDestroy], "toocomplex") else none
  | "diffexpbuf" =>
    if okV.contains var then some ([.diffExportXmlbuffer false], "ok")
    else if complexV.contains var then some ([.diffExportXmlbuffer true], "EINVAL") else none
  | "diffexpfile" =>
    if okV.contains var then some ([.diffExportXml false], "ok")
    else if complexV.contains var then some ([.diffExportXml true], "EINVAL")
    else if var = "unwritable" then some ([.diffExportXml false], "fail") else none
  | "diffloadbuf" =>
    if var = "ok" then some ([.diffLoadXmlbuffer, .diffDestroy], "ok")
    else if ["trunc", "notdiff", "garbage", "empty"].contains var then some ([.diffLoadXmlbuffer], "fail") else none
  | "diffloadfile" =>
    if var = "ok" then some ([.diffLoadXml, .diffDestroy], "ok")
    else if var = "nofile" || var = "notdiff" then some ([.diffLoadXml], "fail") else none
  | "diffdestroy" => some ([.diffDestroy], "ok")
  | "getlen" =>
    if var = "ok" then some ([.shmemGetLength true], "ok")
    else if var = "flags" then some ([.shmemGetLength false], "EINVAL") else none
  | "shmwrite" =>
    if var = "ok" then some ([.shmemGetLength true, .shmemWrite true], "ok")
    else if var = "flags" then some ([.shmemGetLength true, .shmemWrite false], "EINVAL")
    else if var = "badfd" then some ([.shmemGetLength true, .shmemWrite false], "fail")
    else if var = "busy" then some ([.shmemGetLength true, .shmemWrite false], "EBUSY") else none
  | "adopt" =>
    if var = "ok" then some ([.shmemAdopt .ok], "ok")
    else if var = "flags" || var = "badlen" then some ([.shmemAdopt .early], "EINVAL")
    else if var = "badfd" then some ([.shmemAdopt .early], "fail")
    else if var = "busy" then some ([.shmemAdopt .early], "EBUSY") else none
  | _ => none

open Hw.Conc.Reg in
def regLine (op var : String) (users : Nat) (reg : Bool) : String :=
  match regOp op var with
  | none => "bad-op"
  | some (es, res) =>
    let s := runHist Hw.Gen.ComponentsIR.initProg Hw.Gen.ComponentsIR.finiProg { users := users, reg := reg } es
    if s.bad then "model-error: registry call without a reference (failed assert / lock) users=" ++ toString s.users
    else res ++ " users=" ++ toString s.users ++ " reg=" ++ b01 s.reg

def stepRO (_ : Unit) (line : String) : Unit × String :=
  let bad := ((), "bad-op")
  match tokens line with
  | ["load", _] | ["loadbind", _] | ["mods", _] | ["arena", _] | ["arena", _, _] | ["drop"] => ((), "ok")
  | ["expect-valid"] => ((), "valid")
  | ["xmlexport", _] => ((), "ok")     -- process-level choice of the XML export back end (first line of a harness process)
  | ["observe", w, d, a] =>
    match parseState d a with
    | none => bad
    | some s =>
      if w = "after-mod" then ((), "seen")
      else if w = "after-load" || w = "after-refresh" then
        ((), if cachesValidB s then "seen" else "violates C17_refresh_validates " ++ showState s)
      else bad
  | ["refresh", d, a] =>
    match parseState d a with
    | none => bad
    | some s => ((), showState (refresh s))
  | [verb, name, id, ok, d, a] =>
    match parseState d a, id.toNat?, (if ok = "1" then some true else if ok = "0" then some false else none) with
    | some s, some id, some ok =>
      match entryReader name id ok with
      | none => bad
      | some r =>
        if verb = "call" then ((), firstWrite s r)
        else if verb = "wcall" then ((), showState (applyWrites s (unlockedWrites (events s r))))
        else bad
    | _, _, _ => bad
  | ["reg", op, var, _, _, u, r] =>
    match parseKV "users=" u, parseKV "reg=" r with
    | some users, some reg => if reg > 1 then bad else ((), regLine op var users (reg != 0))
    | _, _ => bad
  | ["reglive", k, u, r] =>
    match k.toNat?, parseKV "users=" u, parseKV "reg=" r with
    | some k, some users, some reg =>
      if reg > 1 then bad
      else if k = users && (reg != 0) = decide (0 < users) then ((), "consistent")
      else ((), "violates C17_history_refcount: " ++ toString k ++ " topologies alive, users=" ++ toString users ++ " reg=" ++ toString reg)
    | _, _, _ => bad
  | [verb, u, r] =>
    match parseKV "users=" u, parseKV "reg=" r with
    | some users, some reg =>
      if verb = "cinit" then ((), seqCall true users (reg != 0))
      else if verb = "cfini" then ((), seqCall false users (reg != 0))
      else bad
    | _, _ => bad
  | _ => bad

/-! ### exhaustive interleaving search of the generated programs -/
open Hw.Conc.Reg

structure Node where
  cfg : Cfg
  left : List Nat            -- remaining init/fini rounds per thread
  deriving DecidableEq, Hashable

def finished (n : Node) : Bool := n.cfg.thr.all (·.phase == .idle) && n.left.all (· == 0)

/-- successor by scheduling thread t (none: the thread cannot move — finished, or blocked on the lock) -/
def succ (ip fp : Prog) (n : Node) (t : Nat) : Option Node :=
  match n.cfg.thr[t]?, n.left[t]? with
  | some th, some l =>
    if th.phase = .idle ∧ l = 0 then none else
    let c' := Reg.step ip fp n.cfg t
    if c' = n.cfg then none else
    some { cfg := c', left := if th.phase = .idle then n.left.set t (l - 1) else n.left }
  | _, _ => none

def verdict (n : Node) : Option String :=
  if n.cfg.bad then some "unsynchronised-access-or-failed-assert"
  else if !checkFree n.cfg then some "registry-invariant"
  else if finished n && (n.cfg.users != 0 || n.cfg.reg) then some "not-torn-down"
  else none

partial def bfs (ip fp : Prog) (nthr : Nat) (queue : List (Node × List Nat)) (next : List (Node × List Nat))
    (seen : Std.HashSet Node) (count : Nat) : String :=
  match queue with
  | [] => if next.isEmpty then "ok states=" ++ toString count else bfs ip fp nthr next.reverse [] seen count
  | (n, sched) :: rest =>
    match verdict n with
    | some w => "fail " ++ w ++ " schedule=" ++ ",".intercalate (sched.reverse.map toString)
    | none =>
      let succs := (List.range nthr).filterMap fun t => (succ ip fp n t).map fun m => (m, t :: sched)
      if succs.isEmpty && !finished n then
        "fail deadlock schedule=" ++ ",".intercalate (sched.reverse.map toString)
      else
        let (next', seen', cnt') := succs.foldl (fun (acc : List (Node × List Nat) × Std.HashSet Node × Nat) ms =>
          if acc.2.1.contains ms.1 then acc else (ms :: acc.1, acc.2.1.insert ms.1, acc.2.2 + 1)) (next, seen, count)
        bfs ip fp nthr rest next' seen' cnt'

def search (ip fp : Prog) (nthr rounds : Nat) : String :=
  let n0 : Node := { cfg := Reg.start nthr, left := List.replicate nthr rounds }
  bfs ip fp nthr [(n0, [])] [] (Std.HashSet.emptyWithCapacity 1024 |>.insert n0) 1

def showCfg (c : Cfg) : String :=
  "users=" ++ toString c.users ++ " reg=" ++ b01 c.reg ++ " lock=" ++ (match c.lock with | none => "-" | some t => toString t) ++
    " bad=" ++ b01 c.bad ++ " thr=" ++ ",".intercalate (c.thr.map fun th =>
      (match th.phase with | .idle => "idle" | .init => "init" | .between => "between" | .fini => "fini") ++ "@" ++ toString th.pc)

def showProg (p : Prog) : String := " ".intercalate (p.map fun i => match i with
  | .lock => "lock" | .unlock => "unlock" | .ret => "ret" | .test => "test" | .inc => "inc" | .dec => "dec"
  | .brIfNot t => "brIfNot:" ++ toString t | .brIf t => "brIf:" ++ toString t | .initReg => "initReg" | .destroyReg => "destroyReg")

def stepConc (_ : Unit) (line : String) : Unit × String :=
  let ip := Hw.Gen.ComponentsIR.initProg
  let fp := Hw.Gen.ComponentsIR.finiProg
  match tokens line with
  | ["search", n, r] =>
    match n.toNat?, r.toNat? with
    | some n, some r => if n = 0 || n > 4 || r = 0 || r > 3 then ((), "bad-op") else ((), search ip fp n r)
    | _, _ => ((), "bad-op")
  | ["trace", n, sched] =>
    match n.toNat?, (sched.splitOn ",").mapM (·.toNat?) with
    | some n, some s =>
      let c := Reg.run ip fp (Reg.start n) s
      ((), showCfg c ++ (if c.bad then " VERDICT unsynchronised-access-or-failed-assert" else if !checkFree c then " VERDICT registry-invariant" else " VERDICT ok"))
    | _, _ => ((), "bad-op")
  | ["ir"] =>
    ((), "init: " ++ showProg ip ++ " ; fini: " ++ showProg fp ++ " ; matches-model=" ++
      b01 (decide (ip = Model.initProg) && decide (fp = Model.finiProg)))
  | _ => ((), "bad-op")

end Driver.ConcEng
