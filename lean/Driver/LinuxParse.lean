/- Driver.LinuxParse — line protocol for the `linuxparse` engine (C18): the static parsers of
   hwloc/topology-linux.c on generated file contents.

     CL <hex bytes | ->           hwloc__read_path_as_cpulist on a file with that content
     CM <hex bytes | ->           hwloc__read_path_as_cpumask
     CLX / CMX                    … on a path that does not exist
     RF <size0> <r1,r2,… | ->     hwloc__read_fd with *sizep = size0 and scripted read() return values

   Answers: `ok <set as one hexadecimal number>` | `ub` (signed overflow) | `big` (an index ≥ 2^17
   reaches the bitmap layer: outside the differential domain) | `fail` | `err` | `hang` |
   `ok <filesize> <totalread>`.
   The ops NI NU NQ NX MI HP CN MP AD AR are answered by Driver/LinuxFs.lean (see there). -/
import Hw.Io.LinuxParse
import Driver.Strings
import Driver.LinuxFs
namespace Driver.LinuxParseEng
open Hw Hw.LinuxParse Driver

/-- finite part of a bitmap as one number -/
def setNat (b : Bitmap) : Nat :=
  (List.range b.words.length).foldl (fun acc i => acc + ((b.readWord i).toNat <<< (64 * i))) 0

def showSet (b : Bitmap) : String := (if b.inf then "I" else "") ++ toHex (setNat b)

def bigBound : Nat := 2^17

def step (u : Unit) (line : String) : Unit × String :=
  match tokens line with
  | ["CL", h] =>
    match StringsEng.parseBytes h with
    | none => (u, "bad-op")
    | some bs =>
      -- control flow first (no bitmap is built for inputs outside the differential domain)
      if cpulistUB bs then (u, "ub")
      else if cpulistMaxIdx bs ≥ bigBound then (u, "big")
      else match cpulist Bitmap.alloc bs with
        | none => (u, "MODEL-INCONSISTENT")
        | some b => (u, "ok " ++ showSet b)
  | ["CM", h] =>
    match StringsEng.parseBytes h with
    | none => (u, "bad-op")
    | some bs => (u, "ok " ++ showSet (cpumask Bitmap.alloc 8 bs))
  | ["CLX"] => (u, "fail")
  | ["CMX"] => (u, "fail")
  | ["RF", s0, rs] =>
    match parseNat s0, (if rs = "-" then some [] else (rs.splitOn ",").mapM parseInt) with
    | some s0, some rs =>
      match readFd s0 rs with
      | .err => (u, "err")
      | .hang => (u, "hang")
      | .ok fs tot al ws =>
        -- the model's own bound check (proved never to fire for s0 > 0): printed so that a model bug is visible
        let oob := ws.any (fun w => decide (w.2.2 < w.1 + w.2.1)) || decide (al ≤ tot)
        (u, "ok " ++ toString fs ++ " " ++ toString tot ++ (if oob then " OOB" else ""))
    | _, _ => (u, "bad-op")
  | _ =>
    -- numeric / meminfo / hugepages readers and the cgroup handling: Driver/LinuxFs.lean
    match LinuxFsEng.step line with
    | some r => (u, r)
    | none => (u, "bad-op")

end Driver.LinuxParseEng
