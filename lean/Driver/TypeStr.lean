/- Driver.TypeStr — line protocol of engine `typestr` (C11).  One op per line, one answer per line.

   cmp  <t1> <t2>                       -> V <int> | V U
   kind <t>                             -> K <normal> <memory> <io> <cache> <dcache> <icache>
   tstr <t>                             -> S x<hex>
   ssc  <null|attrsize> x<hex>          -> R -1 | R 0 <type> <written...> | R oobT | R oobS
   tsn  <flags> <null|size> <obj>       -> P <ret> x<hex up to NUL>|- | P loops
   asn  <flags> <null|size> x<sep> <obj>-> P <ret> x<hex>|-
   rt   <flags> <obj>                   -> T x<text> <ssc answer> match=<0|1> | T loops
   lvl  <topo> <depth> <n> <flags> <obj>-> L same x<text> | L loops
   <obj> = type depth ctype csize linesize assoc total local upstream pdomain pbus pdev pfunc vendor device class
           link(x<hex>|-) linkbits(ignored) cname(x<hex>) ddomain sec sub ostypes(hex) ninfos (x<name> x<value>)*            -/
import Driver.Util
import Hw.Io.TypeStr
namespace Driver.TypeStrEng
open Hw.TypeStr Hw.Gen.TypeTables

abbrev State := Unit
def init : State := ()

def parseBytes (s : String) : Option Bytes :=
  match s.toList with
  | 'x' :: r =>
    let rec go : List Char → List Nat → Option (List Nat)
      | [], acc => some acc.reverse
      | [_], _ => none
      | a :: b :: t, acc =>
        match hexDigitVal a, hexDigitVal b with
        | some x, some y => go t ((x * 16 + y) :: acc)
        | _, _ => none
    go r []
  | _ => none

def hex2 (n : Nat) : String := String.ofList [hexChar (n / 16 % 16), hexChar (n % 16)]
def showBytes (b : Bytes) : String := "x" ++ String.join (b.map hex2)

def parseSize (s : String) : Option (Option Nat) :=
  if s = "null" then some none else (parseNat s).map some

def parseInfos : Nat → List String → Option (List (Bytes × Bytes))
  | 0, [] => some []
  | 0, _ => none
  | n + 1, a :: b :: r => do
    let x ← parseBytes a
    let y ← parseBytes b
    let t ← parseInfos n r
    pure ((x, y) :: t)
  | _, _ => none

def parseObj : List String → Option Obj
  | ty :: dp :: ct :: cs :: ls :: as :: tot :: loc :: up :: pd :: pb :: pv :: pf :: ven :: dev :: cls :: lk :: _lkbits :: cn :: dd :: sb :: su :: os :: ni :: rest => do
    let link ← if lk = "-" then some none else (parseBytes lk).map some
    let infos ← parseInfos (← parseNat ni) rest
    pure { type := ← parseNat ty, depth := ← parseNat dp, ctype := ← parseNat ct, csize := ← parseNat cs,
           linesize := ← parseNat ls, assoc := ← parseInt as, total := ← parseNat tot, localMem := ← parseNat loc,
           upstream := ← parseNat up, pdomain := ← parseNat pd, pbus := ← parseNat pb, pdev := ← parseNat pv,
           pfunc := ← parseNat pf, vendor := ← parseNat ven, device := ← parseNat dev, classId := ← parseNat cls,
           link := link, className := ← parseBytes cn, ddomain := ← parseNat dd, secBus := ← parseNat sb,
           subBus := ← parseNat su, ostypes := ← parseHex os, infos := infos }
  | _ => none

def b01 (b : Bool) : String := if b then "1" else "0"

def showWritten (p : Parsed) (attr : Option Nat) : String :=
  -- the harness prints the fields of the struct selected by the resulting type; unwritten = 0xEE fill
  let w := writeBack p attr
  let ee32 := 4008636142
  let ee64 := "eeeeeeeeeeeeeeee"
  match attr with
  | none => "null"
  | some _ =>
    if isCache p.type then
      match w with | .cache d c => s!"cache {d} {c}" | _ => s!"cache {ee32} {ee32}"
    else if p.type = T_GROUP then
      match w with | .group d => s!"group {d}" | _ => s!"group {ee32}"
    else if p.type = T_BRIDGE then
      match w with | .bridge u d => s!"bridge {u} {d}" | _ => s!"bridge {ee32} {ee32}"
    else if p.type = T_OS_DEVICE then
      match w with | .osdev t => s!"osdev {toHex t}" | _ => s!"osdev {ee64}"
    else "none"

def showSsc (s : Bytes) (attr : Option Nat) : String :=
  match typeSscanf s with
  | .oobS => "R oobS"
  | .oobT => "R oobT"
  | .ok none => "R -1"
  | .ok (some p) => s!"R 0 {p.type} {showWritten p attr}"

/-- content of the caller buffer up to and including the first NUL -/
def showCur (c : Cur) (isNull : Bool) : String :=
  if c.oob then s!"P {c.ret} OVERFLOW" else
  if isNull || c.size = 0 then s!"P {c.ret} -" else
  let cells := (List.range c.size).map c.buf
  let rec upto : List (Option Nat) → List Nat → Option (List Nat)
    | [], _ => none
    | none :: _, _ => none
    | some 0 :: _, acc => some acc.reverse
    | some v :: r, acc => upto r (v :: acc)
  match upto cells [] with
  | some b => s!"P {c.ret} {showBytes b}"
  | none => s!"P {c.ret} NONUL"

def step (st : State) (line : String) : State × String :=
  let bad := (st, "bad-op")
  match tokens line with
  | ["cmp", a, b] =>
    match parseNat a, parseNat b with
    | some x, some y =>
      if x < typeMax ∧ y < typeMax then
        match compareTypes x y with
        | none => (st, "V U")
        | some v => (st, s!"V {v}")
      else bad
    | _, _ => bad
  | ["kind", a] =>
    match parseNat a with
    | some t => (st, s!"K {b01 (isNormal t)} {b01 (isMemory t)} {b01 (isIO t)} {b01 (isCache t)} {b01 (isDCache t)} {b01 (isICache t)}")
    | none => bad
  | ["tstr", a] =>
    match parseNat a with
    | some t => (st, "S " ++ showBytes (typeString t))
    | none => bad
  | ["ssc", m, h] =>
    match parseSize m, parseBytes h with
    | some attr, some s => (st, showSsc s attr)
    | _, _ => bad
  | "tsn" :: f :: sz :: obj =>
    match parseNat f, parseSize sz, parseObj obj with
    | some flags, some size, some o =>
      match typeSnprintf o flags (size.getD 0) with
      | none => (st, "P loops")
      | some c => (st, showCur c size.isNone)
    | _, _, _ => bad
  | "asn" :: f :: sz :: sep :: obj =>
    match parseNat f, parseSize sz, parseBytes sep, parseObj obj with
    | some flags, some size, some sp, some o => (st, showCur (attrSnprintf o sp flags (size.getD 0)) size.isNone)
    | _, _, _, _ => bad
  | "rt" :: f :: obj =>
    match parseNat f, parseObj obj with
    | some flags, some o =>
      match typeText o flags with
      | none => (st, "T loops")
      | some txt =>
        let m := match typeSscanf txt with
          | .ok (some p) => attrsAgree o p
          | _ => false
        (st, s!"T {showBytes txt} {showSsc txt (some sizeofAttr)} match={b01 m}")
    | _, _ => bad
  | "rtl" :: f :: obj =>
    match parseNat f, parseObj obj with
    | some flags, some o =>
      match typeText o flags with
      | none => (st, "T loops")
      | some txt =>
        let m := match typeSscanf txt with
          | .ok (some p) => attrsAgree o p
          | _ => false
        (st, s!"T {showBytes txt} {showSsc txt (some sizeofAttr)} match={b01 m}")
    | _, _ => bad
  | "lvl" :: _topo :: _depth :: _n :: f :: obj =>
    match parseNat f, parseObj obj with
    | some flags, some o =>
      match typeText o flags with
      | none => (st, "L loops")
      | some txt => (st, "L same " ++ showBytes txt)
    | _, _ => bad
  | _ => bad

end Driver.TypeStrEng
