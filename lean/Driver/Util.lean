/- Driver.Util — parsing/printing helpers for the line protocol (no proofs here). -/
import Hw.Base.Basic
namespace Driver

def hexDigitVal (c : Char) : Option Nat :=
  if '0' ≤ c ∧ c ≤ '9' then some (c.toNat - '0'.toNat)
  else if 'a' ≤ c ∧ c ≤ 'f' then some (c.toNat - 'a'.toNat + 10)
  else if 'A' ≤ c ∧ c ≤ 'F' then some (c.toNat - 'A'.toNat + 10)
  else none

def parseHex (s : String) : Option Nat :=
  if s.isEmpty then none else
  s.foldl (fun acc c => match acc, hexDigitVal c with
    | some a, some d => some (a * 16 + d)
    | _, _ => none) (some 0)

def hexChar (d : Nat) : Char :=
  if d < 10 then Char.ofNat ('0'.toNat + d) else Char.ofNat ('a'.toNat + d - 10)

partial def toHex (n : Nat) : String :=
  if n < 16 then String.singleton (hexChar n) else toHex (n / 16) ++ String.singleton (hexChar (n % 16))

def parseWord (s : String) : Option Hw.Word := (parseHex s).map (BitVec.ofNat 64)
def wordHex (w : Hw.Word) : String := toHex w.toNat

def parseInt (s : String) : Option Int := s.toInt?
def parseNat (s : String) : Option Nat := s.toNat?

def tokens (line : String) : List String :=
  (line.trimAscii.toString.splitOn " ").filter (· ≠ "")

/-- read stdin line by line, feeding each line to `step`, printing its output -/
partial def lineLoop {σ : Type} (h : IO.FS.Stream) (out : IO.FS.Stream) (st : σ)
    (step : σ → String → σ × String) : IO Unit := do
  let line ← h.getLine
  if line.isEmpty then
    out.flush
    return ()
  let (st', o) := step st line
  out.putStrLn o
  lineLoop h out st' step

end Driver
