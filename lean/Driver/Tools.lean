/- Driver.Tools — engine `tools` (C20): topology dump blocks (harness/dump.h) followed by tool runs.
   CALC <a|f> <stdin> <arg>*  hwloc-calc  -i <topology> <arg>*           -> rc=0 out=<stdout> | rc=nz | ...
   DISTRIB <a|f> <arg>*     hwloc-distrib -i <topology> <arg>*
   LRT <arg>*               --largest round trip: set(args) = set(output of --largest args)      -> same=1
   NI <level> <arg>*        -N <level> equals the number of entries of -I <level>                -> same=1
   SL <stdin> <opt>*        stdin mode line by line: output line k of `-q <opt>*` fed <stdin> equals the output of
                            `-q <opt>* <locations of line k>`                                      -> same=1 cmp=<n>
   LSTOPO / DIFFPATCH / BADARGS: the harness compares the tool with the library itself; the expected line is constant.
   Tokens are %XX-escaped byte strings (`%_` = empty string). -/
import Hw.Io.Calc
import Hw.Io.CalcAttr
import Driver.Topo
namespace Driver.ToolsEng
open Hw Hw.Topo Hw.Calc Driver

structure State where
  part : TopoEng.Partial := {}
  cur : Option Dump := none
  extra : Extra := {}          -- CPU kinds and memory attribute values of the current topology (X* lines after the dump block)

def init : State := {}

def unesc (s : String) : Option (List Nat) :=
  if s = "%_" then some [] else
  let rec go : List Char → List Nat → Option (List Nat)
    | [], acc => some acc.reverse
    | '%' :: a :: b :: r, acc => match hexDigitVal a, hexDigitVal b with
      | some x, some y => go r ((x * 16 + y) :: acc)
      | _, _ => none
    | '%' :: _, _ => none
    | c :: r, acc => go r (c.toNat :: acc)
  go s.toList []

def safeByte (b : Nat) : Bool := b > 32 && b < 127 && b != 37

def esc (l : List Nat) : String :=
  if l.isEmpty then "%_" else
  String.join (l.map (fun b => if safeByte b then String.singleton (Char.ofNat b)
    else "%" ++ String.singleton (hexChar (b / 16)) ++ String.singleton (hexChar (b % 16))))

/-- `<n> (c <set> <value> | o <type> <gp> <value>)*` -/
def parseInits : Nat → List String → Option (List (XInit × Nat))
  | 0, [] => some []
  | n+1, "c" :: set :: v :: r => do
    let m ← TopoEng.parseSet set
    let v ← parseNat v
    let rest ← parseInits n r
    pure ((XInit.cpuset (m.getD 0), v) :: rest)
  | n+1, "o" :: ty :: gp :: v :: r => do
    let ty ← parseNat ty
    let gp ← parseNat gp
    let v ← parseNat v
    let rest ← parseInits n r
    pure ((XInit.obj ty gp, v) :: rest)
  | _, _ => none

def parsePairs : Nat → List String → Option (List (Bytes × Bytes))
  | 0, [] => some []
  | n+1, a :: b :: r => do
    let a ← unesc a
    let b ← unesc b
    let rest ← parsePairs n r
    pure ((a, b) :: rest)
  | _, _ => none

def updAttr (x : Extra) (id : Nat) (f : XAttr → XAttr) : Option Extra :=
  match x.attrs[id]? with
  | none => none
  | some a => some { x with attrs := x.attrs.set id (f a) }

/-- the lines the harness sends after a dump block: what the public API reports about CPU kinds and memory attributes -/
def feedExtra (x : Extra) (t : List String) : Option Extra :=
  match t with
  | "XKIND" :: set :: eff :: n :: rest => do
    let m ← TopoEng.parseSet set
    let e ← parseInt eff
    let n ← parseNat n
    let infos ← parsePairs n rest
    pure { x with kinds := x.kinds ++ [{ cpuset := m.getD 0, eff := e, infos := infos }] }
  | ["XATTR", id, flags, name] => do
    let id ← parseNat id
    let fl ← parseNat flags
    let nm ← unesc name
    if id != x.attrs.length then none else pure { x with attrs := x.attrs ++ [{ name := nm, flags := fl }] }
  | ["XVAL", id, gp, v] => do
    let id ← parseNat id
    let gp ← parseNat gp
    let v ← parseNat v
    updAttr x id (fun a => { a with values := a.values ++ [(gp, v)] })
  | "XINI" :: id :: gp :: n :: rest => do
    let id ← parseNat id
    let gp ← parseNat gp
    let n ← parseNat n
    let is ← parseInits n rest
    updAttr x id (fun a => { a with inits := a.inits ++ [(gp, some is)] })
  | ["XINIERR", id, gp] => do
    let id ← parseNat id
    let gp ← parseNat gp
    updAttr x id (fun a => { a with inits := a.inits ++ [(gp, none)] })
  | _ => none

def showRes (r : Res) : String :=
  match r with
  | .exit 0 (some o) => "rc=0 out=" ++ esc o
  | .exit 0 none => "rc=0 out=?"
  | .exit _ _ => "rc=nz"
  | .skip why => "skip:" ++ why

/-- the set printed by a plain run (list format), if the run succeeds -/
def plainSet (d : Dump) (x : Extra) (args : List (List Nat)) : Option (List Nat) :=
  match calcMainX d x (str "--cof" :: str "list" :: args) [] with
  | .exit 0 (some o) => some o
  | _ => none

def splitSpaces (o : List Nat) : List (List Nat) := tokensOf o

/-- the lines of an output that ends with a newline (or is empty); `none` otherwise -/
def outLines (o : List Nat) : Option (List (List Nat)) :=
  if o.isEmpty then some [] else
  if o.getLast? != some 10 then none else some (linesOf o)

/-- the SL relation evaluated on the model (mirrors `op_sl` of harness/h_tools.c) -/
def slAnswer (d : Dump) (x : Extra) (opts : List (List Nat)) (sin : List Nat) : String :=
  let lines := linesOf sin
  if sin.any (· == 0) then "na" else
  if lines.any (fun l => (tokensOf l).any (fun t => t.head? == some 45)) then "na" else
  match calcMainX d x opts sin with
  | .skip w => "skip:" ++ w
  | .exit 0 none => "skip:stdout-unpredicted"
  | .exit 0 (some o) =>
    match outLines o with
    | none => "na"
    | some outs =>
      if outs.length != lines.length then "na" else
      let rec go : List (List Nat × List Nat) → Nat → String
        | [], cmp => "same=1 cmp=" ++ toString cmp
        | (l, o) :: r, cmp =>
          let toks := tokensOf l
          if toks.isEmpty then go r cmp else
          match calcMainX d x (opts ++ toks) [] with
          | .skip w => "skip:" ++ w
          | .exit 0 none => "skip:stdout-unpredicted"
          | .exit 0 (some ok) =>
            if ok.isEmpty then go r cmp
            else if ok == o ++ [10] then go r (cmp + 1) else "same=0"
          | .exit _ _ => go r cmp
      go (lines.zip outs) 0
  | .exit _ _ => "na"

def answer (d : Dump) (x : Extra) (t : List String) : Option String :=
  match t with
  | "CALC" :: _ :: sin :: args => do
    let sin ← unesc sin
    let args ← args.mapM unesc
    pure (showRes (calcMainX d x args sin))
  | "DISTRIB" :: _ :: args => do
    let args ← args.mapM unesc
    pure (showRes (distribMain d args))
  | "LRT" :: args => do
    let args ← args.mapM unesc
    match calcMainX d x (str "--largest" :: args) [], plainSet d x args with
    | .exit 0 (some o), some s1 =>
      if (splitSpaces o).isEmpty then pure "na" else
      let back := if args.head? == some (str "-p") then str "-p" :: splitSpaces o else splitSpaces o
      match plainSet d x back with
      | some s2 => pure (if s1 == s2 then "same=1" else "same=0")
      | none => pure "na"
    | .skip w, _ => pure ("skip:" ++ w)
    | _, _ => pure "na"
  | "NI" :: lvl :: args => do
    let lvl ← unesc lvl
    let args ← args.mapM unesc
    match calcMainX d x (str "-N" :: lvl :: args) [], calcMainX d x (str "-I" :: lvl :: args) [] with
    | .exit 0 (some n), .exit 0 (some l) =>
      let items := (splitOnP (· == 44) (l.filter (· != 10)) []).filter (fun x => !x.isEmpty)
      let nn := n.filter (· != 10)
      if nn.isEmpty || !nn.all isDigitB then pure "na" else
      pure (if nn == decDigits items.length then "same=1" else "same=0")
    | .skip w, _ => pure ("skip:" ++ w)
    | _, .skip w => pure ("skip:" ++ w)
    | _, _ => pure "na"
  | "SL" :: sin :: args => do
    let sin ← unesc sin
    let args ← args.mapM unesc
    pure (slAnswer d x (str "-q" :: args) sin)
  | ["LSTOPO", _, _, _, _, lib] => pure (if lib = "lib=ok" then "rc=0 same=1 reload=1" else "rc=nz")
  | ["DIFFPATCH", _, cx, _, _] => pure (if cx = "complex=0" then "diff=0 patch=0 equiv=1" else if cx = "complex=1" then "diff=nz" else "bad-op")
  | "BADARGS" :: _ => pure "rc=nz"
  | _ => none

def step (st : State) (line : String) : State × String :=
  let t := tokens line
  match t with
  | "ENUM" :: _ => (st, if (" ".intercalate t) = TopoEng.enumLine then "ENUM ok" else "ENUM MISMATCH")
  | "LOAD" :: _ => (st, ".")
  | "TOPO" :: _ | "O" :: _ | "L" :: _ | "TD" :: _ :: [] | "END" :: _ =>
    let (p', r) := TopoEng.feed st.part t
    match r with
    | none => ({ st with part := p' }, ".")
    | some (.error e) => ({ st with part := p', cur := none }, "T FAIL dump-unparsable:" ++ e)
    | some (.ok d) => ({ st with part := p', cur := some d, extra := {} }, "T ok")
  | "XKIND" :: _ | "XATTR" :: _ | "XVAL" :: _ | "XINI" :: _ | "XINIERR" :: _ =>
    match feedExtra st.extra t with
    | some x => ({ st with extra := x }, ".")
    | none => (st, "bad-extra-line")
  | _ =>
    match st.cur with
    | none => (st, "no-topology")
    | some d => (st, (answer d st.extra t).getD "bad-op")

end Driver.ToolsEng
