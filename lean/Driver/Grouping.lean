/- Driver.Grouping — prediction of the Groups inserted by `hwloc_distances_add_commit(..., GROUP)` at the default accuracy
   (engine `distances`, C13): the rounds come from `Hw.Grouping.rounds` (model of `hwloc__groups_by_distances`), every Group
   of every round is pushed through the model of `hwloc_topology_insert_group_object` (`Hw.Topo.Ins.insertGroup`, the one the
   C02 engine uses) on the tree of the dump taken BEFORE the commit; the predicted tree is compared with the tree of the dump
   taken AFTER the commit, and the after-dump is judged by the C01 oracle.  The composition itself is `Hw.Grouping.walk`. -/
import Hw.Attr.GroupingWalk
import Driver.Topo
namespace Driver.GroupingEng
open Hw.Topo Driver

/-- split a token list at a separator token -/
def splitTok (sep : String) (ts : List String) : List (List String) :=
  let r := ts.foldl (fun (st : List String × List (List String)) t =>
    if t = sep then ([], st.1.reverse :: st.2) else (t :: st.1, st.2)) ([], [])
  (r.1.reverse :: r.2).reverse

def parseDump (ts : List String) : Except String Dump :=
  let r := (splitTok ";;" ts).foldl (fun (st : TopoEng.Partial × Option (Except String Dump)) l =>
    if l.isEmpty then st else
    match TopoEng.feed st.1 l with
    | (p', some x) => (p', some x)
    | (p', none) => (p', st.2)) ({}, none)
  match r.2 with
  | some x => x
  | none => .error "dump-incomplete"

def treeOf (d : Dump) : Ins.T :=
  match d.objs[d.root.toNat]? with
  | some r => Ins.treeH d d.fuel r
  | none => .node default []

def mapGp (f : Nat → Nat) : Ins.T → Ins.T
  | .node o kids => .node { o with gp := f o.gp } (mapGpL f kids)
where mapGpL (f : Nat → Nat) : List Ins.T → List Ins.T
  | [] => []
  | c :: cs => mapGp f c :: mapGpL f cs

def findT (g : Nat) : Ins.T → Option Ins.T
  | .node o kids => if o.gp == g then some (.node o kids) else findTL g kids
where findTL (g : Nat) : List Ins.T → Option Ins.T
  | [] => none
  | c :: cs => match findT g c with | some x => some x | none => findTL g cs

/-- nodeset of a node of the predicted tree: the one of the before-dump for an old object, the union of the children's for a new
Group (`hwloc_obj_add_children_sets` on a Group whose nodesets were dropped before the insertion) -/
def nodesetOf (d : Dump) : Ins.T → Nat
  | .node o kids =>
    match d.objs.find? (fun x => x.gp == o.gp) with
    | some x => nsOf x
    | none => nodesetL d kids
where nodesetL (d : Dump) : List Ins.T → Nat
  | [] => 0
  | c :: cs => nodesetOf d c ||| nodesetL d cs

def PLACEHOLDER : Nat := 1099511627776

structure Outcome where
  text : String            -- what the harness prints after "ok" when everything is as predicted
  subkind : Nat

/-- prediction + judgement for one successful commit with the GROUP flag.
`objs`/`vals`/`kind`/`hetero` are the committed structure's; `before`/`after` the two dumps. -/
def predict (before after : Dump) (n : Nat) (gps : List Nat) (vals : List Nat) (kind : Nat) (hetero : Bool) (subkind : Nat) : Outcome :=
  match before.objs[before.root.toNat]? with
  | none => ⟨" BAD-before-dump-without-root", subkind⟩
  | some root =>
    let M : Hw.Grouping.Mat := fun i j => vals.getD (i * n + j) 0
    let setOf (g : Nat) : Nat := match before.objs.find? (fun x => x.gp == g) with | some x => cs x | none => 0
    let sets0 : Nat → Nat := fun i => setOf (gps.getD i 0)
    let rs := if hetero then [] else Hw.Grouping.rounds kind n n M true
    let numas := (before.objs.filter (fun o => o.type == tNUMA)).map (fun o => (o.osidx.toNat, cs o))
    let t0 := treeOf before
    -- the model of the whole commit: rounds, Group objects, insertions (`Hw.Grouping.walk`, proved to keep the tree laminar)
    let env : Hw.Grouping.GEnv := ⟨(before.filters[tGROUP]?).getD 0, cs root, nsOf root, numas⟩
    let (tree, sk) := Hw.Grouping.walk env rs sets0 subkind PLACEHOLDER t0
    -- the Groups really inserted: the placeholder gp_index values present in the final tree, in creation order
    let total := rs.foldl (fun a r => a + r.nb) 0
    let inserted := ((List.range total).map (PLACEHOLDER + ·)).filter (fun g => (Ins.objsT tree).any (fun o => o.gp == g))
    -- the Groups that appeared: objects of the after-dump whose gp_index the before-dump does not have, by gp_index
    let newObjs := (after.objs.filter (fun o => !(before.objs.any (fun p => p.gp == o.gp)))).toArray.qsort (fun a b => a.gp < b.gp) |>.toList
    let newGps := newObjs.map (·.gp)
    let relabel (g : Nat) : Nat := match inserted.idxOf? g with | some i => newGps.getD i g | none => g
    let pred := mapGp relabel tree
    let groupsTxt := inserted.foldl (fun s g =>
      match findT g tree with
      | some (.node o kids) => s ++ " G " ++ toHex o.key ++ " " ++ toHex (nodesetOf before (.node o kids)) ++ " " ++ toString o.kind ++ " " ++ toString o.subkind
      | none => s ++ " G lost") ""
    let judge : List String :=
      (if Ins.lamB t0 then [] else ["group-precondition-tree-not-laminar"]) ++
      (if newObjs.all (fun o => o.type == tGROUP) then [] else ["new-object-not-a-Group"]) ++
      (if newGps.length == inserted.length then [] else ["group-count-differs:model=" ++ toString inserted.length ++ ",C=" ++ toString newGps.length]) ++
      (if Ins.rows 0 pred == Ins.rows 0 (treeOf after) then [] else ["tree-after-grouping-differs-from-model"]) ++
      (let wf := wfCheck after ++ Hw.Topo.Restrict.renderCheck after ++ Hw.Topo.Sym.symCheck after
       if wf.isEmpty then [] else ["C01:" ++ ",".intercalate (wf.take 4)])
    ⟨groupsTxt ++ (if judge.isEmpty then "" else " JUDGE " ++ " ".intercalate judge), sk⟩

end Driver.GroupingEng
