/- Driver.Strings — line protocol for the `strings` engine (C04). -/
import Hw.Bitmap.Scan
import Hw.Bitmap.ScanCursor
import Driver.Util
namespace Driver.StringsEng
open Hw Driver

def hex2 (n : Nat) : String := String.singleton (hexChar (n / 16)) ++ String.singleton (hexChar (n % 16))

def bytesHex (bs : List Nat) : String :=
  if bs.isEmpty then "-" else bs.foldl (fun s b => s ++ hex2 b) ""

partial def parseBytes (s : String) : Option (List Nat) :=
  if s = "-" then some [] else
  let cs := s.toList
  let rec go : List Char → List Nat → Option (List Nat)
    | [], acc => some acc.reverse
    | a :: b :: r, acc => match hexDigitVal a, hexDigitVal b with
      | some x, some y => go r ((x * 16 + y) :: acc)
      | _, _ => none
    | _, _ => none
  go cs []

def parseBitmap (inf : String) (ws : List String) : Option Bitmap := do
  let ws ← ws.mapM parseWord
  if ws.isEmpty then none
  else pure ⟨ws, inf = "1"⟩

def chunksOf (fmt : String) (b : Bitmap) : Option (List (List Nat)) :=
  match fmt with
  | "hwloc" => some b.chunksHwloc
  | "list" => some b.chunksList
  | "taskset" => some b.chunksTaskset
  | _ => none

def showCur (cap : Nat) (c : Cur) : String :=
  let cells := (List.range cap).foldl (fun s i => s ++ (match c.buf.get i with | some v => hex2 v | none => "--")) ""
  let oob := c.buf.writes.any (fun w => decide (cap ≤ w))
  "ret " ++ toString c.ret ++ " buf " ++ (if cap = 0 then "-" else cells) ++ " oob " ++ (if oob then "1" else "0")

def showScan (r : Bitmap.ScanRes) : String :=
  match r with
  | .fail => "fail"
  | .unsupported => "unsupported"
  | .ok ws inf =>
    if ws.all Option.isSome then
      "ok " ++ toString ws.length ++ " " ++ (if inf then "1" else "0") ++
        ws.foldl (fun s w => s ++ " " ++ (match w with | some w => wordHex w | none => "?")) ""
    else "undef"

/-- answer of a parse op: the cursor-level model (`Hw.Bitmap.Cursor`) gives result, set, furthest index read and
the allocation; the structural model must agree wherever it is defined (else `model-mismatch`, which never
matches a harness line); the model's own logs are re-checked (`log-oob` never matches either) -/
def showParse (pre len : Nat) (old : Bitmap.ScanRes) (o : Bitmap.Cursor.Out) (isList : Bool) : String :=
  if isList && o.big then "unsupported" else
  let r := o.res.toScan
  if old != .unsupported && old != r then "model-mismatch" else
  if o.res == .assertFail then "model-assert" else
  let safe := o.log.reads.all (fun i => decide (i ≤ len)) &&
              o.log.writes.all (fun w => decide (0 ≤ w.1) && decide (w.1 < (w.2 : Int))) &&
              o.log.ustr.all (fun i => decide (i < 17))
  if !safe then "log-oob" else
  showScan r ++ " maxread " ++ toString o.log.maxRead ++
    (if isList then "" else " alloc " ++ toString (Bitmap.Cursor.allocFor pre o.nalloc))

/-- some run of 5 or more consecutive alphanumeric bytes -/
def longRun : List Nat → Nat → Bool
  | [], n => decide (5 ≤ n)
  | c :: cs, n =>
    if 5 ≤ n then true
    else if (48 ≤ c && c ≤ 57) || (65 ≤ c && c ≤ 90) || (97 ≤ c && c ≤ 122) then longRun cs (n + 1) else longRun cs 0

def step (u : Unit) (line : String) : Unit × String :=
  match tokens line with
  | "snprintf" :: fmt :: cap :: inf :: ws =>
    match parseNat cap, parseBitmap inf ws with
    | some cap, some b => match chunksOf fmt b with
      | some cs => (u, showCur cap (emitAll cap cs))
      | none => (u, "bad-op")
    | _, _ => (u, "bad-op")
  | "asprintf" :: fmt :: inf :: ws =>
    match parseBitmap inf ws with
    | some b => match chunksOf fmt b with
      | some cs => (u, "ret " ++ toString (text cs).length ++ " str " ++ bytesHex (text cs))
      | none => (u, "bad-op")
    | none => (u, "bad-op")
  | "sscanf" :: fmt :: s :: more =>
    -- optional 4th token: `ulongs_allocated` of the fresh destination (HWLOC_BITMAP_PREALLOC_ULONGS), default 8
    let pre? : Option Nat := match more with
      | [] => some 8
      | [p] => parseNat p
      | _ => none
    match parseBytes s, pre? with
    | some bs, some pre =>
      if bs.any (· == 0) then (u, "bad-op") else
      match fmt with
      | "hwloc" => (u, showParse pre bs.length (Bitmap.hwlocScan bs) (Bitmap.Cursor.hwlocSscanfC bs) false)
      | "list" =>
        -- the structural list model is re-run as a cross-check only when it is cheap (no number of 5+ digits: the
        -- bitmap set/set_range models are quadratic in the word count); `C04_list_sscanf_refines` proves the
        -- two models equal on the structural domain for every string, so nothing is lost when it is skipped
        let o := Bitmap.Cursor.listSscanfC bs
        let old := if longRun bs 0 then o.res.toScan else Bitmap.listScan bs
        (u, showParse pre bs.length old o true)
      | "taskset" => (u, showParse pre bs.length (Bitmap.tasksetScan bs) (Bitmap.Cursor.tasksetSscanfC bs) false)
      | _ => (u, "bad-op")
    | _, _ => (u, "bad-op")
  | _ => (u, "bad-op")

end Driver.StringsEng
