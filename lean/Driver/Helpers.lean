/- Driver.Helpers — engine `helpers` (C09): reads topology dump blocks (harness/dump.h) followed by query lines and
   answers every query from the model (Hw.Topo.Helpers / Distrib); where a brute-force definition exists it is
   evaluated too and a disagreement between the two is reported in the answer (which then differs from the C). -/
import Hw.Topo.Helpers
import Hw.Io.Calc
import Hw.Topo.Distrib
import Hw.Topo.WFLemmas
import Driver.Topo
namespace Driver.HelpersEng
open Hw.Topo Driver

structure State where
  part : TopoEng.Partial := {}
  cur : Option Dump := none

def init : State := {}

def idOf (o : Option Obj) : String := match o with | none => "-1" | some o => toString o.id
def ids (l : List Obj) : String := " ".intercalate (l.map (fun o => toString o.id))
def withList (n : String) (l : List Obj) : String := if l.isEmpty then n else n ++ " " ++ ids l

/-- an object argument: a valid id of the current dump -/
def getObj (d : Dump) (s : String) : Option Obj := (parseInt s).bind d.obj?
/-- a pointer argument: -1 = NULL -/
def getPtr (d : Dump) (s : String) : Option (Option Obj) :=
  match parseInt s with
  | none => none
  | some i => if i == -1 then some none else (d.obj? i).map some

def optStr (s : String) : Option (Option String) := TopoEng.hexStr s

def guard (small : Bool) (name : String) (ok : Bool) (ans : String) : String :=
  if small && !ok then ans ++ " BRUTE-MISMATCH:" ++ name else ans

def answer (d : Dump) (t : List String) : Option String :=
  let small := d.objs.length ≤ 160
  match t with
  | ["COV", s] => do
    let S ← parseHex s
    let r := objCovering d S
    let ok := match r, bruteObjCovering d S with
      | none, none => true
      | some a, some b => a.id == b.id
      | none, some _ => !(match d.rootObj? with | some rt => subset S (cs rt) | none => false)
      | some _, none => false
    pure (guard small "covering" ok (idOf r))
  | ["CHC", s, p] => do
    let S ← parseHex s; let p ← getObj d p
    pure (idOf (childCovering d S p))
  | ["FLG", s] => do
    let S ← parseHex s
    pure (idOf (firstLargest d S))
  | ["LRG", s, m] => do
    let S ← parseHex s; let m ← parseInt m
    let (ret, l) := largestObjs d S m
    let ok := if ret < 0 || ret ≥ m then true else (l.map (·.id)) == ((bruteLargest d S).map (·.id))
    pure (guard small "largest" ok (withList (toString ret) l))
  | ["NXI", s, dp, pv] => do
    let S ← parseHex s; let dp ← parseInt dp; let pv ← getPtr d pv
    pure (idOf (nextInsideByDepth d S dp pv))
  | ["NXT", s, ty, pv] => do
    let S ← parseHex s; let ty ← parseInt ty; let pv ← getPtr d pv
    pure (idOf (nextInsideByType d S ty pv))
  | ["OIN", s, dp, ix] => do
    let S ← parseHex s; let dp ← parseInt dp; let ix ← parseNat ix
    let r := objInsideByDepth d S dp ix
    let ok := !small || idOf r == idOf ((bruteInside d S dp)[ix]?)
    pure (guard small "obj-inside" ok (idOf r))
  | ["OIT", s, ty, ix] => do
    let S ← parseHex s; let ty ← parseInt ty; let ix ← parseNat ix
    pure (idOf (objInsideByType d S ty ix))
  | ["NBI", s, dp] => do
    let S ← parseHex s; let dp ← parseInt dp
    let r := nbobjsInsideByDepth d S dp
    let ok := !small || r == (bruteInside d S dp).length
    pure (guard small "nbobjs-inside" ok (toString r))
  | ["NBT", s, ty] => do
    let S ← parseHex s; let ty ← parseInt ty
    pure (toString (nbobjsInsideByType d S ty))
  | ["IDX", s, o] => do
    let S ← parseHex s; let o ← getObj d o
    pure (toString (indexInside d S o))
  | ["NXC", s, dp, pv] => do
    let S ← parseHex s; let dp ← parseInt dp; let pv ← getPtr d pv
    let r := nextCoveringByDepth d S dp pv
    let ok := !small || (match pv with
      | none => idOf r == idOf ((bruteCovering d S dp).head?)
      | some _ => true)
    pure (guard small "next-covering" ok (idOf r))
  | ["NCT", s, ty, pv] => do
    let S ← parseHex s; let ty ← parseInt ty; let pv ← getPtr d pv
    pure (idOf (nextCoveringByType d S ty pv))
  | ["ABD", dp, o] => do
    let dp ← parseInt dp; let o ← getObj d o
    pure (idOf (ancestorByDepth d dp o))
  | ["ABT", ty, o] => do
    let ty ← parseInt ty; let o ← getObj d o
    pure (idOf (ancestorByType d ty o))
  | ["CA", a, b] => do
    let a ← getObj d a; let b ← getObj d b
    let r := commonAncestor d a b
    pure (guard true "common-ancestor" (idOf r == idOf (bruteCommonAncestor d a b)) (idOf r))
  | ["SUB", a, b] => do
    let a ← getObj d a; let b ← getObj d b
    pure (if isInSubtree a b then "1" else "0")
  | ["CLO", o, m] => do
    let o ← getObj d o; let m ← parseNat m
    let l := closestObjs d o m
    pure (withList (toString l.length) l)
  | ["C2N", s] => do
    let S ← parseHex s
    let r := cpusetToNodeset d S
    pure (guard true "cpuset-to-nodeset" (r == bruteCpusetToNodeset d S) (toHex r))
  | ["N2C", s] => do
    let N ← parseHex s
    let r := cpusetFromNodeset d N
    pure (guard true "cpuset-from-nodeset" (r == bruteCpusetFromNodeset d N) (toHex r))
  | ["LOC", o, ty, st, pre, fl] => do
    let o ← getObj d o; let ty ← parseInt ty; let st ← optStr st; let pre ← optStr pre; let fl ← parseNat fl
    pure (match sameLocality d o ty st pre fl with
      | .ok r => toString r.id
      | .error .EINVAL => "EINVAL"
      | .error .ENOENT => "ENOENT")
  | ["SPC", s, w] => do
    let S ← parseHex s; let w ← parseNat w
    pure (toHex (singlifyPerCore d S w))
  | ["CTD", lv, ct] => do
    let lv ← parseInt lv; let ct ← parseInt ct
    pure (toString (cacheTypeDepth d lv ct))
  | ["CCV", s] => do
    let S ← parseHex s
    pure (idOf (cacheCovering d S))
  | ["SCC", o] => do
    let o ← getObj d o
    pure (idOf (sharedCacheCovering d o))
  | ["TYD", ty] => do
    let ty ← parseInt ty
    pure (toString (typeDepth d ty))
  | ["TDA", ty, gd] => do
    let ty ← parseInt ty; let gd ← parseNat gd
    -- hwloc_get_type_depth_with_attr (the model written for hwloc-calc, C20): only Groups at several depths consult the attribute
    pure (toString (Hw.Calc.typeDepthWithAttr d { type := ty.toNat, depth := gd }))
  | ["DT", dp] => do
    let dp ← parseInt dp
    pure (toString (depthType d dp))
  | ["NOT", ty] => do
    let ty ← parseInt ty
    pure (toString (nbobjsByType d ty))
  | ["OBT", ty, ix] => do
    let ty ← parseInt ty; let ix ← parseNat ix
    pure (idOf (objByType d ty ix))
  | ["OBD", dp, ix] => do
    let dp ← parseInt dp; let ix ← parseNat ix
    pure (idOf (objByDepth d dp ix))
  | ["NBD", dp, pv] => do
    let dp ← parseInt dp; let pv ← getPtr d pv
    pure (idOf (nextByDepth d dp pv))
  | ["NBY", ty, pv] => do
    let ty ← parseInt ty; let pv ← getPtr d pv
    pure (idOf (nextByType d ty pv))
  | ["PUO", os] => do
    let os ← parseInt os
    pure (idOf (objByOsIndex d tPU os))
  | ["NNO", os] => do
    let os ← parseInt os
    pure (idOf (objByOsIndex d tNUMA os))
  | "DIS" :: n :: un :: fl :: nr :: roots => do
    let n ← parseNat n; let un ← parseInt un; let fl ← parseNat fl; let nr ← parseNat nr
    let rs ← roots.mapM (getObj d)
    if rs.length ≠ nr then none else
    pure (match distrib d rs n un fl with
      | none => "-1"
      | some sets => " ".intercalate ("0" :: sets.map toHex))
  | _ => none

def step (st : State) (line : String) : State × String :=
  let t := tokens line
  match t with
  | "ENUM" :: _ => (st, if (" ".intercalate t) = TopoEng.enumLine then "ENUM ok" else "ENUM MISMATCH")
  | "LOAD" :: _ => (st, ".")
  | "TOPO" :: _ | "O" :: _ | "L" :: _ | "TD" :: _ :: [] | "END" :: _ =>
    let (p', r) := TopoEng.feed st.part t
    match r with
    | none => ({ st with part := p' }, ".")
    | some (.error e) => ({ part := p', cur := none }, "T FAIL dump-unparsable:" ++ e)
    | some (.ok d) =>
      let v := wfCheck d
      let w := treeCheck d
      ({ part := p', cur := some d },
        if v.isEmpty && w.isEmpty then "T ok"
        else "T FAIL wf:" ++ ",".intercalate (v.take 6) ++ " tree:" ++ ",".intercalate w)
  | _ =>
    match st.cur with
    | none => (st, "no-topology")
    | some d => (st, (answer d t).getD "bad-op")

end Driver.HelpersEng
