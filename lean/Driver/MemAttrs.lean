/- Driver.MemAttrs — line protocol for the `memattrs` engine (C14).  See harness/h_memattrs.c for the
   op grammar.  Every line that cannot be parsed is answered with "bad-op". -/
import Hw.Attr.MemAttrs
import Driver.Util
namespace Driver.MemAttrsEng
open Hw.MemAttrs Driver

structure Slot where
  env : Env
  tbl : Table
  deriving Inhabited

abbrev State := Array (Option Slot)

def init (n : Nat) : State := Array.replicate n none

def errStr : Err → String
  | .EINVAL => "EINVAL" | .ENOENT => "ENOENT" | .EBUSY => "EBUSY"

def parseOptNat (s : String) : Option (Option Nat) :=
  if s = "-" then some none else (parseNat s).map some
def parseOptHex (s : String) : Option (Option Nat) :=
  if s = "-" then some none else (parseHex s).map some

/-- `type,gp,os,cpuset,eff,mem,subtype` -/
def parseObj (s : String) : Option Obj :=
  match s.splitOn "," with
  | [ty, gp, os, cs, eff, mem, sub] => do
    let ty ← parseNat ty
    let gp ← parseNat gp
    let os ← parseOptNat os
    let cs ← parseOptHex cs
    let eff ← parseHex eff
    let mem ← parseNat mem
    pure { type := ty, gp, os, cpuset := cs, effCpuset := eff, mem, subtype := if sub = "-" then none else some sub }
  | _ => none

/-- `<numaType> <roothex> <nobjs> <nnodes> obj... gp...` -/
def parseEnv (toks : List String) : Option Env :=
  match toks with
  | nt :: root :: no :: nn :: rest => do
    let nt ← parseNat nt
    let root ← parseHex root
    let no ← parseNat no
    let nn ← parseNat nn
    if rest.length ≠ no + nn then none else
    let objs ← (rest.take no).mapM parseObj
    let ngps ← (rest.drop no).mapM parseNat
    let nodes ← ngps.mapM (fun g => objs.find? (fun o => o.gp == g && o.type == nt))
    pure { numaType := nt, root, objs, nodes }
  | _ => none

def findGp (e : Env) (gp : Nat) : Option Obj := e.objs.find? (fun o => o.gp == gp)

/-- object reference: `null` or `g<gp>`; result: none = unparsable, some none = unknown gp -/
inductive Ref | bad | unknown | null | obj (o : Obj)

def parseRef (e : Env) (s : String) : Ref :=
  if s = "null" then .null
  else if s.startsWith "g" then
    match parseNat (s.drop 1).toString with
    | some gp => match findGp e gp with | some o => .obj o | none => .unknown
    | none => .bad
  else .bad

/-- location argument: `-`, `c:<hex>`, `c:null`, `o:g<gp>`, `o:null`, `x` -/
inductive LRef | bad | unknown | ok (l : LocArg) (o : Option Obj)

def parseLoc (e : Env) (s : String) : LRef :=
  if s = "-" then .ok .null none
  else if s = "x" then .ok .badType none
  else if s = "c:null" then .ok (.cpuset none) none
  else if s = "o:null" then .ok (.obj none) none
  else if s.startsWith "c:" then
    match parseHex (s.drop 2).toString with
    | some m => .ok (.cpuset (some m)) none
    | none => .bad
  else if s.startsWith "o:" then
    match parseRef e (s.drop 2).toString with
    | .obj o => .ok (.obj (some (o.type, o.gp))) (some o)
    | .unknown => .unknown
    | _ => .bad
  else .bad

def showLoc : Loc → String
  | .cpuset m => "c:" ++ toHex m
  | .obj t g => "o:" ++ toString t ++ "," ++ toString g

def showPairs (vals : Bool) (l : List (Nat × Nat)) : String :=
  l.foldl (fun s p => s ++ " " ++ toString p.1 ++ (if vals then "=" ++ toString p.2 else "")) ""

def showInits (vals : Bool) (l : List Init) : String :=
  l.foldl (fun s i => s ++ " " ++ showLoc i.loc ++ (if vals then "=" ++ toString i.value else "")) ""

def showAttrs (tbl : Table) : String :=
  let body := ((List.range tbl.length).zip tbl).foldl
    (fun s p => s ++ " " ++ toString p.1 ++ ":" ++ p.2.name ++ ":" ++ toString p.2.flags) ""
  "A " ++ toString tbl.length ++ body

def showDump (e : Env) (id : Nat) (a : Attr) : String :=
  if a.conv then
    let l := convTargets e id
    "D " ++ toString l.length ++ showPairs true l
  else if a.needInit then
    "D " ++ toString a.targets.length ++ a.targets.foldl (fun s t =>
      s ++ " " ++ toString t.gp ++ "[" ++ toString t.inits.length ++ showInits true t.inits ++ " ]") ""
  else
    "D " ++ toString a.targets.length ++ showPairs true (a.targets.map (fun t => (t.gp, t.noinit)))

def bool01 (s : String) : Option Bool := if s = "0" then some false else if s = "1" then some true else none

def step (st : State) (line : String) : State × String :=
  let bad := (st, "bad-op")
  let slotOf (t : String) : Option (Nat × Option Slot) := do
    let i ← parseNat t
    let s ← st[i]?
    pure (i, s)
  let put (i : Nat) (s : Slot) (o : String) : State × String := (st.setIfInBounds i (some s), o)
  match tokens line with
  | ["load", t, _] => match slotOf t with | some _ => (st, "ok") | none => bad
  | ["restrict", t, _, _] => match slotOf t with | some _ => (st, "done") | none => bad
  | ["dup", d, s] => match slotOf d, slotOf s with | some _, some _ => (st, "done") | _, _ => bad
  | ["xml", d, s] => match slotOf d, slotOf s with | some _, some _ => (st, "done") | _, _ => bad
  | ["setmem", t, _, _] => match slotOf t with | some _ => (st, "done") | none => bad
  | ["subtype", t, _, _] => match slotOf t with | some _ => (st, "done") | none => bad
  | ["misc", t, _, _] => match slotOf t with | some _ => (st, "done") | none => bad
  | "env" :: t :: how :: rest =>
    match slotOf t, parseEnv rest with
    | some (i, cur), some e =>
      if how = "load" then put i { env := e, tbl := defaults } "ok"
      else if how = "mod" then
        match cur with | some s => put i { s with env := e } "ok" | none => bad
      else if how = "restrict:ok" then
        match cur with | some s => put i { env := e, tbl := needRefresh s.tbl } "ok" | none => bad
      else if how = "restrict:EINVAL" then
        match cur with | some s => put i { s with env := e } "ok" | none => bad
      else if how.startsWith "dup:" then
        match slotOf (how.drop 4).toString with
        | some (_, some s) => put i { env := e, tbl := dup s.tbl } "ok"
        | _ => bad
      else if how.startsWith "xml:" then
        match slotOf (how.drop 4).toString with
        | some (_, some s) => put i { env := e, tbl := xmlRoundTrip e s.tbl } "ok"
        | _ => bad
      else bad
    | _, _ => bad
  | op :: t :: args =>
    match slotOf t with
    | none => bad
    | some (_, none) => (st, "noslot")
    | some (i, some s) =>
      let e := s.env
      let upd (tbl : Table) (o : String) : State × String := put i { s with tbl := tbl } o
      match op, args with
      | "attrs", [] => (st, showAttrs s.tbl)
      | "refresh", [] => upd (refreshAll e s.tbl) "ok"
      | "register", [name, fl] =>
        match parseNat fl with
        | some fl =>
          match register s.tbl name fl with
          | (tbl, .ok id) => upd tbl ("ok " ++ toString id)
          | (tbl, .error er) => upd tbl (errStr er)
        | none => bad
      | "set", [id, tg, loc, fl, v] =>
        match parseNat id, parseRef e tg, parseLoc e loc, parseNat fl, parseNat v with
        | some id, tg, .ok l _, some fl, some v =>
          (match tg with
           | .bad => bad
           | .unknown => (st, "noobj")
           | tg =>
             let tgo := match tg with | .obj o => some o | _ => none
             match setValue e s.tbl id tgo l fl v with
             | (tbl, .ok _) => upd tbl "ok"
             | (tbl, .error er) => upd tbl (errStr er))
        | some _, _, .unknown, some _, some _ => (st, "noobj")
        | _, _, _, _, _ => bad
      | "get", [id, tg, loc, fl] =>
        match parseNat id, parseRef e tg, parseLoc e loc, parseNat fl with
        | some id, tg, .ok l _, some fl =>
          (match tg with
           | .bad => bad
           | .unknown => (st, "noobj")
           | tg =>
             let tgo := match tg with | .obj o => some o | _ => none
             match getValue e s.tbl id tgo l fl with
             | (tbl, .ok v) => upd tbl ("ok " ++ toString v)
             | (tbl, .error er) => upd tbl (errStr er))
        | some _, _, .unknown, some _ => (st, "noobj")
        | _, _, _, _ => bad
      | "targets", [id, loc, fl, mx, vals, an] =>
        match parseNat id, parseLoc e loc, parseNat fl, parseNat mx, bool01 vals, bool01 an with
        | some id, .ok l _, some fl, some mx, some vals, some an =>
          (match getTargets e s.tbl id l fl mx an with
           | (tbl, .ok (nr, l)) => upd tbl ("ok " ++ toString nr ++ showPairs vals l)
           | (tbl, .error er) => upd tbl (errStr er))
        | some _, .unknown, some _, some _, some _, some _ => (st, "noobj")
        | _, _, _, _, _, _ => bad
      | "inits", [id, tg, fl, mx, vals, an] =>
        match parseNat id, parseRef e tg, parseNat fl, parseNat mx, bool01 vals, bool01 an with
        | some id, tg, some fl, some mx, some vals, some an =>
          (match tg with
           | .bad => bad
           | .unknown => (st, "noobj")
           | tg =>
             let tgo := match tg with | .obj o => some o | _ => none
             match getInitiators e s.tbl id tgo fl mx an with
             | (tbl, .ok (nr, l)) => upd tbl ("ok " ++ toString nr ++ showInits vals l)
             | (tbl, .error er) => upd tbl (errStr er))
        | _, _, _, _, _, _ => bad
      | "besttgt", [id, loc, fl] =>
        match parseNat id, parseLoc e loc, parseNat fl with
        | some id, .ok l _, some fl =>
          (match bestTarget e s.tbl id l fl with
           | (tbl, .ok (g, v)) => upd tbl ("ok " ++ toString g ++ " " ++ toString v)
           | (tbl, .error er) => upd tbl (errStr er))
        | some _, .unknown, some _ => (st, "noobj")
        | _, _, _ => bad
      | "bestinit", [id, tg, fl] =>
        match parseNat id, parseRef e tg, parseNat fl with
        | some id, tg, some fl =>
          (match tg with
           | .bad => bad
           | .unknown => (st, "noobj")
           | tg =>
             let tgo := match tg with | .obj o => some o | _ => none
             match bestInitiator e s.tbl id tgo fl with
             | (tbl, .ok (l, v)) => upd tbl ("ok " ++ showLoc l ++ " " ++ toString v)
             | (tbl, .error er) => upd tbl (errStr er))
        | _, _, _ => bad
      | "local", [loc, fl, mx, an] =>
        match parseLoc e loc, parseNat fl, parseNat mx, bool01 an with
        | .ok l o, some fl, some mx, some an =>
          let la : Option LocalArg := match l, o with
            | .null, _ => some .null
            | .badType, _ => some .badType
            | .cpuset (some m), _ => some (.cpuset m)
            | .obj (some _), some o => some (.cpuset o.effCpuset)
            | _, _ => none      -- NULL cpuset / NULL object: the C dereferences it, never generated
          (match la with
           | none => bad
           | some la =>
             match localNodes e la fl mx an with
             | .ok (nr, l) => (st, "ok " ++ toString nr ++ l.foldl (fun s o => s ++ " " ++ toString o.gp) "")
             | .error er => (st, errStr er))
        | .unknown, some _, some _, some _ => (st, "noobj")
        | _, _, _, _ => bad
      | "defns", [fl] =>
        match parseNat fl with
        | some fl =>
          (match defaultNodeset e fl with
           | .ok m => (st, "ok " ++ toHex m)
           | .error er => (st, errStr er))
        | none => bad
      | "dump", [id] =>
        match parseNat id with
        | some id =>
          (match s.tbl[id]? with
           | none => (st, "EINVAL")
           | some a =>
             let a' := if a.conv then a else ensureValid e a
             upd (s.tbl.set id a') (showDump e id a'))
        | none => bad
      | _, _ => bad
  | _ => bad

end Driver.MemAttrsEng
