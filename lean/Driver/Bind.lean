/- Driver.Bind — line protocol of the `bind` engine (C10); see harness/h_bind.c for the op grammar.

   The driver instantiates the abstract hook table of Hw.Io.Bind three ways:
     stub    the harness installed logging stub hooks with a given presence mask; hook answers come from `h=`;
             the model's EFFECT LOG is printed as `hl=[...]` and compared exactly
     dummy   the table of hwloc_set_dummy_hooks (topology is not this system): no hook log, no syscall
     native  the Linux table (presence mask from the `native` line) with Hw.Io.BindLinux behaviours; the predicted
             libc / syscall log is printed as `sl=[...]`; kernel answers come from `k= km= kp= ks=`
-/
import Hw.Io.Bind
import Hw.Io.BindLinux
import Driver.Util
namespace Driver.BindEng
open Hw.Bind Driver

def hookIdx : Hook → Nat
  | .setThisprocCpubind => 0 | .getThisprocCpubind => 1 | .setThisthreadCpubind => 2 | .getThisthreadCpubind => 3
  | .setProcCpubind => 4 | .getProcCpubind => 5 | .setThreadCpubind => 6 | .getThreadCpubind => 7
  | .getThisprocLastCpu => 8 | .getThisthreadLastCpu => 9 | .getProcLastCpu => 10
  | .setThisprocMembind => 11 | .getThisprocMembind => 12 | .setThisthreadMembind => 13 | .getThisthreadMembind => 14
  | .setProcMembind => 15 | .getProcMembind => 16 | .setAreaMembind => 17 | .getAreaMembind => 18
  | .getAreaMemlocation => 19 | .alloc => 20 | .allocMembind => 21 | .freeMembind => 22

def hookName : Hook → String
  | .setThisprocCpubind => "set_thisproc_cpubind" | .getThisprocCpubind => "get_thisproc_cpubind"
  | .setThisthreadCpubind => "set_thisthread_cpubind" | .getThisthreadCpubind => "get_thisthread_cpubind"
  | .setProcCpubind => "set_proc_cpubind" | .getProcCpubind => "get_proc_cpubind"
  | .setThreadCpubind => "set_thread_cpubind" | .getThreadCpubind => "get_thread_cpubind"
  | .getThisprocLastCpu => "get_thisproc_last_cpu_location" | .getThisthreadLastCpu => "get_thisthread_last_cpu_location"
  | .getProcLastCpu => "get_proc_last_cpu_location"
  | .setThisprocMembind => "set_thisproc_membind" | .getThisprocMembind => "get_thisproc_membind"
  | .setThisthreadMembind => "set_thisthread_membind" | .getThisthreadMembind => "get_thisthread_membind"
  | .setProcMembind => "set_proc_membind" | .getProcMembind => "get_proc_membind"
  | .setAreaMembind => "set_area_membind" | .getAreaMembind => "get_area_membind"
  | .getAreaMemlocation => "get_area_memlocation" | .alloc => "alloc" | .allocMembind => "alloc_membind"
  | .freeMembind => "free_membind"

def maskOf (p : Hook → Bool) : Nat := Hook.all.foldl (fun m h => if p h then m ||| (1 <<< hookIdx h) else m) 0
def ofMask (m : Nat) : Hook → Bool := fun h => m.testBit (hookIdx h)

def parseEntry : String → Option Entry
  | "set_cpubind" => some .setCpubind | "get_cpubind" => some .getCpubind
  | "set_proc_cpubind" => some .setProcCpubind | "get_proc_cpubind" => some .getProcCpubind
  | "set_thread_cpubind" => some .setThreadCpubind | "get_thread_cpubind" => some .getThreadCpubind
  | "get_last_cpu_location" => some .getLastCpuLocation | "get_proc_last_cpu_location" => some .getProcLastCpuLocation
  | "set_membind" => some .setMembind | "get_membind" => some .getMembind
  | "set_proc_membind" => some .setProcMembind | "get_proc_membind" => some .getProcMembind
  | "set_area_membind" => some .setAreaMembind | "get_area_membind" => some .getAreaMembind
  | "get_area_memlocation" => some .getAreaMemlocation | "alloc" => some .alloc | "alloc_membind" => some .allocMembind
  | "free" => some .free
  | _ => none

def errStr : Errno → String
  | .einval => "EINVAL" | .enosys => "ENOSYS" | .exdev => "EXDEV" | .eperm => "EPERM" | .enomem => "ENOMEM" | .other => "fail"

def parseErr : String → Errno
  | "EINVAL" => .einval | "ENOSYS" => .enosys | "EXDEV" => .exdev | "EPERM" => .eperm | "ENOMEM" => .enomem | _ => .other

def pidStr (p : Nat) : String := if p = 0 then "0" else if p = 1 then "self" else "bad"
def parsePid : String → Option Nat
  | "0" => some 0 | "self" => some 1 | "bad" => some 2 | _ => none

/-- the driver's world: stub answers and the Linux kernel world -/
structure DWorld where
  hs : List Ret := []
  k : Linux.World := {}

inductive Mode | stub | dummy | native
  deriving DecidableEq

structure DState where
  native : Nat := 0
  nrcpus : Nat := 64
  maxnodes : Nat := 64
  aff : Nat := 0
  topo : Option Topo := none
  this : Bool := false
  tpid : Bool := false
  loaded : Nat := 0          -- hook mask installed by hwloc_set_binding_hooks
  stubMask : Option Nat := none
  pmThread : Int := -1
  pmArea : Int := -1

def init : DState := {}

def stubRun (_h : Hook) (_a : Args) (w : DWorld) : Ret × DWorld :=
  match w.hs with
  | [] => (okRet, w)
  | [r] => (r, w)
  | r :: rest => (r, { w with hs := rest })

def mkEnv (d : DState) (t : Topo) : Env DWorld × Mode :=
  match d.stubMask with
  | some m => ({ present := ofMask m, run := stubRun }, .stub)
  | none =>
    if d.this then
      ({ present := ofMask d.loaded,
         run := fun h a w => let r := Linux.run t h a w.k; (r.1, { w with k := r.2 }) }, .native)
    else
      ({ present := ofMask d.loaded, run := fun h _ w => (dummyRet t h, w) }, .dummy)

/-! printing -/

def showCall (c : Call) : String :=
  let h := c.hook
  let set := if h.takesCpuset || h.takesNodeset then toHex c.args.set else "-"
  let pol := if h.takesNodeset then toString c.args.policy else "0"
  let fl := if h == .alloc || h == .freeMembind then "0" else toString c.args.flags
  let pid := match h with
    | .setProcCpubind | .getProcCpubind | .getProcLastCpu | .setProcMembind | .getProcMembind => pidStr c.args.pid
    | _ => "0"
  let len := match h with
    | .setAreaMembind | .getAreaMembind | .getAreaMemlocation | .alloc | .allocMembind | .freeMembind => toString c.args.len
    | _ => "0"
  hookName h ++ "(" ++ set ++ "," ++ pol ++ "," ++ fl ++ "," ++ pid ++ "," ++ len ++ ")"

def optMask : Option Nat → String
  | none => "NULL" | some m => toHex m

def showSys : Linux.Sys → String
  | .sa tid m => "SA(" ++ pidStr tid ++ "," ++ toHex m ++ ")"
  | .ga tid sz => "GA(" ++ pidStr tid ++ "," ++ toString sz ++ ")"
  | .sm mode m mx => "SM(" ++ toString mode ++ "," ++ optMask m ++ "," ++ toString mx ++ ")"
  | .gm mx addr fl => "GM(" ++ toString mx ++ "," ++ (if addr then "1" else "0") ++ "," ++ toString fl ++ ")"
  | .mb len mode m mx fl => "MB(" ++ toString len ++ "," ++ toString mode ++ "," ++ optMask m ++ "," ++ toString mx ++ "," ++ toString fl ++ ")"
  | .mg mx o n => "MG(" ++ toString mx ++ "," ++ toHex o ++ "," ++ toHex n ++ ")"
  | .mp c => "MP(" ++ toString c ++ ",NULL)"

def isPtr : Entry → Bool
  | .alloc | .allocMembind => true | _ => false
def isGet (e : Entry) : Bool := e.isCpuGet || e.isMemGet
def hasPol : Entry → Bool
  | .getMembind | .getProcMembind | .getAreaMembind => true | _ => false
def isLastCpu : Entry → Bool
  | .getLastCpuLocation | .getProcLastCpuLocation => true | _ => false

def showResult (e : Entry) (mode : Mode) (r : Ret) (s : St DWorld) : String :=
  let rc : Int := if isPtr e then (if r.rc < 0 then -1 else 0) else r.rc
  let es := if rc < 0 then errStr r.err else "-"
  let set := if isGet e && rc == 0 then
      (if isLastCpu e && mode == .native then "single" else toHex r.set) else "-"
  let pol := if hasPol e && rc == 0 then toString r.policy else "-"
  let hl := if mode == .stub then ";".intercalate (s.log.map showCall) else ""
  let sl := ";".intercalate (s.world.k.slog.map showSys)
  "rc=" ++ toString rc ++ " e=" ++ es ++ " set=" ++ set ++ " pol=" ++ pol ++ " hl=[" ++ hl ++ "] sl=[" ++ sl ++ "]"

/-! parsing -/

def parseASet (s : String) : Option ASet :=
  if s.startsWith "f" then (parseHex (s.drop 1).toString).map (fun n => ⟨n, false⟩)
  else if s.startsWith "c" then (parseHex (s.drop 1).toString).map (fun n => ⟨n, true⟩)
  else none

def kv (key : String) (tok : String) : Option String :=
  if tok.startsWith (key ++ "=") then some (tok.drop (key.length + 1)).toString else none

def parseHResp (s : String) : Option Ret :=
  match s.splitOn ":" with
  | [rc, er, set, pol] => match parseInt rc, parseHex set, parseInt pol with
    | some rc, some set, some pol => some { rc := rc, err := parseErr er, set := set, policy := pol }
    | _, _, _ => none
  | _ => none

def parseK (s : String) : Linux.K := if s = "ok" then .ok else .err (parseErr s)

def parseNodes (s : String) : Option (List (Nat × Nat)) :=
  if s = "-" then some [] else
  (s.splitOn ",").mapM (fun p => match p.splitOn ":" with
    | [a, b] => match parseNat a, parseHex b with
      | some a, some b => some (a, b)
      | _, _ => none
    | _ => none)

def kernelWorld (d : DState) (script : List Linux.K) (km : Nat) (kp ks : Int) : Linux.World :=
  { script := script, km := km, kp := kp, ks := ks, pmThread := d.pmThread, pmArea := d.pmArea,
    nrcpus := d.nrcpus, maxnodes := d.maxnodes, tpid := d.tpid }

def lastSA (l : List Linux.Sys) : Option Nat :=
  l.foldl (fun acc c => match c with | .sa _ m => some m | _ => acc) none

def step (d : DState) (line : String) : DState × String :=
  let bad := (d, "bad-op")
  let (spec, facts) := match line.splitOn " | " with
    | [a, b] => (tokens a, tokens b)
    | [a] => (tokens a, [])
    | _ => ([], [])
  match spec with
  | ["native"] => match facts with
    | [h, n, m, a] => match (kv "hooks" h).bind parseHex, (kv "nrcpus" n).bind parseNat, (kv "maxnodes" m).bind parseNat,
                          (kv "aff" a).bind parseHex with
      | some h, some n, some m, some a => ({ d with native := h, nrcpus := n, maxnodes := m, aff := a }, "ok")
      | _, _, _, _ => bad
    | _ => bad
  | ["topo", kind, _arg, flagThis, tpid, envthis] => match facts with
    | [a, b, c, e, n] =>
      match (kv "ccs" a).bind parseHex, (kv "tcs" b).bind parseHex, (kv "cns" c).bind parseHex, (kv "tns" e).bind parseHex,
            (kv "nodes" n).bind parseNodes, parseNat flagThis, parseNat tpid with
      | some ccs, some tcs, some cns, some tns, some nodes, some fl, some tp =>
        let envVar : Option (Option Int) := if envthis = "-" then some none else (parseInt envthis).map some
        let kinds : Option (Bool × Bool) := match kind with
          | "native" => some (false, false) | "synth" => some (true, false) | "xml" => some (true, false)
          | "envsynth" => some (false, true) | _ => none
        match envVar, kinds with
        | some ev, some (nf, ef) =>
          let this := isThisSystem nf (fl != 0) ef ev
          let (present, support) := setBindingHooks this (ofMask d.native)
          let t : Topo := { completeCpuset := ccs, topologyCpuset := tcs, completeNodeset := cns, topologyNodeset := tns, nodes := nodes }
          ({ d with topo := some t, this := this, tpid := tp != 0, loaded := maskOf present, stubMask := none },
           "this=" ++ (if this then "1" else "0") ++ " hooks=" ++ toHex (maskOf present) ++ " sup=" ++ toHex (maskOf support))
        | _, _ => bad
      | _, _, _, _, _, _, _ => bad
    | _ => bad
  | ["stub", m] => match parseHex m, d.topo with
    | some m, some _ => ({ d with stubMask := some m }, "ok")
    | _, _ => bad
  | ["unstub"] => match d.topo with
    | some _ => ({ d with stubMask := none }, "ok")
    | none => bad
  | ["call", en, set, flags, policy, len, pid, h, k, km, kp, ks] =>
    match d.topo, parseEntry en, parseASet set, parseNat flags, parseInt policy, parseNat len, parsePid pid with
    | some t, some e, some set, some flags, some policy, some len, some pid =>
      match (kv "h" h).bind (fun s => (s.splitOn ",").mapM parseHResp), kv "k" k, (kv "km" km).bind parseHex,
            (kv "kp" kp).bind parseInt, (kv "ks" ks).bind parseInt with
      | some hs, some ksc, some km, some kp, some ks =>
        let (env, mode) := mkEnv d t
        let w : DWorld := { hs := hs, k := kernelWorld d ((ksc.splitOn ",").map parseK) km kp ks }
        let req : Req := { set := set, flags := flags, policy := policy, len := len, pid := pid }
        let (r, s) := callEntry env t e req { world := w, log := [] }
        ({ d with pmThread := s.world.k.pmThread, pmArea := s.world.k.pmArea }, showResult e mode r s)
      | _, _, _, _, _ => bad
    | _, _, _, _, _, _, _ => bad
  | ["live", sub, flags] => match d.topo, parseHex sub, parseNat flags with
    | some t, some sub, some flags =>
      let (env, _) := mkEnv d t
      let w : DWorld := { k := kernelWorld d [.ok] 0 0 0 }
      let (r1, s1) := callEntry env t .setCpubind { set := ⟨sub, false⟩, flags := flags } { world := w, log := [] }
      -- OS model: sched_setaffinity applies the mask it is given
      let aff := (lastSA s1.world.k.slog).getD d.aff
      let w2 : DWorld := { k := kernelWorld d [.ok] aff 0 0 }
      let (r2, _) := callEntry env t .getCpubind { flags := flags } { world := w2, log := [] }
      ({ d with aff := aff },
       "rc=" ++ toString r1.rc ++ " get=" ++ (if r2.rc == 0 then toHex r2.set else "fail") ++ " raw=" ++ toHex aff ++ " lastin=1")
    | _, _, _ => bad
  | ["loadcheck", _f, _c] => (d, "after=" ++ toHex d.aff)
  | _ => bad

end Driver.BindEng
