/- Driver.XmlRt — engine `xmlrt` (C05): unit correspondences for the nolibxml escaper / attribute scanner / base64 codec /
   number conversions, and the judgement of XML round trips (dump of the original vs dump of the reloaded topology). -/
import Hw.Io.Xml
import Hw.Io.Base64
import Hw.Io.XmlObj
import Driver.Topo
namespace Driver.XmlRtEng
open Hw Hw.Xml Hw.Topo Driver

def parseHexBytes (s : String) : Option (List Nat) :=
  if s = "=" then some []
  else
    let rec go : List Char → List Nat → Option (List Nat)
      | [], acc => some acc.reverse
      | a :: b :: r, acc => match hexDigitVal a, hexDigitVal b with
        | some x, some y => go r ((x * 16 + y) :: acc)
        | _, _ => none
      | _, _ => none
    go s.toList []

def hexOfBytes (l : List Nat) : String :=
  if l.isEmpty then "=" else String.ofList (l.flatMap (fun b => [hexChar (b / 16 % 16), hexChar (b % 16)]))

structure St where
  part : TopoEng.Partial := {}
  orig : Option Dump := none
  reload : Option Dump := none
  xo : List String := []        -- reversed
  xr : List String := []        -- reversed
  bad : Option String := none
  memsets : Bool := false       -- the last CMP verdict was `EQ memsets`

/-- sanitise the `h:` tokens of an X line of the original (strings that go through hwloc__xml_export_safestrdup) -/
def sanitizeTok (t : String) : String :=
  if t.startsWith "h:" then
    let h := (t.drop 2).toString
    if h = "-" then t else
    match parseHexBytes h with
    | some bs => "h:" ++ hexOfBytes (sanitize bs)
    | none => t
  else t
def sanitizeLine (l : String) : String := " ".intercalate ((l.splitOn " ").map sanitizeTok)

def isDist (l : String) : Bool := l.startsWith "dist "
def sortStrs (l : List String) : List String := l.mergeSort (fun a b => !(decide (b < a)))

/-- distances are compared as a multiset (their order is not part of the property), everything else in order -/
def xlinesEqual (xo xr : List String) : Bool :=
  let o := xo.map sanitizeLine
  (o.filter (fun l => !isDist l)) == (xr.filter (fun l => !isDist l))
    && sortStrs (o.filter isDist) == sortStrs (xr.filter isDist)

def firstXDiff (xo xr : List String) : String :=
  let o := (xo.map sanitizeLine)
  match (o.filter (fun l => !(xr.contains l))).head?, (xr.filter (fun l => !(o.contains l))).head? with
  | some a, _ => "only-original:" ++ ((a.take 120).toString.replace " " "_")
  | none, some b => "only-reloaded:" ++ ((b.take 120).toString.replace " " "_")
  | none, none => "order-of-lines"

def fieldDiffs (a b : ObjObs) : List String :=
  (if a.type ≠ b.type then ["type"] else []) ++ (if a.depth ≠ b.depth then ["depth"] else []) ++
  (if a.lidx ≠ b.lidx then ["lidx"] else []) ++ (if a.osidx ≠ b.osidx then ["os_index"] else []) ++
  (if a.gp ≠ b.gp then ["gp_index"] else []) ++ (if a.parent ≠ b.parent then ["parent"] else []) ++
  (if a.rank ≠ b.rank then ["rank"] else []) ++ (if a.arities ≠ b.arities then ["arities"] else []) ++
  (if a.links ≠ b.links then ["links"] else []) ++ (if a.symm ≠ b.symm then ["symmetric"] else []) ++
  (if a.sets ≠ b.sets then ["sets"] else []) ++ (if a.totalMem ≠ b.totalMem then ["total_memory"] else []) ++
  (if a.attrs ≠ b.attrs then ["attrs"] else []) ++ (if a.children ≠ b.children then ["children"] else []) ++
  (if a.subtype ≠ b.subtype then ["subtype"] else []) ++ (if a.name ≠ b.name then ["name"] else []) ++
  (if a.infos ≠ b.infos then ["infos"] else [])

def dumpDiffs (a b : Dump) : List String :=
  let oa := obs a; let ob := obs b
  (if oa.nobjs ≠ ob.nobjs then ["nobjs:" ++ toString oa.nobjs ++ "/" ++ toString ob.nobjs] else []) ++
  (if oa.flags ≠ ob.flags then ["flags"] else []) ++ (if oa.depth ≠ ob.depth then ["depth"] else []) ++
  (if oa.allowedCpuset ≠ ob.allowedCpuset then ["allowed_cpuset"] else []) ++
  (if oa.allowedNodeset ≠ ob.allowedNodeset then ["allowed_nodeset"] else []) ++
  (if oa.levels ≠ ob.levels then ["levels"] else []) ++ (if oa.typeDepths ≠ ob.typeDepths then ["type_depths"] else []) ++
  ((oa.objs.zip ob.objs).filterMap (fun (x, y) =>
      let d := fieldDiffs x y
      if d.isEmpty then none else some ("obj" ++ toString x.id ++ "(type" ++ toString x.type ++ "):" ++ "+".intercalate d))).take 4

def judge (fmt : String) (s : St) : String :=
  match s.bad, s.orig, s.reload with
  | some e, _, _ => "EQ FAIL dump-unparsable:" ++ e
  | none, some o, some r =>
    let o' := sanitizeDump o
    if fmt = "v2" then
      let o2 := v2DieRule o'
      if decide (TreeSetsEquiv o2 r) then "EQ ok"
      else if decide (TreeSetsEquiv (normMem o2) r) then "EQ memsets"
      else "EQ FAIL v2-tree-or-sets " ++ ",".intercalate (dumpDiffs o2 r)
    else
      let xeq := xlinesEqual s.xo.reverse s.xr.reverse
      if decide (TopoEquiv o' r) && xeq then "EQ ok"
      else if decide (TopoEquiv (normMem o') r) && xeq then "EQ memsets"
      else "EQ FAIL " ++ ",".intercalate (dumpDiffs (normMem o') r ++ (if xeq then [] else ["extra:" ++ firstXDiff s.xo.reverse s.xr.reverse]))
  | none, _, _ => "EQ FAIL missing-dump"

/-! ### object-level unit stream -/
open Hw.XmlObj in
def parseHexOpt (s : String) : Option (Option (List Nat)) :=
  if s = "-" then some none else (parseHexBytes s).map some

def parseSetOpt (s : String) : Option (Option Nat) :=
  if s = "-" then some none else (parseHex s).map some

open Hw.XmlObj in
def parsePci (s : String) : Option (Option PciFields) :=
  if s = "-" then some none else
  match s.splitOn "," with
  | [d, bu, dv, fn, c, ve, de, sv, sd, r, p, ls] => do
    let d ← parseNat d; let bu ← parseNat bu; let dv ← parseNat dv; let fn ← parseNat fn; let c ← parseNat c
    let ve ← parseNat ve; let de ← parseNat de; let sv ← parseNat sv; let sd ← parseNat sd; let r ← parseNat r; let p ← parseNat p
    let ls ← parseHexBytes ls
    pure (some { domain := d, bus := bu, dev := dv, func := fn, classId := c, vendor := ve, device := de, subvendor := sv, subdevice := sd,
                 revision := r, progIf := p, linkspeed := ls })
  | _ => none

open Hw.XmlObj in
def parseFields (t : List String) : Option ObjFields :=
  match t with
  | [ty, os, gp, cs, ccs, ns, cns, ac, an, nm, st, a0, a1, a2, a3, a4, a5, pci] => do
    let ty ← parseNat ty; let os ← parseInt os; let gp ← parseNat gp
    let cs ← parseSetOpt cs; let ccs ← parseSetOpt ccs; let ns ← parseSetOpt ns; let cns ← parseSetOpt cns
    let ac ← parseSetOpt ac; let an ← parseSetOpt an
    let nm ← parseHexOpt nm; let st ← parseHexOpt st
    let attrs ← [a0, a1, a2, a3, a4, a5].mapM parseInt
    let pci ← parsePci pci
    pure { type := ty, osidx := if os < 0 then none else some os.toNat, gp := gp, cpuset := cs, ccpuset := ccs, nodeset := ns, cnodeset := cns,
           allowed := (match ac, an with | some x, some y => some (x, y) | _, _ => none), name := nm, subtype := st, attrs := attrs, pci := pci }
  | _ => none

/-- fields the core rewrites after the import: a Group's / Bridge's depth, and the cpusets of memory objects (F55: fixup_sets) -/
def cmpNorm (f : Hw.XmlObj.ObjFields) : Hw.XmlObj.ObjFields :=
  let f := Hw.XmlObj.normalise f
  if Hw.XmlObj.isMemoryT f.type then { f with cpuset := none, ccpuset := none } else f

def bytesStr (l : List Nat) : String := String.ofList (l.map Char.ofNat)

open Hw.XmlObj in
def judgeObj (root : Bool) (ptype : Nat) (phas : Bool) (tag : List Nat) (fo : ObjFields) (fr : Option ObjFields) : String :=
  let c : Ctx := { root := root, parentType := ptype, parentHasSets := phas }
  let scanned := scanAttrs (tag.length + 1) tag
  let expected := exportAttrs root fo
  if scanned ≠ expected then
    let d := ((scanned.zip expected).filter (fun (x, y) => x ≠ y)).head?
    "OBJ FAIL export-attrs:" ++ (match d with
      | some (x, y) => bytesStr x.1 ++ "=" ++ hexOfBytes x.2 ++ "/model:" ++ bytesStr y.1 ++ "=" ++ hexOfBytes y.2
      | none => "count:" ++ toString scanned.length ++ "/" ++ toString expected.length)
  else if !Valid c fo then "OBJ FAIL original-not-Valid"
  else match importAttrs c scanned, fr with
    | .ok f', some r =>
      if f' ≠ normalise fo then "OBJ FAIL import-differs-from-normalised-original"
      else if cmpNorm f' = cmpNorm r then "OBJ ok" else "OBJ FAIL import-differs-from-reloaded"
    | .ok _, none => "OBJ FAIL reloaded-object-missing"
    | .ignored, _ => "OBJ FAIL import:ignored"
    | .reject, _ => "OBJ FAIL import:reject"
    | .outside, _ => "OBJ FAIL import:outside"

def intStr (i : Int) : String := toString i

def tgtOf (ts : Nat) : B64.Tgt := { cells := List.replicate ts 170 }

def step (s : St) (line : String) : St × String :=
  let t := tokens line
  match t with
  | ["ESC", h] => match parseHexBytes h with
    | some bs => (s, match escapeC bs with | none => "ESC -" | some e => "ESC " ++ hexOfBytes e)
    | none => (s, "bad-op")
  | ["ATTR", h] => match parseHexBytes h with
    | some bs => (s, match nextAttr bs with
        | none => "ATTR -1"
        | some (n, v, off) => "ATTR 0 " ++ hexOfBytes n ++ " " ++ hexOfBytes v ++ " " ++ toString off)
    | none => (s, "bad-op")
  | ["B64E", h, ts] => match parseHexBytes h, parseNat ts with
    | some bs, some n =>
      let (r, tg) := B64.encode bs (tgtOf n)
      (s, "B64E " ++ intStr r ++ " " ++ hexOfBytes tg.cells)
    | _, _ => (s, "bad-op")
  | ["B64D", h, ts] => match parseHexBytes h with
    | some bs =>
      if ts = "N" then (s, "B64D " ++ intStr (B64.decode bs none).1 ++ " =")
      else match parseNat ts with
        | some n =>
          let (r, tg) := B64.decode bs (some (tgtOf n))
          (s, "B64D " ++ intStr r ++ " " ++ hexOfBytes ((tg.map (·.cells)).getD []))
        | none => (s, "bad-op")
    | none => (s, "bad-op")
  | ["NUM", conv, v] =>
    if conv = "d" then match parseInt v with
      | some i =>
        let txt := printInt i
        (s, "NUM " ++ hexOfBytes txt ++ " " ++ intStr (atoi txt))
      | none => (s, "bad-op")
    else match parseNat v with
      | some n =>
        let n' := if conv = "u" then n % 2^32 else n % 2^64
        let txt := decDigits n'
        match strtoul 10 txt with
        | .ok p _ => (s, "NUM " ++ hexOfBytes txt ++ " " ++ toString (if conv = "u" then p % 2^32 else p))
        | .unsupported => (s, "NUM unsupported")
      | none => (s, "bad-op")
  | "OBJ" :: root :: ptype :: phas :: tag :: "O" :: rest =>
    let fo := rest.take 18
    let rr := rest.drop 18
    match parseHexBytes tag, parseFields fo, parseNat ptype with
    | some tg, some f, some pt =>
      (match rr with
       | ["R", "-"] => (s, judgeObj (root = "1") pt (phas = "1") tg f none)
       | "R" :: r => (match parseFields r with
          | some fr => (s, judgeObj (root = "1") pt (phas = "1") tg f (some fr))
          | none => (s, "bad-op"))
       | _ => (s, "bad-op"))
    | _, _, _ => (s, "bad-op")
  | "CASE" :: _ => ({}, ".")
  | "OP" :: _ => (s, ".")
  | ["RT"] => (s, ".")
  | ["LOADFAIL"] => (s, ".")
  | "FIXV2" :: _ => (s, ".")
  | "KNOWN" :: _ => (s, ".")
  | "X" :: tag :: rest =>
    let l := " ".intercalate rest
    if tag = "o" then ({ s with xo := l :: s.xo }, ".")
    else if tag = "r" then ({ s with xr := l :: s.xr }, ".")
    else (s, "bad-op")
  | ["CMP", fmt] =>
    if fmt = "v3" ∨ fmt = "v2" then
      let v := judge fmt s
      ({ s with memsets := v = "EQ memsets" }, v)
    else (s, "EQ FAIL " ++ fmt)
  | ["FIX", same, sameNs, impsup, _, _, _] =>
    if same = "1" then (s, "FIX ok")
    else if sameNs = "1" ∧ impsup = "0" then (s, "FIX ok-modulo-support")
    else if s.memsets then (s, "FIX memsets")
    else (s, "FIX FAIL second-export-differs")
  -- the export taken before the harness queried anything (lazily refreshed caches still stale) vs. the one taken after:
  -- the document is a function of the topology, not of the query history
  | ["EXP0", same] => (s, if same = "1" then "EXP0 ok" else "EXP0 FAIL export-depends-on-earlier-queries")
  | "CRASH" :: _ => (s, "bad-op")
  | _ =>
    match t with
    | "TOPO" :: _ | "O" :: _ | "L" :: _ | "TD" :: _ | "END" :: _ =>
      let (p', r) := TopoEng.feed s.part t
      match r with
      | none => ({ s with part := p' }, ".")
      | some (.error e) => ({ s with part := p', bad := some e }, ".")
      | some (.ok d) =>
        let tag := (t.getD 1 "")
        if tag = "o" then ({ s with part := p', orig := some d }, ".")
        else if tag = "r" then ({ s with part := p', reload := some d }, ".")
        else ({ s with part := p' }, "bad-op")
    | _ => (s, "bad-op")

end Driver.XmlRtEng
