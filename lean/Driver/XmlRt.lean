/- Driver.XmlRt — engine `xmlrt` (C05): unit correspondences for the nolibxml escaper / attribute scanner / base64 codec /
   number conversions, and the judgement of XML round trips (dump of the original vs dump of the reloaded topology). -/
import Hw.Io.Xml
import Hw.Io.Base64
import Driver.Topo
namespace Driver.XmlRtEng
open Hw Hw.Xml Hw.Topo Driver

def parseHexBytes (s : String) : Option (List Nat) :=
  if s = "=" then some []
  else
    let rec go : List Char → List Nat → Option (List Nat)
      | [], acc => some acc.reverse
      | a :: b :: r, acc => match hexDigitVal a, hexDigitVal b with
        | some x, some y => go r ((x * 16 + y) :: acc)
        | _, _ => none
      | _, _ => none
    go s.toList []

def hexOfBytes (l : List Nat) : String :=
  if l.isEmpty then "=" else String.ofList (l.flatMap (fun b => [hexChar (b / 16 % 16), hexChar (b % 16)]))

structure St where
  part : TopoEng.Partial := {}
  orig : Option Dump := none
  reload : Option Dump := none
  xo : List String := []        -- reversed
  xr : List String := []        -- reversed
  bad : Option String := none
  memsets : Bool := false       -- the last CMP verdict was `EQ memsets`

/-- sanitise the `h:` tokens of an X line of the original (strings that go through hwloc__xml_export_safestrdup) -/
def sanitizeTok (t : String) : String :=
  if t.startsWith "h:" then
    let h := (t.drop 2).toString
    if h = "-" then t else
    match parseHexBytes h with
    | some bs => "h:" ++ hexOfBytes (sanitize bs)
    | none => t
  else t
def sanitizeLine (l : String) : String := " ".intercalate ((l.splitOn " ").map sanitizeTok)

def isDist (l : String) : Bool := l.startsWith "dist "
def sortStrs (l : List String) : List String := l.mergeSort (fun a b => !(decide (b < a)))

/-- distances are compared as a multiset (their order is not part of the property), everything else in order -/
def xlinesEqual (xo xr : List String) : Bool :=
  let o := xo.map sanitizeLine
  (o.filter (fun l => !isDist l)) == (xr.filter (fun l => !isDist l))
    && sortStrs (o.filter isDist) == sortStrs (xr.filter isDist)

def firstXDiff (xo xr : List String) : String :=
  let o := (xo.map sanitizeLine)
  match (o.filter (fun l => !(xr.contains l))).head?, (xr.filter (fun l => !(o.contains l))).head? with
  | some a, _ => "only-original:" ++ ((a.take 120).toString.replace " " "_")
  | none, some b => "only-reloaded:" ++ ((b.take 120).toString.replace " " "_")
  | none, none => "order-of-lines"

def fieldDiffs (a b : ObjObs) : List String :=
  (if a.type ≠ b.type then ["type"] else []) ++ (if a.depth ≠ b.depth then ["depth"] else []) ++
  (if a.lidx ≠ b.lidx then ["lidx"] else []) ++ (if a.osidx ≠ b.osidx then ["os_index"] else []) ++
  (if a.gp ≠ b.gp then ["gp_index"] else []) ++ (if a.parent ≠ b.parent then ["parent"] else []) ++
  (if a.rank ≠ b.rank then ["rank"] else []) ++ (if a.arities ≠ b.arities then ["arities"] else []) ++
  (if a.links ≠ b.links then ["links"] else []) ++ (if a.symm ≠ b.symm then ["symmetric"] else []) ++
  (if a.sets ≠ b.sets then ["sets"] else []) ++ (if a.totalMem ≠ b.totalMem then ["total_memory"] else []) ++
  (if a.attrs ≠ b.attrs then ["attrs"] else []) ++ (if a.children ≠ b.children then ["children"] else []) ++
  (if a.subtype ≠ b.subtype then ["subtype"] else []) ++ (if a.name ≠ b.name then ["name"] else []) ++
  (if a.infos ≠ b.infos then ["infos"] else [])

def dumpDiffs (a b : Dump) : List String :=
  let oa := obs a; let ob := obs b
  (if oa.nobjs ≠ ob.nobjs then ["nobjs:" ++ toString oa.nobjs ++ "/" ++ toString ob.nobjs] else []) ++
  (if oa.flags ≠ ob.flags then ["flags"] else []) ++ (if oa.depth ≠ ob.depth then ["depth"] else []) ++
  (if oa.allowedCpuset ≠ ob.allowedCpuset then ["allowed_cpuset"] else []) ++
  (if oa.allowedNodeset ≠ ob.allowedNodeset then ["allowed_nodeset"] else []) ++
  (if oa.levels ≠ ob.levels then ["levels"] else []) ++ (if oa.typeDepths ≠ ob.typeDepths then ["type_depths"] else []) ++
  ((oa.objs.zip ob.objs).filterMap (fun (x, y) =>
      let d := fieldDiffs x y
      if d.isEmpty then none else some ("obj" ++ toString x.id ++ "(type" ++ toString x.type ++ "):" ++ "+".intercalate d))).take 4

def judge (fmt : String) (s : St) : String :=
  match s.bad, s.orig, s.reload with
  | some e, _, _ => "EQ FAIL dump-unparsable:" ++ e
  | none, some o, some r =>
    let o' := sanitizeDump o
    if fmt = "v2" then
      let o2 := v2DieRule o'
      if decide (TreeSetsEquiv o2 r) then "EQ ok"
      else if decide (TreeSetsEquiv (normMem o2) r) then "EQ memsets"
      else "EQ FAIL v2-tree-or-sets " ++ ",".intercalate (dumpDiffs o2 r)
    else
      let xeq := xlinesEqual s.xo.reverse s.xr.reverse
      if decide (TopoEquiv o' r) && xeq then "EQ ok"
      else if decide (TopoEquiv (normMem o') r) && xeq then "EQ memsets"
      else "EQ FAIL " ++ ",".intercalate (dumpDiffs (normMem o') r ++ (if xeq then [] else ["extra:" ++ firstXDiff s.xo.reverse s.xr.reverse]))
  | none, _, _ => "EQ FAIL missing-dump"

def intStr (i : Int) : String := toString i

def tgtOf (ts : Nat) : B64.Tgt := { cells := List.replicate ts 170 }

def step (s : St) (line : String) : St × String :=
  let t := tokens line
  match t with
  | ["ESC", h] => match parseHexBytes h with
    | some bs => (s, match escapeC bs with | none => "ESC -" | some e => "ESC " ++ hexOfBytes e)
    | none => (s, "bad-op")
  | ["ATTR", h] => match parseHexBytes h with
    | some bs => (s, match nextAttr bs with
        | none => "ATTR -1"
        | some (n, v, off) => "ATTR 0 " ++ hexOfBytes n ++ " " ++ hexOfBytes v ++ " " ++ toString off)
    | none => (s, "bad-op")
  | ["B64E", h, ts] => match parseHexBytes h, parseNat ts with
    | some bs, some n =>
      let (r, tg) := B64.encode bs (tgtOf n)
      (s, "B64E " ++ intStr r ++ " " ++ hexOfBytes tg.cells)
    | _, _ => (s, "bad-op")
  | ["B64D", h, ts] => match parseHexBytes h with
    | some bs =>
      if ts = "N" then (s, "B64D " ++ intStr (B64.decode bs none).1 ++ " =")
      else match parseNat ts with
        | some n =>
          let (r, tg) := B64.decode bs (some (tgtOf n))
          (s, "B64D " ++ intStr r ++ " " ++ hexOfBytes ((tg.map (·.cells)).getD []))
        | none => (s, "bad-op")
    | none => (s, "bad-op")
  | ["NUM", conv, v] =>
    if conv = "d" then match parseInt v with
      | some i =>
        let txt := printInt i
        (s, "NUM " ++ hexOfBytes txt ++ " " ++ intStr (atoi txt))
      | none => (s, "bad-op")
    else match parseNat v with
      | some n =>
        let n' := if conv = "u" then n % 2^32 else n % 2^64
        let txt := decDigits n'
        match strtoul 10 txt with
        | .ok p _ => (s, "NUM " ++ hexOfBytes txt ++ " " ++ toString (if conv = "u" then p % 2^32 else p))
        | .unsupported => (s, "NUM unsupported")
      | none => (s, "bad-op")
  | "CASE" :: _ => ({}, ".")
  | "OP" :: _ => (s, ".")
  | ["RT"] => (s, ".")
  | ["LOADFAIL"] => (s, ".")
  | "FIXV2" :: _ => (s, ".")
  | "KNOWN" :: _ => (s, ".")
  | "X" :: tag :: rest =>
    let l := " ".intercalate rest
    if tag = "o" then ({ s with xo := l :: s.xo }, ".")
    else if tag = "r" then ({ s with xr := l :: s.xr }, ".")
    else (s, "bad-op")
  | ["CMP", fmt] =>
    if fmt = "v3" ∨ fmt = "v2" then
      let v := judge fmt s
      ({ s with memsets := v = "EQ memsets" }, v)
    else (s, "EQ FAIL " ++ fmt)
  | ["FIX", same, sameNs, impsup, _, _, _] =>
    if same = "1" then (s, "FIX ok")
    else if sameNs = "1" ∧ impsup = "0" then (s, "FIX ok-modulo-support")
    else if s.memsets then (s, "FIX memsets")
    else (s, "FIX FAIL second-export-differs")
  | "CRASH" :: _ => (s, "bad-op")
  | _ =>
    match t with
    | "TOPO" :: _ | "O" :: _ | "L" :: _ | "TD" :: _ | "END" :: _ =>
      let (p', r) := TopoEng.feed s.part t
      match r with
      | none => ({ s with part := p' }, ".")
      | some (.error e) => ({ s with part := p', bad := some e }, ".")
      | some (.ok d) =>
        let tag := (t.getD 1 "")
        if tag = "o" then ({ s with part := p', orig := some d }, ".")
        else if tag = "r" then ({ s with part := p', reload := some d }, ".")
        else ({ s with part := p' }, "bad-op")
    | _ => (s, "bad-op")

end Driver.XmlRtEng
