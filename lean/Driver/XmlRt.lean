/- Driver.XmlRt — engine `xmlrt` (C05): unit correspondences for the nolibxml escaper / attribute scanner / base64 codec /
   number conversions, and the judgement of XML round trips (dump of the original vs dump of the reloaded topology). -/
import Hw.Io.Xml
import Hw.Io.Base64
import Hw.Io.XmlObj
import Hw.Io.XmlTree
import Hw.Io.XmlSide
import Driver.Topo
namespace Driver.XmlRtEng
open Hw Hw.Xml Hw.Topo Driver

def parseHexBytes (s : String) : Option (List Nat) :=
  if s = "=" then some []
  else
    let rec go : List Char → List Nat → Option (List Nat)
      | [], acc => some acc.reverse
      | a :: b :: r, acc => match hexDigitVal a, hexDigitVal b with
        | some x, some y => go r ((x * 16 + y) :: acc)
        | _, _ => none
      | _, _ => none
    go s.toList []

def hexOfBytes (l : List Nat) : String :=
  if l.isEmpty then "=" else String.ofList (l.flatMap (fun b => [hexChar (b / 16 % 16), hexChar (b % 16)]))

/-- the side structures of one topology as the S* lines of the harness describe them -/
structure SideObs where
  dists : List Hw.XmlSide.Dist := []
  mas : List Hw.XmlSide.MemAttr := []
  kinds : List Hw.XmlSide.Kind := []
  infos : List (List Nat × List Nat) := []

structure St where
  part : TopoEng.Partial := {}
  orig : Option Dump := none
  reload : Option Dump := none
  xo : List String := []        -- reversed
  xr : List String := []        -- reversed
  bad : Option String := none
  memsets : Bool := false       -- the last CMP verdict was `EQ memsets`
  te : List (Nat × Hw.XmlTree.Elem) := []                       -- TREE stream, reversed: elements of the real export
  tos : List (Nat × String × Hw.XmlTree.Node) := []             -- objects of the original
  trs : List (Nat × String × Hw.XmlTree.Node) := []             -- objects of the reloaded topology
  tbad : Bool := false
  se : List (Nat × Hw.XmlTree.Elem) := []                       -- SIDE stream, reversed: elements after the root object
  so : SideObs := {}                                            -- side structures of the original
  sr : SideObs := {}                                            -- ... of the reloaded topology
  sbad : Bool := false
  sskip : Option String := none

/-- sanitise the `h:` tokens of an X line of the original (strings that go through hwloc__xml_export_safestrdup) -/
def sanitizeTok (t : String) : String :=
  if t.startsWith "h:" then
    let h := (t.drop 2).toString
    if h = "-" then t else
    match parseHexBytes h with
    | some bs => "h:" ++ hexOfBytes (sanitize bs)
    | none => t
  else t
def sanitizeLine (l : String) : String := " ".intercalate ((l.splitOn " ").map sanitizeTok)

def isDist (l : String) : Bool := l.startsWith "dist "
def sortStrs (l : List String) : List String := l.mergeSort (fun a b => !(decide (b < a)))

/-- distances are compared as a multiset (their order is not part of the property), everything else in order -/
def xlinesEqual (xo xr : List String) : Bool :=
  let o := xo.map sanitizeLine
  (o.filter (fun l => !isDist l)) == (xr.filter (fun l => !isDist l))
    && sortStrs (o.filter isDist) == sortStrs (xr.filter isDist)

def firstXDiff (xo xr : List String) : String :=
  let o := (xo.map sanitizeLine)
  match (o.filter (fun l => !(xr.contains l))).head?, (xr.filter (fun l => !(o.contains l))).head? with
  | some a, _ => "only-original:" ++ ((a.take 120).toString.replace " " "_")
  | none, some b => "only-reloaded:" ++ ((b.take 120).toString.replace " " "_")
  | none, none => "order-of-lines"

def fieldDiffs (a b : ObjObs) : List String :=
  (if a.type ≠ b.type then ["type"] else []) ++ (if a.depth ≠ b.depth then ["depth"] else []) ++
  (if a.lidx ≠ b.lidx then ["lidx"] else []) ++ (if a.osidx ≠ b.osidx then ["os_index"] else []) ++
  (if a.gp ≠ b.gp then ["gp_index"] else []) ++ (if a.parent ≠ b.parent then ["parent"] else []) ++
  (if a.rank ≠ b.rank then ["rank"] else []) ++ (if a.arities ≠ b.arities then ["arities"] else []) ++
  (if a.links ≠ b.links then ["links"] else []) ++ (if a.symm ≠ b.symm then ["symmetric"] else []) ++
  (if a.sets ≠ b.sets then ["sets"] else []) ++ (if a.totalMem ≠ b.totalMem then ["total_memory"] else []) ++
  (if a.attrs ≠ b.attrs then ["attrs"] else []) ++ (if a.children ≠ b.children then ["children"] else []) ++
  (if a.subtype ≠ b.subtype then ["subtype"] else []) ++ (if a.name ≠ b.name then ["name"] else []) ++
  (if a.infos ≠ b.infos then ["infos"] else [])

def dumpDiffs (a b : Dump) : List String :=
  let oa := obs a; let ob := obs b
  (if oa.nobjs ≠ ob.nobjs then ["nobjs:" ++ toString oa.nobjs ++ "/" ++ toString ob.nobjs] else []) ++
  (if oa.flags ≠ ob.flags then ["flags"] else []) ++ (if oa.depth ≠ ob.depth then ["depth"] else []) ++
  (if oa.allowedCpuset ≠ ob.allowedCpuset then ["allowed_cpuset"] else []) ++
  (if oa.allowedNodeset ≠ ob.allowedNodeset then ["allowed_nodeset"] else []) ++
  (if oa.levels ≠ ob.levels then ["levels"] else []) ++ (if oa.typeDepths ≠ ob.typeDepths then ["type_depths"] else []) ++
  ((oa.objs.zip ob.objs).filterMap (fun (x, y) =>
      let d := fieldDiffs x y
      if d.isEmpty then none else some ("obj" ++ toString x.id ++ "(type" ++ toString x.type ++ "):" ++ "+".intercalate d))).take 4

def judge (fmt : String) (s : St) : String :=
  match s.bad, s.orig, s.reload with
  | some e, _, _ => "EQ FAIL dump-unparsable:" ++ e
  | none, some o, some r =>
    let o' := sanitizeDump o
    if fmt = "v2" then
      let o2 := v2DieRule o'
      if decide (TreeSetsEquiv o2 r) then "EQ ok"
      else if decide (TreeSetsEquiv (normMem o2) r) then "EQ memsets"
      else "EQ FAIL v2-tree-or-sets " ++ ",".intercalate (dumpDiffs o2 r)
    else
      let xeq := xlinesEqual s.xo.reverse s.xr.reverse
      if decide (TopoEquiv o' r) && xeq then "EQ ok"
      else if decide (TopoEquiv (normMem o') r) && xeq then "EQ memsets"
      else "EQ FAIL " ++ ",".intercalate (dumpDiffs (normMem o') r ++ (if xeq then [] else ["extra:" ++ firstXDiff s.xo.reverse s.xr.reverse]))
  | none, _, _ => "EQ FAIL missing-dump"

/-! ### object-level unit stream -/
open Hw.XmlObj in
def parseHexOpt (s : String) : Option (Option (List Nat)) :=
  if s = "-" then some none else (parseHexBytes s).map some

def parseSetOpt (s : String) : Option (Option Nat) :=
  if s = "-" then some none else (parseHex s).map some

open Hw.XmlObj in
def parsePci (s : String) : Option (Option PciFields) :=
  if s = "-" then some none else
  match s.splitOn "," with
  | [d, bu, dv, fn, c, ve, de, sv, sd, r, p, ls] => do
    let d ← parseNat d; let bu ← parseNat bu; let dv ← parseNat dv; let fn ← parseNat fn; let c ← parseNat c
    let ve ← parseNat ve; let de ← parseNat de; let sv ← parseNat sv; let sd ← parseNat sd; let r ← parseNat r; let p ← parseNat p
    let ls ← parseHexBytes ls
    pure (some { domain := d, bus := bu, dev := dv, func := fn, classId := c, vendor := ve, device := de, subvendor := sv, subdevice := sd,
                 revision := r, progIf := p, linkspeed := ls })
  | _ => none

open Hw.XmlObj in
def parseFields (t : List String) : Option ObjFields :=
  match t with
  | [ty, os, gp, cs, ccs, ns, cns, ac, an, nm, st, a0, a1, a2, a3, a4, a5, pci] => do
    let ty ← parseNat ty; let os ← parseInt os; let gp ← parseNat gp
    let cs ← parseSetOpt cs; let ccs ← parseSetOpt ccs; let ns ← parseSetOpt ns; let cns ← parseSetOpt cns
    let ac ← parseSetOpt ac; let an ← parseSetOpt an
    let nm ← parseHexOpt nm; let st ← parseHexOpt st
    let attrs ← [a0, a1, a2, a3, a4, a5].mapM parseInt
    let pci ← parsePci pci
    pure { type := ty, osidx := if os < 0 then none else some os.toNat, gp := gp, cpuset := cs, ccpuset := ccs, nodeset := ns, cnodeset := cns,
           allowed := (match ac, an with | some x, some y => some (x, y) | _, _ => none), name := nm, subtype := st, attrs := attrs, pci := pci }
  | _ => none

/-- fields the core rewrites after the import: a Group's / Bridge's depth, and the cpusets of memory objects (F55: fixup_sets) -/
def cmpNorm (f : Hw.XmlObj.ObjFields) : Hw.XmlObj.ObjFields :=
  let f := Hw.XmlObj.normalise f
  if Hw.XmlObj.isMemoryT f.type then { f with cpuset := none, ccpuset := none } else f

def bytesStr (l : List Nat) : String := String.ofList (l.map Char.ofNat)

open Hw.XmlObj in
def judgeObj (root : Bool) (ptype : Nat) (phas : Bool) (tag : List Nat) (fo : ObjFields) (fr : Option ObjFields) : String :=
  let c : Ctx := { root := root, parentType := ptype, parentHasSets := phas }
  let scanned := scanAttrs (tag.length + 1) tag
  let expected := exportAttrs root fo
  if scanned ≠ expected then
    let d := ((scanned.zip expected).filter (fun (x, y) => x ≠ y)).head?
    "OBJ FAIL export-attrs:" ++ (match d with
      | some (x, y) => bytesStr x.1 ++ "=" ++ hexOfBytes x.2 ++ "/model:" ++ bytesStr y.1 ++ "=" ++ hexOfBytes y.2
      | none => "count:" ++ toString scanned.length ++ "/" ++ toString expected.length)
  else if !Valid c fo then "OBJ FAIL original-not-Valid"
  else match importAttrs c scanned, fr with
    | .ok f', some r =>
      if f' ≠ normalise fo then "OBJ FAIL import-differs-from-normalised-original"
      else if cmpNorm f' = cmpNorm r then "OBJ ok" else "OBJ FAIL import-differs-from-reloaded"
    | .ok _, none => "OBJ FAIL reloaded-object-missing"
    | .ignored, _ => "OBJ FAIL import:ignored"
    | .reject, _ => "OBJ FAIL import:reject"
    | .outside, _ => "OBJ FAIL import:outside"

/-! ### tree-level stream -/
section TreeStream
open Hw.XmlObj Hw.XmlTree

/-- rebuild a forest from its preorder listing with depths (processed from the end: the entries deeper than an item that follow
    it are its children) -/
def buildElems (items : List (Nat × Elem)) : List (Nat × Elem) :=
  items.foldr (fun (it : Nat × Elem) forest =>
    let ks := forest.takeWhile (fun x => decide (x.1 > it.1))
    let rest := forest.dropWhile (fun x => decide (x.1 > it.1))
    (it.1, Elem.mk it.2.tag it.2.attrs it.2.content (ks.map (·.2))) :: rest) []

def buildTrees (items : List (Nat × String × Node)) : List (Nat × String × Tree) :=
  items.foldr (fun (it : Nat × String × Node) forest =>
    let ks := forest.takeWhile (fun x => decide (x.1 > it.1))
    let rest := forest.dropWhile (fun x => decide (x.1 > it.1))
    let pick (k : String) := (ks.filter (fun x => x.2.1 == k)).map (·.2.2)
    (it.1, it.2.1, Tree.mk it.2.2 (pick "m") (pick "n") (pick "i") (pick "x")) :: rest) []

mutual
def flatElem (d : Nat) : Elem → List (Nat × Bytes × List (Bytes × Bytes) × Option Bytes)
  | .mk t a c ks => (d, t, a, c) :: flatElems (d + 1) ks
def flatElems (d : Nat) : List Elem → List (Nat × Bytes × List (Bytes × Bytes) × Option Bytes)
  | [] => []
  | e :: es => flatElem d e ++ flatElems d es
end

mutual
def flatTree (d : Nat) (k : String) : Tree → List (Nat × String × Node)
  | .mk n mem nor io misc => (d, k, n) :: (flatTrees (d + 1) "m" mem ++ flatTrees (d + 1) "n" nor ++ flatTrees (d + 1) "i" io ++ flatTrees (d + 1) "x" misc)
def flatTrees (d : Nat) (k : String) : List Tree → List (Nat × String × Node)
  | [] => []
  | t :: ts => flatTree d k t ++ flatTrees d k ts
end

def parsePairs (n : Nat) (t : List String) : Option (List (Bytes × Bytes) × List String) :=
  (List.range n).foldlM (fun (acc : List (Bytes × Bytes) × List String) _ =>
    match acc.2 with
    | a :: v :: r => do let a ← parseHexBytes a; let v ← parseHexBytes v; pure (acc.1 ++ [(a, v)], r)
    | _ => none) ([], t)

def parseNats2 (n : Nat) (t : List String) : Option (List (Nat × Nat) × List String) :=
  (List.range n).foldlM (fun (acc : List (Nat × Nat) × List String) _ =>
    match acc.2 with
    | a :: v :: r => do let a ← parseNat a; let v ← parseNat v; pure (acc.1 ++ [(a, v)], r)
    | _ => none) ([], t)

def parseUds (n : Nat) (t : List String) : Option (List UData × List String) :=
  (List.range n).foldlM (fun (acc : List UData × List String) _ =>
    match acc.2 with
    | nm :: e :: dt :: r => do
      let nm ← parseHexOpt nm; let dt ← parseHexBytes dt
      if e ≠ "0" ∧ e ≠ "1" then none else pure (acc.1 ++ [{ name := nm, b64 := e = "1", data := dt }], r)
    | _ => none) ([], t)

/-- `<depth> <kind> <18 fields> I <n> .. P <n> .. U <n> ..` -/
def parseTreeObj (t : List String) : Option (Nat × String × Node) :=
  match t with
  | d :: k :: rest => do
    let d ← parseNat d
    if !(["r", "m", "n", "i", "x"].contains k) then none
    let f ← parseFields (rest.take 18)
    match rest.drop 18 with
    | "I" :: n :: r => do
      let n ← parseNat n
      let (infos, r) ← parsePairs n r
      match r with
      | "P" :: n :: r => do
        let n ← parseNat n
        let (pts, r) ← parseNats2 n r
        match r with
        | "U" :: n :: r => do
          let n ← parseNat n
          let (uds, r) ← parseUds n r
          if r ≠ [] then none else pure (d, k, { f := f, infos := infos, pts := pts, uds := uds })
        | _ => none
      | _ => none
    | _ => none
  | _ => none

/-- what the comparison with the RELOADED topology looks at: the fields the core does not rewrite after the import (`cmpNorm`),
    infos, page types, and name + bytes of every userdata entry (the callback is not told how the entry was encoded) -/
def cmpNode (n : Node) : ObjFields × List (Bytes × Bytes) × List (Nat × Nat) × List (Option Bytes × Bytes) :=
  (cmpNorm n.f, n.infos, n.pts, n.uds.map (fun u => (u.name, u.data)))

def showElem (x : Nat × Bytes × List (Bytes × Bytes) × Option Bytes) : String :=
  toString x.1 ++ ":" ++ bytesStr x.2.1 ++ "[" ++ ",".intercalate (x.2.2.1.map (fun a => bytesStr a.1 ++ "=" ++ hexOfBytes a.2)) ++ "]" ++
  (match x.2.2.2 with | some c => "content:" ++ hexOfBytes c | none => "")

def firstDiff {α : Type} [BEq α] (sh : α → String) (xs ys : List α) : String :=
  match ((xs.zip ys).filter (fun (x, y) => x != y)).head? with
  | some (x, y) => ((sh x).take 300).toString ++ "/model:" ++ ((sh y).take 300).toString
  | none => "count:" ++ toString xs.length ++ "/" ++ toString ys.length

def judgeTree (s : St) : String :=
  if s.tbad then "TREE FAIL unparsable-line"
  else match buildElems s.te.reverse, buildTrees s.tos.reverse, buildTrees s.trs.reverse with
    | [(0, e)], [(0, "r", o)], [(0, "r", r)] =>
      let real := flatElem 0 e
      let model := flatElem 0 (exportTree true o)
      if real != model then "TREE FAIL export-tree:" ++ firstDiff showElem real model
      else if !TreeValid { root := true } o then "TREE FAIL original-not-TreeValid"
      else match importTree e with
        | .ok t' =>
          let ft := flatTree 0 "r" t'
          if ft != flatTree 0 "r" (normTree o) then "TREE FAIL import-differs-from-normalised-original"
          else
            let a := ft.map (fun x => (x.1, x.2.1, cmpNode x.2.2))
            let b := (flatTree 0 "r" r).map (fun x => (x.1, x.2.1, cmpNode x.2.2))
            if a == b then "TREE ok"
            else "TREE FAIL import-differs-from-reloaded:" ++
              firstDiff (fun (x : Nat × String × _) => toString x.1 ++ x.2.1 ++ ":type" ++ toString x.2.2.1.type ++ ":gp" ++ toString x.2.2.1.gp) b a
        | .reject => "TREE FAIL import:reject"
        | .outside => "TREE FAIL import:outside"
    | _, _, _ => "TREE FAIL malformed-stream"

end TreeStream


/-! ### side-structure stream -/
section SideStream
open Hw.XmlObj Hw.XmlTree Hw.XmlSide

def parseTI (s : String) : Option (Nat × Nat) :=
  match s.splitOn ":" with
  | [t, i] => do let t ← parseNat t; let i ← parseNat i; pure (t, i)
  | _ => none

/-- `<hetero> <utype|-> <kind> <name|-> <n> (<type>:<index>){n} <value>{n*n}` -/
def parseDist (t : List String) : Option Dist :=
  match t with
  | het :: ut :: kind :: name :: n :: rest => do
    let kind ← parseNat kind; let name ← parseHexOpt name; let n ← parseNat n
    if rest.length ≠ n + n * n then none
    let items ← (rest.take n).mapM parseTI
    let vals ← (rest.drop n).mapM parseNat
    if het = "1" then
      if ut ≠ "-" then none else pure { types := some (items.map (·.1)), kind := kind, name := name, idx := items.map (·.2), values := vals }
    else if het = "0" then do
      let u ← parseNat ut
      pure { utype := some u, kind := kind, name := name, idx := items.map (·.2), values := vals }
    else none
  | _ => none

def parseInits (n : Nat) (t : List String) : Option (List (Init × Nat) × List String) :=
  (List.range n).foldlM (fun (acc : List (Init × Nat) × List String) _ =>
    match acc.2 with
    | i :: v :: r => do
      let v ← parseNat v
      let i ← (if i.startsWith "c" then (parseHex (i.drop 1).toString).map Init.cpuset
               else if i.startsWith "o" then (parseTI (i.drop 1).toString).map (fun p => Init.obj p.1 p.2) else none)
      pure (acc.1 ++ [(i, v)], r)
    | _ => none) ([], t)

/-- `<type> <gp> <value> <ninit> (c<set>|o<type>:<gp> <value>)*` -/
def parseTarget (t : List String) : Option MTarget :=
  match t with
  | ty :: gp :: v :: ni :: rest => do
    let ty ← parseNat ty; let gp ← parseNat gp; let v ← parseNat v; let ni ← parseNat ni
    let (inits, r) ← parseInits ni rest
    if r ≠ [] then none else pure { type := ty, gp := gp, value := v, inits := inits }
  | _ => none

def parseKind (t : List String) : Option Kind :=
  match t with
  | set :: eff :: n :: rest => do
    let m ← parseHex set; let eff ← parseInt eff; let n ← parseNat n
    let (infos, r) ← parsePairs n rest
    if r ≠ [] then none else pure { cpuset := m, eff := eff, infos := infos }
  | _ => none

def sideLine (o : SideObs) (op : String) (t : List String) : Option SideObs :=
  if op = "SD" then (parseDist t).map (fun d => { o with dists := o.dists ++ [d] })
  else if op = "SM" then
    match t with
    | [id, name, flags, _] => do
      let id ← parseNat id; let name ← parseHexBytes name; let flags ← parseNat flags
      if id ≠ o.mas.length then none else pure { o with mas := o.mas ++ [{ name := name, flags := flags }] }
    | _ => none
  else if op = "ST" then do
    let tg ← parseTarget t
    match o.mas.reverse with
    | a :: r => pure { o with mas := (({ a with targets := a.targets ++ [tg] }) :: r).reverse }
    | [] => none
  else if op = "SK" then (parseKind t).map (fun k => { o with kinds := o.kinds ++ [k] })
  else if op = "SI" then
    match t with
    | n :: rest => do
      let n ← parseNat n
      let (infos, r) ← parsePairs n rest
      if r ≠ [] then none else pure { o with infos := infos }
    | _ => none
  else none

def showDist (d : Dist) : String :=
  "dist(" ++ (match d.types with | some _ => "hetero" | none => "type" ++ toString (d.utype.getD 99)) ++ ",kind" ++ toString d.kind ++ ",n" ++
  toString d.nbobjs ++ ",idx" ++ toString d.idx ++ ")"

/-- the reloaded attribute of that name must have the imported flags and, as targets, what hwloc_internal_memattr_set_value builds
    from the imported calls (`rebuild`) -/
def memattrAgrees (r : List MemAttr) (a : MemAttrIn) : Bool :=
  match a.name with
  | none => false
  | some nm =>
    match r.find? (fun x => x.name == nm) with
    | some x => x.flags == a.flags && decide (rebuild a.calls = x.targets)
    | none => false

def judgeSide (s : St) : String :=
  if s.sbad then "SIDE FAIL unparsable-line"
  else match s.sskip with
  | some w => "SIDE ok skipped:" ++ w
  | none =>
    let forest := buildElems s.se.reverse
    if forest.any (fun x => x.1 ≠ 0) then "SIDE FAIL malformed-stream" else
    let real := (forest.map (·.2)).filter (fun e => e.tag ≠ tagSupport)
    let o := s.so
    let model := exportSide o.dists o.mas o.kinds o.infos
    if flatElems 0 real != flatElems 0 model then "SIDE FAIL export-side:" ++ firstDiff showElem (flatElems 0 real) (flatElems 0 model)
    else if !(o.dists.all distValid && o.mas.all memAttrValid && o.kinds.all kindValid) then "SIDE FAIL original-not-valid"
    else match importSide (forest.map (·.2)) {} with
      | .reject => "SIDE FAIL import:reject"
      | .outside => "SIDE FAIL import:outside"
      | .ok m =>
        let expD := ((o.dists.filter (fun d => d.types.isNone)) ++ (o.dists.filter (fun d => d.types.isSome))).map normDist
        let expM : List MemAttrIn := ((((List.range o.mas.length).zip o.mas).filter exported).map (fun ia =>
                      { name := some ia.2.name, flags := ia.2.flags, calls := callsOf ia.2 }))
        if decide (m.dists ≠ expD) then "SIDE FAIL import-distances-differ-from-original:" ++ firstDiff showDist m.dists expD
        else if decide (m.memattrs ≠ expM) then "SIDE FAIL import-memattrs-differ-from-original"
        else if decide (m.kinds ≠ o.kinds.map normKind) then "SIDE FAIL import-cpukinds-differ-from-normalised-original"
        else if decide (m.infos ≠ o.infos.map sanPair) then "SIDE FAIL import-infos-differ-from-normalised-original"
        else
          let r := s.sr
          if decide (m.dists ≠ r.dists) then "SIDE FAIL import-distances-differ-from-reloaded:" ++ firstDiff showDist r.dists m.dists
          else if !(m.memattrs.all (memattrAgrees r.mas)) then "SIDE FAIL import-memattrs-differ-from-reloaded"
          else if decide (m.kinds ≠ r.kinds) then "SIDE FAIL import-cpukinds-differ-from-reloaded"
          else if decide (m.infos ≠ r.infos) then "SIDE FAIL import-infos-differ-from-reloaded"
          else "SIDE ok"

end SideStream

def intStr (i : Int) : String := toString i

def tgtOf (ts : Nat) : B64.Tgt := { cells := List.replicate ts 170 }

def step (s : St) (line : String) : St × String :=
  let t := tokens line
  match t with
  | ["ESC", h] => match parseHexBytes h with
    | some bs => (s, match escapeC bs with | none => "ESC -" | some e => "ESC " ++ hexOfBytes e)
    | none => (s, "bad-op")
  | ["ATTR", h] => match parseHexBytes h with
    | some bs => (s, match nextAttr bs with
        | none => "ATTR -1"
        | some (n, v, off) => "ATTR 0 " ++ hexOfBytes n ++ " " ++ hexOfBytes v ++ " " ++ toString off)
    | none => (s, "bad-op")
  | ["B64E", h, ts] => match parseHexBytes h, parseNat ts with
    | some bs, some n =>
      let (r, tg) := B64.encode bs (tgtOf n)
      (s, "B64E " ++ intStr r ++ " " ++ hexOfBytes tg.cells)
    | _, _ => (s, "bad-op")
  | ["B64D", h, ts] => match parseHexBytes h with
    | some bs =>
      if ts = "N" then (s, "B64D " ++ intStr (B64.decode bs none).1 ++ " =")
      else match parseNat ts with
        | some n =>
          let (r, tg) := B64.decode bs (some (tgtOf n))
          (s, "B64D " ++ intStr r ++ " " ++ hexOfBytes ((tg.map (·.cells)).getD []))
        | none => (s, "bad-op")
    | none => (s, "bad-op")
  | ["NUM", conv, v] =>
    if conv = "d" then match parseInt v with
      | some i =>
        let txt := printInt i
        (s, "NUM " ++ hexOfBytes txt ++ " " ++ intStr (atoi txt))
      | none => (s, "bad-op")
    else match parseNat v with
      | some n =>
        let n' := if conv = "u" then n % 2^32 else n % 2^64
        let txt := decDigits n'
        match strtoul 10 txt with
        | .ok p _ => (s, "NUM " ++ hexOfBytes txt ++ " " ++ toString (if conv = "u" then p % 2^32 else p))
        | .unsupported => (s, "NUM unsupported")
      | none => (s, "bad-op")
  | "OBJ" :: root :: ptype :: phas :: tag :: "O" :: rest =>
    let fo := rest.take 18
    let rr := rest.drop 18
    match parseHexBytes tag, parseFields fo, parseNat ptype with
    | some tg, some f, some pt =>
      (match rr with
       | ["R", "-"] => (s, judgeObj (root = "1") pt (phas = "1") tg f none)
       | "R" :: r => (match parseFields r with
          | some fr => (s, judgeObj (root = "1") pt (phas = "1") tg f (some fr))
          | none => (s, "bad-op"))
       | _ => (s, "bad-op"))
    | _, _, _ => (s, "bad-op")
  | "TB" :: _ => ({ s with te := [], tos := [], trs := [], tbad := false }, ".")
  | ["TE", d, tag, raw, ct] =>
    (match parseNat d, parseHexBytes tag, parseHexBytes raw, parseHexOpt ct with
     | some d, some tag, some raw, some ct =>
       ({ s with te := (d, Hw.XmlTree.Elem.mk tag (scanAttrs (raw.length + 1) raw) ct []) :: s.te }, ".")
     | _, _, _, _ => ({ s with tbad := true }, "bad-op"))
  | "TO" :: rest =>
    (match parseTreeObj rest with
     | some x => ({ s with tos := x :: s.tos }, ".")
     | none => ({ s with tbad := true }, "bad-op"))
  | "TR" :: rest =>
    (match parseTreeObj rest with
     | some x => ({ s with trs := x :: s.trs }, ".")
     | none => ({ s with tbad := true }, "bad-op"))
  | ["TM", _, st] =>
    let v := if s.tbad then "TMUT FAIL unparsable-line" else
      match buildElems s.te.reverse with
      | [(0, e)] =>
        (match Hw.XmlTree.importTree e with
         | .reject => if st = "0" then "TMUT FAIL the-model-rejects-a-document-that-hwloc-loads" else "TMUT ok reject/" ++ st
         | .ok _ => "TMUT ok accept/" ++ st
         | .outside => "TMUT ok outside/" ++ st)
      | _ => "TMUT FAIL malformed-stream"
    ({ s with te := [] }, v)
  | ["SB"] => ({ s with se := [], so := {}, sr := {}, sbad := false, sskip := none }, ".")
  | ["SE", d, tag, raw, ct] =>
    (match parseNat d, parseHexBytes tag, parseHexBytes raw, parseHexOpt ct with
     | some d, some tag, some raw, some ct =>
       ({ s with se := (d, Hw.XmlTree.Elem.mk tag (scanAttrs (raw.length + 1) raw) ct []) :: s.se }, ".")
     | _, _, _, _ => ({ s with sbad := true }, "bad-op"))
  | "SX" :: _ :: w :: _ => ({ s with sskip := some w }, ".")
  | ["SU", _, st] =>
    let v := if s.sbad then "SMUT FAIL unparsable-line" else
      let forest := buildElems s.se.reverse
      if forest.any (fun x => x.1 ≠ 0) then "SMUT FAIL malformed-stream" else
      (match Hw.XmlSide.importSide (forest.map (·.2)) {} with
       | .reject => if st = "0" then "SMUT FAIL the-model-rejects-a-document-that-hwloc-loads" else "SMUT ok reject/" ++ st
       | .ok _ => "SMUT ok accept/" ++ st
       | .outside => "SMUT ok outside/" ++ st)
    ({ s with se := [] }, v)
  | ["SJ"] => ({ s with se := [], so := {}, sr := {} }, judgeSide s)
  | ["TJ"] => ({ s with te := [], tos := [], trs := [] }, judgeTree s)
  | "CASE" :: _ => ({}, ".")
  | "OP" :: _ => (s, ".")
  | ["RT"] => (s, ".")
  | ["LOADFAIL"] => (s, ".")
  | "FIXV2" :: _ => (s, ".")
  | "KNOWN" :: _ => (s, ".")
  | "X" :: tag :: rest =>
    let l := " ".intercalate rest
    if tag = "o" then ({ s with xo := l :: s.xo }, ".")
    else if tag = "r" then ({ s with xr := l :: s.xr }, ".")
    else (s, "bad-op")
  | ["CMP", fmt] =>
    if fmt = "v3" ∨ fmt = "v2" then
      let v := judge fmt s
      ({ s with memsets := v = "EQ memsets" }, v)
    else (s, "EQ FAIL " ++ fmt)
  | ["FIX", same, sameNs, impsup, _, _, _] =>
    if same = "1" then (s, "FIX ok")
    else if sameNs = "1" ∧ impsup = "0" then (s, "FIX ok-modulo-support")
    else if s.memsets then (s, "FIX memsets")
    else (s, "FIX FAIL second-export-differs")
  -- the export taken before the harness queried anything (lazily refreshed caches still stale) vs. the one taken after:
  -- the document is a function of the topology, not of the query history
  | ["EXP0", same] => (s, if same = "1" then "EXP0 ok" else "EXP0 FAIL export-depends-on-earlier-queries")
  | "CRASH" :: _ => (s, "bad-op")
  | _ =>
    match t with
    | "TOPO" :: _ | "O" :: _ | "L" :: _ | "TD" :: _ | "END" :: _ =>
      let (p', r) := TopoEng.feed s.part t
      match r with
      | none => ({ s with part := p' }, ".")
      | some (.error e) => ({ s with part := p', bad := some e }, ".")
      | some (.ok d) =>
        let tag := (t.getD 1 "")
        if tag = "o" then ({ s with part := p', orig := some d }, ".")
        else if tag = "r" then ({ s with part := p', reload := some d }, ".")
        else ({ s with part := p' }, "bad-op")
    | op :: tg :: rest =>
      if ["SD", "SM", "ST", "SK", "SI"].contains op && (tg = "o" || tg = "r") then
        (match sideLine (if tg = "o" then s.so else s.sr) op rest with
         | some o => ((if tg = "o" then { s with so := o } else { s with sr := o }), ".")
         | none =>
           if rest.any (fun x => x.startsWith "cI") then ({ s with sskip := some "infinite-set" }, ".")
           else ({ s with sbad := true }, "bad-op"))
      else (s, "bad-op")
    | _ => (s, "bad-op")

end Driver.XmlRtEng
