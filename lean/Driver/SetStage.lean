/- Driver.SetStage — the `setstage` engine (C01, second engine): the blocks that the HWLOC_VERIF hook of hwloc_discover() writes
   right BEFORE "Fixup root sets" and right AFTER remove_unused_sets()/fixup_sets() are read; the model of the set pipeline
   (Hw.Topo.SetStage.stage) is run on the BEFORE block and must reproduce the AFTER block exactly: the allowed sets, and for every
   object (depth-first order, normal then memory children) type, os_index, gp_index, parent, list kind and the four sets.
   I/O and Misc objects (no sets; the stage does not touch them) must be the same before and after.

     CASE … / LOADED …                    "."
     STAGE before <flags> <acpu> <anode>   "."
     O <type> <os> <gp> <parent gp> <N|M|I|X> <cpuset> <ccpuset> <nodeset> <cnodeset>     "."
     END before                            "pre ok" | "pre FAIL <clauses>" | "UNSUPPORTED <why>"
     STAGE after <flags> <acpu> <anode>    "."
     END after                             "ok objs=<n> special=<n> changed=<n> reordered=<0|1>" | "DIFF <what>"
   anything else: "bad-op" -/
import Hw.Topo.SetStage
import Driver.Util
import Driver.Stage2
namespace Driver.SetStageEng
open Hw.Topo Hw.Topo.SetStage Driver

structure Line where
  type : Nat
  os : Nat
  gp : Nat
  parent : Int
  kind : String
  sets : List String          -- the four sets as printed
deriving Repr, Inhabited

def Line.text (l : Line) : String :=
  s!"{l.type} {l.os} {l.gp} {l.parent} {l.kind} " ++ " ".intercalate l.sets

structure St where
  phase : Nat := 0            -- 0 idle, 1 inside BEFORE, 2 BEFORE complete, 3 inside AFTER
  flags : Nat := 0
  hdr : List String := []     -- allowed sets of the open block, as printed
  lines : List Line := []     -- reversed
  expected : Option (List String × List String × String × Nat × List String) := none
      -- rows of set-bearing objects, sorted rows of special objects, allowed line, flags, BEFORE rows (to count changes)
  s2 : Stage2Eng.St2 := {}    -- the later stage boundaries (STAGE2 / P / END2 lines, Driver.Stage2)
deriving Inhabited

def parseLine (t : List String) : Option Line :=
  match t with
  | [ty, os, gp, parent, kind, a, b, c, d] => do
    let ty ← parseNat ty; let os ← parseNat os; let gp ← parseNat gp; let parent ← parseInt parent
    if kind ≠ "N" ∧ kind ≠ "M" ∧ kind ≠ "I" ∧ kind ≠ "X" then none else
    pure { type := ty, os := os, gp := gp, parent := parent, kind := kind, sets := [a, b, c, d] }
  | _ => none

/-- a finite set: `some none` = NULL, `none` = not a finite set -/
def parseSet (s : String) : Option (Option Nat) :=
  if s = "-" then some none else (parseHex s).map some

def parseASet (s : String) : Option ASet :=
  if s.startsWith "~" then (parseHex (s.drop 1).toString).map (fun b => { co := true, bits := b })
  else (parseHex s).map (fun b => { co := false, bits := b })

/-- the tree of all objects as dumped (children in list order) -/
inductive DT where
  | node (l : Line) (kids : List DT)
deriving Inhabited

/-- rebuild the tree from the depth-first lines: the lines that follow a node and name it as their parent are its children -/
partial def parseNode : List Line → Option (DT × List Line)
  | [] => none
  | l :: rest =>
    let rec loop (acc : List DT) (rest : List Line) : List DT × List Line :=
      match rest with
      | c :: _ =>
        if c.parent == (l.gp : Int) then
          match parseNode rest with
          | some (t, rest') => loop (t :: acc) rest'
          | none => (acc.reverse, rest)
        else (acc.reverse, rest)
      | [] => (acc.reverse, [])
    let (kids, rest') := loop [] rest
    some (DT.node l kids, rest')

def setsOf (l : Line) : Except String SObj :=
  match l.sets.map parseSet with
  | [some c, some cc, some n, some cn] =>
    match c with
    | none => .error s!"object gp={l.gp} has no cpuset"
    | some c =>
      if l.kind = "M" ∧ n.isNone then .error s!"memory object gp={l.gp} has no nodeset" else
      .ok { gp := l.gp, type := l.type, os := l.os, cpuset := c, ccpuset := cc, nodeset := n.getD 0, cnodeset := cn }
  | _ => .error s!"object gp={l.gp} has an infinite or unparsable set"

/-- the set-bearing part of the tree; I/O and Misc subtrees are collected aside -/
partial def toST : DT → Except String (ST × List Line)
  | .node l kids => do
    let o ← setsOf l
    let mut ks : List ST := []
    let mut ms : List ST := []
    let mut sp : List Line := []
    for k in kids do
      match k with
      | .node kl _ =>
        if kl.kind = "N" then
          let (t, s) ← toST k
          ks := t :: ks; sp := sp ++ s
        else if kl.kind = "M" then
          let (t, s) ← toST k
          ms := t :: ms; sp := sp ++ s
        else sp := sp ++ specials k
    pure (ST.node o ks.reverse ms.reverse, sp)
where
  specials : DT → List Line
    | .node l kids => l :: (kids.map specials).flatten

def hexO : Option Nat → String
  | none => "-"
  | some n => toHex n

def rowText (r : Int × Bool × SObj) : String :=
  let o := r.2.2
  s!"{o.type} {o.os} {o.gp} {r.1} {if r.2.1 then "M" else "N"} {toHex o.cpuset} {hexO o.ccpuset} {toHex o.nodeset} {hexO o.cnodeset}"

def sortStrings (l : List String) : List String := (l.toArray.qsort (· < ·)).toList

def isSetLine (l : Line) : Bool := l.kind = "N" || l.kind = "M"

def endBefore (s : St) : St × String :=
  let lines := s.lines.reverse
  match s.hdr with
  | [ac, an] =>
    match parseASet ac, parseASet an, parseNode lines with
    | some ac, some an, some (dt, []) =>
      match toST dt with
      | .error e => ({ s with phase := 0, lines := [], expected := none }, "UNSUPPORTED " ++ e)
      | .ok (root, sp) =>
        let i : In := { includeDisallowed := s.flags % 2 == 1, allowedC := ac, allowedN := an, root := root }
        let out := stage i
        let exp := (rows (-1) false out.root).map rowText
        let al := toHex out.allowedC ++ " " ++ toHex out.allowedN
        let pf := preFailed i
        ({ s with phase := 2, lines := [], expected := some (exp, sortStrings (sp.map Line.text), al, s.flags,
                                                              (lines.filter isSetLine).map Line.text) },
         if pf.isEmpty then "pre ok" else "pre FAIL " ++ ",".intercalate pf)
    | _, _, some (_, _ :: _) => ({ s with phase := 0, lines := [], expected := none }, "UNSUPPORTED the lines do not form one tree")
    | _, _, _ => ({ s with phase := 0, lines := [], expected := none }, "UNSUPPORTED header or empty block")
  | _ => ({ s with phase := 0, lines := [], expected := none }, "UNSUPPORTED header")

def firstDiff : List String → List String → Nat → String
  | a :: as, b :: bs, k => if a = b then firstDiff as bs (k + 1) else s!"row {k}: model [{a}] C [{b}]"
  | [], [], _ => "none"
  | a :: _, [], k => s!"row {k}: model [{a}] C has no more objects"
  | [], b :: _, k => s!"row {k}: model has no more objects, C [{b}]"

def endAfter (s : St) : St × String :=
  let lines := s.lines.reverse
  let s' : St := { s with phase := 0, lines := [], expected := none }
  match s.expected with
  | none => (s', "DIFF an AFTER block without a usable BEFORE block")
  | some (exp, sp, al, flags, before) =>
    let got := (lines.filter isSetLine).map Line.text
    let gotSp := sortStrings ((lines.filter (fun l => !isSetLine l)).map Line.text)
    let gotAl := " ".intercalate s.hdr
    if flags ≠ s.flags then (s', s!"DIFF flags before {flags} after {s.flags}")
    else if gotAl ≠ al then (s', s!"DIFF allowed sets: model [{al}] C [{gotAl}]")
    else if got ≠ exp then (s', "DIFF " ++ firstDiff exp got 0)
    else if gotSp ≠ sp then (s', "DIFF I/O or Misc objects changed during the stage")
    else
      let changed := ((before.zip got).filter (fun p => p.1 ≠ p.2)).length
      let reord := if before.map (fun l => (l.splitOn " ").take 3) == got.map (fun l => (l.splitOn " ").take 3) then 0 else 1
      (s', s!"ok objs={got.length} special={gotSp.length} changed={changed} reordered={reord}")

def step (s : St) (line : String) : St × String :=
  let t := tokens line
  match t with
  | "CASE" :: _ => ({}, ".")
  | "LOADED" :: _ => let r := Stage2Eng.step s.s2 t; ({ s with s2 := r.1 }, r.2)
  | "STAGE2" :: _ => let r := Stage2Eng.step s.s2 t; ({ s with s2 := r.1 }, r.2)
  | "P" :: _ => let r := Stage2Eng.step s.s2 t; ({ s with s2 := r.1 }, r.2)
  | "END2" :: _ => let r := Stage2Eng.step s.s2 t; ({ s with s2 := r.1 }, r.2)
  | "Y" :: _ => let r := Stage2Eng.step s.s2 t; ({ s with s2 := r.1 }, r.2)
  | "ENDY" :: _ => let r := Stage2Eng.step s.s2 t; ({ s with s2 := r.1 }, r.2)
  | ["STAGE", "before", flags, ac, an] =>
    match parseNat flags with
    | some f => ({ phase := 1, flags := f, hdr := [ac, an], lines := [], expected := none }, ".")
    | none => (s, "bad-op")
  | ["STAGE", "after", flags, ac, an] =>
    match parseNat flags with
    | some f => if s.phase == 2 then ({ s with phase := 3, flags := f, hdr := [ac, an], lines := [] }, ".")
                else ({ s with phase := 3, flags := f, hdr := [ac, an], lines := [], expected := none }, ".")
    | none => (s, "bad-op")
  | "O" :: rest =>
    if s.phase == 1 || s.phase == 3 then
      match parseLine rest with
      | some l => ({ s with lines := l :: s.lines }, ".")
      | none => (s, "bad-op")
    else (s, "bad-op")
  | ["END", "before"] => if s.phase == 1 then endBefore s else (s, "bad-op")
  | ["END", "after"] => if s.phase == 3 then endAfter s else (s, "bad-op")
  | _ => (s, "bad-op")

end Driver.SetStageEng
