/- Driver.Shmem — line protocol of the `shmem` engine (C19).  One line in, one line out.

   EP <id> [load-failed]                       → ep                      (new world: empty file, nothing mapped)
   TOPO/O/L/TD … END orig                      → . … "stored wf=<verdict>"
   TOPO/O/L/TD … END a<h>                      → . … "EQUIV ok|FAIL:<where> wf=<verdict>"   (against the model's content of handle h)
   tinfos orig|a<h> <n> (<hexname> <hexvalue>)*→ . | eq / DIFF              (a<h>: against the model's PRIVATE infos copy)
   aux orig|a<h> <kind> <hash>                 → . | eq / DIFF
   getlen <flags>                              → errno class
   trace <pagesize> <n> <size>*                → len=<get_length> used=<bump end> cnt=<counted> h=<offset hash>
   samepass <0|1>                              → same / DIFFERENT-TRACES
   len0 <L>                                    → suffices / TOO-SHORT            (length returned before write refreshed the topology)
   occupy|release <addrhex> <len>              → .
   prewrite <k>                                → .
   write <flags> <off> <addrhex> <len>         → errno class
   file <off> <prefix_same> <lastnz> <size>    → within|BEYOND-USED prefix=same|CHANGED size=ok|BAD
   hdr <off> <version> <hlen> <addrhex> <len>  → hdr ok / hdr BAD
   corrupt <off> version|hlen|abi <value>      → .
   adopt <flags> <off> <addrhex> <len>         → errno class (a successful adopt gets the next handle number)
   mod <h> <entry point>                       → <outcome> same
   userdata <h> <v>                            → ok same ud=<v>
   infosadd <h> <hexname> <hexvalue>           → ok same n=<count>
   allow <h> <flags> <cpuset|-> <nodeset|->    → <outcome> same [allowed=<hex> <hex>]
   maquery <h>                                 → ok same
   destroy <h>                                 → unmapped / STILL-MAPPED
   For `mod`/`allow`/`maquery` the answer is what the PROPERTY demands (`Hw.Shmem.demanded`); it coincides with the
   code-faithful `stepAdopted` whenever that does not fault (C19_demanded_eq_step), which on adopted topologies is
   always (C19_adopted_never_faults). -/
import Hw.Io.Shmem
import Driver.Topo
import Driver.Util
namespace Driver.ShmemEng
open Hw.Shmem Hw.Topo Driver

structure State where
  w : World := {}
  part : TopoEng.Partial := {}
  origDump : Option Dump := none
  origAux : List (String × String) := []
  origInfos : List (String × String) := []
  trace : List Nat := []
  ps : Nat := 4096
deriving Inhabited

def init : State := {}

def State.content (s : State) : Option Content :=
  s.origDump.map (fun d => { dump := d, aux := s.origAux, infos := s.origInfos })

def parseSetTok (s : String) : Option (Option Nat) := TopoEng.parseSet s

def handleOfTag (tag : String) : Option Nat :=
  if tag.startsWith "a" then (tag.drop 1).toString.toNat? else none

def setLive (w : World) (h : Nat) (a : Adopted) : World :=
  { w with live := w.live.map (fun r => if r.1 == h then (h, a) else r) }

def wfVerdict (d : Dump) : String :=
  let v := wfCheck d
  if v.isEmpty then "ok" else "FAIL:" ++ ",".intercalate (v.take 4)

/-- first difference between the predicted and the observed dump -/
def dumpDiff (exp obs : Dump) : Option String :=
  if exp.flags ≠ obs.flags then some "flags" else
  if exp.depth ≠ obs.depth then some "depth" else
  if exp.root ≠ obs.root then some "root" else
  if exp.nobjs ≠ obs.nobjs then some "nobjs" else
  if exp.allowedCpuset ≠ obs.allowedCpuset then some "allowed_cpuset" else
  if exp.allowedNodeset ≠ obs.allowedNodeset then some "allowed_nodeset" else
  if exp.filters ≠ obs.filters then some "filters" else
  if exp.typeDepths ≠ obs.typeDepths then some "type_depths" else
  if exp.levels ≠ obs.levels then some "levels" else
  if exp.objs.length ≠ obs.objs.length then some "objs.length" else
  match (exp.objs.zip obs.objs).find? (fun p => p.1 ≠ p.2) with
  | some p => some ("obj" ++ toString p.1.id)
  | none => if exp = obs then none else some "other"

/-- hash of the offsets handed out by the bump pass, as the harness computes it (h = h*31 + off mod 2^32) -/
def offHash (bs : List Block) : Nat := bs.foldl (fun h b => (h * 31 + b.addr) % 4294967296) 0

def outcomeStr (o : Outcome) : String := o.toString

def setHex (n : Nat) : String := toHex n

def step (s : State) (line : String) : State × String :=
  let t := tokens line
  match t with
  | "EP" :: _ => ({ ps := s.ps }, "ep")
  | "TOPO" :: _ | "O" :: _ | "L" :: _ | "TD" :: _ =>
    let (p', _) := TopoEng.feed s.part t
    ({ s with part := p' }, ".")
  | ["END", tag] =>
    let (p', r) := TopoEng.feed s.part t
    let s := { s with part := p' }
    match r with
    | some (.ok d) =>
      if tag = "orig" then ({ s with origDump := some d, origAux := [], origInfos := [] }, "stored wf=" ++ wfVerdict d)
      else match handleOfTag tag with
        | none => (s, "bad-op")
        | some h => match s.w.get h with
          | none => (s, "EQUIV FAIL:no-such-handle")
          | some a =>
            let exp : Dump := { a.content.dump with allowedCpuset := a.content.dump.allowedCpuset.map (fun _ => a.allowedCpuset),
                                                    allowedNodeset := a.content.dump.allowedNodeset.map (fun _ => a.allowedNodeset) }
            (s, (match dumpDiff exp d with | none => "EQUIV ok" | some w => "EQUIV FAIL:" ++ w) ++ " wf=" ++ wfVerdict d)
    | some (.error e) => (s, "dump-unparsable:" ++ e)
    | none => (s, "bad-op")
  | "tinfos" :: tag :: n :: rest =>
    match parseNat n, TopoEng.parseInfos rest with
    | some n, some infos =>
      if infos.length ≠ n then (s, "bad-op")
      else if tag = "orig" then ({ s with origInfos := infos }, ".")
      else match handleOfTag tag with
        | none => (s, "bad-op")
        | some h => match s.w.get h with
          | none => (s, "DIFF:no-such-handle")
          | some a => (s, if a.infos = infos then "eq" else "DIFF")
    | _, _ => (s, "bad-op")
  | ["aux", tag, kind, hash] =>
    if tag = "orig" then ({ s with origAux := s.origAux ++ [(kind, hash)] }, ".")
    else match handleOfTag tag with
      | none => (s, "bad-op")
      | some h => match s.w.get h with
        | none => (s, "DIFF:no-such-handle")
        | some a => (s, if a.content.aux.lookup kind = some hash then "eq" else "DIFF")
  | ["getlen", fl] => match parseNat fl with
    | some fl => (s, (getLengthDecision fl).toString)
    | none => (s, "bad-op")
  | "trace" :: ps :: n :: sizes =>
    match parseNat ps, parseNat n, sizes.mapM parseNat with
    | some ps, some n, some ss =>
      if ss.length ≠ n then (s, "bad-op") else
      ({ s with trace := ss, ps := ps },
       s!"len={getLength ps ss} used={usedBytes ss} cnt={countFrom 0 ss} h={toHex (offHash (bump headerLength ss))}")
    | _, _, _ => (s, "bad-op")
  | ["samepass", b] => (s, if b = "1" then "same" else "DIFFERENT-TRACES")
  | ["len0", l] => match parseNat l with
    | some l => (s, if usedBytes s.trace ≤ l then "suffices" else "TOO-SHORT")
    | none => (s, "bad-op")
  | ["occupy", a, l] => match parseHex a, parseNat l with
    | some a, some l => ({ s with w := { s.w with space := (a, l) :: s.w.space } }, ".")
    | _, _ => (s, "bad-op")
  | ["release", a, l] => match parseHex a, parseNat l with
    | some a, some l => ({ s with w := { s.w with space := s.w.space.unmap a l } }, ".")
    | _, _ => (s, "bad-op")
  | ["prewrite", _] => (s, ".")
  | ["write", fl, off, a, l] => match parseNat fl, parseNat off, parseHex a, parseNat l, s.content with
    | some fl, some off, some a, some l, some c =>
      let (e, w') := s.w.write c s.trace off a l fl
      ({ s with w := w' }, e.toString)
    | _, _, _, _, _ => (s, "bad-op")
  | ["file", off, pre, lastnz, size] => match parseNat off, parseNat lastnz, parseNat size with
    | some off, some lastnz, some size =>
      match s.w.segment off with
      | none => (s, "no-segment")
      | some img =>
        (s, (if lastnz ≤ img.used then "within" else "BEYOND-USED") ++ (if pre = "1" then " prefix=same" else " prefix=CHANGED")
            ++ (if size = off + img.hdr.len then " size=ok" else " size=BAD"))
    | _, _, _ => (s, "bad-op")
  | ["hdr", off, v, hl, a, l] => match parseNat off, parseNat v, parseNat hl, parseHex a, parseNat l with
    | some off, some v, some hl, some a, some l =>
      (s, if (s.w.segment off).map (·.hdr) = some ⟨v, hl, a, l⟩ then "hdr ok" else "hdr BAD")
    | _, _, _, _, _ => (s, "bad-op")
  | ["corrupt", off, field, v] => match parseNat off, parseNat v with
    | some off, some v =>
      let upd (img : Image) : Option Image :=
        if field = "version" then some { img with hdr := { img.hdr with version := v } }
        else if field = "hlen" then some { img with hdr := { img.hdr with hlen := v } }
        else if field = "abi" then some { img with abi := if v = 0 then thisAbi else thisAbi + v }
        else none
      match s.w.segment off with
      | none => (s, "no-segment")
      | some img => match upd img with
        | none => (s, "bad-op")
        | some img' => ({ s with w := { s.w with file := s.w.file.map (fun r => if r.1 == off then (off, img') else r) } }, ".")
    | _, _ => (s, "bad-op")
  | ["adopt", fl, off, a, l] => match parseNat fl, parseNat off, parseHex a, parseNat l with
    | some fl, some off, some a, some l =>
      let (e, _, w') := s.w.adopt off a l fl
      ({ s with w := w' }, e.toString)
    | _, _, _, _ => (s, "bad-op")
  | ["mod", h, fn] => match parseNat h with
    | some h => match s.w.get h with
      | some a =>
        -- arguments always belong to the topology (the harness takes distances structures from the same handle)
        let (o, a') := stepAdopted a (.call fn false)
        ({ s with w := setLive s.w h a' }, outcomeStr (if o = .fault then demanded a (.call fn false) else o) ++ " same")
      | none => (s, "no-such-handle")
    | none => (s, "bad-op")
  | ["userdata", h, v] => match parseNat h, parseNat v with
    | some h, some v => match s.w.get h with
      | some a =>
        let (o, a') := stepAdopted a (.setUserdata v)
        ({ s with w := setLive s.w h a' }, s!"{outcomeStr o} same ud={a'.userdata}")
      | none => (s, "no-such-handle")
    | _, _ => (s, "bad-op")
  | ["infosadd", h, n, v] => match parseNat h, TopoEng.hexStr n, TopoEng.hexStr v with
    | some h, some (some n), some (some v) => match s.w.get h with
      | some a =>
        let (o, a') := stepAdopted a (.infosAdd n v)
        ({ s with w := setLive s.w h a' }, s!"{outcomeStr o} same n={a'.infos.length}")
      | none => (s, "no-such-handle")
    | _, _, _ => (s, "bad-op")
  | ["allow", h, fl, c, n] => match parseNat h, parseNat fl, parseSetTok c, parseSetTok n with
    | some h, some fl, some c, some n => match s.w.get h with
      | some a =>
        -- the property's demand: validation as coded; a call that passes validation succeeds and installs the new sets
        match demanded a (.allow fl c n) with
        | .ret .ok =>
          let a' := allowApply a fl c n
          ({ s with w := setLive s.w h a' }, s!"ok same allowed= {setHex a'.allowedCpuset} {setHex a'.allowedNodeset}")
        | o => (s, outcomeStr o ++ " same")
      | none => (s, "no-such-handle")
    | _, _, _, _ => (s, "bad-op")
  | ["maquery", h] => match parseNat h with
    | some h => match s.w.get h with
      | some a => (s, outcomeStr (demanded a .memattrQuery) ++ " same")
      | none => (s, "no-such-handle")
    | none => (s, "bad-op")
  | ["destroy", h] => match parseNat h with
    | some h => match s.w.get h with
      | some a =>
        let w' := s.w.destroy h
        ({ s with w := w' }, if w'.space.isFree a.addr a.len then "unmapped" else "STILL-MAPPED")
      | none => (s, "no-such-handle")
    | none => (s, "bad-op")
  | _ => (s, "bad-op")

end Driver.ShmemEng
