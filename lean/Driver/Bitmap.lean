/- Driver.Bitmap — line protocol for the `bitmap` engine (C03). -/
import Hw.Bitmap.Ops
import Driver.Util
namespace Driver.BitmapEng
open Hw Driver

abbrev Pool := Array Bitmap

def showRepr (b : Bitmap) : String :=
  "R " ++ toString b.count ++ " " ++ (if b.inf then "1" else "0") ++
    b.words.foldl (fun s w => s ++ " " ++ wordHex w) ""

def showInt (v : Int) : String := "V " ++ toString v
def showBool (v : Bool) : String := "V " ++ (if v then "1" else "0")

def getH (p : Pool) (s : String) : Option (Nat × Bitmap) := do
  let i ← parseNat s
  let b ← p[i]?
  pure (i, b)

def optEnd (s : String) : Option (Option Nat) :=
  if s = "-1" then some none else (parseNat s).map some

def sign (v : Int) : Int := if v < 0 then -1 else if v > 0 then 1 else 0

def step (p : Pool) (line : String) : Pool × String :=
  let bad := (p, "bad-op")
  let upd (i : Nat) (b : Bitmap) : Pool × String := (p.setIfInBounds i b, showRepr b)
  match tokens line with
  | ["alloc", h] => match getH p h with | some (i, _) => upd i Bitmap.alloc | none => bad
  | ["allocfull", h] => match getH p h with | some (i, _) => upd i Bitmap.allocFull | none => bad
  | ["dup", h, s] => match getH p h, getH p s with | some (i, _), some (_, b) => upd i b.dup | _, _ => bad
  | ["copy", h, s] => match getH p h, getH p s with | some (i, d), some (_, b) => upd i (d.copy b) | _, _ => bad
  | ["zero", h] => match getH p h with | some (i, b) => upd i b.zero | none => bad
  | ["fill", h] => match getH p h with | some (i, b) => upd i b.fill | none => bad
  | ["only", h, c] => match getH p h, parseNat c with | some (i, b), some c => upd i (b.only c) | _, _ => bad
  | ["allbut", h, c] => match getH p h, parseNat c with | some (i, b), some c => upd i (b.allbut c) | _, _ => bad
  | ["fromulong", h, w] => match getH p h, parseWord w with | some (i, b), some w => upd i (b.fromUlong w) | _, _ => bad
  | ["fromith", h, k, w] => match getH p h, parseNat k, parseWord w with
      | some (i, b), some k, some w => upd i (b.fromIthUlong k w) | _, _, _ => bad
  | "fromulongs" :: h :: ws => match getH p h, ws.mapM parseWord with
      | some (i, b), some ws => if ws.isEmpty then bad else upd i (b.fromUlongs ws) | _, _ => bad
  | ["set", h, c] => match getH p h, parseNat c with | some (i, b), some c => upd i (b.set c) | _, _ => bad
  | ["clr", h, c] => match getH p h, parseNat c with | some (i, b), some c => upd i (b.clr c) | _, _ => bad
  | ["setith", h, k, w] => match getH p h, parseNat k, parseWord w with
      | some (i, b), some k, some w => upd i (b.setIthUlong k w) | _, _, _ => bad
  | ["setrange", h, b0, e0] => match getH p h, parseNat b0, optEnd e0 with
      | some (i, b), some b0, some e0 => upd i (b.setRange b0 e0) | _, _, _ => bad
  | ["clrrange", h, b0, e0] => match getH p h, parseNat b0, optEnd e0 with
      | some (i, b), some b0, some e0 => upd i (b.clrRange b0 e0) | _, _, _ => bad
  | ["or", r, a, b] => match getH p r, getH p a, getH p b with
      | some (i, _), some (_, a), some (_, b) => upd i (a.or b) | _, _, _ => bad
  | ["and", r, a, b] => match getH p r, getH p a, getH p b with
      | some (i, _), some (_, a), some (_, b) => upd i (a.and b) | _, _, _ => bad
  | ["andnot", r, a, b] => match getH p r, getH p a, getH p b with
      | some (i, _), some (_, a), some (_, b) => upd i (a.andnot b) | _, _, _ => bad
  | ["xor", r, a, b] => match getH p r, getH p a, getH p b with
      | some (i, _), some (_, a), some (_, b) => upd i (a.xor b) | _, _, _ => bad
  | ["not", r, a] => match getH p r, getH p a with
      | some (i, _), some (_, a) => upd i a.not | _, _ => bad
  | ["singlify", h] => match getH p h with | some (i, b) => upd i b.singlify | none => bad
  -- queries
  | ["isset", h, c] => match getH p h, parseNat c with | some (_, b), some c => (p, showBool (b.isset c)) | _, _ => bad
  | ["iszero", h] => match getH p h with | some (_, b) => (p, showBool b.iszero) | none => bad
  | ["isfull", h] => match getH p h with | some (_, b) => (p, showBool b.isfull) | none => bad
  | ["isequal", a, b] => match getH p a, getH p b with | some (_, a), some (_, b) => (p, showBool (a.isequal b)) | _, _ => bad
  | ["intersects", a, b] => match getH p a, getH p b with | some (_, a), some (_, b) => (p, showBool (a.intersects b)) | _, _ => bad
  | ["isincluded", a, b] => match getH p a, getH p b with | some (_, a), some (_, b) => (p, showBool (a.isincluded b)) | _, _ => bad
  | ["first", h] => match getH p h with | some (_, b) => (p, showInt b.first) | none => bad
  | ["firstunset", h] => match getH p h with | some (_, b) => (p, showInt b.firstUnset) | none => bad
  | ["last", h] => match getH p h with | some (_, b) => (p, showInt b.last) | none => bad
  | ["lastunset", h] => match getH p h with | some (_, b) => (p, showInt b.lastUnset) | none => bad
  | ["next", h, q] => match getH p h, parseInt q with | some (_, b), some q => (p, showInt (b.next q)) | _, _ => bad
  | ["nextunset", h, q] => match getH p h, parseInt q with | some (_, b), some q => (p, showInt (b.nextUnset q)) | _, _ => bad
  | ["weight", h] => match getH p h with | some (_, b) => (p, showInt b.weight) | none => bad
  | ["nrulongs", h] => match getH p h with | some (_, b) => (p, showInt b.nrUlongs) | none => bad
  | ["compare", a, b] => match getH p a, getH p b with | some (_, a), some (_, b) => (p, showInt (a.compare b)) | _, _ => bad
  | ["comparefirst", a, b] => match getH p a, getH p b with
      | some (_, a), some (_, b) => (p, showInt (sign (a.compareFirst b))) | _, _ => bad
  | ["compareincl", a, b] => match getH p a, getH p b with
      | some (_, a), some (_, b) => (p, showInt (a.compareInclusion b).toInt) | _, _ => bad
  | ["toulong", h] => match getH p h with | some (_, b) => (p, "V " ++ wordHex b.toUlong) | none => bad
  | ["toith", h, k] => match getH p h, parseNat k with | some (_, b), some k => (p, "V " ++ wordHex (b.toIthUlong k)) | _, _ => bad
  | ["toulongs", h, n] => match getH p h, parseNat n with
      | some (_, b), some n => (p, "V" ++ (b.toUlongs n).foldl (fun s w => s ++ " " ++ wordHex w) "") | _, _ => bad
  | _ => bad

def init (n : Nat) : Pool := Array.replicate n Bitmap.alloc

end Driver.BitmapEng
