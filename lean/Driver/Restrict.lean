/- Driver.Restrict — engine `restrict` (C08): reads the trace of harness/h_restrict.c (dump BEFORE, call line, dump AFTER),
   predicts the AFTER state from the BEFORE dump with the model Hw.Topo.Restrict and compares it with the AFTER dump on
   everything property C08 constrains.  One answer per trace line: "." inside a block, the verdict at `END A`. -/
import Hw.Topo.Restrict
import Hw.Topo.RestrictLemmas
import Hw.Topo.Render
import Hw.Topo.RenderLemmas
import Hw.Topo.RenderOf
import Hw.Topo.RestrictSurvive
import Hw.Topo.RestrictMerge
import Hw.Topo.RenderTop
import Hw.Topo.RenderSets
import Hw.Topo.RenderPU
import Hw.Topo.RestrictExists
import Hw.Topo.RestrictAllowed
import Hw.Topo.RestrictUnique
import Hw.Topo.WF
import Driver.Topo
import Driver.Util
import Driver.RestrictSide
namespace Driver.RestrictEng
open Hw.Topo Hw.Topo.Restrict Driver

/-! ### rows compared -/

structure Row where
  gp : Nat
  type : Nat
  osidx : Int
  sets : Option (Nat × Nat × Nat × Nat)
  parent : Int
deriving DecidableEq

def Row.show (r : Row) : String :=
  let s := match r.sets with
    | none => "-"
    | some (a, b, c, d) => toHex a ++ "/" ++ toHex b ++ "/" ++ toHex c ++ "/" ++ toHex d
  "gp" ++ toString r.gp ++ ":type" ++ toString r.type ++ ":os" ++ toString r.osidx ++ ":parent" ++ toString r.parent ++ ":sets=" ++ s

def rowOfR (parent : Int) (o : RObj) : Row :=
  ⟨o.gp, o.type, o.osidx, if o.hasSets then some (o.cpuset, o.ccpuset, o.nodeset, o.cnodeset) else none, parent⟩

mutual
def rowsT (parent : Int) : Tree → List Row
  | .node o ns ms ios mis => rowOfR parent o :: (rowsL o.gp ns ++ rowsL o.gp ms ++ rowsL o.gp ios ++ rowsL o.gp mis)
def rowsL (parent : Int) : List Tree → List Row
  | [] => []
  | t :: ts => rowsT parent t ++ rowsL parent ts
end

def rowsOfDump (d : Dump) : List Row :=
  d.objs.map (fun o =>
    let sets := match o.cpuset, o.ccpuset, o.nodeset, o.cnodeset with
      | some a, some b, some c, some e => some (a, b, c, e)
      | _, _, _, _ => none
    ⟨o.gp, o.type, o.osidx, sets, match d.obj? o.parent with | some p => (p.gp : Int) | none => -1⟩)

def firstDiff (a b : List Row) (i : Nat := 0) : Option String :=
  match a, b with
  | [], [] => none
  | x :: xs, y :: ys => if x = y then firstDiff xs ys (i + 1) else
      some ("row" ++ toString i ++ ":model=" ++ x.show ++ ":hwloc=" ++ y.show)
  | x :: _, [] => some ("row" ++ toString i ++ ":model=" ++ x.show ++ ":hwloc=<none>")
  | [], y :: _ => some ("row" ++ toString i ++ ":model=<none>:hwloc=" ++ y.show)

/-! ### engine -/

structure Call where
  set : CSet
  flags : Nat
  ret : String
  err : String

structure State where
  part : TopoEng.Partial := {}
  raw : List (List String) := []                 -- token lists of the block being read (tag dropped), reversed
  before : Option (Except String Dump × List (List String)) := none
  call : Option Call := none
  selfcheck : Bool := false
  side : Option Hw.Topo.RestrictSide.Side := none        -- side structures (distances, CPU kinds, memory attributes) as last adopted/predicted
  sideBlock : Option (Bool × Nat) := none         -- inside a SIDE block: (init?, mask)
  sideRaw : List (List String) := []              -- its lines, reversed

def init (selfcheck : Bool) : State := { selfcheck := selfcheck }

def parseCSet (s : String) : Option CSet :=
  if s.startsWith "I" then (parseHex (s.drop 1).toString).map (fun m => ⟨m, true⟩)
  else (parseHex s).map (fun m => ⟨m, false⟩)

def topoOf (d : Dump) (t : Tree) : Topo :=
  { tree := t, allowedCpu := d.allowedCpuset.getD 0, allowedNode := d.allowedNodeset.getD 0, filters := d.filters }

def levelsOfDump (d : Dump) : List (List Nat) :=
  (List.range d.depth).map (fun (k : Nat) => match levelOf d (Int.ofNat k) with
    | some l => l.objs.map (fun i => match d.obj? i with | some o => o.gp | none => 0)
    | none => [])

/-- what the call does to the side structures: nothing (refused), restrict to the model's tree, or unknown -/
inductive SideEffect where
  | unchanged | restricted (t : Tree) | unknown

/-- A8: the statements of C08_pus_exact / C08_numa_survive / C08_numas_exact_bynodeset / C08_pu_survive_bynodeset evaluated against
    the REAL after dump (level merging included): with the protection predicates of Hw.Topo.RestrictSurvive computed on the objects
    of the BEFORE tree and the parameters of the model's `plan`, the PUs (NUMA nodes with BYNODESET) of hwloc's result must be
    exactly the protected ones, the NUMA nodes (PUs) must include the protected ones, and each must still be a singleton -/
def survivorsCheck (tree : Tree) (topo : Topo) (c : Call) (ad : Dump) : List String :=
  match plan topo c.set c.flags with
  | none => ["model-plan-refuses-a-successful-call"]
  | some p =>
    let objs := objsT tree
    let gpsOf (ty : Nat) : List Nat := (ad.objs.filter (fun o => o.type == ty)).map (·.gp)
    let same (a b : List Nat) : Bool := a.length == b.length && a.all b.contains && b.all a.contains
    let puA := gpsOf tPU
    let numaA := gpsOf tNUMA
    let singles := ad.objs.all (fun o =>
      (o.type != tPU || (o.cpuset == some (single o.osidx.toNat) && o.ccpuset == some (single o.osidx.toNat))) &&
      (o.type != tNUMA || (o.nodeset == some (single o.osidx.toNat) && o.cnodeset == some (single o.osidx.toNat))))
    (if p.byNode then
      (if same ((objs.filter (protNUMAn c.set)).map (·.gp)) numaA then [] else ["numa-survivors-are-not-exactly-those-in-S"]) ++
      (if ((objs.filter (protPUn p)).map (·.gp)).all puA.contains then [] else ["pu-removed-though-not-memoryless"])
    else
      (if same ((objs.filter (protPU c.set)).map (·.gp)) puA then [] else ["pu-survivors-are-not-exactly-those-in-S"]) ++
      (if ((objs.filter (protNUMA p)).map (·.gp)).all numaA.contains then [] else ["numa-removed-though-not-cpuless"])) ++
    (if singles then [] else ["pu-or-numa-not-a-singleton-after"])

def verdict (st : State) (c : Call) (bd : Dump) (braw : List (List String)) (ad : Dump) (araw : List (List String)) : String × SideEffect :=
  match treeOf bd with
  | .error e => ("MODEL-INPUT-ERROR before-dump-is-not-a-tree:" ++ e, .unknown)
  | .ok tree =>
    let topo := topoOf bd tree
    let wfB := wfCheck bd      -- evaluated once (A8)
    -- the hypothesis of the exactness theorems must hold on every well-formed BEFORE dump (WF implies SetsOK)
    let hyp := (if okT tree || !wfB.isEmpty then [] else ["hypothesis-SetsOK-fails-on-a-WF-before-dump"]) ++
               (if st.selfcheck && (connectLevels tree).map (·.map (·.gp)) != levelsOfDump bd then ["selfcheck-levels-model-before"] else [])
    -- renderer tie on the BEFORE dump: links and levels recomputed from the bare tree must reproduce hwloc's
    let tb := gpTable bd
    let hyp := hyp ++ (match dumpDiff (render tree (hdrOf bd) (extraOf tb tb)) bd with
      | none => [] | some s => ["render-before:" ++ s]) ++
      -- hypothesis of the link theorems (C08_render_links): every well-formed topology has a typed tree
      (if (typedT tree && puLeafT tree && isNormal tree.obj.type) || !wfB.isEmpty then [] else ["hypothesis-typedT-fails-on-a-WF-before-dump"]) ++
      -- A8: what C08_wf_implies_okT proves for every WF dump, evaluated: Machine root, PU / NUMA singletons, leaf hypotheses
      (if (tree.obj.type == tMACHINE && puSetsT tree && numaSetsT tree && leafTyT tPU tree && leafTyT tNUMA tree) ||
          !wfB.isEmpty then [] else ["hypothesis-singletons-fails-on-a-WF-before-dump"]) ++
      -- A8: hypothesis of C08_merge_keeps_pus / C08_pus_exact_whole / C08_restrict_wf_partial: distinct gp_index over the TREE, no
      -- KEEP_STRUCTURE filter on the PU type and on the root's type
      (if (decide (mergeSafe topo) && decide (machineOnce tree) && setsPresT tree) || !wfB.isEmpty then [] else ["hypothesis-mergeSafe-fails-on-a-WF-before-dump"]) ++
      -- B2: what C08_render_pu_level_last proves for every typed tree with PUs as leaves (the invariant read by hwloc_connect_levels,
      -- no PU level before the last one), and the hypothesis `coverT` of C08_restrict_protected_exists (the allowed sets are covered
      -- by the PUs / NUMA nodes), evaluated on every WF BEFORE dump
      (if (puNsT tree && puLevelLast tree) || !wfB.isEmpty then [] else ["hypothesis-pu-level-last-fails-on-a-WF-before-dump"]) ++
      (if (coverT topo.allowedCpu tPU tree && coverT topo.allowedNode tNUMA tree) || !wfB.isEmpty then []
        else ["hypothesis-allowed-sets-covered-fails-on-a-WF-before-dump"]) ++
      -- B2: C08_restrict_allowed_sets, first part: the tree-level clause allowed-sets holds for every WF BEFORE dump
      (if (allowedOKT topo (flagIncludeDisallowed bd) && decide (osUniqueT tPU tree) && decide (osUniqueT tNUMA tree)) || !wfB.isEmpty
        then [] else ["hypothesis-allowedOK-or-osindex-unique-fails-on-a-WF-before-dump"]) ++
      (if notFilteredT bd.filters tree || !wfB.isEmpty then [] else ["hypothesis-notFiltered-fails-on-a-WF-before-dump"])
    let (topo', ret) := restrict topo c.set c.flags
    match ret with
    | .rootRemoved => ("MODEL-UNDEFINED root-would-be-removed", .unknown)
    | .einval =>
      let probs := hyp ++ (if araw == braw then [] else ["einval-but-topology-changed"])
      ("ret=-1 errno=EINVAL" ++ (if probs.isEmpty then "" else " MISMATCH " ++ ",".intercalate probs), .unchanged)
    | .ok =>
      -- well-formedness must be preserved: clauses violated after the call that were not already violated before it
      let clause (s : String) : String := (s.splitOn "@").headD s
      let wfBefore := wfB.map clause
      let wf := (wfCheck ad).filter (fun s => !wfBefore.contains (clause s))
      let probs := hyp ++
        (match firstDiff (rowsT (-1) topo'.tree) (rowsOfDump ad) with | none => [] | some s => [s]) ++
        (if ad.allowedCpuset == some topo'.allowedCpu then [] else ["allowed-cpuset:model=" ++ toHex topo'.allowedCpu]) ++
        (if ad.allowedNodeset == some topo'.allowedNode then [] else ["allowed-nodeset:model=" ++ toHex topo'.allowedNode]) ++
        (if ad.filters == bd.filters && ad.flags == bd.flags then [] else ["flags-or-filters-changed"]) ++
        (if wf.isEmpty then [] else ["after-dump-not-WF:" ++ "+".intercalate (wf.take 4)]) ++
        -- renderer tie on the AFTER dump: the whole dump (every link, level and type depth) predicted from the model's tree
        (match dumpDiff (render topo'.tree ⟨bd.flags, bd.filters, some topo'.allowedCpu, some topo'.allowedNode⟩
                          (extraOf tb (gpTable ad))) ad with
          | none => [] | some s => ["render-after:" ++ s]) ++
        (if (typedT topo'.tree && puLeafT topo'.tree && isNormal topo'.tree.obj.type) || !(typedT tree && puLeafT tree) then [] else ["hypothesis-typedT-not-preserved"]) ++
        (if wfB.isEmpty then survivorsCheck tree topo c ad else []) ++
        -- A8: C08_restrict_leaf_root evaluated: mergeSafe and the identity of the root are preserved
        (if (decide (mergeSafe topo') && ident topo'.tree.obj == ident tree.obj) || !(decide (mergeSafe topo) && typedT tree && puLeafT tree)
          then [] else ["mergeSafe-or-root-not-preserved"]) ++
        -- B2: C08_restrict_pu_level / C08_restrict_keeps_pu_and_numa / C08_restrict_protected_exists evaluated: the PU level of the
        -- model's result is its last level, a planned call has a protected object of its own kind, and the model's result and
        -- hwloc's result both keep a PU and a NUMA node
        (if (puNsT topo'.tree && puLevelLast topo'.tree) || !(typedT tree && puLeafT tree) then [] else ["pu-level-not-last-after"]) ++
        -- … and its second part: preserved by the call (the model's allowed sets are compared with hwloc's above)
        (if allowedOKT topo' (flagIncludeDisallowed bd) || !(allowedOKT topo (flagIncludeDisallowed bd) && okT tree && typedT tree && puLeafT tree)
          then [] else ["allowedOK-not-preserved"]) ++
        (if (decide (osUniqueT tPU topo'.tree) || !decide (osUniqueT tPU tree)) && (decide (osUniqueT tNUMA topo'.tree) || !decide (osUniqueT tNUMA tree))
          then [] else ["osindex-unique-not-preserved"]) ++
        (if notFilteredT topo'.filters topo'.tree || !notFilteredT bd.filters tree then [] else ["notFiltered-not-preserved"]) ++
        (if wfB.isEmpty then
          (match plan topo c.set c.flags with
           | none => []
           | some p =>
             let own := (objsT tree).any (fun x => x.type == (if p.byNode then tNUMA else tPU) && c.set.mem x.osidx.toNat)
             if own then [] else ["planned-call-without-protected-object"]) ++
          (if (objsT topo'.tree).any (fun x => x.type == tPU) && (objsT topo'.tree).any (fun x => x.type == tNUMA) &&
              ad.objs.any (fun o => o.type == tPU) && ad.objs.any (fun o => o.type == tNUMA) then [] else ["no-pu-or-no-numa-after"])
         else [])
      ("ret=0 errno=ok" ++ (if probs.isEmpty then "" else " MISMATCH " ++ ",".intercalate probs), .restricted topo'.tree)

def sideObjs (t : Tree) : List Hw.Dist.Obj := (rowsT (-1) t).map (fun r => RestrictSide.mkObj r.type r.gp r.osidx)

def applySide (s : Option Hw.Topo.RestrictSide.Side) : SideEffect → Option Hw.Topo.RestrictSide.Side
  | .unchanged => s
  | .restricted t => s.map (fun x => x.restrict (sideObjs t) t.obj.cpuset)
  | .unknown => none

def step (st : State) (line : String) : State × String :=
  let t := tokens line
  match t with
  | "echo" :: rest =>
    -- a new topology starts without side state (it is adopted by the next SIDE I block)
    ({ st with before := none, call := none, raw := [], part := {}, sideBlock := none, sideRaw := [],
               side := if rest.head? == some "topo" then none else st.side }, " ".intercalate rest)
  | ["SIDE", tag, mask] =>
    match parseNat mask with
    | some m => if tag == "I" || tag == "O" then ({ st with sideBlock := some (tag == "I", m), sideRaw := [] }, ".") else (st, "bad-op")
    | none => (st, "bad-op")
  | ["SEND"] =>
    match st.sideBlock with
    | none => (st, "bad-op")
    | some (true, m) =>
      let lines := st.sideRaw.reverse
      match RestrictSide.adopt lines with
      | some s => ({ st with side := some s, sideBlock := none, sideRaw := [] },
                   "sideinit mask=" ++ toString m ++ " " ++ RestrictSide.summary (RestrictSide.render s 7))
      | none => ({ st with side := none, sideBlock := none, sideRaw := [] }, "MODEL-INPUT-ERROR side-observation-unparsable")
    | some (false, m) =>
      match st.side with
      | none => ({ st with sideBlock := none, sideRaw := [] }, "MODEL-UNDEFINED no-side-state")
      | some s =>
        let (s', out) := RestrictSide.observeVerdict s m st.sideRaw.reverse
        ({ st with side := some s', sideBlock := none, sideRaw := [] }, out)
  | ["restrict", set, flags, ret, err] =>
    match parseCSet set, parseNat flags with
    | some s, some f => ({ st with call := some ⟨s, f, ret, err⟩ }, ".")
    | _, _ => (st, "bad-op")
  | "TOPO" :: tag :: rest =>
    let (p, _) := TopoEng.feed {} t
    ({ st with part := p, raw := [rest] }, if tag == "B" || tag == "A" then "." else "bad-op")
  | ["END", tag] =>
    let (_, r) := TopoEng.feed st.part t
    match r with
    | none => (st, "bad-op")
    | some d =>
      let raw := st.raw.reverse
      if tag == "B" then ({ st with part := {}, raw := [], before := some (d, raw), call := none }, ".")
      else match st.before, st.call with
        | some (bd, braw), some c =>
          let out := match bd, d with
            | .error e, _ => ("MODEL-INPUT-ERROR before-dump-unparsable:" ++ e, SideEffect.unknown)
            | _, .error e => ("MODEL-INPUT-ERROR after-dump-unparsable:" ++ e, SideEffect.unknown)
            | .ok bd, .ok ad => verdict st c bd braw ad raw
          ({ st with part := {}, raw := [], before := none, call := none, side := applySide st.side out.2 }, out.1)
        | _, _ => ({ st with part := {}, raw := [] }, "bad-op")
  | k :: _ =>
    if st.sideBlock.isSome && (k == "SD" || k == "SK" || k == "SA" || k == "ST" || k == "SI") then
      ({ st with sideRaw := t :: st.sideRaw }, ".")
    else if k == "O" || k == "L" || k == "TD" then
      let (p, _) := TopoEng.feed st.part t
      ({ st with part := p, raw := t :: st.raw }, ".")
    else (st, "bad-op")
  | [] => (st, "bad-op")

end Driver.RestrictEng
