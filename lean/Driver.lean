import Driver.Main
