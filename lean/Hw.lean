import Hw.Base.Basic
import Hw.Bitmap.Repr
import Hw.Bitmap.Ops
