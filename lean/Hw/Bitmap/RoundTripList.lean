/-
  Hw.Bitmap.RoundTripList — parsing the list-format text of a bitmap gives back a bitmap that
  denotes the same set (`hwloc_bitmap_list_snprintf` followed by `hwloc_bitmap_list_sscanf`).
-/
import Hw.Bitmap.ScanLemmas
import Hw.Bitmap.Search
import Hw.Base.NumLemmas
namespace Hw
namespace Bitmap

/-! ### the printer, one iteration at a time -/

theorem text_nil : text ([] : List (List Byte)) = [] := rfl
theorem text_cons (c : List Byte) (cs : List (List Byte)) : text (c :: cs) = c ++ text cs := rfl

theorem listBody_zero (b : Bitmap) (prev : Int) (nc : Bool) : listBody b 0 prev nc = [] := rfl

theorem listBody_succ (b : Bitmap) (pf : Nat) (prev : Int) (nc : Bool) :
    listBody b (pf+1) prev nc =
      if b.next prev = -1 then []
      else if b.nextUnset (b.next prev) = b.next prev + 1 then
        ((if nc then str "," else []) ++ decDigits (b.next prev).toNat)
          :: listBody b pf (b.nextUnset (b.next prev) - 1) true
      else if b.nextUnset (b.next prev) = -1 then
        [(if nc then str "," else []) ++ decDigits (b.next prev).toNat ++ str "-"]
      else ((if nc then str "," else []) ++ decDigits (b.next prev).toNat ++ str "-"
              ++ decDigits (b.nextUnset (b.next prev) - 1).toNat)
          :: listBody b pf (b.nextUnset (b.next prev) - 1) true := rfl

/-- a text preceded by a comma unless it is empty -/
def sepText (T : List Byte) : List Byte := if T = [] then [] else 44 :: T

theorem sepText_noDigit (T : List Byte) : NoDigitHead (sepText T) := by
  unfold sepText; split
  · exact noDigitHead_nil
  · exact noDigitHead_comma _

theorem sepText_length (T : List Byte) : T.length ≤ (sepText T).length := by
  unfold sepText; split
  · rename_i h; rw [h]; exact Nat.le_refl _
  · simp

/-- the comma only affects the first chunk -/
theorem listBody_comma (b : Bitmap) (pf : Nat) (prev : Int) :
    text (listBody b pf prev true) = sepText (text (listBody b pf prev false)) := by
  unfold sepText
  cases pf with
  | zero => rfl
  | succ pf =>
    rw [listBody_succ, listBody_succ]
    have hne := decDigits_ne_nil (b.next prev).toNat
    split
    · rfl
    · split
      · simp [text_cons, str_comma, hne]
      · split
        · simp [text_cons, str_comma, hne]
        · simp [text_cons, str_comma, hne]

/-! ### the scanner on one printed number -/

theorem listLoop_nil (lf : Nat) (acc : Bitmap) (beg : Option Nat) :
    listLoop (lf+1) [] acc beg = .ok (acc.words.map some) acc.inf := rfl

theorem not_sep_of_dec (c : Nat) (h : IsDecChar c) : (c == 44 || c == 32) = false := by
  unfold IsDecChar at h
  have h1 : ¬ (c = 44) := by omega
  have h2 : ¬ (c = 32) := by omega
  simp [h1, h2]

/-- what the scanner does after a number that did not stop the loop -/
def listCont (lf : Nat) (rest : List Byte) (a : Bitmap) (bg : Option Nat) : ScanRes :=
  match rest with
  | [] => .ok (a.words.map some) a.inf
  | _ :: rest' => listLoop lf rest' a bg

theorem listLoop_num (lf n : Nat) (rest : List Byte) (acc : Bitmap) (beg : Option Nat)
    (hn : n < listMaxIndex) (hr : NoDigitHead rest) :
    listLoop (lf+1) (decDigits n ++ rest) acc beg =
      (if (listStep acc beg n rest).2.2 then
          .ok ((listStep acc beg n rest).1.words.map some) (listStep acc beg n rest).1.inf
       else listCont lf rest (listStep acc beg n rest).1 (listStep acc beg n rest).2.1) := by
  have hne := decDigits_ne_nil n
  have hch := decDigits_chars n
  have h21 : (2:Nat)^21 = 2097152 := by decide
  have hst := strtoul0_decDigits n rest (by unfold listMaxIndex at hn; omega) hr
  generalize decDigits n = ds at *
  cases ds with
  | nil => contradiction
  | cons c cs =>
    have hc := not_sep_of_dec c (hch c (by simp))
    have hdw : List.dropWhile (fun c => c == 44 || c == 32) (c :: cs ++ rest) = c :: cs ++ rest := by
      rw [List.cons_append, List.dropWhile_cons_of_neg]
      simp [hc]
    conv => lhs; unfold listLoop
    simp only [List.cons_append] at hdw hst ⊢
    simp only [hdw, hst]
    have hlen : ¬ (rest.length = (c :: (cs ++ rest)).length) := by
      simp only [List.length_cons, List.length_append]; omega
    rw [if_neg hlen, if_neg (by omega)]
    rfl

theorem listCont_sep (lf : Nat) (T : List Byte) (a : Bitmap) (bg : Option Nat) (h : 0 < lf) :
    listCont lf (sepText T) a bg = listLoop lf T a bg := by
  cases lf with
  | zero => omega
  | succ lf =>
    cases T with
    | nil => rfl
    | cons c cs => simp [sepText, listCont]

theorem listStep_none_sep (acc : Bitmap) (m : Nat) (T : List Byte) :
    listStep acc none m (sepText T) = (acc.set m, none, false) := by
  unfold sepText; split <;> rfl

theorem listStep_open (acc : Bitmap) (m : Nat) :
    listStep acc none m [45] = (acc.setRange m none, none, true) := rfl

theorem listStep_dash (acc : Bitmap) (m : Nat) (X : List Byte) (hX : X ≠ []) :
    listStep acc none m (45 :: X) = (acc, some m, false) := by
  cases X with
  | nil => contradiction
  | cons x xs => rfl

theorem listStep_some (acc : Bitmap) (m v : Nat) (rest : List Byte) :
    listStep acc (some m) v rest = (acc.setRange m (some v), none, false) := rfl

/-! ### the main induction -/

theorem listLoop_listBody (b : Bitmap) (hb : b.count * 64 + 64 ≤ listMaxIndex) (pf : Nat) :
    ∀ (prev : Int) (acc : Bitmap) (lf : Nat),
      -1 ≤ prev → prev ≤ ((b.count * 64 : Nat) : Int) - 1 → ((b.count * 64 : Nat) : Int) - prev ≤ pf →
      (∀ n : Nat, acc.mem n = (decide ((n:Int) ≤ prev) && b.mem n)) →
      (text (listBody b pf prev false)).length < lf →
      ∃ r : Bitmap, listLoop lf (text (listBody b pf prev false)) acc none = .ok (r.words.map some) r.inf ∧
        ∀ n, r.mem n = b.mem n := by
  have h21 : (2:Nat)^21 = 2097152 := by decide
  unfold listMaxIndex at hb
  induction pf with
  | zero => intro prev acc lf h1 h2 h3; omega
  | succ pf ih =>
    intro prev acc lf h1 h2 h3 hmem hlf
    have hC : ∀ n : Nat, b.count * 64 ≤ n → b.mem n = b.inf := mem_of_ge b
    have hnext := next_spec b prev h1
    rw [listBody_succ] at hlf ⊢
    generalize b.next prev = beg at hnext hlf ⊢
    rcases hnext with ⟨rfl, hno⟩ | ⟨m, rfl, hpm, hm, hlow⟩
    · -- no index left
      rw [if_pos rfl] at hlf ⊢
      cases lf with
      | zero => simp at hlf
      | succ lf =>
        refine ⟨acc, rfl, ?_⟩
        intro n
        rw [hmem n]
        by_cases hn : (n:Int) ≤ prev
        · simp [hn]
        · have := hno n (by omega); simp [hn, this]
    · have hm1 : ¬ ((m:Int) = -1) := by omega
      rw [if_neg hm1] at hlf ⊢
      have hmC : m ≤ b.count * 64 := by
        apply Classical.byContradiction; intro hgt
        have e1 := hC m (by omega)
        have e2 := hC (b.count * 64) (Nat.le_refl _)
        have e3 := hlow (b.count * 64) (by omega) (by omega)
        rw [hm] at e1; rw [e3] at e2; rw [← e1] at e2; cases e2
      have hnu := nextUnset_spec b m (by omega)
      simp only [Int.toNat_natCast] at hlf ⊢
      generalize b.nextUnset m = en at hnu hlf ⊢
      have hdne := decDigits_ne_nil m
      have hdlen : 1 ≤ (decDigits m).length := by
        cases hd : decDigits m with
        | nil => exact absurd hd hdne
        | cons _ _ => simp
      have hmlt : m < listMaxIndex := by unfold listMaxIndex; omega
      rcases hnu with ⟨rfl, hall⟩ | ⟨e, rfl, hme, he, hbetween⟩
      · -- open range `m-`
        rw [if_neg (by omega), if_pos rfl] at hlf ⊢
        simp only [Bool.false_eq_true, if_false, List.nil_append, text_cons, text_nil, List.append_nil,
          str_minus] at hlf ⊢
        cases lf with
        | zero => omega
        | succ lf =>
          rw [listLoop_num lf m _ acc none hmlt (noDigitHead_minus _), listStep_open]
          refine ⟨acc.setRange m none, by simp, ?_⟩
          intro n
          rw [mem_setRange_none, hmem n]
          by_cases hn : (n:Int) ≤ prev
          · have : ¬ (m ≤ n) := by omega
            simp [hn, this]
          · by_cases hnm : m ≤ n
            · have : b.mem n = true := by
                by_cases e : n = m
                · rw [e]; exact hm
                · have := hall n (by omega); simpa using this
              simp [hnm, this]
            · have := hlow n (by omega) (by omega)
              simp [hn, hnm, this]
      · have he' : b.mem e = false := by simpa using he
        have hbetween' : ∀ k : Nat, m < k → k < e → b.mem k = true := by
          intro k h1 h2; have := hbetween k (by omega) (by omega); simpa using this
        have hme' : m < e := by omega
        have hmltC : m < b.count * 64 ∨ b.inf = true := by
          by_cases hlt : m < b.count * 64
          · exact Or.inl hlt
          · have := hC m (by omega); rw [hm] at this; exact Or.inr this.symm
        have heC : e ≤ b.count * 64 := by
          apply Classical.byContradiction; intro hgt
          have e1 := hC e (by omega)
          rw [he'] at e1
          rcases hmltC with hlt | hinf
          · have e2 := hC (b.count * 64) (Nat.le_refl _)
            have e3 := hbetween' (b.count * 64) hlt (by omega)
            rw [e3, ← e1] at e2; cases e2
          · rw [hinf] at e1; cases e1
        by_cases hem : e = m + 1
        · -- single index `m`
          subst hem
          have e1 : ((m + 1 : Nat) : Int) = (m : Int) + 1 := by omega
          have e2 : ((m + 1 : Nat) : Int) - 1 = (m : Int) := by omega
          rw [if_pos e1, e2] at hlf ⊢
          simp only [Bool.false_eq_true, if_false, List.nil_append, text_cons, listBody_comma] at hlf ⊢
          cases lf with
          | zero => omega
          | succ lf =>
            have hl2 := sepText_length (text (listBody b pf (m:Int) false))
            rw [List.length_append] at hlf
            have hmem' : ∀ n : Nat, (acc.set m).mem n = (decide ((n:Int) ≤ (m:Int)) && b.mem n) := by
              intro n
              rw [mem_set, hmem n]
              by_cases hn : (n:Int) ≤ prev
              · have h1 : (n:Int) ≤ (m:Int) := by omega
                have h2 : ¬ (n = m) := by omega
                simp [hn, h1, h2]
              · by_cases hnm : n = m
                · subst hnm; simp [hm]
                · by_cases hlt : n < m
                  · have := hlow n (by omega) (by omega)
                    simp [hn, hnm, this]
                  · have h1 : ¬ ((n:Int) ≤ (m:Int)) := by omega
                    simp [hn, hnm, h1]
            obtain ⟨r, hr, hrm⟩ := ih (m:Int) (acc.set m) lf (by omega) (by omega) (by omega) hmem' (by omega)
            rw [listLoop_num lf m _ acc none hmlt (sepText_noDigit _), listStep_none_sep]
            simp only [Bool.false_eq_true, if_false]
            rw [listCont_sep _ _ _ _ (by omega)]
            exact ⟨r, hr, hrm⟩
        · -- closed range `m-(e-1)`
          have e1 : ¬ ((e : Int) = (m : Int) + 1) := by omega
          have e2 : ¬ ((e : Int) = -1) := by omega
          have e4 : (e : Int) - 1 = ((e - 1 : Nat) : Int) := by omega
          rw [if_neg e1, if_neg e2, e4] at hlf ⊢
          simp only [Bool.false_eq_true, if_false, List.nil_append, text_cons, listBody_comma, str_minus,
            Int.toNat_natCast, List.append_assoc, List.cons_append] at hlf ⊢
          have hd2len : 1 ≤ (decDigits (e - 1)).length := by
            cases hd : decDigits (e - 1) with
            | nil => exact absurd hd (decDigits_ne_nil _)
            | cons _ _ => simp
          have hX : decDigits (e - 1) ++ sepText (text (listBody b pf ((e - 1 : Nat) : Int) false)) ≠ [] := by
            intro h
            have := congrArg List.length h
            rw [List.length_append] at this
            simp only [List.length_nil] at this
            omega
          have hl2 := sepText_length (text (listBody b pf ((e - 1 : Nat) : Int) false))
          simp only [List.length_append, List.length_cons] at hlf
          have helt : e - 1 < listMaxIndex := by unfold listMaxIndex; omega
          cases lf with
          | zero => omega
          | succ lf =>
          cases lf with
          | zero => omega
          | succ lf =>
            have hmem' : ∀ n : Nat, (acc.setRange m (some (e - 1))).mem n =
                (decide ((n:Int) ≤ ((e - 1 : Nat) : Int)) && b.mem n) := by
              intro n
              rw [mem_setRange_some, hmem n]
              by_cases hn : (n:Int) ≤ prev
              · have h1 : (n:Int) ≤ ((e - 1 : Nat) : Int) := by omega
                have h2 : ¬ (m ≤ n) := by omega
                simp [hn, h1, h2]
              · by_cases hlt : n < m
                · have := hlow n (by omega) (by omega)
                  have h2 : ¬ (m ≤ n) := by omega
                  simp [hn, this, h2]
                · by_cases hle : n ≤ e - 1
                  · have h1 : (n:Int) ≤ ((e - 1 : Nat) : Int) := by omega
                    have h2 : m ≤ n := by omega
                    have h3 : b.mem n = true := by
                      by_cases e : n = m
                      · rw [e]; exact hm
                      · exact hbetween' n (by omega) (by omega)
                    simp [hn, h1, h2, hle, h3]
                  · have h1 : ¬ ((n:Int) ≤ ((e - 1 : Nat) : Int)) := by omega
                    simp [hn, h1, hle]
            obtain ⟨r, hr, hrm⟩ := ih ((e - 1 : Nat) : Int) (acc.setRange m (some (e - 1))) lf
              (by omega) (by omega) (by omega) hmem' (by omega)
            rw [listLoop_num (lf + 1) m _ acc none hmlt (noDigitHead_minus _), listStep_dash _ _ _ hX]
            simp only [Bool.false_eq_true, if_false, listCont]
            rw [listLoop_num lf (e - 1) _ acc (some m) helt (sepText_noDigit _), listStep_some]
            simp only [Bool.false_eq_true, if_false]
            rw [listCont_sep _ _ _ _ (by omega)]
            exact ⟨r, hr, hrm⟩

/-- parsing the printed list-format text succeeds and yields a bitmap denoting the same set -/
theorem list_roundtrip (b : Bitmap) (hinv : b.Inv) (hb : b.count * 64 + 64 ≤ listMaxIndex) :
    ∃ ws inf, listScan (text b.chunksList) = .ok (ws.map some) inf ∧
      ∀ n, (Bitmap.mk ws inf).mem n = b.mem n := by
  have _ := hinv   -- not needed: the denotation `mem` is defined for every representation
  have hinit : ∀ n : Nat, (Bitmap.mk [0#64] false).mem n = (decide ((n:Int) ≤ -1) && b.mem n) := by
    intro n
    have h1 : ¬ ((n:Int) ≤ -1) := by omega
    have h2 : (Bitmap.mk [0#64] false).mem n = false := mem_alloc n
    simp [h1, h2]
  obtain ⟨r, hr, hrm⟩ := listLoop_listBody b hb (b.count * 64 + 2) (-1) ⟨[0#64], false⟩
    ((text b.chunksList).length + 1) (by omega) (by omega) (by omega) hinit
    (by unfold chunksList; omega)
  exact ⟨r.words, r.inf, hr, hrm⟩

end Bitmap
end Hw
