/-
  Hw.Bitmap.RoundTripHwloc — `hwloc_bitmap_sscanf (hwloc_bitmap_snprintf b)` denotes the same set as `b`.
-/
import Hw.Bitmap.ScanLemmas
import Hw.Base.NumLemmas
import Hw.Bitmap.RoundTripTaskset
namespace Hw
namespace Bitmap

/-! ### the printed text as a comma-separated list of encoded 32-bit groups -/

/-- how one 32-bit group is printed (`last`: it is the least significant group) -/
def encG (g : Nat) (last : Bool) : List Byte :=
  if g ≠ 0 then 48 :: 120 :: hexPad 8 g else if last then [48, 120, 48] else []

/-- the groups, most significant first, separated by commas -/
def encGs : List Nat → List Byte
  | [] => []
  | [g] => encG g true
  | g :: g' :: gs => encG g false ++ 44 :: encGs (g' :: gs)

theorem text_cons (c : List Byte) (cs : List (List Byte)) : text (c :: cs) = c ++ text cs := by
  simp [text]

theorem text_hwlocBody_true (gs : List Nat) :
    text (hwlocBody gs true false) = if gs = [] then [] else 44 :: encGs gs := by
  induction gs with
  | nil => simp [hwlocBody, text]
  | cons g gs ih =>
    unfold hwlocBody
    simp only [Bool.false_and, Bool.false_eq_true, if_false, if_true, reduceCtorEq]
    by_cases hg : g = 0
    · subst hg
      cases gs with
      | nil => simp [hwlocBody, text, encGs, encG, str_c0x0]
      | cons g' gs' =>
        simp only [bne_self_eq_false, Bool.false_eq_true, if_false, List.isEmpty_cons, text_cons, ih,
          reduceCtorEq, str_comma]
        simp [encGs, encG]
    · have hg' : (g != 0) = true := by simpa using hg
      simp only [hg', if_true, text_cons, ih, str_c0x]
      cases gs with
      | nil => simp [encGs, encG, hg]
      | cons g' gs' => simp [encGs, encG, hg]

/-- first printed group of a finite bitmap (`needcomma = false`) -/
theorem text_hwlocBody_first (g : Nat) (gs : List Nat) (hg : g ≠ 0) :
    text (hwlocBody (g :: gs) false false) = encGs (g :: gs) := by
  have hg' : (g != 0) = true := by simpa using hg
  unfold hwlocBody
  simp only [Bool.false_and, Bool.false_eq_true, if_false, hg', if_true, text_cons,
    text_hwlocBody_true, str_0x]
  cases gs with
  | nil => simp [encGs, encG, hg]
  | cons g' gs' => simp [encGs, encG, hg]

/-- a leading zero group of a finite bitmap prints nothing -/
theorem text_hwlocBody_skip (g' : Nat) (gs : List Nat) :
    text (hwlocBody (0 :: g' :: gs) false false) = text (hwlocBody (g' :: gs) false false) := by
  rw [hwlocBody]
  simp [text_cons]

/-- infinite bitmap, first group all ones: merged into the `0xf...f` prefix -/
theorem text_hwlocBody_merge (gs : List Nat) :
    text (hwlocBody (0xFFFFFFFF :: gs) true true) = text (hwlocBody gs true false) := by
  rw [hwlocBody]
  simp [text_cons]

/-- infinite bitmap, first group not all ones -/
theorem text_hwlocBody_nomerge (g : Nat) (gs : List Nat) (hg : g ≠ 0xFFFFFFFF) :
    text (hwlocBody (g :: gs) true true) = text (hwlocBody (g :: gs) true false) := by
  have hg' : (g == 0xFFFFFFFF) = false := by simpa using hg
  rw [hwlocBody, hwlocBody]
  simp only [hg', Bool.and_false, Bool.false_eq_true, if_false]

/-! ### words from 32-bit groups -/

theorem hi32_lt (w : Word) : hi32 w < 2 ^ 32 := by
  unfold hi32
  have := w.isLt
  have e : (2:Nat) ^ 64 = 2 ^ 32 * 2 ^ 32 := by decide
  rw [Nat.div_lt_iff_lt_mul (by decide)]; omega

theorem lo32_lt (w : Word) : lo32 w < 2 ^ 32 := Nat.mod_lt _ (by decide)

theorem join_word (w : Word) :
    (0#64 ||| BitVec.ofNat 64 (hi32 w) <<< 32) ||| BitVec.ofNat 64 (lo32 w) <<< 0 = w := by
  apply BitVec.eq_of_getLsbD_eq
  intro i hi
  have hb : w.getLsbD i = w.toNat.testBit i := rfl
  simp only [BitVec.getLsbD_or, BitVec.getLsbD_ofNat, BitVec.getLsbD_shiftLeft, hi32, lo32,
    Nat.testBit_mod_two_pow, Nat.testBit_div_two_pow, hb,
    Nat.sub_zero, Nat.not_lt_zero, decide_false, Bool.not_false, Bool.and_true]
  by_cases h32 : i < 32
  · simp [h32, hi]
  · have : i - 32 + 32 = i := by omega
    have h2 : i - 32 < 64 := by omega
    simp [h32, hi, this, h2]

/-! ### the scanner loop on an encoded group list -/

def CommaOrEnd (rest : List Byte) : Prop := rest = [] ∨ ∃ r, rest = 44 :: r

theorem CommaOrEnd.noDigit {rest : List Byte} (h : CommaOrEnd rest) : NoDigitHead rest := by
  rcases h with h | ⟨r, h⟩
  · rw [h]; exact noDigitHead_nil
  · rw [h]; exact noDigitHead_comma r

theorem strtoul_encG (g : Nat) (last : Bool) (rest : List Byte) (hg : g < 2 ^ 32) (h : CommaOrEnd rest) :
    strtoul 16 (encG g last ++ rest) = .ok g rest := by
  unfold encG
  by_cases h0 : g = 0
  · subst h0
    simp only [ne_eq, not_true_eq_false, if_false]
    cases last with
    | true =>
      have e : ([48, 120, 48] : List Byte) ++ rest = 48 :: 120 :: (hexPad 1 0 ++ rest) := by
        have : hexPad 1 0 = [48] := by decide
        rw [this]; rfl
      simp only [if_true]
      rw [e]
      exact strtoul16_0x_hexPad 1 0 rest (by decide) h.noDigit
    | false =>
      simp only [Bool.false_eq_true, if_false, List.nil_append]
      rcases h with h | ⟨r, h⟩
      · rw [h]; exact strtoul16_nil
      · rw [h]; exact strtoul16_comma r
  · simp only [ne_eq, h0, not_false_eq_true, if_true]
    have hg64 : g < 2 ^ 64 := Nat.lt_trans hg (by decide)
    exact strtoul16_0x_hexPad 8 g rest hg64 h.noDigit

/-- the cells written by `hwlocLoop` for the remaining groups `gs` (most significant first) -/
def scanFill : List Nat → Word → List (Option Word) → List (Option Word)
  | [], _, ws => ws
  | g :: gs, accum, ws =>
    if gs.length % 2 = 0 then
      scanFill gs 0#64 (setCell ws (gs.length / 2) (accum ||| (BitVec.ofNat 64 g <<< ((gs.length * 32) % 64))))
    else scanFill gs (accum ||| (BitVec.ofNat 64 g <<< ((gs.length * 32) % 64))) ws

theorem encGs_commaOrEnd_tail (g : Nat) (gs : List Nat) :
    ∃ rest, CommaOrEnd rest ∧ encGs (g :: gs) = encG g gs.isEmpty ++ rest ∧
      (gs = [] → rest = []) ∧ (gs ≠ [] → rest = 44 :: encGs gs) := by
  cases gs with
  | nil => exact ⟨[], Or.inl rfl, by simp [encGs], fun _ => rfl, fun h => absurd rfl h⟩
  | cons g' gs' =>
    refine ⟨44 :: encGs (g' :: gs'), Or.inr ⟨_, rfl⟩, by simp [encGs], ?_, fun _ => rfl⟩
    intro h; cases h

theorem hwlocLoop_encGs (inf : Bool) (gs : List Nat) (hne : gs ≠ []) (hlt : ∀ g, g ∈ gs → g < 2 ^ 32) :
    ∀ (fuel : Nat) (accum : Word) (ws : List (Option Word)), gs.length ≤ fuel →
      hwlocLoop fuel (encGs gs) gs.length accum ws inf = .ok (scanFill gs accum ws) inf := by
  induction gs with
  | nil => exact absurd rfl hne
  | cons g gs ih =>
    intro fuel accum ws hf
    cases fuel with
    | zero => simp at hf
    | succ fuel =>
      obtain ⟨rest, hce, henc, hnil, hcons⟩ := encGs_commaOrEnd_tail g gs
      have hs : strtoul 16 (encGs (g :: gs)) = .ok g rest := by
        rw [henc]; exact strtoul_encG g _ rest (hlt g (by simp)) hce
      unfold hwlocLoop
      simp only [hs, List.length_cons, Nat.add_one_ne_zero, if_false, Nat.add_sub_cancel]
      cases gs with
      | nil =>
        rw [hnil rfl]
        simp [scanFill]
      | cons g' gs' =>
        rw [hcons (by simp)]
        have ih' := ih (by simp) (fun x hx => hlt x (by simp [hx])) fuel
        by_cases hpar : (g' :: gs').length % 2 = 0
        · have hpar' : (gs'.length + 1) % 2 = 0 := by simpa using hpar
          rw [scanFill, if_pos hpar]
          simp only [List.length_cons, hpar', if_true]
          exact ih' _ _ (by simpa using hf)
        · have hpar' : ¬ (gs'.length + 1) % 2 = 0 := by simpa using hpar
          rw [scanFill, if_neg hpar]
          simp only [List.length_cons, hpar', if_false]
          exact ih' _ _ (by simpa using hf)

/-! ### the groups of the low `k` words -/

def groupsOf (f : Nat → Word) (k : Nat) : List Nat :=
  ((List.range k).reverse.map (fun i => [hi32 (f i), lo32 (f i)])).flatten

theorem groups_eq (b : Bitmap) : b.groups = groupsOf b.readWord b.topWords := rfl

theorem groupsOf_zero (f : Nat → Word) : groupsOf f 0 = [] := rfl

theorem groupsOf_succ (f : Nat → Word) (k : Nat) :
    groupsOf f (k + 1) = hi32 (f k) :: lo32 (f k) :: groupsOf f k := by
  unfold groupsOf
  rw [List.range_succ, List.reverse_append]
  simp

theorem groupsOf_length (f : Nat → Word) (k : Nat) : (groupsOf f k).length = 2 * k := by
  induction k with
  | zero => rfl
  | succ k ih => rw [groupsOf_succ]; simp [ih]; omega

theorem groupsOf_lt (f : Nat → Word) (k : Nat) : ∀ g, g ∈ groupsOf f k → g < 2 ^ 32 := by
  induction k with
  | zero => intro g hg; simp [groupsOf_zero] at hg
  | succ k ih =>
    intro g hg
    rw [groupsOf_succ] at hg
    simp only [List.mem_cons] at hg
    rcases hg with h | h | h
    · rw [h]; exact hi32_lt _
    · rw [h]; exact lo32_lt _
    · exact ih g h

theorem drop_setCell (ws : List (Option Word)) (k : Nat) (w : Word) (h : k < ws.length) :
    (setCell ws k w).drop k = some w :: ws.drop (k + 1) := by
  unfold setCell
  apply List.ext_getElem?
  intro i
  rw [List.getElem?_drop]
  cases i with
  | zero => simp [h]
  | succ i =>
    rw [List.getElem?_set_ne (by omega)]
    simp only [List.getElem?_cons_succ, List.getElem?_drop]
    congr 1; omega

theorem scanFill_groups (f : Nat → Word) : ∀ (k : Nat) (ws : List (Option Word)), k ≤ ws.length →
    scanFill (groupsOf f k) 0#64 ws = (List.range k).map (fun i => some (f i)) ++ ws.drop k := by
  intro k
  induction k with
  | zero => intro ws _; simp [groupsOf_zero, scanFill]
  | succ k ih =>
    intro ws hk
    rw [groupsOf_succ, scanFill]
    have h1 : (lo32 (f k) :: groupsOf f k).length % 2 ≠ 0 := by
      rw [List.length_cons, groupsOf_length]; omega
    rw [if_neg h1, scanFill]
    have h2 : (groupsOf f k).length % 2 = 0 := by simp [groupsOf_length]
    rw [if_pos h2]
    have e1 : (lo32 (f k) :: groupsOf f k).length * 32 % 64 = 32 := by
      rw [List.length_cons, groupsOf_length]; omega
    have e2 : (groupsOf f k).length * 32 % 64 = 0 := by simp [groupsOf_length]; omega
    have e3 : (groupsOf f k).length / 2 = k := by simp [groupsOf_length]
    rw [e1, e2, e3, join_word, ih _ (by rw [setCell_length]; omega), drop_setCell _ _ _ (by omega),
      List.range_succ, List.map_append]
    simp

/-- the top word comes from its low group only (the high group is zero and was not printed, or is
all ones and was merged into the `0xf...f` prefix: `accum` holds it) -/
theorem scanFill_lo (f : Nat → Word) (k : Nat) (ws : List (Option Word)) (hk : k < ws.length)
    (accum w : Word) (lo : Nat) (hw : accum ||| BitVec.ofNat 64 lo <<< 0 = w) :
    scanFill (lo :: groupsOf f k) accum ws =
      (List.range k).map (fun i => some (f i)) ++ some w :: ws.drop (k + 1) := by
  rw [scanFill]
  have h2 : (groupsOf f k).length % 2 = 0 := by simp [groupsOf_length]
  have e2 : (groupsOf f k).length * 32 % 64 = 0 := by simp [groupsOf_length]; omega
  have e3 : (groupsOf f k).length / 2 = k := by simp [groupsOf_length]
  rw [if_pos h2, e2, e3, hw, scanFill_groups f k _ (by rw [setCell_length]; omega),
    drop_setCell _ _ _ hk]

/-! ### commas -/

theorem countCommas_append (a b : List Byte) : countCommas (a ++ b) = countCommas a + countCommas b := by
  simp [countCommas, List.countP_append]

theorem countCommas_cons_comma (a : List Byte) : countCommas (44 :: a) = countCommas a + 1 := by
  simp [countCommas]

theorem countCommas_encG (g : Nat) (last : Bool) : countCommas (encG g last) = 0 := by
  unfold countCommas
  rw [List.countP_eq_zero]
  intro c hc
  have : c = 48 ∨ c = 120 ∨ IsHexChar c := by
    unfold encG at hc
    split at hc
    · simp only [List.mem_cons] at hc
      rcases hc with h | h | h
      · exact Or.inl h
      · exact Or.inr (Or.inl h)
      · exact Or.inr (Or.inr (hexPad_chars 8 g c h))
    · split at hc
      · simp only [List.mem_cons, List.not_mem_nil, or_false] at hc
        rcases hc with h | h | h
        · exact Or.inl h
        · exact Or.inr (Or.inl h)
        · exact Or.inl h
      · cases hc
  have hne : c ≠ 44 := by
    rcases this with h | h | h
    · rw [h]; decide
    · rw [h]; decide
    · unfold IsHexChar at h
      intro e; rw [e] at h; omega
  simpa using hne

theorem countCommas_encGs (gs : List Nat) : countCommas (encGs gs) = gs.length - 1 := by
  induction gs with
  | nil => rfl
  | cons g gs ih =>
    cases gs with
    | nil => simp [encGs, countCommas_encG]
    | cons g' gs' =>
      rw [encGs, countCommas_append, countCommas_cons_comma, countCommas_encG, ih]
      simp

/-! ### entry of the scanner -/

def infPre : List Byte := [48, 120, 102, 46, 46, 46, 102]

theorem encGs_ne_nil (gs : List Nat) (h : gs ≠ []) : gs.length = countCommas (encGs gs) + 1 := by
  rw [countCommas_encGs]
  cases gs with
  | nil => exact absurd rfl h
  | cons g gs => simp

theorem hwlocScan_inf_encGs (gs : List Nat) (hne : gs ≠ []) (hlt : ∀ g, g ∈ gs → g < 2 ^ 32) :
    hwlocScan (infPre ++ 44 :: encGs gs) =
      .ok (scanFill gs (if gs.length % 2 ≠ 0 then BitVec.ofNat 64 (0xFFFFFFFF <<< 32) else 0#64)
            (List.replicate ((gs.length + 1) / 2) none)) true := by
  have hc : 1 + countCommas (infPre ++ 44 :: encGs gs) - 1 = gs.length := by
    rw [countCommas_append, countCommas_cons_comma, encGs_ne_nil gs hne]
    have : countCommas infPre = 0 := by decide
    omega
  have hp : isPrefix (str "0xf...f") (infPre ++ 44 :: encGs gs) = true := by
    rw [str_inf]; simp [isPrefix, infPre]
  have hd : (infPre ++ 44 :: encGs gs).drop 7 = 44 :: encGs gs := by simp [infPre]
  unfold hwlocScan
  simp only [hp, if_true, hd, hc]
  exact hwlocLoop_encGs true gs hne hlt _ _ _ (Nat.le_refl _)

theorem hwlocScan_fin_encGs (g : Nat) (gs : List Nat) (hg : g ≠ 0) (hlt : ∀ x, x ∈ g :: gs → x < 2 ^ 32) :
    hwlocScan (encGs (g :: gs)) =
      .ok (scanFill (g :: gs) 0#64 (List.replicate (((g :: gs).length + 1) / 2) none)) false := by
  have hc : 1 + countCommas (encGs (g :: gs)) = (g :: gs).length := by
    rw [encGs_ne_nil (g :: gs) (by simp)]; omega
  have hp : isPrefix (str "0xf...f") (encGs (g :: gs)) = false := by
    obtain ⟨rest, _, henc, _, _⟩ := encGs_commaOrEnd_tail g gs
    rw [henc, str_inf]
    unfold encG
    rw [if_pos hg]
    have hlen := hexPad_length 8 g (by omega) (by
      have := hlt g (by simp)
      have e : (16:Nat) ^ 8 = 2 ^ 32 := by decide
      omega)
    have hch := hexPad_chars 8 g
    match hp : hexPad 8 g, hlen, hch with
    | c1 :: c2 :: tl, _, hch =>
      have h2 : IsHexChar c2 := hch c2 (by simp)
      have hne : c2 ≠ 46 := by
        unfold IsHexChar at h2
        intro e; rw [e] at h2; omega
      simp [isPrefix, hne]
    | [_], hl, _ => simp at hl
    | [], hl, _ => simp at hl
  unfold hwlocScan
  simp only [hp, hc]
  exact hwlocLoop_encGs false (g :: gs) (by simp) hlt _ _ _ (Nat.le_refl _)

theorem text_append (a b : List (List Byte)) : text (a ++ b) = text a ++ text b := by
  simp [text]

theorem text_chunksHwloc (b : Bitmap) :
    text b.chunksHwloc =
      (if (if b.inf then infPre else []) ++ text (hwlocBody b.groups b.inf b.inf) = [] then [48, 120, 48]
       else (if b.inf then infPre else []) ++ text (hwlocBody b.groups b.inf b.inf)) := by
  have e : text ((if b.inf then [str "0xf...f"] else []) ++ hwlocBody b.groups b.inf b.inf) =
      (if b.inf then infPre else []) ++ text (hwlocBody b.groups b.inf b.inf) := by
    rw [text_append]
    cases b.inf <;> simp [text, str_inf, infPre]
  unfold chunksHwloc
  simp only [e, List.length_eq_zero_iff]
  by_cases h : (if b.inf then infPre else []) ++ text (hwlocBody b.groups b.inf b.inf) = []
  · rw [if_pos h, if_pos h, text_append, e, h, str_0x0]; simp [text]
  · rw [if_neg h, if_neg h]; exact e

/-! ### the round trip -/

theorem encGs_cons_ne_nil (g : Nat) (gs : List Nat) (hg : g ≠ 0) : encGs (g :: gs) ≠ [] := by
  obtain ⟨rest, _, henc, _, _⟩ := encGs_commaOrEnd_tail g gs
  rw [henc]; unfold encG; rw [if_pos hg]; simp

theorem map_some_range (f : Nat → Word) (k : Nat) :
    (List.range k).map (fun i => some (f i)) = ((List.range k).map f).map some := by
  rw [List.map_map]; rfl

theorem word_of_zero_groups (w : Word) (h1 : hi32 w = 0) (h2 : lo32 w = 0) : w = 0#64 := by
  have := join_word w
  rw [h1, h2] at this
  rw [← this]; decide

/-- the exact result of scanning the printed text, finite case -/
theorem hwloc_scan_fin (b : Bitmap) (hinf : b.inf = false) :
    hwlocScan (text b.chunksHwloc) =
      .ok (((List.range (max b.topWords 1)).map b.readWord).map some) false := by
  rw [text_chunksHwloc, hinf, groups_eq]
  simp only [Bool.false_eq_true, if_false, List.nil_append]
  cases hT : b.topWords with
  | zero =>
    have h0 : b.readWord 0 = 0#64 := by
      have := TasksetRT.readWord_ge_topWords b 0 (by omega)
      rw [this, hinf]; rfl
    simp only [groupsOf_zero, hwlocBody, text, List.flatten_nil, if_true]
    have : max 0 1 = 1 := rfl
    rw [this]
    simp only [List.range_one, List.map_cons, List.map_nil, h0]
    decide
  | succ t =>
    have hw : b.readWord t ≠ 0#64 := by
      have := TasksetRT.readWord_topWords_ne b t hT
      rw [hinf] at this; exact this
    have hmax : max (t + 1) 1 = t + 1 := by omega
    rw [hmax, groupsOf_succ]
    have hlt := groupsOf_lt b.readWord (t + 1)
    rw [groupsOf_succ] at hlt
    by_cases hhi : hi32 (b.readWord t) = 0
    · have hlo : lo32 (b.readWord t) ≠ 0 := fun h => hw (word_of_zero_groups _ hhi h)
      rw [hhi, text_hwlocBody_skip, text_hwlocBody_first _ _ hlo,
        if_neg (encGs_cons_ne_nil _ _ hlo),
        hwlocScan_fin_encGs _ _ hlo (fun x hx => hlt x (by simp [hx]))]
      have hl : ((lo32 (b.readWord t) :: groupsOf b.readWord t).length + 1) / 2 = t + 1 := by
        rw [List.length_cons, groupsOf_length]; omega
      have hj : 0#64 ||| BitVec.ofNat 64 (lo32 (b.readWord t)) <<< 0 = b.readWord t := by
        have := join_word (b.readWord t)
        rw [hhi] at this
        have e : (0#64 ||| BitVec.ofNat 64 0 <<< 32 : Word) = 0#64 := by decide
        rw [e] at this; exact this
      rw [hl, scanFill_lo b.readWord t _ (by simp) _ _ _ hj]
      simp only [List.drop_replicate, Nat.sub_self, List.replicate_zero]
      rw [List.range_succ, List.map_append, List.map_append, ← map_some_range]
      rfl
    · rw [text_hwlocBody_first _ _ hhi, if_neg (encGs_cons_ne_nil _ _ hhi),
        hwlocScan_fin_encGs _ _ hhi hlt, ← groupsOf_succ]
      have hl : ((groupsOf b.readWord (t + 1)).length + 1) / 2 = t + 1 := by
        rw [groupsOf_length]; omega
      rw [hl, scanFill_groups b.readWord (t + 1) _ (by simp)]
      simp only [List.drop_replicate, Nat.sub_self, List.replicate_zero, List.append_nil]
      rw [map_some_range]

/-- the exact result of scanning the printed text, infinite case -/
theorem hwloc_scan_inf (b : Bitmap) (hinf : b.inf = true) :
    hwlocScan (text b.chunksHwloc) =
      if b.topWords = 0 then .ok [some (BitVec.allOnes 64)] true
      else .ok (((List.range b.topWords).map b.readWord).map some) true := by
  rw [text_chunksHwloc, hinf, groups_eq]
  simp only [if_true]
  have hne : ∀ X : List Byte, infPre ++ X ≠ [] := by intro X; simp [infPre]
  rw [if_neg (hne _)]
  cases hT : b.topWords with
  | zero =>
    simp only [groupsOf_zero, hwlocBody, text, List.flatten_nil, if_true, List.append_nil]
    decide
  | succ t =>
    have hw : b.readWord t ≠ BitVec.allOnes 64 := by
      have := TasksetRT.readWord_topWords_ne b t hT
      rw [hinf] at this; exact this
    rw [if_neg (by omega), groupsOf_succ]
    have hlt := groupsOf_lt b.readWord (t + 1)
    rw [groupsOf_succ] at hlt
    by_cases hhi : hi32 (b.readWord t) = 0xFFFFFFFF
    · rw [hhi, text_hwlocBody_merge, text_hwlocBody_true, if_neg (by simp),
        hwlocScan_inf_encGs _ (by simp) (fun x hx => hlt x (by simp [hx]))]
      have hl : ((lo32 (b.readWord t) :: groupsOf b.readWord t).length + 1) / 2 = t + 1 := by
        rw [List.length_cons, groupsOf_length]; omega
      have hodd : (lo32 (b.readWord t) :: groupsOf b.readWord t).length % 2 ≠ 0 := by
        rw [List.length_cons, groupsOf_length]; omega
      have hj : BitVec.ofNat 64 (0xFFFFFFFF <<< 32) ||| BitVec.ofNat 64 (lo32 (b.readWord t)) <<< 0
          = b.readWord t := by
        have := join_word (b.readWord t)
        rw [hhi] at this
        have e : (0#64 ||| BitVec.ofNat 64 0xFFFFFFFF <<< 32 : Word)
            = BitVec.ofNat 64 (0xFFFFFFFF <<< 32) := by decide
        rw [e] at this; exact this
      rw [hl, if_pos hodd, scanFill_lo b.readWord t _ (by simp) _ _ _ hj]
      simp only [List.drop_replicate, Nat.sub_self, List.replicate_zero]
      rw [List.range_succ, List.map_append, List.map_append, ← map_some_range]
      rfl
    · rw [text_hwlocBody_nomerge _ _ hhi, text_hwlocBody_true, if_neg (by simp),
        hwlocScan_inf_encGs _ (by simp) hlt, ← groupsOf_succ]
      have hl : ((groupsOf b.readWord (t + 1)).length + 1) / 2 = t + 1 := by
        rw [groupsOf_length]; omega
      have hev : ¬ (groupsOf b.readWord (t + 1)).length % 2 ≠ 0 := by
        rw [groupsOf_length]; omega
      rw [hl, if_neg hev, scanFill_groups b.readWord (t + 1) _ (by simp)]
      simp only [List.drop_replicate, Nat.sub_self, List.replicate_zero, List.append_nil]
      rw [map_some_range]

/-- parsing the text printed by `hwloc_bitmap_snprintf` succeeds and yields a bitmap denoting the
same set, for every bitmap (finite or infinite, any word count) -/
theorem hwloc_roundtrip (b : Bitmap) (_hinv : b.Inv) :
    ∃ ws inf, hwlocScan (text b.chunksHwloc) = .ok (ws.map some) inf ∧
      ∀ n, (Bitmap.mk ws inf).mem n = b.mem n := by
  cases hinf : b.inf with
  | false =>
    refine ⟨(List.range (max b.topWords 1)).map b.readWord, false, hwloc_scan_fin b hinf, ?_⟩
    have := TasksetRT.build_mem_eq b (max b.topWords 1) (by omega)
    rw [hinf] at this; exact this
  | true =>
    by_cases hT : b.topWords = 0
    · refine ⟨[BitVec.allOnes 64], true, ?_, ?_⟩
      · rw [hwloc_scan_inf b hinf, if_pos hT]; rfl
      · have := TasksetRT.build_mem_eq b 1 (by omega)
        have h0 : b.readWord 0 = BitVec.allOnes 64 := by
          have := TasksetRT.readWord_ge_topWords b 0 (by omega)
          rw [this, hinf]; rfl
        rw [hinf] at this
        simpa [h0] using this
    · refine ⟨(List.range b.topWords).map b.readWord, true, ?_, ?_⟩
      · rw [hwloc_scan_inf b hinf, if_neg hT]
      · have := TasksetRT.build_mem_eq b b.topWords (Nat.le_refl _)
        rw [hinf] at this; exact this

end Bitmap
end Hw
