/-
  Hw.Bitmap.Lemmas — word-level (`readWord`) characterisation of every modifying operation
  and supporting facts; the property theorems in `Hw.Props.C03` are stated over `mem` only.
-/
import Hw.Bitmap.Ops
namespace Hw

theorem bitW_getLsbD (j k : Nat) (hj : j < 64) : (bitW j).getLsbD k = decide (k = j) := by
  unfold bitW
  simp only [BitVec.getLsbD_shiftLeft, BitVec.getLsbD_one]
  by_cases h : k = j
  · subst h; simp [hj]
  · simp [h]; omega

theorem fromW_getLsbD (j k : Nat) : (fromW j).getLsbD k = (decide (k < 64) && decide (j ≤ k)) := by
  unfold fromW
  simp only [BitVec.getLsbD_shiftLeft, BitVec.getLsbD_allOnes]
  by_cases h1 : k < 64 <;> by_cases h2 : j ≤ k <;> simp [h1, h2] <;> omega

theorem toW_getLsbD (j k : Nat) (hj : j < 64) : (toW j).getLsbD k = decide (k ≤ j) := by
  unfold toW
  simp only [BitVec.getLsbD_ushiftRight, BitVec.getLsbD_allOnes]
  by_cases h2 : k ≤ j <;> simp [h2] <;> omega

theorem fromToW_getLsbD (b e k : Nat) (he : e < 64) :
    (fromToW b e).getLsbD k = (decide (b ≤ k) && decide (k ≤ e)) := by
  unfold fromToW
  rw [BitVec.getLsbD_and, toW_getLsbD _ _ he, fromW_getLsbD]
  by_cases h1 : b ≤ k <;> by_cases h2 : k ≤ e <;> simp [h1, h2]
  omega

namespace Bitmap

theorem mem_def (b : Bitmap) (n : Nat) : b.mem n = (b.readWord (n/64)).getLsbD (n%64) := rfl

/-- bits of a virtual word are members -/
theorem readWord_getLsbD (b : Bitmap) (k j : Nat) (hj : j < 64) :
    (b.readWord k).getLsbD j = b.mem (64 * k + j) := by
  unfold mem
  have e1 : (64 * k + j) / 64 = k := by omega
  have e2 : (64 * k + j) % 64 = j := by omega
  rw [e1, e2]

theorem mem_of_ge (b : Bitmap) (n : Nat) (h : b.count * 64 ≤ n) : b.mem n = b.inf := by
  unfold mem
  rw [readWord_ge b (by omega)]
  exact fillW_getLsbD _ _ (Nat.mod_lt _ (by omega))

@[simp] theorem realloc_inf (b : Bitmap) (n : Nat) : (b.realloc n).inf = b.inf := by
  unfold realloc; split <;> simp

theorem realloc_count (b : Bitmap) (n : Nat) : (b.realloc n).count = max b.count n := by
  unfold realloc; split
  · omega
  · simp; omega

@[simp] theorem readWord_realloc (b : Bitmap) (n i : Nat) : (b.realloc n).readWord i = b.readWord i := by
  unfold realloc; split
  · rfl
  · rw [readWord_build]; split
    · rfl
    · rw [readWord_ge b (by omega)]

@[simp] theorem modify_inf (b : Bitmap) (g) : (b.modify g).inf = b.inf := rfl
@[simp] theorem modify_count (b : Bitmap) (g) : (b.modify g).count = b.count := by simp [modify]

theorem readWord_modify (b : Bitmap) (g : Nat → Word → Word) (i : Nat) :
    (b.modify g).readWord i = if i < b.count then g i (b.readWord i) else b.readWord i := by
  unfold modify; rw [readWord_build]; split
  · rfl
  · rw [readWord_ge b (by omega)]

theorem realloc_inv (b : Bitmap) (n : Nat) (h : b.Inv) : (b.realloc n).Inv := by
  have := realloc_count b n; unfold Inv count at *; omega
theorem modify_inv (b : Bitmap) (g) (h : b.Inv) : (b.modify g).Inv := by
  have := modify_count b g; unfold Inv count at *; omega

/-! ### set / clr -/

theorem mem_set (b : Bitmap) (c n : Nat) : (b.set c).mem n = (b.mem n || decide (n = c)) := by
  unfold set
  split
  · rename_i h
    simp only [Bool.and_eq_true, decide_eq_true_eq] at h
    by_cases hn : n = c
    · subst hn; rw [mem_of_ge b n h.2, h.1]; simp
    · simp [hn]
  · rw [mem_def, readWord_modify, readWord_realloc, realloc_count]
    by_cases h1 : n / 64 = c / 64
    · have hlt : n / 64 < max b.count (c / 64 + 1) := by omega
      rw [h1] at hlt
      simp only [h1, hlt, if_true]
      rw [BitVec.getLsbD_or, bitW_getLsbD _ _ (Nat.mod_lt _ (by omega)), mem_def, h1]
      congr 1
      by_cases h2 : n = c
      · subst h2; simp
      · have : n % 64 ≠ c % 64 := by omega
        simp [h2, this]
    · have hne : n ≠ c := by intro e; subst e; exact h1 rfl
      simp only [h1, if_false, hne, decide_false, Bool.or_false]
      split <;> rfl

theorem mem_clr (b : Bitmap) (c n : Nat) : (b.clr c).mem n = (b.mem n && !decide (n = c)) := by
  unfold clr
  split
  · rename_i h
    simp only [Bool.and_eq_true, decide_eq_true_eq, Bool.not_eq_true'] at h
    by_cases hn : n = c
    · subst hn; rw [mem_of_ge b n h.2, h.1]; simp
    · simp [hn]
  · rw [mem_def, readWord_modify, readWord_realloc, realloc_count]
    by_cases h1 : n / 64 = c / 64
    · have hlt : n / 64 < max b.count (c / 64 + 1) := by omega
      rw [h1] at hlt
      simp only [h1, hlt, if_true]
      rw [BitVec.getLsbD_and, BitVec.getLsbD_not, bitW_getLsbD _ _ (Nat.mod_lt _ (by omega)), mem_def, h1]
      have hm : n % 64 < 64 := Nat.mod_lt _ (by omega)
      simp only [hm, decide_true, Bool.true_and]
      congr 1
      by_cases h2 : n = c
      · subst h2; simp
      · have : n % 64 ≠ c % 64 := by omega
        simp [h2, this]
    · have hne : n ≠ c := by intro e; subst e; exact h1 rfl
      simp only [h1, if_false, hne, decide_false, Bool.not_false, Bool.and_true]
      split <;> rfl

theorem set_inv (b : Bitmap) (c : Nat) (h : b.Inv) : (b.set c).Inv := by
  unfold set; split
  · exact h
  · exact modify_inv _ _ (realloc_inv _ _ h)
theorem clr_inv (b : Bitmap) (c : Nat) (h : b.Inv) : (b.clr c).Inv := by
  unfold clr; split
  · exact h
  · exact modify_inv _ _ (realloc_inv _ _ h)

theorem mem_setIthUlong (b : Bitmap) (i : Nat) (m : Word) (n : Nat) :
    (b.setIthUlong i m).mem n = if n / 64 = i then m.getLsbD (n % 64) else b.mem n := by
  unfold setIthUlong
  rw [mem_def, readWord_modify, readWord_realloc, realloc_count]
  by_cases h1 : n / 64 = i
  · have hlt : i < max b.count (i + 1) := by omega
    simp [hlt, h1]
  · simp only [h1, if_false]; split <;> rfl
theorem setIthUlong_inv (b : Bitmap) (i : Nat) (m : Word) (h : b.Inv) : (b.setIthUlong i m).Inv :=
  modify_inv _ _ (realloc_inv _ _ h)


/-! ### ranges -/

@[simp] theorem setInf_count (b : Bitmap) (f : Bool) : (b.setInf f).count = b.count := rfl
@[simp] theorem setInf_inf (b : Bitmap) (f : Bool) : (b.setInf f).inf = f := rfl
theorem setInf_inv (b : Bitmap) (f : Bool) (h : b.Inv) : (b.setInf f).Inv := h

theorem readWord_setInf (b : Bitmap) (f : Bool) (i : Nat) :
    (b.setInf f).readWord i = if i < b.count then b.readWord i else fillW f := by
  split
  · rename_i h
    rw [readWord_lt _ (by simpa using h), readWord_lt _ h]; rfl
  · rw [readWord_ge _ (by simp; omega)]; rfl

theorem mem_modify_realloc (b : Bitmap) (m : Nat) (g : Nat → Word → Word) (n : Nat) :
    ((b.realloc m).modify g).mem n =
      if n / 64 < max b.count m then (g (n/64) (b.readWord (n/64))).getLsbD (n % 64) else b.mem n := by
  rw [mem_def, readWord_modify, readWord_realloc, realloc_count]
  split <;> rfl

theorem mem_setRange_none (b : Bitmap) (beg n : Nat) :
    (b.setRange beg none).mem n = (b.mem n || decide (beg ≤ n)) := by
  unfold setRange
  simp only
  split
  · rename_i h
    simp only [Bool.and_eq_true, decide_eq_true_eq] at h
    by_cases hn : beg ≤ n
    · rw [mem_of_ge b n (by omega), h.1]; simp
    · simp [hn]
  · have hm : n % 64 < 64 := Nat.mod_lt _ (by omega)
    rw [mem_def, readWord_setInf, modify_count, realloc_count, readWord_modify, readWord_realloc, realloc_count]
    by_cases hk : n / 64 < max b.count (beg / 64 + 1)
    · simp only [hk, if_true]
      by_cases h1 : n / 64 = beg / 64
      · simp only [h1, if_true]
        rw [BitVec.getLsbD_or, fromW_getLsbD, mem_def, h1]
        congr 1
        have : (beg % 64 ≤ n % 64) ↔ beg ≤ n := by omega
        simp [hm, this]
      · simp only [h1, if_false]
        by_cases h2 : beg / 64 < n / 64
        · simp only [h2, if_true, BitVec.getLsbD_allOnes, hm, decide_true]
          have : beg ≤ n := by omega
          simp [this]
        · simp only [h2, if_false]
          have : ¬ beg ≤ n := by omega
          simp [this, mem_def]
    · simp only [hk, if_false]
      rw [fillW_getLsbD _ _ hm]
      have : beg ≤ n := by omega
      simp [this]

theorem mem_clrRange_none (b : Bitmap) (beg n : Nat) :
    (b.clrRange beg none).mem n = (b.mem n && !decide (beg ≤ n)) := by
  unfold clrRange
  simp only
  split
  · rename_i h
    simp only [Bool.and_eq_true, decide_eq_true_eq, Bool.not_eq_true'] at h
    by_cases hn : beg ≤ n
    · rw [mem_of_ge b n (by omega), h.1]; simp
    · simp [hn]
  · have hm : n % 64 < 64 := Nat.mod_lt _ (by omega)
    rw [mem_def, readWord_setInf, modify_count, realloc_count, readWord_modify, readWord_realloc, realloc_count]
    by_cases hk : n / 64 < max b.count (beg / 64 + 1)
    · simp only [hk, if_true]
      by_cases h1 : n / 64 = beg / 64
      · simp only [h1, if_true]
        rw [BitVec.getLsbD_and, BitVec.getLsbD_not, fromW_getLsbD, mem_def, h1]
        congr 1
        have : (beg % 64 ≤ n % 64) ↔ beg ≤ n := by omega
        simp [hm, this]
      · simp only [h1, if_false]
        by_cases h2 : beg / 64 < n / 64
        · simp only [h2, if_true]
          have : beg ≤ n := by omega
          simp [this]
        · simp only [h2, if_false]
          have : ¬ beg ≤ n := by omega
          simp [this, mem_def]
    · simp only [hk, if_false]
      rw [fillW_getLsbD _ _ hm]
      have : beg ≤ n := by omega
      simp [this]


theorem mem_setRange_core (b : Bitmap) (beg e n : Nat) (hbe : beg ≤ e) :
    ((b.realloc (e/64+1)).modify (fun j w =>
        if beg/64 = e/64 then (if j = beg/64 then w ||| fromToW (beg%64) (e%64) else w)
        else if j = beg/64 then w ||| fromW (beg%64)
        else if j = e/64 then w ||| toW (e%64)
        else if beg/64 < j ∧ j < e/64 then BitVec.allOnes 64 else w)).mem n
      = (b.mem n || (decide (beg ≤ n) && decide (n ≤ e))) := by
  have hm : n % 64 < 64 := Nat.mod_lt _ (by omega)
  have he : e % 64 < 64 := Nat.mod_lt _ (by omega)
  rw [mem_modify_realloc]
  by_cases hk : n / 64 < max b.count (e / 64 + 1)
  · simp only [hk, if_true]
    by_cases hs : beg / 64 = e / 64
    · simp only [hs, if_true]
      by_cases h1 : n / 64 = e / 64
      · simp only [h1, if_true]
        rw [BitVec.getLsbD_or, fromToW_getLsbD _ _ _ he, mem_def, h1]
        congr 1
        have a1 : (beg % 64 ≤ n % 64) ↔ beg ≤ n := by omega
        have a2 : (n % 64 ≤ e % 64) ↔ n ≤ e := by omega
        simp [a1, a2]
      · simp only [h1, if_false]
        have : ¬ (beg ≤ n ∧ n ≤ e) := by omega
        have : (decide (beg ≤ n) && decide (n ≤ e)) = false := by simpa using this
        simp [this, mem_def]
    · simp only [hs, if_false]
      by_cases h1 : n / 64 = beg / 64
      · simp only [h1, if_true]
        rw [BitVec.getLsbD_or, fromW_getLsbD, mem_def, h1]
        congr 1
        have a1 : (beg % 64 ≤ n % 64) ↔ beg ≤ n := by omega
        have a2 : n ≤ e := by omega
        simp [a1, a2, hm]
      · simp only [h1, if_false]
        by_cases h2 : n / 64 = e / 64
        · simp only [h2, if_true]
          rw [BitVec.getLsbD_or, toW_getLsbD _ _ he, mem_def, h2]
          congr 1
          have a1 : beg ≤ n := by omega
          have a2 : (n % 64 ≤ e % 64) ↔ n ≤ e := by omega
          simp [a1, a2]
        · simp only [h2, if_false]
          by_cases h3 : beg / 64 < n / 64 ∧ n / 64 < e / 64
          · simp only [h3, and_self, if_true, BitVec.getLsbD_allOnes, hm, decide_true]
            have a1 : beg ≤ n := by omega
            have a2 : n ≤ e := by omega
            simp [a1, a2]
          · simp only [h3, if_false]
            have : ¬ (beg ≤ n ∧ n ≤ e) := by omega
            have : (decide (beg ≤ n) && decide (n ≤ e)) = false := by simpa using this
            simp [this, mem_def]
  · simp only [hk, if_false]
    have : ¬ n ≤ e := by omega
    simp [this]

theorem mem_setRange_some (b : Bitmap) (beg e n : Nat) :
    (b.setRange beg (some e)).mem n = (b.mem n || (decide (beg ≤ n) && decide (n ≤ e))) := by
  unfold setRange
  simp only
  split
  · rename_i h
    have : ¬ (beg ≤ n ∧ n ≤ e) := by omega
    have : (decide (beg ≤ n) && decide (n ≤ e)) = false := by simpa using this
    simp [this]
  · rename_i hbe
    split
    · rename_i h
      simp only [Bool.and_eq_true, decide_eq_true_eq] at h
      by_cases hn : beg ≤ n
      · rw [mem_of_ge b n (by omega), h.1]; simp
      · simp [hn]
    · rename_i hnb
      by_cases hc : (b.inf && decide (b.count * 64 ≤ e)) = true
      · simp only [hc, if_true]
        simp only [Bool.and_eq_true, decide_eq_true_eq] at hc
        have hb : beg < b.count * 64 := by
          simp only [Bool.and_eq_true, decide_eq_true_eq, not_and, Nat.not_le] at hnb
          exact hnb hc.1
        rw [mem_setRange_core b beg (b.count * 64 - 1) n (by omega)]
        by_cases hn : b.count * 64 ≤ n
        · rw [mem_of_ge b n hn, hc.1]; simp
        · have a2 : (n ≤ b.count * 64 - 1) ↔ True := by simp; omega
          have a3 : (n ≤ e) ↔ True := by simp; omega
          simp [a2, a3]
      · simp only [hc, if_false]
        exact mem_setRange_core b beg e n (by omega)

theorem mem_clrRange_core (b : Bitmap) (beg e n : Nat) (hbe : beg ≤ e) :
    ((b.realloc (e/64+1)).modify (fun j w =>
        if beg/64 = e/64 then (if j = beg/64 then w &&& ~~~ fromToW (beg%64) (e%64) else w)
        else if j = beg/64 then w &&& ~~~ fromW (beg%64)
        else if j = e/64 then w &&& ~~~ toW (e%64)
        else if beg/64 < j ∧ j < e/64 then 0#64 else w)).mem n
      = (b.mem n && !(decide (beg ≤ n) && decide (n ≤ e))) := by
  have hm : n % 64 < 64 := Nat.mod_lt _ (by omega)
  have he : e % 64 < 64 := Nat.mod_lt _ (by omega)
  rw [mem_modify_realloc]
  by_cases hk : n / 64 < max b.count (e / 64 + 1)
  · simp only [hk, if_true]
    by_cases hs : beg / 64 = e / 64
    · simp only [hs, if_true]
      by_cases h1 : n / 64 = e / 64
      · simp only [h1, if_true]
        rw [BitVec.getLsbD_and, BitVec.getLsbD_not, fromToW_getLsbD _ _ _ he, mem_def, h1]
        congr 1
        have a1 : (beg % 64 ≤ n % 64) ↔ beg ≤ n := by omega
        have a2 : (n % 64 ≤ e % 64) ↔ n ≤ e := by omega
        simp [a1, a2, hm]
      · simp only [h1, if_false]
        have : ¬ (beg ≤ n ∧ n ≤ e) := by omega
        have : (decide (beg ≤ n) && decide (n ≤ e)) = false := by simpa using this
        simp [this, mem_def]
    · simp only [hs, if_false]
      by_cases h1 : n / 64 = beg / 64
      · simp only [h1, if_true]
        rw [BitVec.getLsbD_and, BitVec.getLsbD_not, fromW_getLsbD, mem_def, h1]
        congr 1
        have a1 : (beg % 64 ≤ n % 64) ↔ beg ≤ n := by omega
        have a2 : n ≤ e := by omega
        simp [a1, a2, hm]
      · simp only [h1, if_false]
        by_cases h2 : n / 64 = e / 64
        · simp only [h2, if_true]
          rw [BitVec.getLsbD_and, BitVec.getLsbD_not, toW_getLsbD _ _ he, mem_def, h2]
          congr 1
          have a1 : beg ≤ n := by omega
          have a2 : (n % 64 ≤ e % 64) ↔ n ≤ e := by omega
          simp [a1, a2, hm]
        · simp only [h2, if_false]
          by_cases h3 : beg / 64 < n / 64 ∧ n / 64 < e / 64
          · simp only [h3, and_self, if_true]
            have a1 : beg ≤ n := by omega
            have a2 : n ≤ e := by omega
            simp [a1, a2]
          · simp only [h3, if_false]
            have : ¬ (beg ≤ n ∧ n ≤ e) := by omega
            have : (decide (beg ≤ n) && decide (n ≤ e)) = false := by simpa using this
            simp [this, mem_def]
  · simp only [hk, if_false]
    have : ¬ n ≤ e := by omega
    simp [this]

theorem mem_clrRange_some (b : Bitmap) (beg e n : Nat) :
    (b.clrRange beg (some e)).mem n = (b.mem n && !(decide (beg ≤ n) && decide (n ≤ e))) := by
  unfold clrRange
  simp only
  split
  · rename_i h
    have : ¬ (beg ≤ n ∧ n ≤ e) := by omega
    have : (decide (beg ≤ n) && decide (n ≤ e)) = false := by simpa using this
    simp [this]
  · rename_i hbe
    split
    · rename_i h
      simp only [Bool.and_eq_true, decide_eq_true_eq, Bool.not_eq_true'] at h
      by_cases hn : beg ≤ n
      · rw [mem_of_ge b n (by omega), h.1]; simp
      · simp [hn]
    · rename_i hnb
      by_cases hc : (!b.inf && decide (b.count * 64 ≤ e)) = true
      · simp only [hc, if_true]
        simp only [Bool.and_eq_true, decide_eq_true_eq, Bool.not_eq_true'] at hc
        have hb : beg < b.count * 64 := by
          simp only [Bool.and_eq_true, decide_eq_true_eq, not_and, Nat.not_le, Bool.not_eq_true'] at hnb
          exact hnb hc.1
        rw [mem_clrRange_core b beg (b.count * 64 - 1) n (by omega)]
        by_cases hn : b.count * 64 ≤ n
        · rw [mem_of_ge b n hn, hc.1]; simp
        · have a2 : (n ≤ b.count * 64 - 1) ↔ True := by simp; omega
          have a3 : (n ≤ e) ↔ True := by simp; omega
          simp [a2, a3]
      · simp only [hc, if_false]
        exact mem_clrRange_core b beg e n (by omega)

theorem setRange_inv (b : Bitmap) (beg : Nat) (en : Option Nat) (h : b.Inv) : (b.setRange beg en).Inv := by
  unfold setRange
  cases en with
  | none =>
    simp only; split
    · exact h
    · exact setInf_inv _ _ (modify_inv _ _ (realloc_inv _ _ h))
  | some e =>
    simp only; split
    · exact h
    · split
      · exact h
      · exact modify_inv _ _ (realloc_inv _ _ h)

theorem clrRange_inv (b : Bitmap) (beg : Nat) (en : Option Nat) (h : b.Inv) : (b.clrRange beg en).Inv := by
  unfold clrRange
  cases en with
  | none =>
    simp only; split
    · exact h
    · exact setInf_inv _ _ (modify_inv _ _ (realloc_inv _ _ h))
  | some e =>
    simp only; split
    · exact h
    · split
      · exact h
      · exact modify_inv _ _ (realloc_inv _ _ h)

end Bitmap
end Hw
