/-
  Hw.Bitmap.Order — singlify, weight, nr_ulongs, compare: characterised by `mem` only.
-/
import Hw.Bitmap.Search
namespace Hw

theorem Nat.lt_of_testBit' {x y : Nat} (i : Nat) (hx : x.testBit i = false) (hy : y.testBit i = true)
    (hj : ∀ j, i < j → x.testBit j = y.testBit j) : x < y := by
  have hs : x >>> (i+1) = y >>> (i+1) := by
    apply Nat.eq_of_testBit_eq
    intro j
    rw [Nat.testBit_shiftRight, Nat.testBit_shiftRight]
    exact hj _ (by omega)
  rw [Nat.shiftRight_eq_div_pow, Nat.shiftRight_eq_div_pow] at hs
  have ex := Nat.div_add_mod x (2^(i+1))
  have ey := Nat.div_add_mod y (2^(i+1))
  have mx := @Nat.mod_pow_succ x 2 i
  have my := @Nat.mod_pow_succ y 2 i
  rw [Nat.testBit_eq_decide_div_mod_eq] at hx hy
  have hx' : x / 2^i % 2 = 0 := by
    have : ¬ (x / 2^i % 2 = 1) := by simpa using hx
    omega
  have hy' : y / 2^i % 2 = 1 := by simpa using hy
  rw [hx'] at mx
  rw [hy'] at my
  have l1 : x % 2^i < 2^i := Nat.mod_lt _ (Nat.two_pow_pos i)
  rw [hs] at ex
  generalize 2^(i+1) * (y / 2^(i+1)) = q at ex ey
  omega

/-- unsigned comparison of two different words is decided by their highest differing bit -/
theorem word_ne_highest (x y : Word) (h : x ≠ y) :
    ∃ j, j < 64 ∧ x.getLsbD j ≠ y.getLsbD j ∧ (∀ k, j < k → x.getLsbD k = y.getLsbD k) ∧
      (x < y ↔ y.getLsbD j = true) := by
  cases hh : highest (fun j => x.getLsbD j != y.getLsbD j) 64 with
  | none =>
    exfalso; apply h
    apply BitVec.eq_of_getLsbD_eq
    intro i hi
    have := highest_none.mp hh i hi
    simpa using this
  | some j =>
    obtain ⟨hj, hne, hhigh⟩ := highest_some.mp hh
    have hne' : x.getLsbD j ≠ y.getLsbD j := by simpa using hne
    have habove : ∀ k, j < k → x.getLsbD k = y.getLsbD k := by
      intro k hk
      by_cases hk64 : k < 64
      · have := hhigh k hk hk64; simpa using this
      · rw [BitVec.getLsbD_of_ge x k (by omega), BitVec.getLsbD_of_ge y k (by omega)]
    refine ⟨j, hj, hne', habove, ?_⟩
    rw [BitVec.lt_def]
    have habove' : ∀ k, j < k → x.toNat.testBit k = y.toNat.testBit k := by
      intro k hk; rw [BitVec.testBit_toNat, BitVec.testBit_toNat]; exact habove k hk
    constructor
    · intro hlt
      cases hy : y.getLsbD j with
      | true => rfl
      | false =>
        have hx : x.getLsbD j = true := by
          cases hx : x.getLsbD j with
          | true => rfl
          | false => rw [hx, hy] at hne'; exact absurd rfl hne'
        have := Nat.lt_of_testBit' (x := y.toNat) (y := x.toNat) j
          (by rw [BitVec.testBit_toNat]; exact hy) (by rw [BitVec.testBit_toNat]; exact hx)
          (fun k hk => (habove' k hk).symm)
        omega
    · intro hy
      have hx : x.getLsbD j = false := by
        cases hx : x.getLsbD j with
        | false => rfl
        | true => rw [hx, hy] at hne'; exact absurd rfl hne'
      exact Nat.lt_of_testBit' j (by rw [BitVec.testBit_toNat]; exact hx)
        (by rw [BitVec.testBit_toNat]; exact hy) habove'

namespace Bitmap

/-! ### singlify -/

theorem firstNZ_none_zero (b : Bitmap) (h : b.firstNZ = none) (k : Nat) (hk : k < b.count) : b.readWord k = 0#64 := by
  have := lowest_none.mp h k hk
  simpa using this

theorem mem_singlify (b : Bitmap) (n : Nat) : b.singlify.mem n = decide (b.first = (n : Int)) := by
  unfold singlify first
  cases hf : b.firstNZ with
  | some i =>
    simp only
    obtain ⟨hic, hne, _⟩ := lowest_some.mp hf
    simp only [bne_iff_ne, ne_eq] at hne
    obtain ⟨f1, f2, _, _⟩ := ffsl_spec _ hne
    rw [mem_def, readWord_build]
    by_cases hk : n / 64 = i
    · simp only [hk, hic, if_true]
      rw [bitW_getLsbD _ _ (by omega)]
      have : (n % 64 = ffsl (b.readWord i) - 1) ↔ ((ffsl (b.readWord i) - 1 + 64 * i : Nat) : Int) = (n : Int) := by
        constructor
        · intro e; have : ffsl (b.readWord i) - 1 + 64 * i = n := by omega
          exact_mod_cast this
        · intro e; have : ffsl (b.readWord i) - 1 + 64 * i = n := by exact_mod_cast e
          omega
      exact decide_eq_decide.mpr this
    · have : ¬ (((ffsl (b.readWord i) - 1 + 64 * i : Nat) : Int) = (n : Int)) := by
        intro e; have : ffsl (b.readWord i) - 1 + 64 * i = n := by exact_mod_cast e
        omega
      simp only [hk, if_false, this, decide_false]
      split <;> simp
  | none =>
    simp only
    have hz := firstNZ_none_zero b hf
    split
    · rename_i hinf
      rw [mem_set, mem_def, readWord_setInf]
      have : ((b.count * 64 : Nat) : Int) = (n : Int) ↔ n = b.count * 64 := by
        constructor
        · intro e; have : b.count * 64 = n := by exact_mod_cast e
          omega
        · intro e; rw [e]
      have hd : decide (((b.count * 64 : Nat) : Int) = (n : Int)) = decide (n = b.count * 64) :=
        decide_eq_decide.mpr this
      rw [hd]
      split
      · rename_i hk; rw [hz _ hk]; simp
      · simp
    · rename_i hinf
      have hinf' : b.inf = false := by simpa using hinf
      have : ¬ ((-1 : Int) = (n : Int)) := by omega
      simp only [this, decide_false]
      by_cases hk : n / 64 < b.count
      · rw [mem_def, hz _ hk]; simp
      · rw [mem_of_ge b n (by omega), hinf']

theorem singlify_inv (b : Bitmap) (h : b.Inv) : b.singlify.Inv := by
  unfold singlify
  cases b.firstNZ with
  | some i => exact build_inv _ _ _ h
  | none =>
    simp only; split
    · exact set_inv _ _ (setInf_inv _ _ h)
    · exact h

/-! ### weight -/

theorem weightLong_eq (w : Word) : weightLong w = (List.range 64).countP (fun j => w.getLsbD j) := by
  unfold weightLong; rw [List.countP_eq_length_filter]

theorem words_weight (ws : List Word) :
    (ws.map weightLong).sum =
      (List.range (ws.length * 64)).countP (fun n => ((ws[n/64]?).getD 0#64).getLsbD (n % 64)) := by
  induction ws with
  | nil => simp
  | cons w ws ih =>
    have e : (w :: ws).length * 64 = 64 + ws.length * 64 := by simp; omega
    rw [e, List.range_add, List.countP_append, List.countP_map, List.map_cons, List.sum_cons, ih, weightLong_eq]
    have h1 : List.countP (fun j => w.getLsbD j) (List.range 64) =
        List.countP (fun n => (((w :: ws)[n/64]?).getD 0#64).getLsbD (n % 64)) (List.range 64) := by
      apply List.countP_congr
      intro x hx
      have hx' : x < 64 := by simpa using hx
      have e1 : x / 64 = 0 := by omega
      have e2 : x % 64 = x := by omega
      simp [e1, e2]
    have h2 : List.countP (fun n => ((ws[n/64]?).getD 0#64).getLsbD (n % 64)) (List.range (ws.length * 64)) =
        List.countP ((fun n => (((w :: ws)[n/64]?).getD 0#64).getLsbD (n % 64)) ∘ fun x => 64 + x)
          (List.range (ws.length * 64)) := by
      apply List.countP_congr
      intro x _
      have e1 : (64 + x) / 64 = x / 64 + 1 := by omega
      have e2 : (64 + x) % 64 = x % 64 := by omega
      simp [e1, e2]
    rw [h1, h2]

theorem weight_infinite (b : Bitmap) (h : b.inf = true) : b.weight = -1 := by simp [weight, h]

/-- the weight of a finite bitmap is the number of its members -/
theorem weight_finite (b : Bitmap) (h : b.inf = false) :
    b.weight = (((List.range (b.count * 64)).countP b.mem : Nat) : Int) := by
  unfold weight
  simp only [h, Bool.false_eq_true, if_false]
  rw [words_weight]
  congr 1
  apply List.countP_congr
  intro x _
  unfold mem readWord
  rw [h]; simp

/-- counting members below any bound that is above all members gives the same number -/
theorem countP_stable (S : Nat → Bool) (N M : Nat) (hNM : N ≤ M) (h : ∀ m, N ≤ m → S m = false) :
    (List.range M).countP S = (List.range N).countP S := by
  obtain ⟨d, rfl⟩ : ∃ d, M = N + d := ⟨M - N, by omega⟩
  rw [List.range_add, List.countP_append, List.countP_map]
  have : List.countP (S ∘ fun x => N + x) (List.range d) = 0 := by
    rw [List.countP_eq_zero]
    intro x _
    simp [h (N + x) (by omega)]
  omega

/-- `weight` as a function of the set only: any bound above all members will do -/
theorem weight_spec (b : Bitmap) (h : b.inf = false) (N : Nat) (hN : ∀ m, N ≤ m → b.mem m = false) :
    b.weight = (((List.range N).countP b.mem : Nat) : Int) := by
  rw [weight_finite b h]
  have hB : ∀ m, b.count * 64 ≤ m → b.mem m = false := fun m hm => by rw [mem_of_ge b m hm, h]
  congr 1
  rcases Nat.le_total N (b.count * 64) with hle | hle
  · exact countP_stable _ _ _ hle hN
  · exact (countP_stable _ _ _ hle hB).symm

/-! ### nr_ulongs -/

theorem nrUlongs_infinite (b : Bitmap) (h : b.inf = true) : b.nrUlongs = -1 := by simp [nrUlongs, h]
theorem nrUlongs_empty (b : Bitmap) (h : b.inf = false) (hl : b.last = -1) : b.nrUlongs = 0 := by
  unfold nrUlongs; simp only [h, Bool.false_eq_true, if_false, hl]; rfl
theorem nrUlongs_last (b : Bitmap) (h : b.inf = false) (l : Nat) (hl : b.last = (l : Int)) :
    b.nrUlongs = ((l / 64 + 1 : Nat) : Int) := by
  unfold nrUlongs; simp only [h, Bool.false_eq_true, if_false, hl]
  show (((l + 64) / 64 : Nat) : Int) = _
  congr 1; omega

/-! ### compare -/

/-- specification of `hwloc_bitmap_compare` on sets: the sign is decided at the highest index
where the sets differ; a set that is eventually full is above one that is eventually empty -/
def IsCompare (A B : Nat → Bool) (r : Int) : Prop :=
  (r = 0 ∧ ∀ n, A n = B n) ∨
  (r = -1 ∧ ((∃ n, B n = true ∧ A n = false ∧ ∀ m, n < m → A m = B m) ∨
             (∃ N, ∀ m, N ≤ m → B m = true ∧ A m = false))) ∨
  (r = 1 ∧ ((∃ n, A n = true ∧ B n = false ∧ ∀ m, n < m → A m = B m) ∨
             (∃ N, ∀ m, N ≤ m → A m = true ∧ B m = false)))

theorem IsCompare.unique {A B : Nat → Bool} {r r' : Int} (h : IsCompare A B r) (h' : IsCompare A B r') : r = r' := by
  -- the three alternatives are mutually exclusive
  have excl0 : (∀ n, A n = B n) →
      ((∃ n, B n = true ∧ A n = false ∧ ∀ m, n < m → A m = B m) ∨ (∃ N, ∀ m, N ≤ m → B m = true ∧ A m = false)) → False := by
    intro h0 h1
    rcases h1 with ⟨n, hb, ha, _⟩ | ⟨N, hN⟩
    · rw [h0 n, hb] at ha; cases ha
    · have := hN N (Nat.le_refl _); rw [h0 N, this.1] at this; cases this.2
  have excl0' : (∀ n, A n = B n) →
      ((∃ n, A n = true ∧ B n = false ∧ ∀ m, n < m → A m = B m) ∨ (∃ N, ∀ m, N ≤ m → A m = true ∧ B m = false)) → False := by
    intro h0 h1
    rcases h1 with ⟨n, ha, hb, _⟩ | ⟨N, hN⟩
    · rw [← h0 n, ha] at hb; cases hb
    · have := hN N (Nat.le_refl _); rw [← h0 N, this.1] at this; cases this.2
  have excl1 : ((∃ n, B n = true ∧ A n = false ∧ ∀ m, n < m → A m = B m) ∨ (∃ N, ∀ m, N ≤ m → B m = true ∧ A m = false)) →
      ((∃ n, A n = true ∧ B n = false ∧ ∀ m, n < m → A m = B m) ∨ (∃ N, ∀ m, N ≤ m → A m = true ∧ B m = false)) → False := by
    intro h1 h2
    rcases h1 with ⟨n1, hb1, ha1, ab1⟩ | ⟨N1, hN1⟩ <;> rcases h2 with ⟨n2, ha2, hb2, ab2⟩ | ⟨N2, hN2⟩
    · rcases Nat.lt_trichotomy n1 n2 with hlt | heq | hgt
      · have := ab1 n2 hlt; rw [ha2, hb2] at this; cases this
      · subst heq; rw [ha1] at ha2; cases ha2
      · have := ab2 n1 hgt; rw [ha1, hb1] at this; cases this
    · have h3 := hN2 (max N2 (n1 + 1)) (Nat.le_max_left _ _)
      have := ab1 (max N2 (n1 + 1)) (by omega)
      rw [h3.1, h3.2] at this; cases this
    · have h3 := hN1 (max N1 (n2 + 1)) (Nat.le_max_left _ _)
      have := ab2 (max N1 (n2 + 1)) (by omega)
      rw [h3.1, h3.2] at this; cases this
    · have h3 := hN1 (max N1 N2) (Nat.le_max_left _ _)
      have h4 := hN2 (max N1 N2) (Nat.le_max_right _ _)
      rw [h3.1] at h4; cases h4.2
  rcases h with ⟨e, h0⟩ | ⟨e, h1⟩ | ⟨e, h2⟩ <;> rcases h' with ⟨e', h0'⟩ | ⟨e', h1'⟩ | ⟨e', h2'⟩
  · rw [e, e']
  · exact (excl0 h0 h1').elim
  · exact (excl0' h0 h2').elim
  · exact (excl0 h0' h1).elim
  · rw [e, e']
  · exact (excl1 h1 h2').elim
  · exact (excl0' h0' h2).elim
  · exact (excl1 h1' h2).elim
  · rw [e, e']

theorem compare_spec (a b : Bitmap) : IsCompare a.mem b.mem (a.compare b) := by
  unfold compare
  split
  · rename_i hinf
    have hinf' : a.inf ≠ b.inf := by simpa using hinf
    split
    · rename_i ha
      have hb : b.inf = false := by cases hb : b.inf <;> simp_all
      refine Or.inr (Or.inr ⟨rfl, Or.inr ⟨max a.count b.count * 64, fun m hm => ?_⟩⟩)
      have h1 : a.count * 64 ≤ m := Nat.le_trans (Nat.mul_le_mul_right _ (Nat.le_max_left _ _)) hm
      have h2 : b.count * 64 ≤ m := Nat.le_trans (Nat.mul_le_mul_right _ (Nat.le_max_right _ _)) hm
      rw [mem_of_ge a m h1, mem_of_ge b m h2, ha, hb]; exact ⟨rfl, rfl⟩
    · rename_i ha
      have ha' : a.inf = false := by simpa using ha
      have hb : b.inf = true := by cases hb : b.inf <;> simp_all
      refine Or.inr (Or.inl ⟨rfl, Or.inr ⟨max a.count b.count * 64, fun m hm => ?_⟩⟩)
      have h1 : a.count * 64 ≤ m := Nat.le_trans (Nat.mul_le_mul_right _ (Nat.le_max_left _ _)) hm
      have h2 : b.count * 64 ≤ m := Nat.le_trans (Nat.mul_le_mul_right _ (Nat.le_max_right _ _)) hm
      rw [mem_of_ge a m h1, mem_of_ge b m h2, ha', hb]; exact ⟨rfl, rfl⟩
  · rename_i hinf
    have hinf' : a.inf = b.inf := by simpa using hinf
    have htail : ∀ k, max a.count b.count ≤ k → a.readWord k = b.readWord k := by
      intro k hk
      rw [readWord_ge a (by omega), readWord_ge b (by omega), hinf']
    cases hh : highest (fun i => a.readWord i != b.readWord i) (max a.count b.count) with
    | none =>
      simp only
      refine Or.inl ⟨rfl, ?_⟩
      rw [mem_ext_iff]
      intro k
      by_cases hk : k < max a.count b.count
      · have := highest_none.mp hh k hk; simpa using this
      · exact htail k (by omega)
    | some i =>
      simp only
      obtain ⟨hi, hne, hhigh⟩ := highest_some.mp hh
      have hne' : a.readWord i ≠ b.readWord i := by simpa using hne
      have habove : ∀ k, i < k → a.readWord k = b.readWord k := by
        intro k hk
        by_cases hk2 : k < max a.count b.count
        · have := hhigh k hk hk2; simpa using this
        · exact htail k (by omega)
      obtain ⟨j, hj, hdiff, hjabove, hlt⟩ := word_ne_highest _ _ hne'
      have hmemabove : ∀ m, 64 * i + j < m → a.mem m = b.mem m := by
        intro m hm
        by_cases hmi : m / 64 = i
        · rw [mem_def, mem_def, hmi]; exact hjabove _ (by omega)
        · rw [mem_def, mem_def, habove (m/64) (by omega)]
      rw [readWord_getLsbD _ _ _ hj, readWord_getLsbD _ _ _ hj] at hdiff
      split
      · rename_i hl
        have hbj := hlt.mp hl
        rw [readWord_getLsbD _ _ _ hj] at hbj
        have haj : a.mem (64 * i + j) = false := by
          cases h : a.mem (64 * i + j) with
          | false => rfl
          | true => rw [h, hbj] at hdiff; exact absurd rfl hdiff
        exact Or.inr (Or.inl ⟨rfl, Or.inl ⟨_, hbj, haj, hmemabove⟩⟩)
      · rename_i hl
        have hbj : b.mem (64 * i + j) = false := by
          cases h : b.mem (64 * i + j) with
          | false => rfl
          | true => rw [← readWord_getLsbD _ _ _ hj] at h; exact absurd (hlt.mpr h) hl
        have haj : a.mem (64 * i + j) = true := by
          cases h : a.mem (64 * i + j) with
          | true => rfl
          | false => rw [h, hbj] at hdiff; exact absurd rfl hdiff
        exact Or.inr (Or.inr ⟨rfl, Or.inl ⟨_, haj, hbj, hmemabove⟩⟩)

end Bitmap
end Hw
