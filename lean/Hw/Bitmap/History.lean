/-
  Hw.Bitmap.History — API histories over a pool of bitmap handles, the abstract set semantics
  they refine, and the invariant over every reachable pool.
-/
import Hw.Bitmap.Order
namespace Hw
namespace Bitmap

/-- the modifying part of the public bitmap API, over handles (`Nat`) into a pool -/
inductive Op
  | alloc (h : Nat) | allocFull (h : Nat) | dup (h s : Nat) | copy (h s : Nat)
  | zero (h : Nat) | fill (h : Nat) | only (h c : Nat) | allbut (h c : Nat)
  | fromUlong (h : Nat) (m : Word) | fromIthUlong (h i : Nat) (m : Word)
  | fromUlongs (h : Nat) (m : Word) (ms : List Word)          -- nr ≥ 1
  | set (h c : Nat) | clr (h c : Nat) | setIthUlong (h i : Nat) (m : Word)
  | setRange (h beg : Nat) (en : Option Nat) | clrRange (h beg : Nat) (en : Option Nat)
  | or (r a b : Nat) | and (r a b : Nat) | andnot (r a b : Nat) | xor (r a b : Nat) | not (r a : Nat)
  | singlify (h : Nat)

abbrev Pool := Nat → Bitmap

def Pool.upd (p : Pool) (h : Nat) (b : Bitmap) : Pool := fun k => if k = h then b else p k

/-- destination handle and new value of one API call (operands are read from the pool *before*
the call: that this is also what the C code computes when the destination aliases an operand is
the subject of `Hw.Bitmap.Alias`) -/
def Op.eval (p : Pool) : Op → Nat × Bitmap
  | .alloc h => (h, Bitmap.alloc)
  | .allocFull h => (h, Bitmap.allocFull)
  | .dup h s => (h, (p s).dup)
  | .copy h s => (h, (p h).copy (p s))
  | .zero h => (h, (p h).zero)
  | .fill h => (h, (p h).fill)
  | .only h c => (h, (p h).only c)
  | .allbut h c => (h, (p h).allbut c)
  | .fromUlong h m => (h, (p h).fromUlong m)
  | .fromIthUlong h i m => (h, (p h).fromIthUlong i m)
  | .fromUlongs h m ms => (h, (p h).fromUlongs (m :: ms))
  | .set h c => (h, (p h).set c)
  | .clr h c => (h, (p h).clr c)
  | .setIthUlong h i m => (h, (p h).setIthUlong i m)
  | .setRange h b e => (h, (p h).setRange b e)
  | .clrRange h b e => (h, (p h).clrRange b e)
  | .or r a b => (r, (p a).or (p b))
  | .and r a b => (r, (p a).and (p b))
  | .andnot r a b => (r, (p a).andnot (p b))
  | .xor r a b => (r, (p a).xor (p b))
  | .not r a => (r, (p a).not)
  | .singlify h => (h, (p h).singlify)

def step (p : Pool) (op : Op) : Pool := let (h, b) := op.eval p; p.upd h b

def run (p : Pool) (ops : List Op) : Pool := ops.foldl step p

/-- the pool every program starts from: every handle freshly allocated -/
def Pool.init : Pool := fun _ => Bitmap.alloc

theorem eval_inv (p : Pool) (hp : ∀ h, (p h).Inv) (op : Op) : (op.eval p).2.Inv := by
  cases op <;> simp only [Op.eval]
  · exact alloc_inv
  · exact allocFull_inv
  · exact hp _
  · exact hp _
  · exact zero_inv _
  · exact fill_inv _
  · exact only_inv _ _
  · exact allbut_inv _ _
  · exact fromUlong_inv _ _
  · exact fromIthUlong_inv _ _ _
  · exact fromUlongs_inv _ _ (by simp)
  · exact set_inv _ _ (hp _)
  · exact clr_inv _ _ (hp _)
  · exact setIthUlong_inv _ _ _ (hp _)
  · exact setRange_inv _ _ _ (hp _)
  · exact clrRange_inv _ _ _ (hp _)
  · exact or_inv _ _ (hp _) (hp _)
  · exact and_inv _ _ (hp _) (hp _)
  · exact andnot_inv _ _ (hp _) (hp _)
  · exact xor_inv _ _ (hp _) (hp _)
  · exact not_inv _ (hp _)
  · exact singlify_inv _ (hp _)

theorem step_inv (p : Pool) (hp : ∀ h, (p h).Inv) (op : Op) : ∀ h, ((step p op) h).Inv := by
  intro h
  unfold step Pool.upd
  simp only
  split
  · exact eval_inv p hp op
  · exact hp h

theorem run_inv (p : Pool) (hp : ∀ h, (p h).Inv) (ops : List Op) : ∀ h, ((run p ops) h).Inv := by
  induction ops generalizing p with
  | nil => exact hp
  | cons op ops ih => exact ih (step p op) (step_inv p hp op)

theorem init_inv : ∀ h, (Pool.init h).Inv := fun _ => alloc_inv

/-! ### the abstract semantics: sets of naturals as membership functions -/

abbrev SetPool := Nat → Nat → Bool

def Pool.abs (p : Pool) : SetPool := fun h n => (p h).mem n

/-- least element of a set given as a membership function, when an upper bound for it is known -/
def specEval (s : SetPool) (firstOf : Nat → Int) : Op → Nat × (Nat → Bool)
  | .alloc h => (h, fun _ => false)
  | .allocFull h => (h, fun _ => true)
  | .dup h x => (h, s x)
  | .copy h x => (h, s x)
  | .zero h => (h, fun _ => false)
  | .fill h => (h, fun _ => true)
  | .only h c => (h, fun n => decide (n = c))
  | .allbut h c => (h, fun n => !decide (n = c))
  | .fromUlong h m => (h, fun n => decide (n < 64) && m.getLsbD n)
  | .fromIthUlong h i m => (h, fun n => decide (n / 64 = i) && m.getLsbD (n % 64))
  | .fromUlongs h m ms => (h, fun n => (((m :: ms)[n/64]?).getD 0#64).getLsbD (n % 64))
  | .set h c => (h, fun n => s h n || decide (n = c))
  | .clr h c => (h, fun n => s h n && !decide (n = c))
  | .setIthUlong h i m => (h, fun n => if n / 64 = i then m.getLsbD (n % 64) else s h n)
  | .setRange h b none => (h, fun n => s h n || decide (b ≤ n))
  | .setRange h b (some e) => (h, fun n => s h n || (decide (b ≤ n) && decide (n ≤ e)))
  | .clrRange h b none => (h, fun n => s h n && !decide (b ≤ n))
  | .clrRange h b (some e) => (h, fun n => s h n && !(decide (b ≤ n) && decide (n ≤ e)))
  | .or r a b => (r, fun n => s a n || s b n)
  | .and r a b => (r, fun n => s a n && s b n)
  | .andnot r a b => (r, fun n => s a n && !s b n)
  | .xor r a b => (r, fun n => s a n != s b n)
  | .not r a => (r, fun n => !s a n)
  | .singlify h => (h, fun n => decide (firstOf h = (n : Int)))

/-- every API call computes, on the denoted sets, the mathematical operation it is named after -/
theorem eval_refines (p : Pool) (op : Op) :
    (op.eval p).1 = (specEval p.abs (fun h => (p h).first) op).1 ∧
    ∀ n, (op.eval p).2.mem n = (specEval p.abs (fun h => (p h).first) op).2 n := by
  cases op <;> simp only [Op.eval, specEval, Pool.abs, true_and]
  · exact mem_alloc
  · exact mem_allocFull
  · intro n; rfl
  · intro n; rfl
  · exact mem_zero _
  · exact mem_fill _
  · exact mem_only _ _
  · exact mem_allbut _ _
  · exact mem_fromUlong _ _
  · exact mem_fromIthUlong _ _ _
  · exact mem_fromUlongs _ _
  · exact mem_set _ _
  · exact mem_clr _ _
  · exact mem_setIthUlong _ _ _
  · rename_i h b e
    cases e with
    | none => exact ⟨rfl, mem_setRange_none _ _⟩
    | some e => exact ⟨rfl, mem_setRange_some _ _ _⟩
  · rename_i h b e
    cases e with
    | none => exact ⟨rfl, mem_clrRange_none _ _⟩
    | some e => exact ⟨rfl, mem_clrRange_some _ _ _⟩
  · exact mem_or _ _
  · exact mem_and _ _
  · exact mem_andnot _ _
  · exact mem_xor _ _
  · exact mem_not _
  · exact mem_singlify _

end Bitmap
end Hw
