/-
  Hw.Bitmap.ScanCursorDefined — for EVERY byte string (sign characters and huge numbers included, i.e.
  beyond the domain of the structural models) a cursor-level parser that returns 0 has written every word
  of the destination.
-/
import Hw.Bitmap.ScanCursorSafe
import Hw.Bitmap.ScanLemmas
namespace Hw
namespace Bitmap
namespace Cursor

/-- every word cell of an accepted result is defined -/
def CRes.defined (r : CRes) : Bool := r.toScan.defined

theorem hwlocLoopC_defined (s : List Byte) (nw : Nat) : ∀ fuel cur count accum ws infinite lg,
    DefinedFrom ws ((count + 1) / 2) →
    (hwlocLoopC s nw fuel cur count accum ws infinite lg).res.defined = true := by
  intro fuel
  induction fuel with
  | zero => intro cur count accum ws infinite lg _; rfl
  | succ f ih =>
    intro cur count accum ws infinite lg h
    unfold hwlocLoopC
    simp only
    split
    · rfl
    · rename_i hc
      have hstep : DefinedFrom
          (if (count - 1) % 2 = 0 then
            (setCell ws ((count - 1) / 2) (accum ||| BitVec.ofNat 64 (strtoulC 16 s cur).val <<< ((count - 1) * 32 % 64)), (0#64 : Word),
              (lg.rdRange cur (strtoulC 16 s cur).scanned).wr (((count - 1) / 2 : Nat) : Int) nw)
           else (ws, accum ||| BitVec.ofNat 64 (strtoulC 16 s cur).val <<< ((count - 1) * 32 % 64),
              lg.rdRange cur (strtoulC 16 s cur).scanned)).1 ((count - 1 + 1) / 2) := by
        split
        · have e1 : (count - 1 + 1) / 2 = (count - 1) / 2 := by omega
          rw [e1]
          apply definedFrom_setCell
          have e2 : (count - 1) / 2 + 1 = (count + 1) / 2 := by omega
          rw [e2]; exact h
        · have e1 : (count - 1 + 1) / 2 = (count + 1) / 2 := by omega
          rw [e1]; exact h
      split
      · exact ih _ _ _ _ _ _ hstep
      · split
        · rfl
        · rename_i hz
          have hz' : (count - 1 + 1) / 2 = 0 := by omega
          rw [hz'] at hstep
          exact definedFrom_zero_all _ hstep

theorem hwlocSscanfC_defined (s : List Byte) : (hwlocSscanfC s).res.defined = true := by
  unfold hwlocSscanfC
  simp only
  split
  · split
    · rfl
    · exact hwlocLoopC_defined _ _ _ _ _ _ _ _ _ (definedFrom_replicate _)
  · exact hwlocLoopC_defined _ _ _ _ _ _ _ _ _ (definedFrom_replicate _)

/-- every byte a scan passes over satisfies the predicate -/
theorem scanWhile_before (p : Byte → Bool) (s : List Byte) :
    ∀ fuel i j, i ≤ j → j < scanWhile p s fuel i → p (rd s j) = true := by
  intro fuel
  induction fuel with
  | zero => intro i j h1 h2; unfold scanWhile at h2; omega
  | succ f ih =>
    intro i j h1 h2
    unfold scanWhile at h2
    split at h2
    · rename_i hp
      by_cases e : j = i
      · rw [e]; exact hp
      · exact ih (i+1) j (by omega) h2
    · omega

theorem tasksetLoopC_defined (s : List Byte) (nw e : Nat) (hz : rd s e = 0) :
    ∀ fuel cur chars count ws infinite lg,
    cur + chars = e → (∀ j, cur ≤ j → j < e → rd s j ≠ 0) → count = (chars + 15) / 16 → DefinedFrom ws count →
    (tasksetLoopC s nw fuel cur chars count ws infinite lg).res.defined = true := by
  intro fuel
  induction fuel with
  | zero => intro cur chars count ws infinite lg _ _ _ _; rfl
  | succ f ih =>
    intro cur chars count ws infinite lg hce hnz hcount h
    unfold tasksetLoopC
    simp only
    split
    · rename_i hz0
      have hc0 : chars = 0 := by
        apply Classical.byContradiction
        intro hn
        exact hnz cur (Nat.le_refl _) (by omega) hz0
      have : count = 0 := by omega
      rw [this] at h
      exact definedFrom_zero_all _ h
    · rename_i hne
      have hpos : 0 < chars := by
        apply Classical.byContradiction
        intro hn
        have : cur = e := by omega
        rw [this] at hne; exact hne hz
      generalize ht : (if chars % 16 = 0 then 16 else chars % 16) = t
      split
      · rfl
      · have ht3 : t ≤ chars := by rw [← ht]; split <;> omega
        have ht1 : 1 ≤ t := by rw [← ht]; split <;> omega
        have ht2 : t ≤ 16 := by rw [← ht]; split <;> omega
        have ht4 : (chars - t) % 16 = 0 := by rw [← ht]; split <;> omega
        apply ih
        · omega
        · intro j hj1 hj2; exact hnz j (by omega) hj2
        · omega
        · have hc1 : count - 1 + 1 = count := by omega
          apply definedFrom_setCell
          rw [hc1]; exact h

theorem tasksetGoC_defined (s : List Byte) (cur : Nat) (infinite : Bool) (lg : Log) :
    (tasksetGoC s cur infinite lg).res.defined = true := by
  unfold tasksetGoC
  simp only
  have he1 := scanWhile_ge (fun c => c != 0) s (s.length + 1) cur
  have hbefore := scanWhile_before (fun c => c != 0) s (s.length + 1) cur
  by_cases hc : cur ≤ s.length
  · have hz : rd s (scanWhile (fun c => c != 0) s (s.length + 1) cur) = 0 := by
      have := scanWhile_stop (fun c => c != 0) (by decide) s (s.length + 1) cur (by omega)
      simpa using this
    generalize scanWhile (fun c => c != 0) s (s.length + 1) cur = e at he1 hbefore hz ⊢
    apply tasksetLoopC_defined s _ e hz
    · omega
    · intro j h1 h2
      have := hbefore j h1 h2
      simpa using this
    · omega
    · exact definedFrom_replicate _
  · -- cursor beyond the string (never the case in `tasksetSscanfC`): every byte reads as NUL
    have hz : rd s (scanWhile (fun c => c != 0) s (s.length + 1) cur) = 0 := rd_ge s _ (by omega)
    generalize scanWhile (fun c => c != 0) s (s.length + 1) cur = e at he1 hbefore hz ⊢
    apply tasksetLoopC_defined s _ e hz
    · omega
    · intro j h1 h2
      have := hbefore j h1 h2
      simpa using this
    · omega
    · exact definedFrom_replicate _

theorem tasksetSscanfC_defined (s : List Byte) : (tasksetSscanfC s).res.defined = true := by
  unfold tasksetSscanfC
  simp only
  split
  · split
    · rfl
    · exact tasksetGoC_defined _ _ _ _
  · generalize (if (strncmpC s 0 pat_0x (strncmpC s 0 pat_inf Log.empty).2).1 = true then 2 else 0) = cu
    split
    · rfl
    · exact tasksetGoC_defined _ _ _ _

theorem okOf_defined (b : Option Bitmap) : (okOf b).defined = true := by
  cases b with
  | none => rfl
  | some b => exact map_some_all _

theorem listLoopC_defined (s : List Byte) : ∀ fuel cur b beg big lg,
    (listLoopC s fuel cur b beg big lg).res.defined = true := by
  intro fuel
  induction fuel with
  | zero => intro cur b beg big lg; rfl
  | succ f ih =>
    intro cur b beg big lg
    unfold listLoopC
    simp only
    split
    · exact okOf_defined _
    · split
      · rfl
      · split
        · split
          · exact okOf_defined _
          · exact ih _ _ _ _ _
        · split
          · split
            · exact okOf_defined _
            · exact ih _ _ _ _ _
          · split
            · split
              · exact okOf_defined _
              · exact ih _ _ _ _ _
            · split
              · exact okOf_defined _
              · exact ih _ _ _ _ _

theorem listSscanfC_defined (s : List Byte) : (listSscanfC s).res.defined = true :=
  listLoopC_defined s _ _ _ _ _ _

end Cursor
end Bitmap
end Hw
