/-
  Hw.Bitmap.Queries — boolean queries characterised by `mem` only.
-/
import Hw.Bitmap.Combine
namespace Hw

theorem word_ne_zero_exists (w : Word) (h : w ≠ 0#64) : ∃ j, j < 64 ∧ w.getLsbD j = true := by
  have ⟨h1, h2, h3, _⟩ := ffsl_spec w h
  exact ⟨ffsl w - 1, by omega, h3⟩

theorem word_eq_allOnes_iff (w : Word) : w = BitVec.allOnes 64 ↔ ∀ j, j < 64 → w.getLsbD j = true := by
  constructor
  · intro h j hj; subst h; simp only [BitVec.getLsbD_allOnes, hj, decide_true]
  · intro h
    apply BitVec.eq_of_getLsbD_eq
    intro i hi
    simp only [BitVec.getLsbD_allOnes, hi, decide_true, h i hi]

namespace Bitmap

theorem words_all_iff (b : Bitmap) (p : Word → Bool) :
    b.words.all p = true ↔ ∀ i, i < b.count → p (b.readWord i) = true := by
  rw [List.all_eq_true]
  constructor
  · intro h i hi
    rw [readWord_lt b hi]
    exact h _ (List.getElem_mem _)
  · intro h w hw
    obtain ⟨i, hi, e⟩ := List.getElem_of_mem hw
    have := h i hi
    rw [readWord_lt b hi, e] at this
    exact this

theorem readWord_zero_iff (b : Bitmap) (k : Nat) :
    b.readWord k = 0#64 ↔ ∀ j, j < 64 → b.mem (64 * k + j) = false := by
  rw [word_eq_zero_iff]
  constructor
  · intro h j hj; rw [← readWord_getLsbD b k j hj]; exact h j hj
  · intro h j hj; rw [readWord_getLsbD b k j hj]; exact h j hj

theorem readWord_full_iff (b : Bitmap) (k : Nat) :
    b.readWord k = BitVec.allOnes 64 ↔ ∀ j, j < 64 → b.mem (64 * k + j) = true := by
  rw [word_eq_allOnes_iff]
  constructor
  · intro h j hj; rw [← readWord_getLsbD b k j hj]; exact h j hj
  · intro h j hj; rw [readWord_getLsbD b k j hj]; exact h j hj

theorem iszero_iff (b : Bitmap) : b.iszero = true ↔ ∀ n, b.mem n = false := by
  unfold iszero
  rw [Bool.and_eq_true, words_all_iff]
  constructor
  · intro ⟨hinf, hall⟩ n
    have hinf' : b.inf = false := by simpa using hinf
    by_cases hk : n / 64 < b.count
    · have := hall (n/64) hk
      simp only [beq_iff_eq] at this
      rw [mem_def, this]; simp
    · rw [mem_of_ge b n (by omega), hinf']
  · intro h
    refine ⟨?_, ?_⟩
    · have := h (b.count * 64)
      rw [mem_of_ge b _ (Nat.le_refl _)] at this
      simp [this]
    · intro i _
      simp only [beq_iff_eq]
      exact (readWord_zero_iff b i).mpr (fun j _ => h _)

theorem isfull_iff (b : Bitmap) : b.isfull = true ↔ ∀ n, b.mem n = true := by
  unfold isfull
  rw [Bool.and_eq_true, words_all_iff]
  constructor
  · intro ⟨hinf, hall⟩ n
    by_cases hk : n / 64 < b.count
    · have := hall (n/64) hk
      simp only [beq_iff_eq] at this
      rw [mem_def, this]
      simp only [BitVec.getLsbD_allOnes, Nat.mod_lt n (by omega : 0 < 64), decide_true]
    · rw [mem_of_ge b n (by omega), hinf]
  · intro h
    refine ⟨?_, ?_⟩
    · have := h (b.count * 64)
      rw [mem_of_ge b _ (Nat.le_refl _)] at this
      exact this
    · intro i _
      simp only [beq_iff_eq]
      exact (readWord_full_iff b i).mpr (fun j _ => h _)

theorem range_all_iff (n : Nat) (p : Nat → Bool) :
    (List.range n).all p = true ↔ ∀ i, i < n → p i = true := by
  simp [List.all_eq_true]

theorem range_any_iff (n : Nat) (p : Nat → Bool) :
    (List.range n).any p = true ↔ ∃ i, i < n ∧ p i = true := by
  simp [List.any_eq_true]

theorem isequal_iff (a b : Bitmap) : a.isequal b = true ↔ ∀ n, a.mem n = b.mem n := by
  rw [mem_ext_iff]
  unfold isequal
  rw [Bool.and_eq_true, range_all_iff]
  constructor
  · intro ⟨hall, hinf⟩ k
    have hinf' : a.inf = b.inf := by simpa using hinf
    by_cases hk : k < max a.count b.count
    · simpa using hall k hk
    · rw [readWord_ge a (by omega), readWord_ge b (by omega), hinf']
  · intro h
    exact ⟨fun i _ => by simpa using h i, by simpa using readWord_eq_imp_inf a b h⟩

theorem intersects_iff (a b : Bitmap) : a.intersects b = true ↔ ∃ n, a.mem n = true ∧ b.mem n = true := by
  unfold intersects
  rw [Bool.or_eq_true, range_any_iff]
  constructor
  · intro h
    rcases h with ⟨i, _, hi⟩ | hinf
    · have hne : a.readWord i &&& b.readWord i ≠ 0#64 := by simpa using hi
      obtain ⟨j, hj, hb⟩ := word_ne_zero_exists _ hne
      rw [BitVec.getLsbD_and, Bool.and_eq_true, readWord_getLsbD _ _ _ hj, readWord_getLsbD _ _ _ hj] at hb
      exact ⟨_, hb⟩
    · rw [Bool.and_eq_true] at hinf
      refine ⟨max a.count b.count * 64, ?_, ?_⟩
      · rw [mem_of_ge a _ (Nat.mul_le_mul_right _ (Nat.le_max_left _ _))]; exact hinf.1
      · rw [mem_of_ge b _ (Nat.mul_le_mul_right _ (Nat.le_max_right _ _))]; exact hinf.2
  · intro ⟨n, ha, hb⟩
    by_cases hk : n / 64 < max a.count b.count
    · left
      refine ⟨n / 64, hk, ?_⟩
      have : (a.readWord (n/64) &&& b.readWord (n/64)).getLsbD (n % 64) = true := by
        rw [BitVec.getLsbD_and, ← mem_def, ← mem_def, ha, hb]; rfl
      have hne : a.readWord (n/64) &&& b.readWord (n/64) ≠ 0#64 := by
        intro e; rw [e] at this; simp at this
      simpa using hne
    · right
      rw [mem_of_ge a n (by omega)] at ha
      rw [mem_of_ge b n (by omega)] at hb
      simp [ha, hb]

theorem word_incl_iff (x y : Word) : (y == (y ||| x)) = true ↔ ∀ j, j < 64 → x.getLsbD j = true → y.getLsbD j = true := by
  rw [beq_iff_eq]
  constructor
  · intro h j _ hx
    have := congrArg (fun w => w.getLsbD j) h
    simp only [BitVec.getLsbD_or, hx, Bool.or_true] at this
    exact this
  · intro h
    apply BitVec.eq_of_getLsbD_eq
    intro i hi
    rw [BitVec.getLsbD_or]
    cases hx : x.getLsbD i
    · simp
    · simp [h i hi hx]

theorem isincluded_iff (sub sup : Bitmap) :
    sub.isincluded sup = true ↔ ∀ n, sub.mem n = true → sup.mem n = true := by
  unfold isincluded
  rw [Bool.and_eq_true, range_all_iff]
  constructor
  · intro ⟨hall, hinf⟩ n hn
    by_cases hk : n / 64 < max sub.count sup.count
    · have := (word_incl_iff _ _).mp (hall (n/64) hk) (n % 64) (Nat.mod_lt _ (by omega))
      exact this hn
    · rw [mem_of_ge sub n (by omega)] at hn
      rw [mem_of_ge sup n (by omega)]
      rw [hn] at hinf
      simpa using hinf
  · intro h
    refine ⟨?_, ?_⟩
    · intro i _
      rw [word_incl_iff]
      intro j hj hx
      rw [readWord_getLsbD _ _ _ hj] at hx ⊢
      exact h _ hx
    · have := h (max sub.count sup.count * 64)
      rw [mem_of_ge sub _ (Nat.mul_le_mul_right _ (Nat.le_max_left _ _)),
          mem_of_ge sup _ (Nat.mul_le_mul_right _ (Nat.le_max_right _ _))] at this
      cases hs : sub.inf <;> cases hp : sup.inf <;> simp_all

theorem isset_eq (b : Bitmap) (n : Nat) : b.isset n = b.mem n := rfl

theorem toIthUlong_getLsbD (b : Bitmap) (k j : Nat) (hj : j < 64) :
    (b.toIthUlong k).getLsbD j = b.mem (64 * k + j) := readWord_getLsbD b k j hj

theorem toUlong_getLsbD (b : Bitmap) (j : Nat) (hj : j < 64) : b.toUlong.getLsbD j = b.mem j := by
  have := readWord_getLsbD b 0 j hj
  simpa [toUlong] using this

theorem toUlongs_length (b : Bitmap) (nr : Nat) : (b.toUlongs nr).length = nr := by simp [toUlongs]
theorem toUlongs_getElem (b : Bitmap) (nr k : Nat) (h : k < nr) :
    (b.toUlongs nr)[k]'(by simp [toUlongs, h]) = b.toIthUlong k := by
  simp [toUlongs, toIthUlong]

end Bitmap
end Hw
