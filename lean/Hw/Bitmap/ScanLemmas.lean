/-
  Hw.Bitmap.ScanLemmas — every parser returns a fully defined destination when it returns 0.
-/
import Hw.Bitmap.Scan
namespace Hw
namespace Bitmap

/-- all cells with index ≥ k are written -/
def DefinedFrom (ws : List (Option Word)) (k : Nat) : Prop := ∀ i, k ≤ i → i < ws.length → (ws[i]?).bind id ≠ none

theorem definedFrom_zero_all (ws : List (Option Word)) (h : DefinedFrom ws 0) : ws.all Option.isSome = true := by
  rw [List.all_eq_true]
  intro x hx
  obtain ⟨i, hi, e⟩ := List.getElem_of_mem hx
  have := h i (Nat.zero_le _) hi
  rw [List.getElem?_eq_getElem hi, e] at this
  cases x with
  | none => simp at this
  | some _ => rfl

theorem setCell_length (ws : List (Option Word)) (i : Nat) (w : Word) : (setCell ws i w).length = ws.length := by
  simp [setCell]

theorem definedFrom_setCell (ws : List (Option Word)) (k : Nat) (w : Word) (h : DefinedFrom ws (k + 1)) :
    DefinedFrom (setCell ws k w) k := by
  intro i hk hi
  rw [setCell_length] at hi
  unfold setCell
  by_cases e : i = k
  · subst e; simp [List.getElem?_set_self hi]
  · rw [List.getElem?_set_ne (by omega)]
    exact h i (by omega) hi

theorem definedFrom_setCell_above (ws : List (Option Word)) (k j : Nat) (w : Word) (h : DefinedFrom ws k) :
    DefinedFrom (setCell ws j w) k := by
  intro i hk hi
  rw [setCell_length] at hi
  unfold setCell
  by_cases e : j = i
  · subst e; simp [List.getElem?_set_self hi]
  · rw [List.getElem?_set_ne e]
    exact h i hk hi

theorem definedFrom_replicate (n : Nat) : DefinedFrom (List.replicate n (none : Option Word)) n := by
  intro i hk hi; simp at hi; omega

/-! ### hwloc format -/

theorem hwlocLoop_defined (fuel : Nat) (cur : List Byte) (count : Nat) (accum : Word)
    (ws : List (Option Word)) (infinite : Bool) (h : DefinedFrom ws ((count + 1) / 2)) :
    (hwlocLoop fuel cur count accum ws infinite).defined = true := by
  induction fuel generalizing cur count accum ws with
  | zero => rfl
  | succ fuel ih =>
    unfold hwlocLoop
    cases hs : strtoul 16 cur with
    | unsupported => rfl
    | ok val next =>
      simp only
      split
      · rfl
      · rename_i hc
        -- the cells after this iteration
        have hstep : DefinedFrom
            (if (count - 1) % 2 = 0 then
              (setCell ws ((count - 1) / 2) (accum ||| BitVec.ofNat 64 val <<< ((count - 1) * 32 % 64)), (0#64 : Word))
             else (ws, accum ||| BitVec.ofNat 64 val <<< ((count - 1) * 32 % 64))).1 ((count - 1 + 1) / 2) := by
          split
          · rename_i hev
            have e1 : (count - 1 + 1) / 2 = (count - 1) / 2 := by omega
            rw [e1]
            apply definedFrom_setCell
            have e2 : (count - 1) / 2 + 1 = (count + 1) / 2 := by omega
            rw [e2]; exact h
          · rename_i hod
            have e1 : (count - 1 + 1) / 2 = (count + 1) / 2 := by omega
            rw [e1]; exact h
        split
        · exact ih _ _ _ _ hstep
        · split
          · rfl
          · rename_i hz
            have hz' : (count - 1 + 1) / 2 = 0 := by omega
            rw [hz'] at hstep
            exact definedFrom_zero_all _ hstep
        · rfl

theorem hwlocScan_defined (s : List Byte) : (hwlocScan s).defined = true := by
  unfold hwlocScan
  simp only
  split
  · split
    · exact hwlocLoop_defined _ _ _ _ _ _ (definedFrom_replicate _)
    · rfl
  · exact hwlocLoop_defined _ _ _ _ _ _ (definedFrom_replicate _)

/-! ### taskset format -/

theorem tasksetLoop_defined (fuel : Nat) (cur : List Byte) (chars count : Nat)
    (ws : List (Option Word)) (infinite : Bool)
    (hlen : cur.length = chars) (hcount : count = (chars + 15) / 16) (h : DefinedFrom ws count) :
    (tasksetLoop fuel cur chars count ws infinite).defined = true := by
  induction fuel generalizing cur chars count ws with
  | zero => rfl
  | succ fuel ih =>
    unfold tasksetLoop
    cases cur with
    | nil =>
      simp only
      have : chars = 0 := by simpa using hlen.symm
      have hc0 : count = 0 := by omega
      rw [hc0] at h
      exact definedFrom_zero_all _ h
    | cons c cs =>
      simp only
      cases hs : strtoul 16 ((c :: cs).take (if chars % 16 = 0 then 16 else chars % 16)) with
      | unsupported => rfl
      | ok val next =>
        simp only
        split
        · rfl
        · have hpos : 0 < chars := by rw [← hlen]; simp
          apply ih
          · rw [List.length_drop, hlen]
          · split <;> omega
          · have hc1 : count - 1 + 1 = count := by omega
            apply definedFrom_setCell
            rw [hc1]; exact h

theorem tasksetGo_defined (cur : List Byte) (infinite : Bool) : (tasksetGo cur infinite).defined = true := by
  unfold tasksetGo
  simp only
  apply tasksetLoop_defined
  · rfl
  · omega
  · exact definedFrom_replicate _

theorem tasksetScan_defined (s : List Byte) : (tasksetScan s).defined = true := by
  unfold tasksetScan
  split
  · split
    · rfl
    · exact tasksetGo_defined _ _
  · split
    · split
      · rfl
      · exact tasksetGo_defined _ _
    · split
      · rfl
      · exact tasksetGo_defined _ _

/-! ### list format -/

theorem map_some_all (ws : List Word) : (ws.map some).all Option.isSome = true := by
  induction ws with
  | nil => rfl
  | cons w ws ih => simp [ih]

theorem listLoop_defined (fuel : Nat) (cur : List Byte) (b : Bitmap) (beg : Option Nat) :
    (listLoop fuel cur b beg).defined = true := by
  induction fuel generalizing cur b beg with
  | zero => rfl
  | succ fuel ih =>
    unfold listLoop
    cases cur with
    | nil => exact map_some_all _
    | cons c cs =>
      simp only
      cases hs : strtoul 0 ((c :: cs).dropWhile (fun c => c == 44 || c == 32)) with
      | unsupported => rfl
      | ok val next =>
        simp only
        split
        · rfl
        · split
          · rfl
          · generalize listStep b beg val next = r
            split
            · exact map_some_all _
            · cases next with
              | nil => exact map_some_all _
              | cons x rest => exact ih _ _ _

theorem listScan_defined (s : List Byte) : (listScan s).defined = true := listLoop_defined _ _ _ _

end Bitmap
end Hw
