/-
  Hw.Bitmap.ScanCursor — cursor-level models of `hwloc_bitmap_sscanf`, `hwloc_bitmap_list_sscanf`
  and `hwloc_bitmap_taskset_sscanf` (hwloc/bitmap.c 375–447, 513–566, 669–739) exactly as the C
  walks the string.

  The input is a byte list `s`; the memory the C sees is `s ++ [NUL]` (an allocation of
  `s.length + 1` bytes).  Every character access goes through `rd s i` and is recorded in the read
  log (`Log.reads`); the index `s.length` is the terminating NUL, anything larger is an
  out-of-bounds read.  Every store into `set->ulongs[]` is recorded with the `ulongs_count` that
  `hwloc_bitmap_reset_by_ulongs` established (`Log.writes`, the index is an `Int` because the C
  computes `count-1`), every store into the 17-byte `ustr` scratch buffer in `Log.ustr`.

  libc is modelled by small functions that log the indexes libc reads:
  `strchr` (up to and including the match or the NUL), `strncmp` against a NUL-free literal (up to
  and including the first mismatch), `strlen`, `memcpy`, and `strtoul` (white space, optional sign,
  optional `0x`, digits, up to and including the first byte that stops the digit loop; the value and
  `endptr` follow glibc, including a sign: the value is negated modulo 2^64 unless it overflowed).

  Embedded NUL bytes in `s` are allowed: every scan stops at the first one exactly as the C does.
-/
import Hw.Bitmap.Scan
namespace Hw
namespace Bitmap
namespace Cursor

/-- the byte at index `i` of the NUL-terminated string; (out-of-bounds indexes read as NUL too, but
they are logged and the safety theorems show they never occur) -/
def rd (s : List Byte) (i : Nat) : Byte := s.getD i 0

structure Log where
  reads : List Nat            -- indexes into the input string
  writes : List (Int × Nat)   -- (index into set->ulongs[], ulongs_count at that time)
  ustr : List Nat             -- indexes into `char ustr[17]` (taskset parser)
deriving Repr

def Log.empty : Log := ⟨[], [], []⟩
def Log.rd (lg : Log) (i : Nat) : Log := { lg with reads := i :: lg.reads }
/-- `k` consecutive reads starting at `i` -/
def Log.rdRange (lg : Log) (i k : Nat) : Log := { lg with reads := (List.range k).map (i + ·) ++ lg.reads }
def Log.wr (lg : Log) (i : Int) (cnt : Nat) : Log := { lg with writes := (i, cnt) :: lg.writes }
def Log.uwRange (lg : Log) (k : Nat) : Log := { lg with ustr := List.range k ++ lg.ustr }
def Log.uw (lg : Log) (i : Nat) : Log := { lg with ustr := i :: lg.ustr }

/-- result of a parser run -/
inductive CRes
  | ok (words : List (Option Word)) (inf : Bool)   -- return 0
  | fail                                           -- return -1, destination zeroed
  | assertFail                                     -- `assert(count > 0)` of hwloc_bitmap_sscanf fired
  | okBig                                          -- list format: return 0, but an index ≥ 2^21 went into a bitmap call (set not modelled)
deriving Repr, DecidableEq

structure Out where
  res : CRes
  log : Log
  nalloc : Nat      -- the count handed to `hwloc_bitmap_reset_by_ulongs` (1 on the fill/zero paths; 0 = not applicable)
  big : Bool        -- list format: some strtoul returned a value ≥ 2^21 (outside the set-level domain)
deriving Repr

/-- the view of the old structural models -/
def CRes.toScan : CRes → ScanRes
  | .ok ws inf => .ok ws inf
  | .fail => .fail
  | .assertFail => .fail
  | .okBig => .unsupported

/-! ### allocation sizing (`hwloc_bitmap_enlarge_by_ulongs`) -/

/-- `1U << hwloc_flsl(needed - 1)` -/
def pow2ceil (needed : Nat) : Nat := if needed ≤ 1 then 1 else 2 ^ (Nat.log2 (needed - 1) + 1)
/-- `ulongs_allocated` after `hwloc_bitmap_reset_by_ulongs(set, needed)` when it was `prev` before -/
def allocFor (prev needed : Nat) : Nat := if pow2ceil needed > prev then pow2ceil needed else prev

/-! ### scanning primitives -/

/-- `while (p(s[i])) i++` : the index where the loop stops.  Every `p` used is false on NUL. -/
def scanWhile (p : Byte → Bool) (s : List Byte) : Nat → Nat → Nat
  | 0, i => i
  | fuel+1, i => if p (rd s i) then scanWhile p s fuel (i+1) else i

/-- number of leading bytes of `pat` that equal the string at `i` (`strncmp` walks exactly these plus the first mismatch) -/
def matchLen (s : List Byte) : Nat → List Byte → Nat
  | _, [] => 0
  | i, c :: cs => if rd s i = c then 1 + matchLen s (i+1) cs else 0

/-- `strncmp(pat, s+i, pat.length)` for a NUL-free literal: (equal?, log) -/
def strncmpC (s : List Byte) (i : Nat) (pat : List Byte) (lg : Log) : Bool × Log :=
  let m := matchLen s i pat
  (m == pat.length, lg.rdRange i (if m = pat.length then m else m + 1))

/-! ### strtoul -/

/-- base / prefix selection of strtoul after white space and sign (same decision structure as
`Hw.strtoul`): the base and the place where the digit loop starts -/
def strtoPrefix (base : Nat) (s1 : List Byte) : Nat × List Byte :=
  match s1 with
  | 48 :: x :: d :: r =>
    if (x == 120 || x == 88) && isDigitIn 16 d && (base == 16 || base == 0) then (16, d :: r)
    else if base == 0 then (8, s1) else (base, s1)
  | 48 :: _ => if base == 0 then (8, s1) else (base, s1)
  | _ => if base == 0 then (10, s1) else (base, s1)

/-- the part of strtoul after white space and sign: `s1` is what follows them, `neg` the sign -/
def strtoCore (base : Nat) (l s1 : List Byte) (neg : Bool) : Nat × Nat :=
  let bs := strtoPrefix base s1
  let t := takeDigits bs.1 bs.2 0 0
  if t.2.1 = 0 then (0, 0)
  else ((if t.1 > ulongMax then ulongMax else if neg then (2^64 - t.1) % 2^64 else t.1), l.length - t.2.2.length)

/-- value and `endptr - nptr` of `strtoul(l, &end, base)`, total (signs included) -/
def strtoulL (base : Nat) (l : List Byte) : Nat × Nat :=
  match l.dropWhile isSpace with
  | 45 :: r => strtoCore base l r true
  | 43 :: r => strtoCore base l r false
  | s1 => strtoCore base l s1 false

/-- number of bytes libc reads, starting at `i` (contiguous): white space, sign, `0x`, digits, and
the byte that stops the digit loop -/
def strtoScanned (base : Nat) (s : List Byte) (i : Nat) : Nat :=
  let fuel := s.length + 1
  let p := scanWhile isSpace s fuel i
  let q := if rd s p = 45 ∨ rd s p = 43 then p + 1 else p
  let hasX : Bool := rd s q == 48 && (rd s (q+1) == 120 || rd s (q+1) == 88) && (base == 16 || base == 0)
  let b := if hasX then 16 else if base == 0 then (if rd s q = 48 then 8 else 10) else base
  let d0 := if hasX then q + 2 else q
  let e := scanWhile (isDigitIn b) s fuel d0
  e + 1 - i

structure Strto where
  val : Nat
  adv : Nat
  scanned : Nat

def strtoulC (base : Nat) (s : List Byte) (i : Nat) : Strto :=
  let r := strtoulL base (s.drop i)
  ⟨r.1, r.2, strtoScanned base s i⟩

/-! ### hwloc format -/

/-- the comma-counting pre-pass: `while ((current = strchr(current, ',')) != NULL) { count++; current++; }` -/
def commaPass (s : List Byte) : Nat → Nat → Nat → Log → Nat × Log
  | 0, _, count, lg => (count, lg)        -- unreachable: fuel = length + 1
  | fuel+1, cur, count, lg =>
    let j := scanWhile (fun c => c != 44 && c != 0) s (s.length + 1) cur     -- strchr
    let lg := lg.rdRange cur (j + 1 - cur)
    if rd s j = 44 then commaPass s fuel (j + 1) (count + 1) lg else (count, lg)

def pat_inf : List Byte := [48, 120, 102, 46, 46, 46, 102]     -- "0xf...f"
def pat_0x : List Byte := [48, 120]                              -- "0x"

/-- main loop of `hwloc_bitmap_sscanf`; `nw` = `ulongs_count` after the reset; fuel = `count`
(so fuel 0 is exactly the state in which the assert fires) -/
def hwlocLoopC (s : List Byte) (nw : Nat) : Nat → Nat → Nat → Word → List (Option Word) → Bool → Log → Out
  | 0, cur, _, _, _, _, lg =>
    ⟨.assertFail, lg.rdRange cur (strtoulC 16 s cur).scanned, nw, false⟩
  | fuel+1, cur, count, accum, ws, infinite, lg =>
    let r := strtoulC 16 s cur
    let lg := lg.rdRange cur r.scanned
    let next := cur + r.adv
    if count = 0 then ⟨.assertFail, lg, nw, false⟩ else
    let count := count - 1
    let accum := accum ||| (BitVec.ofNat 64 r.val <<< ((count * 32) % 64))
    let st : List (Option Word) × Word × Log :=
      if count % 2 = 0 then (setCell ws (count / 2) accum, 0#64, lg.wr ((count / 2 : Nat) : Int) nw) else (ws, accum, lg)
    let lg := st.2.2.rd next
    if rd s next = 44 then hwlocLoopC s nw fuel (next + 1) count st.2.1 st.1 infinite lg
    else if rd s next ≠ 0 ∨ count > 0 then ⟨.fail, lg.wr 0 1, nw, false⟩     -- hwloc_bitmap_zero
    else ⟨.ok st.1 infinite, lg, nw, false⟩

def hwlocSscanfC (s : List Byte) : Out :=
  let cp := commaPass s (s.length + 1) 0 1 Log.empty
  let count := cp.1
  let m := strncmpC s 0 pat_inf cp.2
  if m.1 then
    let lg := m.2.rd 7
    if rd s 7 ≠ 44 then ⟨.ok [some (BitVec.allOnes 64)] true, lg.wr 0 1, 1, false⟩     -- hwloc_bitmap_fill
    else
      let count := count - 1
      let ulongcount := (count + 1) / 2
      let accum : Word := if count % 2 ≠ 0 then BitVec.ofNat 64 (0xFFFFFFFF <<< 32) else 0#64
      hwlocLoopC s ulongcount count 8 count accum (List.replicate ulongcount none) true lg
  else
    let ulongcount := (count + 1) / 2
    hwlocLoopC s ulongcount count 0 count 0#64 (List.replicate ulongcount none) false m.2

/-! ### list format -/

/-- the `long val` of the C seen as an unsigned 64-bit number; `begin = -1` is `none` -/
def begOf (val : Nat) : Option Nat := if val = 2^64 - 1 then none else some val

def okOf (b : Option Bitmap) : CRes :=
  match b with
  | some b => .ok (b.words.map some) b.inf
  | none => .okBig

/-- `hwloc_bitmap_list_sscanf`.  (Stores into `ulongs[]` other than those of `hwloc_bitmap_zero` happen inside
`hwloc_bitmap_set` / `hwloc_bitmap_set_range`, which are the C03 models `Bitmap.set` / `Bitmap.setRange`.)  The set built so far is `none` once an index ≥ 2^21 went into a
bitmap call (the walk over the string goes on; `hwloc_bitmap_set_range` is assumed not to fail:
no allocation failure). -/
def listLoopC (s : List Byte) : Nat → Nat → Option Bitmap → Option Nat → Bool → Log → Out
  | 0, _, _, _, big, lg => ⟨.fail, lg, 0, big⟩           -- unreachable: fuel = length + 1
  | fuel+1, cur, b, beg, big, lg =>
    let lg := lg.rd cur                                        -- while (*current != '\0')
    if rd s cur = 0 then ⟨okOf b, lg, 0, big⟩ else
    let c1 := scanWhile (fun c => c == 44 || c == 32) s (s.length + 1) cur     -- ignore empty ranges
    let lg := lg.rdRange cur (c1 + 1 - cur)
    let r := strtoulC 0 s c1
    let lg := lg.rdRange c1 r.scanned
    let next := c1 + r.adv
    if r.adv = 0 then ⟨.fail, lg.wr 0 1, 0, big⟩ else            -- next == current: failed, hwloc_bitmap_zero
    let isBig := decide (listMaxIndex ≤ r.val)
    let big := big || isBig
    let b := if isBig then none else b
    match beg with
    | some b0 =>
      -- finishing a range
      let b := b.map (fun b => b.setRange b0 (some r.val))
      let lg := lg.rd next
      if rd s next = 0 then ⟨okOf b, lg, 0, big⟩ else listLoopC s fuel (next + 1) b none big lg
    | none =>
      let lg := lg.rd next
      if rd s next = 45 then
        let lg := lg.rd (next + 1)
        if rd s (next + 1) = 0 then ⟨okOf (b.map (fun b => b.setRange r.val none)), lg, 0, big⟩     -- infinite range; break
        else listLoopC s fuel (next + 1) b (begOf r.val) big lg
      else if rd s next = 44 ∨ rd s next = 32 ∨ rd s next = 0 then
        let b := b.map (fun b => b.set r.val)
        if rd s next = 0 then ⟨okOf b, lg, 0, big⟩ else listLoopC s fuel (next + 1) b none big lg
      else
        if rd s next = 0 then ⟨okOf b, lg, 0, big⟩ else listLoopC s fuel (next + 1) b none big lg

def listSscanfC (s : List Byte) : Out :=
  listLoopC s (s.length + 1) 0 (some ⟨[0#64], false⟩) none false (Log.empty.wr 0 1)     -- hwloc_bitmap_zero

/-! ### taskset format -/

/-- loop of `hwloc_bitmap_taskset_sscanf`; `nw` = `ulongs_count` after the reset -/
def tasksetLoopC (s : List Byte) (nw : Nat) : Nat → Nat → Nat → Nat → List (Option Word) → Bool → Log → Out
  | 0, _, _, _, _, _, lg => ⟨.fail, lg, nw, false⟩       -- unreachable
  | fuel+1, cur, chars, count, ws, infinite, lg =>
    let lg := lg.rd cur                                        -- while (*current != '\0')
    if rd s cur = 0 then ⟨.ok ws infinite, lg, nw, false⟩ else
    let tmpchars := if chars % 16 = 0 then 16 else chars % 16
    let ustr := (List.range tmpchars).map (fun j => rd s (cur + j))          -- memcpy(ustr, current, tmpchars)
    let lg := ((lg.rdRange cur tmpchars).uwRange tmpchars).uw tmpchars       --  + ustr[tmpchars] = 0
    let r := strtoulL 16 ustr                                                -- strtoul(ustr, &next, 16): reads the local buffer only
    if ustr.getD r.2 0 ≠ 0 then ⟨.fail, lg.wr 0 1, nw, false⟩ else           -- *next != '\0'
    let w : Word := BitVec.ofNat 64 r.1
    let w := if infinite && tmpchars != 16 then w ||| (BitVec.allOnes 64 <<< (4 * tmpchars)) else w
    let lg := lg.wr ((count : Int) - 1) nw
    tasksetLoopC s nw fuel (cur + tmpchars) (chars - tmpchars) (count - 1) (setCell ws (count - 1) w) infinite lg

def tasksetGoC (s : List Byte) (cur : Nat) (infinite : Bool) (lg : Log) : Out :=
  let e := scanWhile (fun c => c != 0) s (s.length + 1) cur        -- strlen(current)
  let lg := lg.rdRange cur (e + 1 - cur)
  let chars := e - cur
  let count := (chars * 4 + 63) / 64
  tasksetLoopC s count (count + 1) cur chars count (List.replicate count none) infinite lg

def tasksetSscanfC (s : List Byte) : Out :=
  let m := strncmpC s 0 pat_inf Log.empty
  if m.1 then
    let lg := m.2.rd 7
    if rd s 7 = 0 then ⟨.ok [some (BitVec.allOnes 64)] true, lg.wr 0 1, 1, false⟩     -- hwloc_bitmap_fill
    else tasksetGoC s 7 true lg
  else
    let m2 := strncmpC s 0 pat_0x m.2
    let cur := if m2.1 then 2 else 0
    let lg := m2.2.rd cur
    if rd s cur = 0 then ⟨.ok [some 0#64] false, lg.wr 0 1, 1, false⟩                  -- hwloc_bitmap_zero
    else tasksetGoC s cur false lg

/-! ### observations used by the differential tie -/

def Log.maxRead (lg : Log) : Nat := lg.reads.foldl max 0

end Cursor
end Bitmap
end Hw
