/-
  Hw.Bitmap.Search — first / next / last and the `_unset` duals, characterised by `mem` only.
-/
import Hw.Bitmap.Queries
namespace Hw

theorem lowest_congr {p q : Nat → Bool} {n : Nat} (h : ∀ i, i < n → p i = q i) : lowest p n = lowest q n := by
  induction n with
  | zero => rfl
  | succ n ih =>
    unfold lowest
    rw [ih (fun i hi => h i (Nat.lt_succ_of_lt hi)), h n (Nat.lt_succ_self n)]

theorem highest_congr {p q : Nat → Bool} {n : Nat} (h : ∀ i, i < n → p i = q i) : highest p n = highest q n := by
  induction n with
  | zero => rfl
  | succ n ih =>
    unfold highest
    rw [ih (fun i hi => h i (Nat.lt_succ_of_lt hi)), h n (Nat.lt_succ_self n)]

/-- `r` is the least member of `S` strictly above `prev`, or -1 when there is none -/
def IsNext (S : Nat → Bool) (prev : Int) (r : Int) : Prop :=
  (r = -1 ∧ ∀ m : Nat, prev < m → S m = false) ∨
  (∃ n : Nat, r = n ∧ prev < n ∧ S n = true ∧ ∀ m : Nat, prev < m → m < n → S m = false)

/-- `r` is the least member of `S`, or -1 when `S` is empty -/
def IsFirst (S : Nat → Bool) (r : Int) : Prop :=
  (r = -1 ∧ ∀ m : Nat, S m = false) ∨
  (∃ n : Nat, r = n ∧ S n = true ∧ ∀ m : Nat, m < n → S m = false)

/-- `r` is the greatest member of `S`; -1 when `S` is empty or unbounded -/
def IsLast (S : Nat → Bool) (r : Int) : Prop :=
  (r = -1 ∧ ((∀ m : Nat, S m = false) ∨ (∀ N : Nat, ∃ m, N ≤ m ∧ S m = true))) ∨
  (∃ n : Nat, r = n ∧ S n = true ∧ ∀ m : Nat, n < m → S m = false)

theorem IsNext.unique {S : Nat → Bool} {prev r r' : Int} (h : IsNext S prev r) (h' : IsNext S prev r') : r = r' := by
  rcases h with ⟨e, h0⟩ | ⟨n, e, hp, hn, hl⟩ <;> rcases h' with ⟨e', h0'⟩ | ⟨n', e', hp', hn', hl'⟩
  · rw [e, e']
  · have := h0 n' hp'; rw [hn'] at this; cases this
  · have := h0' n hp; rw [hn] at this; cases this
  · rw [e, e']
    rcases Nat.lt_trichotomy n n' with hlt | heq | hgt
    · have := hl' n hp hlt; rw [hn] at this; cases this
    · rw [heq]
    · have := hl n' hp' hgt; rw [hn'] at this; cases this

theorem IsFirst_iff_next (S : Nat → Bool) (r : Int) : IsFirst S r ↔ IsNext S (-1) r := by
  unfold IsFirst IsNext
  constructor
  · rintro (⟨e, h⟩ | ⟨n, e, hn, hl⟩)
    · exact Or.inl ⟨e, fun m _ => h m⟩
    · exact Or.inr ⟨n, e, by omega, hn, fun m _ hm => hl m hm⟩
  · rintro (⟨e, h⟩ | ⟨n, e, _, hn, hl⟩)
    · exact Or.inl ⟨e, fun m => h m (by omega)⟩
    · exact Or.inr ⟨n, e, hn, fun m hm => hl m (by omega) hm⟩

theorem IsFirst.unique {S : Nat → Bool} {r r' : Int} (h : IsFirst S r) (h' : IsFirst S r') : r = r' :=
  ((IsFirst_iff_next S r).mp h).unique ((IsFirst_iff_next S r').mp h')

theorem IsLast.unique {S : Nat → Bool} {r r' : Int} (h : IsLast S r) (h' : IsLast S r') : r = r' := by
  rcases h with ⟨e, h0⟩ | ⟨n, e, hn, hl⟩ <;> rcases h' with ⟨e', h0'⟩ | ⟨n', e', hn', hl'⟩
  · rw [e, e']
  · rcases h0 with h0 | h0
    · have := h0 n'; rw [hn'] at this; cases this
    · obtain ⟨m, hm, hs⟩ := h0 (n' + 1)
      have := hl' m (by omega); rw [hs] at this; cases this
  · rcases h0' with h0' | h0'
    · have := h0' n; rw [hn] at this; cases this
    · obtain ⟨m, hm, hs⟩ := h0' (n + 1)
      have := hl m (by omega); rw [hs] at this; cases this
  · rw [e, e']
    rcases Nat.lt_trichotomy n n' with hlt | heq | hgt
    · have := hl n' hlt; rw [hn'] at this; cases this
    · rw [heq]
    · have := hl' n hgt; rw [hn] at this; cases this

namespace Bitmap

/-- bit `j` of the word examined by `next` at index `i ≥ (prev+1)/64` -/
theorem nextWord_getLsbD (f : Nat → Word) (p i j : Nat) (hj : j < 64) (hi : p / 64 ≤ i) :
    (nextWord f ((p : Int) - 1) i).getLsbD j = ((f i).getLsbD j && decide (p ≤ 64 * i + j)) := by
  unfold nextWord
  split
  · rename_i h
    have h1 : 1 ≤ p := by omega
    have h2 : ((p : Int) - 1).toNat = p - 1 := by omega
    rw [h2] at h
    rw [h2, BitVec.getLsbD_and, BitVec.getLsbD_not, toW_getLsbD _ _ (Nat.mod_lt _ (by omega))]
    simp only [hj, decide_true, Bool.true_and]
    by_cases hh : j ≤ (p - 1) % 64
    · have : ¬ p ≤ 64 * i + j := by omega
      simp [hh, this]
    · have : p ≤ 64 * i + j := by omega
      simp [hh, this]
  · rename_i h
    have : p ≤ 64 * i + j := by
      by_cases h1 : 1 ≤ p
      · have h2 : ((p : Int) - 1).toNat = p - 1 := by omega
        rw [h2] at h
        have : (p - 1) / 64 ≠ i := fun e => h ⟨by omega, e⟩
        omega
      · omega
    simp [this]

theorem next_spec (b : Bitmap) (prev : Int) (hprev : -1 ≤ prev) : IsNext b.mem prev (b.next prev) := by
  obtain ⟨p, rfl⟩ : ∃ p : Nat, prev = (p : Int) - 1 := ⟨(prev + 1).toNat, by omega⟩
  have hp1 : ((p : Int) - 1 + 1).toNat = p := by omega
  unfold next
  simp only [hp1]
  split
  · rename_i hc
    split
    · rename_i hinf
      refine Or.inr ⟨p, by omega, by omega, ?_, ?_⟩
      · rw [mem_of_ge b p (by omega)]; exact hinf
      · intro m h1 h2; omega
    · rename_i hinf
      refine Or.inl ⟨rfl, ?_⟩
      intro m hm
      rw [mem_of_ge b m (by omega)]; simpa using hinf
  · rename_i hc
    have hc' : p / 64 < b.count := by omega
    -- bits of examined words
    have hbit : ∀ i j, j < 64 → p / 64 ≤ i →
        (nextWord b.readWord ((p : Int) - 1) i).getLsbD j = (b.mem (64 * i + j) && decide (p ≤ 64 * i + j)) := by
      intro i j hj hi
      rw [nextWord_getLsbD _ _ _ _ hj hi, readWord_getLsbD _ _ _ hj]
    -- a zero examined word has no member above prev
    have hzero : ∀ i, p / 64 ≤ i → nextWord b.readWord ((p : Int) - 1) i = 0#64 →
        ∀ m, m / 64 = i → p ≤ m → b.mem m = false := by
      intro i hi hz m hm hpm
      have := hbit i (m % 64) (Nat.mod_lt _ (by omega)) hi
      rw [hz] at this
      have e : 64 * i + m % 64 = m := by omega
      rw [e] at this
      simp only [BitVec.getLsbD_zero, hpm, decide_true, Bool.and_true] at this
      exact this.symm
    cases hl : lowest (fun i => decide (p / 64 ≤ i) && nextWord b.readWord ((p : Int) - 1) i != 0#64) b.count with
    | some i =>
      simp only
      obtain ⟨hic, hpi, hlow⟩ := lowest_some.mp hl
      simp only [Bool.and_eq_true, decide_eq_true_eq, bne_iff_ne, ne_eq] at hpi
      obtain ⟨hi0, hne⟩ := hpi
      obtain ⟨f1, f2, f3, f4⟩ := ffsl_spec _ hne
      have hj : ffsl (nextWord b.readWord ((p : Int) - 1) i) - 1 < 64 := by omega
      have hb := hbit i _ hj hi0
      rw [f3] at hb
      have hb' := hb.symm
      rw [Bool.and_eq_true, decide_eq_true_eq] at hb'
      refine Or.inr ⟨ffsl (nextWord b.readWord ((p : Int) - 1) i) - 1 + 64 * i, rfl, ?_, ?_, ?_⟩
      · have := hb'.2; omega
      · have e : ffsl (nextWord b.readWord ((p : Int) - 1) i) - 1 + 64 * i
              = 64 * i + (ffsl (nextWord b.readWord ((p : Int) - 1) i) - 1) := by omega
        rw [e]; exact hb'.1
      · intro m h1 h2
        have hpm : p ≤ m := by omega
        have hm0 : p / 64 ≤ m / 64 := Nat.div_le_div_right hpm
        by_cases hmi : m / 64 = i
        · have hlt : m % 64 < ffsl (nextWord b.readWord ((p : Int) - 1) i) - 1 := by omega
          have := hbit i (m % 64) (Nat.mod_lt _ (by omega)) hi0
          rw [f4 _ hlt] at this
          have e : 64 * i + m % 64 = m := by omega
          rw [e] at this
          simp only [hpm, decide_true, Bool.and_true] at this
          exact this.symm
        · have hlt : m / 64 < i := by omega
          have := hlow (m / 64) hlt
          simp only [Bool.and_eq_false_iff, decide_eq_false_iff_not, bne_eq_false_iff_eq] at this
          rcases this with h | h
          · exact absurd hm0 h
          · exact hzero (m/64) hm0 h m rfl hpm
    | none =>
      simp only
      have hnone := lowest_none.mp hl
      have hz : ∀ m, p ≤ m → m / 64 < b.count → b.mem m = false := by
        intro m hpm hmc
        have hm0 : p / 64 ≤ m / 64 := Nat.div_le_div_right hpm
        have := hnone (m / 64) hmc
        simp only [Bool.and_eq_false_iff, decide_eq_false_iff_not, bne_eq_false_iff_eq] at this
        rcases this with h | h
        · exact absurd hm0 h
        · exact hzero (m/64) hm0 h m rfl hpm
      split
      · rename_i hinf
        refine Or.inr ⟨b.count * 64, rfl, by omega, ?_, ?_⟩
        · rw [mem_of_ge b _ (Nat.le_refl _)]; exact hinf
        · intro m h1 h2
          exact hz m (by omega) (by omega)
      · rename_i hinf
        refine Or.inl ⟨rfl, ?_⟩
        intro m hm
        by_cases hmc : m / 64 < b.count
        · exact hz m (by omega) hmc
        · rw [mem_of_ge b m (by omega)]; simpa using hinf

theorem first_eq_next (b : Bitmap) : b.first = b.next (-1) := by
  unfold first next firstNZ
  have e0 : ((-1 : Int) + 1).toNat / 64 = 0 := by decide
  simp only [e0]
  have hcongr : lowest (fun i => decide (0 ≤ i) && nextWord b.readWord (-1) i != 0#64) b.count
      = lowest (fun i => b.readWord i != 0#64) b.count := by
    apply lowest_congr
    intro i _
    simp [nextWord]
  rw [hcongr]
  by_cases hc0 : b.count = 0
  · have : lowest (fun i => b.readWord i != 0#64) b.count = none := by rw [hc0]; rfl
    rw [this, hc0]; simp
  · have hc : ¬ b.count ≤ 0 := by omega
    simp only [hc, if_false]
    cases lowest (fun i => b.readWord i != 0#64) b.count with
    | none => rfl
    | some i => simp [nextWord]

theorem first_spec (b : Bitmap) : IsFirst b.mem b.first := by
  rw [IsFirst_iff_next, first_eq_next]; exact next_spec b (-1) (by omega)

/-! unset duals through `not` -/

theorem firstUnset_eq (b : Bitmap) : b.firstUnset = b.not.first := by
  unfold firstUnset first firstNZ
  have hc : b.not.count = b.count := by simp [Bitmap.not]
  have hi : b.not.inf = !b.inf := rfl
  rw [hc, hi]
  have : lowest (fun i => b.not.readWord i != 0#64) b.count = lowest (fun i => ~~~ b.readWord i != 0#64) b.count :=
    lowest_congr (fun i _ => by rw [readWord_not])
  rw [this]
  cases lowest (fun i => ~~~ b.readWord i != 0#64) b.count with
  | none => rfl
  | some i => simp only [readWord_not]

theorem nextUnset_eq (b : Bitmap) (prev : Int) : b.nextUnset prev = b.not.next prev := by
  unfold nextUnset next
  have hc : b.not.count = b.count := by simp [Bitmap.not]
  have hi : b.not.inf = !b.inf := rfl
  have hf : (fun i => ~~~ b.readWord i) = b.not.readWord := by funext i; rw [readWord_not]
  rw [hc, hi, hf]

theorem firstUnset_spec (b : Bitmap) : IsFirst (fun n => !b.mem n) b.firstUnset := by
  rw [firstUnset_eq]
  have := first_spec b.not
  have e : b.not.mem = fun n => !b.mem n := funext (mem_not b)
  rw [e] at this; exact this

theorem nextUnset_spec (b : Bitmap) (prev : Int) (h : -1 ≤ prev) :
    IsNext (fun n => !b.mem n) prev (b.nextUnset prev) := by
  rw [nextUnset_eq]
  have := next_spec b.not prev h
  have e : b.not.mem = fun n => !b.mem n := funext (mem_not b)
  rw [e] at this; exact this

/-! last -/

theorem last_spec (b : Bitmap) : IsLast b.mem b.last := by
  unfold last
  split
  · rename_i hinf
    refine Or.inl ⟨rfl, Or.inr ?_⟩
    intro N
    refine ⟨max N (b.count * 64), Nat.le_max_left _ _, ?_⟩
    rw [mem_of_ge b _ (Nat.le_max_right _ _)]; exact hinf
  · rename_i hinf
    have hinf' : b.inf = false := by simpa using hinf
    unfold lastNZ
    cases hl : highest (fun i => b.readWord i != 0#64) b.count with
    | none =>
      simp only
      refine Or.inl ⟨rfl, Or.inl ?_⟩
      intro m
      by_cases hmc : m / 64 < b.count
      · have := highest_none.mp hl (m/64) hmc
        simp only [bne_eq_false_iff_eq] at this
        rw [mem_def, this]; simp
      · rw [mem_of_ge b m (by omega)]; exact hinf'
    | some i =>
      simp only
      obtain ⟨hic, hne, hhigh⟩ := highest_some.mp hl
      simp only [bne_iff_ne, ne_eq] at hne
      obtain ⟨f1, f2, f3, f4⟩ := flsl_spec _ hne
      have hj : flsl (b.readWord i) - 1 < 64 := by omega
      refine Or.inr ⟨flsl (b.readWord i) - 1 + 64 * i, rfl, ?_, ?_⟩
      · have e : flsl (b.readWord i) - 1 + 64 * i = 64 * i + (flsl (b.readWord i) - 1) := by omega
        rw [e, ← readWord_getLsbD _ _ _ hj]; exact f3
      · intro m hm
        by_cases hmc : m / 64 < b.count
        · by_cases hmi : m / 64 = i
          · rw [mem_def, hmi]
            exact f4 _ (by omega) (Nat.mod_lt _ (by omega))
          · have := hhigh (m/64) (by omega) hmc
            simp only [bne_eq_false_iff_eq] at this
            rw [mem_def, this]; simp
        · rw [mem_of_ge b m (by omega)]; exact hinf'

theorem lastUnset_eq (b : Bitmap) : b.lastUnset = b.not.last := by
  unfold lastUnset last lastNZ
  have hc : b.not.count = b.count := by simp [Bitmap.not]
  have hi : b.not.inf = !b.inf := rfl
  rw [hc, hi]
  have : highest (fun i => b.not.readWord i != 0#64) b.count = highest (fun i => ~~~ b.readWord i != 0#64) b.count :=
    highest_congr (fun i _ => by rw [readWord_not])
  rw [this]
  split
  · rfl
  · cases highest (fun i => ~~~ b.readWord i != 0#64) b.count with
    | none => rfl
    | some i => simp only [readWord_not]

theorem lastUnset_spec (b : Bitmap) : IsLast (fun n => !b.mem n) b.lastUnset := by
  rw [lastUnset_eq]
  have := last_spec b.not
  have e : b.not.mem = fun n => !b.mem n := funext (mem_not b)
  rw [e] at this; exact this

end Bitmap
end Hw
