/-
  Hw.Bitmap.Ops — representation-exact model of the operations of hwloc/bitmap.c
  (lines 84–243 and 741–1760).  Every function returns the same `ulongs_count`, the same
  words and the same `infinite` flag as the C code.  Indexes are `Nat`; the C `unsigned`/`int`
  arithmetic does not wrap under the domain hypothesis `Bounded` (indexes and `64*count`
  below 2^31), which the harness generator respects.  `end = -1` of the range functions is
  `none`.
-/
import Hw.Bitmap.Repr
namespace Hw

/-- `HWLOC_SUBBITMAP_CPU(cpu)` for a bit position `j < 64` -/
def bitW (j : Nat) : Word := 1#64 <<< j
/-- `HWLOC_SUBBITMAP_ULBIT_FROM(j)` -/
def fromW (j : Nat) : Word := BitVec.allOnes 64 <<< j
/-- `HWLOC_SUBBITMAP_ULBIT_TO(j)` -/
def toW (j : Nat) : Word := BitVec.allOnes 64 >>> (63 - j)
/-- `HWLOC_SUBBITMAP_ULBIT_FROMTO(b,e)` -/
def fromToW (b e : Nat) : Word := toW e &&& fromW b

namespace Bitmap

def alloc : Bitmap := ⟨[0#64], false⟩
def allocFull : Bitmap := ⟨[BitVec.allOnes 64], true⟩
def dup (b : Bitmap) : Bitmap := b
/-- `hwloc_bitmap_copy(dst, src)`: `dst` gets `src`'s count, words and flag -/
def copy (_dst src : Bitmap) : Bitmap := src
def zero (_b : Bitmap) : Bitmap := ⟨[0#64], false⟩
def fill (_b : Bitmap) : Bitmap := ⟨[BitVec.allOnes 64], true⟩
def fromUlong (_b : Bitmap) (m : Word) : Bitmap := ⟨[m], false⟩
def fromIthUlong (_b : Bitmap) (i : Nat) (m : Word) : Bitmap :=
  build (i+1) (fun j => if j = i then m else 0#64) false
/-- `hwloc_bitmap_from_ulongs`; the C requires `nr ≥ 1` -/
def fromUlongs (_b : Bitmap) (ms : List Word) : Bitmap := ⟨ms, false⟩
def toUlong (b : Bitmap) : Word := b.readWord 0
def toIthUlong (b : Bitmap) (i : Nat) : Word := b.readWord i
def toUlongs (b : Bitmap) (nr : Nat) : List Word := (List.range nr).map b.readWord

def only (_b : Bitmap) (cpu : Nat) : Bitmap :=
  build (cpu/64+1) (fun j => if j = cpu/64 then bitW (cpu%64) else 0#64) false
def allbut (_b : Bitmap) (cpu : Nat) : Bitmap :=
  build (cpu/64+1) (fun j => if j = cpu/64 then ~~~ bitW (cpu%64) else BitVec.allOnes 64) true

/-- `hwloc_bitmap_realloc_by_ulongs` -/
def realloc (b : Bitmap) (n : Nat) : Bitmap :=
  if n ≤ b.count then b else build n b.readWord b.inf

/-- rewrite every stored word `j` as `g j (old word j)` keeping count and flag -/
def modify (b : Bitmap) (g : Nat → Word → Word) : Bitmap :=
  build b.count (fun j => g j (b.readWord j)) b.inf

/-- overwrite the `infinite` flag only -/
def setInf (b : Bitmap) (f : Bool) : Bitmap := ⟨b.words, f⟩

def set (b : Bitmap) (cpu : Nat) : Bitmap :=
  if b.inf && decide (b.count * 64 ≤ cpu) then b
  else (b.realloc (cpu/64+1)).modify (fun j w => if j = cpu/64 then w ||| bitW (cpu%64) else w)

def clr (b : Bitmap) (cpu : Nat) : Bitmap :=
  if !b.inf && decide (b.count * 64 ≤ cpu) then b
  else (b.realloc (cpu/64+1)).modify (fun j w => if j = cpu/64 then w &&& ~~~ bitW (cpu%64) else w)

def setIthUlong (b : Bitmap) (i : Nat) (m : Word) : Bitmap :=
  (b.realloc (i+1)).modify (fun j w => if j = i then m else w)

/-- `hwloc_bitmap_set_range(set, begin, end)`; `none` is `end = -1` -/
def setRange (b : Bitmap) (beg : Nat) (en : Option Nat) : Bitmap :=
  match en with
  | none =>
    if b.inf && decide (b.count * 64 ≤ beg) then b
    else
      let b' := b.realloc (beg/64+1)
      (b'.modify (fun j w => if j = beg/64 then w ||| fromW (beg%64)
                               else if beg/64 < j then BitVec.allOnes 64 else w)).setInf true
  | some e =>
    if e < beg then b
    else if b.inf && decide (b.count * 64 ≤ beg) then b
    else
      let e' := if b.inf && decide (b.count * 64 ≤ e) then b.count * 64 - 1 else e
      let b' := b.realloc (e'/64+1)
      let bs := beg/64
      let es := e'/64
      b'.modify (fun j w =>
        if bs = es then (if j = bs then w ||| fromToW (beg%64) (e'%64) else w)
        else if j = bs then w ||| fromW (beg%64)
        else if j = es then w ||| toW (e'%64)
        else if bs < j ∧ j < es then BitVec.allOnes 64 else w)

def clrRange (b : Bitmap) (beg : Nat) (en : Option Nat) : Bitmap :=
  match en with
  | none =>
    if !b.inf && decide (b.count * 64 ≤ beg) then b
    else
      let b' := b.realloc (beg/64+1)
      (b'.modify (fun j w => if j = beg/64 then w &&& ~~~ fromW (beg%64)
                               else if beg/64 < j then 0#64 else w)).setInf false
  | some e =>
    if e < beg then b
    else if !b.inf && decide (b.count * 64 ≤ beg) then b
    else
      let e' := if !b.inf && decide (b.count * 64 ≤ e) then b.count * 64 - 1 else e
      let b' := b.realloc (e'/64+1)
      let bs := beg/64
      let es := e'/64
      b'.modify (fun j w =>
        if bs = es then (if j = bs then w &&& ~~~ fromToW (beg%64) (e'%64) else w)
        else if j = bs then w &&& ~~~ fromW (beg%64)
        else if j = es then w &&& ~~~ toW (e'%64)
        else if bs < j ∧ j < es then 0#64 else w)

def isset (b : Bitmap) (cpu : Nat) : Bool := b.mem cpu
def iszero (b : Bitmap) : Bool := !b.inf && b.words.all (· == 0#64)
def isfull (b : Bitmap) : Bool := b.inf && b.words.all (· == BitVec.allOnes 64)

def isequal (a b : Bitmap) : Bool :=
  (List.range (max a.count b.count)).all (fun i => a.readWord i == b.readWord i) && (a.inf == b.inf)

def intersects (a b : Bitmap) : Bool :=
  (List.range (max a.count b.count)).any (fun i => a.readWord i &&& b.readWord i != 0#64) || (a.inf && b.inf)

def isincluded (sub sup : Bitmap) : Bool :=
  (List.range (max sub.count sup.count)).all
      (fun i => sup.readWord i == (sup.readWord i ||| sub.readWord i))
    && !(sub.inf && !sup.inf)

def orCount (a b : Bitmap) : Nat :=
  if a.count = b.count then a.count
  else if b.count < a.count then (if b.inf then b.count else a.count)
  else (if a.inf then a.count else b.count)

def andCount (a b : Bitmap) : Nat :=
  if a.count = b.count then a.count
  else if b.count < a.count then (if b.inf then a.count else b.count)
  else (if a.inf then b.count else a.count)

def andnotCount (a b : Bitmap) : Nat :=
  if a.count = b.count then a.count
  else if b.count < a.count then (if !b.inf then a.count else b.count)
  else (if a.inf then b.count else a.count)

def or (a b : Bitmap) : Bitmap :=
  build (orCount a b) (fun i => a.readWord i ||| b.readWord i) (a.inf || b.inf)
def and (a b : Bitmap) : Bitmap :=
  build (andCount a b) (fun i => a.readWord i &&& b.readWord i) (a.inf && b.inf)
def andnot (a b : Bitmap) : Bitmap :=
  build (andnotCount a b) (fun i => a.readWord i &&& ~~~ b.readWord i) (a.inf && !b.inf)
def xor (a b : Bitmap) : Bitmap :=
  build (max a.count b.count) (fun i => a.readWord i ^^^ b.readWord i) (a.inf != b.inf)
def not (a : Bitmap) : Bitmap :=
  build a.count (fun i => ~~~ a.readWord i) (!a.inf)

/-- index of the first stored word that is non-zero -/
def firstNZ (b : Bitmap) : Option Nat := lowest (fun i => b.readWord i != 0#64) b.count
def lastNZ (b : Bitmap) : Option Nat := highest (fun i => b.readWord i != 0#64) b.count

def first (b : Bitmap) : Int :=
  match b.firstNZ with
  | some i => ((ffsl (b.readWord i) - 1 + 64 * i : Nat) : Int)
  | none => if b.inf then ((b.count * 64 : Nat) : Int) else -1

def firstUnset (b : Bitmap) : Int :=
  match lowest (fun i => ~~~ b.readWord i != 0#64) b.count with
  | some i => ((ffsl (~~~ b.readWord i) - 1 + 64 * i : Nat) : Int)
  | none => if !b.inf then ((b.count * 64 : Nat) : Int) else -1

def last (b : Bitmap) : Int :=
  if b.inf then -1 else
  match b.lastNZ with
  | some i => ((flsl (b.readWord i) - 1 + 64 * i : Nat) : Int)
  | none => -1

def lastUnset (b : Bitmap) : Int :=
  if !b.inf then -1 else
  match highest (fun i => ~~~ b.readWord i != 0#64) b.count with
  | some i => ((flsl (~~~ b.readWord i) - 1 + 64 * i : Nat) : Int)
  | none => -1

/-- the word examined by `hwloc_bitmap_next` at index `i` for `prev_cpu = prev` (`prev ≥ -1`) -/
def nextWord (f : Nat → Word) (prev : Int) (i : Nat) : Word :=
  if 0 ≤ prev ∧ prev.toNat / 64 = i then f i &&& ~~~ toW (prev.toNat % 64) else f i

/-- `hwloc_bitmap_next(set, prev)` for `prev ≥ -1` -/
def next (b : Bitmap) (prev : Int) : Int :=
  let i0 := (prev + 1).toNat / 64
  if b.count ≤ i0 then (if b.inf then prev + 1 else -1)
  else
    match lowest (fun i => decide (i0 ≤ i) && nextWord b.readWord prev i != 0#64) b.count with
    | some i => ((ffsl (nextWord b.readWord prev i) - 1 + 64 * i : Nat) : Int)
    | none => if b.inf then ((b.count * 64 : Nat) : Int) else -1

def nextUnset (b : Bitmap) (prev : Int) : Int :=
  let i0 := (prev + 1).toNat / 64
  if b.count ≤ i0 then (if !b.inf then prev + 1 else -1)
  else
    match lowest (fun i => decide (i0 ≤ i) && nextWord (fun i => ~~~ b.readWord i) prev i != 0#64) b.count with
    | some i => ((ffsl (nextWord (fun i => ~~~ b.readWord i) prev i) - 1 + 64 * i : Nat) : Int)
    | none => if !b.inf then ((b.count * 64 : Nat) : Int) else -1

def singlify (b : Bitmap) : Bitmap :=
  match b.firstNZ with
  | some i => build b.count (fun j => if j = i then bitW (ffsl (b.readWord i) - 1) else 0#64) false
  | none => if b.inf then set (b.setInf false) (b.count * 64) else b

def weight (b : Bitmap) : Int :=
  if b.inf then -1 else (((b.words.map weightLong).sum : Nat) : Int)

/-- `hwloc_bitmap_nr_ulongs` (with the `unsigned` wrap of `last = -1`) -/
def nrUlongs (b : Bitmap) : Int :=
  if b.inf then -1 else
  match b.last with
  | Int.ofNat l => (((l + 64) / 64 : Nat) : Int)
  | Int.negSucc _ => 0     -- (unsigned)(-1) + 64 = 63 (mod 2^32); 63/64 = 0

/-- `hwloc_bitmap_compare`: sign at the highest differing (virtual) word, flags first -/
def compare (a b : Bitmap) : Int :=
  if a.inf != b.inf then (if a.inf then 1 else -1)
  else match highest (fun i => a.readWord i != b.readWord i) (max a.count b.count) with
    | some i => if a.readWord i < b.readWord i then -1 else 1
    | none => 0

/-- final expression of `hwloc_bitmap_compare_first` (all stored words of both are zero) -/
def compareFirstTail (inf1 inf2 : Bool) : Int :=
  (if inf2 then 1 else 0) - (if inf1 then 1 else 0)

/-- `hwloc_bitmap_compare_first`, literal -/
def compareFirst (a b : Bitmap) : Int :=
  let minc := min a.count b.count
  match lowest (fun i => a.readWord i != 0#64 || b.readWord i != 0#64) minc with
  | some i =>
    let f1 := ffsl (a.readWord i)
    let f2 := ffsl (b.readWord i)
    if f1 ≠ 0 ∧ f2 ≠ 0 then (f1 : Int) - f2 else (f2 : Int) - f1
  | none =>
    if a.count < b.count then
      if a.inf then (if (b.readWord minc).getLsbD 0 then 0 else -1)
      else if (List.range b.count).any (fun i => decide (minc ≤ i) && b.readWord i != 0#64) then 1
      else compareFirstTail a.inf b.inf
    else if b.count < a.count then
      if b.inf then (if (a.readWord minc).getLsbD 0 then 0 else 1)
      else if (List.range a.count).any (fun i => decide (minc ≤ i) && a.readWord i != 0#64) then -1
      else compareFirstTail a.inf b.inf
    else compareFirstTail a.inf b.inf

/-! `hwloc_bitmap_compare_inclusion`, literal: a fold over the word indexes with the C's state -/

inductive Incl | equal | included | contains | intersects | different
deriving DecidableEq, Repr

def Incl.toInt : Incl → Int
  | .equal => 0 | .included => 1 | .contains => 2 | .intersects => 3 | .different => 4

structure InclState where
  result : Incl := .equal
  empty1 : Bool := true
  empty2 : Bool := true
  ret : Option Incl := none      -- early `return`
deriving DecidableEq, Repr

/-- the state after an early `return HWLOC_BITMAP_INTERSECTS` (the other fields are dead) -/
def inclStop : InclState := { result := .intersects, empty1 := false, empty2 := false, ret := some .intersects }

/-- one iteration of the loop, as a function of the six tests the C code performs on the two words:
`z1 = !val1`, `z2 = !val2`, `eqw = (val1 == val2)`, `subw = ((val1 & val2) == val1)`,
`supw = ((val1 & val2) == val2)`, `meetw = ((val1 & val2) != 0)` -/
def inclStepB (s : InclState) (z1 z2 eqw subw supw meetw : Bool) : InclState :=
  if s.ret.isSome then s else
  let upd (r : Incl) : InclState :=
    { result := r, empty1 := s.empty1 && z1, empty2 := s.empty2 && z2, ret := none }
  if z1 then
    if z2 then s
    else if s.result = .contains then (if !s.empty2 then inclStop else upd .different)
    else if s.result = .equal then upd .included
    else upd s.result
  else if z2 then
    if s.result = .included then (if !s.empty1 then inclStop else upd .different)
    else if s.result = .equal then upd .contains
    else upd s.result
  else if eqw then
    if s.result = .different then inclStop else upd s.result
  else if subw then
    if s.result = .contains ∨ s.result = .different then inclStop else upd .included
  else if supw then
    if s.result = .included ∨ s.result = .different then inclStop else upd .contains
  else if meetw then inclStop
  else
    if s.result = .equal ∧ !s.empty1 then inclStop
    else if s.result = .included ∧ !s.empty1 then inclStop
    else if s.result = .contains ∧ !s.empty2 then inclStop
    else upd .different

def inclStep (s : InclState) (v1 v2 : Word) : InclState :=
  inclStepB s (v1 == 0#64) (v2 == 0#64) (v1 == v2) (v1 &&& v2 == v1) (v1 &&& v2 == v2) (v1 &&& v2 != 0#64)

def inclFinish (s : InclState) (inf1 inf2 : Bool) : Incl :=
  match s.ret with
  | some r => r
  | none =>
    if !inf1 then
      if inf2 then
        if s.result = .contains then (if !s.empty2 then .intersects else .different)
        else if s.result = .equal then .included
        else s.result
      else s.result
    else if !inf2 then
      if s.result = .included then (if !s.empty1 then .intersects else .different)
      else if s.result = .equal then .contains
      else s.result
    else
      if s.result = .different then .intersects else s.result

def compareInclusion (a b : Bitmap) : Incl :=
  let s := (List.range (max a.count b.count)).foldl
    (fun s i => inclStep s (a.readWord i) (b.readWord i)) {}
  inclFinish s a.inf b.inf

end Bitmap
end Hw
