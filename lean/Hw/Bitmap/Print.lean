/-
  Hw.Bitmap.Print — chunk lists of the three bitmap printers (hwloc/bitmap.c 252–358, 449–496,
  568–652).  One list element per `hwloc_snprintf` call, in call order (an element may be empty
  where the C code sets `res = 0`).  The chunk list never depends on the buffer size, so the
  returned length (sum of chunk lengths) is the length of the untruncated text.
-/
import Hw.Bitmap.Ops
import Hw.Base.Num
namespace Hw
namespace Bitmap

def hi32 (w : Word) : Nat := w.toNat / 2^32
def lo32 (w : Word) : Nat := w.toNat % 2^32

/-- number of low words that are printed: the words above are all equal to the fill word -/
def topWords (b : Bitmap) : Nat :=
  match highest (fun i => b.readWord i != fillW b.inf) b.count with
  | some i => i + 1
  | none => 0

/-- the 32-bit groups handed to the hwloc-format loop, most significant first -/
def groups (b : Bitmap) : List Nat :=
  ((List.range b.topWords).reverse.map (fun i => [hi32 (b.readWord i), lo32 (b.readWord i)])).flatten

/-- loop body of `hwloc_bitmap_snprintf` over the groups; state = (needcomma, merge) -/
def hwlocBody : List Nat → Bool → Bool → List (List Byte)
  | [], _, _ => []
  | g :: gs, needcomma, merge =>
    let last := gs.isEmpty
    if merge && g == 0xFFFFFFFF then [] :: hwlocBody gs needcomma false
    else if g != 0 then
      ((if needcomma then str ",0x" else str "0x") ++ hexPad 8 g) :: hwlocBody gs true false
    else if last then (if needcomma then str ",0x0" else str "0x0") :: hwlocBody gs needcomma false
    else if needcomma then str "," :: hwlocBody gs needcomma false
    else [] :: hwlocBody gs needcomma false

def chunksHwloc (b : Bitmap) : List (List Byte) :=
  let pre := if b.inf then [str "0xf...f"] else []
  let all := pre ++ hwlocBody b.groups b.inf b.inf
  if (text all).length = 0 then all ++ [str "0x0"] else all

/-- loop body of `hwloc_bitmap_taskset_snprintf`; words most significant first;
`lastIdx` tells whether the word is `ulongs[0]`; state = (started, merge) -/
def tasksetBody : List Word → Bool → Bool → List (List Byte)
  | [], _, _ => []
  | w :: ws, started, merge =>
    let isLast := ws.isEmpty
    if started then
      (if merge && hi32 w == 0xFFFFFFFF then hexPad 8 (lo32 w) else hexPad 16 w.toNat)
        :: tasksetBody ws true false
    else if w != 0#64 || isLast then (str "0x" ++ hexDigits w.toNat) :: tasksetBody ws true false
    else [] :: tasksetBody ws false false

/-- words printed by the taskset printer: a finite bitmap always keeps `ulongs[0]` -/
def tasksetTop (b : Bitmap) : Nat := if b.inf then b.topWords else max b.topWords 1

def chunksTaskset (b : Bitmap) : List (List Byte) :=
  let pre := if b.inf then [str "0xf...f"] else []
  let ws := (List.range b.tasksetTop).reverse.map b.readWord
  let all := pre ++ tasksetBody ws b.inf b.inf
  if (text all).length = 0 then all ++ [str "0x0"] else all

/-- `hwloc_bitmap_list_snprintf`: ranges from `next` / `next_unset`; `fuel` bounds the loop -/
def listBody (b : Bitmap) : Nat → Int → Bool → List (List Byte)
  | 0, _, _ => []
  | fuel+1, prev, needcomma =>
    let beg := b.next prev
    if beg = -1 then []
    else
      let en := b.nextUnset beg
      let comma := if needcomma then str "," else []
      if en = beg + 1 then (comma ++ decDigits beg.toNat) :: listBody b fuel (en - 1) true
      else if en = -1 then [comma ++ decDigits beg.toNat ++ str "-"]
      else (comma ++ decDigits beg.toNat ++ str "-" ++ decDigits (en - 1).toNat) :: listBody b fuel (en - 1) true

def chunksList (b : Bitmap) : List (List Byte) := listBody b (b.count * 64 + 2) (-1) false

/-- the three `*_snprintf(buf, buflen, set)` calls -/
def snprintfHwloc (cap : Nat) (b : Bitmap) : Cur := emitAll cap (chunksHwloc b)
def snprintfTaskset (cap : Nat) (b : Bitmap) : Cur := emitAll cap (chunksTaskset b)
def snprintfList (cap : Nat) (b : Bitmap) : Cur := emitAll cap (chunksList b)

end Bitmap
end Hw
