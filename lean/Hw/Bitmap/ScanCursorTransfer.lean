/-
  Hw.Bitmap.ScanCursorTransfer — the text produced by the three bitmap printers contains no NUL byte and
  is accepted by the structural parsers, so (refinement) the cursor-level parsers accept it with the
  same words: the round-trip theorems hold for the models whose memory accesses are proved in bounds.
-/
import Hw.Bitmap.ScanCursorRefine
import Hw.Bitmap.RoundTripList
import Hw.Bitmap.RoundTripTaskset
import Hw.Bitmap.RoundTripHwloc
namespace Hw
namespace Bitmap
namespace Cursor

theorem noNul_nil : NoNul [] := by intro c hc; cases hc

theorem noNul_append {a b : List Byte} (ha : NoNul a) (hb : NoNul b) : NoNul (a ++ b) := by
  intro c hc
  rcases List.mem_append.mp hc with h | h
  · exact ha c h
  · exact hb c h

theorem noNul_text {cs : List (List Byte)} (h : ∀ c, c ∈ cs → NoNul c) : NoNul (text cs) := by
  intro x hx
  unfold text at hx
  obtain ⟨c, hc, hxc⟩ := List.mem_flatten.mp hx
  exact h c hc x hxc

theorem noNul_hex {l : List Byte} (h : ∀ c, c ∈ l → IsHexChar c) : NoNul l := by
  intro c hc h0; have := h c hc; unfold IsHexChar at this; rw [h0] at this; omega

theorem noNul_dec {l : List Byte} (h : ∀ c, c ∈ l → IsDecChar c) : NoNul l := by
  intro c hc h0; have := h c hc; unfold IsDecChar at this; rw [h0] at this; omega

theorem noNul_hexPad (w n : Nat) : NoNul (hexPad w n) := noNul_hex (hexPad_chars w n)
theorem noNul_hexDigits (n : Nat) : NoNul (hexDigits n) := noNul_hex (hexDigits_chars n)
theorem noNul_decDigits (n : Nat) : NoNul (decDigits n) := noNul_dec (decDigits_chars n)

instance (l : List Byte) : Decidable (NoNul l) := by unfold NoNul; infer_instance

theorem nn_c0x : NoNul (str ",0x") := by decide
theorem nn_0x : NoNul (str "0x") := by decide
theorem nn_c0x0 : NoNul (str ",0x0") := by decide
theorem nn_0x0 : NoNul (str "0x0") := by decide
theorem nn_c : NoNul (str ",") := by decide
theorem nn_m : NoNul (str "-") := by decide
theorem nn_inf : NoNul (str "0xf...f") := by decide

theorem all_cons {P : List Byte → Prop} {c : List Byte} {cs : List (List Byte)} (h1 : P c) (h2 : ∀ x, x ∈ cs → P x) :
    ∀ x, x ∈ c :: cs → P x := by
  intro x hx
  rcases List.mem_cons.mp hx with rfl | h
  · exact h1
  · exact h2 x h

theorem hwlocBody_noNul : ∀ (gs : List Nat) (nc mg : Bool), ∀ c, c ∈ hwlocBody gs nc mg → NoNul c := by
  intro gs
  induction gs with
  | nil => intro nc mg c hc; cases hc
  | cons g gs ih =>
    intro nc mg
    unfold hwlocBody
    simp only
    split
    · exact all_cons noNul_nil (ih _ _)
    · split
      · refine all_cons (noNul_append ?_ (noNul_hexPad _ _)) (ih _ _)
        split
        · exact nn_c0x
        · exact nn_0x
      · split
        · refine all_cons ?_ (ih _ _)
          split
          · exact nn_c0x0
          · exact nn_0x0
        · split
          · exact all_cons nn_c (ih _ _)
          · exact all_cons noNul_nil (ih _ _)

theorem pre_noNul (inf : Bool) : ∀ c, c ∈ (if inf then [str "0xf...f"] else []) → NoNul c := by
  intro c hc
  cases inf with
  | true =>
    simp only [if_true, List.mem_singleton] at hc
    rw [hc]; exact nn_inf
  | false => simp at hc

theorem all_append {P : List Byte → Prop} {a b : List (List Byte)} (h1 : ∀ x, x ∈ a → P x) (h2 : ∀ x, x ∈ b → P x) :
    ∀ x, x ∈ a ++ b → P x := by
  intro x hx
  rcases List.mem_append.mp hx with h | h
  · exact h1 x h
  · exact h2 x h

theorem chunksHwloc_noNul (b : Bitmap) : NoNul (text b.chunksHwloc) := by
  apply noNul_text
  unfold chunksHwloc
  simp only
  have h := all_append (P := NoNul) (pre_noNul b.inf) (hwlocBody_noNul b.groups b.inf b.inf)
  generalize (if b.inf = true then [str "0xf...f"] else []) ++ hwlocBody b.groups b.inf b.inf = all at h ⊢
  split
  · refine all_append h ?_
    intro x hx
    rw [List.mem_singleton.mp hx]; exact nn_0x0
  · exact h

theorem tasksetBody_noNul : ∀ (ws : List Word) (st mg : Bool), ∀ c, c ∈ tasksetBody ws st mg → NoNul c := by
  intro ws
  induction ws with
  | nil => intro st mg c hc; cases hc
  | cons w ws ih =>
    intro st mg
    unfold tasksetBody
    simp only
    split
    · refine all_cons ?_ (ih _ _)
      split
      · exact noNul_hexPad _ _
      · exact noNul_hexPad _ _
    · split
      · exact all_cons (noNul_append nn_0x (noNul_hexDigits _)) (ih _ _)
      · exact all_cons noNul_nil (ih _ _)

theorem chunksTaskset_noNul (b : Bitmap) : NoNul (text b.chunksTaskset) := by
  apply noNul_text
  unfold chunksTaskset
  simp only
  have h := all_append (P := NoNul) (pre_noNul b.inf)
    (tasksetBody_noNul ((List.range b.tasksetTop).reverse.map b.readWord) b.inf b.inf)
  generalize (if b.inf = true then [str "0xf...f"] else []) ++ tasksetBody ((List.range b.tasksetTop).reverse.map b.readWord) b.inf b.inf = all at h ⊢
  split
  · refine all_append h ?_
    intro x hx
    rw [List.mem_singleton.mp hx]; exact nn_0x0
  · exact h

theorem listBody_noNul (b : Bitmap) : ∀ (fuel : Nat) (prev : Int) (nc : Bool), ∀ c, c ∈ listBody b fuel prev nc → NoNul c := by
  intro fuel
  induction fuel with
  | zero => intro prev nc c hc; cases hc
  | succ f ih =>
    intro prev nc
    unfold listBody
    simp only
    have hcomma : NoNul (if nc = true then str "," else []) := by
      split
      · exact nn_c
      · exact noNul_nil
    split
    · intro c hc; cases hc
    · split
      · exact all_cons (noNul_append hcomma (noNul_decDigits _)) (ih _ _)
      · split
        · intro x hx
          rw [List.mem_singleton.mp hx]
          exact noNul_append (noNul_append hcomma (noNul_decDigits _)) nn_m
        · exact all_cons (noNul_append (noNul_append (noNul_append hcomma (noNul_decDigits _)) nn_m) (noNul_decDigits _)) (ih _ _)

theorem chunksList_noNul (b : Bitmap) : NoNul (text b.chunksList) :=
  noNul_text (listBody_noNul b _ _ _)

/-! ### transfer of the round trips -/

theorem toScan_ok {r : CRes} {ws : List (Option Word)} {inf : Bool} (h : r.toScan = .ok ws inf) : r = .ok ws inf := by
  cases r with
  | ok ws' inf' => simp only [CRes.toScan] at h; injection h with h1 h2; rw [h1, h2]
  | fail => cases h
  | assertFail => cases h
  | okBig => cases h

theorem cursor_roundtrip_hwloc (b : Bitmap) (hinv : b.Inv) :
    ∃ ws inf, (hwlocSscanfC (text b.chunksHwloc)).res = .ok (ws.map some) inf ∧
      ∀ n, (Bitmap.mk ws inf).mem n = b.mem n := by
  obtain ⟨ws, inf, h, hm⟩ := hwloc_roundtrip b hinv
  refine ⟨ws, inf, ?_, hm⟩
  apply toScan_ok
  rw [hwlocSscanfC_refine _ (chunksHwloc_noNul b) (by rw [h]; intro e; cases e), h]

theorem cursor_roundtrip_taskset (b : Bitmap) (hinv : b.Inv) :
    ∃ ws inf, (tasksetSscanfC (text b.chunksTaskset)).res = .ok (ws.map some) inf ∧
      ∀ n, (Bitmap.mk ws inf).mem n = b.mem n := by
  obtain ⟨ws, inf, h, hm⟩ := taskset_roundtrip b hinv
  refine ⟨ws, inf, ?_, hm⟩
  apply toScan_ok
  rw [tasksetSscanfC_refine _ (chunksTaskset_noNul b) (by rw [h]; intro e; cases e), h]

theorem cursor_roundtrip_list (b : Bitmap) (hinv : b.Inv) (hb : b.count * 64 + 64 ≤ listMaxIndex) :
    ∃ ws inf, (listSscanfC (text b.chunksList)).res = .ok (ws.map some) inf ∧
      ∀ n, (Bitmap.mk ws inf).mem n = b.mem n := by
  obtain ⟨ws, inf, h, hm⟩ := list_roundtrip b hinv hb
  refine ⟨ws, inf, ?_, hm⟩
  apply toScan_ok
  rw [listSscanfC_refine _ (chunksList_noNul b) (by rw [h]; intro e; cases e), h]

end Cursor
end Bitmap
end Hw
