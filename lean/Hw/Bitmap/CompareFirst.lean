/-
  Hw.Bitmap.CompareFirst — `hwloc_bitmap_compare_first` (literal model) has the sign of the
  comparison of the two `first` indexes, the empty set being the greatest.
-/
import Hw.Bitmap.Order
namespace Hw

/-- the documented meaning of `compare_first` in terms of the two `first` results -/
def cmpFirstSpec (f1 f2 : Int) : Int :=
  if f1 = f2 then 0 else if f1 = -1 then 1 else if f2 = -1 then -1 else if f1 < f2 then -1 else 1

def sgn (v : Int) : Int := if v < 0 then -1 else if 0 < v then 1 else 0

namespace Bitmap

theorem first_of_firstNZ_some (b : Bitmap) (i : Nat) (h : b.firstNZ = some i) :
    b.first = ((ffsl (b.readWord i) - 1 + 64 * i : Nat) : Int) := by
  unfold first; rw [h]

theorem first_of_firstNZ_none (b : Bitmap) (h : b.firstNZ = none) :
    b.first = if b.inf then ((b.count * 64 : Nat) : Int) else -1 := by
  unfold first; rw [h]

theorem firstNZ_some_of (b : Bitmap) (i : Nat) (hi : i < b.count) (hne : b.readWord i ≠ 0#64)
    (hz : ∀ k, k < i → b.readWord k = 0#64) : b.firstNZ = some i := by
  unfold firstNZ
  apply lowest_some.mpr
  refine ⟨hi, by simpa using hne, fun k hk => by simp [hz k hk]⟩

theorem firstNZ_none_of (b : Bitmap) (hz : ∀ k, k < b.count → b.readWord k = 0#64) : b.firstNZ = none := by
  unfold firstNZ
  apply lowest_none.mpr
  intro k hk; simp [hz k hk]

theorem first_ge_neg_one (b : Bitmap) : -1 ≤ b.first := by
  rcases first_spec b with ⟨e, _⟩ | ⟨n, e, _, _⟩ <;> omega

/-- if the first `K` virtual words are zero, `first` is −1 or at least `64*K` -/
theorem first_of_zero_prefix (b : Bitmap) (K : Nat) (hz : ∀ k, k < K → b.readWord k = 0#64) :
    b.first = -1 ∨ ((64 * K : Nat) : Int) ≤ b.first := by
  rcases first_spec b with ⟨e, _⟩ | ⟨n, e, hn, _⟩
  · exact Or.inl e
  · right
    rw [e]
    have : ¬ n / 64 < K := by
      intro hk
      rw [mem_def, hz _ hk] at hn
      simp at hn
    have : 64 * K ≤ n := by omega
    exact_mod_cast this

theorem first_ne_neg_one_of_word (b : Bitmap) (i : Nat) (hne : b.readWord i ≠ 0#64) : b.first ≠ -1 := by
  intro e
  rcases first_spec b with ⟨_, h0⟩ | ⟨n, e', _, _⟩
  · exact hne ((readWord_zero_iff b i).mpr (fun j _ => h0 _))
  · omega

theorem first_eq_of (b : Bitmap) (n : Nat) (hn : b.mem n = true) (hl : ∀ m, m < n → b.mem m = false) :
    b.first = (n : Int) :=
  (first_spec b).unique (Or.inr ⟨n, rfl, hn, hl⟩)

theorem first_mem (b : Bitmap) (n : Nat) (h : b.first = (n : Int)) : b.mem n = true := by
  rcases first_spec b with ⟨e, _⟩ | ⟨n', e, hn, _⟩
  · omega
  · have : n = n' := by omega
    rw [this]; exact hn

theorem range_any_false_iff (n : Nat) (p : Nat → Bool) :
    (List.range n).any p = false ↔ ∀ i, i < n → p i = false := by
  simp [List.any_eq_false]

theorem compareFirst_spec (a b : Bitmap) : sgn (a.compareFirst b) = cmpFirstSpec a.first b.first := by
  unfold compareFirst
  simp only
  cases hl : lowest (fun i => a.readWord i != 0#64 || b.readWord i != 0#64) (min a.count b.count) with
  | some i =>
    simp only
    obtain ⟨hi, hor, hlow⟩ := lowest_some.mp hl
    have hza : ∀ k, k < i → a.readWord k = 0#64 := fun k hk => by
      have := hlow k hk; simp only [Bool.or_eq_false_iff, bne_eq_false_iff_eq] at this; exact this.1
    have hzb : ∀ k, k < i → b.readWord k = 0#64 := fun k hk => by
      have := hlow k hk; simp only [Bool.or_eq_false_iff, bne_eq_false_iff_eq] at this; exact this.2
    by_cases ha : a.readWord i = 0#64
    · have hb : b.readWord i ≠ 0#64 := by
        intro hb; rw [ha, hb] at hor; simp at hor
      have fa0 : ffsl (a.readWord i) = 0 := (ffsl_eq_zero_iff _).mpr ha
      obtain ⟨g1, g2, _, _⟩ := ffsl_spec _ hb
      have hfb := first_of_firstNZ_some b i (firstNZ_some_of b i (by omega) hb hzb)
      have hfa := first_of_zero_prefix a (i + 1) (fun k hk => by
        by_cases hk' : k < i
        · exact hza k hk'
        · have : k = i := by omega
          rw [this]; exact ha)
      rw [fa0, hfb]
      simp only [ne_eq, not_true_eq_false, false_and, if_false]
      unfold sgn cmpFirstSpec
      rcases hfa with hfa | hfa
      · rw [hfa]; repeat' split <;> omega
      · have : ((64 * (i + 1) : Nat) : Int) = 64 * (i : Int) + 64 := by omega
        repeat' split <;> omega
    · by_cases hb : b.readWord i = 0#64
      · have fb0 : ffsl (b.readWord i) = 0 := (ffsl_eq_zero_iff _).mpr hb
        obtain ⟨g1, g2, _, _⟩ := ffsl_spec _ ha
        have hfa := first_of_firstNZ_some a i (firstNZ_some_of a i (by omega) ha hza)
        have hfb := first_of_zero_prefix b (i + 1) (fun k hk => by
          by_cases hk' : k < i
          · exact hzb k hk'
          · have : k = i := by omega
            rw [this]; exact hb)
        rw [fb0, hfa]
        simp only [ne_eq, not_true_eq_false, and_false, if_false]
        unfold sgn cmpFirstSpec
        rcases hfb with hfb | hfb
        · rw [hfb]; repeat' split <;> omega
        · have : ((64 * (i + 1) : Nat) : Int) = 64 * (i : Int) + 64 := by omega
          repeat' split <;> omega
      · obtain ⟨g1, g2, _, _⟩ := ffsl_spec _ ha
        obtain ⟨k1, k2, _, _⟩ := ffsl_spec _ hb
        have hfa := first_of_firstNZ_some a i (firstNZ_some_of a i (by omega) ha hza)
        have hfb := first_of_firstNZ_some b i (firstNZ_some_of b i (by omega) hb hzb)
        have n1 : ffsl (a.readWord i) ≠ 0 := by omega
        have n2 : ffsl (b.readWord i) ≠ 0 := by omega
        rw [hfa, hfb]
        simp only [ne_eq, n1, n2, not_false_eq_true, and_self, if_true]
        unfold sgn cmpFirstSpec
        repeat' split <;> omega
  | none =>
    simp only
    have hnone := lowest_none.mp hl
    have hza : ∀ k, k < min a.count b.count → a.readWord k = 0#64 := fun k hk => by
      have := hnone k hk; simp only [Bool.or_eq_false_iff, bne_eq_false_iff_eq] at this; exact this.1
    have hzb : ∀ k, k < min a.count b.count → b.readWord k = 0#64 := fun k hk => by
      have := hnone k hk; simp only [Bool.or_eq_false_iff, bne_eq_false_iff_eq] at this; exact this.2
    by_cases hlt : a.count < b.count
    · simp only [hlt, if_true]
      have hmin : min a.count b.count = a.count := by omega
      rw [hmin] at hza hzb ⊢
      have hfa := first_of_firstNZ_none a (firstNZ_none_of a hza)
      by_cases hai : a.inf = true
      · simp only [hai, if_true] at hfa ⊢
        by_cases hbit : (b.readWord a.count).getLsbD 0 = true
        · simp only [hbit, if_true]
          have hfb : b.first = ((a.count * 64 : Nat) : Int) := by
            apply first_eq_of
            · have := readWord_getLsbD b a.count 0 (by omega)
              rw [hbit] at this
              have e : 64 * a.count + 0 = a.count * 64 := by omega
              rw [e] at this; exact this.symm
            · intro m hm
              rw [mem_def, hzb _ (by omega)]; simp
          rw [hfa, hfb]; unfold sgn cmpFirstSpec; simp
        · simp only [hbit, Bool.false_eq_true, if_false]
          have hbit' : (b.readWord a.count).getLsbD 0 = false := by simpa using hbit
          have hfb := first_of_zero_prefix b a.count hzb
          have hne : b.first ≠ ((a.count * 64 : Nat) : Int) := by
            intro e
            have := first_mem b _ e
            have h2 := readWord_getLsbD b a.count 0 (by omega)
            have e2 : 64 * a.count + 0 = a.count * 64 := by omega
            rw [e2, this, hbit'] at h2; cases h2
          rw [hfa]; unfold sgn cmpFirstSpec
          have : ((64 * a.count : Nat) : Int) = ((a.count * 64 : Nat) : Int) := by omega
          rcases hfb with hfb | hfb
          · rw [hfb]; repeat' split <;> omega
          · repeat' split <;> omega
      · have hai' : a.inf = false := by simpa using hai
        simp only [hai', Bool.false_eq_true, if_false] at hfa ⊢
        by_cases hany : (List.range b.count).any (fun i => decide (a.count ≤ i) && b.readWord i != 0#64) = true
        · simp only [hany, if_true]
          obtain ⟨i, _, hi⟩ := (range_any_iff _ _).mp hany
          simp only [Bool.and_eq_true, decide_eq_true_eq, bne_iff_ne, ne_eq] at hi
          have := first_ne_neg_one_of_word b i hi.2
          have := first_ge_neg_one b
          rw [hfa]; unfold sgn cmpFirstSpec; repeat' split <;> omega
        · have hany' : (List.range b.count).any (fun i => decide (a.count ≤ i) && b.readWord i != 0#64) = false := by
            simpa using hany
          simp only [hany', Bool.false_eq_true, if_false]
          have hallz : ∀ k, k < b.count → b.readWord k = 0#64 := by
            intro k hk
            by_cases hk2 : k < a.count
            · exact hzb k hk2
            · have := (range_any_false_iff _ _).mp hany' k hk
              simp only [Bool.and_eq_false_iff, decide_eq_false_iff_not, bne_eq_false_iff_eq] at this
              rcases this with h | h
              · omega
              · exact h
          have hfb := first_of_firstNZ_none b (firstNZ_none_of b hallz)
          rw [hfa, hfb]; unfold compareFirstTail sgn cmpFirstSpec
          cases b.inf <;> simp <;> omega
    · simp only [hlt, if_false]
      by_cases hgt : b.count < a.count
      · simp only [hgt, if_true]
        have hmin : min a.count b.count = b.count := by omega
        rw [hmin] at hza hzb ⊢
        have hfb := first_of_firstNZ_none b (firstNZ_none_of b hzb)
        by_cases hbi : b.inf = true
        · simp only [hbi, if_true] at hfb ⊢
          by_cases hbit : (a.readWord b.count).getLsbD 0 = true
          · simp only [hbit, if_true]
            have hfa : a.first = ((b.count * 64 : Nat) : Int) := by
              apply first_eq_of
              · have := readWord_getLsbD a b.count 0 (by omega)
                rw [hbit] at this
                have e : 64 * b.count + 0 = b.count * 64 := by omega
                rw [e] at this; exact this.symm
              · intro m hm
                rw [mem_def, hza _ (by omega)]; simp
            rw [hfa, hfb]; unfold sgn cmpFirstSpec; simp
          · simp only [hbit, Bool.false_eq_true, if_false]
            have hbit' : (a.readWord b.count).getLsbD 0 = false := by simpa using hbit
            have hfa := first_of_zero_prefix a b.count hza
            have hne : a.first ≠ ((b.count * 64 : Nat) : Int) := by
              intro e
              have := first_mem a _ e
              have h2 := readWord_getLsbD a b.count 0 (by omega)
              have e2 : 64 * b.count + 0 = b.count * 64 := by omega
              rw [e2, this, hbit'] at h2; cases h2
            rw [hfb]; unfold sgn cmpFirstSpec
            have : ((64 * b.count : Nat) : Int) = ((b.count * 64 : Nat) : Int) := by omega
            rcases hfa with hfa | hfa
            · rw [hfa]; repeat' split <;> omega
            · repeat' split <;> omega
        · have hbi' : b.inf = false := by simpa using hbi
          simp only [hbi', Bool.false_eq_true, if_false] at hfb ⊢
          by_cases hany : (List.range a.count).any (fun i => decide (b.count ≤ i) && a.readWord i != 0#64) = true
          · simp only [hany, if_true]
            obtain ⟨i, _, hi⟩ := (range_any_iff _ _).mp hany
            simp only [Bool.and_eq_true, decide_eq_true_eq, bne_iff_ne, ne_eq] at hi
            have := first_ne_neg_one_of_word a i hi.2
            have := first_ge_neg_one a
            rw [hfb]; unfold sgn cmpFirstSpec; repeat' split <;> omega
          · have hany' : (List.range a.count).any (fun i => decide (b.count ≤ i) && a.readWord i != 0#64) = false := by
              simpa using hany
            simp only [hany', Bool.false_eq_true, if_false]
            have hallz : ∀ k, k < a.count → a.readWord k = 0#64 := by
              intro k hk
              by_cases hk2 : k < b.count
              · exact hza k hk2
              · have := (range_any_false_iff _ _).mp hany' k hk
                simp only [Bool.and_eq_false_iff, decide_eq_false_iff_not, bne_eq_false_iff_eq] at this
                rcases this with h | h
                · omega
                · exact h
            have hfa := first_of_firstNZ_none a (firstNZ_none_of a hallz)
            rw [hfa, hfb]; unfold compareFirstTail sgn cmpFirstSpec
            cases a.inf <;> simp <;> omega
      · simp only [hgt, if_false]
        have heq : a.count = b.count := by omega
        have hmin : min a.count b.count = a.count := by omega
        rw [hmin] at hza hzb
        have hfa := first_of_firstNZ_none a (firstNZ_none_of a hza)
        have hfb := first_of_firstNZ_none b (firstNZ_none_of b (heq ▸ hzb))
        rw [hfa, hfb, heq]; unfold compareFirstTail sgn cmpFirstSpec
        cases a.inf <;> cases b.inf <;> simp <;> omega

end Bitmap
end Hw
