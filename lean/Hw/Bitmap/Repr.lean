/-
  Hw.Bitmap.Repr — representation-exact model of `struct hwloc_bitmap_s` (hwloc/bitmap.c).

  A bitmap is `ulongs_count` 64-bit words plus the `infinite` flag.  `ulongs_allocated`
  is not modelled (it never influences a result; allocation failure is out of scope).
-/
import Hw.Base.Basic
namespace Hw

structure Bitmap where
  words : List Word
  inf : Bool
deriving DecidableEq, Repr, Inhabited

namespace Bitmap

/-- `ulongs_count` -/
def count (b : Bitmap) : Nat := b.words.length

/-- the C invariant `ulongs_count >= 1` -/
def Inv (b : Bitmap) : Prop := 1 ≤ b.words.length

instance (b : Bitmap) : Decidable b.Inv := by unfold Inv; infer_instance

/-- `HWLOC_SUBBITMAP_READULONG(set, i)` -/
def readWord (b : Bitmap) (i : Nat) : Word := (b.words[i]?).getD (fillW b.inf)

/-- membership of index `n` in the set the bitmap denotes (`hwloc_bitmap_isset`) -/
def mem (b : Bitmap) (n : Nat) : Bool := (b.readWord (n / 64)).getLsbD (n % 64)

/-- uniform constructor: `c` words given by `f`, flag `inf` -/
def build (c : Nat) (f : Nat → Word) (inf : Bool) : Bitmap := ⟨(List.range c).map f, inf⟩

@[simp] theorem build_count (c f inf) : (build c f inf).count = c := by simp [build, count]
@[simp] theorem build_inf (c f inf) : (build c f inf).inf = inf := rfl
@[simp] theorem build_words_length (c f inf) : (build c f inf).words.length = c := by simp [build]

theorem readWord_lt (b : Bitmap) {i : Nat} (h : i < b.count) : b.readWord i = b.words[i]'h := by
  unfold readWord; simp [List.getElem?_eq_getElem h]

theorem readWord_ge (b : Bitmap) {i : Nat} (h : b.count ≤ i) : b.readWord i = fillW b.inf := by
  unfold readWord count at *; simp [List.getElem?_eq_none h]

theorem readWord_build (c : Nat) (f : Nat → Word) (inf : Bool) (i : Nat) :
    (build c f inf).readWord i = if i < c then f i else fillW inf := by
  by_cases h : i < c
  · simp only [h, if_true]
    unfold readWord build
    simp [List.getElem?_map, List.getElem?_range h]
  · simp only [h, if_false]
    exact readWord_ge _ (by simp; omega)

theorem build_inv (c f inf) (h : 1 ≤ c) : (build c f inf).Inv := by simp [Inv, h]

/-- two bitmaps denote the same set iff all their (virtual) words agree -/
theorem mem_ext_iff (a b : Bitmap) :
    (∀ n, a.mem n = b.mem n) ↔ ∀ k, a.readWord k = b.readWord k := by
  constructor
  · intro h k
    apply BitVec.eq_of_getLsbD_eq
    intro j hj
    have := h (64 * k + j)
    unfold mem at this
    have e1 : (64 * k + j) / 64 = k := by omega
    have e2 : (64 * k + j) % 64 = j := by omega
    rw [e1, e2] at this; exact this
  · intro h n; unfold mem; rw [h]

/-- the word-level reading determines the flag -/
theorem readWord_eq_imp_inf (a b : Bitmap) (h : ∀ k, a.readWord k = b.readWord k) : a.inf = b.inf := by
  have := h (max a.count b.count)
  rw [readWord_ge a (Nat.le_max_left _ _), readWord_ge b (Nat.le_max_right _ _)] at this
  cases ha : a.inf <;> cases hb : b.inf <;> simp_all [fillW]

end Bitmap
end Hw
