/-
  Hw.Bitmap.ScanCursorSafe — memory safety of the cursor-level parser models, for EVERY byte string:
  every logged read index is ≤ s.length (the terminating NUL), every logged store into `ulongs[]`
  has 0 ≤ index < ulongs_count ≤ ulongs_allocated, every store into `ustr` has index < 17.
-/
import Hw.Bitmap.ScanCursor
namespace Hw
namespace Bitmap
namespace Cursor

/-- every access recorded in the log is in bounds, for an input of `n` bytes + NUL -/
def Log.Safe (n : Nat) (lg : Log) : Prop :=
  (∀ r, r ∈ lg.reads → r ≤ n) ∧ (∀ w, w ∈ lg.writes → 0 ≤ w.1 ∧ w.1 < (w.2 : Int)) ∧ (∀ u, u ∈ lg.ustr → u < 17)

theorem safe_empty (n : Nat) : Log.empty.Safe n := by
  refine ⟨?_, ?_, ?_⟩ <;> intro x hx <;> cases hx

theorem safe_rd {n : Nat} {lg : Log} (h : lg.Safe n) {i : Nat} (hi : i ≤ n) : (lg.rd i).Safe n := by
  refine ⟨?_, h.2.1, h.2.2⟩
  intro r hr
  simp only [Log.rd, List.mem_cons] at hr
  rcases hr with rfl | hr
  · exact hi
  · exact h.1 r hr

theorem safe_rdRange {n : Nat} {lg : Log} (h : lg.Safe n) {i k : Nat} (hi : i + k ≤ n + 1) :
    (lg.rdRange i k).Safe n := by
  refine ⟨?_, h.2.1, h.2.2⟩
  intro r hr
  simp only [Log.rdRange, List.mem_append, List.mem_map, List.mem_range] at hr
  rcases hr with ⟨j, hj, rfl⟩ | hr
  · omega
  · exact h.1 r hr

theorem safe_wr {n : Nat} {lg : Log} (h : lg.Safe n) {i : Int} {cnt : Nat} (h0 : 0 ≤ i) (h1 : i < (cnt : Int)) :
    (lg.wr i cnt).Safe n := by
  refine ⟨h.1, ?_, h.2.2⟩
  intro w hw
  simp only [Log.wr, List.mem_cons] at hw
  rcases hw with rfl | hw
  · exact ⟨h0, h1⟩
  · exact h.2.1 w hw

theorem safe_uwRange {n : Nat} {lg : Log} (h : lg.Safe n) {k : Nat} (hk : k ≤ 17) : (lg.uwRange k).Safe n := by
  refine ⟨h.1, h.2.1, ?_⟩
  intro u hu
  simp only [Log.uwRange, List.mem_append, List.mem_range] at hu
  rcases hu with hu | hu
  · omega
  · exact h.2.2 u hu

theorem safe_uw {n : Nat} {lg : Log} (h : lg.Safe n) {i : Nat} (hi : i < 17) : (lg.uw i).Safe n := by
  refine ⟨h.1, h.2.1, ?_⟩
  intro u hu
  simp only [Log.uw, List.mem_cons] at hu
  rcases hu with rfl | hu
  · exact hi
  · exact h.2.2 u hu

/-! ### the string memory -/

theorem rd_ge (s : List Byte) (i : Nat) (h : s.length ≤ i) : rd s i = 0 := by
  simp [rd, List.getD_eq_getElem?_getD, List.getElem?_eq_none h]

theorem rd_ne_zero_lt (s : List Byte) (i : Nat) (h : rd s i ≠ 0) : i < s.length := by
  apply Classical.byContradiction
  intro hn
  exact h (rd_ge s i (by omega))

theorem scanWhile_ge (p : Byte → Bool) (s : List Byte) : ∀ fuel i, i ≤ scanWhile p s fuel i := by
  intro fuel
  induction fuel with
  | zero => intro i; exact Nat.le_refl _
  | succ f ih =>
    intro i
    unfold scanWhile
    split
    · exact Nat.le_trans (Nat.le_succ i) (ih (i+1))
    · exact Nat.le_refl _

/-- a scan whose predicate is false on NUL never leaves the string -/
theorem scanWhile_le (p : Byte → Bool) (hp : p 0 = false) (s : List Byte) :
    ∀ fuel i, i ≤ s.length → scanWhile p s fuel i ≤ s.length := by
  intro fuel
  induction fuel with
  | zero => intro i h; exact h
  | succ f ih =>
    intro i h
    unfold scanWhile
    split
    · rename_i hpi
      apply ih
      have : rd s i ≠ 0 := by
        intro e; rw [e, hp] at hpi; cases hpi
      exact rd_ne_zero_lt s i this
    · exact h

theorem isSpace_zero : isSpace 0 = false := by decide
theorem isDigitIn_zero (b : Nat) : isDigitIn b 0 = false := by
  simp [isDigitIn, digitVal]

/-- strtoul reads a contiguous block that ends at the NUL at the latest -/
theorem strtoScanned_le (base : Nat) (s : List Byte) (i : Nat) (hi : i ≤ s.length) :
    i + strtoScanned base s i ≤ s.length + 1 := by
  unfold strtoScanned
  simp only
  generalize hp : scanWhile isSpace s (s.length + 1) i = p
  have hp1 : i ≤ p := hp ▸ scanWhile_ge _ _ _ _
  have hp2 : p ≤ s.length := hp ▸ scanWhile_le _ isSpace_zero _ _ _ hi
  generalize hq : (if rd s p = 45 ∨ rd s p = 43 then p + 1 else p) = q
  have hq1 : p ≤ q := by rw [← hq]; split <;> omega
  have hq2 : q ≤ s.length := by
    rw [← hq]; split
    · rename_i h
      have : rd s p ≠ 0 := by rcases h with h | h <;> rw [h] <;> decide
      have := rd_ne_zero_lt s p this
      omega
    · exact hp2
  generalize hX : (rd s q == 48 && (rd s (q+1) == 120 || rd s (q+1) == 88) && (base == 16 || base == 0)) = hasX
  generalize hb : (if hasX = true then 16 else if (base == 0) = true then (if rd s q = 48 then 8 else 10) else base) = b
  generalize hd : (if hasX = true then q + 2 else q) = d0
  have hd1 : q ≤ d0 := by rw [← hd]; split <;> omega
  have hd2 : d0 ≤ s.length := by
    rw [← hd]; split
    · rename_i h
      rw [← hX] at h
      simp only [Bool.and_eq_true, beq_iff_eq, Bool.or_eq_true] at h
      have h1 : rd s (q+1) ≠ 0 := by rcases h.1.2 with h | h <;> rw [h] <;> decide
      have := rd_ne_zero_lt s (q+1) h1
      omega
    · exact hq2
  have he1 := scanWhile_ge (isDigitIn b) s (s.length + 1) d0
  have he2 := scanWhile_le (isDigitIn b) (isDigitIn_zero b) s (s.length + 1) d0 hd2
  omega

theorem ite_snd_le {c : Prop} [Decidable c] (a b : Nat × Nat) (n : Nat) (ha : a.2 ≤ n) (hb : b.2 ≤ n) :
    (if c then a else b).2 ≤ n := by
  split <;> assumption

theorem strtoCore_adv_le (base : Nat) (l s1 : List Byte) (neg : Bool) : (strtoCore base l s1 neg).2 ≤ l.length := by
  unfold strtoCore
  simp only
  apply ite_snd_le
  · exact Nat.zero_le _
  · exact Nat.sub_le _ _

theorem strtoulL_adv_le (base : Nat) (l : List Byte) : (strtoulL base l).2 ≤ l.length := by
  unfold strtoulL
  split <;> exact strtoCore_adv_le _ _ _ _

theorem strtoulC_next_le (base : Nat) (s : List Byte) (i : Nat) (hi : i ≤ s.length) :
    i + (strtoulC base s i).adv ≤ s.length := by
  have := strtoulL_adv_le base (s.drop i)
  simp only [strtoulC]
  rw [List.length_drop] at this
  omega

theorem strtoulC_scanned (base : Nat) (s : List Byte) (i : Nat) : (strtoulC base s i).scanned = strtoScanned base s i := rfl

theorem safe_strtoul {s : List Byte} {lg : Log} (h : lg.Safe s.length) (base i : Nat) (hi : i ≤ s.length) :
    (lg.rdRange i (strtoulC base s i).scanned).Safe s.length :=
  safe_rdRange h (by rw [strtoulC_scanned]; exact strtoScanned_le base s i hi)

/-- `strncmp` against a literal without NUL stays inside the string -/
theorem matchLen_le (s : List Byte) : ∀ (pat : List Byte) (i : Nat), (∀ c, c ∈ pat → c ≠ 0) → i ≤ s.length →
    i + matchLen s i pat ≤ s.length := by
  intro pat
  induction pat with
  | nil => intro i _ h; simpa [matchLen] using h
  | cons c cs ih =>
    intro i hc h
    unfold matchLen
    split
    · rename_i e
      have hne : rd s i ≠ 0 := by rw [e]; exact hc c (List.mem_cons_self ..)
      have hlt := rd_ne_zero_lt s i hne
      have := ih (i+1) (fun c' hc' => hc c' (List.mem_cons_of_mem _ hc')) hlt
      omega
    · omega

theorem matchLen_le_length (s : List Byte) : ∀ (pat : List Byte) (i : Nat), matchLen s i pat ≤ pat.length := by
  intro pat
  induction pat with
  | nil => intro i; simp [matchLen]
  | cons c cs ih =>
    intro i
    unfold matchLen
    split
    · have := ih (i+1); simp only [List.length_cons]; omega
    · omega

theorem safe_strncmp {s : List Byte} {lg : Log} (h : lg.Safe s.length) (i : Nat) (pat : List Byte)
    (hpat : ∀ c, c ∈ pat → c ≠ 0) (hi : i ≤ s.length) :
    (strncmpC s i pat lg).2.Safe s.length := by
  unfold strncmpC
  simp only
  apply safe_rdRange h
  have := matchLen_le s pat i hpat hi
  split <;> omega

/-- after a successful `strncmp` the cursor may advance by the literal's length -/
theorem strncmp_true_le {s : List Byte} {lg : Log} (i : Nat) (pat : List Byte)
    (hpat : ∀ c, c ∈ pat → c ≠ 0) (hi : i ≤ s.length) (hm : (strncmpC s i pat lg).1 = true) :
    i + pat.length ≤ s.length := by
  unfold strncmpC at hm
  simp only [beq_iff_eq] at hm
  have := matchLen_le s pat i hpat hi
  omega

theorem pat_inf_nz : ∀ c, c ∈ pat_inf → c ≠ 0 := by decide
theorem pat_0x_nz : ∀ c, c ∈ pat_0x → c ≠ 0 := by decide

/-! ### hwloc format -/

theorem commaPass_safe (s : List Byte) : ∀ fuel cur count lg, lg.Safe s.length → cur ≤ s.length →
    (commaPass s fuel cur count lg).2.Safe s.length := by
  intro fuel
  induction fuel with
  | zero => intro cur count lg h _; exact h
  | succ f ih =>
    intro cur count lg h hc
    unfold commaPass
    simp only
    have hj1 := scanWhile_ge (fun c => c != 44 && c != 0) s (s.length + 1) cur
    have hj2 := scanWhile_le (fun c => c != 44 && c != 0) (by decide) s (s.length + 1) cur hc
    have hs : (lg.rdRange cur (scanWhile (fun c => c != 44 && c != 0) s (s.length + 1) cur + 1 - cur)).Safe s.length :=
      safe_rdRange h (by omega)
    split
    · rename_i e
      apply ih _ _ _ hs
      have : rd s (scanWhile (fun c => c != 44 && c != 0) s (s.length + 1) cur) ≠ 0 := by rw [e]; decide
      have := rd_ne_zero_lt s _ this
      omega
    · exact hs

theorem hwlocLoopC_safe (s : List Byte) (nw : Nat) : ∀ fuel cur count accum ws infinite lg,
    lg.Safe s.length → cur ≤ s.length → count ≤ 2 * nw →
    (hwlocLoopC s nw fuel cur count accum ws infinite lg).log.Safe s.length := by
  intro fuel
  induction fuel with
  | zero =>
    intro cur count accum ws infinite lg h hc _
    unfold hwlocLoopC
    exact safe_strtoul h 16 cur hc
  | succ f ih =>
    intro cur count accum ws infinite lg h hc hcnt
    unfold hwlocLoopC
    simp only
    have h1 := safe_strtoul h 16 cur hc
    have hn := strtoulC_next_le 16 s cur hc
    split
    · exact h1
    · rename_i hc0
      -- the store (if any) and the read of *next
      have h2 : (if (count - 1) % 2 = 0 then
            (setCell ws ((count - 1) / 2) (accum ||| BitVec.ofNat 64 (strtoulC 16 s cur).val <<< ((count - 1) * 32 % 64)), 0#64,
              (lg.rdRange cur (strtoulC 16 s cur).scanned).wr (((count - 1) / 2 : Nat) : Int) nw)
          else (ws, accum ||| BitVec.ofNat 64 (strtoulC 16 s cur).val <<< ((count - 1) * 32 % 64),
              lg.rdRange cur (strtoulC 16 s cur).scanned)).2.2.Safe s.length := by
        split
        · exact safe_wr h1 (by omega) (by omega)
        · exact h1
      have h3 := safe_rd h2 hn
      split
      · rename_i e
        apply ih _ _ _ _ _ _ h3
        · have : rd s (cur + (strtoulC 16 s cur).adv) ≠ 0 := by rw [e]; decide
          have := rd_ne_zero_lt s _ this
          omega
        · omega
      · split
        · exact safe_wr h3 (by omega) (by omega)
        · exact h3

theorem hwlocSscanfC_safe (s : List Byte) : (hwlocSscanfC s).log.Safe s.length := by
  unfold hwlocSscanfC
  simp only
  have h0 := commaPass_safe s (s.length + 1) 0 1 Log.empty (safe_empty _) (Nat.zero_le _)
  have h1 := safe_strncmp h0 0 pat_inf pat_inf_nz (Nat.zero_le _)
  split
  · rename_i hm
    have h7 : 7 ≤ s.length := by
      have := strncmp_true_le (s := s) (lg := (commaPass s (s.length + 1) 0 1 Log.empty).2) 0 pat_inf pat_inf_nz (Nat.zero_le _) hm
      simpa [pat_inf] using this
    have h2 := safe_rd h1 h7
    split
    · exact safe_wr h2 (by omega) (by omega)
    · rename_i e
      apply hwlocLoopC_safe s _ _ _ _ _ _ _ _ h2
      · have : rd s 7 ≠ 0 := by
          intro e0; apply e; rw [e0]; decide
        have := rd_ne_zero_lt s 7 this
        omega
      · omega
  · apply hwlocLoopC_safe s _ _ _ _ _ _ _ _ h1 (Nat.zero_le _)
    omega

/-! ### list format -/

theorem listLoopC_safe (s : List Byte) : ∀ fuel cur b beg big lg,
    lg.Safe s.length → cur ≤ s.length → (listLoopC s fuel cur b beg big lg).log.Safe s.length := by
  intro fuel
  induction fuel with
  | zero => intro cur b beg big lg h _; exact h
  | succ f ih =>
    intro cur b beg big lg h hc
    unfold listLoopC
    simp only
    have h1 := safe_rd h hc
    split
    · exact h1
    · have hc1 := scanWhile_ge (fun c => c == 44 || c == 32) s (s.length + 1) cur
      have hc2 := scanWhile_le (fun c => c == 44 || c == 32) (by decide) s (s.length + 1) cur hc
      generalize scanWhile (fun c => c == 44 || c == 32) s (s.length + 1) cur = c1 at hc1 hc2 ⊢
      have h2 : (((lg.rd cur).rdRange cur (c1 + 1 - cur))).Safe s.length := safe_rdRange h1 (by omega)
      have h3 := safe_strtoul h2 0 c1 hc2
      have hn := strtoulC_next_le 0 s c1 hc2
      generalize (strtoulC 0 s c1) = r at h3 hn ⊢
      have step : ∀ (lg' : Log), lg'.Safe s.length → rd s (c1 + r.adv) ≠ 0 →
          ∀ b' beg' big', (listLoopC s f (c1 + r.adv + 1) b' beg' big' lg').log.Safe s.length := by
        intro lg' hl hne b' beg' big'
        apply ih _ _ _ _ _ hl
        have := rd_ne_zero_lt s _ hne
        omega
      split
      · exact safe_wr h3 (by omega) (by omega)
      · have h4 := safe_rd h3 hn
        split
        · -- finishing a range
          split
          · exact h4
          · rename_i hne; exact step _ h4 hne _ _ _
        · split
          · rename_i e45
            have hne : rd s (c1 + r.adv) ≠ 0 := by rw [e45]; decide
            have hlt := rd_ne_zero_lt s _ hne
            have h5 := safe_rd h4 (i := c1 + r.adv + 1) (by omega)
            split
            · exact h5
            · exact step _ h5 hne _ _ _
          · split
            · split
              · exact h4
              · rename_i hne; exact step _ h4 hne _ _ _
            · split
              · exact h4
              · rename_i hne; exact step _ h4 hne _ _ _

theorem listSscanfC_safe (s : List Byte) : (listSscanfC s).log.Safe s.length := by
  unfold listSscanfC
  exact listLoopC_safe s _ _ _ _ _ _ (safe_wr (safe_empty _) (by omega) (by omega)) (Nat.zero_le _)

/-! ### taskset format -/

/-- with enough fuel a scan stops on a byte that fails the predicate -/
theorem scanWhile_stop (p : Byte → Bool) (hp : p 0 = false) (s : List Byte) :
    ∀ fuel i, s.length < i + fuel → p (rd s (scanWhile p s fuel i)) = false := by
  intro fuel
  induction fuel with
  | zero => intro i h; unfold scanWhile; rw [rd_ge s i (by omega)]; exact hp
  | succ f ih =>
    intro i h
    unfold scanWhile
    split
    · exact ih (i+1) (by omega)
    · rename_i hn; simpa using hn

theorem tasksetLoopC_safe (s : List Byte) (nw e : Nat) (he : e ≤ s.length) (hz : rd s e = 0) :
    ∀ fuel cur chars count ws infinite lg,
    lg.Safe s.length → cur + chars = e → chars ≤ 16 * count → 16 * count < chars + 16 → count ≤ nw →
    (tasksetLoopC s nw fuel cur chars count ws infinite lg).log.Safe s.length := by
  intro fuel
  induction fuel with
  | zero => intro cur chars count ws infinite lg h _ _ _ _; exact h
  | succ f ih =>
    intro cur chars count ws infinite lg h hce h1 h2 h3
    unfold tasksetLoopC
    simp only
    have hr := safe_rd h (i := cur) (by omega)
    split
    · exact hr
    · rename_i hne
      have hpos : 0 < chars := by
        apply Classical.byContradiction
        intro hn
        have : cur = e := by omega
        rw [this] at hne; exact hne hz
      generalize ht : (if chars % 16 = 0 then 16 else chars % 16) = t
      have ht1 : 1 ≤ t := by rw [← ht]; split <;> omega
      have ht2 : t ≤ 16 := by rw [← ht]; split <;> omega
      have ht3 : t ≤ chars := by rw [← ht]; split <;> omega
      have ht4 : (chars - t) % 16 = 0 := by rw [← ht]; split <;> omega
      have hl : ((((lg.rd cur).rdRange cur t).uwRange t).uw t).Safe s.length :=
        safe_uw (safe_uwRange (safe_rdRange hr (by omega)) (by omega)) (by omega)
      split
      · exact safe_wr hl (by omega) (by omega)
      · apply ih _ _ _ _ _ _ (safe_wr hl (by omega) (by omega)) <;> omega

theorem tasksetGoC_safe (s : List Byte) (cur : Nat) (infinite : Bool) (lg : Log) (h : lg.Safe s.length)
    (hc : cur ≤ s.length) : (tasksetGoC s cur infinite lg).log.Safe s.length := by
  unfold tasksetGoC
  simp only
  have he1 := scanWhile_ge (fun c => c != 0) s (s.length + 1) cur
  have he2 := scanWhile_le (fun c => c != 0) (by decide) s (s.length + 1) cur hc
  have hz : rd s (scanWhile (fun c => c != 0) s (s.length + 1) cur) = 0 := by
    have := scanWhile_stop (fun c => c != 0) (by decide) s (s.length + 1) cur (by omega)
    simpa using this
  generalize scanWhile (fun c => c != 0) s (s.length + 1) cur = e at he1 he2 hz ⊢
  apply tasksetLoopC_safe s _ e he2 hz _ _ _ _ _ _ _ (safe_rdRange h (by omega)) <;> omega

theorem tasksetSscanfC_safe (s : List Byte) : (tasksetSscanfC s).log.Safe s.length := by
  unfold tasksetSscanfC
  simp only
  have h1 := safe_strncmp (safe_empty s.length) 0 pat_inf pat_inf_nz (Nat.zero_le _)
  split
  · rename_i hm
    have h7 : 7 ≤ s.length := by
      have := strncmp_true_le (s := s) (lg := Log.empty) 0 pat_inf pat_inf_nz (Nat.zero_le _) hm
      simpa [pat_inf] using this
    have h2 := safe_rd h1 h7
    split
    · exact safe_wr h2 (by omega) (by omega)
    · exact tasksetGoC_safe s 7 true _ h2 h7
  · have h2 := safe_strncmp h1 0 pat_0x pat_0x_nz (Nat.zero_le _)
    have hcur : (if (strncmpC s 0 pat_0x (strncmpC s 0 pat_inf Log.empty).2).1 = true then 2 else 0) ≤ s.length := by
      split
      · rename_i hm
        have := strncmp_true_le (s := s) (lg := (strncmpC s 0 pat_inf Log.empty).2) 0 pat_0x pat_0x_nz (Nat.zero_le _) hm
        simpa [pat_0x] using this
      · exact Nat.zero_le _
    have h3 := safe_rd h2 hcur
    generalize (if (strncmpC s 0 pat_0x (strncmpC s 0 pat_inf Log.empty).2).1 = true then 2 else 0) = cu at hcur h3 ⊢
    split
    · exact safe_wr h3 (by omega) (by omega)
    · exact tasksetGoC_safe s _ false _ h3 hcur

/-! ### allocation: `ulongs_count ≤ ulongs_allocated` after the reset -/

theorem le_pow2ceil (n : Nat) : n ≤ pow2ceil n := by
  unfold pow2ceil
  split
  · omega
  · have := Nat.lt_log2_self (n := n - 1)
    omega

theorem le_allocFor (prev n : Nat) : n ≤ allocFor prev n ∧ prev ≤ allocFor prev n := by
  have := le_pow2ceil n
  unfold allocFor
  split <;> omega

end Cursor
end Bitmap
end Hw
