/-
  Hw.Bitmap.Combine — or / and / andnot / xor / not, constructors, singlify: word-level facts.
-/
import Hw.Bitmap.Lemmas
namespace Hw

theorem fillW_or (x y : Bool) : fillW x ||| fillW y = fillW (x || y) := by
  cases x <;> cases y <;> simp [fillW]
theorem fillW_and (x y : Bool) : fillW x &&& fillW y = fillW (x && y) := by
  cases x <;> cases y <;> simp [fillW]
theorem fillW_not (x : Bool) : ~~~ fillW x = fillW (!x) := by
  cases x <;> simp [fillW]
theorem fillW_xor (x y : Bool) : fillW x ^^^ fillW y = fillW (x != y) := by
  cases x <;> cases y <;> simp [fillW]
theorem or_fillW_true (w : Word) : w ||| fillW true = fillW true := by
  simp only [fillW_true, BitVec.or_allOnes]
theorem fillW_true_or (w : Word) : fillW true ||| w = fillW true := by
  simp only [fillW_true, BitVec.allOnes_or]
theorem and_fillW_false (w : Word) : w &&& fillW false = fillW false := by simp
theorem fillW_false_and (w : Word) : fillW false &&& w = fillW false := by simp

namespace Bitmap

theorem readWord_or (a b : Bitmap) (i : Nat) : (a.or b).readWord i = a.readWord i ||| b.readWord i := by
  unfold Bitmap.or
  rw [readWord_build]
  split
  · rfl
  · rename_i h
    unfold orCount at h
    split at h
    · rw [readWord_ge a (by omega), readWord_ge b (by omega), fillW_or]
    · split at h
      · split at h
        · rename_i hb
          rw [readWord_ge b (by omega), hb, or_fillW_true]; simp
        · rw [readWord_ge a (by omega), readWord_ge b (by omega), fillW_or]
      · split at h
        · rename_i ha
          rw [readWord_ge a (by omega), ha, fillW_true_or]; simp
        · rw [readWord_ge a (by omega), readWord_ge b (by omega), fillW_or]

theorem readWord_and (a b : Bitmap) (i : Nat) : (a.and b).readWord i = a.readWord i &&& b.readWord i := by
  unfold Bitmap.and
  rw [readWord_build]
  split
  · rfl
  · rename_i h
    unfold andCount at h
    split at h
    · rw [readWord_ge a (by omega), readWord_ge b (by omega), fillW_and]
    · split at h
      · split at h
        · rw [readWord_ge a (by omega), readWord_ge b (by omega), fillW_and]
        · rename_i hb
          have hb' : b.inf = false := by simpa using hb
          rw [readWord_ge b (by omega), hb', and_fillW_false]; simp
      · split at h
        · rw [readWord_ge a (by omega), readWord_ge b (by omega), fillW_and]
        · rename_i ha
          have ha' : a.inf = false := by simpa using ha
          rw [readWord_ge a (by omega), ha', fillW_false_and]; simp

theorem readWord_andnot (a b : Bitmap) (i : Nat) :
    (a.andnot b).readWord i = a.readWord i &&& ~~~ b.readWord i := by
  unfold Bitmap.andnot
  rw [readWord_build]
  split
  · rfl
  · rename_i h
    unfold andnotCount at h
    split at h
    · rw [readWord_ge a (by omega), readWord_ge b (by omega), fillW_not, fillW_and]
    · split at h
      · split at h
        · rw [readWord_ge a (by omega), readWord_ge b (by omega), fillW_not, fillW_and]
        · rename_i hb
          have hb' : b.inf = true := by simpa using hb
          rw [readWord_ge b (by omega), hb', fillW_not]; simp
      · split at h
        · rw [readWord_ge a (by omega), readWord_ge b (by omega), fillW_not, fillW_and]
        · rename_i ha
          have ha' : a.inf = false := by simpa using ha
          rw [readWord_ge a (by omega), ha']; simp

theorem readWord_xor (a b : Bitmap) (i : Nat) : (a.xor b).readWord i = a.readWord i ^^^ b.readWord i := by
  unfold Bitmap.xor
  rw [readWord_build]
  split
  · rfl
  · rw [readWord_ge a (by omega), readWord_ge b (by omega), fillW_xor]

theorem readWord_not (a : Bitmap) (i : Nat) : a.not.readWord i = ~~~ a.readWord i := by
  unfold Bitmap.not
  rw [readWord_build]
  split
  · rfl
  · rw [readWord_ge a (by omega), fillW_not]

theorem mem_or (a b : Bitmap) (n : Nat) : (a.or b).mem n = (a.mem n || b.mem n) := by
  simp only [mem_def, readWord_or, BitVec.getLsbD_or]
theorem mem_and (a b : Bitmap) (n : Nat) : (a.and b).mem n = (a.mem n && b.mem n) := by
  simp only [mem_def, readWord_and, BitVec.getLsbD_and]
theorem mem_andnot (a b : Bitmap) (n : Nat) : (a.andnot b).mem n = (a.mem n && !b.mem n) := by
  have hm : n % 64 < 64 := Nat.mod_lt _ (by omega)
  simp only [mem_def, readWord_andnot, BitVec.getLsbD_and, BitVec.getLsbD_not, hm, decide_true, Bool.true_and]
theorem mem_xor (a b : Bitmap) (n : Nat) : (a.xor b).mem n = (a.mem n != b.mem n) := by
  simp only [mem_def, readWord_xor, BitVec.getLsbD_xor]
theorem mem_not (a : Bitmap) (n : Nat) : a.not.mem n = !a.mem n := by
  have hm : n % 64 < 64 := Nat.mod_lt _ (by omega)
  simp only [mem_def, readWord_not, BitVec.getLsbD_not, hm, decide_true, Bool.true_and]

theorem orCount_pos (a b : Bitmap) (ha : a.Inv) (hb : b.Inv) : 1 ≤ orCount a b := by
  unfold orCount Inv count at *
  split
  · omega
  · split <;> split <;> omega
theorem andCount_pos (a b : Bitmap) (ha : a.Inv) (hb : b.Inv) : 1 ≤ andCount a b := by
  unfold andCount Inv count at *
  split
  · omega
  · split <;> split <;> omega
theorem andnotCount_pos (a b : Bitmap) (ha : a.Inv) (hb : b.Inv) : 1 ≤ andnotCount a b := by
  unfold andnotCount Inv count at *
  split
  · omega
  · split <;> split <;> omega

theorem or_inv (a b : Bitmap) (ha : a.Inv) (hb : b.Inv) : (a.or b).Inv := build_inv _ _ _ (orCount_pos a b ha hb)
theorem and_inv (a b : Bitmap) (ha : a.Inv) (hb : b.Inv) : (a.and b).Inv := build_inv _ _ _ (andCount_pos a b ha hb)
theorem andnot_inv (a b : Bitmap) (ha : a.Inv) (hb : b.Inv) : (a.andnot b).Inv :=
  build_inv _ _ _ (andnotCount_pos a b ha hb)
theorem xor_inv (a b : Bitmap) (ha : a.Inv) (_hb : b.Inv) : (a.xor b).Inv :=
  build_inv _ _ _ (by unfold Inv count at *; omega)
theorem not_inv (a : Bitmap) (ha : a.Inv) : a.not.Inv := build_inv _ _ _ ha

/-! ### constructors -/

theorem mem_alloc (n : Nat) : alloc.mem n = false := by
  unfold mem alloc readWord
  by_cases h : n / 64 = 0
  · simp [h]
  · have : ([0#64] : List Word)[n/64]? = none := by
      apply List.getElem?_eq_none; simp; omega
    simp [this]

theorem mem_allocFull (n : Nat) : allocFull.mem n = true := by
  have hm : n % 64 < 64 := Nat.mod_lt _ (by omega)
  unfold mem allocFull readWord
  by_cases h : n / 64 = 0
  · simp only [h, List.getElem?_cons_zero, Option.getD_some, BitVec.getLsbD_allOnes, hm, decide_true]
  · have : ([BitVec.allOnes 64] : List Word)[n/64]? = none := by
      apply List.getElem?_eq_none; simp; omega
    simp only [this, Option.getD_none, fillW_true, BitVec.getLsbD_allOnes, hm, decide_true]

theorem mem_zero (b : Bitmap) (n : Nat) : b.zero.mem n = false := mem_alloc n
theorem mem_fill (b : Bitmap) (n : Nat) : b.fill.mem n = true := mem_allocFull n
theorem mem_dup (b : Bitmap) (n : Nat) : b.dup.mem n = b.mem n := rfl
theorem mem_copy (d s : Bitmap) (n : Nat) : (d.copy s).mem n = s.mem n := rfl

theorem mem_fromUlongs (b : Bitmap) (ms : List Word) (n : Nat) :
    (b.fromUlongs ms).mem n = ((ms[n/64]?).getD 0#64).getLsbD (n%64) := rfl

theorem mem_fromUlong (b : Bitmap) (m : Word) (n : Nat) :
    (b.fromUlong m).mem n = (decide (n < 64) && m.getLsbD n) := by
  unfold mem fromUlong readWord
  by_cases h : n < 64
  · have e1 : n / 64 = 0 := by omega
    have e2 : n % 64 = n := by omega
    simp [e1, e2, h]
  · have : ([m] : List Word)[n/64]? = none := by
      apply List.getElem?_eq_none; simp; omega
    simp [this, h]

theorem mem_fromIthUlong (b : Bitmap) (i : Nat) (m : Word) (n : Nat) :
    (b.fromIthUlong i m).mem n = (decide (n / 64 = i) && m.getLsbD (n % 64)) := by
  unfold fromIthUlong
  rw [mem_def, readWord_build]
  by_cases h : n / 64 = i
  · have : n / 64 < i + 1 := by omega
    simp [h]
  · simp only [h, decide_false, Bool.false_and]
    split <;> simp [h]

theorem mem_only (b : Bitmap) (c n : Nat) : (b.only c).mem n = decide (n = c) := by
  unfold only
  rw [mem_def, readWord_build]
  by_cases h : n / 64 = c / 64
  · have : c / 64 < c / 64 + 1 := by omega
    simp only [h, this, if_true]
    rw [bitW_getLsbD _ _ (Nat.mod_lt _ (by omega))]
    by_cases h2 : n = c
    · subst h2; simp
    · have : n % 64 ≠ c % 64 := by omega
      simp [h2, this]
  · have hne : n ≠ c := by intro e; subst e; exact h rfl
    simp only [h, if_false, hne, decide_false]
    split <;> simp

theorem mem_allbut (b : Bitmap) (c n : Nat) : (b.allbut c).mem n = !decide (n = c) := by
  have hm : n % 64 < 64 := Nat.mod_lt _ (by omega)
  unfold allbut
  rw [mem_def, readWord_build]
  by_cases h : n / 64 = c / 64
  · have : c / 64 < c / 64 + 1 := by omega
    simp only [h, this, if_true]
    rw [BitVec.getLsbD_not, bitW_getLsbD _ _ (Nat.mod_lt _ (by omega))]
    by_cases h2 : n = c
    · subst h2; simp
    · have : n % 64 ≠ c % 64 := by omega
      simp [h2, this, hm]
  · have hne : n ≠ c := by intro e; subst e; exact h rfl
    simp only [h, if_false, hne, decide_false]
    split <;> simp only [fillW_true, BitVec.getLsbD_allOnes, hm, decide_true, Bool.not_false]

theorem alloc_inv : alloc.Inv := by decide
theorem allocFull_inv : allocFull.Inv := by decide
theorem zero_inv (b : Bitmap) : b.zero.Inv := by simp [Inv, zero]
theorem fill_inv (b : Bitmap) : b.fill.Inv := by simp [Inv, fill]
theorem fromUlong_inv (b : Bitmap) (m : Word) : (b.fromUlong m).Inv := by simp [Inv, fromUlong]
theorem fromIthUlong_inv (b : Bitmap) (i : Nat) (m : Word) : (b.fromIthUlong i m).Inv :=
  build_inv _ _ _ (by omega)
theorem fromUlongs_inv (b : Bitmap) (ms : List Word) (h : ms ≠ []) : (b.fromUlongs ms).Inv := by
  unfold Inv fromUlongs; simp only
  cases ms with
  | nil => exact absurd rfl h
  | cons _ _ => simp
theorem only_inv (b : Bitmap) (c : Nat) : (b.only c).Inv := build_inv _ _ _ (by omega)
theorem allbut_inv (b : Bitmap) (c : Nat) : (b.allbut c).Inv := build_inv _ _ _ (by omega)

end Bitmap
end Hw
