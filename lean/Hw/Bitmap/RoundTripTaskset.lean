/-
  Hw.Bitmap.RoundTripTaskset — parsing the text printed by `hwloc_bitmap_taskset_snprintf` with
  `hwloc_bitmap_taskset_sscanf` succeeds and gives a bitmap denoting the same set
  (finite and infinite bitmaps, any word count).

  Helper lemmas live in `Hw.Bitmap.TasksetRT`; the result is `Hw.Bitmap.taskset_roundtrip`.
-/
import Hw.Bitmap.ScanLemmas
import Hw.Base.NumLemmas
namespace Hw
namespace Bitmap
namespace TasksetRT

-- candidates for NumLemmas
theorem pow16 : (16:Nat)^16 = 2^64 := by decide
theorem pow16_8 : (16:Nat)^8 = 2^32 := by decide
-- end of candidates for NumLemmas

/-! ### word facts -/

theorem merge_word (w : BitVec 64) (h : w.toNat / 2^32 = 0xFFFFFFFF) :
    BitVec.ofNat 64 (w.toNat % 2^32) ||| (BitVec.allOnes 64 <<< 32) = w := by
  apply BitVec.eq_of_getLsbD_eq
  intro i hi
  have hw : w.toNat = 2^32 * (2^32 - 1) + w.toNat % 2^32 := by
    have := Nat.div_add_mod w.toNat (2^32)
    rw [h] at this; omega
  rw [BitVec.getLsbD_or, BitVec.getLsbD_ofNat, BitVec.getLsbD_shiftLeft, BitVec.getLsbD_allOnes,
    Nat.testBit_mod_two_pow]
  have hb : w.getLsbD i = w.toNat.testBit i := rfl
  rw [hb]
  by_cases h32 : i < 32
  · simp [h32, hi]
  · rw [hw, Nat.testBit_two_pow_mul_add _ (Nat.mod_lt _ (by decide)), Nat.testBit_two_pow_sub_one]
    simp [h32, hi]
    omega

theorem ofNat_toNat64 (w : Word) : BitVec.ofNat 64 w.toNat = w := by
  apply BitVec.eq_of_toNat_eq; simp

/-- cells written by the scanner loop for the words `ws` (most significant first) -/
def fillCells : List (Option Word) → List Word → List (Option Word)
  | cells, [] => cells
  | cells, w :: ws => fillCells (setCell cells ws.length w) ws

theorem fillCells_replicate (ws : List Word) (suf : List (Option Word)) :
    fillCells (List.replicate ws.length none ++ suf) ws = ws.reverse.map some ++ suf := by
  induction ws generalizing suf with
  | nil => simp [fillCells]
  | cons w ws ih =>
    have : setCell (List.replicate (w :: ws).length none ++ suf) ws.length w
        = List.replicate ws.length none ++ (some w :: suf) := by
      unfold setCell
      rw [List.length_cons, List.replicate_succ', List.append_assoc, List.set_append_right _ _ (by simp)]
      simp
    rw [fillCells, this, ih]; simp

theorem tasksetLoop_step (fuel : Nat) (chunk rest : List Byte) (chars count t val : Nat)
    (cells : List (Option Word)) (inf : Bool)
    (ht : (if chars % 16 = 0 then 16 else chars % 16) = t)
    (hlen : chunk.length = t) (hpos : 0 < t)
    (hs : strtoul 16 chunk = .ok val []) :
    tasksetLoop (fuel + 1) (chunk ++ rest) chars count cells inf =
      tasksetLoop fuel rest (chars - t) (count - 1)
        (setCell cells (count - 1)
          (if inf && t != 16 then BitVec.ofNat 64 val ||| (BitVec.allOnes 64 <<< (4 * t))
           else BitVec.ofNat 64 val)) inf := by
  have htake : (chunk ++ rest).take t = chunk := by rw [← hlen]; exact List.take_left
  have hdrop : (chunk ++ rest).drop t = rest := by rw [← hlen]; exact List.drop_left
  cases hc : chunk ++ rest with
  | nil =>
    have : chunk.length = 0 := by
      have := congrArg List.length hc; simp at this; simp [this.1]
    omega
  | cons c cs =>
    rw [hc] at htake hdrop
    conv => lhs; unfold tasksetLoop
    simp only [ht, htake, hdrop, hs]
    rfl

/-- the all-16-chars tail: words most significant first -/
theorem tasksetLoop_tail (ws : List Word) (fuel : Nat) (cells : List (Option Word)) (inf : Bool)
    (hf : ws.length < fuel) :
    tasksetLoop fuel (ws.map (fun w => hexPad 16 w.toNat)).flatten (16 * ws.length) ws.length cells inf
      = .ok (fillCells cells ws) inf := by
  induction ws generalizing fuel cells with
  | nil =>
    cases fuel with
    | zero => simp at hf
    | succ fuel => simp [tasksetLoop, fillCells]
  | cons w ws ih =>
    cases fuel with
    | zero => simp at hf
    | succ fuel =>
      have hl : (hexPad 16 w.toNat).length = 16 :=
        hexPad_length 16 _ (by decide) (by rw [pow16]; exact w.isLt)
      have hs : strtoul 16 (hexPad 16 w.toNat) = .ok w.toNat [] := by
        have := strtoul16_hexPad 16 w.toNat [] w.isLt noDigitHead_nil
        simpa using this
      simp only [List.map_cons, List.flatten_cons, List.length_cons]
      rw [tasksetLoop_step fuel _ _ _ _ 16 w.toNat cells inf (by rw [if_pos (by omega)]) hl (by decide) hs]
      have e1 : 16 * (ws.length + 1) - 16 = 16 * ws.length := by omega
      have e2 : ws.length + 1 - 1 = ws.length := by omega
      rw [e1, e2, ih _ _ (by simpa using hf)]
      simp [fillCells]

/-- the first chunk, then the tail -/
theorem tasksetLoop_first (chunk : List Byte) (w : Word) (ws : List Word) (val : Nat) (fuel : Nat)
    (cells : List (Option Word)) (inf : Bool)
    (hf : ws.length + 1 < fuel) (h1 : 1 ≤ chunk.length) (h16 : chunk.length ≤ 16)
    (hs : strtoul 16 chunk = .ok val [])
    (hw : (if inf && chunk.length != 16 then BitVec.ofNat 64 val ||| (BitVec.allOnes 64 <<< (4 * chunk.length))
           else BitVec.ofNat 64 val) = w) :
    tasksetLoop fuel (chunk ++ (ws.map (fun w => hexPad 16 w.toNat)).flatten)
        (chunk.length + 16 * ws.length) (ws.length + 1) cells inf
      = .ok (fillCells cells (w :: ws)) inf := by
  cases fuel with
  | zero => simp at hf
  | succ fuel =>
    rw [tasksetLoop_step fuel _ _ _ _ chunk.length val cells inf (by split <;> omega) rfl h1 hs]
    have e1 : chunk.length + 16 * ws.length - chunk.length = 16 * ws.length := by omega
    have e2 : ws.length + 1 - 1 = ws.length := by omega
    rw [e1, e2, hw, tasksetLoop_tail _ _ _ _ (by omega)]
    rfl

theorem tasksetGo_first (chunk : List Byte) (w : Word) (ws : List Word) (val : Nat) (inf : Bool)
    (h1 : 1 ≤ chunk.length) (h16 : chunk.length ≤ 16)
    (hs : strtoul 16 chunk = .ok val [])
    (hw : (if inf && chunk.length != 16 then BitVec.ofNat 64 val ||| (BitVec.allOnes 64 <<< (4 * chunk.length))
           else BitVec.ofNat 64 val) = w) :
    tasksetGo (chunk ++ (ws.map (fun w => hexPad 16 w.toNat)).flatten) inf
      = .ok ((ws.reverse ++ [w]).map some) inf := by
  have hlen : (ws.map (fun w => hexPad 16 w.toNat)).flatten.length = 16 * ws.length := by
    induction ws with
    | nil => rfl
    | cons v vs ih =>
      have hl : (hexPad 16 v.toNat).length = 16 :=
        hexPad_length 16 _ (by decide) (by rw [pow16]; exact v.isLt)
      simp only [List.map_cons, List.flatten_cons, List.length_append, List.length_cons, ih, hl]
      omega
  unfold tasksetGo
  simp only [List.length_append, hlen]
  have hc : ((chunk.length + 16 * ws.length) * 4 + 63) / 64 = ws.length + 1 := by omega
  rw [hc, tasksetLoop_first chunk w ws val _ _ inf (by omega) h1 h16 hs hw]
  have := fillCells_replicate (w :: ws) []
  simp only [List.length_cons, List.append_nil] at this
  rw [this]; simp

/-! ### printer side -/

theorem tasksetBody_started (ws : List Word) :
    tasksetBody ws true false = ws.map (fun w => hexPad 16 w.toNat) := by
  induction ws with
  | nil => rfl
  | cons w ws ih => simp [tasksetBody, ih]

theorem readWord_ge_topWords (b : Bitmap) (i : Nat) (h : b.topWords ≤ i) :
    b.readWord i = fillW b.inf := by
  by_cases hc : b.count ≤ i
  · exact readWord_ge b hc
  · unfold topWords at h
    have key : (b.readWord i != fillW b.inf) = false := by
      cases hh : highest (fun i => b.readWord i != fillW b.inf) b.count with
      | none => exact highest_none.mp hh i (by omega)
      | some j =>
        rw [hh] at h
        simp only at h
        exact (highest_some.mp hh).2.2 i (by omega) (by omega)
    simpa using key

theorem readWord_topWords_ne (b : Bitmap) (t : Nat) (h : b.topWords = t + 1) :
    b.readWord t ≠ fillW b.inf := by
  unfold topWords at h
  cases hh : highest (fun i => b.readWord i != fillW b.inf) b.count with
  | none => rw [hh] at h; simp at h
  | some j =>
    rw [hh] at h
    have : j = t := by simpa using h
    subst this
    simpa using (highest_some.mp hh).2.1

theorem range_succ_rev_map (f : Nat → Word) (k : Nat) :
    (List.range (k + 1)).reverse.map f = f k :: (List.range k).reverse.map f := by
  simp [List.range_succ]

theorem build_mem_eq (b : Bitmap) (K : Nat) (hK : b.topWords ≤ K) :
    ∀ n, (Bitmap.mk ((List.range K).map b.readWord) b.inf).mem n = b.mem n := by
  rw [mem_ext_iff]
  intro k
  have := readWord_build K b.readWord b.inf k
  unfold build at this
  rw [this]; split
  · rfl
  · exact (readWord_ge_topWords b k (by omega)).symm

theorem flatten_hexPad_chars (ws : List Word) :
    ∀ c, c ∈ (ws.map (fun w => hexPad 16 w.toNat)).flatten → IsHexChar c := by
  intro c hc
  rw [List.mem_flatten] at hc
  obtain ⟨l, hl, hcl⟩ := hc
  rw [List.mem_map] at hl
  obtain ⟨w, _, rfl⟩ := hl
  exact hexPad_chars _ _ c hcl

theorem isPrefix_inf_false (Y : List Byte) (hY : ∀ c, c ∈ Y → IsHexChar c) :
    isPrefix [48, 120, 102, 46, 46, 46, 102] (48 :: 120 :: Y) = false := by
  rw [Bool.eq_false_iff]
  intro h
  have h5 : Y.take 5 = [102, 46, 46, 46, 102] := by simpa [isPrefix] using h
  have : (46 : Nat) ∈ Y.take 5 := by rw [h5]; simp
  exact absurd (hY 46 (List.mem_of_mem_take this)) (by unfold IsHexChar; decide)

theorem taskset_scan_fin (b : Bitmap) (hinf : b.inf = false) :
    tasksetScan (text b.chunksTaskset)
      = .ok (((List.range (max b.topWords 1)).map b.readWord).map some) false := by
  obtain ⟨k, hk⟩ : ∃ k, max b.topWords 1 = k + 1 := ⟨max b.topWords 1 - 1, by omega⟩
  have hcond : (b.readWord k != 0#64 || ((List.range k).reverse.map b.readWord).isEmpty) = true := by
    cases k with
    | zero => simp
    | succ k =>
      have := readWord_topWords_ne b (k + 1) (by omega)
      rw [hinf, fillW_false] at this
      simp [this]
  have hchunks : b.chunksTaskset = (str "0x" ++ hexDigits (b.readWord k).toNat)
      :: ((List.range k).reverse.map b.readWord).map (fun w => hexPad 16 w.toNat) := by
    unfold chunksTaskset tasksetTop
    simp only [hinf, Bool.false_eq_true, if_false, hk, range_succ_rev_map, List.nil_append]
    unfold tasksetBody
    simp only [Bool.false_eq_true, if_false, hcond, if_true, tasksetBody_started]
    rw [if_neg]
    simp [text, str_0x]
  rw [hchunks, hk]
  simp only [text, List.flatten_cons, str_0x, List.cons_append, List.nil_append]
  have hY : ∀ c, c ∈ hexDigits (b.readWord k).toNat ++
      (((List.range k).reverse.map b.readWord).map (fun w => hexPad 16 w.toNat)).flatten → IsHexChar c := by
    intro c hc
    rw [List.mem_append] at hc
    rcases hc with hc | hc
    · exact hexDigits_chars _ c hc
    · exact flatten_hexPad_chars _ c hc
  have hne : (hexDigits (b.readWord k).toNat ++
      (((List.range k).reverse.map b.readWord).map (fun w => hexPad 16 w.toNat)).flatten).isEmpty = false := by
    have := hexDigits_ne_nil (b.readWord k).toNat
    simp [this]
  unfold tasksetScan
  rw [str_inf, str_0x, isPrefix_inf_false _ hY]
  have hp : isPrefix [48, 120] (48 :: 120 :: (hexDigits (b.readWord k).toNat ++
      (((List.range k).reverse.map b.readWord).map (fun w => hexPad 16 w.toNat)).flatten)) = true := by
    simp [isPrefix]
  simp only [hp, if_true, Bool.false_eq_true, if_false, List.drop_succ_cons, List.drop_zero, hne]
  rw [tasksetGo_first _ (b.readWord k) _ (b.readWord k).toNat false (hexDigits_length_pos _)
    (hexDigits_length_le _ 16 (by decide) (by rw [pow16]; exact (b.readWord k).isLt))
    (by simpa using strtoul16_hexDigits (b.readWord k).toNat [] (b.readWord k).isLt noDigitHead_nil)
    (by simp)]
  simp [List.range_succ]

theorem tasksetScan_inf_prefix (X : List Byte) :
    tasksetScan ([48, 120, 102, 46, 46, 46, 102] ++ X)
      = if X.isEmpty then .ok [some (BitVec.allOnes 64)] true else tasksetGo X true := by
  unfold tasksetScan
  rw [str_inf]
  have hp : isPrefix [48, 120, 102, 46, 46, 46, 102] ([48, 120, 102, 46, 46, 46, 102] ++ X) = true := by
    simp [isPrefix]
  have hd : ([48, 120, 102, 46, 46, 46, 102] ++ X).drop 7 = X := rfl
  simp only [hp, if_true, hd]

theorem taskset_scan_inf (b : Bitmap) (hinf : b.inf = true) :
    tasksetScan (text b.chunksTaskset) =
      if b.topWords = 0 then .ok [some (BitVec.allOnes 64)] true
      else .ok (((List.range b.topWords).map b.readWord).map some) true := by
  have hchunks : text b.chunksTaskset = [48, 120, 102, 46, 46, 46, 102] ++
      text (tasksetBody ((List.range b.topWords).reverse.map b.readWord) true true) := by
    unfold chunksTaskset tasksetTop
    simp only [hinf, if_true]
    rw [if_neg (by simp [text, str_inf])]
    simp [text, str_inf]
  rw [hchunks, tasksetScan_inf_prefix]
  cases hk : b.topWords with
  | zero => simp [tasksetBody, text]
  | succ k =>
    rw [range_succ_rev_map]
    generalize hws : (List.range k).reverse.map b.readWord = ws
    have hfin : (ws.reverse ++ [b.readWord k]) = (List.range (k + 1)).map b.readWord := by
      rw [← hws]; simp [List.range_succ]
    unfold tasksetBody
    simp only [if_true, Bool.true_and, tasksetBody_started, text, List.flatten_cons]
    by_cases hhi : hi32 (b.readWord k) = 0xFFFFFFFF
    · have hl : (hexPad 8 (lo32 (b.readWord k))).length = 8 :=
        hexPad_length 8 _ (by decide) (by rw [pow16_8]; exact Nat.mod_lt _ (by decide))
      have hlt : lo32 (b.readWord k) < 2 ^ 64 :=
        Nat.lt_of_lt_of_le (Nat.mod_lt _ (by decide)) (by decide)
      have hne : (hexPad 8 (lo32 (b.readWord k)) ++
          (ws.map (fun w => hexPad 16 w.toNat)).flatten).isEmpty = false := by
        cases hx : hexPad 8 (lo32 (b.readWord k)) with
        | nil => rw [hx] at hl; simp at hl
        | cons _ _ => rfl
      simp only [hhi, beq_self_eq_true, if_true, hne, Bool.false_eq_true, if_false]
      rw [tasksetGo_first _ (b.readWord k) ws (lo32 (b.readWord k)) true (by omega) (by omega)
        (by simpa using strtoul16_hexPad 8 (lo32 (b.readWord k)) [] hlt noDigitHead_nil)
        (by rw [hl]; exact merge_word (b.readWord k) hhi)]
      simp [hfin]
    · have hl : (hexPad 16 (b.readWord k).toNat).length = 16 :=
        hexPad_length 16 _ (by decide) (by rw [pow16]; exact (b.readWord k).isLt)
      have hne : (hexPad 16 (b.readWord k).toNat ++
          (ws.map (fun w => hexPad 16 w.toNat)).flatten).isEmpty = false := by
        cases hx : hexPad 16 (b.readWord k).toNat with
        | nil => rw [hx] at hl; simp at hl
        | cons _ _ => rfl
      have hb : (hi32 (b.readWord k) == 0xFFFFFFFF) = false := by simpa using hhi
      simp only [hb, Bool.false_eq_true, if_false, hne]
      rw [tasksetGo_first _ (b.readWord k) ws (b.readWord k).toNat true (by omega) (by omega)
        (by simpa using strtoul16_hexPad 16 (b.readWord k).toNat [] (b.readWord k).isLt noDigitHead_nil)
        (by rw [hl]; simp)]
      simp [hfin]

end TasksetRT
open TasksetRT

/-- C04 round trip, taskset format (`hinv` is not needed by the proof) -/
theorem taskset_roundtrip (b : Bitmap) (hinv : b.Inv) :
    ∃ ws inf, tasksetScan (text b.chunksTaskset) = .ok (ws.map some) inf ∧
      ∀ n, (Bitmap.mk ws inf).mem n = b.mem n := by
  have _ := hinv
  cases hinf : b.inf with
  | false =>
    refine ⟨(List.range (max b.topWords 1)).map b.readWord, false, taskset_scan_fin b hinf, ?_⟩
    have := build_mem_eq b (max b.topWords 1) (by omega)
    rwa [hinf] at this
  | true =>
    by_cases hk : b.topWords = 0
    · refine ⟨[BitVec.allOnes 64], true, ?_, ?_⟩
      · rw [taskset_scan_inf b hinf, if_pos hk]; rfl
      · rw [mem_ext_iff]
        intro k
        rw [readWord_ge_topWords b k (by omega), hinf, fillW_true]
        cases k with
        | zero => rfl
        | succ k => exact readWord_ge _ (by simp [count])
    · refine ⟨(List.range b.topWords).map b.readWord, true, ?_, ?_⟩
      · rw [taskset_scan_inf b hinf, if_neg hk]
      · have := build_mem_eq b b.topWords (Nat.le_refl _)
        rwa [hinf] at this

end Bitmap
end Hw
