/-
  Hw.Bitmap.Inclusion — `hwloc_bitmap_compare_inclusion` (literal fold with the C's state) equals the
  classification obtained from the already characterised queries isequal / isincluded / intersects.
-/
import Hw.Bitmap.CompareFirst
namespace Hw
namespace Bitmap

/-- relation summary of a pair of sets (a prefix, a block, or the whole) -/
structure Rel where
  eq : Bool
  sub : Bool
  sup : Bool
  meet : Bool
  e1 : Bool
  e2 : Bool
deriving DecidableEq, Repr

/-- constraints every pair of sets satisfies -/
def Rel.ok (r : Rel) : Bool :=
  (r.eq == (r.sub && r.sup)) && (!r.e1 || r.sub) && (!r.e2 || r.sup) && (!r.e1 || !r.meet) && (!r.e2 || !r.meet)
    && (!(r.sub && !r.e1) || r.meet) && (!(r.sup && !r.e2) || r.meet)

/-- summary of the union of two pairs with disjoint supports -/
def Rel.comb (p w : Rel) : Rel :=
  ⟨p.eq && w.eq, p.sub && w.sub, p.sup && w.sup, p.meet || w.meet, p.e1 && w.e1, p.e2 && w.e2⟩

def Rel.init : Rel := ⟨true, true, true, false, true, true⟩

/-- the C loop state as a function of the summary of the prefix processed so far -/
def stateOf (r : Rel) : InclState :=
  if r.meet && !r.sub && !r.sup then inclStop
  else { result := if r.eq then .equal else if r.sub then .included else if r.sup then .contains else .different,
         empty1 := r.e1, empty2 := r.e2, ret := none }

/-- the finite core: for all 2^12 combinations of summaries, one loop iteration maps the state of
the prefix summary to the state of the combined summary -/
theorem step_table :
    ∀ a b c d e f a' b' c' d' e' f' : Bool,
      (Rel.mk a b c d e f).ok = true → (Rel.mk a' b' c' d' e' f').ok = true →
      inclStepB (stateOf ⟨a, b, c, d, e, f⟩) e' f' a' b' c' d' = stateOf ((Rel.mk a b c d e f).comb ⟨a', b', c', d', e', f'⟩)
      ∧ ((Rel.mk a b c d e f).comb ⟨a', b', c', d', e', f'⟩).ok = true := by
  decide


def wordRel (v1 v2 : Word) : Rel :=
  ⟨v1 == v2, v1 &&& v2 == v1, v1 &&& v2 == v2, v1 &&& v2 != 0#64, v1 == 0#64, v2 == 0#64⟩

theorem wordRel_ok (v1 v2 : Word) : (wordRel v1 v2).ok = true := by
  unfold Rel.ok wordRel
  simp only [Bool.and_eq_true, Bool.or_eq_true, Bool.not_eq_true', beq_iff_eq, bne_iff_ne, ne_eq,
    beq_eq_false_iff_ne, Bool.and_eq_false_iff, bne_eq_false_iff_eq]
  refine ⟨⟨⟨⟨⟨⟨?_, ?_⟩, ?_⟩, ?_⟩, ?_⟩, ?_⟩, ?_⟩
  · -- eq ↔ sub ∧ sup
    apply Bool.eq_iff_iff.mpr
    simp only [beq_iff_eq, Bool.and_eq_true]
    constructor
    · intro h; subst h; simp
    · intro ⟨h1, h2⟩; rw [← h1, h2]
  · by_cases h : v1 = 0#64
    · right; subst h; simp
    · left; exact h
  · by_cases h : v2 = 0#64
    · right; subst h; simp
    · left; exact h
  · by_cases h : v1 = 0#64
    · right; subst h; simp
    · left; exact h
  · by_cases h : v2 = 0#64
    · right; subst h; simp
    · left; exact h
  · by_cases h : v1 &&& v2 = v1
    · by_cases h0 : v1 = 0#64
      · left; right; simp [h0]
      · right; rw [h]; exact h0
    · left; left; exact h
  · by_cases h : v1 &&& v2 = v2
    · by_cases h0 : v2 = 0#64
      · left; right; simp [h0]
      · right; rw [h]; exact h0
    · left; left; exact h

theorem inclStep_eq (s : InclState) (v1 v2 : Word) :
    inclStep s v1 v2 = inclStepB s (wordRel v1 v2).e1 (wordRel v1 v2).e2 (wordRel v1 v2).eq
      (wordRel v1 v2).sub (wordRel v1 v2).sup (wordRel v1 v2).meet := rfl

theorem step_rel (p w : Rel) (hp : p.ok = true) (hw : w.ok = true) :
    inclStepB (stateOf p) w.e1 w.e2 w.eq w.sub w.sup w.meet = stateOf (p.comb w) ∧ (p.comb w).ok = true := by
  cases p; cases w
  exact step_table _ _ _ _ _ _ _ _ _ _ _ _ hp hw

/-- summary of the first `k` (virtual) words -/
def prefixRel (a b : Bitmap) : Nat → Rel
  | 0 => Rel.init
  | k+1 => (prefixRel a b k).comb (wordRel (a.readWord k) (b.readWord k))

theorem prefixRel_ok (a b : Bitmap) (k : Nat) : (prefixRel a b k).ok = true := by
  induction k with
  | zero => show Rel.init.ok = true; decide
  | succ k ih => exact (step_rel _ _ ih (wordRel_ok _ _)).2

theorem fold_state (a b : Bitmap) (k : Nat) :
    (List.range k).foldl (fun s i => inclStep s (a.readWord i) (b.readWord i)) {} = stateOf (prefixRel a b k) := by
  induction k with
  | zero => rfl
  | succ k ih =>
    rw [List.range_succ, List.foldl_append, ih]
    simp only [List.foldl_cons, List.foldl_nil]
    rw [inclStep_eq]
    exact (step_rel _ _ (prefixRel_ok a b k) (wordRel_ok _ _)).1

def finalize (s : InclState) : Incl := match s.ret with | some r => r | none => s.result

theorem inclFinish_eq (s : InclState) (i1 i2 : Bool) :
    inclFinish s i1 i2 = finalize (inclStep s (fillW i1) (fillW i2)) := by
  obtain ⟨res, e1, e2, ret⟩ := s
  cases ret with
  | some r => simp [inclFinish, finalize, inclStep, inclStepB]
  | none =>
    cases i1 <;> cases i2 <;> cases res <;> cases e1 <;> cases e2 <;> decide

theorem finalize_stateOf (r : Rel) (h : r.ok = true) :
    finalize (stateOf r) =
      if r.eq then .equal else if r.sub then .included else if r.sup then .contains
      else if r.meet then .intersects else .different := by
  cases r with
  | mk a b c d e f => revert h; revert a b c d e f; decide

/-! fields of the summary as quantifications over the words -/

theorem range_succ_all (k : Nat) (p : Nat → Bool) : (List.range (k+1)).all p = ((List.range k).all p && p k) := by
  rw [List.range_succ, List.all_append]; simp
theorem range_succ_any (k : Nat) (p : Nat → Bool) : (List.range (k+1)).any p = ((List.range k).any p || p k) := by
  rw [List.range_succ, List.any_append]; simp

theorem prefixRel_eq (a b : Bitmap) (k : Nat) :
    (prefixRel a b k).eq = (List.range k).all (fun i => a.readWord i == b.readWord i) := by
  induction k with
  | zero => rfl
  | succ k ih => rw [range_succ_all, ← ih]; rfl
theorem prefixRel_sub (a b : Bitmap) (k : Nat) :
    (prefixRel a b k).sub = (List.range k).all (fun i => a.readWord i &&& b.readWord i == a.readWord i) := by
  induction k with
  | zero => rfl
  | succ k ih => rw [range_succ_all, ← ih]; rfl
theorem prefixRel_sup (a b : Bitmap) (k : Nat) :
    (prefixRel a b k).sup = (List.range k).all (fun i => a.readWord i &&& b.readWord i == b.readWord i) := by
  induction k with
  | zero => rfl
  | succ k ih => rw [range_succ_all, ← ih]; rfl
theorem prefixRel_meet (a b : Bitmap) (k : Nat) :
    (prefixRel a b k).meet = (List.range k).any (fun i => a.readWord i &&& b.readWord i != 0#64) := by
  induction k with
  | zero => rfl
  | succ k ih => rw [range_succ_any, ← ih]; rfl

theorem word_sub_iff (x y : Word) : (x &&& y == x) = (y == (y ||| x)) := by
  apply Bool.eq_iff_iff.mpr
  rw [beq_iff_eq, word_incl_iff]
  constructor
  · intro h j _ hx
    have := congrArg (fun w => w.getLsbD j) h
    simp only [BitVec.getLsbD_and, hx, Bool.true_and] at this
    exact this
  · intro h
    apply BitVec.eq_of_getLsbD_eq
    intro i hi
    rw [BitVec.getLsbD_and]
    cases hx : x.getLsbD i
    · simp
    · simp [h i hi hx]

theorem fillW_eq_iff (i1 i2 : Bool) : (fillW i1 == fillW i2) = (i1 == i2) := by
  cases i1 <;> cases i2 <;> simp [fillW]
theorem fillW_sub_iff (i1 i2 : Bool) : (fillW i1 &&& fillW i2 == fillW i1) = !(i1 && !i2) := by
  cases i1 <;> cases i2 <;> simp [fillW]
theorem fillW_sup_iff (i1 i2 : Bool) : (fillW i1 &&& fillW i2 == fillW i2) = !(i2 && !i1) := by
  cases i1 <;> cases i2 <;> simp [fillW]
theorem fillW_meet_iff (i1 i2 : Bool) : (fillW i1 &&& fillW i2 != 0#64) = (i1 && i2) := by
  cases i1 <;> cases i2 <;> simp [fillW]

/-- **compare_inclusion is the classification by the set-level queries** -/
theorem compareInclusion_eq (a b : Bitmap) :
    a.compareInclusion b =
      if a.isequal b then .equal
      else if a.isincluded b then .included
      else if b.isincluded a then .contains
      else if a.intersects b then .intersects
      else .different := by
  unfold compareInclusion
  simp only
  rw [fold_state, inclFinish_eq, inclStep_eq]
  have hstep := step_rel _ _ (prefixRel_ok a b (max a.count b.count)) (wordRel_ok (fillW a.inf) (fillW b.inf))
  rw [hstep.1, finalize_stateOf _ hstep.2]
  have e1 : ((prefixRel a b (max a.count b.count)).comb (wordRel (fillW a.inf) (fillW b.inf))).eq = a.isequal b := by
    show ((prefixRel a b (max a.count b.count)).eq && (fillW a.inf == fillW b.inf)) = _
    rw [prefixRel_eq, fillW_eq_iff]; rfl
  have e2 : ((prefixRel a b (max a.count b.count)).comb (wordRel (fillW a.inf) (fillW b.inf))).sub = a.isincluded b := by
    show ((prefixRel a b (max a.count b.count)).sub && (fillW a.inf &&& fillW b.inf == fillW a.inf)) = _
    rw [prefixRel_sub, fillW_sub_iff]
    unfold isincluded
    congr 1
    congr 1
    funext i; exact word_sub_iff _ _
  have e3 : ((prefixRel a b (max a.count b.count)).comb (wordRel (fillW a.inf) (fillW b.inf))).sup = b.isincluded a := by
    show ((prefixRel a b (max a.count b.count)).sup && (fillW a.inf &&& fillW b.inf == fillW b.inf)) = _
    rw [prefixRel_sup, fillW_sup_iff]
    unfold isincluded
    rw [Nat.max_comm b.count a.count]
    congr 1
    congr 1
    funext i
    rw [BitVec.and_comm]; exact word_sub_iff _ _
  have e4 : ((prefixRel a b (max a.count b.count)).comb (wordRel (fillW a.inf) (fillW b.inf))).meet = a.intersects b := by
    show ((prefixRel a b (max a.count b.count)).meet || (fillW a.inf &&& fillW b.inf != 0#64)) = _
    rw [prefixRel_meet, fillW_meet_iff]; rfl
  rw [e1, e2, e3, e4]

end Bitmap
end Hw
