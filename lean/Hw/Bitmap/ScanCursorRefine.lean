/-
  Hw.Bitmap.ScanCursorRefine — the cursor-level parser models return what the structural models of
  `Hw.Bitmap.Scan` return, on the domain the structural models support (NUL-free byte list, structural
  result ≠ `unsupported`).  So `C04_sscanf_*_defined` and the round-trip theorems transfer to the
  cursor-level models, whose memory accesses are proved in bounds (`ScanCursorSafe`).
-/
import Hw.Bitmap.ScanCursorSafe
namespace Hw
namespace Bitmap
namespace Cursor

/-- the byte list holds no NUL (it is the C string up to, excluding, its terminator) -/
def NoNul (s : List Byte) : Prop := ∀ c, c ∈ s → c ≠ 0

/-! ### cursor ↔ suffix -/

theorem rd_eq (s : List Byte) (i : Nat) : rd s i = (s[i]?).getD 0 := by
  simp [rd, List.getD_eq_getElem?_getD]

theorem drop_cons_rd {s : List Byte} {i : Nat} {c : Byte} {rest : List Byte} (h : s.drop i = c :: rest) :
    rd s i = c ∧ s.drop (i + 1) = rest ∧ i < s.length := by
  have hlt : i < s.length := by
    apply Classical.byContradiction
    intro hn
    rw [List.drop_eq_nil_iff.mpr (by omega)] at h
    cases h
  rw [List.drop_eq_getElem_cons hlt] at h
  injection h with h1 h2
  refine ⟨?_, h2, hlt⟩
  rw [rd_eq, List.getElem?_eq_getElem hlt]
  exact h1

theorem drop_nil_rd {s : List Byte} {i : Nat} (h : s.drop i = []) : rd s i = 0 :=
  rd_ge s i (List.drop_eq_nil_iff.mp h)

theorem rd_zero_drop {s : List Byte} (hs : NoNul s) {i : Nat} (h : rd s i = 0) : s.drop i = [] := by
  apply List.drop_eq_nil_iff.mpr
  apply Classical.byContradiction
  intro hn
  have hlt : i < s.length := by omega
  rw [rd_eq, List.getElem?_eq_getElem hlt] at h
  exact hs _ (List.getElem_mem hlt) h

theorem drop_rd_cons {s : List Byte} {i : Nat} (h : i < s.length) : s.drop i = rd s i :: s.drop (i + 1) := by
  rw [List.drop_eq_getElem_cons h, rd_eq, List.getElem?_eq_getElem h]
  rfl

/-- a scan (predicate false on NUL, enough fuel) stops where `dropWhile` stops -/
theorem scanWhile_drop (p : Byte → Bool) (hp : p 0 = false) (s : List Byte) :
    ∀ fuel i, s.length < i + fuel → s.drop (scanWhile p s fuel i) = (s.drop i).dropWhile p := by
  intro fuel
  induction fuel with
  | zero =>
    intro i h
    unfold scanWhile
    rw [List.drop_eq_nil_iff.mpr (by omega)]
    rfl
  | succ f ih =>
    intro i h
    unfold scanWhile
    split
    · rename_i hpi
      have hlt : i < s.length := by
        apply rd_ne_zero_lt
        intro e; rw [e, hp] at hpi; cases hpi
      rw [ih (i+1) (by omega), drop_rd_cons hlt, List.dropWhile_cons, if_pos hpi]
    · rename_i hpi
      by_cases hlt : i < s.length
      · rw [drop_rd_cons hlt, List.dropWhile_cons, if_neg hpi]
      · rw [List.drop_eq_nil_iff.mpr (by omega)]; rfl

/-! ### strtoul -/

theorem takeDigits_suffix (b : Nat) : ∀ (l : List Byte) (a k : Nat), (takeDigits b l a k).2.2 <:+ l := by
  intro l
  induction l with
  | nil => intro a k; exact List.suffix_refl _
  | cons c cs ih =>
    intro a k
    unfold takeDigits
    split
    · split
      · exact (ih _ _).trans (List.suffix_cons _ _)
      · exact List.suffix_refl _
    · exact List.suffix_refl _

theorem strtoPrefix_suffix (base : Nat) (s1 : List Byte) : (strtoPrefix base s1).2 <:+ s1 := by
  unfold strtoPrefix
  split
  · split
    · exact (List.suffix_cons _ _).trans (List.suffix_cons _ _)
    · split <;> exact List.suffix_refl _
  · split <;> exact List.suffix_refl _
  · split <;> exact List.suffix_refl _

theorem strtoul_shape (base : Nat) (l : List Byte) (v : Nat) (rest : List Byte) (h : strtoul base l = .ok v rest) :
    (∀ tail, List.dropWhile isSpace l = 43 :: tail → False) ∧
    (∀ tail, List.dropWhile isSpace l = 45 :: tail → False) ∧
      (let bs := strtoPrefix base (l.dropWhile isSpace)
       let t := takeDigits bs.1 bs.2 0 0
       if t.2.1 = 0 then StrtoRes.ok 0 l else StrtoRes.ok (min t.1 ulongMax) t.2.2) = .ok v rest := by
  unfold strtoul at h
  simp only at h
  split at h
  · cases h
  · cases h
  · rename_i n43 n45
    exact ⟨n43, n45, h⟩

/-- where the structural `strtoul` is defined (no sign), the total one returns the same value and end -/
theorem strtoul_refine (base : Nat) (l : List Byte) (v : Nat) (rest : List Byte) (h : strtoul base l = .ok v rest) :
    (strtoulL base l).1 = v ∧ l.drop (strtoulL base l).2 = rest := by
  obtain ⟨n43, n45, h⟩ := strtoul_shape base l v rest h
  have e : strtoulL base l = strtoCore base l (l.dropWhile isSpace) false := by
    unfold strtoulL
    split
    · rename_i heq; exact (n45 _ heq).elim
    · rename_i heq; exact (n43 _ heq).elim
    · rfl
  rw [e]
  unfold strtoCore
  simp only at h ⊢
  have hsuf : (takeDigits (strtoPrefix base (l.dropWhile isSpace)).1 (strtoPrefix base (l.dropWhile isSpace)).2 0 0).2.2 <:+ l :=
    ((takeDigits_suffix _ _ _ _).trans (strtoPrefix_suffix _ _)).trans (List.dropWhile_suffix _)
  generalize takeDigits (strtoPrefix base (l.dropWhile isSpace)).1 (strtoPrefix base (l.dropWhile isSpace)).2 0 0 = t at h hsuf ⊢
  by_cases hn : t.2.1 = 0
  · rw [if_pos hn] at h ⊢
    injection h with h1 h2
    exact ⟨h1, by simpa using h2⟩
  · rw [if_neg hn] at h ⊢
    injection h with h1 h2
    refine ⟨?_, ?_⟩
    · simp only [Bool.false_eq_true, if_false]
      rw [← h1]
      by_cases hv : t.1 > ulongMax
      · rw [if_pos hv]; exact (Nat.min_eq_right (by omega)).symm
      · rw [if_neg hv]; exact (Nat.min_eq_left (by omega)).symm
    · rw [← h2]
      exact (List.suffix_iff_eq_drop.mp hsuf).symm

/-- cursor form: value, and the suffix at `endptr` -/
theorem strtoulC_refine (base : Nat) (s : List Byte) (i : Nat) (v : Nat) (rest : List Byte)
    (h : strtoul base (s.drop i) = .ok v rest) :
    (strtoulC base s i).val = v ∧ s.drop (i + (strtoulC base s i).adv) = rest := by
  have := strtoul_refine base (s.drop i) v rest h
  simp only [strtoulC]
  rw [List.drop_drop] at this
  exact this

end Cursor
end Bitmap
end Hw
