/-
  Hw.Bitmap.ScanCursorRefine — the cursor-level parser models return what the structural models of
  `Hw.Bitmap.Scan` return, on the domain the structural models support (NUL-free byte list, structural
  result ≠ `unsupported`).  So `C04_sscanf_*_defined` and the round-trip theorems transfer to the
  cursor-level models, whose memory accesses are proved in bounds (`ScanCursorSafe`).
-/
import Hw.Bitmap.ScanCursorSafe
namespace Hw
namespace Bitmap
namespace Cursor

/-- the byte list holds no NUL (it is the C string up to, excluding, its terminator) -/
def NoNul (s : List Byte) : Prop := ∀ c, c ∈ s → c ≠ 0

/-! ### cursor ↔ suffix -/

theorem rd_eq (s : List Byte) (i : Nat) : rd s i = (s[i]?).getD 0 := by
  simp [rd, List.getD_eq_getElem?_getD]

theorem drop_cons_rd {s : List Byte} {i : Nat} {c : Byte} {rest : List Byte} (h : s.drop i = c :: rest) :
    rd s i = c ∧ s.drop (i + 1) = rest ∧ i < s.length := by
  have hlt : i < s.length := by
    apply Classical.byContradiction
    intro hn
    rw [List.drop_eq_nil_iff.mpr (by omega)] at h
    cases h
  rw [List.drop_eq_getElem_cons hlt] at h
  injection h with h1 h2
  refine ⟨?_, h2, hlt⟩
  rw [rd_eq, List.getElem?_eq_getElem hlt]
  exact h1

theorem drop_nil_rd {s : List Byte} {i : Nat} (h : s.drop i = []) : rd s i = 0 :=
  rd_ge s i (List.drop_eq_nil_iff.mp h)

theorem rd_zero_drop {s : List Byte} (hs : NoNul s) {i : Nat} (h : rd s i = 0) : s.drop i = [] := by
  apply List.drop_eq_nil_iff.mpr
  apply Classical.byContradiction
  intro hn
  have hlt : i < s.length := by omega
  rw [rd_eq, List.getElem?_eq_getElem hlt] at h
  exact hs _ (List.getElem_mem hlt) h

theorem drop_rd_cons {s : List Byte} {i : Nat} (h : i < s.length) : s.drop i = rd s i :: s.drop (i + 1) := by
  rw [List.drop_eq_getElem_cons h, rd_eq, List.getElem?_eq_getElem h]
  rfl

/-- a scan (predicate false on NUL, enough fuel) stops where `dropWhile` stops -/
theorem scanWhile_drop (p : Byte → Bool) (hp : p 0 = false) (s : List Byte) :
    ∀ fuel i, s.length < i + fuel → s.drop (scanWhile p s fuel i) = (s.drop i).dropWhile p := by
  intro fuel
  induction fuel with
  | zero =>
    intro i h
    unfold scanWhile
    rw [List.drop_eq_nil_iff.mpr (by omega)]
    rfl
  | succ f ih =>
    intro i h
    unfold scanWhile
    split
    · rename_i hpi
      have hlt : i < s.length := by
        apply rd_ne_zero_lt
        intro e; rw [e, hp] at hpi; cases hpi
      rw [ih (i+1) (by omega), drop_rd_cons hlt, List.dropWhile_cons, if_pos hpi]
    · rename_i hpi
      by_cases hlt : i < s.length
      · rw [drop_rd_cons hlt, List.dropWhile_cons, if_neg hpi]
      · rw [List.drop_eq_nil_iff.mpr (by omega)]; rfl

/-! ### strtoul -/

theorem takeDigits_suffix (b : Nat) : ∀ (l : List Byte) (a k : Nat), (takeDigits b l a k).2.2 <:+ l := by
  intro l
  induction l with
  | nil => intro a k; exact List.suffix_refl _
  | cons c cs ih =>
    intro a k
    unfold takeDigits
    split
    · split
      · exact (ih _ _).trans (List.suffix_cons _ _)
      · exact List.suffix_refl _
    · exact List.suffix_refl _

theorem strtoPrefix_suffix (base : Nat) (s1 : List Byte) : (strtoPrefix base s1).2 <:+ s1 := by
  unfold strtoPrefix
  split
  · split
    · exact (List.suffix_cons _ _).trans (List.suffix_cons _ _)
    · split <;> exact List.suffix_refl _
  · split <;> exact List.suffix_refl _
  · split <;> exact List.suffix_refl _

theorem strtoul_shape (base : Nat) (l : List Byte) (v : Nat) (rest : List Byte) (h : strtoul base l = .ok v rest) :
    (∀ tail, List.dropWhile isSpace l = 43 :: tail → False) ∧
    (∀ tail, List.dropWhile isSpace l = 45 :: tail → False) ∧
      (let bs := strtoPrefix base (l.dropWhile isSpace)
       let t := takeDigits bs.1 bs.2 0 0
       if t.2.1 = 0 then StrtoRes.ok 0 l else StrtoRes.ok (min t.1 ulongMax) t.2.2) = .ok v rest := by
  unfold strtoul at h
  simp only at h
  split at h
  · cases h
  · cases h
  · rename_i n43 n45
    exact ⟨n43, n45, h⟩

/-- where the structural `strtoul` is defined (no sign), the total one returns the same value and end -/
theorem strtoul_refine (base : Nat) (l : List Byte) (v : Nat) (rest : List Byte) (h : strtoul base l = .ok v rest) :
    (strtoulL base l).1 = v ∧ l.drop (strtoulL base l).2 = rest := by
  obtain ⟨n43, n45, h⟩ := strtoul_shape base l v rest h
  have e : strtoulL base l = strtoCore base l (l.dropWhile isSpace) false := by
    unfold strtoulL
    split
    · rename_i heq; exact (n45 _ heq).elim
    · rename_i heq; exact (n43 _ heq).elim
    · rfl
  rw [e]
  unfold strtoCore
  simp only at h ⊢
  have hsuf : (takeDigits (strtoPrefix base (l.dropWhile isSpace)).1 (strtoPrefix base (l.dropWhile isSpace)).2 0 0).2.2 <:+ l :=
    ((takeDigits_suffix _ _ _ _).trans (strtoPrefix_suffix _ _)).trans (List.dropWhile_suffix _)
  generalize takeDigits (strtoPrefix base (l.dropWhile isSpace)).1 (strtoPrefix base (l.dropWhile isSpace)).2 0 0 = t at h hsuf ⊢
  by_cases hn : t.2.1 = 0
  · rw [if_pos hn] at h ⊢
    injection h with h1 h2
    exact ⟨h1, by simpa using h2⟩
  · rw [if_neg hn] at h ⊢
    injection h with h1 h2
    refine ⟨?_, ?_⟩
    · simp only [Bool.false_eq_true, if_false]
      rw [← h1]
      by_cases hv : t.1 > ulongMax
      · rw [if_pos hv]; exact (Nat.min_eq_right (by omega)).symm
      · rw [if_neg hv]; exact (Nat.min_eq_left (by omega)).symm
    · rw [← h2]
      exact (List.suffix_iff_eq_drop.mp hsuf).symm

/-- cursor form: value, and the suffix at `endptr` -/
theorem strtoulC_refine (base : Nat) (s : List Byte) (i : Nat) (v : Nat) (rest : List Byte)
    (h : strtoul base (s.drop i) = .ok v rest) :
    (strtoulC base s i).val = v ∧ s.drop (i + (strtoulC base s i).adv) = rest := by
  have := strtoul_refine base (s.drop i) v rest h
  simp only [strtoulC]
  rw [List.drop_drop] at this
  exact this

/-! ### hwloc format -/

theorem hwlocLoopC_refine (s : List Byte) (hs : NoNul s) (nw : Nat) : ∀ fuel cur count accum ws infinite lg,
    hwlocLoop fuel (s.drop cur) count accum ws infinite ≠ .unsupported →
    (hwlocLoopC s nw fuel cur count accum ws infinite lg).res.toScan = hwlocLoop fuel (s.drop cur) count accum ws infinite := by
  intro fuel
  induction fuel with
  | zero => intro cur count accum ws infinite lg _; rfl
  | succ f ih =>
    intro cur count accum ws infinite lg hsup
    unfold hwlocLoopC
    unfold hwlocLoop at hsup ⊢
    cases hst : strtoul 16 (s.drop cur) with
    | unsupported => rw [hst] at hsup; exact (hsup rfl).elim
    | ok val next =>
      rw [hst] at hsup
      obtain ⟨hv, hn⟩ := strtoulC_refine 16 s cur val next hst
      simp only at hsup ⊢
      rw [hv]
      by_cases hc0 : count = 0
      · rw [if_pos hc0, if_pos hc0]; rfl
      · rw [if_neg hc0] at hsup ⊢
        rw [if_neg hc0]
        by_cases hpar : (count - 1) % 2 = 0
        · simp only [hpar, if_true] at hsup ⊢
          cases hnx : next with
          | nil =>
            rw [hnx] at hn hsup
            have h0 := drop_nil_rd hn
            simp only [h0]
            by_cases hc : count - 1 > 0
            · simp [hc, CRes.toScan]
            · simp [hc, CRes.toScan]
          | cons c rest =>
            rw [hnx] at hn hsup
            obtain ⟨hc, hr, _⟩ := drop_cons_rd hn
            by_cases h44 : c = 44
            · subst h44
              simp only [hc, if_true] at hsup ⊢
              rw [← hr] at hsup ⊢
              exact ih _ _ _ _ _ _ hsup
            · have hcz : c ≠ 0 := by
                have : c ∈ s := List.mem_of_mem_drop (hn ▸ List.mem_cons_self ..)
                exact hs c this
              simp only [hc, if_neg h44]
              rw [if_pos (Or.inl hcz)]
              rfl
        · simp only [hpar, if_false] at hsup ⊢
          cases hnx : next with
          | nil =>
            rw [hnx] at hn hsup
            have h0 := drop_nil_rd hn
            simp only [h0]
            by_cases hc : count - 1 > 0
            · simp [hc, CRes.toScan]
            · simp [hc, CRes.toScan]
          | cons c rest =>
            rw [hnx] at hn hsup
            obtain ⟨hc, hr, _⟩ := drop_cons_rd hn
            by_cases h44 : c = 44
            · subst h44
              simp only [hc, if_true] at hsup ⊢
              rw [← hr] at hsup ⊢
              exact ih _ _ _ _ _ _ hsup
            · have hcz : c ≠ 0 := by
                have : c ∈ s := List.mem_of_mem_drop (hn ▸ List.mem_cons_self ..)
                exact hs c this
              simp only [hc, if_neg h44]
              rw [if_pos (Or.inl hcz)]
              rfl

theorem countCommas_cons (c : Byte) (l : List Byte) :
    countCommas (c :: l) = countCommas l + (if c = 44 then 1 else 0) := by
  unfold countCommas
  rw [List.countP_cons]
  by_cases h : c = 44 <;> simp [h]

theorem countCommas_dropWhile (p : Byte → Bool) (hp : ∀ c, p c = true → c ≠ 44) :
    ∀ l : List Byte, countCommas (l.dropWhile p) = countCommas l := by
  intro l
  induction l with
  | nil => rfl
  | cons c cs ih =>
    rw [List.dropWhile_cons]
    by_cases h : p c = true
    · rw [if_pos h, ih, countCommas_cons, if_neg (hp c h)]; rfl
    · rw [if_neg h]

/-- the `strchr` pre-pass counts the commas -/
theorem commaPass_count (s : List Byte) (hs : NoNul s) : ∀ fuel cur count lg, s.length < cur + fuel →
    (commaPass s fuel cur count lg).1 = count + countCommas (s.drop cur) := by
  intro fuel
  induction fuel with
  | zero =>
    intro cur count lg h
    unfold commaPass
    rw [List.drop_eq_nil_iff.mpr (by omega)]; rfl
  | succ f ih =>
    intro cur count lg h
    unfold commaPass
    simp only
    have hj1 := scanWhile_ge (fun c => c != 44 && c != 0) s (s.length + 1) cur
    have hd := scanWhile_drop (fun c => c != 44 && c != 0) (by decide) s (s.length + 1) cur (by omega)
    have hstop := scanWhile_stop (fun c => c != 44 && c != 0) (by decide) s (s.length + 1) cur (by omega)
    have hcc : countCommas (s.drop cur) = countCommas ((s.drop cur).dropWhile (fun c => c != 44 && c != 0)) :=
      (countCommas_dropWhile _ (by intro c hc; simp at hc; exact hc.1) _).symm
    rw [hcc, ← hd]
    generalize scanWhile (fun c => c != 44 && c != 0) s (s.length + 1) cur = j at hj1 hstop ⊢
    by_cases e : rd s j = 44
    · rw [if_pos e, ih _ _ _ (by omega)]
      have hlt : j < s.length := rd_ne_zero_lt s j (by rw [e]; decide)
      rw [drop_rd_cons hlt, countCommas_cons, if_pos e]
      omega
    · rw [if_neg e]
      have hz : rd s j = 0 := by
        simp only [Bool.and_eq_false_iff, bne_eq_false_iff_eq] at hstop
        rcases hstop with h | h
        · exact (e h).elim
        · exact h
      rw [rd_zero_drop hs hz]; rfl

/-- `strncmp` against a NUL-free literal is the prefix test -/
theorem matchLen_iff (s : List Byte) : ∀ (pat : List Byte) (i : Nat), (∀ c, c ∈ pat → c ≠ 0) →
    (matchLen s i pat = pat.length ↔ (s.drop i).take pat.length = pat) := by
  intro pat
  induction pat with
  | nil => intro i _; simp [matchLen]
  | cons c cs ih =>
    intro i hc
    unfold matchLen
    by_cases e : rd s i = c
    · rw [if_pos e]
      have hlt : i < s.length := rd_ne_zero_lt s i (by rw [e]; exact hc c (List.mem_cons_self ..))
      rw [drop_rd_cons hlt, e, List.length_cons, List.take_succ_cons]
      have := ih (i+1) (fun c' hc' => hc c' (List.mem_cons_of_mem _ hc'))
      constructor
      · intro h
        rw [this.mp (by omega)]
      · intro h
        injection h with _ h2
        have := this.mpr h2
        omega
    · rw [if_neg e]
      constructor
      · intro h; simp at h
      · intro h
        exfalso
        by_cases hlt : i < s.length
        · rw [drop_rd_cons hlt, List.length_cons, List.take_succ_cons] at h
          injection h with h1 _
          exact e h1
        · rw [List.drop_eq_nil_iff.mpr (by omega)] at h
          simp at h

theorem strncmpC_isPrefix (s : List Byte) (pat : List Byte) (hpat : ∀ c, c ∈ pat → c ≠ 0) (lg : Log) :
    (strncmpC s 0 pat lg).1 = isPrefix pat s := by
  unfold strncmpC isPrefix
  simp only
  have := matchLen_iff s pat 0 hpat
  rw [List.drop_zero] at this
  by_cases h : matchLen s 0 pat = pat.length
  · rw [beq_iff_eq.mpr h, beq_iff_eq.mpr (this.mp h)]
  · have h2 : ¬ (List.take pat.length s = pat) := fun h2 => h (this.mpr h2)
    rw [beq_eq_false_iff_ne.mpr h, beq_eq_false_iff_ne.mpr h2]

theorem str_inf_pat : str "0xf...f" = pat_inf := by decide
theorem str_0x_pat : str "0x" = pat_0x := by decide

theorem hwlocSscanfC_refine (s : List Byte) (hs : NoNul s) (hsup : hwlocScan s ≠ .unsupported) :
    (hwlocSscanfC s).res.toScan = hwlocScan s := by
  unfold hwlocSscanfC
  unfold hwlocScan at hsup ⊢
  simp only at hsup ⊢
  have hcount : (commaPass s (s.length + 1) 0 1 Log.empty).1 = 1 + countCommas s := by
    have := commaPass_count s hs (s.length + 1) 0 1 Log.empty (by omega)
    rwa [List.drop_zero] at this
  rw [hcount, strncmpC_isPrefix s pat_inf pat_inf_nz, ← str_inf_pat]
  by_cases hp : isPrefix (str "0xf...f") s = true
  · rw [if_pos hp] at hsup ⊢
    rw [if_pos hp]
    cases h7 : s.drop 7 with
    | nil =>
      rw [h7] at hsup
      rw [drop_nil_rd h7]
      rfl
    | cons c rest =>
      rw [h7] at hsup
      obtain ⟨hc, hr, _⟩ := drop_cons_rd h7
      rw [hc]
      by_cases h44 : c = 44
      · subst h44
        simp only [ne_eq, not_true_eq_false, if_false] at hsup ⊢
        rw [← hr] at hsup ⊢
        exact hwlocLoopC_refine s hs _ _ _ _ _ _ _ _ hsup
      · rw [if_pos h44]
        split
        · rename_i heq; injection heq with h1 _; exact (h44 h1).elim
        · rfl
  · rw [if_neg hp] at hsup ⊢
    rw [if_neg hp]
    have := hwlocLoopC_refine s hs ((1 + countCommas s + 1) / 2) (1 + countCommas s) 0 (1 + countCommas s) 0#64
      (List.replicate ((1 + countCommas s + 1) / 2) none) false
      (strncmpC s 0 (str "0xf...f") (commaPass s (s.length + 1) 0 1 Log.empty).2).2
    rw [List.drop_zero] at this
    exact this hsup

/-! ### taskset format -/

/-- the `memcpy` into `ustr` copies the next `t` bytes of the suffix -/
theorem rdBlock_eq (s : List Byte) (cur t : Nat) (h : cur + t ≤ s.length) :
    (List.range t).map (fun j => rd s (cur + j)) = (s.drop cur).take t := by
  apply List.ext_getElem?
  intro j
  rw [List.getElem?_map, List.getElem?_take, List.getElem?_drop]
  by_cases hj : j < t
  · rw [if_pos hj, List.getElem?_range hj]
    simp [rd_eq, List.getElem?_eq_getElem (show cur + j < s.length by omega)]
  · rw [if_neg hj, List.getElem?_eq_none (by simp; omega)]; rfl

theorem isEmpty_drop_iff {s : List Byte} (hs : NoNul s) (i : Nat) : (s.drop i).isEmpty = true ↔ rd s i = 0 := by
  rw [List.isEmpty_iff]
  exact ⟨drop_nil_rd, rd_zero_drop hs⟩

theorem noNul_take_drop {s : List Byte} (hs : NoNul s) (i t : Nat) : NoNul ((s.drop i).take t) :=
  fun c hc => hs c (List.mem_of_mem_drop (List.mem_of_mem_take hc))

theorem tasksetLoopC_refine (s : List Byte) (hs : NoNul s) (nw : Nat) : ∀ fuel cur chars count ws infinite lg,
    cur + chars = s.length →
    tasksetLoop fuel (s.drop cur) chars count ws infinite ≠ .unsupported →
    (tasksetLoopC s nw fuel cur chars count ws infinite lg).res.toScan = tasksetLoop fuel (s.drop cur) chars count ws infinite := by
  intro fuel
  induction fuel with
  | zero => intro cur chars count ws infinite lg _ _; rfl
  | succ f ih =>
    intro cur chars count ws infinite lg hlen hsup
    unfold tasksetLoopC
    unfold tasksetLoop at hsup ⊢
    by_cases hz : rd s cur = 0
    · have hnil := rd_zero_drop hs hz
      simp only [hz, if_true]
      rw [hnil]; rfl
    · have hlt : cur < s.length := rd_ne_zero_lt s cur hz
      have hcons := drop_rd_cons hlt
      simp only [hz, if_false]
      rw [hcons] at hsup ⊢
      simp only at hsup ⊢
      rw [← hcons] at hsup ⊢
      generalize ht : (if chars % 16 = 0 then 16 else chars % 16) = t at hsup ⊢
      have ht3 : t ≤ chars := by rw [← ht]; split <;> omega
      rw [rdBlock_eq s cur t (by omega)]
      cases hst : strtoul 16 ((s.drop cur).take t) with
      | unsupported => rw [hst] at hsup; exact (hsup rfl).elim
      | ok val next =>
        rw [hst] at hsup
        obtain ⟨hv, hn⟩ := strtoul_refine 16 _ val next hst
        simp only at hsup ⊢
        rw [hv]
        have hu := noNul_take_drop hs cur t
        have hemp : ((List.take t (List.drop cur s)).getD (strtoulL 16 (List.take t (List.drop cur s))).2 0 ≠ 0) ↔ (!next.isEmpty) = true := by
          change (rd (List.take t (List.drop cur s)) _ ≠ 0) ↔ _
          rw [← hn]
          have := isEmpty_drop_iff hu (strtoulL 16 (List.take t (List.drop cur s))).2
          constructor
          · intro h
            cases hh : (List.drop (strtoulL 16 (List.take t (List.drop cur s))).2 (List.take t (List.drop cur s))).isEmpty with
            | true => exact (h (this.mp hh)).elim
            | false => rfl
          · intro h h0
            rw [this.mpr h0] at h
            cases h
        by_cases hne : (!next.isEmpty) = true
        · rw [if_pos hne, if_pos (hemp.mpr hne)]; rfl
        · rw [if_neg hne] at hsup ⊢
          rw [if_neg (fun h => hne (hemp.mp h))]
          rw [List.drop_drop] at hsup ⊢
          exact ih _ _ _ _ _ _ (by omega) hsup

theorem dropWhile_all (p : Byte → Bool) : ∀ l : List Byte, (∀ x, x ∈ l → p x = true) → l.dropWhile p = [] := by
  intro l
  induction l with
  | nil => intro _; rfl
  | cons c cs ih =>
    intro h
    rw [List.dropWhile_cons, if_pos (h c (List.mem_cons_self ..))]
    exact ih (fun x hx => h x (List.mem_cons_of_mem _ hx))

theorem scan_strlen (s : List Byte) (hs : NoNul s) (cur : Nat) (hc : cur ≤ s.length) :
    scanWhile (fun c => c != 0) s (s.length + 1) cur = s.length := by
  have h2 := scanWhile_le (fun c => c != 0) (by decide) s (s.length + 1) cur hc
  have hd := scanWhile_drop (fun c => c != 0) (by decide) s (s.length + 1) cur (by omega)
  have : (s.drop cur).dropWhile (fun c => c != 0) = [] := by
    apply dropWhile_all
    intro x hx
    have := hs x (List.mem_of_mem_drop hx)
    simpa using this
  rw [this] at hd
  have := List.drop_eq_nil_iff.mp hd
  omega

theorem tasksetGoC_refine (s : List Byte) (hs : NoNul s) (cur : Nat) (hc : cur ≤ s.length) (infinite : Bool) (lg : Log)
    (hsup : tasksetGo (s.drop cur) infinite ≠ .unsupported) :
    (tasksetGoC s cur infinite lg).res.toScan = tasksetGo (s.drop cur) infinite := by
  unfold tasksetGoC
  unfold tasksetGo at hsup ⊢
  simp only at hsup ⊢
  rw [scan_strlen s hs cur hc]
  rw [List.length_drop] at hsup ⊢
  exact tasksetLoopC_refine s hs _ _ _ _ _ _ _ _ (by omega) hsup

theorem tasksetSscanfC_refine (s : List Byte) (hs : NoNul s) (hsup : tasksetScan s ≠ .unsupported) :
    (tasksetSscanfC s).res.toScan = tasksetScan s := by
  unfold tasksetSscanfC
  unfold tasksetScan at hsup ⊢
  simp only at hsup ⊢
  rw [strncmpC_isPrefix s pat_inf pat_inf_nz, ← str_inf_pat]
  by_cases hp : isPrefix (str "0xf...f") s = true
  · rw [if_pos hp] at hsup ⊢
    rw [if_pos hp]
    have hp7 : 7 ≤ s.length := by
      unfold isPrefix at hp
      have := beq_iff_eq.mp hp
      have hl := congrArg List.length this
      rw [List.length_take] at hl
      have : (str "0xf...f").length = 7 := by decide
      omega
    by_cases h0 : rd s 7 = 0
    · have := (isEmpty_drop_iff hs 7).mpr h0
      rw [if_pos h0]
      rw [if_pos this]; rfl
    · have : ¬ ((s.drop 7).isEmpty = true) := fun h => h0 ((isEmpty_drop_iff hs 7).mp h)
      rw [if_neg h0]
      rw [if_neg this] at hsup ⊢
      exact tasksetGoC_refine s hs 7 hp7 true _ hsup
  · rw [if_neg hp] at hsup ⊢
    rw [if_neg hp, strncmpC_isPrefix s pat_0x pat_0x_nz, ← str_0x_pat]
    by_cases hp2 : isPrefix (str "0x") s = true
    · rw [if_pos hp2] at hsup ⊢
      have hp2l : 2 ≤ s.length := by
        unfold isPrefix at hp2
        have := beq_iff_eq.mp hp2
        have hl := congrArg List.length this
        rw [List.length_take] at hl
        have : (str "0x").length = 2 := by decide
        omega
      simp only [hp2, if_true] at hsup ⊢
      by_cases h0 : rd s 2 = 0
      · have := (isEmpty_drop_iff hs 2).mpr h0
        rw [if_pos h0, if_pos this]; rfl
      · have : ¬ ((s.drop 2).isEmpty = true) := fun h => h0 ((isEmpty_drop_iff hs 2).mp h)
        rw [if_neg h0]
        rw [if_neg this] at hsup ⊢
        exact tasksetGoC_refine s hs 2 hp2l false _ hsup
    · rw [if_neg hp2] at hsup ⊢
      simp only [hp2, Bool.false_eq_true, if_false] at hsup ⊢
      have hd0 : s.drop 0 = s := List.drop_zero
      by_cases h0 : rd s 0 = 0
      · have := (isEmpty_drop_iff hs 0).mpr h0
        rw [hd0] at this
        rw [if_pos h0, if_pos this]; rfl
      · have : ¬ (s.isEmpty = true) := fun h => h0 ((isEmpty_drop_iff hs 0).mp (by rw [hd0]; exact h))
        rw [if_neg h0]
        rw [if_neg this] at hsup ⊢
        have := tasksetGoC_refine s hs 0 (Nat.zero_le _) false
          ((strncmpC s 0 (str "0x") (strncmpC s 0 (str "0xf...f") Log.empty).2).2.rd 0)
        rw [hd0] at this
        exact this hsup

/-! ### list format -/

theorem begOf_small (val : Nat) (h : val < listMaxIndex) : begOf val = some val := by
  unfold begOf
  have : listMaxIndex = 2097152 := by decide
  rw [if_neg (by omega)]

theorem listLoopC_refine (s : List Byte) (hs : NoNul s) : ∀ fuel cur b beg big lg,
    cur ≤ s.length →
    listLoop fuel (s.drop cur) b beg ≠ .unsupported →
    (listLoopC s fuel cur (some b) beg big lg).res.toScan = listLoop fuel (s.drop cur) b beg := by
  intro fuel
  induction fuel with
  | zero => intro cur b beg big lg _ _; rfl
  | succ f ih =>
    intro cur b beg big lg hcur hsup
    unfold listLoopC
    unfold listLoop at hsup ⊢
    by_cases hz : rd s cur = 0
    · have hnil := rd_zero_drop hs hz
      simp only [hz, if_true]
      rw [hnil]; rfl
    · have hlt : cur < s.length := rd_ne_zero_lt s cur hz
      have hcons := drop_rd_cons hlt
      simp only [hz, if_false]
      rw [hcons] at hsup ⊢
      simp only at hsup ⊢
      rw [← hcons] at hsup ⊢
      have hd := scanWhile_drop (fun c => c == 44 || c == 32) (by decide) s (s.length + 1) cur (by omega)
      have hc2 := scanWhile_le (fun c => c == 44 || c == 32) (by decide) s (s.length + 1) cur hcur
      rw [← hd] at hsup ⊢
      generalize scanWhile (fun c => c == 44 || c == 32) s (s.length + 1) cur = c1 at hc2 hsup ⊢
      cases hst : strtoul 0 (s.drop c1) with
      | unsupported => rw [hst] at hsup; exact (hsup rfl).elim
      | ok val next =>
        rw [hst] at hsup
        obtain ⟨hv, hn⟩ := strtoulC_refine 0 s c1 val next hst
        have hnl := strtoulC_next_le 0 s c1 hc2
        simp only at hsup ⊢
        rw [hv]
        have hlen : (next.length = (s.drop c1).length) ↔ (strtoulC 0 s c1).adv = 0 := by
          rw [← hn, List.length_drop, List.length_drop]; omega
        by_cases hadv : (strtoulC 0 s c1).adv = 0
        · rw [if_pos hadv, if_pos (hlen.mpr hadv)]; rfl
        · rw [if_neg hadv]
          rw [if_neg (fun h => hadv (hlen.mp h))] at hsup ⊢
          by_cases hbig : listMaxIndex ≤ val
          · rw [if_pos hbig] at hsup; exact (hsup rfl).elim
          · rw [if_neg hbig] at hsup ⊢
            simp only [hbig, decide_false, Bool.or_false, Bool.false_eq_true, if_false, Option.map_some]
            generalize hnx : c1 + (strtoulC 0 s c1).adv = nx at hn hnl ⊢
            have hrec : ∀ b' beg' lg' rest, nx < s.length → s.drop (nx + 1) = rest → listLoop f rest b' beg' ≠ .unsupported →
                (listLoopC s f (nx + 1) (some b') beg' big lg').res.toScan = listLoop f rest b' beg' := by
              intro b' beg' lg' rest hl hr hsup'
              rw [← hr] at hsup' ⊢
              exact ih _ _ _ _ _ (by omega) hsup'
            cases hnext : next with
            | nil =>
              rw [hnext] at hn hsup
              have h0 := drop_nil_rd hn
              cases beg with
              | some b0 => simp [h0, listStep, okOf, CRes.toScan]
              | none => simp [h0, listStep, okOf, CRes.toScan]
            | cons c rest =>
              rw [hnext] at hn hsup
              obtain ⟨hc, hr, hlt2⟩ := drop_cons_rd hn
              have hcz : c ≠ 0 := hs c (List.mem_of_mem_drop (hn ▸ List.mem_cons_self ..))
              cases beg with
              | some b0 =>
                simp only [listStep, hc, hcz, if_false, Bool.false_eq_true] at hsup ⊢
                exact hrec _ _ _ _ hlt2 hr hsup
              | none =>
                simp only [hc]
                by_cases h45 : c = 45
                · subst h45
                  simp only [if_true]
                  cases hrest : rest with
                  | nil =>
                    rw [hrest] at hr
                    simp [drop_nil_rd hr, listStep, okOf, CRes.toScan]
                  | cons c2 rest2 =>
                    rw [hrest] at hr hsup
                    obtain ⟨hc2', _, _⟩ := drop_cons_rd hr
                    have hc2z : c2 ≠ 0 := hs c2 (List.mem_of_mem_drop (hr ▸ List.mem_cons_self ..))
                    simp only [listStep, Bool.false_eq_true, if_false] at hsup ⊢
                    rw [hc2', if_neg hc2z, begOf_small val (by omega)]
                    exact hrec _ _ _ _ hlt2 hr hsup
                · rw [if_neg h45]
                  by_cases h44 : c = 44
                  · subst h44
                    simp only [listStep, true_or, if_true, Bool.false_eq_true, if_false] at hsup ⊢
                    rw [if_neg (by decide)]
                    exact hrec _ _ _ _ hlt2 hr hsup
                  · by_cases h32 : c = 32
                    · subst h32
                      simp only [listStep, true_or, or_true, if_true, Bool.false_eq_true, if_false] at hsup ⊢
                      rw [if_neg (by decide)]
                      exact hrec _ _ _ _ hlt2 hr hsup
                    · have hno : ¬ (c = 44 ∨ c = 32 ∨ c = 0) := by
                        intro h; rcases h with h | h | h
                        · exact h44 h
                        · exact h32 h
                        · exact hcz h
                      rw [if_neg hno, if_neg hcz]
                      have hstep : listStep b none val (c :: rest) = (b, none, false) := by
                        unfold listStep
                        simp only
                        split
                        · rename_i heq; injection heq with h1 _; exact (h45 h1).elim
                        · rename_i heq; injection heq with h1 _; exact (h45 h1).elim
                        · rename_i heq; injection heq with h1 _; exact (h44 h1).elim
                        · rename_i heq; injection heq with h1 _; exact (h32 h1).elim
                        · rename_i heq; cases heq
                        · rfl
                      rw [hstep] at hsup ⊢
                      simp only [Bool.false_eq_true, if_false] at hsup ⊢
                      exact hrec _ _ _ _ hlt2 hr hsup

theorem listSscanfC_refine (s : List Byte) (hs : NoNul s) (hsup : listScan s ≠ .unsupported) :
    (listSscanfC s).res.toScan = listScan s := by
  unfold listSscanfC
  unfold listScan at hsup ⊢
  have := listLoopC_refine s hs (s.length + 1) 0 ⟨[0#64], false⟩ none false (Log.empty.wr 0 1) (Nat.zero_le _)
  rw [List.drop_zero] at this
  exact this hsup

/-! ### `assert(count > 0)` in `hwloc_bitmap_sscanf` never fires: the parser returns -/

theorem countCommas_suffix {l1 l2 : List Byte} (h : l1 <:+ l2) : countCommas l1 ≤ countCommas l2 :=
  List.Sublist.countP_le h.sublist

theorem hwlocLoopC_no_assert (s : List Byte) (nw : Nat) : ∀ fuel cur count accum ws infinite lg,
    fuel = count → 1 + countCommas (s.drop cur) ≤ count →
    (hwlocLoopC s nw fuel cur count accum ws infinite lg).res ≠ .assertFail := by
  intro fuel
  induction fuel with
  | zero => intro cur count accum ws infinite lg h1 h2; omega
  | succ f ih =>
    intro cur count accum ws infinite lg h1 h2
    unfold hwlocLoopC
    simp only
    rw [if_neg (by omega)]
    split
    · rename_i e
      apply ih
      · omega
      · have hlt : cur + (strtoulC 16 s cur).adv < s.length := rd_ne_zero_lt s _ (by rw [e]; decide)
        have h3 : s.drop (cur + (strtoulC 16 s cur).adv) <:+ s.drop cur := by
          rw [← List.drop_drop]; exact List.drop_suffix _ _
        have h4 := countCommas_suffix h3
        rw [drop_rd_cons hlt, countCommas_cons, if_pos e] at h4
        omega
    · split
      · intro h; cases h
      · intro h; cases h

theorem hwlocSscanfC_no_assert (s : List Byte) (hs : NoNul s) : (hwlocSscanfC s).res ≠ .assertFail := by
  unfold hwlocSscanfC
  simp only
  have hcount : (commaPass s (s.length + 1) 0 1 Log.empty).1 = 1 + countCommas s := by
    have := commaPass_count s hs (s.length + 1) 0 1 Log.empty (by omega)
    rwa [List.drop_zero] at this
  rw [hcount]
  split
  · split
    · intro h; cases h
    · rename_i e
      have e44 : rd s 7 = 44 := Classical.byContradiction (fun h => e h)
      have hlt : 7 < s.length := rd_ne_zero_lt s 7 (by rw [e44]; decide)
      apply hwlocLoopC_no_assert
      · rfl
      · have h4 := countCommas_suffix (List.drop_suffix 7 s)
        rw [drop_rd_cons hlt, countCommas_cons, if_pos e44] at h4
        have h8 : (7 + 1 : Nat) = 8 := rfl
        rw [h8] at h4
        omega
  · apply hwlocLoopC_no_assert
    · rfl
    · rw [List.drop_zero]; exact Nat.le_refl _

theorem hwlocLoopC_not_big (s : List Byte) (nw : Nat) : ∀ fuel cur count accum ws infinite lg,
    (hwlocLoopC s nw fuel cur count accum ws infinite lg).res ≠ .okBig := by
  intro fuel
  induction fuel with
  | zero => intro cur count accum ws infinite lg h; unfold hwlocLoopC at h; cases h
  | succ f ih =>
    intro cur count accum ws infinite lg
    unfold hwlocLoopC
    simp only
    split
    · intro h; cases h
    · split
      · exact ih _ _ _ _ _ _
      · split
        · intro h; cases h
        · intro h; cases h

theorem hwlocSscanfC_not_big (s : List Byte) : (hwlocSscanfC s).res ≠ .okBig := by
  unfold hwlocSscanfC
  simp only
  split
  · split
    · intro h; cases h
    · exact hwlocLoopC_not_big _ _ _ _ _ _ _ _ _
  · exact hwlocLoopC_not_big _ _ _ _ _ _ _ _ _

end Cursor
end Bitmap
end Hw
