/-
  Hw.Bitmap.Alias — the combinators of hwloc/bitmap.c at the level of a *store* of bitmap structs
  addressed by handles, where the destination may be the same struct as an operand.

  The C code (or / and / andnot / xor, lines 1187–1343; not 1345; copy 232) first caches the operand
  counts, then `hwloc_bitmap_reset_by_ulongs(res, max_count)` changes `res->ulongs_count` (the words
  already stored are preserved by realloc, the others are whatever memory holds), then loops that
  read `set1->ulongs[i]`, `set2->ulongs[i]` *from the current memory* and write `res->ulongs[i]`,
  then reads the `infinite` flags.  The model below does exactly that over
  `Store := Nat → Raw` with `Raw = (cells : Nat → Word, count, inf)`; cells at or beyond `count` are
  arbitrary (uninitialised / stale memory): every theorem is universally quantified over them.

  Theorem `binop_alias`: for all handles r, s1, s2 (equal or not) the struct `r` ends up denoting
  exactly the pure model applied to the ORIGINAL operands, and no other handle changes.
-/
import Hw.Bitmap.Combine
namespace Hw
namespace Bitmap

structure Raw where
  cell : Nat → Word
  count : Nat
  inf : Bool

def Raw.toBitmap (x : Raw) : Bitmap := build x.count x.cell x.inf

abbrev Store := Nat → Raw

def Store.set (st : Store) (h : Nat) (x : Raw) : Store := fun k => if k = h then x else st k
def Raw.setCell (x : Raw) (i : Nat) (w : Word) : Raw := { x with cell := fun j => if j = i then w else x.cell j }

theorem toBitmap_readWord_lt (x : Raw) (i : Nat) (h : i < x.count) : x.toBitmap.readWord i = x.cell i := by
  unfold Raw.toBitmap; rw [readWord_build]; simp [h]
theorem toBitmap_readWord_ge (x : Raw) (i : Nat) (h : x.count ≤ i) : x.toBitmap.readWord i = fillW x.inf := by
  unfold Raw.toBitmap; rw [readWord_build]; simp [Nat.not_lt.mpr h]
@[simp] theorem toBitmap_count (x : Raw) : x.toBitmap.count = x.count := by simp [Raw.toBitmap]
@[simp] theorem toBitmap_inf (x : Raw) : x.toBitmap.inf = x.inf := rfl

/-- `for (i = lo; i < lo+n; i++) res->ulongs[i] = f(set1->ulongs[i], set2->ulongs[i]);`
every read goes to the current store -/
def loopPW (r s1 s2 : Nat) (f : Word → Word → Word) (lo : Nat) : Nat → Store → Store
  | 0, st => st
  | n+1, st =>
    let st' := loopPW r s1 s2 f lo n st
    let i := lo + n
    st'.set r ((st' r).setCell i (f ((st' s1).cell i) ((st' s2).cell i)))

/-- the loop writes index `i` of `r` from index `i` of the sources **as they were before the loop**,
whatever the aliasing; nothing else changes -/
theorem loopPW_spec (r s1 s2 : Nat) (f : Word → Word → Word) (lo n : Nat) (st : Store) :
    (∀ h, h ≠ r → loopPW r s1 s2 f lo n st h = st h) ∧
    (loopPW r s1 s2 f lo n st r).count = (st r).count ∧ (loopPW r s1 s2 f lo n st r).inf = (st r).inf ∧
    ∀ i, (loopPW r s1 s2 f lo n st r).cell i =
      if lo ≤ i ∧ i < lo + n then f ((st s1).cell i) ((st s2).cell i) else (st r).cell i := by
  induction n with
  | zero =>
    refine ⟨fun _ _ => rfl, rfl, rfl, fun i => ?_⟩
    have : ¬ (lo ≤ i ∧ i < lo + 0) := by omega
    rw [if_neg this]; rfl
  | succ n ih =>
    obtain ⟨hoth, hcnt, hinf, hcell⟩ := ih
    -- a source cell at the index being written is still the original one
    have hsrc : ∀ s, (loopPW r s1 s2 f lo n st s).cell (lo + n) = (st s).cell (lo + n) := by
      intro s
      by_cases hs : s = r
      · subst hs
        rw [hcell]
        have : ¬ (lo ≤ lo + n ∧ lo + n < lo + n) := by omega
        simp [this]
      · rw [hoth s hs]
    refine ⟨?_, ?_, ?_, ?_⟩
    · intro h hh
      simp only [loopPW, Store.set, hh, if_false]
      exact hoth h hh
    · simp only [loopPW, Store.set, if_true, Raw.setCell]; exact hcnt
    · simp only [loopPW, Store.set, if_true, Raw.setCell]; exact hinf
    · intro i
      simp only [loopPW, Store.set, if_true, Raw.setCell]
      by_cases hi : i = lo + n
      · subst hi
        have : lo ≤ lo + n ∧ lo + n < lo + (n + 1) := by omega
        simp only [if_true, this, and_self, hsrc]
      · simp only [hi, if_false]
        rw [hcell]
        by_cases h1 : lo ≤ i ∧ i < lo + n
        · have h2 : lo ≤ i ∧ i < lo + (n + 1) := by omega
          simp [h1, h2]
        · have h2 : ¬ (lo ≤ i ∧ i < lo + (n + 1)) := by omega
          simp [h1, h2]

/-- what the C does with the words between `min_count` and `max_count` when the operand that owns them
is the longer one: copy them through `g`, or cut `ulongs_count` back to `min_count` -/
inductive Tail | copy (g : Word → Word) | shrink

/-- description of one of the four binary combinators -/
structure BinOp where
  f : Word → Word → Word                 -- on the common words
  tail1 : Bool → Tail                    -- set1 longer; argument: set2->infinite
  tail2 : Bool → Tail                    -- set2 longer; argument: set1->infinite
  infOp : Bool → Bool → Bool

/-- the literal store-level procedure -/
def binopStore (op : BinOp) (r s1 s2 : Nat) (st : Store) : Store :=
  let count1 := (st s1).count
  let count2 := (st s2).count
  let maxc := max count1 count2
  let minc := min count1 count2
  -- hwloc_bitmap_reset_by_ulongs(res, max_count)
  let st := st.set r { st r with count := maxc }
  -- common words
  let st := loopPW r s1 s2 op.f 0 minc st
  -- tail
  let st :=
    if count1 = count2 then st
    else if minc < count1 then
      match op.tail1 (st s2).inf with
      | .shrink => st.set r { st r with count := minc }
      | .copy g => loopPW r s1 s2 (fun a _ => g a) minc (maxc - minc) st
    else
      match op.tail2 (st s1).inf with
      | .shrink => st.set r { st r with count := minc }
      | .copy g => loopPW r s1 s2 (fun _ b => g b) minc (maxc - minc) st
  -- res->infinite = ...
  st.set r { st r with inf := op.infOp (st s1).inf (st s2).inf }

/-- the pure (alias-free) meaning of the same description -/
def binopPure (op : BinOp) (a b : Bitmap) : Bitmap :=
  let c :=
    if a.count = b.count then a.count
    else if b.count < a.count then (match op.tail1 b.inf with | .shrink => b.count | .copy _ => a.count)
    else (match op.tail2 a.inf with | .shrink => a.count | .copy _ => b.count)
  build c (fun i => op.f (a.readWord i) (b.readWord i)) (op.infOp a.inf b.inf)

/-- side conditions: the tail rules agree with `f` applied to the other operand's fill word -/
structure BinOp.Ok (op : BinOp) : Prop where
  t1 : ∀ (i2 : Bool) (g : Word → Word), op.tail1 i2 = .copy g → ∀ w, g w = op.f w (fillW i2)
  t2 : ∀ (i1 : Bool) (g : Word → Word), op.tail2 i1 = .copy g → ∀ w, g w = op.f (fillW i1) w

set_option maxHeartbeats 800000 in
/-- **aliasing theorem**: whatever handles are passed (r = s1, r = s2, all equal, all different), the
destination ends up as the pure operation on the original operands and nothing else changes -/
theorem binop_alias (op : BinOp) (hop : op.Ok) (r s1 s2 : Nat) (st : Store) :
    (binopStore op r s1 s2 st r).toBitmap = binopPure op (st s1).toBitmap (st s2).toBitmap ∧
    ∀ h, h ≠ r → binopStore op r s1 s2 st h = st h := by
  -- names for the intermediate stores
  let c1 := (st s1).count
  let c2 := (st s2).count
  let st1 : Store := st.set r { st r with count := max c1 c2 }
  -- after the reset every struct has the same cells and flag as before
  have hst1_cell : ∀ h i, (st1 h).cell i = (st h).cell i := by
    intro h i; simp only [st1, Store.set]; split <;> simp_all
  have hst1_inf : ∀ h, (st1 h).inf = (st h).inf := by
    intro h; simp only [st1, Store.set]; split <;> simp_all
  have hst1_oth : ∀ h, h ≠ r → st1 h = st h := by
    intro h hh; simp [st1, Store.set, hh]
  obtain ⟨l_oth, l_cnt, l_inf, l_cell⟩ := loopPW_spec r s1 s2 op.f 0 (min c1 c2) st1
  let st2 := loopPW r s1 s2 op.f 0 (min c1 c2) st1
  have hst2_inf : ∀ h, (st2 h).inf = (st h).inf := by
    intro h
    by_cases hh : h = r
    · subst hh; show (loopPW h s1 s2 op.f 0 (min c1 c2) st1 h).inf = _; rw [l_inf, hst1_inf]
    · show (loopPW r s1 s2 op.f 0 (min c1 c2) st1 h).inf = _; rw [l_oth h hh, hst1_inf]
  -- cells of any struct after the first loop, at indexes ≥ min, are the original ones
  have hst2_cell_ge : ∀ h i, min c1 c2 ≤ i → (st2 h).cell i = (st h).cell i := by
    intro h i hi
    by_cases hh : h = r
    · subst hh
      show (loopPW h s1 s2 op.f 0 (min c1 c2) st1 h).cell i = _
      rw [l_cell]
      have : ¬ (0 ≤ i ∧ i < 0 + min c1 c2) := by omega
      simp only [this, if_false, hst1_cell]
    · show (loopPW r s1 s2 op.f 0 (min c1 c2) st1 h).cell i = _
      rw [l_oth h hh, hst1_cell]
  have hst2_r_lt : ∀ i, i < min c1 c2 → (st2 r).cell i = op.f ((st s1).cell i) ((st s2).cell i) := by
    intro i hi
    show (loopPW r s1 s2 op.f 0 (min c1 c2) st1 r).cell i = _
    rw [l_cell]
    have : 0 ≤ i ∧ i < 0 + min c1 c2 := by omega
    simp only [this, and_self, if_true, hst1_cell]
  have hst2_r_cnt : (st2 r).count = max c1 c2 := by
    show (loopPW r s1 s2 op.f 0 (min c1 c2) st1 r).count = _
    rw [l_cnt]; simp [st1, Store.set]
  have hst2_oth : ∀ h, h ≠ r → st2 h = st h := by
    intro h hh
    show loopPW r s1 s2 op.f 0 (min c1 c2) st1 h = _
    rw [l_oth h hh, hst1_oth h hh]
  -- readWord of the original operands
  have ra : ∀ i, (st s1).toBitmap.readWord i = if i < c1 then (st s1).cell i else fillW (st s1).inf := by
    intro i; unfold Raw.toBitmap; rw [readWord_build]
  have rb : ∀ i, (st s2).toBitmap.readWord i = if i < c2 then (st s2).cell i else fillW (st s2).inf := by
    intro i; unfold Raw.toBitmap; rw [readWord_build]
  -- the store after the tail handling, and the count the pure model predicts
  let cpure : Nat :=
    if c1 = c2 then c1
    else if c2 < c1 then (match op.tail1 (st s2).inf with | .shrink => c2 | .copy _ => c1)
    else (match op.tail2 (st s1).inf with | .shrink => c1 | .copy _ => c2)
  let st3 : Store :=
    if c1 = c2 then st2
    else if min c1 c2 < c1 then
      (match op.tail1 (st2 s2).inf with
       | .shrink => st2.set r { st2 r with count := min c1 c2 }
       | .copy g => loopPW r s1 s2 (fun a _ => g a) (min c1 c2) (max c1 c2 - min c1 c2) st2)
    else
      (match op.tail2 (st2 s1).inf with
       | .shrink => st2.set r { st2 r with count := min c1 c2 }
       | .copy g => loopPW r s1 s2 (fun _ b => g b) (min c1 c2) (max c1 c2 - min c1 c2) st2)
  have key : (∀ h, (st3 h).inf = (st h).inf) ∧ (st3 r).count = cpure ∧
      (∀ i, i < cpure → (st3 r).cell i = op.f ((st s1).toBitmap.readWord i) ((st s2).toBitmap.readWord i)) ∧
      (∀ h, h ≠ r → st3 h = st h) := by
    simp only [st3, cpure, hst2_inf]
    by_cases heq : c1 = c2
    · simp only [heq, if_true]
      refine ⟨hst2_inf, by rw [hst2_r_cnt, heq]; simp, ?_, hst2_oth⟩
      intro i hi
      rw [ra, rb]
      have h1 : i < c1 := by omega
      simp only [h1, hi, if_true]
      exact hst2_r_lt i (by omega)
    · simp only [heq, if_false]
      by_cases hlong : min c1 c2 < c1
      · have hlt : c2 < c1 := by omega
        simp only [hlong, if_true, hlt]
        cases ht : op.tail1 (st s2).inf with
        | shrink =>
          simp only
          refine ⟨?_, ?_, ?_, ?_⟩
          · intro h; simp only [Store.set]; split
            · rename_i e; subst e; rfl
            · exact hst2_inf h
          · simp [Store.set]; omega
          · intro i hi
            simp only [Store.set, if_true]
            rw [ra, rb]
            have h1 : i < c1 := by omega
            simp only [h1, hi, if_true]
            exact hst2_r_lt i (by omega)
          · intro h hh; simp only [Store.set, hh, if_false]; exact hst2_oth h hh
        | copy g =>
          simp only
          obtain ⟨t_oth, t_cnt, t_inf, t_cell⟩ :=
            loopPW_spec r s1 s2 (fun a _ => g a) (min c1 c2) (max c1 c2 - min c1 c2) st2
          refine ⟨?_, ?_, ?_, ?_⟩
          · intro h
            by_cases hh : h = r
            · subst hh; rw [t_inf, hst2_inf]
            · rw [t_oth h hh, hst2_inf]
          · rw [t_cnt, hst2_r_cnt]; omega
          · intro i hi
            rw [t_cell, ra, rb]
            have h1 : i < c1 := by omega
            simp only [h1, if_true]
            by_cases hi2 : i < c2
            · have : ¬ (min c1 c2 ≤ i ∧ i < min c1 c2 + (max c1 c2 - min c1 c2)) := by omega
              simp only [this, if_false, hi2, if_true]
              exact hst2_r_lt i (by omega)
            · have : min c1 c2 ≤ i ∧ i < min c1 c2 + (max c1 c2 - min c1 c2) := by omega
              simp only [this, and_self, if_true, hi2, if_false]
              rw [hst2_cell_ge s1 i (by omega)]
              exact hop.t1 _ g ht _
          · intro h hh; rw [t_oth h hh]; exact hst2_oth h hh
      · have hlt : c1 < c2 := by omega
        have hnlt : ¬ c2 < c1 := by omega
        simp only [hlong, if_false, hnlt]
        cases ht : op.tail2 (st s1).inf with
        | shrink =>
          simp only
          refine ⟨?_, ?_, ?_, ?_⟩
          · intro h; simp only [Store.set]; split
            · rename_i e; subst e; rfl
            · exact hst2_inf h
          · simp [Store.set]; omega
          · intro i hi
            simp only [Store.set, if_true]
            rw [ra, rb]
            have h1 : i < c2 := by omega
            simp only [h1, hi, if_true]
            exact hst2_r_lt i (by omega)
          · intro h hh; simp only [Store.set, hh, if_false]; exact hst2_oth h hh
        | copy g =>
          simp only
          obtain ⟨t_oth, t_cnt, t_inf, t_cell⟩ :=
            loopPW_spec r s1 s2 (fun _ b => g b) (min c1 c2) (max c1 c2 - min c1 c2) st2
          refine ⟨?_, ?_, ?_, ?_⟩
          · intro h
            by_cases hh : h = r
            · subst hh; rw [t_inf, hst2_inf]
            · rw [t_oth h hh, hst2_inf]
          · rw [t_cnt, hst2_r_cnt]; omega
          · intro i hi
            rw [t_cell, ra, rb]
            have h1 : i < c2 := by omega
            simp only [h1, if_true]
            by_cases hi2 : i < c1
            · have : ¬ (min c1 c2 ≤ i ∧ i < min c1 c2 + (max c1 c2 - min c1 c2)) := by omega
              simp only [this, if_false, hi2, if_true]
              exact hst2_r_lt i (by omega)
            · have : min c1 c2 ≤ i ∧ i < min c1 c2 + (max c1 c2 - min c1 c2) := by omega
              simp only [this, and_self, if_true, hi2, if_false]
              rw [hst2_cell_ge s2 i (by omega)]
              exact hop.t2 _ g ht _
          · intro h hh; rw [t_oth h hh]; exact hst2_oth h hh
  obtain ⟨k_inf, k_cnt, k_cell, k_oth⟩ := key
  have hfinal : binopStore op r s1 s2 st = st3.set r { st3 r with inf := op.infOp (st3 s1).inf (st3 s2).inf } := rfl
  have hpure : binopPure op (st s1).toBitmap (st s2).toBitmap =
      build cpure (fun i => op.f ((st s1).toBitmap.readWord i) ((st s2).toBitmap.readWord i))
        (op.infOp (st s1).inf (st s2).inf) := by
    simp only [binopPure, toBitmap_count, toBitmap_inf, cpure, c1, c2]
  rw [hfinal, hpure]
  refine ⟨?_, ?_⟩
  · simp only [Store.set, if_true, k_inf]
    unfold Raw.toBitmap build
    simp only [k_cnt]
    congr 1
    apply List.map_congr_left
    intro i hi
    exact k_cell i (by simpa using hi)
  · intro h hh; simp only [Store.set, hh, if_false]; exact k_oth h hh

/-! ### the four combinators as instances -/

def opOr : BinOp :=
  { f := fun a b => a ||| b,
    tail1 := fun i2 => if i2 then .shrink else .copy (fun w => w),
    tail2 := fun i1 => if i1 then .shrink else .copy (fun w => w),
    infOp := fun x y => x || y }
def opAnd : BinOp :=
  { f := fun a b => a &&& b,
    tail1 := fun i2 => if i2 then .copy (fun w => w) else .shrink,
    tail2 := fun i1 => if i1 then .copy (fun w => w) else .shrink,
    infOp := fun x y => x && y }
def opAndnot : BinOp :=
  { f := fun a b => a &&& ~~~ b,
    tail1 := fun i2 => if !i2 then .copy (fun w => w) else .shrink,
    tail2 := fun i1 => if i1 then .copy (fun w => ~~~ w) else .shrink,
    infOp := fun x y => x && !y }
def opXor : BinOp :=
  { f := fun a b => a ^^^ b,
    tail1 := fun i2 => .copy (fun w => w ^^^ fillW i2),
    tail2 := fun i1 => .copy (fun w => w ^^^ fillW i1),
    infOp := fun x y => x != y }

theorem and_fillW_true (w : Word) : w &&& fillW true = w := by simp only [fillW_true, BitVec.and_allOnes]
theorem fillW_true_and (w : Word) : fillW true &&& w = w := by simp only [fillW_true, BitVec.allOnes_and]
theorem or_fillW_false (w : Word) : w ||| fillW false = w := by simp
theorem fillW_false_or (w : Word) : fillW false ||| w = w := by simp
theorem not_fillW_false : ~~~ fillW false = fillW true := by simp [fillW_not]

theorem build_congr (c c' : Nat) (f g : Nat → Word) (x y : Bool) (hc : c = c') (hf : ∀ i, i < c → f i = g i)
    (hx : x = y) : build c f x = build c' g y := by
  subst hc; subst hx
  unfold build
  congr 1
  apply List.map_congr_left
  intro i hi
  exact hf i (by simpa using hi)

theorem opOr_ok : opOr.Ok := by
  constructor
  · intro i2 g h w
    cases i2 with
    | true => simp only [opOr, if_true, reduceCtorEq] at h
    | false =>
      simp only [opOr, Bool.false_eq_true, if_false, Tail.copy.injEq] at h
      subst h; exact (or_fillW_false w).symm
  · intro i1 g h w
    cases i1 with
    | true => simp only [opOr, if_true, reduceCtorEq] at h
    | false =>
      simp only [opOr, Bool.false_eq_true, if_false, Tail.copy.injEq] at h
      subst h; exact (fillW_false_or w).symm
theorem opAnd_ok : opAnd.Ok := by
  constructor
  · intro i2 g h w
    cases i2 with
    | false => simp only [opAnd, Bool.false_eq_true, if_false, reduceCtorEq] at h
    | true =>
      simp only [opAnd, if_true, Tail.copy.injEq] at h
      subst h; exact (and_fillW_true w).symm
  · intro i1 g h w
    cases i1 with
    | false => simp only [opAnd, Bool.false_eq_true, if_false, reduceCtorEq] at h
    | true =>
      simp only [opAnd, if_true, Tail.copy.injEq] at h
      subst h; exact (fillW_true_and w).symm
theorem opAndnot_ok : opAndnot.Ok := by
  constructor
  · intro i2 g h w
    cases i2 with
    | true => simp only [opAndnot, Bool.not_true, Bool.false_eq_true, if_false, reduceCtorEq] at h
    | false =>
      simp only [opAndnot, Bool.not_false, if_true, Tail.copy.injEq] at h
      subst h
      show w = w &&& ~~~ fillW false
      rw [not_fillW_false, and_fillW_true]
  · intro i1 g h w
    cases i1 with
    | false => simp only [opAndnot, Bool.false_eq_true, if_false, reduceCtorEq] at h
    | true =>
      simp only [opAndnot, if_true, Tail.copy.injEq] at h
      subst h
      show ~~~ w = fillW true &&& ~~~ w
      rw [fillW_true_and]
theorem opXor_ok : opXor.Ok := by
  constructor
  · intro i2 g h w
    simp only [opXor, Tail.copy.injEq] at h
    subst h; rfl
  · intro i1 g h w
    simp only [opXor, Tail.copy.injEq] at h
    subst h; exact BitVec.xor_comm _ _

theorem binopPure_or (a b : Bitmap) : binopPure opOr a b = a.or b := by
  unfold binopPure Bitmap.or orCount opOr
  cases a.inf <;> cases b.inf <;> simp
theorem binopPure_and (a b : Bitmap) : binopPure opAnd a b = a.and b := by
  unfold binopPure Bitmap.and andCount opAnd
  cases a.inf <;> cases b.inf <;> simp
theorem binopPure_andnot (a b : Bitmap) : binopPure opAndnot a b = a.andnot b := by
  unfold binopPure Bitmap.andnot andnotCount opAndnot
  cases a.inf <;> cases b.inf <;> simp
theorem binopPure_xor (a b : Bitmap) : binopPure opXor a b = a.xor b := by
  unfold binopPure Bitmap.xor opXor
  simp only
  congr 1
  split
  · rename_i h; simp [h]
  · split <;> omega

/-! ### `hwloc_bitmap_not(res, set)` with `res == set` allowed -/

def notStore (r s : Nat) (st : Store) : Store :=
  let count := (st s).count
  let st := st.set r { st r with count := count }
  let st := loopPW r s s (fun a _ => ~~~ a) 0 count st
  st.set r { st r with inf := !(st s).inf }

theorem not_alias (r s : Nat) (st : Store) :
    (notStore r s st r).toBitmap = (st s).toBitmap.not ∧ ∀ h, h ≠ r → notStore r s st h = st h := by
  let c := (st s).count
  let st1 : Store := st.set r { st r with count := c }
  have h1c : ∀ h i, (st1 h).cell i = (st h).cell i := by
    intro h i; simp only [st1, Store.set]; split <;> simp_all
  have h1i : ∀ h, (st1 h).inf = (st h).inf := by
    intro h; simp only [st1, Store.set]; split <;> simp_all
  obtain ⟨l_oth, l_cnt, l_inf, l_cell⟩ := loopPW_spec r s s (fun a _ => ~~~ a) 0 c st1
  have hfinal : notStore r s st = (loopPW r s s (fun a _ => ~~~ a) 0 c st1).set r
      { (loopPW r s s (fun a _ => ~~~ a) 0 c st1) r with inf := !((loopPW r s s (fun a _ => ~~~ a) 0 c st1) s).inf } := rfl
  have hsinf : ((loopPW r s s (fun a _ => ~~~ a) 0 c st1) s).inf = (st s).inf := by
    by_cases hs : s = r
    · subst hs; rw [l_inf, h1i]
    · rw [l_oth s hs, h1i]
  have hc : (loopPW r s s (fun a _ => ~~~ a) 0 c st1 r).count = c := by
    rw [l_cnt]; simp [st1, Store.set]
  have hb : (st s).toBitmap.not = build c (fun i => ~~~ (st s).toBitmap.readWord i) (!(st s).inf) := by
    unfold Bitmap.not; simp only [toBitmap_count, toBitmap_inf]; rfl
  rw [hfinal, hb]
  refine ⟨?_, ?_⟩
  · simp only [Store.set, if_true, hsinf]
    show build _ _ _ = _
    apply build_congr
    · exact hc
    · intro i hi
      rw [hc] at hi
      rw [l_cell]
      have : 0 ≤ i ∧ i < 0 + c := by omega
      simp only [this, and_self, if_true, h1c]
      rw [toBitmap_readWord_lt _ _ hi]
    · rfl
  · intro h hh
    simp only [Store.set, hh, if_false]
    rw [l_oth h hh]; simp [st1, Store.set, hh]

end Bitmap
end Hw
