/-
  Hw.Bitmap.Scan — the three bitmap parsers (hwloc/bitmap.c 375–447, 513–566, 669–739) on
  NUL-terminated byte lists.  Word cells of the destination are `Option Word`: `none` is a cell
  that `hwloc_bitmap_reset_by_ulongs` left uninitialised and that was never written afterwards.
-/
import Hw.Bitmap.Print
namespace Hw
namespace Bitmap

inductive ScanRes
  | ok (words : List (Option Word)) (inf : Bool)     -- return 0
  | fail                                             -- return -1 (destination zeroed)
  | unsupported                                      -- outside the modelled domain (sign in a number)
deriving Repr, DecidableEq

/-- the resulting bitmap when every cell is defined -/
def ScanRes.bitmap? : ScanRes → Option Bitmap
  | .ok ws inf => (ws.mapM id).map (fun w => ⟨w, inf⟩)
  | .fail => some ⟨[0#64], false⟩
  | .unsupported => none

def ScanRes.defined : ScanRes → Bool
  | .ok ws _ => ws.all Option.isSome
  | _ => true

def isPrefix (p s : List Byte) : Bool := s.take p.length == p

def countCommas (s : List Byte) : Nat := s.countP (· == 44)

def setCell (ws : List (Option Word)) (i : Nat) (w : Word) : List (Option Word) := ws.set i (some w)

/-- main loop of `hwloc_bitmap_sscanf` (after the `fix:` commit: every substring, including a
final empty one, is processed).  `count` = substrings still expected. -/
def hwlocLoop : Nat → List Byte → Nat → Word → List (Option Word) → Bool → ScanRes
  | 0, _, _, _, _, _ => .fail         -- unreachable: fuel = initial count
  | fuel+1, cur, count, accum, ws, infinite =>
    match strtoul 16 cur with
    | .unsupported => .unsupported
    | .ok val next =>
      -- assert(count > 0)
      if count = 0 then .fail else
      let count := count - 1
      let accum := accum ||| (BitVec.ofNat 64 val <<< ((count * 32) % 64))
      let (ws, accum) := if count % 2 = 0 then (setCell ws (count / 2) accum, 0#64) else (ws, accum)
      match next with
      | 44 :: rest => hwlocLoop fuel rest count accum ws infinite
      | [] => if count > 0 then .fail else .ok ws infinite
      | _ :: _ => .fail

def hwlocScan (s : List Byte) : ScanRes :=
  let count := 1 + countCommas s
  if isPrefix (str "0xf...f") s then
    let cur := s.drop 7
    match cur with
    | 44 :: rest =>
      let count := count - 1
      let ulongcount := (count + 1) / 2
      let accum : Word := if count % 2 ≠ 0 then BitVec.ofNat 64 (0xFFFFFFFF <<< 32) else 0#64
      hwlocLoop count rest count accum (List.replicate ulongcount none) true
    | _ => .ok [some (BitVec.allOnes 64)] true      -- hwloc_bitmap_fill
  else
    let ulongcount := (count + 1) / 2
    hwlocLoop count s count 0#64 (List.replicate ulongcount none) false

/-- domain bound of the list-format model: indexes below 2^21 (beyond it C integer conversions and
giant allocations come into play; the harness reports such inputs as `unsupported` too) -/
def listMaxIndex : Nat := 2^21

/-- what one parsed number does: new bitmap, new `begin`, and whether the loop stops (infinite range) -/
def listStep (b : Bitmap) (beg : Option Nat) (val : Nat) (next : List Byte) : Bitmap × Option Nat × Bool :=
  match beg with
  | some b0 => (b.setRange b0 (some val), none, false)
  | none =>
    match next with
    | 45 :: [] => (b.setRange val none, none, true)
    | 45 :: _ => (b, some val, false)
    | 44 :: _ => (b.set val, none, false)
    | 32 :: _ => (b.set val, none, false)
    | [] => (b.set val, none, false)
    | _ => (b, none, false)

/-- `hwloc_bitmap_list_sscanf`; state: the bitmap built so far and `begin` (`none` = -1) -/
def listLoop : Nat → List Byte → Bitmap → Option Nat → ScanRes
  | 0, _, _, _ => .fail           -- unreachable: fuel = length + 1
  | fuel+1, cur, b, beg =>
    match cur with
    | [] => .ok (b.words.map some) b.inf
    | _ =>
      let cur := cur.dropWhile (fun c => c == 44 || c == 32)
      match strtoul 0 cur with
      | .unsupported => .unsupported
      | .ok val next =>
        if next.length = cur.length then .fail     -- no digit
        else if listMaxIndex ≤ val then .unsupported
        else
          let r := listStep b beg val next
          if r.2.2 then .ok (r.1.words.map some) r.1.inf
          else match next with
            | [] => .ok (r.1.words.map some) r.1.inf
            | _ :: rest => listLoop fuel rest r.1 r.2.1

def listScan (s : List Byte) : ScanRes := listLoop (s.length + 1) s ⟨[0#64], false⟩ none

/-- loop of `hwloc_bitmap_taskset_sscanf` -/
def tasksetLoop : Nat → List Byte → Nat → Nat → List (Option Word) → Bool → ScanRes
  | 0, _, _, _, _, _ => .fail           -- unreachable
  | fuel+1, cur, chars, count, ws, infinite =>
    match cur with
    | [] => .ok ws infinite
    | _ =>
      let tmpchars := if chars % 16 = 0 then 16 else chars % 16
      let ustr := cur.take tmpchars
      match strtoul 16 ustr with
      | .unsupported => .unsupported
      | .ok val next =>
        if !next.isEmpty then .fail else
        let w : Word := BitVec.ofNat 64 val
        let w := if infinite && tmpchars != 16 then w ||| (BitVec.allOnes 64 <<< (4 * tmpchars)) else w
        tasksetLoop fuel (cur.drop tmpchars) (chars - tmpchars) (count - 1) (setCell ws (count - 1) w) infinite

/-- the part of `hwloc_bitmap_taskset_sscanf` after the prefix handling -/
def tasksetGo (cur : List Byte) (infinite : Bool) : ScanRes :=
  let chars := cur.length
  let count := (chars * 4 + 63) / 64
  tasksetLoop (count + 1) cur chars count (List.replicate count none) infinite

def tasksetScan (s : List Byte) : ScanRes :=
  if isPrefix (str "0xf...f") s then
    if (s.drop 7).isEmpty then .ok [some (BitVec.allOnes 64)] true else tasksetGo (s.drop 7) true
  else if isPrefix (str "0x") s then
    if (s.drop 2).isEmpty then .ok [some 0#64] false else tasksetGo (s.drop 2) false
  else
    if s.isEmpty then .ok [some 0#64] false else tasksetGo s false

end Bitmap
end Hw
