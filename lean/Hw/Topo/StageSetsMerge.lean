/-
  Hw.Topo.StageSetsMerge — the set clauses of well-formedness THROUGH level merging (hwloc_filter_levels_keep_structure).

  hwloc_compare_levels_structure only checks the SHAPE (same number of objects on both levels, every upper object has exactly one
  normal child — the lower object — and, if the lower level is the PU level, no memory children): it never looks at the sets.  What
  makes the merge harmless for the sets is a fact about single children that discovery by insertion establishes and that WF states
  (cpuset-is-disjoint-union-of-children, nodeset-decomposition): an object with exactly ONE normal child has the cpuset and the
  nodeset of that child (`TightQ`).  Under this hypothesis — decidable, evaluated by the driver on every rm_after tree — the clauses
      set-in-complete, set-in-parent (4 sets, normal and memory children), memory-child-shares-cpuset, normal siblings disjoint  (`SetW`)
  and the hypothesis itself are preserved by `mergeT` (both branches: replace-child keeps the parent; replace-parent puts the child,
  with the parent's complete sets or-ed in when memory children come along, in the parent's place), by the re-sorting of memory
  children, by the final `reorderAllT`, hence by `keepStructure`.
-/
import Hw.Topo.StageCompose
import Hw.Topo.RestrictLemmas
namespace Hw.Topo.Restrict.Stage
open Hw.Topo Hw.Topo.Restrict Hw.Topo.SetStage

/-- the set clauses of WF at one object (as `SetQ`, with memory-child-shares-cpuset for the cpuset only, as WF states it) -/
def SetW (o : RObj) (ns ms : List RObj) : Prop :=
  Sub o.cpuset o.ccpuset ∧ Sub o.nodeset o.cnodeset ∧
  (∀ c ∈ ns ++ ms, Sub c.cpuset o.cpuset ∧ Sub c.ccpuset o.ccpuset ∧ Sub c.nodeset o.nodeset ∧ Sub c.cnodeset o.cnodeset) ∧
  (∀ m ∈ ms, m.cpuset = o.cpuset) ∧
  (ns.map (·.cpuset)).Pairwise Dj

/-- an object with exactly one normal child has that child's cpuset and nodeset -/
def TightQ (o : RObj) (ns : List RObj) : Prop := ∀ c, ns = [c] → c.cpuset = o.cpuset ∧ c.nodeset = o.nodeset

def WQ (o : RObj) (ns ms : List RObj) : Prop := SetW o ns ms ∧ TightQ o ns

theorem setW_of_setQ {o : RObj} {ns ms : List RObj} (h : SetQ o ns ms) : SetW o ns ms :=
  ⟨h.1, h.2.1, h.2.2.1, fun m hm => (h.2.2.2.1 m hm).1, h.2.2.2.2⟩

/-- what a merge may do to the object at the root of a subtree, seen from the parent: same cpuset and nodeset, complete sets not larger -/
def Rel (o o' : RObj) : Prop :=
  o'.cpuset = o.cpuset ∧ o'.nodeset = o.nodeset ∧ Sub o'.ccpuset o.ccpuset ∧ Sub o'.cnodeset o.cnodeset

theorem Rel.refl (o : RObj) : Rel o o := ⟨rfl, rfl, Sub.refl _, Sub.refl _⟩

def RelL : List RObj → List RObj → Prop
  | [], [] => True
  | a :: as, b :: bs => Rel a b ∧ RelL as bs
  | _, _ => False

theorem RelL.refl : ∀ l, RelL l l
  | [] => trivial
  | a :: as => ⟨Rel.refl a, RelL.refl as⟩

theorem RelL.mem : ∀ {l l' : List RObj}, RelL l l' → ∀ c' ∈ l', ∃ c ∈ l, Rel c c'
  | [], [], _, c', h => by cases h
  | [], _ :: _, h, _, _ => h.elim
  | _ :: _, [], h, _, _ => h.elim
  | a :: as, b :: bs, h, c', hc => by
    rcases List.mem_cons.1 hc with rfl | hc
    · exact ⟨a, List.mem_cons_self .., h.1⟩
    · obtain ⟨c, hc1, hc2⟩ := RelL.mem h.2 c' hc
      exact ⟨c, List.mem_cons_of_mem _ hc1, hc2⟩

theorem RelL.cpusets : ∀ {l l' : List RObj}, RelL l l' → l'.map (·.cpuset) = l.map (·.cpuset)
  | [], [], _ => rfl
  | [], _ :: _, h => h.elim
  | _ :: _, [], h => h.elim
  | a :: as, b :: bs, h => by rw [List.map_cons, List.map_cons, h.1.1, RelL.cpusets h.2]

theorem RelL.single : ∀ {l : List RObj} {c' : RObj}, RelL l [c'] → ∃ c, l = [c] ∧ Rel c c'
  | [], _, h => h.elim
  | [a], _, h => ⟨a, rfl, h.1⟩
  | _ :: _ :: _, _, h => h.2.elim

/-- the clauses at an object survive when its normal children's objects change by `Rel` -/
theorem WQ.relabel {o : RObj} {ns ns' ms : List RObj} (h : WQ o ns ms) (hr : RelL ns ns') : WQ o ns' ms := by
  obtain ⟨⟨h1, h2, h3, h4, h5⟩, ht⟩ := h
  refine ⟨⟨h1, h2, ?_, h4, ?_⟩, ?_⟩
  · intro c' hc'
    rcases List.mem_append.1 hc' with hc' | hc'
    · obtain ⟨c, hc, r⟩ := hr.mem c' hc'
      have := h3 c (List.mem_append_left _ hc)
      exact ⟨r.1 ▸ this.1, r.2.2.1.trans this.2.1, r.2.1 ▸ this.2.2.1, r.2.2.2.trans this.2.2.2⟩
    · exact h3 c' (List.mem_append_right _ hc')
  · rw [hr.cpusets]; exact h5
  · intro c' hc'
    subst hc'
    obtain ⟨c, rfl, r⟩ := hr.single
    have := ht c rfl
    exact ⟨r.1.trans this.1, r.2.1.trans this.2⟩

/-- … and when the memory children are listed in another order -/
theorem WQ.mem_perm {o : RObj} {ns ms ms' : List RObj} (h : WQ o ns ms) (hp : ∀ x, x ∈ ms' → x ∈ ms) : WQ o ns ms' := by
  obtain ⟨⟨h1, h2, h3, h4, h5⟩, ht⟩ := h
  refine ⟨⟨h1, h2, ?_, fun m hm => h4 m (hp m hm), h5⟩, ht⟩
  intro c hc
  rcases List.mem_append.1 hc with hc | hc
  · exact h3 c (List.mem_append_left _ hc)
  · exact h3 c (List.mem_append_right _ (hp c hc))

theorem Dj_pairwise_perm {l l' : List Nat} (hp : l'.Perm l) (h : l.Pairwise Dj) : l'.Pairwise Dj :=
  (hp.pairwise_iff (fun {_ _} hd => Dj.symm hd)).2 h

/-- … and when the normal children are permuted -/
theorem WQ.ns_perm {o : RObj} {ns ns' ms : List RObj} (h : WQ o ns ms) (hp : ns'.Perm ns) : WQ o ns' ms := by
  obtain ⟨⟨h1, h2, h3, h4, h5⟩, ht⟩ := h
  refine ⟨⟨h1, h2, ?_, h4, Dj_pairwise_perm (hp.map _) h5⟩, ?_⟩
  · intro c hc
    rcases List.mem_append.1 hc with hc | hc
    · exact h3 c (List.mem_append_left _ (hp.subset hc))
    · exact h3 c (List.mem_append_right _ hc)
  · intro c hc
    subst hc
    exact ht c (List.perm_singleton.1 hp.symm)

/-! ### facts about `absorbIf` -/

theorem absorbIf_cpuset (ms : List Tree) (o co : RObj) : (absorbIf ms o co).cpuset = co.cpuset := by
  unfold absorbIf absorb; split <;> rfl
theorem absorbIf_nodeset (ms : List Tree) (o co : RObj) : (absorbIf ms o co).nodeset = co.nodeset := by
  unfold absorbIf absorb; split <;> rfl
theorem absorbIf_cc_ge (ms : List Tree) (o co : RObj) : Sub co.ccpuset (absorbIf ms o co).ccpuset := by
  unfold absorbIf absorb; split
  · exact Sub.refl _
  · exact Sub.or_right _ (Sub.refl _)
theorem absorbIf_cn_ge (ms : List Tree) (o co : RObj) : Sub co.cnodeset (absorbIf ms o co).cnodeset := by
  unfold absorbIf absorb; split
  · exact Sub.refl _
  · exact Sub.or_right _ (Sub.refl _)
theorem absorbIf_cc_le (ms : List Tree) (o co : RObj) (h : Sub co.ccpuset o.ccpuset) : Sub (absorbIf ms o co).ccpuset o.ccpuset := by
  unfold absorbIf absorb; split
  · exact h
  · exact Sub.or_left h (Sub.refl _)
theorem absorbIf_cn_le (ms : List Tree) (o co : RObj) (h : Sub co.cnodeset o.cnodeset) : Sub (absorbIf ms o co).cnodeset o.cnodeset := by
  unfold absorbIf absorb; split
  · exact h
  · exact Sub.or_left h (Sub.refl _)
theorem absorbIf_cc_parent (ms : List Tree) (o co : RObj) (h : ms ≠ []) : Sub o.ccpuset (absorbIf ms o co).ccpuset := by
  unfold absorbIf absorb
  have : ms.isEmpty = false := by cases ms with | nil => exact absurd rfl h | cons _ _ => rfl
  rw [this]; exact Sub.or_right' _ (Sub.refl _)
theorem absorbIf_cn_parent (ms : List Tree) (o co : RObj) (h : ms ≠ []) : Sub o.cnodeset (absorbIf ms o co).cnodeset := by
  unfold absorbIf absorb
  have : ms.isEmpty = false := by cases ms with | nil => exact absurd rfl h | cons _ _ => rfl
  rw [this]; exact Sub.or_right' _ (Sub.refl _)

/-! ### one merge -/

theorem AllQL_perm (Q : RObj → List RObj → List RObj → Prop) {l l' : List Tree} (hp : l'.Perm l) (h : AllQL Q l) : AllQL Q l' :=
  (AllQL_iff Q l').2 (fun t ht => (AllQL_iff Q l).1 h t (hp.subset ht))

/-- **merging an object with its single normal child** (either branch) keeps the clauses in the merged subtree, and the object now at
    its root is `Rel`-ated to the old one -/
theorem WQ_mergeNode (rc : Bool) (o : RObj) (ns ms ios mis : List Tree) (h : AllQ WQ (.node o ns ms ios mis)) :
    AllQ WQ (mergeNode rc o ns ms ios mis) ∧ Rel o (mergeNode rc o ns ms ios mis).obj := by
  unfold mergeNode
  split
  · rename_i co cns cms cios cmis
    rw [AllQ] at h
    obtain ⟨⟨hw, ht⟩, hkids, hms⟩ := h
    rw [AllQL, AllQ] at hkids
    obtain ⟨⟨⟨hcw, hct⟩, hck, hcm⟩, _⟩ := hkids
    simp only [List.map_cons, List.map_nil, Tree.obj] at hw ht
    obtain ⟨w1, w2, w3, w4, _⟩ := hw
    obtain ⟨c1, c2, c3, c4, c5⟩ := hcw
    have tight := ht co rfl
    have hco := w3 co (by simp)
    have hpm := mergedMs_perm rc ms cms
    have hall : AllQL WQ (mergedMs rc ms cms) := AllQL_perm WQ hpm ((AllQL_append WQ ms cms).2 ⟨hms, hcm⟩)
    have hmem : ∀ x, x ∈ (mergedMs rc ms cms).map Tree.obj → x ∈ ms.map Tree.obj ∨ x ∈ cms.map Tree.obj := by
      intro x hx
      obtain ⟨t, ht1, rfl⟩ := List.mem_map.1 hx
      rcases List.mem_append.1 (hpm.subset ht1) with h' | h'
      · exact Or.inl (List.mem_map_of_mem h')
      · exact Or.inr (List.mem_map_of_mem h')
    cases rc
    · -- replace-parent: the child, with the parent's complete sets or-ed in when memory children come along, takes the place
      simp only [Bool.false_eq_true, if_false, Tree.obj]
      refine ⟨?_, (absorbIf_cpuset ms o co).trans tight.1, (absorbIf_nodeset ms o co).trans tight.2,
        absorbIf_cc_le ms o co hco.2.1, absorbIf_cn_le ms o co hco.2.2.2⟩
      rw [AllQ]
      refine ⟨⟨⟨?_, ?_, ?_, ?_, c5⟩, ?_⟩, hck, hall⟩
      · rw [absorbIf_cpuset]; exact c1.trans (absorbIf_cc_ge ..)
      · rw [absorbIf_nodeset]; exact c2.trans (absorbIf_cn_ge ..)
      · intro c hc
        rw [absorbIf_cpuset, absorbIf_nodeset]
        rcases List.mem_append.1 hc with hc | hc
        · have := c3 c (List.mem_append_left _ hc)
          exact ⟨this.1, this.2.1.trans (absorbIf_cc_ge ..), this.2.2.1, this.2.2.2.trans (absorbIf_cn_ge ..)⟩
        · rcases hmem c hc with hc | hc
          · have hne : ms ≠ [] := by intro e; rw [e] at hc; cases hc
            have := w3 c (List.mem_append_right _ hc)
            have e1 := w4 c hc
            refine ⟨?_, this.2.1.trans (absorbIf_cc_parent ms o co hne), ?_, this.2.2.2.trans (absorbIf_cn_parent ms o co hne)⟩
            · rw [e1, ← tight.1]; exact Sub.refl _
            · rw [tight.2]; exact this.2.2.1
          · have := c3 c (List.mem_append_right _ hc)
            exact ⟨this.1, this.2.1.trans (absorbIf_cc_ge ..), this.2.2.1, this.2.2.2.trans (absorbIf_cn_ge ..)⟩
      · intro m hm
        rw [absorbIf_cpuset]
        rcases hmem m hm with hm | hm
        · rw [w4 m hm, tight.1]
        · exact c4 m hm
      · intro g hg
        rw [absorbIf_cpuset, absorbIf_nodeset]
        exact hct g hg
    · -- replace-child: the parent stays and takes over everything below the child
      simp only [if_true, Tree.obj]
      refine ⟨?_, Rel.refl o⟩
      rw [AllQ]
      refine ⟨⟨⟨w1, w2, ?_, ?_, c5⟩, ?_⟩, hck, hall⟩
      · intro c hc
        rcases List.mem_append.1 hc with hc | hc
        · have := c3 c (List.mem_append_left _ hc)
          exact ⟨this.1.trans hco.1, this.2.1.trans hco.2.1, this.2.2.1.trans hco.2.2.1, this.2.2.2.trans hco.2.2.2⟩
        · rcases hmem c hc with hc | hc
          · exact w3 c (List.mem_append_right _ hc)
          · have := c3 c (List.mem_append_right _ hc)
            exact ⟨this.1.trans hco.1, this.2.1.trans hco.2.1, this.2.2.1.trans hco.2.2.1, this.2.2.2.trans hco.2.2.2⟩
      · intro m hm
        rcases hmem m hm with hm | hm
        · exact w4 m hm
        · rw [c4 m hm, tight.1]
      · intro g hg
        have := hct g hg
        exact ⟨this.1.trans tight.1, this.2.trans tight.2⟩
  · exact ⟨h, Rel.refl o⟩

theorem WQ_merge (ps : List Nat) (rc : Bool) :
    (∀ t, AllQ WQ t → AllQ WQ (mergeT ps rc t) ∧ Rel t.obj (mergeT ps rc t).obj) ∧
    (∀ l, AllQL WQ l → AllQL WQ (mergeL ps rc l) ∧ RelL (l.map Tree.obj) ((mergeL ps rc l).map Tree.obj)) := by
  have hnode : ∀ o ns ms ios mis,
      (AllQL WQ ns → AllQL WQ (mergeL ps rc ns) ∧ RelL (ns.map Tree.obj) ((mergeL ps rc ns).map Tree.obj)) →
      (AllQL WQ ms → AllQL WQ (mergeL ps rc ms) ∧ RelL (ms.map Tree.obj) ((mergeL ps rc ms).map Tree.obj)) →
      (AllQ WQ (.node o ns ms ios mis) → AllQ WQ (mergeT ps rc (.node o ns ms ios mis)) ∧
        Rel (Tree.node o ns ms ios mis).obj (mergeT ps rc (.node o ns ms ios mis)).obj) := by
    intro o ns ms ios mis hn _ h
    rw [mergeT]
    split
    · exact WQ_mergeNode rc o ns ms ios mis h
    · refine ⟨?_, Rel.refl _⟩
      rw [AllQ] at h ⊢
      obtain ⟨hw, hk, hm⟩ := h
      have := hn hk
      exact ⟨hw.relabel this.2, this.1, hm⟩
  have hnil : AllQL WQ [] → AllQL WQ (mergeL ps rc []) ∧ RelL (([] : List Tree).map Tree.obj) ((mergeL ps rc []).map Tree.obj) := by
    intro h; rw [mergeL]; exact ⟨h, trivial⟩
  have hcons : ∀ t ts, (AllQ WQ t → AllQ WQ (mergeT ps rc t) ∧ Rel t.obj (mergeT ps rc t).obj) →
      (AllQL WQ ts → AllQL WQ (mergeL ps rc ts) ∧ RelL (ts.map Tree.obj) ((mergeL ps rc ts).map Tree.obj)) →
      (AllQL WQ (t :: ts) → AllQL WQ (mergeL ps rc (t :: ts)) ∧ RelL ((t :: ts).map Tree.obj) ((mergeL ps rc (t :: ts)).map Tree.obj)) := by
    intro t ts h1 h2 h
    rw [AllQL] at h
    rw [mergeL, AllQL]
    have a := h1 h.1
    have b := h2 h.2
    exact ⟨⟨a.1, b.1⟩, a.2, b.2⟩
  exact ⟨tree_indT hnode hnil hcons, tree_indL hnode hnil hcons⟩

theorem WQ_reorderAll :
    (∀ t, AllQ WQ t → AllQ WQ (reorderAllT t)) ∧ (∀ l, AllQL WQ l → AllQL WQ (reorderAllL l) ∧ (reorderAllL l).map Tree.obj = l.map Tree.obj) := by
  have hnode : ∀ o ns ms ios mis, (AllQL WQ ns → AllQL WQ (reorderAllL ns) ∧ (reorderAllL ns).map Tree.obj = ns.map Tree.obj) →
      (AllQL WQ ms → AllQL WQ (reorderAllL ms) ∧ (reorderAllL ms).map Tree.obj = ms.map Tree.obj) →
      (AllQ WQ (.node o ns ms ios mis) → AllQ WQ (reorderAllT (.node o ns ms ios mis))) := by
    intro o ns ms ios mis hn _ h
    rw [reorderAllT]
    rw [AllQ] at h ⊢
    obtain ⟨hw, hk, hm⟩ := h
    have := hn hk
    have hp := fixOrder_perm (reorderAllL ns)
    refine ⟨?_, AllQL_perm WQ hp this.1, hm⟩
    have hp2 : ((fixOrder (reorderAllL ns)).map Tree.obj).Perm (ns.map Tree.obj) := by
      rw [← this.2]; exact hp.map _
    exact hw.ns_perm hp2
  have hnil : AllQL WQ [] → AllQL WQ (reorderAllL []) ∧ (reorderAllL []).map Tree.obj = ([] : List Tree).map Tree.obj := by
    intro h; rw [reorderAllL]; exact ⟨h, rfl⟩
  have hcons : ∀ t ts, (AllQ WQ t → AllQ WQ (reorderAllT t)) →
      (AllQL WQ ts → AllQL WQ (reorderAllL ts) ∧ (reorderAllL ts).map Tree.obj = ts.map Tree.obj) →
      (AllQL WQ (t :: ts) → AllQL WQ (reorderAllL (t :: ts)) ∧ (reorderAllL (t :: ts)).map Tree.obj = (t :: ts).map Tree.obj) := by
    intro t ts h1 h2 h
    rw [AllQL] at h
    rw [reorderAllL, AllQL]
    have b := h2 h.2
    refine ⟨⟨h1 h.1, b.1⟩, ?_⟩
    rw [List.map_cons, List.map_cons, b.2, (reorderAll_perm.1 t).2]
  exact ⟨tree_indT hnode hnil hcons, tree_indL hnode hnil hcons⟩

theorem WQ_ksStep (filters : List Nat) (i : Nat) (st : Tree × List (List RObj) × Bool) (h : AllQ WQ st.1) :
    AllQ WQ (ksStep filters i st).1 ∧ Rel st.1.obj (ksStep filters i st).1.obj := by
  unfold ksStep
  split
  · split
    · exact ⟨h, Rel.refl _⟩
    · split
      · exact (WQ_merge _ _).1 st.1 h
      · exact ⟨h, Rel.refl _⟩
  · exact ⟨h, Rel.refl _⟩

theorem Rel.trans {a b c : RObj} (h1 : Rel a b) (h2 : Rel b c) : Rel a c :=
  ⟨h2.1.trans h1.1, h2.2.1.trans h1.2.1, h2.2.2.1.trans h1.2.2.1, h2.2.2.2.trans h1.2.2.2⟩

theorem WQ_ksLoop (filters : List Nat) : ∀ (i : Nat) (st : Tree × List (List RObj) × Bool), AllQ WQ st.1 →
    AllQ WQ (ksLoop filters i st).1 ∧ Rel st.1.obj (ksLoop filters i st).1.obj
  | 0, st, h => by rw [ksLoop]; exact ⟨h, Rel.refl _⟩
  | i + 1, st, h => by
    rw [ksLoop]
    have a := WQ_ksStep filters (i + 1) st h
    have b := WQ_ksLoop filters i _ a.1
    exact ⟨b.1, a.2.trans b.2⟩

/-- **level merging preserves the set clauses** (and the single-child hypothesis), and leaves the cpuset and nodeset of the root alone -/
theorem WQ_keepStructure (filters : List Nat) (t : Tree) (h : AllQ WQ t) :
    AllQ WQ (keepStructure filters t) ∧ Rel t.obj (keepStructure filters t).obj := by
  unfold keepStructure
  simp only []
  have a := WQ_ksLoop filters ((connectLevels t).length - 1) (t, connectLevels t, false) h
  split
  · exact ⟨WQ_reorderAll.1 _ a.1, by rw [(reorderAll_perm.1 _).2]; exact a.2⟩
  · exact a

/-! ### the hypothesis, decidable -/

mutual
/-- every object with exactly one normal child has that child's cpuset and nodeset (normal and memory subtrees) -/
def tightT : Tree → Bool
  | .node o ns ms _ _ =>
    (match ns with
      | [c] => c.obj.cpuset == o.cpuset && c.obj.nodeset == o.nodeset
      | _ => true) && tightL ns && tightL ms
def tightL : List Tree → Bool
  | [] => true
  | t :: ts => tightT t && tightL ts
end

theorem tight_allQ :
    (∀ t, tightT t = true → AllQ (fun o ns _ => TightQ o ns) t) ∧ (∀ l, tightL l = true → AllQL (fun o ns _ => TightQ o ns) l) := by
  have hnode : ∀ o ns ms ios mis, (tightL ns = true → AllQL (fun o ns _ => TightQ o ns) ns) →
      (tightL ms = true → AllQL (fun o ns _ => TightQ o ns) ms) →
      (tightT (.node o ns ms ios mis) = true → AllQ (fun o ns _ => TightQ o ns) (.node o ns ms ios mis)) := by
    intro o ns ms ios mis h1 h2 h
    rw [AllQ]
    cases ns with
    | nil =>
      simp only [tightT, Bool.and_eq_true, Bool.true_and] at h
      exact ⟨fun c hc => by simp at hc, trivial, h2 h.2⟩
    | cons t ts =>
      cases ts with
      | cons t2 ts2 =>
        simp only [tightT, Bool.and_eq_true, Bool.true_and] at h
        exact ⟨fun c hc => by simp at hc, h1 h.1, h2 h.2⟩
      | nil =>
        simp only [tightT, Bool.and_eq_true, beq_iff_eq] at h
        refine ⟨?_, h1 h.1.2, h2 h.2⟩
        intro c hc
        simp only [List.map_cons, List.map_nil, List.cons.injEq, and_true] at hc
        subst hc
        exact h.1.1
  have hnil : tightL [] = true → AllQL (fun o ns _ => TightQ o ns) [] := fun _ => trivial
  have hcons : ∀ t ts, (tightT t = true → AllQ (fun o ns _ => TightQ o ns) t) → (tightL ts = true → AllQL (fun o ns _ => TightQ o ns) ts) →
      (tightL (t :: ts) = true → AllQL (fun o ns _ => TightQ o ns) (t :: ts)) := by
    intro t ts h1 h2 h
    rw [tightL] at h
    simp only [Bool.and_eq_true] at h
    exact ⟨h1 h.1, h2 h.2⟩
  exact ⟨tree_indT hnode hnil hcons, tree_indL hnode hnil hcons⟩

theorem allQ_and {P Q : RObj → List RObj → List RObj → Prop} :
    (∀ t, AllQ P t → AllQ Q t → AllQ (fun o ns ms => P o ns ms ∧ Q o ns ms) t) ∧
    (∀ l, AllQL P l → AllQL Q l → AllQL (fun o ns ms => P o ns ms ∧ Q o ns ms) l) := by
  have hnode : ∀ o ns ms ios mis, (AllQL P ns → AllQL Q ns → AllQL (fun o ns ms => P o ns ms ∧ Q o ns ms) ns) →
      (AllQL P ms → AllQL Q ms → AllQL (fun o ns ms => P o ns ms ∧ Q o ns ms) ms) →
      (AllQ P (.node o ns ms ios mis) → AllQ Q (.node o ns ms ios mis) →
        AllQ (fun o ns ms => P o ns ms ∧ Q o ns ms) (.node o ns ms ios mis)) := by
    intro o ns ms ios mis h1 h2 hp hq
    rw [AllQ] at hp hq ⊢
    exact ⟨⟨hp.1, hq.1⟩, h1 hp.2.1 hq.2.1, h2 hp.2.2 hq.2.2⟩
  have hnil : AllQL P [] → AllQL Q [] → AllQL (fun o ns ms => P o ns ms ∧ Q o ns ms) [] := fun _ _ => trivial
  have hcons : ∀ t ts, (AllQ P t → AllQ Q t → AllQ (fun o ns ms => P o ns ms ∧ Q o ns ms) t) →
      (AllQL P ts → AllQL Q ts → AllQL (fun o ns ms => P o ns ms ∧ Q o ns ms) ts) →
      (AllQL P (t :: ts) → AllQL Q (t :: ts) → AllQL (fun o ns ms => P o ns ms ∧ Q o ns ms) (t :: ts)) := by
    intro t ts h1 h2 hp hq
    exact ⟨h1 hp.1 hq.1, h2 hp.2 hq.2⟩
  exact ⟨tree_indT hnode hnil hcons, tree_indL hnode hnil hcons⟩

theorem allQ_mono {P Q : RObj → List RObj → List RObj → Prop} (hPQ : ∀ o ns ms, P o ns ms → Q o ns ms) :
    (∀ t, AllQ P t → AllQ Q t) ∧ (∀ l, AllQL P l → AllQL Q l) := by
  have hnode : ∀ o ns ms ios mis, (AllQL P ns → AllQL Q ns) → (AllQL P ms → AllQL Q ms) →
      (AllQ P (.node o ns ms ios mis) → AllQ Q (.node o ns ms ios mis)) := by
    intro o ns ms ios mis h1 h2 hp
    rw [AllQ] at hp ⊢
    exact ⟨hPQ _ _ _ hp.1, h1 hp.2.1, h2 hp.2.2⟩
  have hnil : AllQL P [] → AllQL Q [] := fun _ => trivial
  have hcons : ∀ t ts, (AllQ P t → AllQ Q t) → (AllQL P ts → AllQL Q ts) → (AllQL P (t :: ts) → AllQL Q (t :: ts)) := by
    intro t ts h1 h2 hp
    exact ⟨h1 hp.1, h2 hp.2⟩
  exact ⟨tree_indT hnode hnil hcons, tree_indL hnode hnil hcons⟩

/-- **the set clauses through level merging**: `SetQ` everywhere (what the set stage and remove_empty leave) + the decidable
    single-child hypothesis give `SetW` (and the hypothesis again) everywhere in `keepStructure filters t` -/
theorem setW_keepStructure (filters : List Nat) (t : Tree) (hs : AllQ SetQ t) (ht : tightT t = true) :
    AllQ SetW (keepStructure filters t) ∧ AllQ (fun o ns _ => TightQ o ns) (keepStructure filters t) ∧
    (keepStructure filters t).obj.cpuset = t.obj.cpuset ∧ (keepStructure filters t).obj.nodeset = t.obj.nodeset := by
  have h0 : AllQ WQ t := allQ_and.1 t ((allQ_mono (fun _ _ _ h => setW_of_setQ h)).1 t hs) (tight_allQ.1 t ht)
  have h1 := WQ_keepStructure filters t h0
  exact ⟨(allQ_mono (fun _ _ _ h => h.1)).1 _ h1.1, (allQ_mono (fun _ _ _ h => h.2)).1 _ h1.1, h1.2.1, h1.2.2.1⟩

/-! ### executable forms (evaluated by the Stage2 driver on every load) -/

instance (o : RObj) (ns ms : List RObj) : Decidable (SetW o ns ms) := by unfold SetW SetStage.Sub SetStage.Dj; infer_instance
instance (o : RObj) (ns ms : List RObj) : Decidable (SetQ o ns ms) := by unfold SetQ SetStage.Sub SetStage.Dj; infer_instance

mutual
def allQB (q : RObj → List RObj → List RObj → Bool) : Tree → Bool
  | .node o ns ms _ _ => q o (ns.map Tree.obj) (ms.map Tree.obj) && allQBL q ns && allQBL q ms
def allQBL (q : RObj → List RObj → List RObj → Bool) : List Tree → Bool
  | [] => true
  | t :: ts => allQB q t && allQBL q ts
end

theorem allQB_iff (q : RObj → List RObj → List RObj → Bool) :
    (∀ t, allQB q t = true ↔ AllQ (fun o ns ms => q o ns ms = true) t) ∧
    (∀ l, allQBL q l = true ↔ AllQL (fun o ns ms => q o ns ms = true) l) := by
  have hnode : ∀ o ns ms ios mis, (allQBL q ns = true ↔ AllQL (fun o ns ms => q o ns ms = true) ns) →
      (allQBL q ms = true ↔ AllQL (fun o ns ms => q o ns ms = true) ms) →
      (allQB q (.node o ns ms ios mis) = true ↔ AllQ (fun o ns ms => q o ns ms = true) (.node o ns ms ios mis)) := by
    intro o ns ms ios mis h1 h2
    rw [allQB, AllQ, Bool.and_eq_true, Bool.and_eq_true, h1, h2, and_assoc]
  have hnil : allQBL q [] = true ↔ AllQL (fun o ns ms => q o ns ms = true) [] := by rw [allQBL, AllQL]; simp
  have hcons : ∀ t ts, (allQB q t = true ↔ AllQ (fun o ns ms => q o ns ms = true) t) →
      (allQBL q ts = true ↔ AllQL (fun o ns ms => q o ns ms = true) ts) →
      (allQBL q (t :: ts) = true ↔ AllQL (fun o ns ms => q o ns ms = true) (t :: ts)) := by
    intro t ts h1 h2
    rw [allQBL, AllQL, Bool.and_eq_true, h1, h2]
  exact ⟨tree_indT hnode hnil hcons, tree_indL hnode hnil hcons⟩

/-- the set clauses of the set stage, as a check -/
def setQT (t : Tree) : Bool := allQB (fun o ns ms => decide (SetQ o ns ms)) t
/-- the WF set clauses, as a check -/
def setWT (t : Tree) : Bool := allQB (fun o ns ms => decide (SetW o ns ms)) t

theorem setQT_iff (t : Tree) : setQT t = true ↔ AllQ SetQ t := by
  unfold setQT; rw [(allQB_iff _).1 t]
  constructor <;> intro h <;> refine (allQ_mono ?_).1 t h <;> intro o ns ms hq <;> simpa using hq
theorem setWT_iff (t : Tree) : setWT t = true ↔ AllQ SetW t := by
  unfold setWT; rw [(allQB_iff _).1 t]
  constructor <;> intro h <;> refine (allQ_mono ?_).1 t h <;> intro o ns ms hq <;> simpa using hq

/-- the theorem in checkable form: the two checks on the input imply the check on the output -/
theorem setWT_keepStructure (filters : List Nat) (t : Tree) (hs : setQT t = true) (ht : tightT t = true) :
    setWT (keepStructure filters t) = true :=
  (setWT_iff _).2 (setW_keepStructure filters t ((setQT_iff t).1 hs) ht).1

end Hw.Topo.Restrict.Stage
