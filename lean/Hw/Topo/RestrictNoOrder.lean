/-
  Hw.Topo.RestrictNoOrder — `treeOf d = ok t` is NOT a consequence of `WF d` (B2): a well-formed dump in which a Misc object is
  listed before its parent.  No WF clause orders the ids ("root-or-parent" only says parent ≠ id; the level / cousin clauses order
  the objects of one level), while `treeOf` folds the object list from the right and needs every parent before its children.
-/
import Hw.Topo.RestrictCover
namespace Hw.Topo.Restrict
open Hw.Topo Hw.Gen.Restrict

/-- rename the ids of a dump by `π` (a permutation of the ids, −1 stays −1) and list the objects in the new id order -/
def renumber (π : Nat → Nat) (n : Nat) (d : Dump) : Dump :=
  let f (i : Int) : Int := if i < 0 then i else ((π i.toNat : Nat) : Int)
  let objs := d.objs.map (fun o => { o with
    id := π o.id, parent := f o.parent, nextSib := f o.nextSib, prevSib := f o.prevSib, nextCousin := f o.nextCousin,
    prevCousin := f o.prevCousin, firstChild := f o.firstChild, lastChild := f o.lastChild, memFirst := f o.memFirst,
    ioFirst := f o.ioFirst, miscFirst := f o.miscFirst, children := o.children.map f })
  { d with objs := (List.range n).filterMap (fun k => objs.find? (fun o => o.id == k)),
           levels := d.levels.map (fun l => { l with objs := l.objs.map f }) }

/-- Machine [Core [PU 0] + NUMA 0 + Misc]: DFS ids 0 Machine, 1 Core, 2 PU, 3 NUMA, 4 Misc -/
def orderTree : Tree :=
  .node ⟨1, tMACHINE, 0, 1, 1, 1, 1, true, 0, 0, 0⟩
    [.node ⟨2, tCORE, 0, 1, 1, 1, 1, true, 0, 0, 0⟩
      [.node ⟨3, tPU, 0, 1, 1, 1, 1, true, 0, 0, 0⟩ [] [] [] []]
      [.node ⟨4, tNUMA, 0, 1, 1, 1, 1, true, 0, 0, 0⟩ [] [] [] []] []
      [.node ⟨5, tMISC, -1, 0, 0, 0, 0, false, 0, 0, 0⟩ [] [] [] []]] [] [] []

/-- the Misc object (DFS id 4) is listed first among the non-root objects: new ids 0 Machine, 1 Misc, 2 Core, 3 PU, 4 NUMA -/
def orderPerm (i : Nat) : Nat := match i with | 1 => 2 | 2 => 3 | 3 => 4 | 4 => 1 | k => k

def orderDump : Dump := renumber orderPerm 5 (render orderTree ⟨0, List.replicate 20 0, some 1, some 1⟩ (fun _ => {}))

end Hw.Topo.Restrict
