/-
  Hw.Topo.StageCompose — the stages of `hwloc_discover` after the set pipeline, composed:

      set stage (Hw.Topo.SetStage.stage, two-list tree)
        → [hwloc__reconnect, PCI / I/O / Misc / annotate discovery, hwloc_filter_bridges: NOT modelled; their only effect on the
           object tree that the later stages read is the I/O and Misc subtrees hanging below the objects and the Group attributes:
           the arbitrary decoration `Deco`]
        → remove_empty (Stage.removeEmpty) → hwloc__reconnect(KEEPSTRUCTURE) (Restrict.keepStructure, then Restrict.render)
        → propagate_total_memory (Stage.totalsT) → hwloc_set_group_depth (Stage.setGroupDepth)
-/
import Hw.Topo.SetStagePre
import Hw.Topo.StageRemoveEmptyLemmas
import Hw.Topo.StageMemoryLemmas
import Hw.Topo.StageGroupLemmas
namespace Hw.Topo.Restrict.Stage
open Hw.Topo Hw.Topo.Restrict Hw.Topo.SetStage

/-- what the two-list tree of the set stage does not carry: the I/O and Misc subtrees attached to an object when `remove_empty`
    runs, and the Group attributes read by `hwloc_type_cmp` / `hwloc_filter_levels_keep_structure` -/
structure Deco where
  ios : SObj → List Tree
  mis : SObj → List Tree
  gkind : SObj → Int
  gsubkind : SObj → Int
  dm : SObj → Nat

def robj (dc : Deco) (o : SObj) : RObj :=
  { gp := o.gp, type := o.type, osidx := (o.os : Int), cpuset := o.cpuset, ccpuset := o.ccpuset.getD 0, nodeset := o.nodeset,
    cnodeset := o.cnodeset.getD 0, hasSets := true, gkind := dc.gkind o, gsubkind := dc.gsubkind o, dmByte := dc.dm o }

mutual
/-- the four-list tree that `remove_empty` receives -/
def toTree (dc : Deco) : ST → Tree
  | .node o kids mem => .node (robj dc o) (toTreeL dc kids) (toTreeL dc mem) (dc.ios o) (dc.mis o)
def toTreeL (dc : Deco) : List ST → List Tree
  | [] => []
  | c :: cs => toTree dc c :: toTreeL dc cs
end

theorem toTreeL_eq (dc : Deco) (l : List ST) : toTreeL dc l = l.map (toTree dc) := by
  induction l with
  | nil => rfl
  | cons c cs ih => rw [toTreeL, ih]; rfl

theorem toTree_obj (dc : Deco) (s : ST) : (toTree dc s).obj = robj dc s.o := by
  cases s with
  | node o kids mem => rw [toTree]; rfl

theorem AllQL_iff (Q : RObj → List RObj → List RObj → Prop) (l : List Tree) : AllQL Q l ↔ ∀ t ∈ l, AllQ Q t := by
  induction l with
  | nil => simp [AllQL]
  | cons a as ih => simp only [AllQL, ih, List.mem_cons, forall_eq_or_imp]

/-- a clause that holds at every node of the set-stage tree holds at every normal / memory object of the four-list tree -/
theorem allQ_toTree (dc : Deco) {P : SObj → List ST → List ST → Prop} {Q : RObj → List RObj → List RObj → Prop}
    (hPQ : ∀ o k m, P o k m → Q (robj dc o) (k.map (fun c => robj dc c.o)) (m.map (fun c => robj dc c.o))) :
    ∀ s, AllN P s → AllQ Q (toTree dc s) := by
  apply ST.ind
  intro o kids mem ihk ihm h
  rw [toTree, AllQ, toTreeL_eq, toTreeL_eq]
  simp only [List.map_map]
  refine ⟨?_, (AllQL_iff _ _).2 ?_, (AllQL_iff _ _).2 ?_⟩
  · have := hPQ _ _ _ h.here
    have e : ∀ l : List ST, l.map (Tree.obj ∘ toTree dc) = l.map (fun c => robj dc c.o) := fun l =>
      List.map_congr_left (fun c _ => toTree_obj dc c)
    rw [e, e]
    exact this
  · intro t ht
    obtain ⟨c, hc, rfl⟩ := List.mem_map.1 ht
    exact ihk c hc (h.kids c hc)
  · intro t ht
    obtain ⟨c, hc, rfl⟩ := List.mem_map.1 ht
    exact ihm c hc (h.mem c hc)

/-- the set clauses of well-formedness that the set stage establishes, over the objects of the four-list tree: set-in-complete,
    set-in-parent (all four sets, normal and memory children), memory-child-shares-cpuset, normal siblings pairwise disjoint -/
def SetQ (o : RObj) (ns ms : List RObj) : Prop :=
  Sub o.cpuset o.ccpuset ∧ Sub o.nodeset o.cnodeset ∧
  (∀ c ∈ ns ++ ms, Sub c.cpuset o.cpuset ∧ Sub c.ccpuset o.ccpuset ∧ Sub c.nodeset o.nodeset ∧ Sub c.cnodeset o.cnodeset) ∧
  (∀ m ∈ ms, m.cpuset = o.cpuset ∧ m.ccpuset = o.ccpuset) ∧
  (ns.map (·.cpuset)).Pairwise Dj

theorem SetQ_stable : Stable SetQ := by
  intro o ns ms ns' ms' h hn hm
  refine ⟨h.1, h.2.1, ?_, ?_, ?_⟩
  · intro c hc
    apply h.2.2.1 c
    rcases List.mem_append.1 hc with hc | hc
    · exact List.mem_append_left _ (hn.sublist.subset hc)
    · exact List.mem_append_right _ (hm.sublist.subset hc)
  · exact fun m hm' => h.2.2.2.1 m (hm.sublist.subset hm')
  · exact h.2.2.2.2.sublist (hn.sublist.map _)

/-- within-allowed: a clause about the object alone -/
def AllowedQ (ac an : Nat) (o : RObj) (_ns _ms : List RObj) : Prop := Sub o.cpuset ac ∧ Sub o.nodeset an

theorem AllowedQ_stable (ac an : Nat) : Stable (AllowedQ ac an) := fun _ _ _ _ _ h _ _ => h

theorem setQ_of_post (dc : Deco) (o : SObj) (k m : List ST) (h : Post o k m) :
    SetQ (robj dc o) (k.map (fun c => robj dc c.o)) (m.map (fun c => robj dc c.o)) := by
  obtain ⟨⟨cc, cn, hcc, hcn, h1, h2⟩, hk, hm, hd⟩ := h
  refine ⟨by simp only [robj, hcc, Option.getD_some]; exact h1, by simp only [robj, hcn, Option.getD_some]; exact h2, ?_, ?_, ?_⟩
  · intro c hc
    rcases List.mem_append.1 hc with hc | hc
    · obtain ⟨c0, hc0, rfl⟩ := List.mem_map.1 hc
      exact hk c0 hc0
    · obtain ⟨c0, hc0, rfl⟩ := List.mem_map.1 hc
      exact (hm c0 hc0).1
  · intro c hc
    obtain ⟨c0, hc0, rfl⟩ := List.mem_map.1 hc
    have := (hm c0 hc0).2
    exact ⟨this.1, by simp only [robj, this.2]⟩
  · rw [List.map_map]
    exact hd

/-- the composed tree pipeline: `none` when `remove_empty` removes the root (the load fails) -/
def pipeline (i : In) (dc : Deco) (filters : List Nat) : Option Tree :=
  (removeEmpty (toTree dc (stage i).root)).map (keepStructure filters)

end Hw.Topo.Restrict.Stage
