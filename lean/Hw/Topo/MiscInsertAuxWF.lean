/-
  Hw.Topo.MiscInsertAuxWF — the clauses of well-formedness that read the per-object aggregates are preserved by
  hwloc_topology_insert_misc_object (dump-level model).
-/
import Hw.Topo.MiscInsertAux
import Hw.Topo.MiscInsertWF
namespace Hw.Topo.MiscIns
open Hw.Topo Hw.Topo.Hist

section
variable {d : Dump} (h : WF d) (p pos k : Nat) (name : Option String) (skip : Nat)
  (hp : p < pos) (hpos : pos ≤ d.objs.length)

local notation "DN" => after d p pos k name skip
local notation "U" => upd p pos k (lastId d p)
local notation "NEW" => newObj d p pos k name skip

theorem mkAux_len (d : Dump) : Len d.objs.length (List.foldl auxStep (aux0 d.objs.length) d.objs) := by
  have : ∀ (l : List Obj) (a : Aux), Len d.objs.length a → Len d.objs.length (List.foldl auxStep a l) := by
    intro l
    induction l with
    | nil => intro a ha; exact ha
    | cons o l ih => intro a ha; exact ih _ (len_step _ a o ha)
  exact this _ _ (len_aux0 _)

/-- lengths of the aggregate lists -/
theorem aux_lens (d : Dump) : (mkAux d).cpuOr.length = d.objs.length ∧ (mkAux d).cpuDisj.length = d.objs.length ∧
    (mkAux d).memOr.length = d.objs.length ∧ (mkAux d).memDisj.length = d.objs.length ∧ (mkAux d).totSum.length = d.objs.length ∧
    (mkAux d).nNormal.length = d.objs.length ∧ (mkAux d).nMemory.length = d.objs.length ∧ (mkAux d).nIO.length = d.objs.length ∧
    (mkAux d).nMisc.length = d.objs.length ∧ (mkAux d).inh.length = d.objs.length ∧ (mkAux d).below.length = d.objs.length ∧
    (mkAux d).belowDisj.length = d.objs.length := by
  rw [mkAux_eq]
  have hl := mkAux_len d
  refine ⟨hl.l1, hl.l2, hl.l3, hl.l4, hl.l5, hl.l6, hl.l7, hl.l8, hl.l9, ?_, ?_, ?_⟩
  · have : ∀ (M : List Nat) (l : List Obj) (I : List Nat), (List.foldl (inhStep M) I l).length = I.length := by
      intro M l
      induction l with
      | nil => intro I; rfl
      | cons o l ih => intro I; simp only [List.foldl_cons]; rw [ih, inh_len]
    simp only [this, List.length_replicate]
  · have : ∀ (M : List Nat) (l : List Obj) (acc : List Nat × List Bool), (List.foldr (belowStep M) acc l).1.length = acc.1.length := by
      intro M l
      induction l with
      | nil => intro acc; rfl
      | cons o l ih => intro acc; simp only [List.foldr_cons]; rw [(below_len M o _).1, ih]
    simp only [this, List.length_replicate]
  · have : ∀ (M : List Nat) (l : List Obj) (acc : List Nat × List Bool), (List.foldr (belowStep M) acc l).2.length = acc.2.length := by
      intro M l
      induction l with
      | nil => intro acc; rfl
      | cons o l ih => intro acc; simp only [List.foldr_cons]; rw [(below_len M o _).2, ih]
    simp only [this, List.length_replicate]

/-- the aggregate clauses only read the aggregates at the object's own id -/
def auxClauses : List String := ["cpuset-is-disjoint-union-of-children", "memcache-nodeset", "nodeset-decomposition", "total-memory"]

include h hp hpos in
theorem c_aux (nm : String) (hnm : nm ∈ auxClauses) (o' : Obj) (ho' : o' ∈ Dump.objs DN) :
    objClause nm DN (mkAux DN) o' = true := by
  obtain ⟨l1, l2, l3, l4, l5, l6, l7, l8, l9, l10, l11, l12⟩ := aux_lens d
  simp only [auxClauses, List.mem_cons, List.not_mem_nil, or_false] at hnm
  rw [mkAux_after d p pos k name skip hp hpos]
  rcases (mem_after d p pos k name skip o').1 ho' with rfl | ⟨o, ho, rfl⟩
  · rcases hnm with rfl | rfl | rfl | rfl <;>
      simp only [objClause, objClauses, List.find?, String.reduceBEq, insAux] <;> first | rfl | skip
    · show ((NEW).totalMem == (if (NEW).type == tNUMA then _ else 0) + getN (insAt (mkAux d).totSum pos 0) pos) = true
      rw [getN_insAt_pos _ _ (l5 ▸ hpos)]
      rfl
  · have hold := h.objc nm o ho
    rcases hnm with rfl | rfl | rfl | rfl <;>
      (simp only [objClause, objClauses, List.find?, String.reduceBEq, insAux] at hold ⊢
       rw [upd_id]
       simp only [getN_insAt _ pos _ (l1 ▸ hpos), getB_insAt _ pos _ (l2 ▸ hpos), getN_insAt _ pos _ (l3 ▸ hpos),
         getB_insAt _ pos _ (l4 ▸ hpos), getN_insAt _ pos _ (l5 ▸ hpos), getN_insAt _ pos _ (l10 ▸ hpos),
         getN_insAt _ pos _ (l11 ▸ hpos), getB_insAt _ pos _ (l12 ▸ hpos)]
       exact hold)

include h hp hpos in
theorem c_children_counts (o' : Obj) (ho' : o' ∈ Dump.objs DN) : objClause "children-counts" DN (mkAux DN) o' = true := by
  obtain ⟨l1, l2, l3, l4, l5, l6, l7, l8, l9, l10, l11, l12⟩ := aux_lens d
  rw [mkAux_after d p pos k name skip hp hpos]
  have l9' : pos ≤ ((mkAux d).nMisc.set p (getN (mkAux d).nMisc p + 1)).length := by rw [List.length_set, l9]; exact hpos
  rcases (mem_after d p pos k name skip o').1 ho' with rfl | ⟨o, ho, rfl⟩
  · simp only [objClause, objClauses, List.find?, String.reduceBEq, insAux]
    have ei : (NEW).id = pos := rfl
    rw [ei, getN_insAt_pos _ _ (l6 ▸ hpos), getN_insAt_pos _ _ (l7 ▸ hpos), getN_insAt_pos _ _ (l8 ▸ hpos), getN_insAt_pos _ _ l9']
    rfl
  · have hold := h.objc "children-counts" o ho
    simp only [objClause, objClauses, List.find?, String.reduceBEq, insAux] at hold ⊢
    rw [upd_id]
    simp only [getN_insAt _ pos _ (l6 ▸ hpos), getN_insAt _ pos _ (l7 ▸ hpos), getN_insAt _ pos _ (l8 ▸ hpos), getN_insAt _ pos _ l9']
    simp only [Bool.and_eq_true, beq_iff_eq] at hold ⊢
    refine ⟨⟨⟨hold.1.1.1, hold.1.1.2⟩, hold.1.2⟩, ?_⟩
    show getN ((mkAux d).nMisc.set p (getN (mkAux d).nMisc p + 1)) o.id = updMiscarity p o
    unfold updMiscarity
    by_cases hop : o.id = p
    · have hlt : p < (mkAux d).nMisc.length := by rw [l9]; omega
      rw [hop]
      simp only [beq_self_eq_true, if_true]
      unfold getN
      rw [List.getElem?_set_self hlt]
      have := hold.2; rw [hop] at this; unfold getN at this
      simp only [Option.getD_some]; omega
    · have : (o.id == p) = false := by rw [beq_eq_false_iff_ne]; exact hop
      rw [this, getN_set_ne _ _ _ _ (fun e => hop e.symm)]
      simp only [Bool.false_eq_true, if_false]
      exact hold.2

end
end Hw.Topo.MiscIns
