/-
  Hw.Topo.HelpersAnc — correctness of the model of the ancestor helpers of include/hwloc/helper.h (488-575) on a
  dump satisfying `Tree`: `hwloc_get_common_ancestor_obj` (the depth-free double loop, after the F10 fix) returns,
  for ANY two objects (normal, memory, I/O, Misc in any mix), the deepest common ancestor along the parent links,
  never NULL, independent of the argument order and equal to the brute-force oracle — the termination measure of
  parent chains is the DFS numbering (`T_order`: parent id < child id); `hwloc_get_ancestor_obj_by_depth` returns
  the deepest ancestor-or-self of a NORMAL object not deeper than the requested depth; `hwloc_get_ancestor_obj_by_type`.
-/
import Hw.Topo.HelpersBasic
namespace Hw.Topo

/-! ### structural facts about normal objects -/

theorem obj?_neg_one (d : Dump) : d.obj? (-1) = none := by simp [Dump.obj?]

/-- a normal object is the root (no parent) or has a normal, strictly shallower parent in the dump -/
theorem Tree.parent_cases {d : Dump} (ht : Tree d) {o : Obj} (ho : o ∈ d.objs) (hn : isNormal o.type = true) :
    (o.id = 0 ∧ d.obj? o.parent = none) ∨
    (o.id ≠ 0 ∧ ∃ p, d.obj? o.parent = some p ∧ p ∈ d.objs ∧ isNormal p.type = true ∧ p.depth < o.depth) := by
  rcases ht.parent o ho with ⟨h0, hp⟩ | ⟨h0, p, hp, hpm, hnorm, _⟩
  · left; refine ⟨h0, ?_⟩; rw [hp]; exact obj?_neg_one d
  · right; exact ⟨h0, p, hp, hpm, (hnorm hn).1, (hnorm hn).2.1⟩

theorem Tree.normal_depth {d : Dump} (ht : Tree d) {o : Obj} (ho : o ∈ d.objs) (hn : isNormal o.type = true) :
    0 ≤ o.depth ∧ o.depth < (d.depth : Int) := (ht.depth o ho).1 hn

/-- the pointer-chase fuel covers the depth of every normal object -/
theorem Tree.depth_fuel {d : Dump} (ht : Tree d) {o : Obj} (ho : o ∈ d.objs) (hn : isNormal o.type = true) :
    o.depth.toNat + 1 ≤ d.fuel := by
  have := ht.normal_depth ho hn
  have := ht.sizes.1
  unfold Dump.fuel
  omega

theorem Tree.depth_of_id_zero {d : Dump} (ht : Tree d) {o : Obj} (ho : o ∈ d.objs) (h0 : o.id = 0) : o.depth = 0 := by
  obtain ⟨r, _, hr, hr0, _, _, hrd⟩ := ht.rootObj
  have := ht.eq_of_id_eq ho hr (by rw [h0, hr0])
  rw [this]; exact hrd

theorem Tree.id_zero_of_depth {d : Dump} (ht : Tree d) {o : Obj} (ho : o ∈ d.objs) (hn : isNormal o.type = true)
    (h : o.depth ≤ 0) : o.id = 0 := by
  rcases ht.parent_cases ho hn with ⟨h0, _⟩ | ⟨_, p, _, hpm, hpn, hlt⟩
  · exact h0
  · have := (ht.normal_depth hpm hpn).1; omega

/-! ### 1. `AncSelf` on normal objects -/

theorem AncSelf.trans {d : Dump} {a b c : Obj} (h1 : AncSelf d a b) (h2 : AncSelf d b c) : AncSelf d a c := by
  induction h2 with
  | refl => exact h1
  | up hp _ ih => exact .up hp ih

/-- an ancestor-or-self of a normal object is a normal object of the dump, not deeper, and equal if as deep -/
theorem ancSelf_normal {d : Dump} (ht : Tree d) {a o : Obj} (h : AncSelf d a o) (ho : o ∈ d.objs)
    (hn : isNormal o.type = true) :
    a ∈ d.objs ∧ isNormal a.type = true ∧ a.depth ≤ o.depth ∧ (a.depth = o.depth → a = o) := by
  induction h with
  | refl => exact ⟨ho, hn, Int.le_refl _, fun _ => rfl⟩
  | up hp _ ih =>
    rcases ht.parent_cases ho hn with ⟨_, hnone⟩ | ⟨_, p', hp', hpm, hpn, hlt⟩
    · rw [hnone] at hp; cases hp
    · rw [hp'] at hp; cases hp
      obtain ⟨h1, h2, h3, _⟩ := ih hpm hpn
      exact ⟨h1, h2, by omega, fun h => by omega⟩

theorem ancSelf_antisymm {d : Dump} (ht : Tree d) {a b : Obj} (h1 : AncSelf d a b) (h2 : AncSelf d b a)
    (hb : b ∈ d.objs) (hn : isNormal b.type = true) : a = b := by
  obtain ⟨ha, hna, hle, heq⟩ := ancSelf_normal ht h1 hb hn
  obtain ⟨_, _, hle', _⟩ := ancSelf_normal ht h2 ha hna
  exact heq (by omega)

/-- the ancestors of a normal object form a chain -/
theorem ancSelf_chain {d : Dump} (ht : Tree d) {a b o : Obj} (ha : AncSelf d a o) (hb : AncSelf d b o)
    (ho : o ∈ d.objs) (hn : isNormal o.type = true) (hle : a.depth ≤ b.depth) : AncSelf d a b := by
  induction hb with
  | refl => exact ha
  | up hp hb' ih =>
    rcases ht.parent_cases ho hn with ⟨_, hnone⟩ | ⟨_, p', hp', hpm, hpn, hlt⟩
    · rw [hnone] at hp; cases hp
    · rw [hp'] at hp; cases hp
      cases ha with
      | refl =>
        have := (ancSelf_normal ht hb' hpm hpn).2.2.1
        omega
      | up hp2 ha' =>
        rw [hp'] at hp2; cases hp2
        exact ih ha' hpm hpn

/-- the root is an ancestor-or-self of every normal object -/
theorem root_ancSelf {d : Dump} (ht : Tree d) {r o : Obj} (hr : r ∈ d.objs) (hr0 : r.id = 0)
    (ho : o ∈ d.objs) (hn : isNormal o.type = true) : AncSelf d r o := by
  have key : ∀ (n : Nat) (o : Obj), o ∈ d.objs → isNormal o.type = true → o.depth.toNat ≤ n → AncSelf d r o := by
    intro n
    induction n with
    | zero =>
      intro o ho hn hle
      have h0 := ht.id_zero_of_depth ho hn (by have := (ht.normal_depth ho hn).1; omega)
      have := ht.eq_of_id_eq hr ho (by rw [hr0, h0])
      rw [this]; exact .refl _
    | succ n ih =>
      intro o ho hn hle
      rcases ht.parent_cases ho hn with ⟨h0, _⟩ | ⟨_, p, hp, hpm, hpn, hlt⟩
      · have := ht.eq_of_id_eq hr ho (by rw [hr0, h0])
        rw [this]; exact .refl _
      · exact .up hp (ih p hpm hpn (by have := ht.normal_depth hpm hpn; omega))
  exact key _ o ho hn (Nat.le_refl _)

/-! ### 2. `while (o->depth > t) o = o->parent;` -/

/-- on a normal object with a non-negative target depth the climb never dereferences NULL and stops at the
    deepest ancestor-or-self of depth `≤ t` -/
theorem climbDeeper_spec {d : Dump} (ht : Tree d) {t : Int} (ht0 : 0 ≤ t) :
    ∀ (fuel : Nat) (o : Obj), o ∈ d.objs → isNormal o.type = true → o.depth.toNat + 1 ≤ fuel →
    ∃ a, climbDeeper d fuel o t = some a ∧ AncSelf d a o ∧ a.depth ≤ t ∧ (o.depth ≤ t → a = o) ∧
      ∀ b, AncSelf d b o → b.depth ≤ t → AncSelf d b a := by
  intro fuel
  induction fuel with
  | zero => intro o _ _ h; omega
  | succ f ih =>
    intro o ho hn hf
    by_cases hgt : o.depth > t
    · rcases ht.parent_cases ho hn with ⟨h0, _⟩ | ⟨_, p, hp, hpm, hpn, hlt⟩
      · have := ht.depth_of_id_zero ho h0; omega
      · have hpd := ht.normal_depth hpm hpn
        obtain ⟨a, h1, h2, h3, _, h5⟩ := ih p hpm hpn (by omega)
        refine ⟨a, ?_, .up hp h2, h3, fun h => by omega, ?_⟩
        · simp only [climbDeeper, hgt, if_true, hp]; exact h1
        · intro b hb hbt
          cases hb with
          | refl => omega
          | up hp2 hb' => rw [hp] at hp2; cases hp2; exact h5 b hb' hbt
    · refine ⟨o, ?_, .refl _, by omega, fun _ => rfl, fun b hb _ => hb⟩
      simp only [climbDeeper, hgt, if_false]

/-! ### 3. parent chains of ALL objects (normal, memory, I/O, Misc): the DFS numbering is the measure -/

/-- any object is the root (no parent) or has a parent in the dump with a strictly smaller id -/
theorem Tree.parent_cases_all {d : Dump} (ht : Tree d) {o : Obj} (ho : o ∈ d.objs) :
    (o.id = 0 ∧ d.obj? o.parent = none) ∨
    (o.id ≠ 0 ∧ ∃ p, d.obj? o.parent = some p ∧ p ∈ d.objs ∧ p.id < o.id) := by
  rcases ht.parent o ho with ⟨h0, hp⟩ | ⟨h0, p, hp, hpm, _, _⟩
  · left; refine ⟨h0, ?_⟩; rw [hp]; exact obj?_neg_one d
  · right
    have h1 := ht.obj?_some_id hp
    have h2 := ht.order o ho h0
    exact ⟨h0, p, hp, hpm, by omega⟩

theorem Tree.id_lt_length {d : Dump} (ht : Tree d) {o : Obj} (ho : o ∈ d.objs) : o.id < d.objs.length := by
  have h := ht.obj?_id ho
  rw [obj?_natCast] at h
  exact (List.getElem?_eq_some_iff.1 h).1

/-- the pointer-chase fuel covers the parent chain of every object -/
theorem Tree.id_fuel {d : Dump} (ht : Tree d) {o : Obj} (ho : o ∈ d.objs) : o.id + 1 ≤ d.fuel := by
  have := ht.id_lt_length ho
  unfold Dump.fuel
  omega

/-- the objects are listed by increasing id -/
theorem Tree.objs_sorted {d : Dump} (ht : Tree d) : d.objs.Pairwise (fun x y => x.id < y.id) := by
  rw [List.pairwise_iff_getElem]
  intro i j hi hj hij
  have h1 := ht.ids (d.objs[i], i) (List.mem_zipIdx_iff_getElem?.2 (List.getElem?_eq_getElem hi))
  have h2 := ht.ids (d.objs[j], j) (List.mem_zipIdx_iff_getElem?.2 (List.getElem?_eq_getElem hj))
  simp only at h1 h2
  omega

/-- an ancestor-or-self of any object is an object of the dump with a smaller-or-equal id, equal only if it is
    the object itself -/
theorem ancSelf_all {d : Dump} (ht : Tree d) {a o : Obj} (h : AncSelf d a o) (ho : o ∈ d.objs) :
    a ∈ d.objs ∧ a.id ≤ o.id ∧ (a.id = o.id → a = o) := by
  induction h with
  | refl => exact ⟨ho, Nat.le_refl _, fun _ => rfl⟩
  | up hp _ ih =>
    rcases ht.parent_cases_all ho with ⟨_, hnone⟩ | ⟨_, p', hp', hpm, hlt⟩
    · rw [hnone] at hp; cases hp
    · rw [hp'] at hp; cases hp
      obtain ⟨h1, h2, _⟩ := ih hpm
      exact ⟨h1, by omega, fun h => by omega⟩

theorem ancSelf_mem_all {d : Dump} (ht : Tree d) {a o : Obj} (h : AncSelf d a o) (ho : o ∈ d.objs) : a ∈ d.objs :=
  (ancSelf_all ht h ho).1

theorem ancSelf_id_le {d : Dump} (ht : Tree d) {a o : Obj} (h : AncSelf d a o) (ho : o ∈ d.objs) :
    a.id ≤ o.id ∧ (a.id = o.id → a = o) := (ancSelf_all ht h ho).2

theorem ancSelf_antisymm_all {d : Dump} (ht : Tree d) {a b : Obj} (h1 : AncSelf d a b) (h2 : AncSelf d b a)
    (hb : b ∈ d.objs) : a = b := by
  obtain ⟨ha, hle, heq⟩ := ancSelf_all ht h1 hb
  obtain ⟨_, hle', _⟩ := ancSelf_all ht h2 ha
  exact heq (by omega)

/-- the ancestors of any object form a chain (ordered by id) -/
theorem ancSelf_chain_all {d : Dump} (ht : Tree d) {a b o : Obj} (ha : AncSelf d a o) (hb : AncSelf d b o)
    (ho : o ∈ d.objs) (hle : a.id ≤ b.id) : AncSelf d a b := by
  induction hb with
  | refl => exact ha
  | up hp hb' ih =>
    rcases ht.parent_cases_all ho with ⟨_, hnone⟩ | ⟨_, p', hp', hpm, hlt⟩
    · rw [hnone] at hp; cases hp
    · rw [hp'] at hp; cases hp
      cases ha with
      | refl =>
        have := (ancSelf_all ht hb' hpm).2.1
        omega
      | up hp2 ha' =>
        rw [hp'] at hp2; cases hp2
        exact ih ha' hpm

/-- the root is an ancestor-or-self of every object -/
theorem root_ancSelf_all {d : Dump} (ht : Tree d) {r o : Obj} (hr : r ∈ d.objs) (hr0 : r.id = 0)
    (ho : o ∈ d.objs) : AncSelf d r o := by
  have key : ∀ (n : Nat) (o : Obj), o ∈ d.objs → o.id ≤ n → AncSelf d r o := by
    intro n
    induction n with
    | zero =>
      intro o ho hle
      have := ht.eq_of_id_eq hr ho (by rw [hr0]; omega)
      rw [this]; exact .refl _
    | succ n ih =>
      intro o ho hle
      rcases ht.parent_cases_all ho with ⟨h0, _⟩ | ⟨_, p, hp, hpm, hlt⟩
      · have := ht.eq_of_id_eq hr ho (by rw [hr0, h0])
        rw [this]; exact .refl _
      · exact .up hp (ih p hpm (by omega))
  exact key _ o ho (Nat.le_refl _)

theorem chain_none (d : Dump) (next : Obj → Int) (f : Nat) : chain d next f none = [] := by cases f <;> rfl

theorem ancSelf_iff_parent {d : Dump} {y o p : Obj} (hp : d.obj? o.parent = some p) :
    AncSelf d y o ↔ y = o ∨ AncSelf d y p := by
  constructor
  · intro h
    cases h with
    | refl => exact .inl rfl
    | up hp2 h => rw [hp] at hp2; cases hp2; exact .inr h
  · intro h
    rcases h with h | h
    · rw [h]; exact .refl _
    · exact .up hp h

theorem ancSelf_iff_root {d : Dump} {y o : Obj} (hp : d.obj? o.parent = none) : AncSelf d y o ↔ y = o := by
  constructor
  · intro h
    cases h with
    | refl => rfl
    | up hp2 h => rw [hp] at hp2; cases hp2
  · intro h; rw [h]; exact .refl _

/-- with enough fuel the parent chain of any object lists exactly its ancestors-or-self -/
theorem mem_parentChain_all {d : Dump} (ht : Tree d) :
    ∀ (f : Nat) (o : Obj), o ∈ d.objs → o.id + 1 ≤ f →
      ∀ y, y ∈ chain d (·.parent) f (some o) ↔ AncSelf d y o := by
  intro f
  induction f with
  | zero => intro o _ h; omega
  | succ f ih =>
    intro o ho hf y
    simp only [chain, List.mem_cons]
    rcases ht.parent_cases_all ho with ⟨_, hnone⟩ | ⟨_, p, hp, hpm, hlt⟩
    · rw [hnone, chain_none, ancSelf_iff_root hnone]; simp
    · rw [hp, ancSelf_iff_parent hp, ih p hpm (by omega)]

/-- `ancestorsSelf` of ANY object of the dump lists exactly its ancestors-or-self -/
theorem mem_ancestorsSelf_all {d : Dump} (ht : Tree d) {o : Obj} (ho : o ∈ d.objs) (y : Obj) :
    y ∈ ancestorsSelf d o ↔ AncSelf d y o :=
  mem_parentChain_all ht d.fuel o ho (ht.id_fuel ho) y

theorem mem_ancestorsSelf {d : Dump} (ht : Tree d) {o : Obj} (ho : o ∈ d.objs) (_hn : isNormal o.type = true) (y : Obj) :
    y ∈ ancestorsSelf d o ↔ AncSelf d y o := mem_ancestorsSelf_all ht ho y

/-- the parent chain is ordered from the object upwards: strictly decreasing ids, every later entry is an
    ancestor of every earlier one -/
theorem parentChain_pairwise {d : Dump} (ht : Tree d) :
    ∀ (f : Nat) (o : Obj), o ∈ d.objs → o.id + 1 ≤ f →
      (chain d (·.parent) f (some o)).Pairwise (fun x y => y.id < x.id ∧ AncSelf d y x) := by
  intro f
  induction f with
  | zero => intro o _ h; omega
  | succ f ih =>
    intro o ho hf
    simp only [chain]
    rcases ht.parent_cases_all ho with ⟨_, hnone⟩ | ⟨_, p, hp, hpm, hlt⟩
    · rw [hnone, chain_none]; exact List.pairwise_singleton _ _
    · rw [hp, List.pairwise_cons]
      refine ⟨fun y hy => ?_, ih p hpm (by omega)⟩
      have hyp := (mem_parentChain_all ht f p hpm (by omega) y).1 hy
      have := (ancSelf_all ht hyp hpm).2.1
      exact ⟨by omega, .up hp hyp⟩

theorem ancestorsSelf_pairwise {d : Dump} (ht : Tree d) {o : Obj} (ho : o ∈ d.objs) :
    (ancestorsSelf d o).Pairwise (fun x y => y.id < x.id ∧ AncSelf d y x) :=
  parentChain_pairwise ht d.fuel o ho (ht.id_fuel ho)

/-- searching the parent chain of any object (from the object upwards) finds the deepest ancestor-or-self
    satisfying `P`, provided there is one -/
theorem parentChain_find_all {d : Dump} (ht : Tree d) (P : Obj → Bool) :
    ∀ (f : Nat) (o : Obj), o ∈ d.objs → o.id + 1 ≤ f → (∃ b, AncSelf d b o ∧ P b = true) →
      ∃ a, (chain d (·.parent) f (some o)).find? P = some a ∧ AncSelf d a o ∧ P a = true ∧
        ∀ b, AncSelf d b o → P b = true → AncSelf d b a := by
  intro f
  induction f with
  | zero => intro o _ h; omega
  | succ f ih =>
    intro o ho hf ⟨w, hwo, hPw⟩
    simp only [chain]
    by_cases hPo : P o = true
    · exact ⟨o, List.find?_cons_of_pos hPo, .refl _, hPo, fun b hb _ => hb⟩
    · rw [List.find?_cons_of_neg hPo]
      cases hwo with
      | refl => exact absurd hPw hPo
      | up hp h =>
        rcases ht.parent_cases_all ho with ⟨_, hnone⟩ | ⟨_, p', hp', hpm, hlt⟩
        · rw [hnone] at hp; cases hp
        · rw [hp'] at hp; cases hp
          obtain ⟨a, e, hap, hPa, hdeep⟩ := ih _ hpm (by omega) ⟨w, h, hPw⟩
          rw [hp']
          refine ⟨a, e, .up hp' hap, hPa, fun b hb hPb => ?_⟩
          rcases (ancSelf_iff_parent hp').1 hb with hbo | hb'
          · rw [hbo] at hPb; exact absurd hPb hPo
          · exact hdeep b hb' hPb

/-- the inner loop `for (b = obj2; b; b = b->parent) if (a == b)` on an object `x` of the dump -/
theorem ancestorsSelf_any_id {d : Dump} (ht : Tree d) {o x : Obj} (ho : o ∈ d.objs) (hx : x ∈ d.objs) :
    (ancestorsSelf d o).any (fun b => x.id == b.id) = true ↔ AncSelf d x o := by
  rw [List.any_eq_true]
  constructor
  · intro ⟨y, hy, hid⟩
    have hyo := (mem_ancestorsSelf_all ht ho y).1 hy
    have hym := ancSelf_mem_all ht hyo ho
    rw [ht.eq_of_id_eq hx hym (by simpa using hid)]; exact hyo
  · intro h
    exact ⟨x, (mem_ancestorsSelf_all ht ho x).2 h, by simp⟩

theorem ancestorsSelf_ids_contains {d : Dump} (ht : Tree d) {o x : Obj} (ho : o ∈ d.objs)
    (hx : x ∈ d.objs) : ((ancestorsSelf d o).map (·.id)).contains x.id = true ↔ AncSelf d x o := by
  rw [List.contains_iff_mem, List.mem_map]
  constructor
  · intro ⟨y, hy, hid⟩
    have hyo := (mem_ancestorsSelf_all ht ho y).1 hy
    have hym := ancSelf_mem_all ht hyo ho
    rw [← ht.eq_of_id_eq hym hx hid]; exact hyo
  · intro h
    exact ⟨x, (mem_ancestorsSelf_all ht ho x).2 h, rfl⟩

/-! ### 3b. hwloc_get_common_ancestor_obj on ALL objects -/

/-- P0: on any two objects of a well-formed dump (normal, memory, I/O, Misc in any mix) the depth-free double
    loop of `hwloc_get_common_ancestor_obj` never returns NULL and returns the deepest common ancestor along
    the parent links -/
theorem common_ancestor_all {d : Dump} (ht : Tree d) {o1 o2 : Obj} (h1 : o1 ∈ d.objs) (h2 : o2 ∈ d.objs) :
    ∃ a, commonAncestor d o1 o2 = some a ∧ a ∈ d.objs ∧ AncSelf d a o1 ∧ AncSelf d a o2 ∧
      ∀ b, AncSelf d b o1 → AncSelf d b o2 → AncSelf d b a := by
  obtain ⟨r, _, hr, hr0, _⟩ := ht.rootObj
  have hP : ∀ b, AncSelf d b o1 →
      ((ancestorsSelf d o2).any (fun c => b.id == c.id) = true ↔ AncSelf d b o2) :=
    fun b hb => ancestorsSelf_any_id ht h2 (ancSelf_mem_all ht hb h1)
  have hr1 := root_ancSelf_all ht hr hr0 h1
  have hr2 := root_ancSelf_all ht hr hr0 h2
  obtain ⟨a, e, ha1, hPa, hdeep⟩ :=
    parentChain_find_all ht (fun a => (ancestorsSelf d o2).any (fun b => a.id == b.id)) d.fuel o1 h1 (ht.id_fuel h1)
      ⟨r, hr1, (hP r hr1).2 hr2⟩
  exact ⟨a, e, ancSelf_mem_all ht ha1 h1, ha1, (hP a ha1).1 hPa, fun b hb1 hb2 => hdeep b hb1 ((hP b hb1).2 hb2)⟩

/-- the result does not depend on the argument order -/
theorem common_ancestor_comm {d : Dump} (ht : Tree d) {o1 o2 : Obj} (h1 : o1 ∈ d.objs) (h2 : o2 ∈ d.objs) :
    commonAncestor d o1 o2 = commonAncestor d o2 o1 := by
  obtain ⟨a, ea, ha, ha1, ha2, hadeep⟩ := common_ancestor_all ht h1 h2
  obtain ⟨a', ea', _, ha1', ha2', hadeep'⟩ := common_ancestor_all ht h2 h1
  have heq : a' = a := ancSelf_antisymm_all ht (hadeep a' ha2' ha1') (hadeep' a ha2 ha1) ha
  rw [ea, ea', heq]

/-- the double loop agrees with the brute-force oracle: the last object in DFS order among the objects of the
    dump that are an ancestor-or-self of both -/
theorem common_ancestor_all_eq_brute {d : Dump} (ht : Tree d) {o1 o2 : Obj} (h1 : o1 ∈ d.objs) (h2 : o2 ∈ d.objs) :
    commonAncestor d o1 o2 = bruteCommonAncestor d o1 o2 := by
  obtain ⟨a, ea, ha, ha1, ha2, hadeep⟩ := common_ancestor_all ht h1 h2
  rw [ea]
  unfold bruteCommonAncestor
  simp only []
  have hQ : ∀ c, c ∈ d.objs →
      ((((ancestorsSelf d o1).map (·.id)).contains c.id && ((ancestorsSelf d o2).map (·.id)).contains c.id) = true ↔
        AncSelf d c o1 ∧ AncSelf d c o2) := by
    intro c hc
    rw [Bool.and_eq_true, ancestorsSelf_ids_contains ht h1 hc, ancestorsSelf_ids_contains ht h2 hc]
  obtain ⟨l1, l2, hl⟩ := List.append_of_mem ha
  have hs := ht.objs_sorted
  rw [hl, List.pairwise_append, List.pairwise_cons] at hs
  have hmem : ∀ c, c ∈ l2 → c ∈ d.objs := fun c hc => by rw [hl]; simp [hc]
  have hnil : l2.filter (fun c => ((ancestorsSelf d o1).map (·.id)).contains c.id &&
      ((ancestorsSelf d o2).map (·.id)).contains c.id) = [] := by
    rw [List.filter_eq_nil_iff]
    intro c hc hq
    obtain ⟨hc1, hc2⟩ := (hQ c (hmem c hc)).1 hq
    have := (ancSelf_id_le ht (hadeep c hc1 hc2) ha).1
    have := hs.2.1.1 c hc
    omega
  have hqa := (hQ a ha).2 ⟨ha1, ha2⟩
  rw [hl, List.filter_append]
  simp only [List.filter_cons, hqa, if_true, hnil]
  rw [List.getLast?_concat]

/-- normal corollary (kept for reference): on two normal objects the result is their least common ancestor -/
theorem common_ancestor_normal {d : Dump} (ht : Tree d) {o1 o2 : Obj} (h1 : o1 ∈ d.objs) (h2 : o2 ∈ d.objs)
    (_n1 : isNormal o1.type = true) (_n2 : isNormal o2.type = true) :
    ∃ a, commonAncestor d o1 o2 = some a ∧ a ∈ d.objs ∧ AncSelf d a o1 ∧ AncSelf d a o2 ∧
      ∀ b, AncSelf d b o1 → AncSelf d b o2 → AncSelf d b a := common_ancestor_all ht h1 h2

/-- normal corollary: the common ancestor of two normal objects is a normal object, not deeper than either, and at
    least as deep as every common ancestor -/
theorem common_ancestor_normal_depth {d : Dump} (ht : Tree d) {o1 o2 : Obj} (h1 : o1 ∈ d.objs) (h2 : o2 ∈ d.objs)
    (n1 : isNormal o1.type = true) (n2 : isNormal o2.type = true) :
    ∃ a, commonAncestor d o1 o2 = some a ∧ commonAncestor d o2 o1 = some a ∧
      isNormal a.type = true ∧ a.depth ≤ o1.depth ∧ a.depth ≤ o2.depth ∧
      ∀ b, AncSelf d b o1 → AncSelf d b o2 → b.depth ≤ a.depth := by
  obtain ⟨a, ea, ha, ha1, ha2, hadeep⟩ := common_ancestor_all ht h1 h2
  obtain ⟨_, hna, hle1, _⟩ := ancSelf_normal ht ha1 h1 n1
  obtain ⟨_, _, hle2, _⟩ := ancSelf_normal ht ha2 h2 n2
  refine ⟨a, ea, by rw [← common_ancestor_comm ht h1 h2]; exact ea, hna, hle1, hle2, ?_⟩
  intro b hb1 hb2
  exact (ancSelf_normal ht (hadeep b hb1 hb2) ha hna).2.2.1

/-! ### 4. hwloc_get_ancestor_obj_by_depth -/

theorem climbWhile_none (d : Dump) (cond : Obj → Bool) (f : Nat) : climbWhile d cond f none = none := by
  cases f <;> rfl

/-- the `while (ancestor && ancestor->depth > depth)` climb is the NULL-safe version of `climbDeeper` -/
theorem climbWhile_depth_eq (d : Dump) (t : Int) :
    ∀ (f : Nat) (o : Obj), climbWhile d (fun a => decide (a.depth > t)) f (some o) = climbDeeper d f o t := by
  intro f
  induction f with
  | zero => intro o; rfl
  | succ f ih =>
    intro o
    simp only [climbWhile, climbDeeper, decide_eq_true_eq]
    split
    · cases hp : d.obj? o.parent with
      | none => simp only [climbWhile_none]
      | some p => exact ih p
    · rfl

/-- for a normal object and a depth `0 ≤ k ≤ o.depth` the result is never NULL and is the deepest
    ancestor-or-self of depth `≤ k` -/
theorem ancestor_by_depth_spec {d : Dump} (ht : Tree d) {o : Obj} (ho : o ∈ d.objs) (hn : isNormal o.type = true)
    {k : Int} (hk0 : 0 ≤ k) (hk : k ≤ o.depth) :
    ∃ a, ancestorByDepth d k o = some a ∧ a ∈ d.objs ∧ isNormal a.type = true ∧ AncSelf d a o ∧ a.depth ≤ k ∧
      (o.depth = k → a = o) ∧ ∀ b, AncSelf d b o → b.depth ≤ k → AncSelf d b a := by
  obtain ⟨a, ea, haa, hak, hsame, hdeep⟩ := climbDeeper_spec ht hk0 d.fuel o ho hn (ht.depth_fuel ho hn)
  obtain ⟨ha, hna, _, _⟩ := ancSelf_normal ht haa ho hn
  refine ⟨a, ?_, ha, hna, haa, hak, fun h => hsame (by omega), hdeep⟩
  unfold ancestorByDepth
  rw [if_neg (by omega), climbWhile_depth_eq]
  exact ea

/-- `ancestorByDepth` is a function of its specification: any result satisfies it -/
theorem ancestor_by_depth_some {d : Dump} (ht : Tree d) {o a : Obj} (ho : o ∈ d.objs) (hn : isNormal o.type = true)
    {k : Int} (hk0 : 0 ≤ k) (hk : k ≤ o.depth) (h : ancestorByDepth d k o = some a) :
    AncSelf d a o ∧ a.depth ≤ k ∧ ∀ b, AncSelf d b o → b.depth ≤ k → AncSelf d b a := by
  obtain ⟨a', ea, _, _, h1, h2, _, h3⟩ := ancestor_by_depth_spec ht ho hn hk0 hk
  rw [ea] at h; cases h
  exact ⟨h1, h2, h3⟩

/-- a depth below the object's own gives NULL (the C test `obj->depth < depth`) -/
theorem ancestor_by_depth_deeper (d : Dump) (o : Obj) {k : Int} (hk : o.depth < k) : ancestorByDepth d k o = none := by
  unfold ancestorByDepth; rw [if_pos hk]

/-! ### 4b. `while (p && cond(p)) p = p->parent;` in general, hwloc_get_ancestor_obj_by_type -/

/-- on a normal object the NULL-safe climb stops at the deepest ancestor-or-self violating `cond`, and returns
    NULL exactly when every ancestor-or-self satisfies `cond` -/
theorem climbWhile_spec {d : Dump} (ht : Tree d) (cond : Obj → Bool) :
    ∀ (f : Nat) (o : Obj), o ∈ d.objs → isNormal o.type = true → o.depth.toNat + 1 ≤ f →
      (∀ a, climbWhile d cond f (some o) = some a →
          AncSelf d a o ∧ cond a = false ∧ ∀ b, AncSelf d b o → a.depth < b.depth → cond b = true) ∧
      (climbWhile d cond f (some o) = none → ∀ b, AncSelf d b o → cond b = true) := by
  intro f
  induction f with
  | zero => intro o _ _ h; omega
  | succ f ih =>
    intro o ho hn hf
    simp only [climbWhile]
    by_cases hc : cond o = true
    · rw [if_pos hc]
      rcases ht.parent_cases ho hn with ⟨_, hnone⟩ | ⟨_, p, hp, hpm, hpn, hlt⟩
      · rw [hnone, climbWhile_none]
        refine ⟨fun a h => (by cases h), fun _ b hb => ?_⟩
        rw [(ancSelf_iff_root hnone).1 hb]; exact hc
      · have := ht.normal_depth hpm hpn
        rw [hp]
        obtain ⟨ih1, ih2⟩ := ih p hpm hpn (by omega)
        refine ⟨fun a h => ?_, fun h b hb => ?_⟩
        · obtain ⟨x, y, z⟩ := ih1 a h
          refine ⟨.up hp x, y, fun b hb hlt => ?_⟩
          rcases (ancSelf_iff_parent hp).1 hb with hbo | hb'
          · rw [hbo]; exact hc
          · exact z b hb' hlt
        · rcases (ancSelf_iff_parent hp).1 hb with hbo | hb'
          · rw [hbo]; exact hc
          · exact ih2 h b hb'
    · rw [if_neg hc]
      refine ⟨fun a h => ?_, fun h => by cases h⟩
      cases h
      refine ⟨.refl _, by simpa using hc, fun b hb hlt => ?_⟩
      have := (ancSelf_normal ht hb ho hn).2.2.1
      omega

/-- hwloc_get_ancestor_obj_by_type on a normal object: the closest proper ancestor of type `t`, NULL iff none -/
theorem ancestor_by_type_spec {d : Dump} (ht : Tree d) {o : Obj} (ho : o ∈ d.objs) (hn : isNormal o.type = true)
    (t : Int) :
    (∀ a, ancestorByType d t o = some a →
        AncSelf d a o ∧ a ≠ o ∧ (a.type : Int) = t ∧
        ∀ b, AncSelf d b o → b ≠ o → a.depth < b.depth → (b.type : Int) ≠ t) ∧
    (ancestorByType d t o = none → ∀ b, AncSelf d b o → b ≠ o → (b.type : Int) ≠ t) := by
  unfold ancestorByType
  rcases ht.parent_cases ho hn with ⟨_, hnone⟩ | ⟨_, p, hp, hpm, hpn, hlt⟩
  · rw [hnone, climbWhile_none]
    exact ⟨fun a h => (by cases h), fun _ b hb hne => absurd ((ancSelf_iff_root hnone).1 hb) hne⟩
  · rw [hp]
    obtain ⟨s1, s2⟩ := climbWhile_spec ht (fun a => (a.type : Int) != t) d.fuel p hpm hpn (ht.depth_fuel hpm hpn)
    refine ⟨fun a h => ?_, fun h b hb hne => ?_⟩
    · obtain ⟨x, y, z⟩ := s1 a h
      have hle := (ancSelf_normal ht x hpm hpn).2.2.1
      refine ⟨.up hp x, fun e => by rw [e] at hle; omega, by simpa using y, fun b hb hne hlt' => ?_⟩
      rcases (ancSelf_iff_parent hp).1 hb with hbo | hb'
      · exact absurd hbo hne
      · simpa using z b hb' hlt'
    · rcases (ancSelf_iff_parent hp).1 hb with hbo | hb'
      · exact absurd hbo hne
      · simpa using s2 h b hb'

end Hw.Topo
