/-
  Hw.Topo.WFLemmas0 — first consequences of `WF` that are not themselves bounded checks of one clause.
-/
import Hw.Topo.WF
namespace Hw.Topo

/-- clause lookup by name (all `true` for an unknown name) -/
def objClause (name : String) : Dump → Aux → Obj → Bool :=
  match objClauses.find? (fun c => c.1 == name) with
  | some c => c.2
  | none => fun _ _ _ => true

def topClause (name : String) : Dump → Aux → Bool :=
  match topClauses.find? (fun c => c.1 == name) with
  | some c => c.2
  | none => fun _ _ => true

theorem WF.objc {d : Dump} (h : WF d) (name : String) (o : Obj) (ho : o ∈ d.objs) :
    objClause name d (mkAux d) o = true := by
  unfold objClause
  cases hf : objClauses.find? (fun c => c.1 == name) with
  | none => rfl
  | some c => exact h.2 c (List.mem_of_find?_eq_some hf) o ho

theorem WF.topc {d : Dump} (h : WF d) (name : String) : topClause name d (mkAux d) = true := by
  unfold topClause
  cases hf : topClauses.find? (fun c => c.1 == name) with
  | none => rfl
  | some c => exact h.1 c (List.mem_of_find?_eq_some hf)

/-- gp_index identifies an object -/
theorem WF.gp_injective {d : Dump} (h : WF d) : (d.objs.map (·.gp)).Nodup := by
  have := h.topc "gp-index-unique"
  simpa [topClause, topClauses, List.find?] using this

/-- PU / NUMA os_index values are unique -/
theorem WF.pu_osidx_unique {d : Dump} (h : WF d) : ((d.objs.filter (fun o => o.type == tPU)).map (·.osidx)).Nodup := by
  have := h.topc "pu-osindex-unique"
  simpa [topClause, topClauses, List.find?] using this

theorem WF.numa_osidx_unique {d : Dump} (h : WF d) : ((d.objs.filter (fun o => o.type == tNUMA)).map (·.osidx)).Nodup := by
  have := h.topc "numa-osindex-unique"
  simpa [topClause, topClauses, List.find?] using this

/-- there is a single Machine object and it is the root -/
theorem WF.machine_is_root {d : Dump} (h : WF d) (o : Obj) (ho : o ∈ d.objs) (ht : o.type = tMACHINE) : o.id = 0 := by
  have := h.topc "machine-only-at-root"
  simp only [topClause, topClauses, List.find?] at this
  simp only [String.reduceBEq, List.all_eq_true] at this
  have := this o ho
  simpa [ht] using this

/-- no object of a type whose filter is KEEP_NONE is present -/
theorem WF.not_filtered {d : Dump} (h : WF d) (o : Obj) (ho : o ∈ d.objs) : (d.filters[o.type]?).getD 0 ≠ 1 := by
  have := h.objc "not-filtered-out" o ho
  simpa [objClause, objClauses, List.find?] using this

/-- each set of an object is included in its complete_ counterpart -/
theorem WF.set_in_complete {d : Dump} (h : WF d) (o : Obj) (ho : o ∈ d.objs) :
    subset (o.cpuset.getD 0) (o.ccpuset.getD 0) = true ∧ subset (o.nodeset.getD 0) (o.cnodeset.getD 0) = true := by
  have := h.objc "set-in-complete" o ho
  simpa [objClause, objClauses, List.find?] using this

/-- a PU's cpuset is exactly its own os_index -/
theorem WF.pu_cpuset {d : Dump} (h : WF d) (o : Obj) (ho : o ∈ d.objs) (ht : o.type = tPU) :
    0 ≤ o.osidx ∧ o.cpuset = some (single o.osidx.toNat) ∧ o.ccpuset = some (single o.osidx.toNat) := by
  have := h.objc "pu-cpuset" o ho
  simp [objClause, objClauses, List.find?, ht] at this
  exact ⟨this.1.1, this.1.2, this.2⟩

/-- a NUMA node's nodeset is exactly its own os_index -/
theorem WF.numa_nodeset {d : Dump} (h : WF d) (o : Obj) (ho : o ∈ d.objs) (ht : o.type = tNUMA) :
    0 ≤ o.osidx ∧ o.nodeset = some (single o.osidx.toNat) ∧ o.cnodeset = some (single o.osidx.toNat) := by
  have := h.objc "numa-nodeset" o ho
  simp [objClause, objClauses, List.find?, ht] at this
  exact ⟨this.1.1, this.1.2, this.2⟩

/-- allowed sets are included in the root sets, and equal to them unless INCLUDE_DISALLOWED is set -/
theorem WF.allowed {d : Dump} (h : WF d) : ∃ r, d.objs[0]? = some r ∧
    subset (d.allowedCpuset.getD 0) (r.cpuset.getD 0) = true ∧ subset (d.allowedNodeset.getD 0) (r.nodeset.getD 0) = true ∧
    (flagIncludeDisallowed d = false → d.allowedCpuset = r.cpuset ∧ d.allowedNodeset = r.nodeset) := by
  have := h.topc "allowed-sets"
  simp only [topClause, topClauses, List.find?, String.reduceBEq] at this
  cases hr : d.objs[0]? with
  | none => simp [hr] at this
  | some r =>
    simp only [hr, Bool.and_eq_true, Bool.or_eq_true, beq_iff_eq] at this
    refine ⟨r, rfl, this.1.1.2, this.1.2, ?_⟩
    intro hf
    rcases this.2 with h1 | h1
    · rw [hf] at h1; cases h1
    · exact h1

end Hw.Topo
