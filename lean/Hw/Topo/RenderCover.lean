/-
  Hw.Topo.RenderCover — the WF clause levels-cover-objects for `render t` (typed tree, normal root): the lengths of the normal
  levels (a partition of the normal-reachable objects) and of the six special levels (one per non-normal type) add up to the
  number of objects.
-/
import Hw.Topo.RenderTop
import Hw.Topo.RestrictMerge
namespace Hw.Topo.Restrict
open Hw.Topo

/-- number of normal-typed objects -/
def nN (l : List RObj) : Nat := (l.filter (fun x => isNormal x.type)).length

theorem nN_append (a b : List RObj) : nN (a ++ b) = nN a + nN b := by unfold nN; rw [List.filter_append, List.length_append]
theorem nN_cons (x : RObj) (l : List RObj) : nN (x :: l) = (if isNormal x.type = true then 1 else 0) + nN l := by
  unfold nN; rw [List.filter_cons]; split <;> simp <;> omega

theorem nN_zero_of (l : List RObj) (h : ∀ x ∈ l, isNormal x.type = false) : nN l = 0 := by
  unfold nN
  rw [List.length_eq_zero_iff, List.filter_eq_nil_iff]
  intro x hx; rw [h x hx]; simp

/-- below a typed non-normal object every object is non-normal -/
theorem nonnormal_objs (t : Tree) (ht : typedT t = true) (hn : isNormal t.obj.type = false) : ∀ x ∈ objsT t, isNormal x.type = false := by
  intro x hx
  rw [← occs_map_obj t] at hx
  obtain ⟨oc, hoc, e⟩ := List.mem_map.1 hx
  rw [← e]
  exact nonnormal_below.1 t ht hn 0 (-1) 0 (-1) (-1) oc hoc

theorem nonnormal_objsL (l : List Tree) (h : ∀ t ∈ l, typedT t = true ∧ isNormal t.obj.type = false) :
    ∀ x ∈ objsL l, isNormal x.type = false := by
  induction l with
  | nil => intro x hx; simp [objsL] at hx
  | cons a as ih =>
    intro x hx
    rw [objsL, List.mem_append] at hx
    rcases hx with hx | hx
    · exact nonnormal_objs a (h a List.mem_cons_self).1 (h a List.mem_cons_self).2 x hx
    · exact ih (fun t ht => h t (List.mem_cons_of_mem _ ht)) x hx

/-- in a typed tree with a normal root the normal-reachable objects are exactly the normal-typed objects -/
theorem ncl_count :
    (∀ t, typedT t = true → isNormal t.obj.type = true → (nclT t).length = nN (objsT t)) ∧
    (∀ l, typedL isNormal l = true → (nclL l).length = nN (objsL l)) := by
  have hnode : ∀ o ns ms ios mis, (typedL isNormal ns = true → (nclL ns).length = nN (objsL ns)) →
      (typedL isNormal ms = true → (nclL ms).length = nN (objsL ms)) →
      (typedT (.node o ns ms ios mis) = true → isNormal (Tree.node o ns ms ios mis).obj.type = true →
        (nclT (.node o ns ms ios mis)).length = nN (objsT (.node o ns ms ios mis))) := by
    intro o ns ms ios mis h1 _ ht hr
    have hl := typedT_lists _ ht
    simp only [Tree.ns, Tree.ms, Tree.ios, Tree.mis, Tree.obj] at hl hr
    have zm : nN (objsL ms) = 0 := nN_zero_of _ (nonnormal_objsL ms (fun t htm => by
      have := (typedL_iff _ _).1 hl.2.1 t htm
      exact ⟨this.2, by have := (isMemory_iff _).1 this.1; exact (isNormal_false_iff _).2 (by omega)⟩))
    have zi : nN (objsL ios) = 0 := nN_zero_of _ (nonnormal_objsL ios (fun t htm => by
      have := (typedL_iff _ _).1 hl.2.2.1 t htm
      exact ⟨this.2, by have := (isIO_iff _).1 this.1; exact (isNormal_false_iff _).2 (by omega)⟩))
    have zx : nN (objsL mis) = 0 := nN_zero_of _ (nonnormal_objsL mis (fun t htm => by
      have := (typedL_iff _ _).1 hl.2.2.2 t htm
      exact ⟨this.2, by have := (isMisc_iff _).1 this.1; exact (isNormal_false_iff _).2 (by omega)⟩))
    rw [nclT, objsT, List.length_cons, nN_cons, nN_append, nN_append, nN_append, h1 hl.1, zm, zi, zx, if_pos hr]
    omega
  have hnil : typedL isNormal [] = true → (nclL []).length = nN (objsL []) := fun _ => rfl
  have hcons : ∀ t ts, (typedT t = true → isNormal t.obj.type = true → (nclT t).length = nN (objsT t)) →
      (typedL isNormal ts = true → (nclL ts).length = nN (objsL ts)) →
      (typedL isNormal (t :: ts) = true → (nclL (t :: ts)).length = nN (objsL (t :: ts))) := by
    intro t ts h1 h2 hl
    rw [typedL] at hl
    simp only [Bool.and_eq_true] at hl
    rw [nclL, objsL, List.length_append, nN_append, h1 hl.1.2 hl.1.1, h2 hl.2]
  exact ⟨tree_indT hnode hnil hcons, tree_indL hnode hnil hcons⟩

theorem ncl_relabel_length :
    (∀ t, ∀ s, (nclT (relabelT s t)).length = (nclT t).length) ∧ (∀ l, ∀ s, (nclL (relabelL s l)).length = (nclL l).length) := by
  have hnode : ∀ o ns ms ios mis, (∀ s, (nclL (relabelL s ns)).length = (nclL ns).length) →
      (∀ s, (nclL (relabelL s ms)).length = (nclL ms).length) →
      (∀ s, (nclT (relabelT s (.node o ns ms ios mis))).length = (nclT (.node o ns ms ios mis)).length) := by
    intro o ns ms ios mis h1 _ s
    rw [relabelT, nclT, nclT, List.length_cons, List.length_cons, h1]
  have hnil : ∀ s, (nclL (relabelL s [])).length = (nclL []).length := by intro s; rw [relabelL]
  have hcons : ∀ t ts, (∀ s, (nclT (relabelT s t)).length = (nclT t).length) →
      (∀ s, (nclL (relabelL s ts)).length = (nclL ts).length) →
      (∀ s, (nclL (relabelL s (t :: ts))).length = (nclL (t :: ts)).length) := by
    intro t ts h1 h2 s
    rw [relabelL, nclL, nclL, List.length_append, List.length_append, h1, h2]
  exact ⟨tree_indT hnode hnil hcons, tree_indL hnode hnil hcons⟩

/-- the six special levels hold the non-normal objects, each once -/
theorem special_sum (l : List Occ) (hlt : ∀ oc ∈ l, oc.t.obj.type < 20) :
    (specialTypes.map (fun ty => (specialLevel l ty).length)).sum = (l.filter (fun oc => !isNormal oc.t.obj.type)).length := by
  have key : ∀ ty, ty < 20 → ((if ty == tNUMA then 1 else 0) + (if ty == tBRIDGE then 1 else 0) + (if ty == tPCI then 1 else 0) +
      (if ty == tOSDEV then 1 else 0) + (if ty == tMISC then 1 else 0) + (if ty == tMEMCACHE then 1 else 0) : Nat) =
      if isNormal ty then 0 else 1 := by decide
  induction l with
  | nil => simp [specialTypes, specialLevel]
  | cons oc rest ih =>
    have ih' := ih (fun x hx => hlt x (List.mem_cons_of_mem _ hx))
    have k := key oc.t.obj.type (hlt oc List.mem_cons_self)
    simp only [specialTypes, specialLevel, List.map_cons, List.map_nil, List.sum_cons, List.sum_nil, List.length_map,
      List.filter_cons] at ih' ⊢
    cases hn : isNormal oc.t.obj.type <;> rw [hn] at k <;>
      simp only [Bool.not_true, Bool.not_false, Bool.false_eq_true, if_false, if_true, List.length_cons] at k ⊢ <;>
      (repeat' split) <;> simp_all <;> omega

theorem clause_levels_cover : topClause "levels-cover-objects" = fun d _ =>
    (d.levels.map (fun l => l.objs.length)).sum == d.objs.length := by
  simp only [topClause, topClauses, List.find?, String.reduceBEq]

/-- **levels-cover-objects** for the rendering of every typed tree with a normal root -/
theorem render_levels_cover (t : Tree) (ht : typedT t = true) (hr : isNormal t.obj.type = true) (h : Hdr) (ex : RObj → Extra) :
    topClause "levels-cover-objects" (render t h ex) (mkAux (render t h ex)) = true := by
  rw [clause_levels_cover]
  simp only [beq_iff_eq]
  rw [render_levels, List.map_append, List.sum_append, render_objs, List.length_map]
  -- normal levels
  have hN : ((normalPart t).map (fun l => l.objs.length)).sum = nN (objsT t) := by
    have e1 : (normalPart t).map (fun l => l.objs.length) = (normalLevels t).map (fun l => l.2.length) := by
      unfold normalPart
      rw [List.map_map]
      have : ((fun (l : Level) => l.objs.length) ∘ fun (x : Nat × (Nat × List Nat)) =>
          (⟨(x.1 : Int), (x.2.1 : Int), x.2.2.map (fun (i : Nat) => (i : Int))⟩ : Level)) = (fun l => l.2.length) ∘ Prod.snd := by
        funext x; simp
      rw [this, ← List.map_map, List.map_snd_zip (by simp)]
    rw [e1]
    unfold normalLevels
    rw [List.map_map]
    have : ((fun (l : Nat × List Nat) => l.2.length) ∘ fun (l : List RObj) => (((l.head?).map (·.type)).getD 0, l.map (·.gp))) = List.length := by
      funext l; simp
    rw [this, ← List.length_flatten, (connectLevels_perm (relabelT 0 t)).length_eq, ncl_relabel_length.1 t 0, ncl_count.1 t ht hr]
  -- special levels
  have hS : ((specialPart t).map (fun l => l.objs.length)).sum = ((occs t).filter (fun oc => !isNormal oc.t.obj.type)).length := by
    unfold specialPart
    rw [List.map_map]
    have : ((fun (l : Level) => l.objs.length) ∘ fun ty =>
        (⟨(specialDepth ty).getD 0, (ty : Int), (specialLevel (occs t) ty).map (fun (i : Nat) => (i : Int))⟩ : Level)) =
        fun ty => (specialLevel (occs t) ty).length := by
      funext ty; simp
    rw [this]
    apply special_sum
    intro oc hoc
    have : oc.t.obj ∈ objsT t := by rw [← occs_map_obj t]; exact List.mem_map_of_mem hoc
    exact typed_types_lt.1 t ht _ this
  rw [hN, hS]
  -- normal + non-normal = all
  have : ∀ l : List Occ, nN (l.map (·.t.obj)) + (l.filter (fun oc => !isNormal oc.t.obj.type)).length = l.length := by
    intro l
    induction l with
    | nil => rfl
    | cons a as ih =>
      rw [List.map_cons, nN_cons, List.filter_cons, List.length_cons]
      cases hn : isNormal a.t.obj.type <;> simp <;> omega
  rw [← occs_map_obj t]
  exact this (occs t)

/-! ### type-depth-inverse -/

theorem clause_type_depth_inverse : topClause "type-depth-inverse" = fun d _ => d.typeDepths.length == tMAX &&
    (List.range tMAX).all (fun t =>
      let td := (d.typeDepths[t]?).getD 0
      match specialDepth t with
      | some sd => td == sd
      | none =>
        let ls := d.levels.filter (fun l => decide (0 ≤ l.depth) && l.type == (t : Int))
        match ls with
        | [] => td == -1
        | [l] => td == l.depth
        | _ => td == -2) := by
  simp only [topClause, topClauses, List.find?, String.reduceBEq]
  rfl

def mkLevel (x : Nat × (Nat × List Nat)) : Level := ⟨(x.1 : Int), (x.2.1 : Int), x.2.2.map (fun (i : Nat) => (i : Int))⟩

theorem normalPart_eq (t : Tree) : normalPart t = ((List.range (normalLevels t).length).zip (normalLevels t)).map mkLevel := rfl

theorem special_filter_nil (t : Tree) (ty : Nat) :
    (specialPart t).filter (fun l => decide (0 ≤ l.depth) && l.type == (ty : Int)) = [] := by
  rw [List.filter_eq_nil_iff]
  intro l hl
  unfold specialPart at hl
  obtain ⟨ty', hty', rfl⟩ := List.mem_map.1 hl
  simp only [specialTypes, List.mem_cons, List.mem_nil_iff, or_false] at hty'
  rcases hty' with rfl | rfl | rfl | rfl | rfl | rfl <;> simp [specialDepth, tNUMA, tBRIDGE, tPCI, tOSDEV, tMISC, tMEMCACHE]

/-- **type-depth-inverse** for the rendering of every tree: the type → depth table is the inverse of the level list (−1 for an
    absent normal type, −2 for a type with several levels, the virtual depth for the special types) -/
theorem render_type_depth_inverse (t : Tree) (h : Hdr) (ex : RObj → Extra) :
    topClause "type-depth-inverse" (render t h ex) (mkAux (render t h ex)) = true := by
  rw [clause_type_depth_inverse]
  simp only [Bool.and_eq_true, beq_iff_eq, List.all_eq_true, List.mem_range]
  refine ⟨by show ((List.range tMAX).map (typeDepthOf (normalLevels t))).length = tMAX; simp, ?_⟩
  intro ty hty
  have htd : ((render t h ex).typeDepths[ty]?).getD 0 = typeDepthOf (normalLevels t) ty := by
    show (((List.range tMAX).map (typeDepthOf (normalLevels t)))[ty]?).getD 0 = _
    rw [List.getElem?_map, List.getElem?_range hty]
    rfl
  simp only [htd]
  unfold typeDepthOf
  cases hs : specialDepth ty with
  | some sd => simp
  | none =>
    simp only []
    rw [render_levels, List.filter_append, special_filter_nil, List.append_nil, normalPart_eq, List.filter_map]
    have hP : ((fun (l : Level) => decide (0 ≤ l.depth) && l.type == (ty : Int)) ∘ mkLevel) =
        (fun (x : Nat × (Nat × List Nat)) => x.2.1 == ty) := by
      funext x
      have cast : ∀ a b : Nat, ((a : Int) == (b : Int)) = (a == b) := by
        intro a b
        rw [Bool.eq_iff_iff, beq_iff_eq, beq_iff_eq]
        omega
      simp [mkLevel, cast]
    rw [hP]
    generalize ((List.range (normalLevels t).length).zip (normalLevels t)).filter (fun x => x.2.1 == ty) = L
    cases L with
    | nil => simp
    | cons a rest =>
      cases rest with
      | nil => obtain ⟨k, l⟩ := a; simp [mkLevel]
      | cons b r2 => obtain ⟨k, l⟩ := a; simp

end Hw.Topo.Restrict
