/-
  Hw.Topo.RestrictLemmas — hypotheses (as executable checks) and lemmas about the model Hw.Topo.Restrict.
-/
import Hw.Topo.Restrict
namespace Hw.Topo.Restrict
open Hw.Topo Hw.Gen.Restrict

/-! ### constants tie (re-checked against the regenerated Hw.Gen.RestrictConsts on every run) -/

theorem consts_flags_distinct_bits :
    [flagRemoveCpuless, flagAdaptMisc, flagAdaptIO, flagByNodeset, flagRemoveMemless].Pairwise (fun a b => a &&& b = 0) ∧
    [flagRemoveCpuless, flagAdaptMisc, flagAdaptIO, flagByNodeset, flagRemoveMemless].all (fun a => a != 0) = true := by decide
theorem consts_order_table : typeOrder.length = tMAX ∧ ((typeOrder.take (tGROUP + 1)).Nodup) := by decide
theorem consts_priority_table : typePriority.length = tMAX := by decide
theorem consts_enum_matches :
    typeEnum = [tMACHINE, tPACKAGE, tDIE, tCORE, tPU, tL1, tL1 + 1, tL1 + 2, tL1 + 3, tL5, tL1I, tL1I + 1, tL3I, tGROUP, tNUMA,
                tMEMCACHE, tBRIDGE, tPCI, tOSDEV, tMISC, tMAX] := by decide

/-! ### masks -/

theorem testBit_andnot (a b i : Nat) : (andnot a b).testBit i = (a.testBit i && !b.testBit i) := by
  simp only [andnot, Nat.testBit_xor, Nat.testBit_and]
  cases a.testBit i <;> cases b.testBit i <;> rfl

theorem testBit_minus (x : Nat) (d : CSet) (i : Nat) : (minus x d).testBit i = (x.testBit i && !d.mem i) := by
  unfold minus CSet.mem
  cases h : d.inf
  · simp only [Bool.false_eq_true, if_false, testBit_andnot]
    cases x.testBit i <;> cases d.bits.testBit i <;> rfl
  · simp only [if_true, Nat.testBit_and]
    cases x.testBit i <;> cases d.bits.testBit i <;> rfl

theorem subset_iff (a b : Nat) : subset a b = true ↔ ∀ i, a.testBit i = true → b.testBit i = true := by
  unfold subset
  rw [beq_iff_eq]
  constructor
  · intro h i hi
    have : (a &&& b).testBit i = true := by rw [h]; exact hi
    rw [Nat.testBit_and] at this
    exact (Bool.and_eq_true_iff.mp this).2
  · intro h
    apply Nat.eq_of_testBit_eq
    intro i
    rw [Nat.testBit_and]
    cases hi : a.testBit i
    · rfl
    · rw [h i hi]; rfl

theorem subset_refl (a : Nat) : subset a a = true := (subset_iff a a).2 (fun _ h => h)
theorem subset_trans {a b c : Nat} (h1 : subset a b = true) (h2 : subset b c = true) : subset a c = true :=
  (subset_iff a c).2 (fun i hi => (subset_iff b c).1 h2 i ((subset_iff a b).1 h1 i hi))
theorem subset_zero (a : Nat) : subset 0 a = true := (subset_iff 0 a).2 (fun i hi => by simp at hi)

theorem minus_subset (x : Nat) (d : CSet) : subset (minus x d) x = true :=
  (subset_iff _ _).2 (fun i hi => by rw [testBit_minus] at hi; exact (Bool.and_eq_true_iff.mp hi).1)

theorem minus_mono {a b : Nat} (d : CSet) (h : subset a b = true) : subset (minus a d) (minus b d) = true :=
  (subset_iff _ _).2 (fun i hi => by
    rw [testBit_minus] at hi ⊢
    have := Bool.and_eq_true_iff.mp hi
    rw [(subset_iff a b).1 h i this.1, this.2]; rfl)

theorem minus_zero (d : CSet) : minus 0 d = 0 := by
  apply Nat.eq_of_testBit_eq; intro i; rw [testBit_minus]; simp

theorem minus_idem (x : Nat) (d : CSet) : minus (minus x d) d = minus x d := by
  apply Nat.eq_of_testBit_eq; intro i; simp only [testBit_minus]
  cases x.testBit i <;> cases d.mem i <;> rfl

theorem minus_empty (x : Nat) : minus x CSet.empty = x := by
  apply Nat.eq_of_testBit_eq; intro i; rw [testBit_minus]; simp [CSet.mem, CSet.empty]

theorem meets_false_iff (x : Nat) (d : CSet) : meets x d = false ↔ ∀ i, x.testBit i = true → d.mem i = false := by
  unfold meets CSet.mem
  cases h : d.inf
  · simp only [Bool.false_eq_true, if_false, bne_eq_false_iff_eq]
    constructor
    · intro h0 i hi
      have : (x &&& d.bits).testBit i = false := by rw [h0]; simp
      rw [Nat.testBit_and, hi] at this
      simpa using this
    · intro h0
      apply Nat.eq_of_testBit_eq; intro i
      rw [Nat.testBit_and, Nat.zero_testBit]
      cases hi : x.testBit i
      · rfl
      · have := h0 i hi; simp_all
  · simp only [if_true, bne_eq_false_iff_eq]
    constructor
    · intro h0 i hi
      have : (andnot x d.bits).testBit i = false := by rw [h0]; simp
      rw [testBit_andnot, hi] at this
      simp at this; simp [this]
    · intro h0
      apply Nat.eq_of_testBit_eq; intro i
      rw [testBit_andnot, Nat.zero_testBit]
      cases hi : x.testBit i
      · rfl
      · have := h0 i hi; simp_all

/-- a set that does not meet the dropped set is unchanged by the andnot -/
theorem minus_of_not_meets {x : Nat} {d : CSet} (h : meets x d = false) : minus x d = x := by
  apply Nat.eq_of_testBit_eq; intro i; rw [testBit_minus]
  cases hi : x.testBit i
  · rfl
  · rw [(meets_false_iff x d).1 h i hi]; rfl

theorem not_meets_of_subset {a b : Nat} {d : CSet} (hab : subset a b = true) (h : meets b d = false) : meets a d = false :=
  (meets_false_iff a d).2 (fun i hi => (meets_false_iff b d).1 h i ((subset_iff a b).1 hab i hi))

/-- `x \ ¬S = x ∩ S`: what is left of a set after dropping the complement of `S` is its intersection with `S` -/
theorem testBit_minus_compl (x : Nat) (s : CSet) (i : Nat) : (minus x s.compl).testBit i = (x.testBit i && s.mem i) := by
  rw [testBit_minus]; unfold CSet.compl CSet.mem
  cases x.testBit i <;> cases s.bits.testBit i <;> cases s.inf <;> rfl

/-! ### hypotheses on the input tree (consequences of C01 well-formedness; checked by the driver on every BEFORE dump) -/

def zeroSets (o : RObj) : Bool := o.cpuset == 0 && o.ccpuset == 0 && o.nodeset == 0 && o.cnodeset == 0

mutual
/-- SetsOK: set ⊆ complete set for every object; complete sets of normal/memory children are included in the parent's;
    I/O and Misc subtrees carry no sets -/
def okT : Tree → Bool
  | .node o ns ms ios mis =>
    subset o.cpuset o.ccpuset && subset o.nodeset o.cnodeset && okL o ns && okL o ms &&
    (objsL ios).all zeroSets && (objsL mis).all zeroSets
def okL (par : RObj) : List Tree → Bool
  | [] => true
  | t :: ts => subset t.obj.ccpuset par.ccpuset && subset t.obj.cnodeset par.cnodeset && okT t && okL par ts
end

/-! ### induction over trees -/

mutual
theorem tree_indT {P : Tree → Prop} {Q : List Tree → Prop}
    (hnode : ∀ o ns ms ios mis, Q ns → Q ms → P (.node o ns ms ios mis))
    (hnil : Q []) (hcons : ∀ t ts, P t → Q ts → Q (t :: ts)) : ∀ t, P t
  | .node o ns ms ios mis => hnode o ns ms ios mis (tree_indL hnode hnil hcons ns) (tree_indL hnode hnil hcons ms)
theorem tree_indL {P : Tree → Prop} {Q : List Tree → Prop}
    (hnode : ∀ o ns ms ios mis, Q ns → Q ms → P (.node o ns ms ios mis))
    (hnil : Q []) (hcons : ∀ t ts, P t → Q ts → Q (t :: ts)) : ∀ l, Q l
  | [] => hnil
  | t :: ts => hcons t ts (tree_indT hnode hnil hcons t) (tree_indL hnode hnil hcons ts)
end

/-! ### flattening -/

theorem objsL_append (a b : List Tree) : objsL (a ++ b) = objsL a ++ objsL b := by
  induction a with
  | nil => simp [objsL]
  | cons t ts ih => simp [objsL, ih, List.append_assoc]

theorem objsL_perm {a b : List Tree} (h : a.Perm b) : (objsL a).Perm (objsL b) := by
  induction h with
  | nil => exact .refl _
  | cons x _ ih => simp only [objsL]; exact List.Perm.append_left _ ih
  | swap x y l =>
    simp only [objsL]
    rw [← List.append_assoc, ← List.append_assoc]
    exact List.Perm.append_right _ List.perm_append_comm
  | trans _ _ ih1 ih2 => exact ih1.trans ih2

theorem insertChild_perm (c : Tree) (l : List Tree) : (insertChild c l).Perm (c :: l) := by
  induction l with
  | nil => exact .refl _
  | cons x xs ih =>
    simp only [insertChild]
    split
    · exact ((List.Perm.cons x ih).trans (List.Perm.swap c x xs))
    · exact .refl _

theorem reorder_perm (l : List Tree) : (reorder l).Perm l := by
  have h : ∀ (l acc : List Tree), (l.foldl (fun acc c => insertChild c acc) acc).Perm (acc ++ l) := by
    intro l
    induction l with
    | nil => intro acc; simp
    | cons c cs ih =>
      intro acc
      simp only [List.foldl_cons]
      refine (ih (insertChild c acc)).trans ?_
      refine (List.Perm.append_right cs (insertChild_perm c acc)).trans ?_
      simp only [List.cons_append]
      exact List.perm_middle.symm
  simpa [reorder] using h l []

/-- all objects handed back by the recursion: survivors in place, and the I/O and Misc subtrees given to the parent -/
def resObjs (r : Res) : List RObj := objsL r.kept ++ objsL r.io ++ objsL r.misc

/-- `cnt f a l`: number of objects of `l` whose `f`-image is `a` -/
def cnt {α : Type} [DecidableEq α] (f : RObj → α) (a : α) (l : List RObj) : Nat := (l.map f).count a

section cnt
variable {α : Type} [DecidableEq α] (f : RObj → α) (a : α)
theorem cnt_nil : cnt f a [] = 0 := rfl
theorem cnt_append (l1 l2 : List RObj) : cnt f a (l1 ++ l2) = cnt f a l1 + cnt f a l2 := by
  simp [cnt, List.count_append]
theorem cnt_cons (x : RObj) (l : List RObj) : cnt f a (x :: l) = cnt f a [x] + cnt f a l := by
  rw [show x :: l = [x] ++ l from rfl, cnt_append]
theorem cnt_perm {l1 l2 : List RObj} (h : l1.Perm l2) : cnt f a l1 = cnt f a l2 :=
  (h.map f).count_eq a
theorem cnt_single_congr {x y : RObj} (h : f x = f y) : cnt f a [x] = cnt f a [y] := by simp [cnt, h]
end cnt

/-! ### the node step of the recursion, with the children results abstracted -/

def nodeRes (ro : List Tree → List Tree) (p : Params) (o : RObj) (ios mis : List Tree) (m : Bool) (rn rm : Res) : Res :=
  let o' := shrinkG p o
  let ns' := if m && doReorder p then ro rn.kept else rn.kept
  let ios' := ios ++ rn.io ++ rm.io
  let mis' := mis ++ rn.misc ++ rm.misc
  if ns'.isEmpty && rm.kept.isEmpty && emptyAfter p o' && removable p o'.type then
    ⟨[], if p.adaptIO then ios' else [], if p.adaptMisc then mis' else []⟩
  else ⟨[.node o' ns' rm.kept ios' mis'], [], []⟩

def idRes (l : List Tree) : Res := ⟨l, [], []⟩

theorem restrictTW_node (ro : List Tree → List Tree) (p : Params) (o : RObj) (ns ms ios mis : List Tree) :
    restrictTW ro p (.node o ns ms ios mis) =
      nodeRes ro p o ios mis (touched p o) (if touched p o then restrictLW ro p ns else idRes ns)
        (if touched p o then restrictLW ro p ms else idRes ms) := by
  rw [restrictTW]; rfl

theorem restrictLW_nil (ro : List Tree → List Tree) (p : Params) : restrictLW ro p [] = ⟨[], [], []⟩ := by
  rw [restrictLW]

theorem restrictLW_cons (ro : List Tree → List Tree) (p : Params) (t : Tree) (ts : List Tree) :
    restrictLW ro p (t :: ts) =
      ⟨(restrictTW ro p t).kept ++ (restrictLW ro p ts).kept, (restrictTW ro p t).io ++ (restrictLW ro p ts).io,
       (restrictTW ro p t).misc ++ (restrictLW ro p ts).misc⟩ := by
  rw [restrictLW]

theorem resObjs_idRes (l : List Tree) : resObjs (idRes l) = objsL l := by simp [resObjs, idRes, objsL]

section count
variable {α : Type} [DecidableEq α] (f : RObj → α) (a : α)

theorem cnt_nodeRes {ro : List Tree → List Tree} (hro : ∀ l, (ro l).Perm l) (p : Params) (o : RObj) (ios mis : List Tree)
    (m : Bool) (rn rm : Res) (hf : f (shrinkG p o) = f o) :
    cnt f a (resObjs (nodeRes ro p o ios mis m rn rm)) ≤
      cnt f a [o] + cnt f a (resObjs rn) + cnt f a (resObjs rm) + cnt f a (objsL ios) + cnt f a (objsL mis) := by
  have hns : cnt f a (objsL (if m && doReorder p then ro rn.kept else rn.kept)) = cnt f a (objsL rn.kept) := by
    split
    · exact cnt_perm f a (objsL_perm (hro _))
    · rfl
  unfold nodeRes
  simp only []
  generalize (if (m && doReorder p) = true then ro rn.kept else rn.kept) = ns' at hns ⊢
  by_cases hc : (ns'.isEmpty && rm.kept.isEmpty && emptyAfter p (shrinkG p o) && removable p (shrinkG p o).type) = true
  · rw [if_pos hc]
    cases p.adaptIO <;> cases p.adaptMisc <;>
      simp only [resObjs, objsL, objsL_append, cnt_append, cnt_nil, if_true, if_false, Bool.false_eq_true] <;> omega
  · rw [if_neg hc]
    simp only [resObjs, objsL, objsT, objsL_append, cnt_append, cnt_nil, List.append_nil]
    have e := cnt_cons f a (shrinkG p o) (objsL ns' ++ objsL rm.kept ++ (objsL ios ++ objsL rn.io ++ objsL rm.io) ++
      (objsL mis ++ objsL rn.misc ++ objsL rm.misc))
    simp only [cnt_append] at e
    rw [cnt_single_congr f a hf] at e
    omega

/-- **generic sub-multiset lemma**: for every attribute `f` of objects that the set clearing does not change, the multiset
    of `f`-values handed back by the recursion is included in the multiset of `f`-values of the input subtree -/
theorem cnt_restrictW {ro : List Tree → List Tree} (hro : ∀ l, (ro l).Perm l) (p : Params)
    (hf : ∀ o, f (shrinkG p o) = f o) :
    (∀ t, cnt f a (resObjs (restrictTW ro p t)) ≤ cnt f a (objsT t)) ∧
    (∀ l, cnt f a (resObjs (restrictLW ro p l)) ≤ cnt f a (objsL l)) := by
  have hnode : ∀ o ns ms ios mis, cnt f a (resObjs (restrictLW ro p ns)) ≤ cnt f a (objsL ns) →
      cnt f a (resObjs (restrictLW ro p ms)) ≤ cnt f a (objsL ms) →
      cnt f a (resObjs (restrictTW ro p (.node o ns ms ios mis))) ≤ cnt f a (objsT (.node o ns ms ios mis)) := by
    intro o ns ms ios mis hn hm
    rw [restrictTW_node]
    refine Nat.le_trans (cnt_nodeRes f a hro p o ios mis _ _ _ (hf o)) ?_
    have h1 : cnt f a (resObjs (if touched p o then restrictLW ro p ns else idRes ns)) ≤ cnt f a (objsL ns) := by
      split
      · exact hn
      · rw [resObjs_idRes]; exact Nat.le_refl _
    have h2 : cnt f a (resObjs (if touched p o then restrictLW ro p ms else idRes ms)) ≤ cnt f a (objsL ms) := by
      split
      · exact hm
      · rw [resObjs_idRes]; exact Nat.le_refl _
    simp only [objsT]
    have e := cnt_cons f a o (objsL ns ++ objsL ms ++ objsL ios ++ objsL mis)
    rw [cnt_append, cnt_append, cnt_append] at e
    omega
  have hnil : cnt f a (resObjs (restrictLW ro p [])) ≤ cnt f a (objsL []) := by
    rw [restrictLW_nil]; simp [resObjs, objsL, cnt_nil]
  have hcons : ∀ t ts, cnt f a (resObjs (restrictTW ro p t)) ≤ cnt f a (objsT t) →
      cnt f a (resObjs (restrictLW ro p ts)) ≤ cnt f a (objsL ts) →
      cnt f a (resObjs (restrictLW ro p (t :: ts))) ≤ cnt f a (objsL (t :: ts)) := by
    intro t ts ht hts
    rw [restrictLW_cons]
    simp only [resObjs, objsL, objsL_append, cnt_append] at ht hts ⊢
    omega
  exact ⟨tree_indT hnode hnil hcons, tree_indL hnode hnil hcons⟩
end count

/-! ### what the set clearing does to one object -/

/-- everything but the four sets -/
def ident (o : RObj) : RObj := { o with cpuset := 0, ccpuset := 0, nodeset := 0, cnodeset := 0 }

theorem ident_shrinkG (p : Params) (o : RObj) : ident (shrinkG p o) = ident o := by
  unfold shrinkG ident shrinkCpu shrinkNode
  simp only []
  split <;> split <;> rfl

theorem gp_shrinkG (p : Params) (o : RObj) : (shrinkG p o).gp = o.gp := by
  show (ident (shrinkG p o)).gp = (ident o).gp
  rw [ident_shrinkG]
theorem type_shrinkG (p : Params) (o : RObj) : (shrinkG p o).type = o.type := by
  show (ident (shrinkG p o)).type = (ident o).type
  rw [ident_shrinkG]

theorem shrinkU_shrinkG (p : Params) (o : RObj) : shrinkU p (shrinkG p o) = shrinkU p o := by
  unfold shrinkG shrinkU shrinkCpu shrinkNode
  simp only []
  split <;> split <;> simp only [minus_idem]

theorem shrinkU_idem (p : Params) (o : RObj) : shrinkU p (shrinkU p o) = shrinkU p o := by
  unfold shrinkU shrinkCpu shrinkNode
  simp only [minus_idem]

/-- the guards are immaterial when set ⊆ complete set: the guarded clearing is `every set minus the dropped resources` -/
theorem shrinkG_eq_shrinkU (p : Params) (o : RObj) (h1 : subset o.cpuset o.ccpuset = true)
    (h2 : subset o.nodeset o.cnodeset = true) : shrinkG p o = shrinkU p o := by
  unfold shrinkG shrinkU
  simp only []
  by_cases hc : meets o.ccpuset p.dc = true
  · rw [if_pos hc]
    by_cases hn : meets (shrinkCpu p.dc o).cnodeset p.dn = true
    · rw [if_pos hn]
    · rw [if_neg hn]
      have hn' : meets o.cnodeset p.dn = false := by simpa [shrinkCpu] using hn
      unfold shrinkNode shrinkCpu
      simp only [minus_of_not_meets hn', minus_of_not_meets (not_meets_of_subset h2 hn')]
  · rw [if_neg hc]
    have hc' : meets o.ccpuset p.dc = false := by simpa using hc
    have e : shrinkCpu p.dc o = o := by
      unfold shrinkCpu
      rw [minus_of_not_meets hc', minus_of_not_meets (not_meets_of_subset h1 hc')]
    rw [e]
    by_cases hn : meets o.cnodeset p.dn = true
    · rw [if_pos hn]
    · rw [if_neg hn]
      have hn' : meets o.cnodeset p.dn = false := by simpa using hn
      unfold shrinkNode
      rw [minus_of_not_meets hn', minus_of_not_meets (not_meets_of_subset h2 hn')]

/-- every set of the cleared object is included in the old one; nothing else changes -/
theorem shrinkG_sets (p : Params) (o : RObj) :
    subset (shrinkG p o).cpuset o.cpuset = true ∧ subset (shrinkG p o).ccpuset o.ccpuset = true ∧
    subset (shrinkG p o).nodeset o.nodeset = true ∧ subset (shrinkG p o).cnodeset o.cnodeset = true := by
  unfold shrinkG shrinkCpu shrinkNode
  simp only []
  split <;> split <;> simp only [minus_subset, subset_refl, and_self]

/-! ### removal rule (local form) -/

/-- the children list after the optional reordering -/
def nsAfter (ro : List Tree → List Tree) (p : Params) (m : Bool) (rn : Res) : List Tree :=
  if m && doReorder p then ro rn.kept else rn.kept

theorem nsAfter_perm {ro : List Tree → List Tree} (hro : ∀ l, (ro l).Perm l) (p : Params) (m : Bool) (rn : Res) :
    (nsAfter ro p m rn).Perm rn.kept := by
  unfold nsAfter; split
  · exact hro _
  · exact .refl _

def removeCond (ro : List Tree → List Tree) (p : Params) (o : RObj) (m : Bool) (rn rm : Res) : Bool :=
  (nsAfter ro p m rn).isEmpty && rm.kept.isEmpty && emptyAfter p (shrinkG p o) && removable p (shrinkG p o).type

theorem nodeRes_cases (ro : List Tree → List Tree) (p : Params) (o : RObj) (ios mis : List Tree) (m : Bool) (rn rm : Res) :
    (removeCond ro p o m rn rm = true ∧ nodeRes ro p o ios mis m rn rm =
        ⟨[], if p.adaptIO then ios ++ rn.io ++ rm.io else [], if p.adaptMisc then mis ++ rn.misc ++ rm.misc else []⟩) ∨
    (removeCond ro p o m rn rm = false ∧ nodeRes ro p o ios mis m rn rm =
        ⟨[.node (shrinkG p o) (nsAfter ro p m rn) rm.kept (ios ++ rn.io ++ rm.io) (mis ++ rn.misc ++ rm.misc)], [], []⟩) := by
  unfold nodeRes removeCond nsAfter
  simp only []
  by_cases hc : ((if (m && doReorder p) = true then ro rn.kept else rn.kept).isEmpty && rm.kept.isEmpty &&
      emptyAfter p (shrinkG p o) && removable p (shrinkG p o).type) = true
  · left; rw [if_pos hc]; exact ⟨hc, rfl⟩
  · right; rw [if_neg hc]; exact ⟨by simpa using hc, rfl⟩

/-- an object is removed exactly when, after the recursion, it has no normal and no memory child left, its cpuset (nodeset
    with BYNODESET) is empty, and it is not a NUMA node (PU) unless REMOVE_CPULESS (REMOVE_MEMLESS) was given -/
theorem nodeRes_kept_nil_iff {ro : List Tree → List Tree} (hro : ∀ l, (ro l).Perm l) (p : Params) (o : RObj) (ios mis : List Tree)
    (m : Bool) (rn rm : Res) :
    (nodeRes ro p o ios mis m rn rm).kept = [] ↔
      (rn.kept = [] ∧ rm.kept = [] ∧ emptyAfter p (shrinkG p o) = true ∧ removable p o.type = true) := by
  have hns : nsAfter ro p m rn = [] ↔ rn.kept = [] := by
    have hp := nsAfter_perm hro p m rn
    constructor
    · intro h; rw [h] at hp; exact hp.symm.eq_nil
    · intro h; rw [h] at hp; exact hp.eq_nil
  have hcond : removeCond ro p o m rn rm = true ↔
      (rn.kept = [] ∧ rm.kept = [] ∧ emptyAfter p (shrinkG p o) = true ∧ removable p o.type = true) := by
    unfold removeCond
    rw [type_shrinkG]
    simp only [Bool.and_eq_true, List.isEmpty_iff, hns, and_assoc]
  rcases nodeRes_cases ro p o ios mis m rn rm with ⟨hc, e⟩ | ⟨hc, e⟩
  · rw [e]; simp only [true_iff]; exact hcond.1 hc
  · rw [e]; simp only [List.cons_ne_nil, false_iff]
    intro h; rw [hcond.2 h] at hc; exact Bool.noConfusion hc

/-- a removed object hands its I/O (Misc) children to the parent exactly when ADAPT_IO (ADAPT_MISC) is given -/
theorem nodeRes_removed_specials (ro : List Tree → List Tree) (p : Params) (o : RObj) (ios mis : List Tree)
    (m : Bool) (rn rm : Res) (h : (nodeRes ro p o ios mis m rn rm).kept = []) :
    (nodeRes ro p o ios mis m rn rm).io = (if p.adaptIO then ios ++ rn.io ++ rm.io else []) ∧
    (nodeRes ro p o ios mis m rn rm).misc = (if p.adaptMisc then mis ++ rn.misc ++ rm.misc else []) := by
  rcases nodeRes_cases ro p o ios mis m rn rm with ⟨_, e⟩ | ⟨_, e⟩
  · rw [e]; exact ⟨rfl, rfl⟩
  · rw [e] at h; simp at h

/-- a surviving object keeps its own I/O and Misc children, in order, followed by those inherited from removed children -/
theorem nodeRes_kept_specials (ro : List Tree → List Tree) (p : Params) (o : RObj) (ios mis : List Tree)
    (m : Bool) (rn rm : Res) (k : Tree) (h : k ∈ (nodeRes ro p o ios mis m rn rm).kept) :
    k = .node (shrinkG p o) (nsAfter ro p m rn) rm.kept (ios ++ rn.io ++ rm.io) (mis ++ rn.misc ++ rm.misc) ∧
    (nodeRes ro p o ios mis m rn rm).io = [] ∧ (nodeRes ro p o ios mis m rn rm).misc = [] := by
  rcases nodeRes_cases ro p o ios mis m rn rm with ⟨_, e⟩ | ⟨_, e⟩
  · rw [e] at h; simp at h
  · rw [e] at h ⊢
    simp only [List.mem_singleton] at h
    exact ⟨h, rfl, rfl⟩

/-! ### Misc and I/O objects are conserved -/

/-- the I/O (`sel = true`) resp. Misc (`sel = false`) list of a pair -/
def pick (sel : Bool) (ios mis : List Tree) : List Tree := if sel then ios else mis
def adapt (sel : Bool) (p : Params) : Bool := if sel then p.adaptIO else p.adaptMisc

mutual
/-- all objects inside the I/O (resp. Misc) children lists of the normal and memory objects of a subtree -/
def specT (sel : Bool) : Tree → List RObj
  | .node _ ns ms ios mis => specL sel ns ++ specL sel ms ++ objsL (pick sel ios mis)
def specL (sel : Bool) : List Tree → List RObj
  | [] => []
  | t :: ts => specT sel t ++ specL sel ts
end

def resSpec (sel : Bool) (r : Res) : List RObj := specL sel r.kept ++ objsL (pick sel r.io r.misc)

theorem specL_append (sel : Bool) (a b : List Tree) : specL sel (a ++ b) = specL sel a ++ specL sel b := by
  induction a with
  | nil => simp [specL]
  | cons t ts ih => simp [specL, ih, List.append_assoc]

theorem specL_perm (sel : Bool) {a b : List Tree} (h : a.Perm b) : (specL sel a).Perm (specL sel b) := by
  induction h with
  | nil => exact .refl _
  | cons x _ ih => simp only [specL]; exact List.Perm.append_left _ ih
  | swap x y l =>
    simp only [specL]
    rw [← List.append_assoc, ← List.append_assoc]
    exact List.Perm.append_right _ List.perm_append_comm
  | trans _ _ ih1 ih2 => exact ih1.trans ih2

theorem pick_append (sel : Bool) (a b c d : List Tree) : pick sel (a ++ b) (c ++ d) = pick sel a c ++ pick sel b d := by
  cases sel <;> rfl

section spec
variable (x : RObj)

theorem spec_nodeRes {ro : List Tree → List Tree} (hro : ∀ l, (ro l).Perm l) (p : Params) (o : RObj) (ios mis : List Tree)
    (m : Bool) (rn rm : Res) (sel : Bool) :
    cnt id x (resSpec sel (nodeRes ro p o ios mis m rn rm)) ≤
        cnt id x (resSpec sel rn) + cnt id x (resSpec sel rm) + cnt id x (objsL (pick sel ios mis)) ∧
    (adapt sel p = true →
      cnt id x (resSpec sel (nodeRes ro p o ios mis m rn rm)) =
        cnt id x (resSpec sel rn) + cnt id x (resSpec sel rm) + cnt id x (objsL (pick sel ios mis))) := by
  have hp := nsAfter_perm hro p m rn
  have hns : cnt id x (specL sel (nsAfter ro p m rn)) = cnt id x (specL sel rn.kept) := cnt_perm id x (specL_perm sel hp)
  rcases nodeRes_cases ro p o ios mis m rn rm with ⟨hc, e⟩ | ⟨hc, e⟩
  · rw [e]
    have h1 : rn.kept = [] := by
      unfold removeCond at hc
      simp only [Bool.and_eq_true, List.isEmpty_iff] at hc
      have := hc.1.1.1; rw [this] at hp; exact hp.symm.eq_nil
    have h2 : rm.kept = [] := by
      unfold removeCond at hc
      simp only [Bool.and_eq_true, List.isEmpty_iff] at hc
      exact hc.1.1.2
    unfold adapt resSpec
    rw [h1, h2]
    cases sel <;> cases p.adaptIO <;> cases p.adaptMisc <;>
      simp [pick, specL, objsL, objsL_append, cnt_append, cnt_nil] <;> omega
  · rw [e]
    unfold resSpec
    simp only [specL, specT, List.append_nil]
    have e2 : pick sel ([] : List Tree) [] = [] := by cases sel <;> rfl
    rw [e2, pick_append, pick_append]
    simp only [objsL, objsL_append, cnt_append, cnt_nil, List.append_nil, hns]
    constructor
    · omega
    · intro _; omega

/-- **conservation of Misc and I/O objects**: the recursion never creates such objects and, with the corresponding ADAPT
    flag, never loses one (they are handed to the parent until a surviving ancestor takes them) -/
theorem spec_restrictW {ro : List Tree → List Tree} (hro : ∀ l, (ro l).Perm l) (p : Params) (sel : Bool) :
    (∀ t, cnt id x (resSpec sel (restrictTW ro p t)) ≤ cnt id x (specT sel t) ∧
          (adapt sel p = true → cnt id x (resSpec sel (restrictTW ro p t)) = cnt id x (specT sel t))) ∧
    (∀ l, cnt id x (resSpec sel (restrictLW ro p l)) ≤ cnt id x (specL sel l) ∧
          (adapt sel p = true → cnt id x (resSpec sel (restrictLW ro p l)) = cnt id x (specL sel l))) := by
  have hid : ∀ l, cnt id x (resSpec sel (idRes l)) = cnt id x (specL sel l) := by
    intro l; unfold resSpec idRes
    have e2 : pick sel ([] : List Tree) [] = [] := by cases sel <;> rfl
    simp [e2, objsL]
  refine ⟨tree_indT (Q := fun l => cnt id x (resSpec sel (restrictLW ro p l)) ≤ cnt id x (specL sel l) ∧
      (adapt sel p = true → cnt id x (resSpec sel (restrictLW ro p l)) = cnt id x (specL sel l))) ?hnode ?hnil ?hcons,
    tree_indL (P := fun t => cnt id x (resSpec sel (restrictTW ro p t)) ≤ cnt id x (specT sel t) ∧
      (adapt sel p = true → cnt id x (resSpec sel (restrictTW ro p t)) = cnt id x (specT sel t))) ?hnode ?hnil ?hcons⟩
  case hnode =>
    intro o ns ms ios mis hn hm
    rw [restrictTW_node]
    have h := spec_nodeRes x hro p o ios mis (touched p o) (if touched p o then restrictLW ro p ns else idRes ns)
      (if touched p o then restrictLW ro p ms else idRes ms) sel
    have h1 : cnt id x (resSpec sel (if touched p o then restrictLW ro p ns else idRes ns)) ≤ cnt id x (specL sel ns) ∧
        (adapt sel p = true → cnt id x (resSpec sel (if touched p o then restrictLW ro p ns else idRes ns)) = cnt id x (specL sel ns)) := by
      split
      · exact hn
      · rw [hid]; exact ⟨Nat.le_refl _, fun _ => rfl⟩
    have h2 : cnt id x (resSpec sel (if touched p o then restrictLW ro p ms else idRes ms)) ≤ cnt id x (specL sel ms) ∧
        (adapt sel p = true → cnt id x (resSpec sel (if touched p o then restrictLW ro p ms else idRes ms)) = cnt id x (specL sel ms)) := by
      split
      · exact hm
      · rw [hid]; exact ⟨Nat.le_refl _, fun _ => rfl⟩
    simp only [specT, cnt_append]
    constructor
    · have := h.1; have := h1.1; have := h2.1; omega
    · intro ha; have := h.2 ha; have := h1.2 ha; have := h2.2 ha; omega
  case hnil =>
    rw [restrictLW_nil]
    have e2 : pick sel ([] : List Tree) [] = [] := by cases sel <;> rfl
    simp [resSpec, specL, objsL, e2]
  case hcons =>
    intro t ts ht hts
    rw [restrictLW_cons]
    simp only [resSpec, specL, specL_append, pick_append, objsL_append, cnt_append] at ht hts ⊢
    constructor
    · have := ht.1; have := hts.1; omega
    · intro ha; have := ht.2 ha; have := hts.2 ha; omega
end spec

/-! ### the public function -/

theorem restrict_einval_iff (t : Topo) (s : CSet) (flags : Nat) : (restrict t s flags).2 = .einval ↔ plan t s flags = none := by
  unfold restrict
  cases hp : plan t s flags with
  | none => simp
  | some p =>
    simp only []
    cases hc : restrictCore t p <;> simp

/-- whenever the call does not succeed the topology is the input topology -/
theorem restrict_unchanged_of_not_ok (t : Topo) (s : CSet) (flags : Nat) (h : (restrict t s flags).2 ≠ .ok) :
    (restrict t s flags).1 = t := by
  unfold restrict at h ⊢
  cases hp : plan t s flags with
  | none => rfl
  | some p =>
    rw [hp] at h
    simp only [] at h ⊢
    cases hc : restrictCore t p with
    | none => rfl
    | some t' => rw [hc] at h; exact absurd rfl h

theorem plan_none_of_bad_flags (t : Topo) (s : CSet) (flags : Nat) (h : andnot flags allFlags ≠ 0) : plan t s flags = none := by
  unfold plan; simp [h]
theorem plan_none_of_cpuless_bynodeset (t : Topo) (s : CSet) (flags : Nat) (h1 : hasFlag flags flagByNodeset = true)
    (h2 : hasFlag flags flagRemoveCpuless = true) : plan t s flags = none := by
  unfold plan; simp [h1, h2]
theorem plan_none_of_memless_bycpuset (t : Topo) (s : CSet) (flags : Nat) (h1 : hasFlag flags flagByNodeset = false)
    (h2 : hasFlag flags flagRemoveMemless = true) : plan t s flags = none := by
  unfold plan; simp [h1, h2]
theorem plan_none_of_disjoint_cpuset (t : Topo) (s : CSet) (flags : Nat) (h1 : hasFlag flags flagByNodeset = false)
    (h2 : meets t.allowedCpu s = false) : plan t s flags = none := by
  unfold plan; simp [h1, h2]
theorem plan_none_of_disjoint_nodeset (t : Topo) (s : CSet) (flags : Nat) (h1 : hasFlag flags flagByNodeset = true)
    (h2 : meets t.allowedNode s = false) : plan t s flags = none := by
  unfold plan; simp [h1, h2]

/-- the dropped set of the primary kind is the complement of the caller's set; flags are decoded as documented -/
theorem plan_some (t : Topo) (s : CSet) (flags : Nat) (p : Params) (h : plan t s flags = some p) :
    p.byNode = hasFlag flags flagByNodeset ∧ p.adaptIO = hasFlag flags flagAdaptIO ∧ p.adaptMisc = hasFlag flags flagAdaptMisc ∧
    (p.byNode = false → p.dc = s.compl ∧ p.rmExempt = hasFlag flags flagRemoveCpuless ∧
        (p.rmExempt = false → p.dn = CSet.empty) ∧
        (p.rmExempt = true → p.dn = CSet.ofMask (droppedNodes t.tree s.compl) ∧ inside t.allowedNode p.dn = false)) ∧
    (p.byNode = true → p.dn = s.compl ∧ p.rmExempt = hasFlag flags flagRemoveMemless ∧
        (p.rmExempt = false → p.dc = CSet.empty) ∧
        (p.rmExempt = true → p.dc = CSet.ofMask (droppedPUs t.tree s.compl) ∧ inside t.allowedCpu p.dc = false)) := by
  unfold plan at h
  simp only [] at h
  split at h; · exact absurd h (by simp)
  split at h; · exact absurd h (by simp)
  split at h; · exact absurd h (by simp)
  split at h; · exact absurd h (by simp)
  split at h; · exact absurd h (by simp)
  cases hb : hasFlag flags flagByNodeset <;> simp only [hb, if_true, if_false, Bool.false_eq_true] at h
  · cases hr : hasFlag flags flagRemoveCpuless <;> simp only [hr, if_true, if_false, Bool.false_eq_true] at h
    · cases h; simp
    · split at h
      · exact absurd h (by simp)
      · rename_i hin; cases h; simp at hin; simp [hin]
  · cases hr : hasFlag flags flagRemoveMemless <;> simp only [hr, if_true, if_false, Bool.false_eq_true] at h
    · cases h; simp
    · split at h
      · exact absurd h (by simp)
      · rename_i hin; cases h; simp at hin; simp [hin]

/-- the root object and the allowed sets after the tree recursion -/
theorem restrictCore_root (t : Topo) (p : Params) (t' : Topo) (h : restrictCore t p = some t') :
    t'.tree.obj = shrinkG p t.tree.obj ∧ t'.allowedCpu = minus t.allowedCpu p.dc ∧
    t'.allowedNode = minus t.allowedNode p.dn ∧ t'.filters = t.filters ∧ (restrictT p t.tree).kept = [t'.tree] := by
  unfold restrictCore at h
  split at h
  · rename_i root hk
    cases h
    refine ⟨?_, rfl, rfl, rfl, hk⟩
    have hm : root ∈ (restrictT p t.tree).kept := by rw [hk]; exact List.mem_singleton.2 rfl
    cases ht : t.tree with
    | node o ns ms ios mis =>
      rw [ht] at hm
      unfold restrictT at hm
      rw [restrictTW_node] at hm
      have := (nodeRes_kept_specials _ _ _ _ _ _ _ _ _ hm).1
      rw [this]; rfl
  · exact absurd h (by simp)

/-! ### the final re-sort of children lists (hwloc__reorder_children_if_needed everywhere) permutes siblings -/

theorem fixOrder_perm (l : List Tree) : (fixOrder l).Perm l := by
  unfold fixOrder; split
  · exact reorder_perm l
  · exact .refl _

theorem reorderAll_perm :
    (∀ t, (objsT (reorderAllT t)).Perm (objsT t) ∧ (reorderAllT t).obj = t.obj) ∧
    (∀ l, (objsL (reorderAllL l)).Perm (objsL l)) := by
  have hnode : ∀ o ns ms ios mis, (objsL (reorderAllL ns)).Perm (objsL ns) → (objsL (reorderAllL ms)).Perm (objsL ms) →
      ((objsT (reorderAllT (.node o ns ms ios mis))).Perm (objsT (.node o ns ms ios mis)) ∧
        (reorderAllT (.node o ns ms ios mis)).obj = (Tree.node o ns ms ios mis).obj) := by
    intro o ns ms ios mis hn _
    rw [reorderAllT]
    refine ⟨?_, rfl⟩
    simp only [objsT]
    refine List.Perm.cons o ?_
    exact List.Perm.append_right _ (List.Perm.append_right _ (List.Perm.append_right _
      ((objsL_perm (fixOrder_perm _)).trans hn)))
  have hnil : (objsL (reorderAllL [])).Perm (objsL []) := by rw [reorderAllL]
  have hcons : ∀ t ts, ((objsT (reorderAllT t)).Perm (objsT t) ∧ (reorderAllT t).obj = t.obj) →
      (objsL (reorderAllL ts)).Perm (objsL ts) → (objsL (reorderAllL (t :: ts))).Perm (objsL (t :: ts)) := by
    intro t ts ht hts
    rw [reorderAllL]
    simp only [objsL]
    exact List.Perm.append ht.1 hts
  exact ⟨tree_indT hnode hnil hcons, tree_indL hnode hnil hcons⟩

/-! ### the memory children list after a merge is a permutation of parent's ++ child's -/

/-- mergeNode with the memory list left unsorted (all multiset / set statements are proved for it and transported) -/
def mergeNode0 (replaceChild : Bool) (o : RObj) (ns ms ios mis : List Tree) : Tree :=
  match ns with
  | [.node co cns cms cios cmis] =>
    .node (if replaceChild then o else absorbIf ms o co) cns (ms ++ cms) (ios ++ cios) (mis ++ cmis)
  | _ => .node o ns ms ios mis

def withMs (t : Tree) (mm : List Tree) : Tree := match t with | .node o ns _ ios mis => .node o ns mm ios mis
def newMs (replaceChild : Bool) (ns ms : List Tree) : List Tree :=
  match ns with
  | [.node _ _ cms _ _] => mergedMs replaceChild ms cms
  | _ => ms

theorem insertMem_perm (c : Tree) (l : List Tree) : (insertMem c l).Perm (c :: l) := by
  induction l with
  | nil => exact .refl _
  | cons x xs ih =>
    simp only [insertMem]
    split
    · exact .refl _
    · exact ((List.Perm.cons x ih).trans (List.Perm.swap c x xs))

theorem reorderMem_perm (l : List Tree) : (reorderMem l).Perm l := by
  have h : ∀ (l acc : List Tree), (l.foldl (fun acc c => insertMem c acc) acc).Perm (acc ++ l) := by
    intro l
    induction l with
    | nil => intro acc; simp
    | cons c cs ih =>
      intro acc
      simp only [List.foldl_cons]
      refine (ih (insertMem c acc)).trans ?_
      refine (List.Perm.append_right cs (insertMem_perm c acc)).trans ?_
      simp only [List.cons_append]
      exact List.perm_middle.symm
  simpa [reorderMem] using h l []

theorem mergedMs_perm (rc : Bool) (ms cms : List Tree) : (mergedMs rc ms cms).Perm (ms ++ cms) := by
  unfold mergedMs
  by_cases h : (if rc = true then cms.isEmpty else ms.isEmpty) = true
  · rw [if_pos h]
  · rw [if_neg h]; exact reorderMem_perm _

theorem mergeNode_eq (rc : Bool) (o : RObj) (ns ms ios mis : List Tree) :
    mergeNode rc o ns ms ios mis = withMs (mergeNode0 rc o ns ms ios mis) (newMs rc ns ms) := by
  cases ns with
  | nil => rfl
  | cons t ts =>
    cases ts with
    | nil => cases t; rfl
    | cons _ _ => cases t; rfl

theorem newMs_perm (rc : Bool) (o : RObj) (ns ms ios mis : List Tree) :
    (newMs rc ns ms).Perm (mergeNode0 rc o ns ms ios mis).ms := by
  cases ns with
  | nil => exact .refl _
  | cons t ts =>
    cases ts with
    | nil => cases t; exact mergedMs_perm _ _ _
    | cons _ _ => cases t; exact .refl _

theorem obj_withMs (t : Tree) (mm : List Tree) : (withMs t mm).obj = t.obj := by cases t; rfl

theorem objsT_withMs_perm (t : Tree) (mm : List Tree) (h : mm.Perm t.ms) : (objsT (withMs t mm)).Perm (objsT t) := by
  cases t with
  | node o ns ms ios mis =>
    simp only [withMs, objsT, Tree.ms] at h ⊢
    refine List.Perm.cons o ?_
    exact List.Perm.append_right _ (List.Perm.append_right _ (List.Perm.append_left _ (objsL_perm h)))

/-- transport along `mergeNode_eq`: the objects of the merged node are those of the unsorted version -/
theorem objsT_mergeNode_perm (rc : Bool) (o : RObj) (ns ms ios mis : List Tree) :
    (objsT (mergeNode rc o ns ms ios mis)).Perm (objsT (mergeNode0 rc o ns ms ios mis)) := by
  rw [mergeNode_eq]
  exact objsT_withMs_perm _ _ (newMs_perm rc o ns ms ios mis)

section count
variable {α : Type} [DecidableEq α] (f : RObj → α) (a : α)

theorem cnt_restrictCore (t : Topo) (p : Params) (t' : Topo) (h : restrictCore t p = some t')
    (hf : ∀ o, f (shrinkG p o) = f o) : cnt f a (objsT t'.tree) ≤ cnt f a (objsT t.tree) := by
  have hk := (restrictCore_root t p t' h).2.2.2.2
  have := (cnt_restrictW f a reorder_perm p hf).1 t.tree
  unfold restrictT at hk
  unfold resObjs at this
  rw [hk] at this
  simp only [objsL, List.append_nil, cnt_append] at this
  omega

/-- contribution of one object to `cnt` -/
def cnt1 (x : RObj) : Nat := cnt f a [x]
theorem cnt_cons1 (x : RObj) (l : List RObj) : cnt f a (x :: l) = cnt1 f a x + cnt f a l := cnt_cons f a x l

theorem cnt1_congr {x y : RObj} (h : f x = f y) : cnt1 f a x = cnt1 f a y := cnt_single_congr f a h

theorem absorbIf_congr (hm : ∀ o co, f (absorb o co) = f co) (ms : List Tree) (o co : RObj) : f (absorbIf ms o co) = f co := by
  unfold absorbIf; split
  · rfl
  · exact hm o co

/-- `hm`: the attribute is not changed by taking over a parent's complete sets -/
theorem cnt_mergeNode0 (hm : ∀ o co, f (absorb o co) = f co) (rc : Bool) (o : RObj) (ns ms ios mis : List Tree) :
    cnt f a (objsT (mergeNode0 rc o ns ms ios mis)) ≤ cnt f a (objsT (.node o ns ms ios mis)) := by
  unfold mergeNode0
  split
  · rename_i co cns cms cios cmis
    cases rc <;>
      simp only [objsT, objsL, objsL_append, List.append_nil, List.cons_append, cnt_cons1, cnt_append, if_true, if_false,
        Bool.false_eq_true, cnt1_congr f a (absorbIf_congr f hm ms o co)] <;> omega
  · exact Nat.le_refl _

theorem cnt_mergeNode (hm : ∀ o co, f (absorb o co) = f co) (rc : Bool) (o : RObj) (ns ms ios mis : List Tree) :
    cnt f a (objsT (mergeNode rc o ns ms ios mis)) ≤ cnt f a (objsT (.node o ns ms ios mis)) := by
  rw [cnt_perm f a (objsT_mergeNode_perm rc o ns ms ios mis)]
  exact cnt_mergeNode0 f a hm rc o ns ms ios mis

mutual
theorem cnt_mergeT (hm : ∀ o co, f (absorb o co) = f co) (ps : List Nat) (rc : Bool) :
    ∀ t, cnt f a (objsT (mergeT ps rc t)) ≤ cnt f a (objsT t)
  | .node o ns ms ios mis => by
    rw [mergeT]
    split
    · exact cnt_mergeNode f a hm rc o ns ms ios mis
    · simp only [objsT]
      have ih := cnt_mergeL hm ps rc ns
      have e1 := cnt_cons f a o (objsL (mergeL ps rc ns) ++ objsL ms ++ objsL ios ++ objsL mis)
      have e2 := cnt_cons f a o (objsL ns ++ objsL ms ++ objsL ios ++ objsL mis)
      simp only [cnt_append] at e1 e2
      omega
theorem cnt_mergeL (hm : ∀ o co, f (absorb o co) = f co) (ps : List Nat) (rc : Bool) :
    ∀ l, cnt f a (objsL (mergeL ps rc l)) ≤ cnt f a (objsL l)
  | [] => by rw [mergeL]; exact Nat.le_refl _
  | t :: ts => by
    rw [mergeL]
    simp only [objsL, cnt_append]
    have := cnt_mergeT hm ps rc t
    have := cnt_mergeL hm ps rc ts
    omega
end

theorem cnt_ksStep (hm : ∀ o co, f (absorb o co) = f co) (filters : List Nat) (i : Nat) (st : Tree × List (List RObj) × Bool) :
    cnt f a (objsT (ksStep filters i st).1) ≤ cnt f a (objsT st.1) := by
  unfold ksStep
  split
  · split
    · exact Nat.le_refl _
    · split
      · exact cnt_mergeT f a hm _ _ _
      · exact Nat.le_refl _
  · exact Nat.le_refl _

theorem cnt_ksLoop (hm : ∀ o co, f (absorb o co) = f co) (filters : List Nat) : ∀ (i : Nat) (st : Tree × List (List RObj) × Bool),
    cnt f a (objsT (ksLoop filters i st).1) ≤ cnt f a (objsT st.1)
  | 0, st => by rw [ksLoop]; exact Nat.le_refl _
  | i + 1, st => by
    rw [ksLoop]
    exact Nat.le_trans (cnt_ksLoop hm filters i _) (cnt_ksStep f a hm filters (i + 1) st)

/-- level merging never creates an object and changes nothing but the complete sets of a child that replaces its parent -/
theorem cnt_keepStructure (hm : ∀ o co, f (absorb o co) = f co) (filters : List Nat) (t : Tree) :
    cnt f a (objsT (keepStructure filters t)) ≤ cnt f a (objsT t) := by
  unfold keepStructure
  simp only []
  split
  · rw [cnt_perm f a ((reorderAll_perm.1 _).1)]
    exact cnt_ksLoop f a hm filters _ _
  · exact cnt_ksLoop f a hm filters _ _

/-- **whole call**: for every attribute that neither the set clearing nor the merge of complete sets changes, the multiset of
    its values over the objects after the call is included in the multiset before the call (in particular: no object is
    created, duplicated or re-typed) -/
theorem cnt_restrict (t : Topo) (s : CSet) (flags : Nat) (hf : ∀ p o, f (shrinkG p o) = f o)
    (hm : ∀ o co, f (absorb o co) = f co) :
    cnt f a (objsT (restrict t s flags).1.tree) ≤ cnt f a (objsT t.tree) := by
  unfold restrict
  cases hp : plan t s flags with
  | none => exact Nat.le_refl _
  | some p =>
    simp only []
    cases hc : restrictCore t p with
    | none => exact Nat.le_refl _
    | some t' =>
      exact Nat.le_trans (cnt_keepStructure f a hm _ _) (cnt_restrictCore f a t p t' hc (hf p))

/-- a history of calls -/
def runCalls (t : Topo) (calls : List (CSet × Nat)) : Topo := calls.foldl (fun t c => (restrict t c.1 c.2).1) t

theorem cnt_runCalls (hf : ∀ p o, f (shrinkG p o) = f o) (hm : ∀ o co, f (absorb o co) = f co) :
    ∀ (calls : List (CSet × Nat)) (t : Topo),
    cnt f a (objsT (runCalls t calls).tree) ≤ cnt f a (objsT t.tree)
  | [], t => Nat.le_refl _
  | c :: cs, t => by
    unfold runCalls
    rw [List.foldl_cons]
    exact Nat.le_trans (cnt_runCalls hf hm cs _) (cnt_restrict f a t c.1 c.2 hf hm)
end count

/-! ### exactness under SetsOK: every object handed back has all its sets disjoint from the dropped resources -/

theorem okT_node (o : RObj) (ns ms ios mis : List Tree) :
    okT (.node o ns ms ios mis) = true ↔
      (subset o.cpuset o.ccpuset = true ∧ subset o.nodeset o.cnodeset = true ∧ okL o ns = true ∧ okL o ms = true ∧
       (∀ x ∈ objsL ios, zeroSets x = true) ∧ (∀ x ∈ objsL mis, zeroSets x = true)) := by
  rw [okT]; simp only [Bool.and_eq_true, List.all_eq_true, and_assoc]

theorem okL_cons (par : RObj) (t : Tree) (ts : List Tree) :
    okL par (t :: ts) = true ↔ (subset t.obj.ccpuset par.ccpuset = true ∧ subset t.obj.cnodeset par.cnodeset = true ∧
      okT t = true ∧ okL par ts = true) := by
  rw [okL]; simp only [Bool.and_eq_true, and_assoc]

theorem shrinkU_of_zero (p : Params) (x : RObj) (h : zeroSets x = true) : shrinkU p x = x := by
  unfold zeroSets at h
  simp only [Bool.and_eq_true, beq_iff_eq] at h
  obtain ⟨⟨⟨h1, h2⟩, h3⟩, h4⟩ := h
  cases x
  simp only [shrinkU, shrinkCpu, shrinkNode] at *
  subst h1 h2 h3 h4
  simp only [minus_zero]

theorem shrinkU_of_untouched (p : Params) (o : RObj) (h1 : subset o.cpuset o.ccpuset = true)
    (h2 : subset o.nodeset o.cnodeset = true) (hc : meets o.ccpuset p.dc = false) (hn : meets o.cnodeset p.dn = false) :
    shrinkU p o = o := by
  cases o
  simp only [shrinkU, shrinkCpu, shrinkNode] at *
  rw [minus_of_not_meets hc, minus_of_not_meets hn, minus_of_not_meets (not_meets_of_subset h1 hc),
    minus_of_not_meets (not_meets_of_subset h2 hn)]

theorem untouched_fix (p : Params) :
    (∀ t, okT t = true → meets t.obj.ccpuset p.dc = false → meets t.obj.cnodeset p.dn = false →
        ∀ x ∈ objsT t, shrinkU p x = x) ∧
    (∀ l, ∀ par : RObj, okL par l = true → meets par.ccpuset p.dc = false → meets par.cnodeset p.dn = false →
        ∀ x ∈ objsL l, shrinkU p x = x) := by
  have hnode : ∀ o ns ms ios mis,
      (∀ par : RObj, okL par ns = true → meets par.ccpuset p.dc = false → meets par.cnodeset p.dn = false →
        ∀ x ∈ objsL ns, shrinkU p x = x) →
      (∀ par : RObj, okL par ms = true → meets par.ccpuset p.dc = false → meets par.cnodeset p.dn = false →
        ∀ x ∈ objsL ms, shrinkU p x = x) →
      (okT (.node o ns ms ios mis) = true → meets (Tree.node o ns ms ios mis).obj.ccpuset p.dc = false →
        meets (Tree.node o ns ms ios mis).obj.cnodeset p.dn = false →
        ∀ x ∈ objsT (.node o ns ms ios mis), shrinkU p x = x) := by
    intro o ns ms ios mis hn hm hok hc hd x hx
    rw [okT_node] at hok
    obtain ⟨h1, h2, h3, h4, h5, h6⟩ := hok
    simp only [Tree.obj] at hc hd
    simp only [objsT, List.mem_cons, List.mem_append] at hx
    rcases hx with rfl | ((hx | hx) | hx) | hx
    · exact shrinkU_of_untouched p _ h1 h2 hc hd
    · exact hn o h3 hc hd x hx
    · exact hm o h4 hc hd x hx
    · exact shrinkU_of_zero p x (h5 x hx)
    · exact shrinkU_of_zero p x (h6 x hx)
  have hnil : ∀ par : RObj, okL par [] = true → meets par.ccpuset p.dc = false → meets par.cnodeset p.dn = false →
      ∀ x ∈ objsL [], shrinkU p x = x := by
    intro _ _ _ _ x hx; simp [objsL] at hx
  have hcons : ∀ t ts,
      (okT t = true → meets t.obj.ccpuset p.dc = false → meets t.obj.cnodeset p.dn = false → ∀ x ∈ objsT t, shrinkU p x = x) →
      (∀ par : RObj, okL par ts = true → meets par.ccpuset p.dc = false → meets par.cnodeset p.dn = false →
        ∀ x ∈ objsL ts, shrinkU p x = x) →
      (∀ par : RObj, okL par (t :: ts) = true → meets par.ccpuset p.dc = false → meets par.cnodeset p.dn = false →
        ∀ x ∈ objsL (t :: ts), shrinkU p x = x) := by
    intro t ts ht hts par hok hc hd x hx
    rw [okL_cons] at hok
    obtain ⟨h1, h2, h3, h4⟩ := hok
    simp only [objsL, List.mem_append] at hx
    rcases hx with hx | hx
    · exact ht h3 (not_meets_of_subset h1 hc) (not_meets_of_subset h2 hd) x hx
    · exact hts par h4 hc hd x hx
  exact ⟨tree_indT hnode hnil hcons, tree_indL hnode hnil hcons⟩

theorem mem_nodeRes {ro : List Tree → List Tree} (hro : ∀ l, (ro l).Perm l) (p : Params) (o : RObj) (ios mis : List Tree)
    (m : Bool) (rn rm : Res) (x : RObj) (hx : x ∈ resObjs (nodeRes ro p o ios mis m rn rm)) :
    x = shrinkG p o ∨ x ∈ resObjs rn ∨ x ∈ resObjs rm ∨ x ∈ objsL ios ∨ x ∈ objsL mis := by
  have hp := objsL_perm (nsAfter_perm hro p m rn)
  rcases nodeRes_cases ro p o ios mis m rn rm with ⟨_, e⟩ | ⟨_, e⟩
  · rw [e] at hx
    simp only [resObjs, objsL, List.nil_append, List.mem_append] at hx
    rcases hx with hx | hx
    · cases ha : p.adaptIO
      · rw [ha] at hx; simp [objsL] at hx
      · rw [ha] at hx
        simp only [↓reduceIte, objsL_append, List.mem_append] at hx
        rcases hx with (hx | hx) | hx
        · exact Or.inr (Or.inr (Or.inr (Or.inl hx)))
        · exact Or.inr (Or.inl (by simp only [resObjs, List.mem_append]; exact Or.inl (Or.inr hx)))
        · exact Or.inr (Or.inr (Or.inl (by simp only [resObjs, List.mem_append]; exact Or.inl (Or.inr hx))))
    · cases ha : p.adaptMisc
      · rw [ha] at hx; simp [objsL] at hx
      · rw [ha] at hx
        simp only [↓reduceIte, objsL_append, List.mem_append] at hx
        rcases hx with (hx | hx) | hx
        · exact Or.inr (Or.inr (Or.inr (Or.inr hx)))
        · exact Or.inr (Or.inl (by simp only [resObjs, List.mem_append]; exact Or.inr hx))
        · exact Or.inr (Or.inr (Or.inl (by simp only [resObjs, List.mem_append]; exact Or.inr hx)))
  · rw [e] at hx
    simp only [resObjs, objsL, objsT, List.append_nil, List.mem_cons, List.mem_append, objsL_append] at hx
    rcases hx with rfl | (((hx | hx) | ((hx | hx) | hx)) | ((hx | hx) | hx))
    · exact Or.inl rfl
    · exact Or.inr (Or.inl (by simp only [resObjs, List.mem_append]; exact Or.inl (Or.inl (hp.mem_iff.1 hx))))
    · exact Or.inr (Or.inr (Or.inl (by simp only [resObjs, List.mem_append]; exact Or.inl (Or.inl hx))))
    · exact Or.inr (Or.inr (Or.inr (Or.inl hx)))
    · exact Or.inr (Or.inl (by simp only [resObjs, List.mem_append]; exact Or.inl (Or.inr hx)))
    · exact Or.inr (Or.inr (Or.inl (by simp only [resObjs, List.mem_append]; exact Or.inl (Or.inr hx))))
    · exact Or.inr (Or.inr (Or.inr (Or.inr hx)))
    · exact Or.inr (Or.inl (by simp only [resObjs, List.mem_append]; exact Or.inr hx))
    · exact Or.inr (Or.inr (Or.inl (by simp only [resObjs, List.mem_append]; exact Or.inr hx)))

/-- **exactness**: under SetsOK every object handed back by the recursion is a fixed point of "minus the dropped
    resources", i.e. none of its four sets contains a dropped resource -/
theorem fix_restrictW {ro : List Tree → List Tree} (hro : ∀ l, (ro l).Perm l) (p : Params) :
    (∀ t, okT t = true → ∀ x ∈ resObjs (restrictTW ro p t), shrinkU p x = x) ∧
    (∀ l, ∀ par : RObj, okL par l = true → ∀ x ∈ resObjs (restrictLW ro p l), shrinkU p x = x) := by
  have hnode : ∀ o ns ms ios mis,
      (∀ par : RObj, okL par ns = true → ∀ x ∈ resObjs (restrictLW ro p ns), shrinkU p x = x) →
      (∀ par : RObj, okL par ms = true → ∀ x ∈ resObjs (restrictLW ro p ms), shrinkU p x = x) →
      (okT (.node o ns ms ios mis) = true → ∀ x ∈ resObjs (restrictTW ro p (.node o ns ms ios mis)), shrinkU p x = x) := by
    intro o ns ms ios mis hn hm hok x hx
    rw [okT_node] at hok
    obtain ⟨h1, h2, h3, h4, h5, h6⟩ := hok
    rw [restrictTW_node] at hx
    rcases mem_nodeRes hro p o ios mis _ _ _ x hx with rfl | hx | hx | hx | hx
    · rw [shrinkG_eq_shrinkU p o h1 h2, shrinkU_idem]
    · cases ht : touched p o
      · rw [ht] at hx
        simp only [Bool.false_eq_true, if_false, resObjs_idRes] at hx
        unfold touched at ht
        simp only [Bool.or_eq_false_iff] at ht
        exact (untouched_fix p).2 ns o h3 ht.1 ht.2 x hx
      · rw [ht] at hx; simp only [if_true] at hx; exact hn o h3 x hx
    · cases ht : touched p o
      · rw [ht] at hx
        simp only [Bool.false_eq_true, if_false, resObjs_idRes] at hx
        unfold touched at ht
        simp only [Bool.or_eq_false_iff] at ht
        exact (untouched_fix p).2 ms o h4 ht.1 ht.2 x hx
      · rw [ht] at hx; simp only [if_true] at hx; exact hm o h4 x hx
    · exact shrinkU_of_zero p x (h5 x hx)
    · exact shrinkU_of_zero p x (h6 x hx)
  have hnil : ∀ par : RObj, okL par [] = true → ∀ x ∈ resObjs (restrictLW ro p []), shrinkU p x = x := by
    intro _ _ x hx; rw [restrictLW_nil] at hx; simp [resObjs, objsL] at hx
  have hcons : ∀ t ts, (okT t = true → ∀ x ∈ resObjs (restrictTW ro p t), shrinkU p x = x) →
      (∀ par : RObj, okL par ts = true → ∀ x ∈ resObjs (restrictLW ro p ts), shrinkU p x = x) →
      (∀ par : RObj, okL par (t :: ts) = true → ∀ x ∈ resObjs (restrictLW ro p (t :: ts)), shrinkU p x = x) := by
    intro t ts ht hts par hok x hx
    rw [okL_cons] at hok
    obtain ⟨_, _, h3, h4⟩ := hok
    rw [restrictLW_cons] at hx
    simp only [resObjs, objsL_append, List.mem_append] at hx ht hts
    rcases hx with ((hx | hx) | (hx | hx)) | (hx | hx)
    · exact ht h3 x (Or.inl (Or.inl hx))
    · exact hts par h4 x (Or.inl (Or.inl hx))
    · exact ht h3 x (Or.inl (Or.inr hx))
    · exact hts par h4 x (Or.inl (Or.inr hx))
    · exact ht h3 x (Or.inr hx)
    · exact hts par h4 x (Or.inr hx)
  exact ⟨tree_indT hnode hnil hcons, tree_indL hnode hnil hcons⟩


/-- **exact sets of every survivor**: under SetsOK each object after the tree recursion has all four sets disjoint from the
    dropped resources, and the multiset of objects is included in the multiset of "old object with every set minus the
    dropped resources" -/
theorem restrictCore_exact (t : Topo) (p : Params) (t' : Topo) (h : restrictCore t p = some t') (hok : okT t.tree = true)
    (a : RObj) :
    (∀ x ∈ objsT t'.tree, shrinkU p x = x) ∧ cnt id a (objsT t'.tree) ≤ cnt (shrinkU p) a (objsT t.tree) := by
  have hk := (restrictCore_root t p t' h).2.2.2.2
  unfold restrictT at hk
  have hfix : ∀ x ∈ objsT t'.tree, shrinkU p x = x := by
    intro x hx
    refine (fix_restrictW reorder_perm p).1 t.tree hok x ?_
    unfold resObjs
    rw [hk]
    simp only [objsL, List.append_nil, List.mem_append]
    exact Or.inl (Or.inl hx)
  refine ⟨hfix, ?_⟩
  have e : cnt id a (objsT t'.tree) = cnt (shrinkU p) a (objsT t'.tree) := by
    unfold cnt
    congr 1
    exact List.map_congr_left (fun x hx => by rw [hfix x hx]; rfl)
  rw [e]
  exact cnt_restrictCore (shrinkU p) a t p t' h (fun o => shrinkU_shrinkG p o)

/-! ### the PU rule and the NUMA rule -/

theorem testBit_bit (k i : Nat) : (1 <<< k).testBit i = decide (k = i) := by
  rw [Nat.one_shiftLeft, Nat.testBit_two_pow]

theorem bit_ne_zero (k : Nat) : (1 <<< k) ≠ 0 := by
  rw [Nat.one_shiftLeft]; exact Nat.ne_of_gt (Nat.two_pow_pos k)

theorem meets_bit (k : Nat) (d : CSet) : meets (1 <<< k) d = d.mem k := by
  cases h : d.mem k
  · exact (meets_false_iff _ _).2 (fun i hi => by
      rw [testBit_bit] at hi; have := of_decide_eq_true hi; subst this; exact h)
  · cases hm : meets (1 <<< k) d
    · have := (meets_false_iff _ _).1 hm k (by rw [testBit_bit]; exact decide_eq_true rfl)
      rw [h] at this; exact absurd this (by simp)
    · rfl

theorem minus_bit_of_mem (k : Nat) (d : CSet) (h : d.mem k = true) : minus (1 <<< k) d = 0 := by
  apply Nat.eq_of_testBit_eq; intro i
  rw [testBit_minus, testBit_bit, Nat.zero_testBit]
  by_cases hk : k = i
  · subst hk; simp [h]
  · simp [hk]

/-- a leaf whose primary set (cpuset by cpuset, nodeset by nodeset) is the single bit `k`, of a type that may be removed, is
    removed iff `k` is dropped -/
theorem leaf_rule_cpu (p : Params) (hb : p.byNode = false) (o : RObj) (k : Nat) (hc : o.cpuset = 1 <<< k) (hcc : o.ccpuset = 1 <<< k)
    (hty : o.type ≠ tNUMA) (ios mis : List Tree) :
    (restrictT p (.node o [] [] ios mis)).kept = [] ↔ p.dc.mem k = true := by
  unfold restrictT
  rw [restrictTW_node, nodeRes_kept_nil_iff reorder_perm]
  have h1 : (if touched p o = true then restrictLW reorder p [] else idRes []).kept = [] := by
    split
    · rw [restrictLW_nil]
    · rfl
  have hrem : removable p o.type = true := by
    unfold removable; rw [hb]; simp [hty]
  have hemp : emptyAfter p (shrinkG p o) = true ↔ p.dc.mem k = true := by
    unfold emptyAfter shrinkG
    rw [hb]
    simp only [Bool.false_eq_true, if_false, hcc, meets_bit]
    cases hm : p.dc.mem k
    · simp only [Bool.false_eq_true, if_false, iff_false]
      have : (if meets o.cnodeset p.dn = true then shrinkNode p.dn o else o).cpuset = o.cpuset := by split <;> rfl
      rw [this, hc]; simp [bit_ne_zero]
    · simp only [if_true, iff_true]
      have : (if meets (shrinkCpu p.dc o).cnodeset p.dn = true then shrinkNode p.dn (shrinkCpu p.dc o) else shrinkCpu p.dc o).cpuset
          = minus o.cpuset p.dc := by split <;> rfl
      rw [this, hc, minus_bit_of_mem k _ hm]; rfl
  rw [hemp]
  constructor
  · intro h; exact h.2.2.1
  · intro h; exact ⟨h1, h1, h, hrem⟩

/-- **PU rule**: under a restrict by cpuset to `S`, a PU object (leaf, cpuset = complete cpuset = {os_index}) survives iff
    its os_index is in `S` -/
theorem pu_rule (t : Topo) (s : CSet) (flags : Nat) (p : Params) (hp : plan t s flags = some p) (hb : p.byNode = false)
    (o : RObj) (hty : o.type = tPU) (hc : o.cpuset = osBit o) (hcc : o.ccpuset = osBit o) (ios mis : List Tree) :
    (restrictT p (.node o [] [] ios mis)).kept ≠ [] ↔ s.mem o.osidx.toNat = true := by
  have hdc : p.dc = s.compl := ((plan_some t s flags p hp).2.2.2.1 hb).1
  have := leaf_rule_cpu p hb o o.osidx.toNat hc hcc (by rw [hty]; decide) ios mis
  rw [Ne, this, hdc]
  unfold CSet.compl CSet.mem
  cases s.bits.testBit o.osidx.toNat <;> cases s.inf <;> simp

/-- **NUMA rule**: under a restrict by cpuset a NUMA node (leaf) disappears iff REMOVE_CPULESS was given and its cpuset is
    empty afterwards -/
theorem numa_rule (p : Params) (hb : p.byNode = false) (o : RObj) (hty : o.type = tNUMA) (ios mis : List Tree) :
    (restrictT p (.node o [] [] ios mis)).kept = [] ↔ (p.rmExempt = true ∧ (shrinkG p o).cpuset = 0) := by
  unfold restrictT
  rw [restrictTW_node, nodeRes_kept_nil_iff reorder_perm]
  have h1 : (if touched p o = true then restrictLW reorder p [] else idRes []).kept = [] := by
    split
    · rw [restrictLW_nil]
    · rfl
  have hrem : removable p o.type = p.rmExempt := by
    unfold removable; rw [hb, hty]; simp
  have hemp : emptyAfter p (shrinkG p o) = true ↔ (shrinkG p o).cpuset = 0 := by
    unfold emptyAfter; rw [hb]; simp
  rw [hrem, hemp]
  constructor
  · intro h; exact ⟨h.2.2.2, h.2.2.1⟩
  · intro h; exact ⟨h1, h1, h.2, h.1⟩

/-! ### the root is never removed -/

theorem shrinkG_cpuset (p : Params) (o : RObj) :
    (shrinkG p o).cpuset = if meets o.ccpuset p.dc then minus o.cpuset p.dc else o.cpuset := by
  unfold shrinkG; simp only []; split <;> split <;> rfl
theorem shrinkG_nodeset (p : Params) (o : RObj) :
    (shrinkG p o).nodeset = if meets o.cnodeset p.dn then minus o.nodeset p.dn else o.nodeset := by
  unfold shrinkG; simp only []
  by_cases h1 : meets o.ccpuset p.dc = true
  · rw [if_pos h1]
    by_cases h2 : meets o.cnodeset p.dn = true
    · rw [if_pos h2, if_pos (by simpa [shrinkCpu] using h2)]; rfl
    · rw [if_neg h2, if_neg (by simpa [shrinkCpu] using h2)]; rfl
  · rw [if_neg h1]; split <;> rfl

theorem meets_true_exists {x : Nat} {d : CSet} (h : meets x d = true) : ∃ i, x.testBit i = true ∧ d.mem i = true := by
  apply Classical.byContradiction
  intro hne
  have : meets x d = false := (meets_false_iff x d).2 (fun i hi => by
    cases hm : d.mem i
    · rfl
    · exact absurd ⟨i, hi, hm⟩ hne)
  rw [this] at h; exact absurd h (by simp)

theorem plan_some_meets (t : Topo) (s : CSet) (flags : Nat) (p : Params) (h : plan t s flags = some p) :
    (p.byNode = false → meets t.allowedCpu s = true) ∧ (p.byNode = true → meets t.allowedNode s = true) := by
  have hs := plan_some t s flags p h
  constructor
  · intro hb
    cases hm : meets t.allowedCpu s
    · have := plan_none_of_disjoint_cpuset t s flags (by rw [← hs.1]; exact hb) hm
      rw [this] at h; exact absurd h (by simp)
    · rfl
  · intro hb
    cases hm : meets t.allowedNode s
    · have := plan_none_of_disjoint_nodeset t s flags (by rw [← hs.1]; exact hb) hm
      rw [this] at h; exact absurd h (by simp)
    · rfl

theorem ne_zero_of_testBit {x i : Nat} (h : x.testBit i = true) : x ≠ 0 := by
  intro h0; rw [h0, Nat.zero_testBit] at h; exact absurd h (by simp)

/-- a planned restrict never removes the root (the NULL-parent dereference of the C code is unreachable) when the allowed
    sets are included in the root's sets (C01 clause allowed-sets) -/
theorem restrictCore_isSome (t : Topo) (s : CSet) (flags : Nat) (p : Params) (hp : plan t s flags = some p)
    (hac : subset t.allowedCpu t.tree.obj.cpuset = true) (han : subset t.allowedNode t.tree.obj.nodeset = true) :
    ∃ t', restrictCore t p = some t' := by
  have hs := plan_some t s flags p hp
  have hm := plan_some_meets t s flags p hp
  cases ht : t.tree with
  | node o ns ms ios mis =>
    rw [ht] at hac han
    simp only [Tree.obj] at hac han
    have hne : emptyAfter p (shrinkG p o) = false := by
      unfold emptyAfter
      cases hb : p.byNode
      · simp only [Bool.false_eq_true, if_false, beq_eq_false_iff_ne, ne_eq]
        obtain ⟨i, hi, hsi⟩ := meets_true_exists (hm.1 hb)
        have hdc : p.dc = s.compl := ((hs.2.2.2.1 hb).1)
        have hoi := (subset_iff _ _).1 hac i hi
        refine ne_zero_of_testBit (i := i) ?_
        rw [shrinkG_cpuset]
        split
        · rw [testBit_minus, hoi, hdc]; unfold CSet.compl CSet.mem at *; revert hsi
          cases s.bits.testBit i <;> cases s.inf <;> simp
        · exact hoi
      · simp only [if_true, beq_eq_false_iff_ne, ne_eq]
        obtain ⟨i, hi, hsi⟩ := meets_true_exists (hm.2 hb)
        have hdn : p.dn = s.compl := ((hs.2.2.2.2 hb).1)
        have hoi := (subset_iff _ _).1 han i hi
        refine ne_zero_of_testBit (i := i) ?_
        rw [shrinkG_nodeset]
        split
        · rw [testBit_minus, hoi, hdn]; unfold CSet.compl CSet.mem at *; revert hsi
          cases s.bits.testBit i <;> cases s.inf <;> simp
        · exact hoi
    unfold restrictCore
    rw [ht]
    unfold restrictT
    rw [restrictTW_node]
    rcases nodeRes_cases reorder p o ios mis (touched p o) (if touched p o then restrictLW reorder p ns else idRes ns)
      (if touched p o then restrictLW reorder p ms else idRes ms) with ⟨hc, _⟩ | ⟨_, e⟩
    · unfold removeCond at hc
      simp only [Bool.and_eq_true] at hc
      rw [hne] at hc; exact absurd hc.1.2 (by simp)
    · rw [e]; exact ⟨_, rfl⟩

/-! ### SetsOK is preserved (the set clauses of well-formedness) -/

theorem okL_iff (par : RObj) (l : List Tree) :
    okL par l = true ↔ ∀ t ∈ l, subset t.obj.ccpuset par.ccpuset = true ∧ subset t.obj.cnodeset par.cnodeset = true ∧ okT t = true := by
  induction l with
  | nil => simp [okL]
  | cons t ts ih =>
    rw [okL_cons, ih]
    simp only [List.mem_cons, forall_eq_or_imp, and_assoc]

theorem okL_perm (par : RObj) {a b : List Tree} (h : a.Perm b) : okL par a = true ↔ okL par b = true := by
  rw [okL_iff, okL_iff]
  exact ⟨fun H t ht => H t (h.mem_iff.2 ht), fun H t ht => H t (h.mem_iff.1 ht)⟩

theorem shrinkG_of_untouched (p : Params) (o : RObj) (h : touched p o = false) : shrinkG p o = o := by
  unfold touched at h
  simp only [Bool.or_eq_false_iff] at h
  unfold shrinkG
  simp only [h.1, Bool.false_eq_true, if_false, h.2]

def zeroL (l : List Tree) : Prop := ∀ x ∈ objsL l, zeroSets x = true

theorem zeroL_append {a b : List Tree} (ha : zeroL a) (hb : zeroL b) : zeroL (a ++ b) := by
  intro x hx; rw [objsL_append, List.mem_append] at hx
  rcases hx with hx | hx
  · exact ha x hx
  · exact hb x hx
theorem zeroL_nil : zeroL [] := by intro x hx; simp [objsL] at hx

theorem ok_restrictW {ro : List Tree → List Tree} (hro : ∀ l, (ro l).Perm l) (p : Params) :
    (∀ t, okT t = true →
        (∀ k ∈ (restrictTW ro p t).kept, okT k = true ∧ k.obj = shrinkU p t.obj) ∧
        zeroL (restrictTW ro p t).io ∧ zeroL (restrictTW ro p t).misc) ∧
    (∀ l, ∀ par : RObj, okL par l = true →
        okL (shrinkU p par) (restrictLW ro p l).kept = true ∧ zeroL (restrictLW ro p l).io ∧ zeroL (restrictLW ro p l).misc) := by
  have hnode : ∀ o ns ms ios mis,
      (∀ par : RObj, okL par ns = true →
        okL (shrinkU p par) (restrictLW ro p ns).kept = true ∧ zeroL (restrictLW ro p ns).io ∧ zeroL (restrictLW ro p ns).misc) →
      (∀ par : RObj, okL par ms = true →
        okL (shrinkU p par) (restrictLW ro p ms).kept = true ∧ zeroL (restrictLW ro p ms).io ∧ zeroL (restrictLW ro p ms).misc) →
      (okT (.node o ns ms ios mis) = true →
        (∀ k ∈ (restrictTW ro p (.node o ns ms ios mis)).kept, okT k = true ∧ k.obj = shrinkU p (Tree.node o ns ms ios mis).obj) ∧
        zeroL (restrictTW ro p (.node o ns ms ios mis)).io ∧ zeroL (restrictTW ro p (.node o ns ms ios mis)).misc) := by
    intro o ns ms ios mis hn hm hok
    rw [okT_node] at hok
    obtain ⟨h1, h2, h3, h4, h5, h6⟩ := hok
    have hG : shrinkG p o = shrinkU p o := shrinkG_eq_shrinkU p o h1 h2
    rw [restrictTW_node]
    -- facts about the children results, in both the touched and the untouched case
    have hrn : okL (shrinkU p o) (if touched p o then restrictLW ro p ns else idRes ns).kept = true ∧
        zeroL (if touched p o then restrictLW ro p ns else idRes ns).io ∧
        zeroL (if touched p o then restrictLW ro p ns else idRes ns).misc := by
      cases ht : touched p o
      · simp only [Bool.false_eq_true, if_false, idRes]
        rw [← hG, shrinkG_of_untouched p o ht]
        exact ⟨h3, zeroL_nil, zeroL_nil⟩
      · simp only [if_true]; exact hn o h3
    have hrm : okL (shrinkU p o) (if touched p o then restrictLW ro p ms else idRes ms).kept = true ∧
        zeroL (if touched p o then restrictLW ro p ms else idRes ms).io ∧
        zeroL (if touched p o then restrictLW ro p ms else idRes ms).misc := by
      cases ht : touched p o
      · simp only [Bool.false_eq_true, if_false, idRes]
        rw [← hG, shrinkG_of_untouched p o ht]
        exact ⟨h4, zeroL_nil, zeroL_nil⟩
      · simp only [if_true]; exact hm o h4
    generalize (if touched p o = true then restrictLW ro p ns else idRes ns) = rn at hrn ⊢
    generalize (if touched p o = true then restrictLW ro p ms else idRes ms) = rm at hrm ⊢
    have hios : zeroL (ios ++ rn.io ++ rm.io) := zeroL_append (zeroL_append h5 hrn.2.1) hrm.2.1
    have hmis : zeroL (mis ++ rn.misc ++ rm.misc) := zeroL_append (zeroL_append h6 hrn.2.2) hrm.2.2
    rcases nodeRes_cases ro p o ios mis (touched p o) rn rm with ⟨_, e⟩ | ⟨_, e⟩
    · rw [e]
      refine ⟨fun k hk => by simp at hk, ?_, ?_⟩
      · show zeroL (if p.adaptIO = true then ios ++ rn.io ++ rm.io else [])
        split
        · exact hios
        · exact zeroL_nil
      · show zeroL (if p.adaptMisc = true then mis ++ rn.misc ++ rm.misc else [])
        split
        · exact hmis
        · exact zeroL_nil
    · rw [e]
      refine ⟨?_, zeroL_nil, zeroL_nil⟩
      intro k hk
      simp only [List.mem_singleton] at hk
      subst hk
      refine ⟨?_, by simp only [Tree.obj]; exact hG⟩
      rw [okT_node, hG]
      have hsets := shrinkG_sets p o
      refine ⟨?_, ?_, ?_, hrm.1, hios, hmis⟩
      · show subset (minus o.cpuset p.dc) (minus o.ccpuset p.dc) = true
        exact minus_mono _ h1
      · show subset (minus o.nodeset p.dn) (minus o.cnodeset p.dn) = true
        exact minus_mono _ h2
      · exact (okL_perm _ (nsAfter_perm hro p (touched p o) rn)).2 hrn.1
  have hnil : ∀ par : RObj, okL par [] = true →
      okL (shrinkU p par) (restrictLW ro p []).kept = true ∧ zeroL (restrictLW ro p []).io ∧ zeroL (restrictLW ro p []).misc := by
    intro par _
    rw [restrictLW_nil]
    exact ⟨by simp [okL], zeroL_nil, zeroL_nil⟩
  have hcons : ∀ t ts,
      (okT t = true → (∀ k ∈ (restrictTW ro p t).kept, okT k = true ∧ k.obj = shrinkU p t.obj) ∧
        zeroL (restrictTW ro p t).io ∧ zeroL (restrictTW ro p t).misc) →
      (∀ par : RObj, okL par ts = true →
        okL (shrinkU p par) (restrictLW ro p ts).kept = true ∧ zeroL (restrictLW ro p ts).io ∧ zeroL (restrictLW ro p ts).misc) →
      (∀ par : RObj, okL par (t :: ts) = true →
        okL (shrinkU p par) (restrictLW ro p (t :: ts)).kept = true ∧ zeroL (restrictLW ro p (t :: ts)).io ∧
        zeroL (restrictLW ro p (t :: ts)).misc) := by
    intro t ts ht hts par hok
    rw [okL_cons] at hok
    obtain ⟨h1, h2, h3, h4⟩ := hok
    have a := ht h3
    have b := hts par h4
    rw [restrictLW_cons]
    refine ⟨?_, zeroL_append a.2.1 b.2.1, zeroL_append a.2.2 b.2.2⟩
    rw [okL_iff]
    intro k hk
    simp only [List.mem_append] at hk
    rcases hk with hk | hk
    · have := a.1 k hk
      rw [this.2]
      exact ⟨minus_mono _ h1, minus_mono _ h2, this.1⟩
    · exact (okL_iff _ _).1 b.1 k hk
  exact ⟨tree_indT hnode hnil hcons, tree_indL hnode hnil hcons⟩

/-! ### level merging: which objects may disappear -/

/-- the decision of hwloc_filter_levels_keep_structure: the child level is dropped only if its type is filtered
    KEEP_STRUCTURE or it is a Die level directly below a Package level; the parent level only if its type is filtered
    KEEP_STRUCTURE -/
theorem mergeDecision_sound (filters : List Nat) (up down : List RObj) (o1 o2 : RObj)
    (h1 : up.head? = some o1) (h2 : down.head? = some o2) :
    (mergeDecision filters up down = some true →
        filterOf filters o2.type = filterKeepStructure ∨ (o1.type = tPACKAGE ∧ o2.type = tDIE)) ∧
    (mergeDecision filters up down = some false → filterOf filters o1.type = filterKeepStructure) := by
  unfold mergeDecision
  rw [h1, h2]
  simp only []
  cases hA : (filterOf filters o1.type == filterKeepStructure) <;>
  cases hB : (filterOf filters o2.type == filterKeepStructure) <;>
  cases hC : (o1.type == tGROUP && dontMergeLevel up) <;>
  cases hD : (o2.type == tGROUP && dontMergeLevel down) <;>
  cases hE : (o1.type == tPACKAGE && o2.type == tDIE) <;>
  cases hF : decide (priorityOf o1.type ≥ priorityOf o2.type) <;>
  simp_all [tGROUP, tPACKAGE, tDIE]

/-- merging one object with its single child removes exactly one of the two objects and keeps every other object of the
    subtree unchanged (the surviving child only takes over the parent's complete sets) -/
theorem cnt_mergeNode_exact0 {α : Type} [DecidableEq α] (f : RObj → α) (a : α) (hm : ∀ o co, f (absorb o co) = f co)
    (rc : Bool) (o co : RObj) (cns cms cios cmis ms ios mis : List Tree) :
    cnt f a (objsT (mergeNode0 rc o [.node co cns cms cios cmis] ms ios mis)) + cnt1 f a (if rc then co else o) =
      cnt f a (objsT (.node o [.node co cns cms cios cmis] ms ios mis)) := by
  unfold mergeNode0
  cases rc <;>
    simp only [objsT, objsL, objsL_append, List.append_nil, List.cons_append, cnt_cons1, cnt_append, if_true, if_false,
      Bool.false_eq_true, cnt1_congr f a (absorbIf_congr f hm ms o co)] <;> omega

theorem cnt_mergeNode_exact {α : Type} [DecidableEq α] (f : RObj → α) (a : α) (hm : ∀ o co, f (absorb o co) = f co)
    (rc : Bool) (o co : RObj) (cns cms cios cmis ms ios mis : List Tree) :
    cnt f a (objsT (mergeNode rc o [.node co cns cms cios cmis] ms ios mis)) + cnt1 f a (if rc then co else o) =
      cnt f a (objsT (.node o [.node co cns cms cios cmis] ms ios mis)) := by
  rw [cnt_perm f a (objsT_mergeNode_perm rc o _ ms ios mis)]
  exact cnt_mergeNode_exact0 f a hm rc o co cns cms cios cmis ms ios mis

/-! ### level merging preserves SetsOK and exactness (hwloc fix e57fd49) -/

theorem subset_or_left (a b : Nat) : subset a (a ||| b) = true :=
  (subset_iff _ _).2 (fun i hi => by rw [Nat.testBit_or, hi]; rfl)
theorem subset_or_right (a b : Nat) : subset b (a ||| b) = true :=
  (subset_iff _ _).2 (fun i hi => by rw [Nat.testBit_or, hi]; simp)
theorem or_subset {a b c : Nat} (ha : subset a c = true) (hb : subset b c = true) : subset (a ||| b) c = true :=
  (subset_iff _ _).2 (fun i hi => by
    rw [Nat.testBit_or] at hi
    rcases Bool.or_eq_true_iff.mp hi with h | h
    · exact (subset_iff _ _).1 ha i h
    · exact (subset_iff _ _).1 hb i h)
theorem minus_or (a b : Nat) (d : CSet) : minus (a ||| b) d = minus a d ||| minus b d := by
  apply Nat.eq_of_testBit_eq; intro i
  simp only [testBit_minus, Nat.testBit_or]
  cases a.testBit i <;> cases b.testBit i <;> cases d.mem i <;> rfl

theorem okL_mono {par par' : RObj} {l : List Tree} (h : okL par l = true)
    (hc : subset par.ccpuset par'.ccpuset = true) (hn : subset par.cnodeset par'.cnodeset = true) : okL par' l = true := by
  rw [okL_iff] at h ⊢
  intro t ht
  exact ⟨subset_trans (h t ht).1 hc, subset_trans (h t ht).2.1 hn, (h t ht).2.2⟩

theorem okL_append {par : RObj} {a b : List Tree} (ha : okL par a = true) (hb : okL par b = true) : okL par (a ++ b) = true := by
  rw [okL_iff] at ha hb ⊢
  intro t ht
  rcases List.mem_append.1 ht with h | h
  · exact ha t h
  · exact hb t h

theorem ok_mergeNode0 (rc : Bool) (o : RObj) (ns ms ios mis : List Tree) (h : okT (.node o ns ms ios mis) = true) :
    okT (mergeNode0 rc o ns ms ios mis) = true ∧
    subset (mergeNode0 rc o ns ms ios mis).obj.ccpuset o.ccpuset = true ∧
    subset (mergeNode0 rc o ns ms ios mis).obj.cnodeset o.cnodeset = true := by
  unfold mergeNode0
  split
  · rename_i co cns cms cios cmis
    rw [okT_node] at h
    obtain ⟨h1, h2, h3, h4, h5, h6⟩ := h
    rw [okL_cons] at h3
    obtain ⟨c1, c2, c3, _⟩ := h3
    simp only [Tree.obj] at c1 c2
    rw [okT_node] at c3
    obtain ⟨d1, d2, d3, d4, d5, d6⟩ := c3
    cases rc
    · -- the child replaces the parent and, if memory children come along, takes over its complete sets
      simp only [Bool.false_eq_true, if_false, Tree.obj]
      unfold absorbIf
      cases ms with
      | nil =>
        simp only [List.isEmpty_nil, if_true, List.nil_append]
        refine ⟨?_, c1, c2⟩
        rw [okT_node]
        refine ⟨d1, d2, d3, d4, ?_, ?_⟩
        · intro x hx; rw [objsL_append, List.mem_append] at hx
          rcases hx with hx | hx
          · exact h5 x hx
          · exact d5 x hx
        · intro x hx; rw [objsL_append, List.mem_append] at hx
          rcases hx with hx | hx
          · exact h6 x hx
          · exact d6 x hx
      | cons m ms' =>
        simp only [List.isEmpty_cons, Bool.false_eq_true, if_false]
        have e1 : subset co.ccpuset (absorb o co).ccpuset = true := subset_or_left _ _
        have e2 : subset co.cnodeset (absorb o co).cnodeset = true := subset_or_left _ _
        have e3 : subset o.ccpuset (absorb o co).ccpuset = true := subset_or_right _ _
        have e4 : subset o.cnodeset (absorb o co).cnodeset = true := subset_or_right _ _
        refine ⟨?_, or_subset c1 (subset_refl _), or_subset c2 (subset_refl _)⟩
        rw [okT_node]
        refine ⟨subset_trans d1 e1, subset_trans d2 e2, okL_mono d3 e1 e2, okL_append (okL_mono h4 e3 e4) (okL_mono d4 e1 e2), ?_, ?_⟩
        · intro x hx; rw [objsL_append, List.mem_append] at hx
          rcases hx with hx | hx
          · exact h5 x hx
          · exact d5 x hx
        · intro x hx; rw [objsL_append, List.mem_append] at hx
          rcases hx with hx | hx
          · exact h6 x hx
          · exact d6 x hx
    · -- the parent stays and takes the child's children
      simp only [if_true, Tree.obj]
      refine ⟨?_, subset_refl _, subset_refl _⟩
      rw [okT_node]
      refine ⟨h1, h2, okL_mono d3 c1 c2, okL_append h4 (okL_mono d4 c1 c2), ?_, ?_⟩
      · intro x hx; rw [objsL_append, List.mem_append] at hx
        rcases hx with hx | hx
        · exact h5 x hx
        · exact d5 x hx
      · intro x hx; rw [objsL_append, List.mem_append] at hx
        rcases hx with hx | hx
        · exact h6 x hx
        · exact d6 x hx
  · exact ⟨h, subset_refl _, subset_refl _⟩

theorem okT_withMs (t : Tree) (mm : List Tree) (h : mm.Perm t.ms) (hok : okT t = true) : okT (withMs t mm) = true := by
  cases t with
  | node o ns ms ios mis =>
    simp only [withMs, Tree.ms] at h ⊢
    rw [okT_node] at hok ⊢
    exact ⟨hok.1, hok.2.1, hok.2.2.1, (okL_perm o h).2 hok.2.2.2.1, hok.2.2.2.2⟩

theorem ok_mergeNode (rc : Bool) (o : RObj) (ns ms ios mis : List Tree) (h : okT (.node o ns ms ios mis) = true) :
    okT (mergeNode rc o ns ms ios mis) = true ∧
    subset (mergeNode rc o ns ms ios mis).obj.ccpuset o.ccpuset = true ∧
    subset (mergeNode rc o ns ms ios mis).obj.cnodeset o.cnodeset = true := by
  have h0 := ok_mergeNode0 rc o ns ms ios mis h
  rw [mergeNode_eq, obj_withMs]
  exact ⟨okT_withMs _ _ (newMs_perm rc o ns ms ios mis) h0.1, h0.2.1, h0.2.2⟩

theorem ok_merge (ps : List Nat) (rc : Bool) :
    (∀ t, okT t = true → okT (mergeT ps rc t) = true ∧ subset (mergeT ps rc t).obj.ccpuset t.obj.ccpuset = true ∧
        subset (mergeT ps rc t).obj.cnodeset t.obj.cnodeset = true) ∧
    (∀ l, ∀ par : RObj, okL par l = true → okL par (mergeL ps rc l) = true) := by
  have hnode : ∀ o ns ms ios mis, (∀ par : RObj, okL par ns = true → okL par (mergeL ps rc ns) = true) →
      (∀ par : RObj, okL par ms = true → okL par (mergeL ps rc ms) = true) →
      (okT (.node o ns ms ios mis) = true → okT (mergeT ps rc (.node o ns ms ios mis)) = true ∧
        subset (mergeT ps rc (.node o ns ms ios mis)).obj.ccpuset (Tree.node o ns ms ios mis).obj.ccpuset = true ∧
        subset (mergeT ps rc (.node o ns ms ios mis)).obj.cnodeset (Tree.node o ns ms ios mis).obj.cnodeset = true) := by
    intro o ns ms ios mis hn _ hok
    rw [mergeT]
    split
    · exact ok_mergeNode rc o ns ms ios mis hok
    · simp only [Tree.obj]
      refine ⟨?_, subset_refl _, subset_refl _⟩
      rw [okT_node] at hok ⊢
      exact ⟨hok.1, hok.2.1, hn o hok.2.2.1, hok.2.2.2⟩
  have hnil : ∀ par : RObj, okL par [] = true → okL par (mergeL ps rc []) = true := by
    intro par h; rw [mergeL]; exact h
  have hcons : ∀ t ts, (okT t = true → okT (mergeT ps rc t) = true ∧ subset (mergeT ps rc t).obj.ccpuset t.obj.ccpuset = true ∧
        subset (mergeT ps rc t).obj.cnodeset t.obj.cnodeset = true) →
      (∀ par : RObj, okL par ts = true → okL par (mergeL ps rc ts) = true) →
      (∀ par : RObj, okL par (t :: ts) = true → okL par (mergeL ps rc (t :: ts)) = true) := by
    intro t ts ht hts par hok
    rw [okL_cons] at hok
    rw [mergeL, okL_cons]
    have := ht hok.2.2.1
    exact ⟨subset_trans this.2.1 hok.1, subset_trans this.2.2 hok.2.1, this.1, hts par hok.2.2.2⟩
  exact ⟨tree_indT hnode hnil hcons, tree_indL hnode hnil hcons⟩

theorem ok_reorderAll :
    (∀ t, okT t = true → okT (reorderAllT t) = true) ∧
    (∀ l, ∀ par : RObj, okL par l = true → okL par (reorderAllL l) = true) := by
  have hnode : ∀ o ns ms ios mis, (∀ par : RObj, okL par ns = true → okL par (reorderAllL ns) = true) →
      (∀ par : RObj, okL par ms = true → okL par (reorderAllL ms) = true) →
      (okT (.node o ns ms ios mis) = true → okT (reorderAllT (.node o ns ms ios mis)) = true) := by
    intro o ns ms ios mis hn _ hok
    rw [reorderAllT]
    rw [okT_node] at hok ⊢
    exact ⟨hok.1, hok.2.1, (okL_perm o (fixOrder_perm _)).2 (hn o hok.2.2.1), hok.2.2.2⟩
  have hnil : ∀ par : RObj, okL par [] = true → okL par (reorderAllL []) = true := by
    intro par h; rw [reorderAllL]; exact h
  have hcons : ∀ t ts, (okT t = true → okT (reorderAllT t) = true) →
      (∀ par : RObj, okL par ts = true → okL par (reorderAllL ts) = true) →
      (∀ par : RObj, okL par (t :: ts) = true → okL par (reorderAllL (t :: ts)) = true) := by
    intro t ts ht hts par hok
    rw [okL_cons] at hok
    rw [reorderAllL, okL_cons, (reorderAll_perm.1 t).2]
    exact ⟨hok.1, hok.2.1, ht hok.2.2.1, hts par hok.2.2.2⟩
  exact ⟨tree_indT hnode hnil hcons, tree_indL hnode hnil hcons⟩

theorem ok_ksStep (filters : List Nat) (i : Nat) (st : Tree × List (List RObj) × Bool) (h : okT st.1 = true) :
    okT (ksStep filters i st).1 = true := by
  unfold ksStep
  split
  · split
    · exact h
    · split
      · exact ((ok_merge _ _).1 st.1 h).1
      · exact h
  · exact h

theorem ok_ksLoop (filters : List Nat) : ∀ (i : Nat) (st : Tree × List (List RObj) × Bool), okT st.1 = true →
    okT (ksLoop filters i st).1 = true
  | 0, st, h => by rw [ksLoop]; exact h
  | i + 1, st, h => by
    rw [ksLoop]
    exact ok_ksLoop filters i _ (ok_ksStep filters (i + 1) st h)

/-- **level merging preserves SetsOK** -/
theorem ok_keepStructure (filters : List Nat) (t : Tree) (h : okT t = true) : okT (keepStructure filters t) = true := by
  unfold keepStructure
  simp only []
  split
  · exact ok_reorderAll.1 _ (ok_ksLoop filters _ (t, connectLevels t, false) h)
  · exact ok_ksLoop filters _ (t, connectLevels t, false) h

/-- **the whole call preserves SetsOK** -/
theorem ok_restrict (t : Topo) (s : CSet) (flags : Nat) (h : okT t.tree = true) : okT (restrict t s flags).1.tree = true := by
  unfold restrict
  cases hp : plan t s flags with
  | none => exact h
  | some p =>
    simp only []
    cases hc : restrictCore t p with
    | none => exact h
    | some t' =>
      simp only []
      have hr := restrictCore_root t p t' hc
      have hk : t'.tree ∈ (restrictTW reorder p t.tree).kept := by
        have := hr.2.2.2.2; unfold restrictT at this; rw [this]; exact List.mem_singleton.2 rfl
      exact ok_keepStructure _ _ (((ok_restrictW reorder_perm p).1 t.tree h).1 t'.tree hk).1

theorem ok_runCalls : ∀ (calls : List (CSet × Nat)) (t : Topo), okT t.tree = true → okT (runCalls t calls).tree = true
  | [], _, h => h
  | c :: cs, t, h => by
    unfold runCalls
    rw [List.foldl_cons]
    exact ok_runCalls cs _ (ok_restrict t c.1 c.2 h)

/-! the fixed points of "minus the dropped resources" are closed under merging -/

theorem fix_absorb (p : Params) (o co : RObj) (h1 : shrinkU p o = o) (h2 : shrinkU p co = co) :
    shrinkU p (absorb o co) = absorb o co := by
  cases o; cases co
  simp only [shrinkU, shrinkCpu, shrinkNode, absorb, RObj.mk.injEq, true_and] at *
  obtain ⟨a1, a2, a3, a4, _⟩ := h1
  obtain ⟨b1, b2, b3, b4, _⟩ := h2
  refine ⟨b1, ?_, b3, ?_⟩
  · rw [minus_or, a2, b2]
  · rw [minus_or, a4, b4]; exact ⟨rfl, trivial⟩

theorem fix_mergeNode0 (p : Params) (rc : Bool) (o : RObj) (ns ms ios mis : List Tree)
    (h : ∀ x ∈ objsT (.node o ns ms ios mis), shrinkU p x = x) :
    ∀ x ∈ objsT (mergeNode0 rc o ns ms ios mis), shrinkU p x = x := by
  unfold mergeNode0
  split
  · rename_i co cns cms cios cmis
    have ho : shrinkU p o = o := h o (by simp [objsT])
    have hco : shrinkU p co = co := h co (by simp [objsT, objsL])
    intro x hx
    simp only [objsT, objsL, objsL_append, List.append_nil, List.mem_cons, List.mem_append] at hx h
    rcases hx with rfl | hx
    · cases rc
      · simp only [Bool.false_eq_true, if_false]
        unfold absorbIf; split
        · exact hco
        · exact fix_absorb p o co ho hco
      · exact ho
    · apply h x
      rcases hx with ((hx | hx | hx) | hx | hx) | hx | hx
      · exact Or.inr (Or.inl (Or.inl (Or.inl (Or.inr (Or.inl (Or.inl (Or.inl hx)))))))
      · exact Or.inr (Or.inl (Or.inl (Or.inr hx)))
      · exact Or.inr (Or.inl (Or.inl (Or.inl (Or.inr (Or.inl (Or.inl (Or.inr hx)))))))
      · exact Or.inr (Or.inl (Or.inr hx))
      · exact Or.inr (Or.inl (Or.inl (Or.inl (Or.inr (Or.inl (Or.inr hx))))))
      · exact Or.inr (Or.inr hx)
      · exact Or.inr (Or.inl (Or.inl (Or.inl (Or.inr (Or.inr hx)))))
  · exact h

theorem fix_mergeNode (p : Params) (rc : Bool) (o : RObj) (ns ms ios mis : List Tree)
    (h : ∀ x ∈ objsT (.node o ns ms ios mis), shrinkU p x = x) :
    ∀ x ∈ objsT (mergeNode rc o ns ms ios mis), shrinkU p x = x := by
  intro x hx
  exact fix_mergeNode0 p rc o ns ms ios mis h x ((objsT_mergeNode_perm rc o ns ms ios mis).mem_iff.1 hx)

/-! ### exactness over the whole call and along histories -/

theorem fix_merge (p : Params) (ps : List Nat) (rc : Bool) :
    (∀ t, (∀ x ∈ objsT t, shrinkU p x = x) → ∀ x ∈ objsT (mergeT ps rc t), shrinkU p x = x) ∧
    (∀ l, (∀ x ∈ objsL l, shrinkU p x = x) → ∀ x ∈ objsL (mergeL ps rc l), shrinkU p x = x) := by
  have hnode : ∀ o ns ms ios mis,
      ((∀ x ∈ objsL ns, shrinkU p x = x) → ∀ x ∈ objsL (mergeL ps rc ns), shrinkU p x = x) →
      ((∀ x ∈ objsL ms, shrinkU p x = x) → ∀ x ∈ objsL (mergeL ps rc ms), shrinkU p x = x) →
      ((∀ x ∈ objsT (.node o ns ms ios mis), shrinkU p x = x) →
        ∀ x ∈ objsT (mergeT ps rc (.node o ns ms ios mis)), shrinkU p x = x) := by
    intro o ns ms ios mis hn _ h
    rw [mergeT]
    split
    · exact fix_mergeNode p rc o ns ms ios mis h
    · intro x hx
      simp only [objsT, List.mem_cons, List.mem_append] at hx h
      rcases hx with rfl | ((hx | hx) | hx) | hx
      · exact h _ (Or.inl rfl)
      · exact hn (fun y hy => h y (Or.inr (Or.inl (Or.inl (Or.inl hy))))) x hx
      · exact h x (Or.inr (Or.inl (Or.inl (Or.inr hx))))
      · exact h x (Or.inr (Or.inl (Or.inr hx)))
      · exact h x (Or.inr (Or.inr hx))
  have hnil : (∀ x ∈ objsL [], shrinkU p x = x) → ∀ x ∈ objsL (mergeL ps rc []), shrinkU p x = x := by
    intro h; rw [mergeL]; exact h
  have hcons : ∀ t ts, ((∀ x ∈ objsT t, shrinkU p x = x) → ∀ x ∈ objsT (mergeT ps rc t), shrinkU p x = x) →
      ((∀ x ∈ objsL ts, shrinkU p x = x) → ∀ x ∈ objsL (mergeL ps rc ts), shrinkU p x = x) →
      ((∀ x ∈ objsL (t :: ts), shrinkU p x = x) → ∀ x ∈ objsL (mergeL ps rc (t :: ts)), shrinkU p x = x) := by
    intro t ts ht hts h x hx
    rw [mergeL] at hx
    simp only [objsL, List.mem_append] at hx h
    rcases hx with hx | hx
    · exact ht (fun y hy => h y (Or.inl hy)) x hx
    · exact hts (fun y hy => h y (Or.inr hy)) x hx
  exact ⟨tree_indT hnode hnil hcons, tree_indL hnode hnil hcons⟩

theorem fix_ksStep (p : Params) (filters : List Nat) (i : Nat) (st : Tree × List (List RObj) × Bool)
    (h : ∀ x ∈ objsT st.1, shrinkU p x = x) : ∀ x ∈ objsT (ksStep filters i st).1, shrinkU p x = x := by
  unfold ksStep
  split
  · split
    · exact h
    · split
      · exact (fix_merge p _ _).1 st.1 h
      · exact h
  · exact h

theorem fix_ksLoop (p : Params) (filters : List Nat) : ∀ (i : Nat) (st : Tree × List (List RObj) × Bool),
    (∀ x ∈ objsT st.1, shrinkU p x = x) → ∀ x ∈ objsT (ksLoop filters i st).1, shrinkU p x = x
  | 0, st, h => by rw [ksLoop]; exact h
  | i + 1, st, h => by
    rw [ksLoop]
    exact fix_ksLoop p filters i _ (fix_ksStep p filters (i + 1) st h)

theorem fix_keepStructure (p : Params) (filters : List Nat) (t : Tree) (h : ∀ x ∈ objsT t, shrinkU p x = x) :
    ∀ x ∈ objsT (keepStructure filters t), shrinkU p x = x := by
  unfold keepStructure
  simp only []
  split
  · intro x hx
    exact fix_ksLoop p filters _ (t, connectLevels t, false) h x (((reorderAll_perm.1 _).1).mem_iff.1 hx)
  · exact fix_ksLoop p filters _ (t, connectLevels t, false) h

/-- an object without its complete sets (level merging may or the parent's complete sets into a surviving child) -/
def noComplete (o : RObj) : RObj := { o with ccpuset := 0, cnodeset := 0 }

theorem noComplete_absorb (p : Params) (o co : RObj) : noComplete (shrinkU p (absorb o co)) = noComplete (shrinkU p co) := by
  cases o; cases co; rfl

theorem restrict_ok_eq (t : Topo) (s : CSet) (flags : Nat) (p : Params) (t' : Topo) (hp : plan t s flags = some p)
    (hc : restrictCore t p = some t') :
    (restrict t s flags).1.tree = keepStructure t'.filters t'.tree ∧ (restrict t s flags).2 = .ok := by
  unfold restrict
  rw [hp]
  simp only [hc]
  constructor <;> first | rfl | trivial

/-- **exact sets after the whole call** (tree recursion + level merging), under SetsOK: every object has all four sets free
    of dropped resources; and the multiset of objects, complete sets left aside, is included in the multiset of "old object
    with cpuset and nodeset minus the dropped resources" -/
theorem restrict_exact (t : Topo) (s : CSet) (flags : Nat) (p : Params) (hp : plan t s flags = some p)
    (hret : (restrict t s flags).2 = .ok) (hok : okT t.tree = true) (a : RObj) :
    (∀ x ∈ objsT (restrict t s flags).1.tree, shrinkU p x = x) ∧
    cnt noComplete a (objsT (restrict t s flags).1.tree) ≤ cnt (fun x => noComplete (shrinkU p x)) a (objsT t.tree) := by
  cases hc : restrictCore t p with
  | none =>
    have : (restrict t s flags).2 = .rootRemoved := by unfold restrict; rw [hp]; simp only [hc]
    rw [this] at hret; exact absurd hret (by decide)
  | some t' =>
    have he := (restrict_ok_eq t s flags p t' hp hc).1
    rw [he]
    have hcore := restrictCore_exact t p t' hc hok a
    have hfix := fix_keepStructure p t'.filters t'.tree hcore.1
    refine ⟨hfix, ?_⟩
    have e : cnt noComplete a (objsT (keepStructure t'.filters t'.tree)) =
        cnt (fun x => noComplete (shrinkU p x)) a (objsT (keepStructure t'.filters t'.tree)) := by
      unfold cnt
      congr 1
      exact List.map_congr_left (fun x hx => by rw [hfix x hx])
    rw [e]
    exact Nat.le_trans
      (cnt_keepStructure (fun x => noComplete (shrinkU p x)) a (fun o co => noComplete_absorb p o co) _ _)
      (cnt_restrictCore (fun x => noComplete (shrinkU p x)) a t p t' hc (fun o => by rw [shrinkU_shrinkG]))

end Hw.Topo.Restrict
