import Hw.Topo.Render
import Hw.Topo.RestrictLemmas
import Hw.Topo.WFLemmas0
import Hw.Topo.WFTree
namespace Hw.Topo.Restrict
open Hw.Topo

/-! ### induction over all four children lists -/

mutual
theorem tree_ind4T {P : Tree → Prop} {Q : List Tree → Prop}
    (hnode : ∀ o ns ms ios mis, Q ns → Q ms → Q ios → Q mis → P (.node o ns ms ios mis))
    (hnil : Q []) (hcons : ∀ t ts, P t → Q ts → Q (t :: ts)) : ∀ t, P t
  | .node o ns ms ios mis => hnode o ns ms ios mis (tree_ind4L hnode hnil hcons ns) (tree_ind4L hnode hnil hcons ms)
      (tree_ind4L hnode hnil hcons ios) (tree_ind4L hnode hnil hcons mis)
theorem tree_ind4L {P : Tree → Prop} {Q : List Tree → Prop}
    (hnode : ∀ o ns ms ios mis, Q ns → Q ms → Q ios → Q mis → P (.node o ns ms ios mis))
    (hnil : Q []) (hcons : ∀ t ts, P t → Q ts → Q (t :: ts)) : ∀ l, Q l
  | [] => hnil
  | t :: ts => hcons t ts (tree_ind4T hnode hnil hcons t) (tree_ind4L hnode hnil hcons ts)
end

/-! ### basic facts about the occurrence list -/

theorem occsT_head (s : Nat) (par : Int) (rk : Nat) (pv nx : Int) (t : Tree) :
    ∃ rest, occsT s par rk pv nx t = ⟨s, par, rk, pv, nx, t⟩ :: rest := by
  cases t with
  | node o ns ms ios mis => rw [occsT]; exact ⟨_, rfl⟩

theorem sizeT_pos (t : Tree) : 0 < sizeT t := by
  cases t; rw [sizeT]; omega

theorem occs_length :
    (∀ t, ∀ s par rk pv nx, (occsT s par rk pv nx t).length = sizeT t) ∧
    (∀ l, ∀ s par rk pv, (occsL s par rk pv l).length = sizeL l) := by
  have hnode : ∀ o ns ms ios mis, (∀ s par rk pv, (occsL s par rk pv ns).length = sizeL ns) →
      (∀ s par rk pv, (occsL s par rk pv ms).length = sizeL ms) → (∀ s par rk pv, (occsL s par rk pv ios).length = sizeL ios) →
      (∀ s par rk pv, (occsL s par rk pv mis).length = sizeL mis) →
      (∀ s par rk pv nx, (occsT s par rk pv nx (.node o ns ms ios mis)).length = sizeT (.node o ns ms ios mis)) := by
    intro o ns ms ios mis h1 h2 h3 h4 s par rk pv nx
    rw [occsT, sizeT]
    simp only [List.length_cons, List.length_append, h1, h2, h3, h4]
    omega
  have hnil : ∀ s par rk pv, (occsL s par rk pv []).length = sizeL [] := by
    intro s par rk pv; rw [occsL, sizeL]; rfl
  have hcons : ∀ t ts, (∀ s par rk pv nx, (occsT s par rk pv nx t).length = sizeT t) →
      (∀ s par rk pv, (occsL s par rk pv ts).length = sizeL ts) →
      (∀ s par rk pv, (occsL s par rk pv (t :: ts)).length = sizeL (t :: ts)) := by
    intro t ts h1 h2 s par rk pv
    rw [occsL, sizeL, List.length_append, h1, h2]
  exact ⟨tree_ind4T hnode hnil hcons, tree_ind4L hnode hnil hcons⟩

theorem occsT_length (t : Tree) (s : Nat) (par : Int) (rk : Nat) (pv nx : Int) : (occsT s par rk pv nx t).length = sizeT t :=
  occs_length.1 t s par rk pv nx
theorem occsL_length (l : List Tree) (s : Nat) (par : Int) (rk : Nat) (pv : Int) : (occsL s par rk pv l).length = sizeL l :=
  occs_length.2 l s par rk pv

/-- ids are positions: the k-th occurrence of a segment that starts at `s` has id `s + k` -/
theorem occs_ids :
    (∀ t, ∀ s par rk pv nx k oc, (occsT s par rk pv nx t)[k]? = some oc → oc.id = s + k) ∧
    (∀ l, ∀ s par rk pv k oc, (occsL s par rk pv l)[k]? = some oc → oc.id = s + k) := by
  have hnode : ∀ o ns ms ios mis, (∀ s par rk pv k oc, (occsL s par rk pv ns)[k]? = some oc → oc.id = s + k) →
      (∀ s par rk pv k oc, (occsL s par rk pv ms)[k]? = some oc → oc.id = s + k) →
      (∀ s par rk pv k oc, (occsL s par rk pv ios)[k]? = some oc → oc.id = s + k) →
      (∀ s par rk pv k oc, (occsL s par rk pv mis)[k]? = some oc → oc.id = s + k) →
      (∀ s par rk pv nx k oc, (occsT s par rk pv nx (.node o ns ms ios mis))[k]? = some oc → oc.id = s + k) := by
    intro o ns ms ios mis h1 h2 h3 h4 s par rk pv nx k oc hk
    rw [occsT] at hk
    cases k with
    | zero => simp only [List.getElem?_cons_zero, Option.some.injEq] at hk; rw [← hk]; rfl
    | succ k =>
      simp only [List.getElem?_cons_succ] at hk
      by_cases c1 : k < sizeL ns
      · rw [List.append_assoc, List.append_assoc, List.getElem?_append_left (by rw [occsL_length]; exact c1)] at hk
        have := h1 _ _ _ _ _ _ hk; omega
      · rw [List.append_assoc, List.append_assoc, List.getElem?_append_right (by rw [occsL_length]; omega), occsL_length] at hk
        by_cases c2 : k - sizeL ns < sizeL ms
        · rw [List.getElem?_append_left (by rw [occsL_length]; exact c2)] at hk
          have := h2 _ _ _ _ _ _ hk; omega
        · rw [List.getElem?_append_right (by rw [occsL_length]; omega), occsL_length] at hk
          by_cases c3 : k - sizeL ns - sizeL ms < sizeL ios
          · rw [List.getElem?_append_left (by rw [occsL_length]; exact c3)] at hk
            have := h3 _ _ _ _ _ _ hk; omega
          · rw [List.getElem?_append_right (by rw [occsL_length]; omega), occsL_length] at hk
            have := h4 _ _ _ _ _ _ hk; omega
  have hnil : ∀ s par rk pv k oc, (occsL s par rk pv [])[k]? = some oc → oc.id = s + k := by
    intro s par rk pv k oc hk; rw [occsL] at hk; simp at hk
  have hcons : ∀ t ts, (∀ s par rk pv nx k oc, (occsT s par rk pv nx t)[k]? = some oc → oc.id = s + k) →
      (∀ s par rk pv k oc, (occsL s par rk pv ts)[k]? = some oc → oc.id = s + k) →
      (∀ s par rk pv k oc, (occsL s par rk pv (t :: ts))[k]? = some oc → oc.id = s + k) := by
    intro t ts h1 h2 s par rk pv k oc hk
    rw [occsL] at hk
    by_cases c : k < sizeT t
    · rw [List.getElem?_append_left (by rw [occsT_length]; exact c)] at hk
      exact h1 _ _ _ _ _ _ _ hk
    · rw [List.getElem?_append_right (by rw [occsT_length]; omega), occsT_length] at hk
      have := h2 _ _ _ _ _ _ hk; omega
  exact ⟨tree_ind4T hnode hnil hcons, tree_ind4L hnode hnil hcons⟩

theorem occs_id (t : Tree) (k : Nat) (oc : Occ) (h : (occs t)[k]? = some oc) : oc.id = k := by
  have := occs_ids.1 t 0 (-1) 0 (-1) (-1) k oc h; omega


/-! ### locality: the records of the children of every occurrence are where hwloc_connect_children puts them -/

/-- the record of a sibling `t` (followed by `ts`) that starts at id `s` -/
def sibRec (s : Nat) (par : Int) (rk : Nat) (pv : Int) (t : Tree) (ts : List Tree) : Occ :=
  ⟨s, par, rk, pv, if ts.isEmpty then -1 else ((s + sizeT t : Nat) : Int), t⟩

def SibsOK (G : List Occ) : Nat → Int → Nat → Int → List Tree → Prop
  | _, _, _, _, [] => True
  | s, par, rk, pv, t :: ts => G[s]? = some (sibRec s par rk pv t ts) ∧ SibsOK G (s + sizeT t) par (rk + 1) s ts

def ChildrenOK (G : List Occ) (oc : Occ) : Prop :=
  match oc.t with
  | .node _ ns ms ios mis =>
    SibsOK G (oc.id + 1) oc.id 0 (-1) ns ∧ SibsOK G (oc.id + 1 + sizeL ns) oc.id 0 (-1) ms ∧
    SibsOK G (oc.id + 1 + sizeL ns + sizeL ms) oc.id 0 (-1) ios ∧
    SibsOK G (oc.id + 1 + sizeL ns + sizeL ms + sizeL ios) oc.id 0 (-1) mis

theorem occs_local :
    (∀ t, ∀ s par rk pv nx pre post, pre.length = s →
        ∀ oc ∈ occsT s par rk pv nx t, ChildrenOK (pre ++ occsT s par rk pv nx t ++ post) oc) ∧
    (∀ l, ∀ s par rk pv pre post, pre.length = s →
        SibsOK (pre ++ occsL s par rk pv l ++ post) s par rk pv l ∧
        ∀ oc ∈ occsL s par rk pv l, ChildrenOK (pre ++ occsL s par rk pv l ++ post) oc) := by
  have hnode : ∀ o ns ms ios mis,
      (∀ s par rk pv pre post, pre.length = s → SibsOK (pre ++ occsL s par rk pv ns ++ post) s par rk pv ns ∧
        ∀ oc ∈ occsL s par rk pv ns, ChildrenOK (pre ++ occsL s par rk pv ns ++ post) oc) →
      (∀ s par rk pv pre post, pre.length = s → SibsOK (pre ++ occsL s par rk pv ms ++ post) s par rk pv ms ∧
        ∀ oc ∈ occsL s par rk pv ms, ChildrenOK (pre ++ occsL s par rk pv ms ++ post) oc) →
      (∀ s par rk pv pre post, pre.length = s → SibsOK (pre ++ occsL s par rk pv ios ++ post) s par rk pv ios ∧
        ∀ oc ∈ occsL s par rk pv ios, ChildrenOK (pre ++ occsL s par rk pv ios ++ post) oc) →
      (∀ s par rk pv pre post, pre.length = s → SibsOK (pre ++ occsL s par rk pv mis ++ post) s par rk pv mis ∧
        ∀ oc ∈ occsL s par rk pv mis, ChildrenOK (pre ++ occsL s par rk pv mis ++ post) oc) →
      (∀ s par rk pv nx pre post, pre.length = s → ∀ oc ∈ occsT s par rk pv nx (.node o ns ms ios mis),
        ChildrenOK (pre ++ occsT s par rk pv nx (.node o ns ms ios mis) ++ post) oc) := by
    intro o ns ms ios mis h1 h2 h3 h4 s par rk pv nx pre post hpre oc hoc
    rw [occsT] at hoc ⊢
    generalize hH : (⟨s, par, rk, pv, nx, .node o ns ms ios mis⟩ : Occ) = H at hoc ⊢
    generalize hA : occsL (s + 1) s 0 (-1) ns = A at hoc ⊢
    generalize hB : occsL (s + 1 + sizeL ns) s 0 (-1) ms = B at hoc ⊢
    generalize hC : occsL (s + 1 + sizeL ns + sizeL ms) s 0 (-1) ios = C at hoc ⊢
    generalize hD : occsL (s + 1 + sizeL ns + sizeL ms + sizeL ios) s 0 (-1) mis = D at hoc ⊢
    have lA : A.length = sizeL ns := by rw [← hA, occsL_length]
    have lB : B.length = sizeL ms := by rw [← hB, occsL_length]
    have lC : C.length = sizeL ios := by rw [← hC, occsL_length]
    have eA : pre ++ H :: (A ++ B ++ C ++ D) ++ post = (pre ++ [H]) ++ A ++ (B ++ C ++ D ++ post) := by simp [List.append_assoc]
    have eB : pre ++ H :: (A ++ B ++ C ++ D) ++ post = (pre ++ [H] ++ A) ++ B ++ (C ++ D ++ post) := by simp [List.append_assoc]
    have eC : pre ++ H :: (A ++ B ++ C ++ D) ++ post = (pre ++ [H] ++ A ++ B) ++ C ++ (D ++ post) := by simp [List.append_assoc]
    have eD : pre ++ H :: (A ++ B ++ C ++ D) ++ post = (pre ++ [H] ++ A ++ B ++ C) ++ D ++ post := by simp [List.append_assoc]
    have qA := h1 (s + 1) s 0 (-1) (pre ++ [H]) (B ++ C ++ D ++ post) (by simp [hpre])
    have qB := h2 (s + 1 + sizeL ns) s 0 (-1) (pre ++ [H] ++ A) (C ++ D ++ post) (by simp [hpre, lA]; omega)
    have qC := h3 (s + 1 + sizeL ns + sizeL ms) s 0 (-1) (pre ++ [H] ++ A ++ B) (D ++ post) (by simp [hpre, lA, lB]; omega)
    have qD := h4 (s + 1 + sizeL ns + sizeL ms + sizeL ios) s 0 (-1) (pre ++ [H] ++ A ++ B ++ C) post (by simp [hpre, lA, lB, lC]; omega)
    rw [hA] at qA; rw [hB] at qB; rw [hC] at qC; rw [hD] at qD
    rw [← eA] at qA; rw [← eB] at qB; rw [← eC] at qC; rw [← eD] at qD
    simp only [List.mem_cons, List.mem_append] at hoc
    rcases hoc with rfl | ((hoc | hoc) | hoc) | hoc
    · subst hH
      exact ⟨qA.1, qB.1, qC.1, qD.1⟩
    · exact qA.2 oc hoc
    · exact qB.2 oc hoc
    · exact qC.2 oc hoc
    · exact qD.2 oc hoc
  have hnil : ∀ s par rk pv pre post, pre.length = s → SibsOK (pre ++ occsL s par rk pv [] ++ post) s par rk pv [] ∧
      ∀ oc ∈ occsL s par rk pv [], ChildrenOK (pre ++ occsL s par rk pv [] ++ post) oc := by
    intro s par rk pv pre post _
    rw [occsL]
    exact ⟨trivial, fun oc h => by simp at h⟩
  have hcons : ∀ t ts,
      (∀ s par rk pv nx pre post, pre.length = s → ∀ oc ∈ occsT s par rk pv nx t,
        ChildrenOK (pre ++ occsT s par rk pv nx t ++ post) oc) →
      (∀ s par rk pv pre post, pre.length = s → SibsOK (pre ++ occsL s par rk pv ts ++ post) s par rk pv ts ∧
        ∀ oc ∈ occsL s par rk pv ts, ChildrenOK (pre ++ occsL s par rk pv ts ++ post) oc) →
      (∀ s par rk pv pre post, pre.length = s → SibsOK (pre ++ occsL s par rk pv (t :: ts) ++ post) s par rk pv (t :: ts) ∧
        ∀ oc ∈ occsL s par rk pv (t :: ts), ChildrenOK (pre ++ occsL s par rk pv (t :: ts) ++ post) oc) := by
    intro t ts h1 h2 s par rk pv pre post hpre
    rw [occsL]
    generalize hX : occsT s par rk pv (if ts.isEmpty then -1 else ((s + sizeT t : Nat) : Int)) t = X
    generalize hY : occsL (s + sizeT t) par (rk + 1) s ts = Y
    have lX : X.length = sizeT t := by rw [← hX, occsT_length]
    have e1 : pre ++ (X ++ Y) ++ post = pre ++ X ++ (Y ++ post) := by simp [List.append_assoc]
    have e2 : pre ++ (X ++ Y) ++ post = (pre ++ X) ++ Y ++ post := by simp [List.append_assoc]
    have q1 := h1 s par rk pv (if ts.isEmpty then -1 else ((s + sizeT t : Nat) : Int)) pre (Y ++ post) hpre
    have q2 := h2 (s + sizeT t) par (rk + 1) s (pre ++ X) post (by simp [hpre, lX])
    rw [hX, ← e1] at q1; rw [hY, ← e2] at q2
    refine ⟨⟨?_, q2.1⟩, ?_⟩
    · obtain ⟨rest, hr⟩ := occsT_head s par rk pv (if ts.isEmpty then -1 else ((s + sizeT t : Nat) : Int)) t
      rw [hX] at hr
      rw [e1, hr, List.append_assoc, List.getElem?_append_right (by omega)]
      simp [hpre, sibRec]
    · intro oc hoc
      rcases List.mem_append.1 hoc with h | h
      · exact q1 oc h
      · exact q2.2 oc h
  exact ⟨tree_ind4T hnode hnil hcons, tree_ind4L hnode hnil hcons⟩

/-- **every occurrence sees the records of all its children at the ids hwloc_connect_children assigns** -/
theorem occs_childrenOK (t : Tree) (oc : Occ) (h : oc ∈ occs t) : ChildrenOK (occs t) oc := by
  have := occs_local.1 t 0 (-1) 0 (-1) (-1) [] [] rfl oc h
  simpa [occs] using this

/-! ### reading one sibling out of a children list -/

/-- id of the `j`-th sibling of a list that starts at `s` -/
def startN (s : Nat) (l : List Tree) (j : Nat) : Nat := s + sizeL (l.take j)

theorem startN_zero (s : Nat) (l : List Tree) : startN s l 0 = s := by simp [startN, sizeL]
theorem startN_cons_succ (s : Nat) (t : Tree) (ts : List Tree) (j : Nat) :
    startN s (t :: ts) (j + 1) = startN (s + sizeT t) ts j := by
  simp [startN, sizeL]; omega

theorem startsL_length (s : Nat) (l : List Tree) : (startsL s l).length = l.length := by
  induction l generalizing s with
  | nil => rfl
  | cons t ts ih => simp [startsL, ih]

theorem startsL_get (s : Nat) (l : List Tree) (j : Nat) (hj : j < l.length) :
    (startsL s l)[j]? = some ((startN s l j : Nat) : Int) := by
  induction l generalizing s j with
  | nil => simp at hj
  | cons t ts ih =>
    cases j with
    | zero => simp [startsL, startN_zero]
    | succ j =>
      simp only [startsL, List.getElem?_cons_succ]
      rw [ih (s + sizeT t) j (by simpa using hj), startN_cons_succ]

theorem startsL_get_none (s : Nat) (l : List Tree) (j : Nat) (hj : l.length ≤ j) : (startsL s l)[j]? = none := by
  rw [List.getElem?_eq_none_iff, startsL_length]; exact hj

/-- the record hwloc_connect_children gives to the `j`-th sibling -/
def sibRecAt (s : Nat) (par : Int) (rk : Nat) (pv : Int) (l : List Tree) (j : Nat) (t : Tree) : Occ :=
  ⟨startN s l j, par, rk + j, if j = 0 then pv else ((startN s l (j - 1) : Nat) : Int),
   if j + 1 < l.length then ((startN s l (j + 1) : Nat) : Int) else -1, t⟩

theorem sibs_get (G : List Occ) (l : List Tree) : ∀ (s : Nat) (par : Int) (rk : Nat) (pv : Int), SibsOK G s par rk pv l →
    ∀ j t, l[j]? = some t → G[startN s l j]? = some (sibRecAt s par rk pv l j t) := by
  induction l with
  | nil => intro s par rk pv _ j t h; simp at h
  | cons a as ih =>
    intro s par rk pv hok j t hj
    obtain ⟨h0, hrest⟩ := hok
    cases j with
    | zero =>
      simp only [List.getElem?_cons_zero, Option.some.injEq] at hj
      subst hj
      rw [startN_zero, h0]
      simp only [sibRec, sibRecAt, startN_zero, Nat.add_zero, if_true, Option.some.injEq]
      cases as with
      | nil => simp
      | cons b bs => simp [startN, sizeL]
    | succ j =>
      simp only [List.getElem?_cons_succ] at hj
      have := ih (s + sizeT a) par (rk + 1) s hrest j t hj
      rw [startN_cons_succ, this]
      simp only [sibRecAt, Option.some.injEq, Occ.mk.injEq, true_and, and_true]
      refine ⟨by rw [startN_cons_succ], by omega, ?_, ?_⟩
      · cases j with
        | zero => simp [startN_zero]
        | succ j => simp [startN_cons_succ]
      · simp only [List.length_cons, startN_cons_succ]
        by_cases h : j + 1 < as.length
        · rw [if_pos h, if_pos (by omega)]
        · rw [if_neg h, if_neg (by omega)]

/-! ### tree typing -/

theorem typedL_get (k : Nat → Bool) (l : List Tree) (h : typedL k l = true) (j : Nat) (t : Tree) (hj : l[j]? = some t) :
    k t.obj.type = true ∧ typedT t = true := by
  induction l generalizing j with
  | nil => simp at hj
  | cons a as ih =>
    rw [typedL] at h
    simp only [Bool.and_eq_true] at h
    cases j with
    | zero => simp at hj; subst hj; exact ⟨h.1.1, h.1.2⟩
    | succ j => exact ih h.2 j (by simpa using hj)

theorem sibRecAt_zero (s : Nat) (par : Int) (rk : Nat) (pv : Int) (t : Tree) (ts : List Tree) :
    sibRecAt s par rk pv (t :: ts) 0 t = sibRec s par rk pv t ts := by
  simp only [sibRec, sibRecAt, startN_zero, Nat.add_zero, if_true]
  cases ts with
  | nil => simp
  | cons b bs => simp [startN, sizeL]

theorem sibRecAt_succ (s : Nat) (par : Int) (rk : Nat) (pv : Int) (a : Tree) (as : List Tree) (j : Nat) (t : Tree) :
    sibRecAt s par rk pv (a :: as) (j + 1) t = sibRecAt (s + sizeT a) par (rk + 1) s as j t := by
  simp only [sibRecAt, Occ.mk.injEq, true_and, and_true]
  refine ⟨by rw [startN_cons_succ], by omega, ?_, ?_⟩
  · cases j with
    | zero => simp [startN_zero]
    | succ j => simp [startN_cons_succ]
  · simp only [List.length_cons, startN_cons_succ]
    by_cases h : j + 1 < as.length
    · rw [if_pos h, if_pos (by omega)]
    · rw [if_neg h, if_neg (by omega)]

/-! ### every occurrence but the root is a listed child of an occurrence -/

/-- `oc` is the record of one of the children of `poc` -/
def IsChild (poc oc : Occ) : Prop :=
  match poc.t with
  | .node _ ns ms ios mis =>
    (∃ j t, ns[j]? = some t ∧ oc = sibRecAt (poc.id + 1) poc.id 0 (-1) ns j t) ∨
    (∃ j t, ms[j]? = some t ∧ oc = sibRecAt (poc.id + 1 + sizeL ns) poc.id 0 (-1) ms j t) ∨
    (∃ j t, ios[j]? = some t ∧ oc = sibRecAt (poc.id + 1 + sizeL ns + sizeL ms) poc.id 0 (-1) ios j t) ∨
    (∃ j t, mis[j]? = some t ∧ oc = sibRecAt (poc.id + 1 + sizeL ns + sizeL ms + sizeL ios) poc.id 0 (-1) mis j t)

theorem occs_up :
    (∀ t, ∀ s par rk pv nx, ∀ oc ∈ occsT s par rk pv nx t,
        oc = ⟨s, par, rk, pv, nx, t⟩ ∨ ∃ poc ∈ occsT s par rk pv nx t, IsChild poc oc) ∧
    (∀ l, ∀ s par rk pv, ∀ oc ∈ occsL s par rk pv l,
        (∃ j t, l[j]? = some t ∧ oc = sibRecAt s par rk pv l j t) ∨ ∃ poc ∈ occsL s par rk pv l, IsChild poc oc) := by
  have hnode : ∀ o ns ms ios mis,
      (∀ s par rk pv, ∀ oc ∈ occsL s par rk pv ns,
        (∃ j t, ns[j]? = some t ∧ oc = sibRecAt s par rk pv ns j t) ∨ ∃ poc ∈ occsL s par rk pv ns, IsChild poc oc) →
      (∀ s par rk pv, ∀ oc ∈ occsL s par rk pv ms,
        (∃ j t, ms[j]? = some t ∧ oc = sibRecAt s par rk pv ms j t) ∨ ∃ poc ∈ occsL s par rk pv ms, IsChild poc oc) →
      (∀ s par rk pv, ∀ oc ∈ occsL s par rk pv ios,
        (∃ j t, ios[j]? = some t ∧ oc = sibRecAt s par rk pv ios j t) ∨ ∃ poc ∈ occsL s par rk pv ios, IsChild poc oc) →
      (∀ s par rk pv, ∀ oc ∈ occsL s par rk pv mis,
        (∃ j t, mis[j]? = some t ∧ oc = sibRecAt s par rk pv mis j t) ∨ ∃ poc ∈ occsL s par rk pv mis, IsChild poc oc) →
      (∀ s par rk pv nx, ∀ oc ∈ occsT s par rk pv nx (.node o ns ms ios mis),
        oc = ⟨s, par, rk, pv, nx, .node o ns ms ios mis⟩ ∨ ∃ poc ∈ occsT s par rk pv nx (.node o ns ms ios mis), IsChild poc oc) := by
    intro o ns ms ios mis h1 h2 h3 h4 s par rk pv nx oc hoc
    rw [occsT] at hoc ⊢
    simp only [List.mem_cons, List.mem_append] at hoc
    rcases hoc with rfl | ((hoc | hoc) | hoc) | hoc
    · exact Or.inl rfl
    · right
      rcases h1 _ _ _ _ oc hoc with h | ⟨poc, hp, hc⟩
      · exact ⟨_, List.mem_cons_self, Or.inl h⟩
      · exact ⟨poc, by simp only [List.mem_cons, List.mem_append]; exact Or.inr (Or.inl (Or.inl (Or.inl hp))), hc⟩
    · right
      rcases h2 _ _ _ _ oc hoc with h | ⟨poc, hp, hc⟩
      · exact ⟨_, List.mem_cons_self, Or.inr (Or.inl h)⟩
      · exact ⟨poc, by simp only [List.mem_cons, List.mem_append]; exact Or.inr (Or.inl (Or.inl (Or.inr hp))), hc⟩
    · right
      rcases h3 _ _ _ _ oc hoc with h | ⟨poc, hp, hc⟩
      · exact ⟨_, List.mem_cons_self, Or.inr (Or.inr (Or.inl h))⟩
      · exact ⟨poc, by simp only [List.mem_cons, List.mem_append]; exact Or.inr (Or.inl (Or.inr hp)), hc⟩
    · right
      rcases h4 _ _ _ _ oc hoc with h | ⟨poc, hp, hc⟩
      · exact ⟨_, List.mem_cons_self, Or.inr (Or.inr (Or.inr h))⟩
      · exact ⟨poc, by simp only [List.mem_cons, List.mem_append]; exact Or.inr (Or.inr hp), hc⟩
  have hnil : ∀ s par rk pv, ∀ oc ∈ occsL s par rk pv [],
      (∃ j t, ([] : List Tree)[j]? = some t ∧ oc = sibRecAt s par rk pv [] j t) ∨ ∃ poc ∈ occsL s par rk pv [], IsChild poc oc := by
    intro s par rk pv oc h; rw [occsL] at h; simp at h
  have hcons : ∀ t ts,
      (∀ s par rk pv nx, ∀ oc ∈ occsT s par rk pv nx t,
        oc = ⟨s, par, rk, pv, nx, t⟩ ∨ ∃ poc ∈ occsT s par rk pv nx t, IsChild poc oc) →
      (∀ s par rk pv, ∀ oc ∈ occsL s par rk pv ts,
        (∃ j t', ts[j]? = some t' ∧ oc = sibRecAt s par rk pv ts j t') ∨ ∃ poc ∈ occsL s par rk pv ts, IsChild poc oc) →
      (∀ s par rk pv, ∀ oc ∈ occsL s par rk pv (t :: ts),
        (∃ j t', (t :: ts)[j]? = some t' ∧ oc = sibRecAt s par rk pv (t :: ts) j t') ∨
        ∃ poc ∈ occsL s par rk pv (t :: ts), IsChild poc oc) := by
    intro t ts h1 h2 s par rk pv oc hoc
    rw [occsL] at hoc ⊢
    rcases List.mem_append.1 hoc with h | h
    · rcases h1 _ _ _ _ _ oc h with e | ⟨poc, hp, hc⟩
      · left
        refine ⟨0, t, rfl, ?_⟩
        rw [sibRecAt_zero, e]; rfl
      · exact Or.inr ⟨poc, List.mem_append_left _ hp, hc⟩
    · rcases h2 _ _ _ _ oc h with ⟨j, t', hj, e⟩ | ⟨poc, hp, hc⟩
      · left
        exact ⟨j + 1, t', by simpa using hj, by rw [sibRecAt_succ]; exact e⟩
      · exact Or.inr ⟨poc, List.mem_append_right _ hp, hc⟩
  exact ⟨tree_ind4T hnode hnil hcons, tree_ind4L hnode hnil hcons⟩

theorem occs_root_or_child (t : Tree) (oc : Occ) (h : oc ∈ occs t) :
    oc = ⟨0, -1, 0, -1, -1, t⟩ ∨ ∃ poc ∈ occs t, IsChild poc oc :=
  occs_up.1 t 0 (-1) 0 (-1) (-1) oc h

/-! ### typing of occurrences -/

theorem typedL_mem (k : Nat → Bool) (l : List Tree) (h : typedL k l = true) (t : Tree) (ht : t ∈ l) :
    k t.obj.type = true ∧ typedT t = true := by
  obtain ⟨j, hj⟩ := List.getElem?_of_mem ht
  exact typedL_get k l h j t hj

theorem occs_typed :
    (∀ t, typedT t = true → ∀ s par rk pv nx, ∀ oc ∈ occsT s par rk pv nx t, typedT oc.t = true) ∧
    (∀ l, (∀ t ∈ l, typedT t = true) → ∀ s par rk pv, ∀ oc ∈ occsL s par rk pv l, typedT oc.t = true) := by
  have hnode : ∀ o ns ms ios mis,
      ((∀ t ∈ ns, typedT t = true) → ∀ s par rk pv, ∀ oc ∈ occsL s par rk pv ns, typedT oc.t = true) →
      ((∀ t ∈ ms, typedT t = true) → ∀ s par rk pv, ∀ oc ∈ occsL s par rk pv ms, typedT oc.t = true) →
      ((∀ t ∈ ios, typedT t = true) → ∀ s par rk pv, ∀ oc ∈ occsL s par rk pv ios, typedT oc.t = true) →
      ((∀ t ∈ mis, typedT t = true) → ∀ s par rk pv, ∀ oc ∈ occsL s par rk pv mis, typedT oc.t = true) →
      (typedT (.node o ns ms ios mis) = true → ∀ s par rk pv nx, ∀ oc ∈ occsT s par rk pv nx (.node o ns ms ios mis),
        typedT oc.t = true) := by
    intro o ns ms ios mis h1 h2 h3 h4 ht s par rk pv nx oc hoc
    have ht' := ht
    rw [typedT] at ht'
    simp only [Bool.and_eq_true] at ht'
    obtain ⟨⟨⟨⟨_, t1⟩, t2⟩, t3⟩, t4⟩ := ht'
    rw [occsT] at hoc
    simp only [List.mem_cons, List.mem_append] at hoc
    rcases hoc with rfl | ((hoc | hoc) | hoc) | hoc
    · exact ht
    · exact h1 (fun t h => (typedL_mem _ _ t1 t h).2) _ _ _ _ oc hoc
    · exact h2 (fun t h => (typedL_mem _ _ t2 t h).2) _ _ _ _ oc hoc
    · exact h3 (fun t h => (typedL_mem _ _ t3 t h).2) _ _ _ _ oc hoc
    · exact h4 (fun t h => (typedL_mem _ _ t4 t h).2) _ _ _ _ oc hoc
  have hnil : (∀ t ∈ ([] : List Tree), typedT t = true) → ∀ s par rk pv, ∀ oc ∈ occsL s par rk pv [], typedT oc.t = true := by
    intro _ s par rk pv oc h; rw [occsL] at h; simp at h
  have hcons : ∀ t ts, (typedT t = true → ∀ s par rk pv nx, ∀ oc ∈ occsT s par rk pv nx t, typedT oc.t = true) →
      ((∀ t ∈ ts, typedT t = true) → ∀ s par rk pv, ∀ oc ∈ occsL s par rk pv ts, typedT oc.t = true) →
      ((∀ t' ∈ t :: ts, typedT t' = true) → ∀ s par rk pv, ∀ oc ∈ occsL s par rk pv (t :: ts), typedT oc.t = true) := by
    intro t ts h1 h2 hall s par rk pv oc hoc
    rw [occsL] at hoc
    rcases List.mem_append.1 hoc with h | h
    · exact h1 (hall t List.mem_cons_self) _ _ _ _ _ oc h
    · exact h2 (fun t' ht' => hall t' (List.mem_cons_of_mem _ ht')) _ _ _ _ oc h
  exact ⟨tree_ind4T hnode hnil hcons, tree_ind4L hnode hnil hcons⟩

/-! ### projections of a rendered object -/

section proj
variable (nl : List (Nat × List Nat)) (os : List Occ) (ex : RObj → Extra) (oc : Occ)
theorem ro_id : (renderObj nl os ex oc).id = oc.id := by cases oc with | mk a b c d e t => cases t; rfl
theorem ro_type : (renderObj nl os ex oc).type = oc.t.obj.type := by cases oc with | mk a b c d e t => cases t; rfl
theorem ro_parent : (renderObj nl os ex oc).parent = oc.parent := by cases oc with | mk a b c d e t => cases t; rfl
theorem ro_rank : (renderObj nl os ex oc).rank = oc.rank := by cases oc with | mk a b c d e t => cases t; rfl
theorem ro_prev : (renderObj nl os ex oc).prevSib = oc.prev := by cases oc with | mk a b c d e t => cases t; rfl
theorem ro_next : (renderObj nl os ex oc).nextSib = oc.next := by cases oc with | mk a b c d e t => cases t; rfl
theorem ro_arity : (renderObj nl os ex oc).arity = oc.t.ns.length := by cases oc with | mk a b c d e t => cases t; rfl
theorem ro_marity : (renderObj nl os ex oc).marity = oc.t.ms.length := by cases oc with | mk a b c d e t => cases t; rfl
theorem ro_ioarity : (renderObj nl os ex oc).ioarity = oc.t.ios.length := by cases oc with | mk a b c d e t => cases t; rfl
theorem ro_miscarity : (renderObj nl os ex oc).miscarity = oc.t.mis.length := by cases oc with | mk a b c d e t => cases t; rfl
theorem ro_children : (renderObj nl os ex oc).children = startsL (oc.id + 1) oc.t.ns := by
  cases oc with | mk a b c d e t => cases t; rfl
theorem ro_firstChild : (renderObj nl os ex oc).firstChild = ((startsL (oc.id + 1) oc.t.ns).head?).getD (-1) := by
  cases oc with | mk a b c d e t => cases t; rfl
theorem ro_lastChild : (renderObj nl os ex oc).lastChild = ((startsL (oc.id + 1) oc.t.ns).getLast?).getD (-1) := by
  cases oc with | mk a b c d e t => cases t; rfl
theorem ro_memFirst : (renderObj nl os ex oc).memFirst = if oc.t.ms.isEmpty then -1 else ((oc.id + 1 + sizeL oc.t.ns : Nat) : Int) := by
  cases oc with | mk a b c d e t => cases t; rfl
theorem ro_ioFirst : (renderObj nl os ex oc).ioFirst =
    if oc.t.ios.isEmpty then -1 else ((oc.id + 1 + sizeL oc.t.ns + sizeL oc.t.ms : Nat) : Int) := by
  cases oc with | mk a b c d e t => cases t; rfl
theorem ro_miscFirst : (renderObj nl os ex oc).miscFirst =
    if oc.t.mis.isEmpty then -1 else ((oc.id + 1 + sizeL oc.t.ns + sizeL oc.t.ms + sizeL oc.t.ios : Nat) : Int) := by
  cases oc with | mk a b c d e t => cases t; rfl
end proj

theorem childrenOK_iff (G : List Occ) (oc : Occ) : ChildrenOK G oc ↔
    (SibsOK G (oc.id + 1) oc.id 0 (-1) oc.t.ns ∧ SibsOK G (oc.id + 1 + sizeL oc.t.ns) oc.id 0 (-1) oc.t.ms ∧
     SibsOK G (oc.id + 1 + sizeL oc.t.ns + sizeL oc.t.ms) oc.id 0 (-1) oc.t.ios ∧
     SibsOK G (oc.id + 1 + sizeL oc.t.ns + sizeL oc.t.ms + sizeL oc.t.ios) oc.id 0 (-1) oc.t.mis) := by
  cases oc with | mk a b c d e t => cases t; exact Iff.rfl

/-! ### lookups in the rendered dump -/

section glue
variable (t : Tree) (h : Hdr) (ex : RObj → Extra)

/-- the rendering of one occurrence of `t` -/
def rObj (oc : Occ) : Obj := renderObj (normalLevels t) (occs t) ex oc

theorem render_objs : (render t h ex).objs = (occs t).map (rObj t ex) := rfl

theorem render_get (k : Nat) : (render t h ex).objs[k]? = ((occs t)[k]?).map (rObj t ex) := by
  rw [render_objs, List.getElem?_map]

theorem render_obj?_nat (k : Nat) : (render t h ex).obj? (k : Int) = ((occs t)[k]?).map (rObj t ex) := by
  unfold Dump.obj?
  rw [if_neg (by omega), Int.toNat_natCast, render_get]

theorem render_obj?_neg (i : Int) (hi : i < 0) : (render t h ex).obj? i = none := by
  unfold Dump.obj?; rw [if_pos hi]

theorem render_mem (o : Obj) (ho : o ∈ (render t h ex).objs) : ∃ oc ∈ occs t, o = rObj t ex oc := by
  rw [render_objs, List.mem_map] at ho
  obtain ⟨oc, h1, h2⟩ := ho
  exact ⟨oc, h1, h2.symm⟩

theorem occs_get_of_mem (oc : Occ) (hoc : oc ∈ occs t) : (occs t)[oc.id]? = some oc := by
  obtain ⟨k, hk⟩ := List.getElem?_of_mem hoc
  rw [occs_id t k oc hk]; exact hk

end glue

/-! ### clause equations -/

theorem clause_id_is_position : objClause "id-is-position" = fun d _ o => (d.objs[o.id]?).map (·.id) == some o.id := by
  simp only [objClause, objClauses, List.find?, String.reduceBEq]

theorem render_id_is_position (t : Tree) (h : Hdr) (ex : RObj → Extra) (o : Obj) (ho : o ∈ (render t h ex).objs) :
    objClause "id-is-position" (render t h ex) (mkAux (render t h ex)) o = true := by
  rw [clause_id_is_position]
  obtain ⟨oc, hoc, rfl⟩ := render_mem t h ex o ho
  simp only [rObj, ro_id]
  rw [render_get, occs_get_of_mem t oc hoc]
  simp [rObj, ro_id]

theorem typedT_lists (t : Tree) (h : typedT t = true) :
    typedL isNormal t.ns = true ∧ typedL isMemory t.ms = true ∧ typedL isIO t.ios = true ∧ typedL isMisc t.mis = true := by
  cases t with
  | node o ns ms ios mis =>
    rw [typedT] at h
    simp only [Bool.and_eq_true] at h
    exact ⟨h.1.1.1.2, h.1.1.2, h.1.2, h.2⟩

/-- the rendered record of the `j`-th child of a list of `oc` -/
theorem child_lookup (t : Tree) (h : Hdr) (ex : RObj → Extra) (s : Nat) (par : Int) (l : List Tree)
    (hs : SibsOK (occs t) s par 0 (-1) l) (j : Nat) (c : Tree) (hj : l[j]? = some c) :
    (render t h ex).obj? ((startN s l j : Nat) : Int) = some (rObj t ex (sibRecAt s par 0 (-1) l j c)) := by
  rw [render_obj?_nat, sibs_get (occs t) l s par 0 (-1) hs j c hj]; rfl

theorem clause_children_array : objClause "children-array" = fun d _ o => o.children.length == o.arity &&
      o.firstChild == (o.children.head?).getD (-1) && o.lastChild == (o.children.getLast?).getD (-1) &&
      (List.range o.arity).all (fun i => match d.obj? ((o.children[i]?).getD (-2)) with
        | none => false
        | some c => c.parent == (o.id : Int) && c.rank == i && isNormal c.type &&
                    c.prevSib == (if i = 0 then -1 else (o.children[i-1]?).getD (-2)) &&
                    c.nextSib == (o.children[i+1]?).getD (-1)) := by
  simp only [objClause, objClauses, List.find?, String.reduceBEq]
  rfl

theorem render_children_array (t : Tree) (ht : typedT t = true) (h : Hdr) (ex : RObj → Extra) (o : Obj)
    (ho : o ∈ (render t h ex).objs) :
    objClause "children-array" (render t h ex) (mkAux (render t h ex)) o = true := by
  rw [clause_children_array]
  obtain ⟨oc, hoc, rfl⟩ := render_mem t h ex o ho
  have hck := (childrenOK_iff _ _).1 (occs_childrenOK t oc hoc)
  have htyp := typedT_lists oc.t (occs_typed.1 t ht 0 (-1) 0 (-1) (-1) oc hoc)
  simp only [rObj, ro_children, ro_arity, ro_firstChild, ro_lastChild, ro_id, startsL_length, beq_self_eq_true, Bool.true_and,
    List.all_eq_true, List.mem_range]
  intro i hi
  obtain ⟨c, hc⟩ : ∃ c, oc.t.ns[i]? = some c := ⟨oc.t.ns[i], by simp [hi]⟩
  rw [startsL_get _ _ i hi]
  simp only [Option.getD_some]
  have hl := child_lookup t h ex (oc.id + 1) oc.id oc.t.ns hck.1 i c hc
  simp only [rObj] at hl
  rw [hl]
  simp only [ro_parent, ro_rank, ro_type, ro_prev, ro_next, sibRecAt, Nat.zero_add, beq_self_eq_true, Bool.true_and,
    (typedL_get isNormal _ htyp.1 i c hc).1]
  simp only [Bool.and_eq_true, beq_iff_eq]
  constructor
  · by_cases h0 : i = 0
    · simp [h0]
    · rw [if_neg h0, if_neg h0, startsL_get _ _ (i - 1) (by omega)]; rfl
  · by_cases h1 : i + 1 < oc.t.ns.length
    · rw [if_pos h1, startsL_get _ _ (i + 1) h1]; rfl
    · rw [if_neg h1, startsL_get_none _ _ (i + 1) (by omega)]; rfl

theorem clause_special_list_heads : objClause "special-list-heads" = fun d _ o =>
      let chk (first : Int) (ar : Nat) (kind : Nat → Bool) : Bool :=
        if ar == 0 then first == -1 else match d.obj? first with
          | none => false
          | some c => c.parent == (o.id : Int) && c.rank == 0 && kind c.type && c.prevSib == -1
      chk o.memFirst o.marity isMemory && chk o.ioFirst o.ioarity isIO && chk o.miscFirst o.miscarity isMisc := by
  simp only [objClause, objClauses, List.find?, String.reduceBEq]
  rfl

theorem head_chk (t : Tree) (h : Hdr) (ex : RObj → Extra) (id : Nat) (s : Nat) (l : List Tree) (k : Nat → Bool)
    (hs : SibsOK (occs t) s id 0 (-1) l) (hk : typedL k l = true) :
    (if (l.length == 0) = true then (if l.isEmpty then (-1 : Int) else ((s : Nat) : Int)) == -1
     else match (render t h ex).obj? (if l.isEmpty then (-1 : Int) else ((s : Nat) : Int)) with
       | none => false
       | some c => c.parent == (id : Int) && c.rank == 0 && k c.type && c.prevSib == -1) = true := by
  cases l with
  | nil => simp
  | cons c cs =>
    have hl := child_lookup t h ex s id (c :: cs) hs 0 c rfl
    rw [startN_zero] at hl
    simp only [List.length_cons, List.isEmpty_cons, Bool.false_eq_true, if_false, Nat.add_eq_zero_iff, Nat.succ_ne_zero,
      and_false, beq_iff_eq]
    rw [hl]
    simp only [rObj, ro_parent, ro_rank, ro_type, ro_prev, sibRecAt, Nat.add_zero, if_true, beq_self_eq_true, Bool.true_and,
      Bool.and_true, (typedL_get k _ hk 0 c rfl).1]

theorem render_special_list_heads (t : Tree) (ht : typedT t = true) (h : Hdr) (ex : RObj → Extra) (o : Obj)
    (ho : o ∈ (render t h ex).objs) :
    objClause "special-list-heads" (render t h ex) (mkAux (render t h ex)) o = true := by
  rw [clause_special_list_heads]
  obtain ⟨oc, hoc, rfl⟩ := render_mem t h ex o ho
  have hck := (childrenOK_iff _ _).1 (occs_childrenOK t oc hoc)
  have htyp := typedT_lists oc.t (occs_typed.1 t ht 0 (-1) 0 (-1) (-1) oc hoc)
  simp only [rObj, ro_memFirst, ro_ioFirst, ro_miscFirst, ro_marity, ro_ioarity, ro_miscarity, ro_id, Bool.and_eq_true]
  exact ⟨⟨head_chk t h ex oc.id _ oc.t.ms isMemory hck.2.1 htyp.2.1, head_chk t h ex oc.id _ oc.t.ios isIO hck.2.2.1 htyp.2.2.1⟩,
    head_chk t h ex oc.id _ oc.t.mis isMisc hck.2.2.2 htyp.2.2.2⟩

/-! ### the four children lists, uniformly -/

def kids (q : Nat) (t : Tree) : List Tree := match q with | 0 => t.ns | 1 => t.ms | 2 => t.ios | _ => t.mis
def kstart (q : Nat) (poc : Occ) : Nat :=
  match q with
  | 0 => poc.id + 1
  | 1 => poc.id + 1 + sizeL poc.t.ns
  | 2 => poc.id + 1 + sizeL poc.t.ns + sizeL poc.t.ms
  | _ => poc.id + 1 + sizeL poc.t.ns + sizeL poc.t.ms + sizeL poc.t.ios
def kkind (q : Nat) : Nat → Bool := match q with | 0 => isNormal | 1 => isMemory | 2 => isIO | _ => isMisc

theorem kstart_gt (q : Nat) (poc : Occ) : poc.id < kstart q poc := by
  unfold kstart; split <;> omega

theorem isChild_iff (poc oc : Occ) : IsChild poc oc ↔
    ∃ q, q < 4 ∧ ∃ j c, (kids q poc.t)[j]? = some c ∧ oc = sibRecAt (kstart q poc) poc.id 0 (-1) (kids q poc.t) j c := by
  cases poc with | mk a b c d e t => cases t with | node o ns ms ios mis =>
  constructor
  · intro h
    rcases h with h | h | h | h
    · exact ⟨0, by omega, h⟩
    · exact ⟨1, by omega, h⟩
    · exact ⟨2, by omega, h⟩
    · exact ⟨3, by omega, h⟩
  · rintro ⟨q, hq, h⟩
    match q, hq, h with
    | 0, _, h => exact Or.inl h
    | 1, _, h => exact Or.inr (Or.inl h)
    | 2, _, h => exact Or.inr (Or.inr (Or.inl h))
    | 3, _, h => exact Or.inr (Or.inr (Or.inr h))

/-- every occurrence is the root record or the `j`-th entry of one of the four lists of an occurrence, whose sibling records
    are all in place and whose entries have the kind of the list -/
theorem up_cases (t : Tree) (ht : typedT t = true) (oc : Occ) (hoc : oc ∈ occs t) :
    oc = ⟨0, -1, 0, -1, -1, t⟩ ∨
    ∃ poc ∈ occs t, ∃ q, q < 4 ∧ ∃ j c, (kids q poc.t)[j]? = some c ∧
      oc = sibRecAt (kstart q poc) poc.id 0 (-1) (kids q poc.t) j c ∧
      SibsOK (occs t) (kstart q poc) poc.id 0 (-1) (kids q poc.t) ∧ typedL (kkind q) (kids q poc.t) = true := by
  rcases occs_root_or_child t oc hoc with h | ⟨poc, hp, hc⟩
  · exact Or.inl h
  · right
    obtain ⟨q, hq, j, c, hj, e⟩ := (isChild_iff poc oc).1 hc
    have hck := (childrenOK_iff _ _).1 (occs_childrenOK t poc hp)
    have htyp := typedT_lists poc.t (occs_typed.1 t ht 0 (-1) 0 (-1) (-1) poc hp)
    refine ⟨poc, hp, q, hq, j, c, hj, e, ?_, ?_⟩
    · match q, hq with
      | 0, _ => exact hck.1
      | 1, _ => exact hck.2.1
      | 2, _ => exact hck.2.2.1
      | 3, _ => exact hck.2.2.2
    · match q, hq with
      | 0, _ => exact htyp.1
      | 1, _ => exact htyp.2.1
      | 2, _ => exact htyp.2.2.1
      | 3, _ => exact htyp.2.2.2

theorem startN_mono (s : Nat) (l : List Tree) (j : Nat) : s ≤ startN s l j := by unfold startN; omega

theorem startN_lt (s : Nat) (l : List Tree) (j : Nat) (hj : j + 1 ≤ l.length) : startN s l j < startN s l (j + 1) := by
  induction l generalizing s j with
  | nil => simp at hj
  | cons a as ih =>
    cases j with
    | zero => rw [startN_zero, startN_cons_succ, startN_zero]; have := sizeT_pos a; omega
    | succ j => rw [startN_cons_succ, startN_cons_succ]; exact ih _ j (by simpa using hj)

theorem startN_pos_of_pos (s : Nat) (l : List Tree) (j : Nat) (hj : 0 < j) (hl : j ≤ l.length) : s < startN s l j := by
  cases j with
  | zero => omega
  | succ j => exact Nat.lt_of_le_of_lt (startN_mono s l j) (startN_lt s l j hl)

/-! ### root-or-parent -/

theorem clause_root_or_parent : objClause "root-or-parent" = fun d _ o =>
    if o.id == 0 then o.parent == -1 else decide (0 ≤ o.parent) && idOk d o.parent && o.parent != (o.id : Int) := by
  simp only [objClause, objClauses, List.find?, String.reduceBEq]

theorem render_root_or_parent (t : Tree) (ht : typedT t = true) (h : Hdr) (ex : RObj → Extra) (o : Obj)
    (ho : o ∈ (render t h ex).objs) :
    objClause "root-or-parent" (render t h ex) (mkAux (render t h ex)) o = true := by
  rw [clause_root_or_parent]
  obtain ⟨oc, hoc, rfl⟩ := render_mem t h ex o ho
  simp only [rObj, ro_id, ro_parent]
  rcases up_cases t ht oc hoc with rfl | ⟨poc, hp, q, _, j, c, hj, rfl, _, _⟩
  · simp
  · have hlen : j < (kids q poc.t).length := by
      rcases Nat.lt_or_ge j (kids q poc.t).length with h | h
      · exact h
      · rw [List.getElem?_eq_none_iff.2 h] at hj; exact absurd hj (by simp)
    have h1 := kstart_gt q poc
    have h2 := startN_mono (kstart q poc) (kids q poc.t) j
    have h3 : poc.id < (render t h ex).objs.length := by
      rw [render_objs, List.length_map]
      have := occs_get_of_mem t poc hp
      exact (List.getElem?_eq_some_iff.1 this).1
    simp only [sibRecAt]
    have hne : (startN (kstart q poc) (kids q poc.t) j == 0) = false := by simp; omega
    simp only [hne, Bool.false_eq_true, ↓reduceIte]
    simp only [idOk, Bool.and_eq_true, decide_eq_true_eq, bne_iff_ne, ne_eq, Bool.or_eq_true, beq_iff_eq]
    refine ⟨⟨by simp, Or.inr ⟨by omega, by rw [Int.toNat_natCast]; exact h3⟩⟩, by omega⟩

/-- the typing facts of one node, as arithmetic -/
theorem typedT_facts (t : Tree) (h : typedT t = true) :
    (t.obj.type ≤ 13 ∨ t.ns.length = 0) ∧ (t.obj.type ≤ 13 ∨ t.obj.type = 15 ∨ t.ms.length = 0) ∧
    (t.obj.type ≤ 13 ∨ (16 ≤ t.obj.type ∧ t.obj.type ≤ 18) ∨ t.ios.length = 0) ∧
    True ∧ t.obj.type < 20 := by
  cases t with
  | node o ns ms ios mis =>
    rw [typedT] at h
    simp only [Bool.and_eq_true, Bool.or_eq_true, decide_eq_true_eq, List.isEmpty_iff, isNormal, isIO, tGROUP, tMEMCACHE, tBRIDGE,
      tPCI, tOSDEV, tPU, tMAX, beq_iff_eq, bne_iff_ne, ne_eq] at h
    simp only [Tree.obj, Tree.ns, Tree.ms, Tree.ios, List.length_eq_zero_iff]
    obtain ⟨⟨⟨⟨⟨⟨⟨a, b⟩, c⟩, e⟩, _⟩, _⟩, _⟩, _⟩ := h
    refine ⟨a.imp of_decide_eq_true id, ?_, ?_, trivial, of_decide_eq_true e⟩
    · rcases b with (b | b) | b
      · exact Or.inl (of_decide_eq_true b)
      · exact Or.inr (Or.inl b)
      · exact Or.inr (Or.inr b)
    · rcases c with (c | c) | c
      · exact Or.inl (of_decide_eq_true c)
      · right; left; rcases c with (c | c) | c <;> omega
      · exact Or.inr (Or.inr c)

theorem kkind_arith (q : Nat) (hq : q < 4) (ty : Nat) (h : kkind q ty = true) :
    (q = 0 ∧ ty ≤ 13) ∨ (q = 1 ∧ (ty = 14 ∨ ty = 15)) ∨ (q = 2 ∧ 16 ≤ ty ∧ ty ≤ 18) ∨ (q = 3 ∧ ty = 19) := by
  match q, hq with
  | 0, _ =>
    left
    have h' : decide (ty ≤ 13) = true := h
    exact ⟨rfl, of_decide_eq_true h'⟩
  | 1, _ => right; left; simpa [kkind, isMemory, tNUMA, tMEMCACHE] using h
  | 2, _ =>
    right; right; left
    simp [kkind, isIO, tBRIDGE, tPCI, tOSDEV] at h
    refine ⟨rfl, ?_⟩; omega
  | 3, _ => right; right; right; simpa [kkind, isMisc, tMISC] using h

/-! ### no-children-where-forbidden -/

theorem clause_no_children : objClause "no-children-where-forbidden" = fun _ _ o =>
      (if o.type == tPU then o.arity == 0 && o.marity == 0 else true) &&
      (if o.type == tNUMA then o.arity == 0 && o.marity == 0 else true) &&
      (if isMemory o.type then o.arity == 0 && o.ioarity == 0 else true) &&
      (if isIO o.type then o.arity == 0 && o.marity == 0 else true) &&
      (if isMisc o.type then o.arity == 0 && o.marity == 0 && o.ioarity == 0 else true) := by
  simp only [objClause, objClauses, List.find?, String.reduceBEq]

/-- every occurrence of a tree whose PUs are leaves is a leaf if it is a PU -/
theorem occs_puLeaf :
    (∀ t, puLeafT t = true → ∀ s par rk pv nx, ∀ oc ∈ occsT s par rk pv nx t,
        oc.t.obj.type ≠ 4 ∨ (oc.t.ns.length = 0 ∧ oc.t.ms.length = 0)) ∧
    (∀ l, puLeafL l = true → ∀ s par rk pv, ∀ oc ∈ occsL s par rk pv l,
        oc.t.obj.type ≠ 4 ∨ (oc.t.ns.length = 0 ∧ oc.t.ms.length = 0)) := by
  have hnode : ∀ o ns ms ios mis,
      (puLeafL ns = true → ∀ s par rk pv, ∀ oc ∈ occsL s par rk pv ns, oc.t.obj.type ≠ 4 ∨ (oc.t.ns.length = 0 ∧ oc.t.ms.length = 0)) →
      (puLeafL ms = true → ∀ s par rk pv, ∀ oc ∈ occsL s par rk pv ms, oc.t.obj.type ≠ 4 ∨ (oc.t.ns.length = 0 ∧ oc.t.ms.length = 0)) →
      (puLeafL ios = true → ∀ s par rk pv, ∀ oc ∈ occsL s par rk pv ios, oc.t.obj.type ≠ 4 ∨ (oc.t.ns.length = 0 ∧ oc.t.ms.length = 0)) →
      (puLeafL mis = true → ∀ s par rk pv, ∀ oc ∈ occsL s par rk pv mis, oc.t.obj.type ≠ 4 ∨ (oc.t.ns.length = 0 ∧ oc.t.ms.length = 0)) →
      (puLeafT (.node o ns ms ios mis) = true → ∀ s par rk pv nx, ∀ oc ∈ occsT s par rk pv nx (.node o ns ms ios mis),
        oc.t.obj.type ≠ 4 ∨ (oc.t.ns.length = 0 ∧ oc.t.ms.length = 0)) := by
    intro o ns ms ios mis h1 h2 h3 h4 ht s par rk pv nx oc hoc
    rw [puLeafT] at ht
    simp only [Bool.and_eq_true, Bool.or_eq_true, bne_iff_ne, ne_eq, List.isEmpty_iff, tPU] at ht
    obtain ⟨⟨⟨⟨h0, p1⟩, p2⟩, p3⟩, p4⟩ := ht
    rw [occsT] at hoc
    simp only [List.mem_cons, List.mem_append] at hoc
    rcases hoc with rfl | ((hoc | hoc) | hoc) | hoc
    · simp only [Tree.obj, Tree.ns, Tree.ms, List.length_eq_zero_iff]
      rcases h0 with h0 | h0
      · exact Or.inl h0
      · exact Or.inr h0
    · exact h1 p1 _ _ _ _ oc hoc
    · exact h2 p2 _ _ _ _ oc hoc
    · exact h3 p3 _ _ _ _ oc hoc
    · exact h4 p4 _ _ _ _ oc hoc
  have hnil : puLeafL [] = true → ∀ s par rk pv, ∀ oc ∈ occsL s par rk pv [],
      oc.t.obj.type ≠ 4 ∨ (oc.t.ns.length = 0 ∧ oc.t.ms.length = 0) := by
    intro _ s par rk pv oc h; rw [occsL] at h; simp at h
  have hcons : ∀ t ts,
      (puLeafT t = true → ∀ s par rk pv nx, ∀ oc ∈ occsT s par rk pv nx t, oc.t.obj.type ≠ 4 ∨ (oc.t.ns.length = 0 ∧ oc.t.ms.length = 0)) →
      (puLeafL ts = true → ∀ s par rk pv, ∀ oc ∈ occsL s par rk pv ts, oc.t.obj.type ≠ 4 ∨ (oc.t.ns.length = 0 ∧ oc.t.ms.length = 0)) →
      (puLeafL (t :: ts) = true → ∀ s par rk pv, ∀ oc ∈ occsL s par rk pv (t :: ts),
        oc.t.obj.type ≠ 4 ∨ (oc.t.ns.length = 0 ∧ oc.t.ms.length = 0)) := by
    intro t ts h1 h2 hall s par rk pv oc hoc
    rw [puLeafL, Bool.and_eq_true] at hall
    rw [occsL] at hoc
    rcases List.mem_append.1 hoc with h | h
    · exact h1 hall.1 _ _ _ _ _ oc h
    · exact h2 hall.2 _ _ _ _ oc h
  exact ⟨tree_ind4T hnode hnil hcons, tree_ind4L hnode hnil hcons⟩

theorem render_no_children_where_forbidden (t : Tree) (ht : typedT t = true) (hpu : puLeafT t = true) (h : Hdr) (ex : RObj → Extra)
    (o : Obj) (ho : o ∈ (render t h ex).objs) :
    objClause "no-children-where-forbidden" (render t h ex) (mkAux (render t h ex)) o = true := by
  rw [clause_no_children]
  obtain ⟨oc, hoc, rfl⟩ := render_mem t h ex o ho
  have hf := typedT_facts oc.t (occs_typed.1 t ht 0 (-1) 0 (-1) (-1) oc hoc)
  have hd := occs_puLeaf.1 t hpu 0 (-1) 0 (-1) (-1) oc hoc
  simp only [rObj, ro_type, ro_arity, ro_marity, ro_ioarity]
  generalize oc.t.obj.type = ty at hf hd ⊢
  generalize oc.t.ns.length = a at hf hd ⊢
  generalize oc.t.ms.length = b at hf hd ⊢
  generalize oc.t.ios.length = c at hf ⊢
  simp only [isMemory, isIO, isMisc, tPU, tNUMA, tMEMCACHE, tBRIDGE, tPCI, tOSDEV, tMISC, Bool.and_eq_true, Bool.or_eq_true,
    beq_iff_eq]
  refine ⟨⟨⟨⟨?_, ?_⟩, ?_⟩, ?_⟩, ?_⟩ <;> split <;> simp only [Bool.and_eq_true, beq_iff_eq] <;> omega

theorem getElem?_lt {α : Type} {l : List α} {j : Nat} {c : α} (h : l[j]? = some c) : j < l.length := by
  rcases Nat.lt_or_ge j l.length with h' | h'
  · exact h'
  · rw [List.getElem?_eq_none_iff.2 h'] at h; exact absurd h (by simp)

theorem isNormal_iff (ty : Nat) : isNormal ty = true ↔ ty ≤ 13 := by
  unfold isNormal tGROUP; exact decide_eq_true_iff
theorem isNormal_false_iff (ty : Nat) : isNormal ty = false ↔ 13 < ty := by
  unfold isNormal tGROUP; rw [decide_eq_false_iff_not]; omega
theorem isMemory_iff (ty : Nat) : isMemory ty = true ↔ (ty = 14 ∨ ty = 15) := by simp [isMemory, tNUMA, tMEMCACHE]
theorem isMemory_false_iff (ty : Nat) : isMemory ty = false ↔ (ty ≠ 14 ∧ ty ≠ 15) := by simp [isMemory, tNUMA, tMEMCACHE]
theorem isIO_iff (ty : Nat) : isIO ty = true ↔ (16 ≤ ty ∧ ty ≤ 18) := by simp [isIO, tBRIDGE, tPCI, tOSDEV]; omega
theorem isIO_false_iff (ty : Nat) : isIO ty = false ↔ (ty < 16 ∨ 18 < ty) := by simp [isIO, tBRIDGE, tPCI, tOSDEV]; omega
theorem isMisc_iff (ty : Nat) : isMisc ty = true ↔ ty = 19 := by simp [isMisc, tMISC]

theorem kids_length (q : Nat) (hq : q < 4) (t : Tree) :
    (kids q t).length = (match q with | 0 => t.ns.length | 1 => t.ms.length | 2 => t.ios.length | _ => t.mis.length) := by
  match q, hq with
  | 0, _ => rfl
  | 1, _ => rfl
  | 2, _ => rfl
  | 3, _ => rfl

/-- lookup of the parent of a listed child -/
theorem parent_lookup (t : Tree) (h : Hdr) (ex : RObj → Extra) (poc : Occ) (hp : poc ∈ occs t) :
    (render t h ex).obj? (poc.id : Int) = some (rObj t ex poc) := by
  rw [render_obj?_nat, occs_get_of_mem t poc hp]; rfl

/-! ### parent-kind -/

theorem clause_parent_kind : objClause "parent-kind" = fun d _ o => match d.obj? o.parent with
      | none => o.id == 0
      | some p =>
        if isNormal o.type then isNormal p.type
        else if isMemory o.type then (isNormal p.type || p.type == tMEMCACHE)
        else if isIO o.type then (isNormal p.type || isIO p.type)
        else true := by
  simp only [objClause, objClauses, List.find?, String.reduceBEq]
  rfl

theorem render_parent_kind (t : Tree) (ht : typedT t = true) (h : Hdr) (ex : RObj → Extra) (o : Obj)
    (ho : o ∈ (render t h ex).objs) :
    objClause "parent-kind" (render t h ex) (mkAux (render t h ex)) o = true := by
  rw [clause_parent_kind]
  obtain ⟨oc, hoc, rfl⟩ := render_mem t h ex o ho
  simp only [rObj, ro_id, ro_parent, ro_type]
  rcases up_cases t ht oc hoc with rfl | ⟨poc, hp, q, hq, j, c, hj, rfl, _, htl⟩
  · rw [render_obj?_neg _ _ _ _ (by show (-1 : Int) < 0; omega)]; simp
  · have hpar : (sibRecAt (kstart q poc) poc.id 0 (-1) (kids q poc.t) j c).parent = poc.id := rfl
    have hty : (sibRecAt (kstart q poc) poc.id 0 (-1) (kids q poc.t) j c).t = c := rfl
    rw [hpar, hty, parent_lookup t h ex poc hp]
    simp only [rObj, ro_type]
    have hf := typedT_facts poc.t (occs_typed.1 t ht 0 (-1) 0 (-1) (-1) poc hp)
    have hk := kkind_arith q hq _ (typedL_get _ _ htl j c hj).1
    have hlen := getElem?_lt hj
    rw [kids_length q hq] at hlen
    generalize poc.t.obj.type = pty at hf ⊢
    generalize c.obj.type = cty at hk ⊢
    rcases hk with ⟨rfl, hk⟩ | ⟨rfl, hk⟩ | ⟨rfl, hk⟩ | ⟨rfl, hk⟩ <;> simp only [] at hlen
    · have hN : isNormal cty = true := (isNormal_iff _).2 (by omega)
      have hP : isNormal pty = true := (isNormal_iff _).2 (by omega)
      simp only [hN, hP, if_true]
    · have hN : isNormal cty = false := (isNormal_false_iff _).2 (by omega)
      have hM : isMemory cty = true := (isMemory_iff _).2 (by omega)
      have hP : (isNormal pty || pty == tMEMCACHE) = true := by
        rw [Bool.or_eq_true, isNormal_iff, beq_iff_eq]; unfold tMEMCACHE; omega
      simp only [hN, hM, hP, if_true, Bool.false_eq_true, if_false]
    · have hN : isNormal cty = false := (isNormal_false_iff _).2 (by omega)
      have hM : isMemory cty = false := (isMemory_false_iff _).2 (by omega)
      have hI : isIO cty = true := (isIO_iff _).2 (by omega)
      have hP : (isNormal pty || isIO pty) = true := by
        rw [Bool.or_eq_true, isNormal_iff, isIO_iff]; omega
      simp only [hN, hM, hI, hP, if_true, Bool.false_eq_true, if_false]
    · have hN : isNormal cty = false := (isNormal_false_iff _).2 (by omega)
      have hM : isMemory cty = false := (isMemory_false_iff _).2 (by omega)
      have hI : isIO cty = false := (isIO_false_iff _).2 (by omega)
      simp only [hN, hM, hI, Bool.false_eq_true, if_false]

/-! ### normal-child-slot -/

theorem clause_normal_child_slot : objClause "normal-child-slot" = fun d _ o => match d.obj? o.parent with
      | none => true
      | some p => if isNormal o.type then (p.children[o.rank]?) == some (o.id : Int) else true := by
  simp only [objClause, objClauses, List.find?, String.reduceBEq]
  rfl

theorem render_normal_child_slot (t : Tree) (ht : typedT t = true) (h : Hdr) (ex : RObj → Extra) (o : Obj)
    (ho : o ∈ (render t h ex).objs) :
    objClause "normal-child-slot" (render t h ex) (mkAux (render t h ex)) o = true := by
  rw [clause_normal_child_slot]
  obtain ⟨oc, hoc, rfl⟩ := render_mem t h ex o ho
  simp only [rObj, ro_id, ro_parent, ro_type, ro_rank]
  rcases up_cases t ht oc hoc with rfl | ⟨poc, hp, q, hq, j, c, hj, rfl, _, htl⟩
  · rw [render_obj?_neg _ _ _ _ (by show (-1 : Int) < 0; omega)]
  · have hpar : (sibRecAt (kstart q poc) poc.id 0 (-1) (kids q poc.t) j c).parent = poc.id := rfl
    have hty : (sibRecAt (kstart q poc) poc.id 0 (-1) (kids q poc.t) j c).t = c := rfl
    have hrk : (sibRecAt (kstart q poc) poc.id 0 (-1) (kids q poc.t) j c).rank = 0 + j := rfl
    have hid : (sibRecAt (kstart q poc) poc.id 0 (-1) (kids q poc.t) j c).id = startN (kstart q poc) (kids q poc.t) j := rfl
    rw [hpar, hty, hrk, hid, parent_lookup t h ex poc hp]
    simp only [rObj, ro_children, Nat.zero_add]
    have hk := kkind_arith q hq _ (typedL_get _ _ htl j c hj).1
    have hlen := getElem?_lt hj
    rcases hk with ⟨rfl, hk⟩ | ⟨rfl, hk⟩ | ⟨rfl, hk⟩ | ⟨rfl, hk⟩
    · have : isNormal c.obj.type = true := (isNormal_iff _).2 (by omega)
      simp only [this, if_true]
      simp only [kids, kstart] at hlen ⊢
      rw [startsL_get _ _ j hlen]; simp
    all_goals
      have : isNormal c.obj.type = false := (isNormal_false_iff _).2 (by omega)
      simp only [this, Bool.false_eq_true, if_false]

/-! ### special-list-links -/

theorem sameKind_of_kkind (q : Nat) (hq : q < 4) (a b : Nat) (ha : kkind q a = true) (hb : kkind q b = true) :
    sameKind a b = true := by
  have h1 := kkind_arith q hq a ha
  have h2 := kkind_arith q hq b hb
  unfold sameKind
  simp only [Bool.or_eq_true, Bool.and_eq_true, isNormal_iff, isMemory_iff, isIO_iff, isMisc_iff]
  omega

theorem links_generic (t : Tree) (h : Hdr) (ex : RObj → Extra) (pid : Nat) (s : Nat) (l : List Tree) (k : Nat → Bool)
    (hs : SibsOK (occs t) s pid 0 (-1) l) (hk : typedL k l = true)
    (hsk : ∀ a b, k a = true → k b = true → sameKind a b = true) (j : Nat) (c : Tree) (hj : l[j]? = some c) :
    (decide ((rObj t ex (sibRecAt s pid 0 (-1) l j c)).rank < l.length) &&
     (((rObj t ex (sibRecAt s pid 0 (-1) l j c)).rank == 0) ==
        ((if l.isEmpty then (-1 : Int) else ((s : Nat) : Int)) == ((rObj t ex (sibRecAt s pid 0 (-1) l j c)).id : Int))) &&
     (((rObj t ex (sibRecAt s pid 0 (-1) l j c)).rank == 0) == ((rObj t ex (sibRecAt s pid 0 (-1) l j c)).prevSib == -1)) &&
     (match (render t h ex).obj? (rObj t ex (sibRecAt s pid 0 (-1) l j c)).nextSib with
       | none => (rObj t ex (sibRecAt s pid 0 (-1) l j c)).nextSib == -1 &&
                 (rObj t ex (sibRecAt s pid 0 (-1) l j c)).rank + 1 == l.length
       | some nx => nx.parent == (rObj t ex (sibRecAt s pid 0 (-1) l j c)).parent &&
                    sameKind nx.type (rObj t ex (sibRecAt s pid 0 (-1) l j c)).type &&
                    nx.rank == (rObj t ex (sibRecAt s pid 0 (-1) l j c)).rank + 1 &&
                    nx.prevSib == ((rObj t ex (sibRecAt s pid 0 (-1) l j c)).id : Int)) &&
     (match (render t h ex).obj? (rObj t ex (sibRecAt s pid 0 (-1) l j c)).prevSib with
       | none => (rObj t ex (sibRecAt s pid 0 (-1) l j c)).prevSib == -1
       | some pv => pv.parent == (rObj t ex (sibRecAt s pid 0 (-1) l j c)).parent &&
                    sameKind pv.type (rObj t ex (sibRecAt s pid 0 (-1) l j c)).type &&
                    pv.rank + 1 == (rObj t ex (sibRecAt s pid 0 (-1) l j c)).rank &&
                    pv.nextSib == ((rObj t ex (sibRecAt s pid 0 (-1) l j c)).id : Int))) = true := by
  have hlen := getElem?_lt hj
  have hkc := (typedL_get k l hk j c hj).1
  simp only [rObj, ro_rank, ro_id, ro_prev, ro_next, ro_parent, ro_type, sibRecAt, Nat.zero_add]
  simp only [Bool.and_eq_true, decide_eq_true_eq]
  refine ⟨⟨⟨⟨hlen, ?_⟩, ?_⟩, ?_⟩, ?_⟩
  · -- rank = 0 iff this is the head of the list
    cases l with
    | nil => simp at hlen
    | cons a as =>
      simp only [List.isEmpty_cons, Bool.false_eq_true, if_false]
      cases j with
      | zero => simp [startN_zero]
      | succ j =>
        have := startN_pos_of_pos s (a :: as) (j + 1) (by omega) (by omega)
        have e1 : ((j + 1 == 0) : Bool) = false := by simp
        have e2 : (((s : Nat) : Int) == ((startN s (a :: as) (j + 1) : Nat) : Int)) = false := by
          rw [beq_eq_false_iff_ne]; omega
        rw [e1, e2]; rfl
  · cases j with
    | zero => simp
    | succ j =>
      have e1 : ((j + 1 == 0) : Bool) = false := by simp
      have e2 : ((if j + 1 = 0 then (-1 : Int) else ((startN s l (j + 1 - 1) : Nat) : Int)) == -1) = false := by
        rw [if_neg (by omega), beq_eq_false_iff_ne]; omega
      rw [e1, e2]; rfl
  · -- next sibling
    by_cases hn : j + 1 < l.length
    · obtain ⟨c', hc'⟩ : ∃ c', l[j + 1]? = some c' := ⟨l[j + 1], by simp [hn]⟩
      have hl := child_lookup t h ex s pid l hs (j + 1) c' hc'
      rw [if_pos hn, hl]
      simp only [rObj, ro_parent, ro_type, ro_rank, ro_prev, sibRecAt, Nat.zero_add, beq_self_eq_true, Bool.true_and,
        hsk _ _ (typedL_get k l hk (j + 1) c' hc').1 hkc, Nat.add_sub_cancel]
      rw [if_neg (by omega)]; simp
    · rw [if_neg hn, render_obj?_neg _ _ _ _ (by omega)]
      simp; omega
  · -- previous sibling
    cases j with
    | zero => rw [if_pos rfl, render_obj?_neg _ _ _ _ (by omega)]; rfl
    | succ j =>
      obtain ⟨c', hc'⟩ : ∃ c', l[j]? = some c' := ⟨l[j]'(by omega), by simp⟩
      have hl := child_lookup t h ex s pid l hs j c' hc'
      rw [if_neg (by omega), Nat.add_sub_cancel, hl]
      simp only [rObj, ro_parent, ro_type, ro_rank, ro_next, sibRecAt, Nat.zero_add, beq_self_eq_true, Bool.true_and,
        hsk _ _ (typedL_get k l hk j c' hc').1 hkc]
      rw [if_pos hlen]; simp

theorem clause_special_list_links : objClause "special-list-links" = fun d _ o => match d.obj? o.parent with
      | none => true
      | some p =>
        if isNormal o.type then true else
        let ar := if isMemory o.type then p.marity else if isIO o.type then p.ioarity else p.miscarity
        let first := if isMemory o.type then p.memFirst else if isIO o.type then p.ioFirst else p.miscFirst
        decide (o.rank < ar) && ((o.rank == 0) == (first == (o.id : Int))) && ((o.rank == 0) == (o.prevSib == -1)) &&
        (match d.obj? o.nextSib with
          | none => o.nextSib == -1 && o.rank + 1 == ar
          | some nx => nx.parent == o.parent && sameKind nx.type o.type && nx.rank == o.rank + 1 && nx.prevSib == (o.id : Int)) &&
        (match d.obj? o.prevSib with
          | none => o.prevSib == -1
          | some pv => pv.parent == o.parent && sameKind pv.type o.type && pv.rank + 1 == o.rank && pv.nextSib == (o.id : Int)) := by
  simp only [objClause, objClauses, List.find?, String.reduceBEq]
  rfl

theorem render_special_list_links (t : Tree) (ht : typedT t = true) (h : Hdr) (ex : RObj → Extra) (o : Obj)
    (ho : o ∈ (render t h ex).objs) :
    objClause "special-list-links" (render t h ex) (mkAux (render t h ex)) o = true := by
  rw [clause_special_list_links]
  obtain ⟨oc, hoc, rfl⟩ := render_mem t h ex o ho
  rcases up_cases t ht oc hoc with rfl | ⟨poc, hp, q, hq, j, c, hj, rfl, hs, htl⟩
  · simp only [rObj, ro_parent]
    rw [render_obj?_neg _ _ _ _ (by show (-1 : Int) < 0; omega)]
  · have hgen := links_generic t h ex poc.id (kstart q poc) (kids q poc.t) (kkind q) hs htl
      (fun a b => sameKind_of_kkind q hq a b) j c hj
    have hpar : (rObj t ex (sibRecAt (kstart q poc) poc.id 0 (-1) (kids q poc.t) j c)).parent = poc.id := by
      simp only [rObj, ro_parent]; rfl
    have hty : (rObj t ex (sibRecAt (kstart q poc) poc.id 0 (-1) (kids q poc.t) j c)).type = c.obj.type := by
      simp only [rObj, ro_type]; rfl
    have hk := kkind_arith q hq _ (typedL_get _ _ htl j c hj).1
    generalize hX : rObj t ex (sibRecAt (kstart q poc) poc.id 0 (-1) (kids q poc.t) j c) = X at hgen hpar hty ⊢
    dsimp only
    rw [hpar, parent_lookup t h ex poc hp]
    simp only [hty]
    rcases hk with ⟨rfl, hk⟩ | ⟨rfl, hk⟩ | ⟨rfl, hk⟩ | ⟨rfl, hk⟩
    · have hN : isNormal c.obj.type = true := (isNormal_iff _).2 hk
      simp only [hN, if_true]
    · have hN : isNormal c.obj.type = false := (isNormal_false_iff _).2 (by omega)
      have hM : isMemory c.obj.type = true := (isMemory_iff _).2 hk
      simp only [hN, hM, Bool.false_eq_true, if_false, if_true, rObj, ro_marity, ro_memFirst]
      simp only [kids, kstart, hty, hpar] at hgen
      exact hgen
    · have hN : isNormal c.obj.type = false := (isNormal_false_iff _).2 (by omega)
      have hM : isMemory c.obj.type = false := (isMemory_false_iff _).2 (by omega)
      have hI : isIO c.obj.type = true := (isIO_iff _).2 hk
      simp only [hN, hM, hI, Bool.false_eq_true, if_false, if_true, rObj, ro_ioarity, ro_ioFirst]
      simp only [kids, kstart, hty, hpar] at hgen
      exact hgen
    · have hN : isNormal c.obj.type = false := (isNormal_false_iff _).2 (by omega)
      have hM : isMemory c.obj.type = false := (isMemory_false_iff _).2 (by omega)
      have hI : isIO c.obj.type = false := (isIO_false_iff _).2 (by omega)
      simp only [hN, hM, hI, Bool.false_eq_true, if_false, rObj, ro_miscarity, ro_miscFirst]
      simp only [kids, kstart, hty, hpar] at hgen
      exact hgen

/-! ### hwloc_connect_levels puts every normal-reachable object into exactly one level -/

mutual
/-- the objects reachable from a subtree through normal children lists -/
def nclT : Tree → List RObj
  | .node o ns _ _ _ => o :: nclL ns
def nclL : List Tree → List RObj
  | [] => []
  | t :: ts => nclT t ++ nclL ts
end

theorem nclT_eq (t : Tree) : nclT t = t.obj :: nclL t.ns := by cases t; rw [nclT]; rfl

theorem nclL_append (a b : List Tree) : nclL (a ++ b) = nclL a ++ nclL b := by
  induction a with
  | nil => simp [nclL]
  | cons t ts ih => simp [nclL, ih, List.append_assoc]

theorem nclT_length_pos (t : Tree) : 0 < (nclT t).length := by rw [nclT_eq]; simp

/-- one round of the level loop: the taken objects plus the closure of the new frontier are the closure of the old frontier -/
theorem ncl_step (p : Tree → Bool) (objs : List Tree) :
    (nclL objs).Perm ((objs.filter p).map (·.obj) ++ nclL (objs.flatMap (fun o => if p o then o.ns else [o]))) := by
  induction objs with
  | nil => simp [nclL]
  | cons o rest ih =>
    simp only [nclL, List.flatMap_cons, nclL_append]
    by_cases hp : p o = true
    · simp only [List.filter_cons_of_pos hp, hp, if_true, List.map_cons, List.cons_append]
      rw [nclT_eq]
      simp only [List.cons_append]
      refine List.Perm.cons _ ?_
      -- nclL o.ns ++ nclL rest ~ taken' ++ (nclL o.ns ++ nclL next')
      refine (List.Perm.append_left _ ih).trans ?_
      rw [← List.append_assoc, ← List.append_assoc]
      exact List.Perm.append_right _ List.perm_append_comm
    · have hp' : p o = false := by simpa using hp
      simp only [List.filter_cons_of_neg hp, hp', Bool.false_eq_true, if_false, nclL, List.append_nil]
      refine (List.Perm.append_left _ ih).trans ?_
      rw [← List.append_assoc, ← List.append_assoc]
      exact List.Perm.append_right _ List.perm_append_comm

theorem typeEq_refl (a : RObj) : typeEq a a = true := by
  unfold typeEq; simp

theorem foldl_mem {α : Type} (f : α → α → α) (hf : ∀ a b, f a b = a ∨ f a b = b) (l : List α) (init : α) :
    l.foldl f init = init ∨ l.foldl f init ∈ l := by
  induction l generalizing init with
  | nil => exact Or.inl rfl
  | cons x xs ih =>
    simp only [List.foldl_cons]
    rcases ih (f init x) with h | h
    · rcases hf init x with h' | h'
      · exact Or.inl (h.trans h')
      · exact Or.inr (by rw [h, h']; exact List.mem_cons_self)
    · exact Or.inr (List.mem_cons_of_mem _ h)

/-- the level loop distributes the closure of the frontier over its levels -/
theorem levelsLoop_perm : ∀ (fuel : Nat) (objs : List Tree), (nclL objs).length ≤ fuel →
    ((levelsLoop fuel objs).flatten).Perm (nclL objs) := by
  intro fuel
  induction fuel with
  | zero =>
    intro objs hlen
    cases objs with
    | nil => simp [levelsLoop, nclL]
    | cons o rest =>
      simp only [nclL, List.length_append] at hlen
      have := nclT_length_pos o; omega
  | succ fuel ih =>
    intro objs hlen
    cases objs with
    | nil => simp [levelsLoop, nclL]
    | cons first rest =>
      rw [levelsLoop]
      generalize htop : List.foldl (fun top o => if (!typeEq top.obj o.obj && findSameT top.obj o) = true then o else top)
        ((List.find? (fun o => o.obj.type != tPU) (first :: rest)).getD first) (first :: rest) = top
      have htopmem : top ∈ first :: rest := by
        have h0 : (List.find? (fun o => o.obj.type != tPU) (first :: rest)).getD first ∈ first :: rest := by
          cases hf : List.find? (fun o => o.obj.type != tPU) (first :: rest) with
          | none => exact List.mem_cons_self
          | some x => exact List.mem_of_find?_eq_some hf
        rcases foldl_mem (fun top o => if (!typeEq top.obj o.obj && findSameT top.obj o) = true then o else top)
          (fun a b => by by_cases h : (!typeEq a.obj b.obj && findSameT a.obj b) = true <;> simp [h]) (first :: rest) _ with h | h
        · rw [← htop, h]; exact h0
        · rw [← htop]; exact h
      have hstep := ncl_step (fun o => typeEq top.obj o.obj) (first :: rest)
      have htaken : 0 < ((first :: rest).filter (fun o => typeEq top.obj o.obj)).length := by
        apply List.length_pos_of_mem (a := top)
        exact List.mem_filter.2 ⟨htopmem, typeEq_refl _⟩
      have hl := hstep.length_eq
      simp only [List.length_append, List.length_map] at hl
      simp only [List.flatten_cons]
      refine (List.Perm.append_left _ (ih _ (by omega))).trans hstep.symm

theorem ncl_le_objs :
    (∀ t, (nclT t).length ≤ (objsT t).length) ∧ (∀ l, (nclL l).length ≤ (objsL l).length) := by
  have hnode : ∀ o ns ms ios mis, (nclL ns).length ≤ (objsL ns).length → (nclL ms).length ≤ (objsL ms).length →
      (nclT (.node o ns ms ios mis)).length ≤ (objsT (.node o ns ms ios mis)).length := by
    intro o ns ms ios mis h1 _
    rw [nclT, objsT]; simp only [List.length_cons, List.length_append]; omega
  have hnil : (nclL []).length ≤ (objsL []).length := by simp [nclL, objsL]
  have hcons : ∀ t ts, (nclT t).length ≤ (objsT t).length → (nclL ts).length ≤ (objsL ts).length →
      (nclL (t :: ts)).length ≤ (objsL (t :: ts)).length := by
    intro t ts h1 h2; rw [nclL, objsL]; simp only [List.length_append]; omega
  exact ⟨tree_indT hnode hnil hcons, tree_indL hnode hnil hcons⟩

/-- **hwloc_connect_levels is a partition of the normal-reachable objects** -/
theorem connectLevels_perm (t : Tree) : ((connectLevels t).flatten).Perm (nclT t) := by
  unfold connectLevels
  rw [nclT_eq]
  simp only [List.flatten_cons, List.singleton_append]
  refine List.Perm.cons _ (levelsLoop_perm _ _ ?_)
  have h1 := ncl_le_objs.1 t
  rw [nclT_eq] at h1
  simp only [List.length_cons] at h1
  omega

/-! ### relabelling -/

theorem relabelT_obj (s : Nat) (t : Tree) : (relabelT s t).obj = { t.obj with gp := s } := by
  cases t; rw [relabelT]; rfl
theorem relabelT_ns (s : Nat) (t : Tree) : (relabelT s t).ns = relabelL (s + 1) t.ns := by
  cases t; rw [relabelT]; rfl

/-- below a typed object that is not normal there is no normal object -/
theorem nonnormal_below :
    (∀ t, typedT t = true → isNormal t.obj.type = false → ∀ s par rk pv nx, ∀ oc ∈ occsT s par rk pv nx t,
        isNormal oc.t.obj.type = false) ∧
    (∀ l, (∀ t ∈ l, typedT t = true ∧ isNormal t.obj.type = false) → ∀ s par rk pv, ∀ oc ∈ occsL s par rk pv l,
        isNormal oc.t.obj.type = false) := by
  have hnode : ∀ o ns ms ios mis,
      ((∀ t ∈ ns, typedT t = true ∧ isNormal t.obj.type = false) → ∀ s par rk pv, ∀ oc ∈ occsL s par rk pv ns,
        isNormal oc.t.obj.type = false) →
      ((∀ t ∈ ms, typedT t = true ∧ isNormal t.obj.type = false) → ∀ s par rk pv, ∀ oc ∈ occsL s par rk pv ms,
        isNormal oc.t.obj.type = false) →
      ((∀ t ∈ ios, typedT t = true ∧ isNormal t.obj.type = false) → ∀ s par rk pv, ∀ oc ∈ occsL s par rk pv ios,
        isNormal oc.t.obj.type = false) →
      ((∀ t ∈ mis, typedT t = true ∧ isNormal t.obj.type = false) → ∀ s par rk pv, ∀ oc ∈ occsL s par rk pv mis,
        isNormal oc.t.obj.type = false) →
      (typedT (.node o ns ms ios mis) = true → isNormal (Tree.node o ns ms ios mis).obj.type = false →
        ∀ s par rk pv nx, ∀ oc ∈ occsT s par rk pv nx (.node o ns ms ios mis), isNormal oc.t.obj.type = false) := by
    intro o ns ms ios mis _ h2 h3 h4 ht hn s par rk pv nx oc hoc
    have hl := typedT_lists _ ht
    have hf := typedT_facts _ ht
    simp only [Tree.obj, Tree.ns, Tree.ms, Tree.ios, Tree.mis] at hl hf hn
    have hns : ns = [] := by
      have := (isNormal_false_iff _).1 hn
      exact List.length_eq_zero_iff.1 (by omega)
    subst hns
    rw [occsT] at hoc
    simp only [occsL, List.nil_append, List.mem_cons, List.mem_append] at hoc
    have kindFalse : ∀ (q : Nat), 1 ≤ q → q < 4 → ∀ ty, kkind q ty = true → isNormal ty = false := by
      intro q h1 hq ty hk
      have := kkind_arith q hq ty hk
      exact (isNormal_false_iff _).2 (by omega)
    rcases hoc with rfl | (hoc | hoc) | hoc
    · exact hn
    · exact h2 (fun t ht' => ⟨(typedL_mem _ _ hl.2.1 t ht').2, kindFalse 1 (by omega) (by omega) _ (typedL_mem _ _ hl.2.1 t ht').1⟩)
        _ _ _ _ oc hoc
    · exact h3 (fun t ht' => ⟨(typedL_mem _ _ hl.2.2.1 t ht').2, kindFalse 2 (by omega) (by omega) _ (typedL_mem _ _ hl.2.2.1 t ht').1⟩)
        _ _ _ _ oc hoc
    · exact h4 (fun t ht' => ⟨(typedL_mem _ _ hl.2.2.2 t ht').2, kindFalse 3 (by omega) (by omega) _ (typedL_mem _ _ hl.2.2.2 t ht').1⟩)
        _ _ _ _ oc hoc
  have hnil : (∀ t ∈ ([] : List Tree), typedT t = true ∧ isNormal t.obj.type = false) → ∀ s par rk pv,
      ∀ oc ∈ occsL s par rk pv [], isNormal oc.t.obj.type = false := by
    intro _ s par rk pv oc h; rw [occsL] at h; simp at h
  have hcons : ∀ t ts,
      (typedT t = true → isNormal t.obj.type = false → ∀ s par rk pv nx, ∀ oc ∈ occsT s par rk pv nx t,
        isNormal oc.t.obj.type = false) →
      ((∀ t ∈ ts, typedT t = true ∧ isNormal t.obj.type = false) → ∀ s par rk pv, ∀ oc ∈ occsL s par rk pv ts,
        isNormal oc.t.obj.type = false) →
      ((∀ t' ∈ t :: ts, typedT t' = true ∧ isNormal t'.obj.type = false) → ∀ s par rk pv, ∀ oc ∈ occsL s par rk pv (t :: ts),
        isNormal oc.t.obj.type = false) := by
    intro t ts h1 h2 hall s par rk pv oc hoc
    rw [occsL] at hoc
    rcases List.mem_append.1 hoc with h | h
    · exact h1 (hall t List.mem_cons_self).1 (hall t List.mem_cons_self).2 _ _ _ _ _ oc h
    · exact h2 (fun t' ht' => hall t' (List.mem_cons_of_mem _ ht')) _ _ _ _ oc h
  exact ⟨tree_ind4T hnode hnil hcons, tree_ind4L hnode hnil hcons⟩

/-- every normal object of a typed tree with a normal root is reachable through normal children lists; in the relabelled
    tree its closure entry carries its id -/
theorem normal_reach :
    (∀ t, typedT t = true → isNormal t.obj.type = true → ∀ s par rk pv nx, ∀ oc ∈ occsT s par rk pv nx t,
        isNormal oc.t.obj.type = true → oc.id ∈ (nclT (relabelT s t)).map (·.gp)) ∧
    (∀ l, (∀ t ∈ l, typedT t = true ∧ isNormal t.obj.type = true) → ∀ s par rk pv, ∀ oc ∈ occsL s par rk pv l,
        isNormal oc.t.obj.type = true → oc.id ∈ (nclL (relabelL s l)).map (·.gp)) := by
  have hnode : ∀ o ns ms ios mis,
      ((∀ t ∈ ns, typedT t = true ∧ isNormal t.obj.type = true) → ∀ s par rk pv, ∀ oc ∈ occsL s par rk pv ns,
        isNormal oc.t.obj.type = true → oc.id ∈ (nclL (relabelL s ns)).map (·.gp)) →
      ((∀ t ∈ ms, typedT t = true ∧ isNormal t.obj.type = true) → ∀ s par rk pv, ∀ oc ∈ occsL s par rk pv ms,
        isNormal oc.t.obj.type = true → oc.id ∈ (nclL (relabelL s ms)).map (·.gp)) →
      ((∀ t ∈ ios, typedT t = true ∧ isNormal t.obj.type = true) → ∀ s par rk pv, ∀ oc ∈ occsL s par rk pv ios,
        isNormal oc.t.obj.type = true → oc.id ∈ (nclL (relabelL s ios)).map (·.gp)) →
      ((∀ t ∈ mis, typedT t = true ∧ isNormal t.obj.type = true) → ∀ s par rk pv, ∀ oc ∈ occsL s par rk pv mis,
        isNormal oc.t.obj.type = true → oc.id ∈ (nclL (relabelL s mis)).map (·.gp)) →
      (typedT (.node o ns ms ios mis) = true → isNormal (Tree.node o ns ms ios mis).obj.type = true →
        ∀ s par rk pv nx, ∀ oc ∈ occsT s par rk pv nx (.node o ns ms ios mis),
        isNormal oc.t.obj.type = true → oc.id ∈ (nclT (relabelT s (.node o ns ms ios mis))).map (·.gp)) := by
    intro o ns ms ios mis h1 _ _ _ ht _ s par rk pv nx oc hoc hno
    have hl := typedT_lists _ ht
    simp only [Tree.ns, Tree.ms, Tree.ios, Tree.mis] at hl
    have kindFalse : ∀ (q : Nat), 1 ≤ q → q < 4 → ∀ ty, kkind q ty = true → isNormal ty = false := by
      intro q h1 hq ty hk
      have := kkind_arith q hq ty hk
      exact (isNormal_false_iff _).2 (by omega)
    rw [relabelT, nclT]
    rw [occsT] at hoc
    simp only [List.mem_cons, List.mem_append] at hoc
    simp only [List.map_cons, List.mem_cons]
    rcases hoc with rfl | ((hoc | hoc) | hoc) | hoc
    · exact Or.inl rfl
    · exact Or.inr (h1 (fun t ht' => ⟨(typedL_mem _ _ hl.1 t ht').2, (typedL_mem _ _ hl.1 t ht').1⟩) _ _ _ _ oc hoc hno)
    · have := nonnormal_below.2 ms (fun t ht' => ⟨(typedL_mem _ _ hl.2.1 t ht').2,
        kindFalse 1 (by omega) (by omega) _ (typedL_mem _ _ hl.2.1 t ht').1⟩) _ _ _ _ oc hoc
      rw [this] at hno; exact absurd hno (by simp)
    · have := nonnormal_below.2 ios (fun t ht' => ⟨(typedL_mem _ _ hl.2.2.1 t ht').2,
        kindFalse 2 (by omega) (by omega) _ (typedL_mem _ _ hl.2.2.1 t ht').1⟩) _ _ _ _ oc hoc
      rw [this] at hno; exact absurd hno (by simp)
    · have := nonnormal_below.2 mis (fun t ht' => ⟨(typedL_mem _ _ hl.2.2.2 t ht').2,
        kindFalse 3 (by omega) (by omega) _ (typedL_mem _ _ hl.2.2.2 t ht').1⟩) _ _ _ _ oc hoc
      rw [this] at hno; exact absurd hno (by simp)
  have hnil : (∀ t ∈ ([] : List Tree), typedT t = true ∧ isNormal t.obj.type = true) → ∀ s par rk pv,
      ∀ oc ∈ occsL s par rk pv [], isNormal oc.t.obj.type = true → oc.id ∈ (nclL (relabelL s [])).map (·.gp) := by
    intro _ s par rk pv oc h; rw [occsL] at h; simp at h
  have hcons : ∀ t ts,
      (typedT t = true → isNormal t.obj.type = true → ∀ s par rk pv nx, ∀ oc ∈ occsT s par rk pv nx t,
        isNormal oc.t.obj.type = true → oc.id ∈ (nclT (relabelT s t)).map (·.gp)) →
      ((∀ t ∈ ts, typedT t = true ∧ isNormal t.obj.type = true) → ∀ s par rk pv, ∀ oc ∈ occsL s par rk pv ts,
        isNormal oc.t.obj.type = true → oc.id ∈ (nclL (relabelL s ts)).map (·.gp)) →
      ((∀ t' ∈ t :: ts, typedT t' = true ∧ isNormal t'.obj.type = true) → ∀ s par rk pv, ∀ oc ∈ occsL s par rk pv (t :: ts),
        isNormal oc.t.obj.type = true → oc.id ∈ (nclL (relabelL s (t :: ts))).map (·.gp)) := by
    intro t ts h1 h2 hall s par rk pv oc hoc hno
    rw [occsL] at hoc
    rw [relabelL, nclL, List.map_append, List.mem_append]
    rcases List.mem_append.1 hoc with h | h
    · exact Or.inl (h1 (hall t List.mem_cons_self).1 (hall t List.mem_cons_self).2 _ _ _ _ _ oc h hno)
    · exact Or.inr (h2 (fun t' ht' => hall t' (List.mem_cons_of_mem _ ht')) _ _ _ _ oc h hno)
  exact ⟨tree_ind4T hnode hnil hcons, tree_ind4L hnode hnil hcons⟩

/-- every normal object of a typed tree with a normal root has its id in one of the normal levels -/
theorem normal_in_level (t : Tree) (ht : typedT t = true) (hr : isNormal t.obj.type = true) (oc : Occ) (hoc : oc ∈ occs t)
    (hn : isNormal oc.t.obj.type = true) : ∃ l ∈ normalLevels t, oc.id ∈ l.2 := by
  have h1 := normal_reach.1 t ht hr 0 (-1) 0 (-1) (-1) oc hoc hn
  have h2 : oc.id ∈ ((connectLevels (relabelT 0 t)).flatten).map (·.gp) := by
    rw [List.mem_map] at h1 ⊢
    obtain ⟨x, hx, e⟩ := h1
    exact ⟨x, (connectLevels_perm _).mem_iff.2 hx, e⟩
  rw [List.mem_map] at h2
  obtain ⟨x, hx, e⟩ := h2
  rw [List.mem_flatten] at hx
  obtain ⟨lv, hlv, hxl⟩ := hx
  refine ⟨(((lv.head?).map (·.type)).getD 0, lv.map (·.gp)), ?_, ?_⟩
  · unfold normalLevels; exact List.mem_map.2 ⟨lv, hlv, rfl⟩
  · exact List.mem_map.2 ⟨x, hxl, e⟩

theorem ro_depth (nl : List (Nat × List Nat)) (os : List Occ) (ex : RObj → Extra) (oc : Occ) :
    (renderObj nl os ex oc).depth = (placeOf nl os oc.id oc.t.obj.type).1 := by
  cases oc with | mk a b c d e t => cases t; rfl

/-- `find?` over an indexed list -/
theorem zipRange_find {α : Type} (nl : List α) (f : Nat × α → Bool) (k : Nat) (x : α)
    (h : ((List.range nl.length).zip nl).find? f = some (k, x)) : k < nl.length ∧ nl[k]? = some x ∧ f (k, x) = true := by
  have hm := List.mem_of_find?_eq_some h
  have hf := List.find?_some h
  obtain ⟨i, hi⟩ := List.getElem?_of_mem hm
  rw [List.getElem?_zip_eq_some] at hi
  obtain ⟨h1, h2⟩ := hi
  have hlt : i < nl.length := getElem?_lt h2
  rw [List.getElem?_range hlt] at h1
  simp only [Option.some.injEq] at h1
  subst h1
  exact ⟨hlt, h2, hf⟩

theorem zipRange_find_isSome {α : Type} (nl : List α) (f : Nat × α → Bool) (x : α) (hx : x ∈ nl)
    (hf : ∀ k, f (k, x) = true) : (((List.range nl.length).zip nl).find? f).isSome = true := by
  rw [List.find?_isSome]
  obtain ⟨i, hi⟩ := List.getElem?_of_mem hx
  have hlt := getElem?_lt hi
  refine ⟨(i, x), ?_, hf i⟩
  apply List.mem_of_getElem? (i := i)
  rw [List.getElem?_zip_eq_some]
  exact ⟨List.getElem?_range hlt, hi⟩

theorem clause_depth_by_type : objClause "depth-by-type" = fun d _ o => match specialDepth o.type with
      | some sd => o.depth == sd
      | none => decide (0 ≤ o.depth) && decide (o.depth.toNat < d.depth) := by
  simp only [objClause, objClauses, List.find?, String.reduceBEq]
  rfl

theorem render_depth_by_type (t : Tree) (ht : typedT t = true) (hr : isNormal t.obj.type = true) (h : Hdr) (ex : RObj → Extra)
    (o : Obj) (ho : o ∈ (render t h ex).objs) :
    objClause "depth-by-type" (render t h ex) (mkAux (render t h ex)) o = true := by
  rw [clause_depth_by_type]
  obtain ⟨oc, hoc, rfl⟩ := render_mem t h ex o ho
  simp only [rObj, ro_type, ro_depth]
  unfold placeOf
  cases hs : specialDepth oc.t.obj.type with
  | some sd => simp
  | none =>
    simp only []
    have hty := (typedT_facts oc.t (occs_typed.1 t ht 0 (-1) 0 (-1) (-1) oc hoc)).2.2.2.2
    have hn : isNormal oc.t.obj.type = true := by
      cases hnn : isNormal oc.t.obj.type with
      | true => rfl
      | false =>
        obtain ⟨sd, h1, _⟩ := specialDepth_of_not_normal (t := oc.t.obj.type) hty hnn
        rw [hs] at h1; exact absurd h1 (by simp)
    obtain ⟨l, hl, hid⟩ := normal_in_level t ht hr oc hoc hn
    have hsome := zipRange_find_isSome (normalLevels t) (fun x => x.2.2.contains oc.id) l hl
      (fun _ => by simp only [List.contains_iff_mem]; exact hid)
    cases hf : ((List.range (normalLevels t).length).zip (normalLevels t)).find? (fun x => x.2.2.contains oc.id) with
    | none => rw [hf] at hsome; exact absurd hsome (by simp)
    | some kx =>
      obtain ⟨k, x⟩ := kx
      have := zipRange_find _ _ k x hf
      simp only [Bool.and_eq_true, decide_eq_true_eq]
      show (0 : Int) ≤ (k : Int) ∧ ((k : Int)).toNat < (render t h ex).depth
      refine ⟨by omega, ?_⟩
      rw [Int.toNat_natCast]
      exact this.1

/-! ### topology-level clauses -/

theorem clause_nobjs : topClause "nobjs" = fun d _ => d.objs.length == d.nobjs && decide (0 < d.nobjs) := by
  simp only [topClause, topClauses, List.find?, String.reduceBEq]

theorem render_nobjs (t : Tree) (h : Hdr) (ex : RObj → Extra) :
    topClause "nobjs" (render t h ex) (mkAux (render t h ex)) = true := by
  rw [clause_nobjs]
  show (((occs t).map (rObj t ex)).length == (occs t).length && decide (0 < (occs t).length)) = true
  have : (occs t).length = sizeT t := occsT_length t 0 (-1) 0 (-1) (-1)
  have := sizeT_pos t
  simp; omega

theorem clause_levels_listed : topClause "levels-listed" = fun d _ =>
      (List.range d.depth).all (fun k => (levelOf d (k : Int)).isSome) &&
      [(-3 : Int), -4, -5, -6, -7, -8].all (fun k => (levelOf d k).isSome) &&
      d.levels.length == d.depth + 6 := by
  simp only [topClause, topClauses, List.find?, String.reduceBEq]

def normalPart (t : Tree) : List Level :=
  ((List.range (normalLevels t).length).zip (normalLevels t)).map
    (fun (k, l) => (⟨(k : Int), (l.1 : Int), l.2.map (fun (i : Nat) => (i : Int))⟩ : Level))
def specialPart (t : Tree) : List Level :=
  specialTypes.map (fun ty => (⟨(specialDepth ty).getD 0, (ty : Int), (specialLevel (occs t) ty).map (fun (i : Nat) => (i : Int))⟩ : Level))

theorem render_levels (t : Tree) (h : Hdr) (ex : RObj → Extra) : (render t h ex).levels = normalPart t ++ specialPart t := rfl

theorem normalPart_get (t : Tree) (k : Nat) (hk : k < (normalLevels t).length) :
    (normalPart t)[k]? = some ⟨(k : Int), (((normalLevels t)[k]).1 : Int), ((normalLevels t)[k]).2.map (fun (i : Nat) => (i : Int))⟩ := by
  unfold normalPart
  rw [List.getElem?_map]
  have : ((List.range (normalLevels t).length).zip (normalLevels t))[k]? = some (k, (normalLevels t)[k]) := by
    rw [List.getElem?_zip_eq_some]
    exact ⟨List.getElem?_range hk, by simp [hk]⟩
  rw [this]; rfl

theorem normalPart_length (t : Tree) : (normalPart t).length = (normalLevels t).length := by
  unfold normalPart; simp

theorem specialPart_depths (t : Tree) : (specialPart t).map (·.depth) = [-3, -4, -5, -6, -7, -8] := by
  unfold specialPart; simp only [List.map_map]; rfl

theorem render_levels_listed (t : Tree) (h : Hdr) (ex : RObj → Extra) :
    topClause "levels-listed" (render t h ex) (mkAux (render t h ex)) = true := by
  rw [clause_levels_listed]
  simp only [Bool.and_eq_true, List.all_eq_true, List.mem_range, beq_iff_eq]
  have hd : (render t h ex).depth = (normalLevels t).length := rfl
  refine ⟨⟨?_, ?_⟩, ?_⟩
  · intro k hk
    rw [hd] at hk
    unfold levelOf
    rw [List.find?_isSome, render_levels]
    refine ⟨_, List.mem_append_left _ (List.mem_of_getElem? (normalPart_get t k hk)), by simp⟩
  · intro k hk
    unfold levelOf
    rw [List.find?_isSome, render_levels]
    have : k ∈ (specialPart t).map (·.depth) := by rw [specialPart_depths]; exact hk
    obtain ⟨l, hl, e⟩ := List.mem_map.1 this
    exact ⟨l, List.mem_append_right _ hl, by simp [e]⟩
  · rw [render_levels, List.length_append, normalPart_length, hd]
    unfold specialPart specialTypes; simp

/-! ### looking a level up by depth -/

theorem find_depth_indexed (L : List Level) (hL : ∀ (i : Nat) (l : Level), L[i]? = some l → l.depth = (i : Int)) (k : Nat) (hk : k < L.length) :
    L.find? (fun l => l.depth == (k : Int)) = L[k]? := by
  rw [List.getElem?_eq_getElem hk, List.find?_eq_some_iff_getElem]
  refine ⟨?_, k, hk, rfl, ?_⟩
  · simp [hL k L[k] (List.getElem?_eq_getElem hk)]
  · intro j hj
    have := hL j L[j] (List.getElem?_eq_getElem (by omega))
    simp [this]; omega

theorem normalPart_depth (t : Tree) (i : Nat) (l : Level) (h : (normalPart t)[i]? = some l) : l.depth = (i : Int) := by
  have hi : i < (normalLevels t).length := by rw [← normalPart_length]; exact getElem?_lt h
  rw [normalPart_get t i hi] at h
  simp only [Option.some.injEq] at h
  rw [← h]

theorem levelOf_normal (t : Tree) (h : Hdr) (ex : RObj → Extra) (k : Nat) (hk : k < (normalLevels t).length) :
    levelOf (render t h ex) (k : Int) =
      some ⟨(k : Int), (((normalLevels t)[k]).1 : Int), ((normalLevels t)[k]).2.map (fun (i : Nat) => (i : Int))⟩ := by
  unfold levelOf
  rw [render_levels, List.find?_append, find_depth_indexed _ (normalPart_depth t) k (by rw [normalPart_length]; exact hk),
    normalPart_get t k hk]
  rfl

theorem normalPart_find_neg (t : Tree) (sd : Int) (hsd : sd < 0) : (normalPart t).find? (fun l => l.depth == sd) = none := by
  rw [List.find?_eq_none]
  intro l hl
  obtain ⟨i, hi⟩ := List.getElem?_of_mem hl
  have := normalPart_depth t i l hi
  simp; omega

theorem levelOf_special (t : Tree) (h : Hdr) (ex : RObj → Extra) (ty : Nat) (hty : ty ∈ specialTypes) :
    levelOf (render t h ex) ((specialDepth ty).getD 0) =
      some ⟨(specialDepth ty).getD 0, (ty : Int), (specialLevel (occs t) ty).map (fun (i : Nat) => (i : Int))⟩ := by
  have hneg : (specialDepth ty).getD 0 < 0 := by
    simp only [specialTypes, List.mem_cons, List.mem_nil_iff, or_false] at hty
    rcases hty with rfl | rfl | rfl | rfl | rfl | rfl <;> decide
  unfold levelOf
  rw [render_levels, List.find?_append, normalPart_find_neg t _ hneg]
  simp only [Option.none_or]
  simp only [specialTypes, List.mem_cons, List.mem_nil_iff, or_false] at hty
  rcases hty with rfl | rfl | rfl | rfl | rfl | rfl <;> rfl

theorem special_type_cases (ty : Nat) (hlt : ty < 20) (hn : isNormal ty = false) :
    ty ∈ specialTypes ∧ specialDepth ty = some ((specialDepth ty).getD 0) := by
  have := (isNormal_false_iff _).1 hn
  have h : ty = 14 ∨ ty = 15 ∨ ty = 16 ∨ ty = 17 ∨ ty = 18 ∨ ty = 19 := by omega
  rcases h with rfl | rfl | rfl | rfl | rfl | rfl <;> decide

/-! ### position in a level -/

theorem idxOf_get (l : List Nat) (x : Nat) (hx : x ∈ l) : l[idxOf l x]? = some x := by
  unfold idxOf
  induction l with
  | nil => simp at hx
  | cons a as ih =>
    by_cases ha : a = x
    · subst ha; simp [List.findIdx?_cons]
    · have hx' : x ∈ as := by
        rcases List.mem_cons.1 hx with h | h
        · exact absurd h.symm ha
        · exact h
      have ih' := ih hx'
      have hne : (a == x) = false := by simp [ha]
      simp only [List.findIdx?_cons, hne, Bool.false_eq_true, if_false]
      cases hf : List.findIdx? (fun y => y == x) as with
      | none => rw [hf] at ih'; simp only [Option.getD_none] at ih' ⊢; simp only [Option.map_none, Option.getD_none]
                -- the element is in `as`, so the search succeeds
                exact absurd (List.findIdx?_eq_none_iff.1 hf x hx') (by simp)
      | some i => rw [hf] at ih'; simpa using ih'

theorem ro_lidx (nl : List (Nat × List Nat)) (os : List Occ) (ex : RObj → Extra) (oc : Occ) :
    (renderObj nl os ex oc).lidx = idxOf (placeOf nl os oc.id oc.t.obj.type).2 oc.id := by
  cases oc with | mk a b c d e t => cases t; rfl
theorem ro_nextCousin (nl : List (Nat × List Nat)) (os : List Occ) (ex : RObj → Extra) (oc : Occ) :
    (renderObj nl os ex oc).nextCousin =
      (((placeOf nl os oc.id oc.t.obj.type).2[idxOf (placeOf nl os oc.id oc.t.obj.type).2 oc.id + 1]?).map
        (fun (i : Nat) => (i : Int))).getD (-1) := by
  cases oc with | mk a b c d e t => cases t; rfl
theorem ro_prevCousin (nl : List (Nat × List Nat)) (os : List Occ) (ex : RObj → Extra) (oc : Occ) :
    (renderObj nl os ex oc).prevCousin =
      if idxOf (placeOf nl os oc.id oc.t.obj.type).2 oc.id = 0 then -1 else
      (((placeOf nl os oc.id oc.t.obj.type).2[idxOf (placeOf nl os oc.id oc.t.obj.type).2 oc.id - 1]?).map
        (fun (i : Nat) => (i : Int))).getD (-2) := by
  cases oc with | mk a b c d e t => cases t; rfl

theorem clause_in_its_level : objClause "in-its-level" = fun d _ o => match levelOf d o.depth with
      | none => false
      | some l => (l.objs[o.lidx]?) == some (o.id : Int) && l.type == (o.type : Int) &&
                  o.prevCousin == (if o.lidx = 0 then -1 else (l.objs[o.lidx - 1]?).getD (-2)) &&
                  o.nextCousin == (l.objs[o.lidx + 1]?).getD (-1) := by
  simp only [objClause, objClauses, List.find?, String.reduceBEq]
  rfl

/-- the level check once the level of the object is known: members `m` containing the id, level type = object type -/
theorem in_level_core (d : Dump) (o : Obj) (sd : Int) (ty : Nat) (m : List Nat) (id : Nat)
    (hlev : levelOf d o.depth = some ⟨sd, (ty : Int), m.map (fun (i : Nat) => (i : Int))⟩)
    (hid : o.id = id) (hty : o.type = ty) (hm : id ∈ m) (hl : o.lidx = idxOf m id)
    (hn : o.nextCousin = ((m[idxOf m id + 1]?).map (fun (i : Nat) => (i : Int))).getD (-1))
    (hp : o.prevCousin = if idxOf m id = 0 then -1 else ((m[idxOf m id - 1]?).map (fun (i : Nat) => (i : Int))).getD (-2)) :
    (match levelOf d o.depth with
      | none => false
      | some l => (l.objs[o.lidx]?) == some (o.id : Int) && l.type == (o.type : Int) &&
                  o.prevCousin == (if o.lidx = 0 then -1 else (l.objs[o.lidx - 1]?).getD (-2)) &&
                  o.nextCousin == (l.objs[o.lidx + 1]?).getD (-1)) = true := by
  rw [hlev]
  simp only [hid, hty, hl, hn, hp, List.getElem?_map, idxOf_get m id hm, Option.map_some, beq_self_eq_true, Bool.true_and]

/-! ### the objects of the normal levels: identity and type -/

/-- ids of the closure of a relabelled subtree lie in its id range and are strictly increasing -/
theorem relabel_gps :
    (∀ t, ∀ s, (∀ g ∈ (nclT (relabelT s t)).map (·.gp), s ≤ g ∧ g < s + sizeT t) ∧
        ((nclT (relabelT s t)).map (·.gp)).Pairwise (· < ·)) ∧
    (∀ l, ∀ s, (∀ g ∈ (nclL (relabelL s l)).map (·.gp), s ≤ g ∧ g < s + sizeL l) ∧
        ((nclL (relabelL s l)).map (·.gp)).Pairwise (· < ·)) := by
  have hnode : ∀ o ns ms ios mis,
      (∀ s, (∀ g ∈ (nclL (relabelL s ns)).map (·.gp), s ≤ g ∧ g < s + sizeL ns) ∧
        ((nclL (relabelL s ns)).map (·.gp)).Pairwise (· < ·)) →
      (∀ s, (∀ g ∈ (nclL (relabelL s ms)).map (·.gp), s ≤ g ∧ g < s + sizeL ms) ∧
        ((nclL (relabelL s ms)).map (·.gp)).Pairwise (· < ·)) →
      (∀ s, (∀ g ∈ (nclT (relabelT s (.node o ns ms ios mis))).map (·.gp), s ≤ g ∧ g < s + sizeT (.node o ns ms ios mis)) ∧
        ((nclT (relabelT s (.node o ns ms ios mis))).map (·.gp)).Pairwise (· < ·)) := by
    intro o ns ms ios mis h1 _ s
    rw [relabelT, nclT, sizeT]
    simp only [List.map_cons, List.mem_cons, List.pairwise_cons]
    have q := h1 (s + 1)
    refine ⟨?_, ?_, q.2⟩
    · intro g hg
      rcases hg with rfl | hg
      · omega
      · have := q.1 g hg; omega
    · intro g hg; have := q.1 g hg; omega
  have hnil : ∀ s, (∀ g ∈ (nclL (relabelL s [])).map (·.gp), s ≤ g ∧ g < s + sizeL []) ∧
      ((nclL (relabelL s [])).map (·.gp)).Pairwise (· < ·) := by
    intro s; rw [relabelL, nclL]; simp
  have hcons : ∀ t ts,
      (∀ s, (∀ g ∈ (nclT (relabelT s t)).map (·.gp), s ≤ g ∧ g < s + sizeT t) ∧
        ((nclT (relabelT s t)).map (·.gp)).Pairwise (· < ·)) →
      (∀ s, (∀ g ∈ (nclL (relabelL s ts)).map (·.gp), s ≤ g ∧ g < s + sizeL ts) ∧
        ((nclL (relabelL s ts)).map (·.gp)).Pairwise (· < ·)) →
      (∀ s, (∀ g ∈ (nclL (relabelL s (t :: ts))).map (·.gp), s ≤ g ∧ g < s + sizeL (t :: ts)) ∧
        ((nclL (relabelL s (t :: ts))).map (·.gp)).Pairwise (· < ·)) := by
    intro t ts h1 h2 s
    rw [relabelL, nclL, sizeL]
    simp only [List.map_append, List.mem_append, List.pairwise_append]
    have q1 := h1 s
    have q2 := h2 (s + sizeT t)
    refine ⟨?_, q1.2, q2.2, ?_⟩
    · intro g hg
      rcases hg with hg | hg
      · have := q1.1 g hg; omega
      · have := q2.1 g hg; omega
    · intro a ha b hb
      have := q1.1 a ha; have := q2.1 b hb; omega
  exact ⟨tree_indT hnode hnil hcons, tree_indL hnode hnil hcons⟩

theorem relabel_gps_nodup (t : Tree) : ((nclT (relabelT 0 t)).map (·.gp)).Nodup := by
  have := (relabel_gps.1 t 0).2
  exact this.imp (fun h => Nat.ne_of_lt h)

/-- every closure entry of the relabelled tree is an occurrence with its id as gp -/
theorem closure_is_occ :
    (∀ t, ∀ s par rk pv nx, ∀ y ∈ nclT (relabelT s t), ∃ oc ∈ occsT s par rk pv nx t, y = { oc.t.obj with gp := oc.id }) ∧
    (∀ l, ∀ s par rk pv, ∀ y ∈ nclL (relabelL s l), ∃ oc ∈ occsL s par rk pv l, y = { oc.t.obj with gp := oc.id }) := by
  have hnode : ∀ o ns ms ios mis,
      (∀ s par rk pv, ∀ y ∈ nclL (relabelL s ns), ∃ oc ∈ occsL s par rk pv ns, y = { oc.t.obj with gp := oc.id }) →
      (∀ s par rk pv, ∀ y ∈ nclL (relabelL s ms), ∃ oc ∈ occsL s par rk pv ms, y = { oc.t.obj with gp := oc.id }) →
      (∀ s par rk pv nx, ∀ y ∈ nclT (relabelT s (.node o ns ms ios mis)),
        ∃ oc ∈ occsT s par rk pv nx (.node o ns ms ios mis), y = { oc.t.obj with gp := oc.id }) := by
    intro o ns ms ios mis h1 _ s par rk pv nx y hy
    rw [relabelT, nclT] at hy
    rw [occsT]
    rcases List.mem_cons.1 hy with rfl | hy
    · exact ⟨_, List.mem_cons_self, rfl⟩
    · obtain ⟨oc, hoc, e⟩ := h1 (s + 1) s 0 (-1) y hy
      exact ⟨oc, by simp only [List.mem_cons, List.mem_append]; exact Or.inr (Or.inl (Or.inl (Or.inl hoc))), e⟩
  have hnil : ∀ s par rk pv, ∀ y ∈ nclL (relabelL s []), ∃ oc ∈ occsL s par rk pv [], y = { oc.t.obj with gp := oc.id } := by
    intro s par rk pv y hy; rw [relabelL, nclL] at hy; simp at hy
  have hcons : ∀ t ts,
      (∀ s par rk pv nx, ∀ y ∈ nclT (relabelT s t), ∃ oc ∈ occsT s par rk pv nx t, y = { oc.t.obj with gp := oc.id }) →
      (∀ s par rk pv, ∀ y ∈ nclL (relabelL s ts), ∃ oc ∈ occsL s par rk pv ts, y = { oc.t.obj with gp := oc.id }) →
      (∀ s par rk pv, ∀ y ∈ nclL (relabelL s (t :: ts)), ∃ oc ∈ occsL s par rk pv (t :: ts), y = { oc.t.obj with gp := oc.id }) := by
    intro t ts h1 h2 s par rk pv y hy
    rw [relabelL, nclL] at hy
    rw [occsL]
    rcases List.mem_append.1 hy with hy | hy
    · obtain ⟨oc, hoc, e⟩ := h1 s par rk pv _ y hy
      exact ⟨oc, List.mem_append_left _ hoc, e⟩
    · obtain ⟨oc, hoc, e⟩ := h2 (s + sizeT t) par (rk + 1) s y hy
      exact ⟨oc, List.mem_append_right _ hoc, e⟩
  exact ⟨tree_indT hnode hnil hcons, tree_indL hnode hnil hcons⟩

/-- all objects of one level have the same type order -/
theorem levelsLoop_same_order : ∀ (fuel : Nat) (objs : List Tree), ∀ lv ∈ levelsLoop fuel objs, ∀ a ∈ lv, ∀ b ∈ lv,
    orderOf a.type = orderOf b.type := by
  intro fuel
  induction fuel with
  | zero => intro objs lv h; simp [levelsLoop] at h
  | succ fuel ih =>
    intro objs lv hlv a ha b hb
    cases objs with
    | nil => simp [levelsLoop] at hlv
    | cons first rest =>
      rw [levelsLoop] at hlv
      rcases List.mem_cons.1 hlv with rfl | hlv
      · simp only [List.mem_map, List.mem_filter] at ha hb
        obtain ⟨x, ⟨_, hx⟩, rfl⟩ := ha
        obtain ⟨y, ⟨_, hy⟩, rfl⟩ := hb
        unfold typeEq at hx hy
        simp only [Bool.and_eq_true, beq_iff_eq] at hx hy
        rw [← hx.1, ← hy.1]
      · exact ih _ lv hlv a ha b hb

theorem connectLevels_same_order (t : Tree) : ∀ lv ∈ connectLevels t, ∀ a ∈ lv, ∀ b ∈ lv, orderOf a.type = orderOf b.type := by
  intro lv hlv a ha b hb
  unfold connectLevels at hlv
  rcases List.mem_cons.1 hlv with rfl | hlv
  · simp only [List.mem_singleton] at ha hb; rw [ha, hb]
  · exact levelsLoop_same_order _ _ lv hlv a ha b hb

theorem orderOf_inj : ∀ a, a < 20 → ∀ b, b < 20 → orderOf a = orderOf b → a = b := by decide

/-- an entry of a normal level is the relabelled object of an occurrence -/
theorem level_entry_occ (t : Tree) (lv : List RObj) (hlv : lv ∈ connectLevels (relabelT 0 t)) (y : RObj) (hy : y ∈ lv) :
    ∃ oc ∈ occs t, y = { oc.t.obj with gp := oc.id } := by
  have : y ∈ (connectLevels (relabelT 0 t)).flatten := List.mem_flatten.2 ⟨lv, hlv, hy⟩
  exact closure_is_occ.1 t 0 (-1) 0 (-1) (-1) y ((connectLevels_perm _).mem_iff.1 this)

theorem occ_unique (t : Tree) (a b : Occ) (ha : a ∈ occs t) (hb : b ∈ occs t) (h : a.id = b.id) : a = b := by
  have h1 := occs_get_of_mem t a ha
  have h2 := occs_get_of_mem t b hb
  rw [h, h2] at h1
  exact (Option.some.inj h1).symm

theorem normalLevels_get (t : Tree) (k : Nat) (hk : k < (normalLevels t).length) :
    ∃ lv, (connectLevels (relabelT 0 t))[k]? = some lv ∧
      (normalLevels t)[k] = (((lv.head?).map (·.type)).getD 0, lv.map (·.gp)) := by
  unfold normalLevels at hk ⊢
  rw [List.length_map] at hk
  refine ⟨(connectLevels (relabelT 0 t))[k], List.getElem?_eq_getElem hk, ?_⟩
  simp

/-- the type recorded for a normal level is the type of each of its objects -/
theorem level_type_eq (t : Tree) (ht : typedT t = true) (oc : Occ) (hoc : oc ∈ occs t) (k : Nat)
    (hk : k < (normalLevels t).length) (hid : oc.id ∈ ((normalLevels t)[k]).2) : ((normalLevels t)[k]).1 = oc.t.obj.type := by
  obtain ⟨lv, hlv, e⟩ := normalLevels_get t k hk
  rw [e] at hid ⊢
  have hlvm : lv ∈ connectLevels (relabelT 0 t) := List.mem_of_getElem? hlv
  obtain ⟨y, hy, hyg⟩ := List.mem_map.1 hid
  obtain ⟨oc', hoc', ey⟩ := level_entry_occ t lv hlvm y hy
  have : oc' = oc := occ_unique t oc' oc hoc' hoc (by rw [ey] at hyg; exact hyg)
  subst this
  cases hh : lv.head? with
  | none => rw [List.head?_eq_none_iff] at hh; rw [hh] at hy; simp at hy
  | some hd =>
    have hhd : hd ∈ lv := List.mem_of_head? hh
    obtain ⟨oc2, hoc2, e2⟩ := level_entry_occ t lv hlvm hd hhd
    have hord := connectLevels_same_order _ lv hlvm hd hhd y hy
    have t1 := (typedT_facts oc2.t (occs_typed.1 t ht 0 (-1) 0 (-1) (-1) oc2 hoc2)).2.2.2.2
    have t2 := (typedT_facts oc'.t (occs_typed.1 t ht 0 (-1) 0 (-1) (-1) oc' hoc)).2.2.2.2
    simp only [Option.map_some, Option.getD_some]
    rw [e2, ey] at hord
    rw [e2]
    exact orderOf_inj _ t1 _ t2 hord

theorem render_in_its_level (t : Tree) (ht : typedT t = true) (hr : isNormal t.obj.type = true) (h : Hdr) (ex : RObj → Extra)
    (o : Obj) (ho : o ∈ (render t h ex).objs) :
    objClause "in-its-level" (render t h ex) (mkAux (render t h ex)) o = true := by
  rw [clause_in_its_level]
  obtain ⟨oc, hoc, rfl⟩ := render_mem t h ex o ho
  have hty := (typedT_facts oc.t (occs_typed.1 t ht 0 (-1) 0 (-1) (-1) oc hoc)).2.2.2.2
  cases hn : isNormal oc.t.obj.type with
  | false =>
    obtain ⟨hmem, hsd⟩ := special_type_cases _ hty hn
    have hplace : placeOf (normalLevels t) (occs t) oc.id oc.t.obj.type =
        ((specialDepth oc.t.obj.type).getD 0, specialLevel (occs t) oc.t.obj.type) := by
      unfold placeOf; rw [hsd]; rfl
    refine in_level_core (render t h ex) (rObj t ex oc) ((specialDepth oc.t.obj.type).getD 0) oc.t.obj.type
      (specialLevel (occs t) oc.t.obj.type) oc.id ?_ ?_ ?_ ?_ ?_ ?_ ?_
    · simp only [rObj, ro_depth, hplace]; exact levelOf_special t h ex _ hmem
    · simp only [rObj, ro_id]
    · simp only [rObj, ro_type]
    · unfold specialLevel
      exact List.mem_map.2 ⟨oc, List.mem_filter.2 ⟨hoc, by simp⟩, rfl⟩
    · simp only [rObj, ro_lidx, hplace]
    · simp only [rObj, ro_nextCousin, hplace]
    · simp only [rObj, ro_prevCousin, hplace]
  | true =>
    have hs : specialDepth oc.t.obj.type = none := specialDepth_of_normal hn
    obtain ⟨l, hl, hid⟩ := normal_in_level t ht hr oc hoc hn
    have hsome := zipRange_find_isSome (normalLevels t) (fun x => x.2.2.contains oc.id) l hl
      (fun _ => by simp only [List.contains_iff_mem]; exact hid)
    cases hf : ((List.range (normalLevels t).length).zip (normalLevels t)).find? (fun x => x.2.2.contains oc.id) with
    | none => rw [hf] at hsome; exact absurd hsome (by simp)
    | some kx =>
      obtain ⟨k, x⟩ := kx
      obtain ⟨hk, hkx, hfx⟩ := zipRange_find _ _ k x hf
      have hx : (normalLevels t)[k] = x := by
        rw [List.getElem?_eq_getElem hk] at hkx; exact Option.some.inj hkx
      have hidx : oc.id ∈ x.2 := by simpa using hfx
      have hplace : placeOf (normalLevels t) (occs t) oc.id oc.t.obj.type = ((k : Int), x.2) := by
        unfold placeOf; rw [hs]; simp only []; rw [hf]
      refine in_level_core (render t h ex) (rObj t ex oc) (k : Int) oc.t.obj.type x.2 oc.id ?_ ?_ ?_ hidx ?_ ?_ ?_
      · simp only [rObj, ro_depth, hplace]
        rw [levelOf_normal t h ex k hk, hx, ← level_type_eq t ht oc hoc k hk (by rw [hx]; exact hidx), hx]
      · simp only [rObj, ro_id]
      · simp only [rObj, ro_type]
      · simp only [rObj, ro_lidx, hplace]
      · simp only [rObj, ro_nextCousin, hplace]
      · simp only [rObj, ro_prevCousin, hplace]

/-! ### level-entries-valid -/

theorem idxOf_of_nodup (l : List Nat) (hl : l.Nodup) (i : Nat) (x : Nat) (hi : l[i]? = some x) : idxOf l x = i := by
  induction l generalizing i with
  | nil => simp at hi
  | cons a as ih =>
    unfold idxOf
    cases i with
    | zero => simp at hi; subst hi; simp [List.findIdx?_cons]
    | succ i =>
      simp only [List.getElem?_cons_succ] at hi
      have hx : x ∈ as := List.mem_of_getElem? hi
      have hne : (a == x) = false := by
        rw [beq_eq_false_iff_ne]; intro e; subst e; exact (List.nodup_cons.1 hl).1 hx
      have := ih (List.nodup_cons.1 hl).2 i hi
      unfold idxOf at this
      simp only [List.findIdx?_cons, hne, Bool.false_eq_true, if_false]
      cases hf : List.findIdx? (fun y => y == x) as with
      | none => exact absurd (List.findIdx?_eq_none_iff.1 hf x hx) (by simp)
      | some j => rw [hf] at this; simp at this ⊢; exact this

theorem occs_ids_eq_range (t : Tree) : (occs t).map (·.id) = List.range (occs t).length := by
  apply List.ext_getElem?
  intro i
  rw [List.getElem?_map]
  by_cases hi : i < (occs t).length
  · rw [List.getElem?_range hi, List.getElem?_eq_getElem hi]
    simp only [Option.map_some, Option.some.injEq]
    exact occs_id t i _ (List.getElem?_eq_getElem hi)
  · rw [List.getElem?_eq_none_iff.2 (by omega), List.getElem?_eq_none_iff.2 (by simp; omega)]; rfl

theorem specialLevel_nodup (t : Tree) (ty : Nat) : (specialLevel (occs t) ty).Nodup := by
  unfold specialLevel
  have h : ((occs t).map (·.id)).Nodup := by rw [occs_ids_eq_range]; exact List.nodup_range
  exact (List.filter_sublist.map _).nodup h

theorem normalLevels_ids (t : Tree) : ((normalLevels t).map (·.2)).flatten = ((connectLevels (relabelT 0 t)).flatten).map (·.gp) := by
  unfold normalLevels
  rw [List.map_map, List.map_flatten]
  rfl

theorem normalLevels_nodup (t : Tree) : (((normalLevels t).map (·.2)).flatten).Nodup := by
  rw [normalLevels_ids]
  exact ((connectLevels_perm (relabelT 0 t)).map _).nodup_iff.2 (relabel_gps_nodup t)

theorem nodup_flatten' {L : List (List Nat)} (h : L.flatten.Nodup) :
    (∀ l ∈ L, l.Nodup) ∧ L.Pairwise (fun a b => ∀ x ∈ a, x ∉ b) := by
  induction L with
  | nil => simp
  | cons a as ih =>
    rw [List.flatten_cons, List.nodup_append] at h
    obtain ⟨h1, h2, h3⟩ := h
    have := ih h2
    refine ⟨?_, ?_⟩
    · intro l hl
      rcases List.mem_cons.1 hl with rfl | hl
      · exact h1
      · exact this.1 l hl
    · rw [List.pairwise_cons]
      refine ⟨?_, this.2⟩
      intro b hb x hxa hxb
      exact h3 x hxa x (List.mem_flatten.2 ⟨b, hb, hxb⟩) rfl

theorem level_nodup (t : Tree) (k : Nat) (hk : k < (normalLevels t).length) : ((normalLevels t)[k]).2.Nodup := by
  have := (nodup_flatten' (normalLevels_nodup t)).1 ((normalLevels t)[k]).2
    (List.mem_map.2 ⟨_, List.getElem_mem hk, rfl⟩)
  exact this

theorem level_unique (t : Tree) (k k' : Nat) (hk : k < (normalLevels t).length) (hk' : k' < (normalLevels t).length) (id : Nat)
    (h1 : id ∈ ((normalLevels t)[k]).2) (h2 : id ∈ ((normalLevels t)[k']).2) : k = k' := by
  apply Classical.byContradiction
  intro hne
  have hp := (nodup_flatten' (normalLevels_nodup t)).2
  rw [List.pairwise_iff_getElem] at hp
  have hlen : ((normalLevels t).map (·.2)).length = (normalLevels t).length := by simp
  rcases Nat.lt_or_gt_of_ne hne with hlt | hgt
  · have := hp k k' (by omega) (by omega) hlt
    simp only [List.getElem_map] at this
    exact this id h1 h2
  · have := hp k' k (by omega) (by omega) hgt
    simp only [List.getElem_map] at this
    exact this id h2 h1

/-- closure entries of a typed tree with a normal root are normal objects -/
theorem closure_normal :
    (∀ t, typedT t = true → isNormal t.obj.type = true → ∀ s, ∀ y ∈ nclT (relabelT s t), isNormal y.type = true) ∧
    (∀ l, (∀ t ∈ l, typedT t = true ∧ isNormal t.obj.type = true) → ∀ s, ∀ y ∈ nclL (relabelL s l), isNormal y.type = true) := by
  have hnode : ∀ o ns ms ios mis,
      ((∀ t ∈ ns, typedT t = true ∧ isNormal t.obj.type = true) → ∀ s, ∀ y ∈ nclL (relabelL s ns), isNormal y.type = true) →
      ((∀ t ∈ ms, typedT t = true ∧ isNormal t.obj.type = true) → ∀ s, ∀ y ∈ nclL (relabelL s ms), isNormal y.type = true) →
      (typedT (.node o ns ms ios mis) = true → isNormal (Tree.node o ns ms ios mis).obj.type = true →
        ∀ s, ∀ y ∈ nclT (relabelT s (.node o ns ms ios mis)), isNormal y.type = true) := by
    intro o ns ms ios mis h1 _ ht hr s y hy
    have hl := typedT_lists _ ht
    simp only [Tree.ns] at hl
    rw [relabelT, nclT] at hy
    rcases List.mem_cons.1 hy with rfl | hy
    · exact hr
    · exact h1 (fun t ht' => ⟨(typedL_mem _ _ hl.1 t ht').2, (typedL_mem _ _ hl.1 t ht').1⟩) _ y hy
  have hnil : (∀ t ∈ ([] : List Tree), typedT t = true ∧ isNormal t.obj.type = true) → ∀ s, ∀ y ∈ nclL (relabelL s []),
      isNormal y.type = true := by
    intro _ s y hy; rw [relabelL, nclL] at hy; simp at hy
  have hcons : ∀ t ts,
      (typedT t = true → isNormal t.obj.type = true → ∀ s, ∀ y ∈ nclT (relabelT s t), isNormal y.type = true) →
      ((∀ t ∈ ts, typedT t = true ∧ isNormal t.obj.type = true) → ∀ s, ∀ y ∈ nclL (relabelL s ts), isNormal y.type = true) →
      ((∀ t' ∈ t :: ts, typedT t' = true ∧ isNormal t'.obj.type = true) → ∀ s, ∀ y ∈ nclL (relabelL s (t :: ts)),
        isNormal y.type = true) := by
    intro t ts h1 h2 hall s y hy
    rw [relabelL, nclL] at hy
    rcases List.mem_append.1 hy with hy | hy
    · exact h1 (hall t List.mem_cons_self).1 (hall t List.mem_cons_self).2 _ y hy
    · exact h2 (fun t' ht' => hall t' (List.mem_cons_of_mem _ ht')) _ y hy
  exact ⟨tree_indT hnode hnil hcons, tree_indL hnode hnil hcons⟩

/-- an id listed in normal level `k` is a normal occurrence whose place is level `k` -/
theorem level_member (t : Tree) (ht : typedT t = true) (hr : isNormal t.obj.type = true) (k : Nat)
    (hk : k < (normalLevels t).length) (id : Nat) (hid : id ∈ ((normalLevels t)[k]).2) :
    ∃ oc ∈ occs t, oc.id = id ∧ placeOf (normalLevels t) (occs t) id oc.t.obj.type = ((k : Int), ((normalLevels t)[k]).2) := by
  obtain ⟨lv, hlv, e⟩ := normalLevels_get t k hk
  have hlvm : lv ∈ connectLevels (relabelT 0 t) := List.mem_of_getElem? hlv
  rw [e] at hid
  obtain ⟨y, hy, hyg⟩ := List.mem_map.1 hid
  obtain ⟨oc, hoc, ey⟩ := level_entry_occ t lv hlvm y hy
  have hyn : isNormal y.type = true := by
    have : y ∈ (connectLevels (relabelT 0 t)).flatten := List.mem_flatten.2 ⟨lv, hlvm, hy⟩
    exact closure_normal.1 t ht hr 0 y ((connectLevels_perm _).mem_iff.1 this)
  have hocid : oc.id = id := by rw [ey] at hyg; exact hyg
  have hn : isNormal oc.t.obj.type = true := by rw [ey] at hyn; exact hyn
  refine ⟨oc, hoc, hocid, ?_⟩
  have hs : specialDepth oc.t.obj.type = none := specialDepth_of_normal hn
  have hid' : id ∈ ((normalLevels t)[k]).2 := by rw [e]; exact hid
  have hsome := zipRange_find_isSome (normalLevels t) (fun x => x.2.2.contains id) _ (List.getElem_mem hk)
    (fun _ => by simp only [List.contains_iff_mem]; exact hid')
  cases hf : ((List.range (normalLevels t).length).zip (normalLevels t)).find? (fun x => x.2.2.contains id) with
  | none => rw [hf] at hsome; exact absurd hsome (by simp)
  | some kx =>
    obtain ⟨k', x⟩ := kx
    obtain ⟨hk', hkx, hfx⟩ := zipRange_find _ _ k' x hf
    have hx : (normalLevels t)[k'] = x := by
      rw [List.getElem?_eq_getElem hk'] at hkx; exact Option.some.inj hkx
    have : k = k' := level_unique t k k' hk hk' id hid' (by rw [hx]; simpa using hfx)
    subst this
    unfold placeOf; rw [hs]; simp only []; rw [hf, ← hx]

theorem clause_level_entries_valid : topClause "level-entries-valid" = fun d _ => d.levels.all (fun l =>
      (List.range l.objs.length).all (fun i => match d.obj? ((l.objs[i]?).getD (-2)) with
        | some o => o.depth == l.depth && o.lidx == i
        | none => false)) := by
  simp only [topClause, topClauses, List.find?, String.reduceBEq]
  rfl

/-- the check for one level given as (depth, members): every member is an occurrence whose place is this level -/
theorem entries_core (t : Tree) (h : Hdr) (ex : RObj → Extra) (dep : Int) (ty : Int) (m : List Nat) (hm : m.Nodup)
    (hplace : ∀ id ∈ m, ∃ oc ∈ occs t, oc.id = id ∧ placeOf (normalLevels t) (occs t) id oc.t.obj.type = (dep, m)) :
    ((List.range ((⟨dep, ty, m.map (fun (i : Nat) => (i : Int))⟩ : Level).objs.length)).all (fun i =>
      match (render t h ex).obj? (((⟨dep, ty, m.map (fun (i : Nat) => (i : Int))⟩ : Level).objs[i]?).getD (-2)) with
        | some o => o.depth == (⟨dep, ty, m.map (fun (i : Nat) => (i : Int))⟩ : Level).depth && o.lidx == i
        | none => false)) = true := by
  simp only [List.length_map, List.all_eq_true, List.mem_range]
  intro i hi
  have hget : m[i]? = some m[i] := List.getElem?_eq_getElem hi
  obtain ⟨oc, hoc, hocid, hp⟩ := hplace m[i] (List.getElem_mem hi)
  rw [List.getElem?_map, hget]
  simp only [Option.map_some, Option.getD_some]
  rw [render_obj?_nat, ← hocid, occs_get_of_mem t oc hoc]
  simp only [Option.map_some, rObj, ro_depth, ro_lidx]
  rw [hocid, hp]
  simp only [beq_self_eq_true, Bool.true_and, beq_iff_eq]
  exact idxOf_of_nodup m hm i m[i] hget

theorem render_level_entries_valid (t : Tree) (ht : typedT t = true) (hr : isNormal t.obj.type = true) (h : Hdr)
    (ex : RObj → Extra) : topClause "level-entries-valid" (render t h ex) (mkAux (render t h ex)) = true := by
  rw [clause_level_entries_valid]
  simp only [List.all_eq_true]
  intro l hl
  rw [render_levels] at hl
  rcases List.mem_append.1 hl with hl | hl
  · -- a normal level
    obtain ⟨k, hk⟩ := List.getElem?_of_mem hl
    have hklt : k < (normalLevels t).length := by rw [← normalPart_length]; exact getElem?_lt hk
    rw [normalPart_get t k hklt] at hk
    rw [← Option.some.inj hk]
    have := entries_core t h ex (k : Int) (((normalLevels t)[k]).1 : Int) ((normalLevels t)[k]).2 (level_nodup t k hklt)
      (fun id hid => level_member t ht hr k hklt id hid)
    simpa only [List.all_eq_true] using this
  · -- a special level
    unfold specialPart at hl
    obtain ⟨ty, hty, rfl⟩ := List.mem_map.1 hl
    have hsd : specialDepth ty = some ((specialDepth ty).getD 0) := by
      simp only [specialTypes, List.mem_cons, List.mem_nil_iff, or_false] at hty
      rcases hty with rfl | rfl | rfl | rfl | rfl | rfl <;> rfl
    have := entries_core t h ex ((specialDepth ty).getD 0) (ty : Int) (specialLevel (occs t) ty) (specialLevel_nodup t ty)
      (fun id hid => by
        unfold specialLevel at hid
        obtain ⟨oc, hoc, e⟩ := List.mem_map.1 hid
        have hf := List.mem_filter.1 hoc
        have hty' : oc.t.obj.type = ty := by simpa using hf.2
        refine ⟨oc, hf.1, e, ?_⟩
        rw [hty']; unfold placeOf; rw [hsd]; rfl)
    simpa only [List.all_eq_true] using this

/-! ### levels-in-tree-order -/

theorem roots_sublist (p : Tree → Bool) (objs : List Tree) : ((objs.filter p).map (·.obj)).Sublist (nclL objs) := by
  induction objs with
  | nil => simp [nclL]
  | cons o rest ih =>
    rw [nclL, nclT_eq]
    by_cases hp : p o = true
    · rw [List.filter_cons_of_pos hp, List.map_cons, List.cons_append]
      exact List.Sublist.cons₂ _ (ih.trans (List.sublist_append_right _ _))
    · rw [List.filter_cons_of_neg hp, List.cons_append]
      exact List.Sublist.cons _ (ih.trans (List.sublist_append_right _ _))

theorem next_sublist (p : Tree → Bool) (objs : List Tree) :
    (nclL (objs.flatMap (fun o => if p o then o.ns else [o]))).Sublist (nclL objs) := by
  induction objs with
  | nil => simp [nclL]
  | cons o rest ih =>
    rw [List.flatMap_cons, nclL_append, nclL]
    by_cases hp : p o = true
    · simp only [hp, if_true]
      rw [nclT_eq, List.cons_append]
      exact List.Sublist.cons _ (List.Sublist.append (List.Sublist.refl _) ih)
    · have hp' : p o = false := by simpa using hp
      simp only [hp', Bool.false_eq_true, if_false, nclL, List.append_nil]
      exact List.Sublist.append (List.Sublist.refl _) ih

theorem levelsLoop_sublist : ∀ (fuel : Nat) (objs : List Tree), ∀ lv ∈ levelsLoop fuel objs, lv.Sublist (nclL objs) := by
  intro fuel
  induction fuel with
  | zero => intro objs lv h; simp [levelsLoop] at h
  | succ fuel ih =>
    intro objs lv hlv
    cases objs with
    | nil => simp [levelsLoop] at hlv
    | cons first rest =>
      rw [levelsLoop] at hlv
      rcases List.mem_cons.1 hlv with rfl | hlv
      · exact roots_sublist _ _
      · exact (ih _ lv hlv).trans (next_sublist _ _)

/-- the ids of every normal level are strictly increasing (the level follows the DFS order of the tree) -/
theorem normalLevels_increasing (t : Tree) (k : Nat) (hk : k < (normalLevels t).length) :
    ((normalLevels t)[k]).2.Pairwise (· < ·) := by
  obtain ⟨lv, hlv, e⟩ := normalLevels_get t k hk
  rw [e]
  have hlvm : lv ∈ connectLevels (relabelT 0 t) := List.mem_of_getElem? hlv
  unfold connectLevels at hlvm
  rcases List.mem_cons.1 hlvm with rfl | hlvm
  · simp
  · have h1 := (levelsLoop_sublist _ _ lv hlvm).map (·.gp)
    have h2 := (relabel_gps.1 t 0).2
    rw [nclT_eq] at h2
    simp only [List.map_cons, List.pairwise_cons] at h2
    exact h2.2.sublist h1

theorem increasing_of_pairwise (m : List Nat) (h : m.Pairwise (· < ·)) : increasing (m.map (fun (i : Nat) => (i : Int))) = true := by
  induction m with
  | nil => rfl
  | cons a as ih =>
    cases as with
    | nil => rfl
    | cons b bs =>
      rw [List.pairwise_cons] at h
      simp only [List.map_cons, increasing, Bool.and_eq_true, decide_eq_true_eq]
      refine ⟨by have := h.1 b List.mem_cons_self; omega, ?_⟩
      have := ih h.2
      simpa only [List.map_cons] using this

theorem specialLevel_increasing (t : Tree) (ty : Nat) : (specialLevel (occs t) ty).Pairwise (· < ·) := by
  unfold specialLevel
  have h : ((occs t).map (·.id)).Pairwise (· < ·) := by rw [occs_ids_eq_range]; exact List.pairwise_lt_range
  exact h.sublist (List.filter_sublist.map _)

theorem clause_levels_in_tree_order : topClause "levels-in-tree-order" = fun d _ => d.levels.all (fun l => increasing l.objs) := by
  simp only [topClause, topClauses, List.find?, String.reduceBEq]

theorem render_levels_in_tree_order (t : Tree) (h : Hdr) (ex : RObj → Extra) :
    topClause "levels-in-tree-order" (render t h ex) (mkAux (render t h ex)) = true := by
  rw [clause_levels_in_tree_order]
  simp only [List.all_eq_true]
  intro l hl
  rw [render_levels] at hl
  rcases List.mem_append.1 hl with hl | hl
  · obtain ⟨k, hk⟩ := List.getElem?_of_mem hl
    have hklt : k < (normalLevels t).length := by rw [← normalPart_length]; exact getElem?_lt hk
    rw [normalPart_get t k hklt] at hk
    rw [← Option.some.inj hk]
    exact increasing_of_pairwise _ (normalLevels_increasing t k hklt)
  · unfold specialPart at hl
    obtain ⟨ty, _, rfl⟩ := List.mem_map.1 hl
    exact increasing_of_pairwise _ (specialLevel_increasing t ty)

/-! ### depth-increases: the children of a taken object enter strictly later levels -/

/-- the level loop, keeping the subtrees -/
def levelsLoopT : Nat → List Tree → List (List Tree)
  | 0, _ => []
  | fuel + 1, objs =>
    match objs with
    | [] => []
    | first :: _ =>
      let top0 := (objs.find? (fun o => o.obj.type != tPU)).getD first
      let top := objs.foldl (fun top o => if !typeEq top.obj o.obj && findSameT top.obj o then o else top) top0
      objs.filter (fun o => typeEq top.obj o.obj) ::
        levelsLoopT fuel (objs.flatMap (fun o => if typeEq top.obj o.obj then o.ns else [o]))

theorem levelsLoop_eq_T : ∀ (fuel : Nat) (objs : List Tree), levelsLoop fuel objs = (levelsLoopT fuel objs).map (·.map (·.obj)) := by
  intro fuel
  induction fuel with
  | zero => intro objs; rfl
  | succ fuel ih =>
    intro objs
    cases objs with
    | nil => rfl
    | cons first rest => rw [levelsLoop, levelsLoopT, List.map_cons, ih]

/-- with enough fuel every frontier tree is taken into some level, and its normal children into strictly later ones -/
theorem loopT_cover : ∀ (fuel : Nat) (objs : List Tree), (nclL objs).length ≤ fuel →
    (∀ T ∈ objs, ∃ (j : Nat) (lv : List Tree), (levelsLoopT fuel objs)[j]? = some lv ∧ T ∈ lv) ∧
    (∀ (i : Nat) (lv : List Tree), (levelsLoopT fuel objs)[i]? = some lv → ∀ T ∈ lv, ∀ c ∈ Tree.ns T,
      ∃ (j : Nat) (lv' : List Tree), i < j ∧ (levelsLoopT fuel objs)[j]? = some lv' ∧ c ∈ lv') := by
  intro fuel
  induction fuel with
  | zero =>
    intro objs hlen
    cases objs with
    | nil => exact ⟨fun T h => by simp at h, fun i lv h => by simp [levelsLoopT] at h⟩
    | cons o rest =>
      simp only [nclL, List.length_append] at hlen
      have := nclT_length_pos o; omega
  | succ fuel ih =>
    intro objs hlen
    cases objs with
    | nil => exact ⟨fun T h => by simp at h, fun i lv h => by simp [levelsLoopT] at h⟩
    | cons first rest =>
      rw [levelsLoopT]
      generalize htop : List.foldl (fun top o => if (!typeEq top.obj o.obj && findSameT top.obj o) = true then o else top)
        ((List.find? (fun o => o.obj.type != tPU) (first :: rest)).getD first) (first :: rest) = top
      have htopmem : top ∈ first :: rest := by
        have h0 : (List.find? (fun o => o.obj.type != tPU) (first :: rest)).getD first ∈ first :: rest := by
          cases hf : List.find? (fun o => o.obj.type != tPU) (first :: rest) with
          | none => exact List.mem_cons_self
          | some x => exact List.mem_of_find?_eq_some hf
        rcases foldl_mem (fun top o => if (!typeEq top.obj o.obj && findSameT top.obj o) = true then o else top)
          (fun a b => by by_cases h : (!typeEq a.obj b.obj && findSameT a.obj b) = true <;> simp [h]) (first :: rest) _ with h | h
        · rw [← htop, h]; exact h0
        · rw [← htop]; exact h
      have hstep := ncl_step (fun o => typeEq top.obj o.obj) (first :: rest)
      have htaken : 0 < ((first :: rest).filter (fun o => typeEq top.obj o.obj)).length := by
        apply List.length_pos_of_mem (a := top)
        exact List.mem_filter.2 ⟨htopmem, typeEq_refl _⟩
      have hl := hstep.length_eq
      simp only [List.length_append, List.length_map] at hl
      have hrec := ih ((first :: rest).flatMap (fun o => if typeEq top.obj o.obj then o.ns else [o])) (by omega)
      constructor
      · intro T hT
        by_cases hp : typeEq top.obj T.obj = true
        · exact ⟨0, _, rfl, List.mem_filter.2 ⟨hT, hp⟩⟩
        · have hmem : T ∈ (first :: rest).flatMap (fun o => if typeEq top.obj o.obj then o.ns else [o]) := by
            rw [List.mem_flatMap]; exact ⟨T, hT, by simp [hp]⟩
          obtain ⟨j, lv, hj, hT'⟩ := hrec.1 T hmem
          exact ⟨j + 1, lv, by simpa using hj, hT'⟩
      · intro i lv hi T hT c hc
        cases i with
        | zero =>
          simp only [List.getElem?_cons_zero, Option.some.injEq] at hi
          subst hi
          have hp := (List.mem_filter.1 hT)
          have hmem : c ∈ (first :: rest).flatMap (fun o => if typeEq top.obj o.obj then o.ns else [o]) := by
            rw [List.mem_flatMap]; exact ⟨T, hp.1, by simp only [hp.2, if_true]; exact hc⟩
          obtain ⟨j, lv', hj, hc'⟩ := hrec.1 c hmem
          exact ⟨j + 1, lv', by omega, by simpa using hj, hc'⟩
        | succ i =>
          simp only [List.getElem?_cons_succ] at hi
          obtain ⟨j, lv', hij, hj, hc'⟩ := hrec.2 i lv hi T hT c hc
          exact ⟨j + 1, lv', by omega, by simpa using hj, hc'⟩


/-! subtrees reachable through normal children lists -/

mutual
def nsubT : Tree → List Tree
  | .node o ns ms ios mis => .node o ns ms ios mis :: nsubL ns
def nsubL : List Tree → List Tree
  | [] => []
  | t :: ts => nsubT t ++ nsubL ts
end

theorem nsubT_self (t : Tree) : t ∈ nsubT t := by cases t; rw [nsubT]; exact List.mem_cons_self
theorem nsubT_eq (t : Tree) : nsubT t = t :: nsubL t.ns := by cases t; rw [nsubT]; rfl
theorem nsubL_mem_of_mem (l : List Tree) (t : Tree) (h : t ∈ l) : ∀ x ∈ nsubT t, x ∈ nsubL l := by
  induction l with
  | nil => simp at h
  | cons a as ih =>
    intro x hx
    rw [nsubL]
    rcases List.mem_cons.1 h with rfl | h
    · exact List.mem_append_left _ hx
    · exact List.mem_append_right _ (ih h x hx)

/-- closed under taking normal children -/
theorem nsub_closed :
    (∀ r, ∀ T ∈ nsubT r, ∀ x ∈ nsubL T.ns, x ∈ nsubT r) ∧ (∀ l, ∀ T ∈ nsubL l, ∀ x ∈ nsubL T.ns, x ∈ nsubL l) := by
  have hnode : ∀ o ns ms ios mis, (∀ T ∈ nsubL ns, ∀ x ∈ nsubL T.ns, x ∈ nsubL ns) → (∀ T ∈ nsubL ms, ∀ x ∈ nsubL T.ns, x ∈ nsubL ms) →
      (∀ T ∈ nsubT (.node o ns ms ios mis), ∀ x ∈ nsubL T.ns, x ∈ nsubT (.node o ns ms ios mis)) := by
    intro o ns ms ios mis h1 _ T hT x hx
    rw [nsubT] at hT ⊢
    rcases List.mem_cons.1 hT with rfl | hT
    · exact List.mem_cons_of_mem _ hx
    · exact List.mem_cons_of_mem _ (h1 T hT x hx)
  have hnil : ∀ T ∈ nsubL [], ∀ x ∈ nsubL T.ns, x ∈ nsubL [] := by intro T h; simp [nsubL] at h
  have hcons : ∀ t ts, (∀ T ∈ nsubT t, ∀ x ∈ nsubL T.ns, x ∈ nsubT t) → (∀ T ∈ nsubL ts, ∀ x ∈ nsubL T.ns, x ∈ nsubL ts) →
      (∀ T ∈ nsubL (t :: ts), ∀ x ∈ nsubL T.ns, x ∈ nsubL (t :: ts)) := by
    intro t ts h1 h2 T hT x hx
    rw [nsubL] at hT ⊢
    rcases List.mem_append.1 hT with hT | hT
    · exact List.mem_append_left _ (h1 T hT x hx)
    · exact List.mem_append_right _ (h2 T hT x hx)
  exact ⟨tree_indT hnode hnil hcons, tree_indL hnode hnil hcons⟩

theorem nsubL_append_mem (a b : List Tree) : ∀ x ∈ nsubL (a ++ b), x ∈ nsubL a ∨ x ∈ nsubL b := by
  induction a with
  | nil => intro x hx; exact Or.inr hx
  | cons y ys ih2 =>
    intro x hx
    rw [List.cons_append, nsubL] at hx
    rcases List.mem_append.1 hx with hx | hx
    · exact Or.inl (by rw [nsubL]; exact List.mem_append_left _ hx)
    · rcases ih2 x hx with h | h
      · exact Or.inl (by rw [nsubL]; exact List.mem_append_right _ h)
      · exact Or.inr h

theorem next_nsub (p : Tree → Bool) (objs : List Tree) :
    ∀ x ∈ nsubL (objs.flatMap (fun o => if p o then o.ns else [o])), x ∈ nsubL objs := by
  induction objs with
  | nil => intro x hx; simpa using hx
  | cons o os ihh =>
    intro x hx
    rw [List.flatMap_cons] at hx
    rw [nsubL]
    rcases nsubL_append_mem _ _ x hx with h | h
    · refine List.mem_append_left _ ?_
      by_cases hpo : p o = true
      · simp only [hpo, if_true] at h
        rw [nsubT_eq]; exact List.mem_cons_of_mem _ h
      · have : p o = false := by simpa using hpo
        simp only [this, Bool.false_eq_true, if_false, nsubL, List.append_nil] at h
        exact h
    · exact List.mem_append_right _ (ihh x h)

/-- every tree taken by the level loop is a normal-reachable subtree of the frontier -/
theorem loopT_sub : ∀ (fuel : Nat) (objs : List Tree), ∀ lv ∈ levelsLoopT fuel objs, ∀ T ∈ lv, T ∈ nsubL objs := by
  intro fuel
  induction fuel with
  | zero => intro objs lv h; simp [levelsLoopT] at h
  | succ fuel ih =>
    intro objs lv hlv T hT
    cases objs with
    | nil => simp [levelsLoopT] at hlv
    | cons first rest =>
      rw [levelsLoopT] at hlv
      rcases List.mem_cons.1 hlv with rfl | hlv
      · exact nsubL_mem_of_mem _ T (List.mem_filter.1 hT).1 T (nsubT_self T)
      · exact next_nsub _ _ T (ih _ lv hlv T hT)

/-- the normal-reachable subtrees of a relabelled tree are the relabelled occurrences -/
theorem nsub_is_occ :
    (∀ t, ∀ s par rk pv nx, ∀ T ∈ nsubT (relabelT s t), ∃ oc ∈ occsT s par rk pv nx t, T = relabelT oc.id oc.t) ∧
    (∀ l, ∀ s par rk pv, ∀ T ∈ nsubL (relabelL s l), ∃ oc ∈ occsL s par rk pv l, T = relabelT oc.id oc.t) := by
  have hnode : ∀ o ns ms ios mis,
      (∀ s par rk pv, ∀ T ∈ nsubL (relabelL s ns), ∃ oc ∈ occsL s par rk pv ns, T = relabelT oc.id oc.t) →
      (∀ s par rk pv, ∀ T ∈ nsubL (relabelL s ms), ∃ oc ∈ occsL s par rk pv ms, T = relabelT oc.id oc.t) →
      (∀ s par rk pv nx, ∀ T ∈ nsubT (relabelT s (.node o ns ms ios mis)),
        ∃ oc ∈ occsT s par rk pv nx (.node o ns ms ios mis), T = relabelT oc.id oc.t) := by
    intro o ns ms ios mis h1 _ s par rk pv nx T hT
    rw [nsubT_eq, relabelT_ns] at hT
    rw [occsT]
    rcases List.mem_cons.1 hT with rfl | hT
    · exact ⟨_, List.mem_cons_self, rfl⟩
    · obtain ⟨oc, hoc, e⟩ := h1 (s + 1) s 0 (-1) T hT
      exact ⟨oc, by simp only [List.mem_cons, List.mem_append]; exact Or.inr (Or.inl (Or.inl (Or.inl hoc))), e⟩
  have hnil : ∀ s par rk pv, ∀ T ∈ nsubL (relabelL s []), ∃ oc ∈ occsL s par rk pv [], T = relabelT oc.id oc.t := by
    intro s par rk pv T hT; rw [relabelL, nsubL] at hT; simp at hT
  have hcons : ∀ t ts,
      (∀ s par rk pv nx, ∀ T ∈ nsubT (relabelT s t), ∃ oc ∈ occsT s par rk pv nx t, T = relabelT oc.id oc.t) →
      (∀ s par rk pv, ∀ T ∈ nsubL (relabelL s ts), ∃ oc ∈ occsL s par rk pv ts, T = relabelT oc.id oc.t) →
      (∀ s par rk pv, ∀ T ∈ nsubL (relabelL s (t :: ts)), ∃ oc ∈ occsL s par rk pv (t :: ts), T = relabelT oc.id oc.t) := by
    intro t ts h1 h2 s par rk pv T hT
    rw [relabelL, nsubL] at hT
    rw [occsL]
    rcases List.mem_append.1 hT with hT | hT
    · obtain ⟨oc, hoc, e⟩ := h1 s par rk pv _ T hT
      exact ⟨oc, List.mem_append_left _ hoc, e⟩
    · obtain ⟨oc, hoc, e⟩ := h2 (s + sizeT t) par (rk + 1) s T hT
      exact ⟨oc, List.mem_append_right _ hoc, e⟩
  exact ⟨tree_indT hnode hnil hcons, tree_indL hnode hnil hcons⟩

theorem relabelL_get (s : Nat) (l : List Tree) (j : Nat) (c : Tree) (h : l[j]? = some c) :
    (relabelL s l)[j]? = some (relabelT (startN s l j) c) := by
  induction l generalizing s j with
  | nil => simp at h
  | cons a as ih =>
    rw [relabelL]
    cases j with
    | zero => simp at h; subst h; simp [startN_zero]
    | succ j =>
      simp only [List.getElem?_cons_succ] at h ⊢
      rw [ih (s + sizeT a) j h, startN_cons_succ]

/-- the levels with their subtrees -/
def connectLevelsT (t : Tree) : List (List Tree) := [t] :: levelsLoopT (objsT t).length t.ns

theorem connectLevels_eq_T (t : Tree) : connectLevels t = (connectLevelsT t).map (·.map (·.obj)) := by
  unfold connectLevels connectLevelsT
  rw [List.map_cons, levelsLoop_eq_T]; rfl

theorem connectLevelsT_sub (t : Tree) : ∀ lv ∈ connectLevelsT t, ∀ T ∈ lv, T ∈ nsubT t := by
  intro lv hlv T hT
  unfold connectLevelsT at hlv
  rcases List.mem_cons.1 hlv with rfl | hlv
  · simp only [List.mem_singleton] at hT; subst hT; exact nsubT_self _
  · rw [nsubT_eq]; exact List.mem_cons_of_mem _ (loopT_sub _ _ lv hlv T hT)

/-- in the levels of any tree, the normal children of an object of level `i` are in strictly later levels -/
theorem connectLevelsT_children (t : Tree) (i : Nat) (lv : List Tree) (hi : (connectLevelsT t)[i]? = some lv) (T : Tree)
    (hT : T ∈ lv) (c : Tree) (hc : c ∈ T.ns) : ∃ (j : Nat) (lv' : List Tree), i < j ∧ (connectLevelsT t)[j]? = some lv' ∧ c ∈ lv' := by
  have hfuel : (nclL t.ns).length ≤ (objsT t).length := by
    have h1 := ncl_le_objs.1 t
    rw [nclT_eq] at h1
    simp only [List.length_cons] at h1
    omega
  have hcov := loopT_cover (objsT t).length t.ns hfuel
  unfold connectLevelsT at hi ⊢
  cases i with
  | zero =>
    simp only [List.getElem?_cons_zero, Option.some.injEq] at hi
    subst hi
    simp only [List.mem_singleton] at hT
    subst hT
    obtain ⟨j, lv', hj, hc'⟩ := hcov.1 c hc
    exact ⟨j + 1, lv', by omega, by simpa using hj, hc'⟩
  | succ i =>
    simp only [List.getElem?_cons_succ] at hi
    obtain ⟨j, lv', hij, hj, hc'⟩ := hcov.2 i lv hi T hT c hc
    exact ⟨j + 1, lv', by omega, by simpa using hj, hc'⟩

theorem normalLevels_T (t : Tree) (k : Nat) (hk : k < (normalLevels t).length) :
    ∃ lvT, (connectLevelsT (relabelT 0 t))[k]? = some lvT ∧ ((normalLevels t)[k]).2 = lvT.map (fun T => T.obj.gp) := by
  obtain ⟨lv, hlv, e⟩ := normalLevels_get t k hk
  rw [connectLevels_eq_T, List.getElem?_map] at hlv
  cases hT : (connectLevelsT (relabelT 0 t))[k]? with
  | none => rw [hT] at hlv; simp at hlv
  | some lvT =>
    rw [hT] at hlv
    simp only [Option.map_some, Option.some.injEq] at hlv
    refine ⟨lvT, rfl, ?_⟩
    rw [e, ← hlv, List.map_map]; rfl

theorem normalLevels_length_T (t : Tree) : (normalLevels t).length = (connectLevelsT (relabelT 0 t)).length := by
  unfold normalLevels; rw [List.length_map, connectLevels_eq_T, List.length_map]

/-- the place of a normal occurrence whose id is listed in level `k` -/
theorem place_of_listed (t : Tree) (ht : typedT t = true) (hr : isNormal t.obj.type = true) (oc : Occ) (hoc : oc ∈ occs t)
    (k : Nat) (hk : k < (normalLevels t).length) (hid : oc.id ∈ ((normalLevels t)[k]).2) :
    (placeOf (normalLevels t) (occs t) oc.id oc.t.obj.type).1 = (k : Int) := by
  obtain ⟨oc', hoc', hid', hp⟩ := level_member t ht hr k hk oc.id hid
  have : oc' = oc := occ_unique t oc' oc hoc' hoc hid'
  subst this
  rw [hp]

theorem clause_depth_increases : objClause "depth-increases" = fun d _ o => match d.obj? o.parent with
      | none => true
      | some p => if isNormal o.type then decide (p.depth < o.depth) else true := by
  simp only [objClause, objClauses, List.find?, String.reduceBEq]
  rfl

theorem render_depth_increases (t : Tree) (ht : typedT t = true) (hr : isNormal t.obj.type = true) (h : Hdr) (ex : RObj → Extra)
    (o : Obj) (ho : o ∈ (render t h ex).objs) :
    objClause "depth-increases" (render t h ex) (mkAux (render t h ex)) o = true := by
  rw [clause_depth_increases]
  obtain ⟨oc, hoc, rfl⟩ := render_mem t h ex o ho
  simp only [rObj, ro_parent, ro_type, ro_depth]
  rcases up_cases t ht oc hoc with rfl | ⟨poc, hp, q, hq, j, c, hj, rfl, _, htl⟩
  · rw [render_obj?_neg _ _ _ _ (by show (-1 : Int) < 0; omega)]
  · have hpar : (sibRecAt (kstart q poc) poc.id 0 (-1) (kids q poc.t) j c).parent = poc.id := rfl
    have hty : (sibRecAt (kstart q poc) poc.id 0 (-1) (kids q poc.t) j c).t = c := rfl
    have hid : (sibRecAt (kstart q poc) poc.id 0 (-1) (kids q poc.t) j c).id = startN (kstart q poc) (kids q poc.t) j := rfl
    rw [hpar, parent_lookup t h ex poc hp]
    simp only [hty, hid, rObj, ro_depth]
    have hk := kkind_arith q hq _ (typedL_get _ _ htl j c hj).1
    rcases hk with ⟨rfl, hk⟩ | ⟨rfl, hk⟩ | ⟨rfl, hk⟩ | ⟨rfl, hk⟩
    · have hN : isNormal c.obj.type = true := (isNormal_iff _).2 hk
      simp only [hN, if_true, decide_eq_true_eq]
      simp only [kids, kstart] at hj hoc ⊢
      -- the parent is a normal object, listed in some level kp
      have hf := typedT_facts poc.t (occs_typed.1 t ht 0 (-1) 0 (-1) (-1) poc hp)
      have hlen := getElem?_lt hj
      have hPN : isNormal poc.t.obj.type = true := (isNormal_iff _).2 (by omega)
      obtain ⟨l, hl, hpid⟩ := normal_in_level t ht hr poc hp hPN
      obtain ⟨kp, hkp⟩ := List.getElem?_of_mem hl
      have hkplt := getElem?_lt hkp
      have hkp' : (normalLevels t)[kp] = l := by rw [List.getElem?_eq_getElem hkplt] at hkp; exact Option.some.inj hkp
      have hpid' : poc.id ∈ ((normalLevels t)[kp]).2 := by rw [hkp']; exact hpid
      rw [place_of_listed t ht hr poc hp kp hkplt hpid']
      -- its subtree in the level loop
      obtain ⟨lvT, hlvT, eT⟩ := normalLevels_T t kp hkplt
      rw [eT] at hpid'
      obtain ⟨T, hT, hTg⟩ := List.mem_map.1 hpid'
      have hsub := connectLevelsT_sub (relabelT 0 t) lvT (List.mem_of_getElem? hlvT) T hT
      obtain ⟨oc', hoc', eT'⟩ := nsub_is_occ.1 t 0 (-1) 0 (-1) (-1) T hsub
      have : oc' = poc := occ_unique t oc' poc hoc' hp (by rw [eT', relabelT_obj] at hTg; exact hTg)
      subst this
      have hcmem : relabelT (startN (oc'.id + 1) oc'.t.ns j) c ∈ T.ns := by
        rw [eT', relabelT_ns]
        exact List.mem_of_getElem? (relabelL_get _ _ j c hj)
      obtain ⟨kc, lv', hlt, hkc, hc'⟩ := connectLevelsT_children (relabelT 0 t) kp lvT hlvT T hT _ hcmem
      have hkclt : kc < (normalLevels t).length := by rw [normalLevels_length_T]; exact getElem?_lt hkc
      obtain ⟨lvT', hlvT', eT2⟩ := normalLevels_T t kc hkclt
      rw [hkc] at hlvT'
      have : lv' = lvT' := Option.some.inj hlvT'
      subst this
      have hcid : startN (oc'.id + 1) oc'.t.ns j ∈ ((normalLevels t)[kc]).2 := by
        rw [eT2]; exact List.mem_map.2 ⟨_, hc', by rw [relabelT_obj]⟩
      have := place_of_listed t ht hr _ hoc kc hkclt hcid
      have h2 : (placeOf (normalLevels t) (occs t) (startN (oc'.id + 1) oc'.t.ns j) c.obj.type).1 = (kc : Int) := this
      rw [h2]
      omega
    all_goals
      have hN : isNormal c.obj.type = false := (isNormal_false_iff _).2 (by omega)
      simp only [hN, Bool.false_eq_true, if_false]

/-! ### level0-is-root, normal-levels-nonempty, depth-le-objects -/

theorem levelsLoop_nonempty : ∀ (fuel : Nat) (objs : List Tree), ∀ lv ∈ levelsLoop fuel objs, lv ≠ [] := by
  intro fuel
  induction fuel with
  | zero => intro objs lv h; simp [levelsLoop] at h
  | succ fuel ih =>
    intro objs lv hlv
    cases objs with
    | nil => simp [levelsLoop] at hlv
    | cons first rest =>
      rw [levelsLoop] at hlv
      rcases List.mem_cons.1 hlv with rfl | hlv
      · generalize htop : List.foldl (fun top o => if (!typeEq top.obj o.obj && findSameT top.obj o) = true then o else top)
          ((List.find? (fun o => o.obj.type != tPU) (first :: rest)).getD first) (first :: rest) = top
        have htopmem : top ∈ first :: rest := by
          have h0 : (List.find? (fun o => o.obj.type != tPU) (first :: rest)).getD first ∈ first :: rest := by
            cases hf : List.find? (fun o => o.obj.type != tPU) (first :: rest) with
            | none => exact List.mem_cons_self
            | some x => exact List.mem_of_find?_eq_some hf
          rcases foldl_mem (fun top o => if (!typeEq top.obj o.obj && findSameT top.obj o) = true then o else top)
            (fun a b => by by_cases h : (!typeEq a.obj b.obj && findSameT a.obj b) = true <;> simp [h]) (first :: rest) _ with h | h
          · rw [← htop, h]; exact h0
          · rw [← htop]; exact h
        intro he
        have : top.obj ∈ List.map (fun x => x.obj) (List.filter (fun o => typeEq top.obj o.obj) (first :: rest)) :=
          List.mem_map.2 ⟨top, List.mem_filter.2 ⟨htopmem, typeEq_refl _⟩, rfl⟩
        rw [he] at this; simp at this
      · exact ih _ lv hlv

theorem connectLevels_nonempty (t : Tree) : ∀ lv ∈ connectLevels t, lv ≠ [] := by
  intro lv hlv
  unfold connectLevels at hlv
  rcases List.mem_cons.1 hlv with rfl | hlv
  · simp
  · exact levelsLoop_nonempty _ _ lv hlv

theorem clause_normal_levels_nonempty : topClause "normal-levels-nonempty" = fun d _ =>
    d.levels.all (fun l => decide (l.depth < 0) || !l.objs.isEmpty) := by
  simp only [topClause, topClauses, List.find?, String.reduceBEq]

theorem render_normal_levels_nonempty (t : Tree) (h : Hdr) (ex : RObj → Extra) :
    topClause "normal-levels-nonempty" (render t h ex) (mkAux (render t h ex)) = true := by
  rw [clause_normal_levels_nonempty]
  simp only [List.all_eq_true]
  intro l hl
  rw [render_levels] at hl
  rcases List.mem_append.1 hl with hl | hl
  · obtain ⟨k, hk⟩ := List.getElem?_of_mem hl
    have hklt : k < (normalLevels t).length := by rw [← normalPart_length]; exact getElem?_lt hk
    rw [normalPart_get t k hklt] at hk
    rw [← Option.some.inj hk]
    obtain ⟨lv, hlv, e⟩ := normalLevels_get t k hklt
    have hne := connectLevels_nonempty _ lv (List.mem_of_getElem? hlv)
    rw [e]
    cases lv with
    | nil => exact absurd rfl hne
    | cons a as => simp
  · unfold specialPart at hl
    obtain ⟨ty, hty, rfl⟩ := List.mem_map.1 hl
    have hneg : (specialDepth ty).getD 0 < 0 := by
      simp only [specialTypes, List.mem_cons, List.mem_nil_iff, or_false] at hty
      rcases hty with rfl | rfl | rfl | rfl | rfl | rfl <;> decide
    simp [hneg]

theorem clause_level0_is_root : topClause "level0-is-root" = fun d _ => match levelOf d 0 with
      | some l => l.objs == [0] && l.type == (tMACHINE : Int)
      | none => false := by
  simp only [topClause, topClauses, List.find?, String.reduceBEq]
  rfl

theorem normalLevels_zero (t : Tree) : 0 < (normalLevels t).length ∧ (normalLevels t)[0]? = some (t.obj.type, [0]) := by
  unfold normalLevels connectLevels
  simp only [List.map_cons, List.length_cons, List.getElem?_cons_zero, relabelT_obj, List.head?_cons, Option.map_some,
    Option.getD_some, List.map_nil]
  exact ⟨by omega, trivial⟩

theorem render_level0_is_root (t : Tree) (hm : t.obj.type = tMACHINE) (h : Hdr) (ex : RObj → Extra) :
    topClause "level0-is-root" (render t h ex) (mkAux (render t h ex)) = true := by
  rw [clause_level0_is_root]
  have h0 := normalLevels_zero t
  have hl := levelOf_normal t h ex 0 h0.1
  have e : (normalLevels t)[0] = (t.obj.type, [0]) := by
    have := h0.2; rw [List.getElem?_eq_getElem h0.1] at this; exact Option.some.inj this
  show (match levelOf (render t h ex) 0 with
      | some l => l.objs == [0] && l.type == (tMACHINE : Int)
      | none => false) = true
  have hl' : levelOf (render t h ex) 0 = some ⟨((0 : Nat) : Int), (((normalLevels t)[0]).1 : Int), ((normalLevels t)[0]).2.map (fun (i : Nat) => (i : Int))⟩ := hl
  rw [hl', e, hm]
  rfl

theorem ncl_relabel_le :
    (∀ t, ∀ s, (nclT (relabelT s t)).length ≤ sizeT t) ∧ (∀ l, ∀ s, (nclL (relabelL s l)).length ≤ sizeL l) := by
  have hnode : ∀ o ns ms ios mis, (∀ s, (nclL (relabelL s ns)).length ≤ sizeL ns) → (∀ s, (nclL (relabelL s ms)).length ≤ sizeL ms) →
      (∀ s, (nclT (relabelT s (.node o ns ms ios mis))).length ≤ sizeT (.node o ns ms ios mis)) := by
    intro o ns ms ios mis h1 _ s
    rw [relabelT, nclT, sizeT, List.length_cons]
    have := h1 (s + 1); omega
  have hnil : ∀ s, (nclL (relabelL s [])).length ≤ sizeL [] := by intro s; rw [relabelL, nclL]; simp
  have hcons : ∀ t ts, (∀ s, (nclT (relabelT s t)).length ≤ sizeT t) → (∀ s, (nclL (relabelL s ts)).length ≤ sizeL ts) →
      (∀ s, (nclL (relabelL s (t :: ts))).length ≤ sizeL (t :: ts)) := by
    intro t ts h1 h2 s
    rw [relabelL, nclL, sizeL, List.length_append]
    have := h1 s; have := h2 (s + sizeT t); omega
  exact ⟨tree_indT hnode hnil hcons, tree_indL hnode hnil hcons⟩

theorem length_le_flatten {α : Type} (L : List (List α)) (h : ∀ l ∈ L, l ≠ []) : L.length ≤ L.flatten.length := by
  induction L with
  | nil => simp
  | cons a as ih =>
    have ha : 0 < a.length := List.length_pos_iff.2 (h a List.mem_cons_self)
    have := ih (fun l hl => h l (List.mem_cons_of_mem _ hl))
    simp only [List.length_cons, List.flatten_cons, List.length_append]; omega

theorem clause_depth_le_objects : topClause "depth-le-objects" = fun d _ => decide (d.depth ≤ d.objs.length) := by
  simp only [topClause, topClauses, List.find?, String.reduceBEq]

theorem render_depth_le_objects (t : Tree) (h : Hdr) (ex : RObj → Extra) :
    topClause "depth-le-objects" (render t h ex) (mkAux (render t h ex)) = true := by
  rw [clause_depth_le_objects]
  simp only [decide_eq_true_eq]
  show (normalLevels t).length ≤ ((occs t).map (rObj t ex)).length
  rw [List.length_map, show (occs t).length = sizeT t from occsT_length t 0 (-1) 0 (-1) (-1)]
  unfold normalLevels
  rw [List.length_map]
  have h1 := length_le_flatten _ (connectLevels_nonempty (relabelT 0 t))
  have h2 := (connectLevels_perm (relabelT 0 t)).length_eq
  have h3 := ncl_relabel_le.1 t 0
  omega

end Hw.Topo.Restrict
