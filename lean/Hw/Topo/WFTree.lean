/-
  Hw.Topo.WFTree — the clauses of `Tree d` (Hw.Topo.WFLemmas) derived from well-formedness `WF d` (Hw.Topo.WF).

  Derived here (all clauses of `Tree` except the DFS numbering `T_order`, which `WF` does not imply):
  `T_root_of_wf`, `T_depth_of_wf`, `T_parent_of_wf` (clause extraction and boolean unfolding),
  `T_typedepth_of_wf`, `T_sizes_of_wf` (pigeonhole on the level depths: `WF.level_depths_perm`),
  `T_ids_of_wf` (counting over the level arrays: `WF.levelEntries_perm`), `T_inlevel_of_wf`, `T_levels_of_wf`,
  `T_children_of_wf` (`filterMap` over arrays whose entries all resolve), `T_disjoint_of_wf`, `T_union_of_wf`
  (fold invariants of `mkAux`: `mkAux_kids`, and `WF.childObjs_perm_kids`), and `Tree_of_wf_partial`.
-/
import Hw.Topo.WFLemmas
namespace Hw.Topo

/-! ### STEP 1 — clause extraction -/

/-- the `k`-th per-object clause holds for every object of a well-formed dump -/
theorem WF.obj_clause {d : Dump} (h : WF d) (k : Nat) {c : String × (Dump → Aux → Obj → Bool)}
    (hk : objClauses[k]? = some c) {o : Obj} (ho : o ∈ d.objs) : c.2 d (mkAux d) o = true :=
  h.2 c (List.mem_of_getElem? hk) o ho

/-- the `k`-th topology clause holds for a well-formed dump -/
theorem WF.top_clause {d : Dump} (h : WF d) (k : Nat) {c : String × (Dump → Aux → Bool)}
    (hk : topClauses[k]? = some c) : c.2 d (mkAux d) = true :=
  h.1 c (List.mem_of_getElem? hk)

section extraction
variable {d : Dump} (h : WF d) {o : Obj} (ho : o ∈ d.objs)
include h ho

/-- "id-is-position" -/
theorem WF.obj_id_is_position : ((d.objs[o.id]?).map (·.id) == some o.id) = true :=
  h.obj_clause 0 rfl ho

/-- "type-in-range" -/
theorem WF.obj_type_in_range : o.type < tMAX := by
  simpa using h.obj_clause 1 rfl ho

/-- "root-or-parent" -/
theorem WF.obj_root_or_parent :
    (if o.id == 0 then o.parent == -1
     else decide (0 ≤ o.parent) && idOk d o.parent && o.parent != (o.id : Int)) = true :=
  h.obj_clause 3 rfl ho

/-- "parent-kind" -/
theorem WF.obj_parent_kind :
    (match d.obj? o.parent with
      | none => o.id == 0
      | some p =>
        if isNormal o.type then isNormal p.type
        else if isMemory o.type then (isNormal p.type || p.type == tMEMCACHE)
        else if isIO o.type then (isNormal p.type || isIO p.type)
        else true) = true :=
  h.obj_clause 4 rfl ho

/-- "normal-child-slot" -/
theorem WF.obj_normal_child_slot :
    (match d.obj? o.parent with
      | none => true
      | some p => if isNormal o.type then (p.children[o.rank]?) == some (o.id : Int) else true) = true :=
  h.obj_clause 5 rfl ho

/-- "no-children-where-forbidden" -/
theorem WF.obj_no_children_where_forbidden :
    ((if o.type == tPU then o.arity == 0 && o.marity == 0 else true) &&
      (if o.type == tNUMA then o.arity == 0 && o.marity == 0 else true) &&
      (if isMemory o.type then o.arity == 0 && o.ioarity == 0 else true) &&
      (if isIO o.type then o.arity == 0 && o.marity == 0 else true) &&
      (if isMisc o.type then o.arity == 0 && o.marity == 0 && o.ioarity == 0 else true)) = true :=
  h.obj_clause 10 rfl ho

/-- "depth-by-type" -/
theorem WF.obj_depth_by_type :
    (match specialDepth o.type with
      | some sd => o.depth == sd
      | none => decide (0 ≤ o.depth) && decide (o.depth.toNat < d.depth)) = true :=
  h.obj_clause 11 rfl ho

/-- "depth-increases" -/
theorem WF.obj_depth_increases :
    (match d.obj? o.parent with
      | none => true
      | some p => if isNormal o.type then decide (p.depth < o.depth) else true) = true :=
  h.obj_clause 12 rfl ho

/-- "sets-presence" -/
theorem WF.obj_sets_presence :
    (if isSpecial o.type then o.cpuset.isNone && o.ccpuset.isNone && o.nodeset.isNone && o.cnodeset.isNone
     else o.cpuset.isSome && o.ccpuset.isSome && o.nodeset.isSome && o.cnodeset.isSome) = true :=
  h.obj_clause 14 rfl ho

/-- "set-in-complete" -/
theorem WF.obj_set_in_complete :
    (subset (o.cpuset.getD 0) (o.ccpuset.getD 0) && subset (o.nodeset.getD 0) (o.cnodeset.getD 0)) = true :=
  h.obj_clause 15 rfl ho

/-- "set-in-parent" -/
theorem WF.obj_set_in_parent :
    (match d.obj? o.parent with
      | none => true
      | some p => if isSpecial o.type then true else
          subset (o.cpuset.getD 0) (p.cpuset.getD 0) && subset (o.ccpuset.getD 0) (p.ccpuset.getD 0) &&
          subset (o.nodeset.getD 0) (p.nodeset.getD 0) && subset (o.cnodeset.getD 0) (p.cnodeset.getD 0)) = true :=
  h.obj_clause 16 rfl ho

/-- "pu-cpuset" -/
theorem WF.obj_pu_cpuset :
    (if o.type == tPU then
      decide (0 ≤ o.osidx) && o.cpuset == some (single o.osidx.toNat) && o.ccpuset == some (single o.osidx.toNat)
     else true) = true :=
  h.obj_clause 17 rfl ho

/-- "numa-nodeset" -/
theorem WF.obj_numa_nodeset :
    (if o.type == tNUMA then
      decide (0 ≤ o.osidx) && o.nodeset == some (single o.osidx.toNat) && o.cnodeset == some (single o.osidx.toNat)
     else true) = true :=
  h.obj_clause 18 rfl ho

/-- "memory-child-shares-cpuset" -/
theorem WF.obj_memory_child_shares_cpuset :
    (match d.obj? o.parent with
      | none => true
      | some p => if isMemory o.type then o.cpuset == p.cpuset else true) = true :=
  h.obj_clause 20 rfl ho

end extraction

section topExtraction
variable {d : Dump} (h : WF d)
include h

/-- "nobjs" -/
theorem WF.top_nobjs : (d.objs.length == d.nobjs && decide (0 < d.nobjs)) = true :=
  h.top_clause 0 rfl

/-- "root-is-machine" -/
theorem WF.top_root_is_machine :
    (d.root == 0 && (match d.objs[0]? with
      | some r => r.type == tMACHINE && r.depth == 0 && r.parent == -1
      | none => false)) = true :=
  h.top_clause 1 rfl

/-- "machine-only-at-root" -/
theorem WF.top_machine_only_at_root : d.objs.all (fun o => o.type != tMACHINE || o.id == 0) = true :=
  h.top_clause 2 rfl

/-- "pu-level-deepest" -/
theorem WF.top_pu_level_deepest :
    (decide (0 < d.depth) && (match levelOf d ((d.depth : Int) - 1) with
      | some l => l.type == (tPU : Int) && !l.objs.isEmpty
      | none => false) &&
      d.objs.all (fun o => o.type != tPU || o.depth == (d.depth : Int) - 1)) = true :=
  h.top_clause 4 rfl

/-- "levels-listed" -/
theorem WF.top_levels_listed :
    ((List.range d.depth).all (fun k => (levelOf d (k : Int)).isSome) &&
      [(-3 : Int), -4, -5, -6, -7, -8].all (fun k => (levelOf d k).isSome) &&
      d.levels.length == d.depth + 6) = true :=
  h.top_clause 6 rfl

/-- "levels-cover-objects" -/
theorem WF.top_levels_cover_objects :
    ((d.levels.map (fun l => l.objs.length)).sum == d.objs.length) = true :=
  h.top_clause 7 rfl

/-- "type-depth-inverse", length part -/
theorem WF.top_typeDepths_length : d.typeDepths.length = tMAX := by
  have := h.top_clause 10 rfl
  simp only [Bool.and_eq_true, beq_iff_eq] at this
  exact this.1

end topExtraction

/-! ### facts about the type classes (finite case analysis over the 20 types) -/

theorem lt14_of_normal {t : Nat} (ht : isNormal t = true) : t < 14 := by
  have : t ≤ tGROUP := of_decide_eq_true ht
  unfold tGROUP at this
  omega

theorem specialDepth_of_normal {t : Nat} (ht : isNormal t = true) : specialDepth t = none := by
  have key : ∀ t, t < 14 → specialDepth t = none := by decide
  exact key t (lt14_of_normal ht)

theorem specialDepth_of_not_normal {t : Nat} (hlt : t < tMAX) (ht : isNormal t = false) :
    ∃ sd, specialDepth t = some sd ∧ sd < 0 := by
  have key : ∀ t, t < 20 → isNormal t = false →
      (match specialDepth t with | some sd => decide (sd < 0) | none => false) = true := by decide
  have := key t hlt ht
  cases hs : specialDepth t with
  | none => rw [hs] at this; cases this
  | some sd => rw [hs] at this; exact ⟨sd, rfl, by simpa using this⟩

theorem not_special_of_normal {t : Nat} (ht : isNormal t = true) : isSpecial t = false := by
  have key : ∀ t, t < 14 → isSpecial t = false := by decide
  exact key t (lt14_of_normal ht)

theorem not_special_of_memory {t : Nat} (ht : isMemory t = true) : isSpecial t = false := by
  simp only [isMemory, Bool.or_eq_true, beq_iff_eq] at ht
  rcases ht with rfl | rfl <;> decide

theorem not_normal_of_memory {t : Nat} (ht : isMemory t = true) : isNormal t = false := by
  simp only [isMemory, Bool.or_eq_true, beq_iff_eq] at ht
  rcases ht with rfl | rfl <;> decide

theorem special_of_not_normal_not_memory {t : Nat} (hlt : t < tMAX) (hn : isNormal t = false)
    (hm : isMemory t = false) : isSpecial t = true := by
  have key : ∀ t, t < 20 → isNormal t = false → isMemory t = false → isSpecial t = true := by decide
  exact key t hlt hn hm

/-! ### STEP 2 (a) — the root -/

theorem T_root_of_wf {d : Dump} (h : WF d) : T_root d := by
  have h1 := h.top_root_is_machine
  simp only [Bool.and_eq_true] at h1
  obtain ⟨_, h2⟩ := h1
  cases hr : d.objs[0]? with
  | none => rw [hr] at h2; cases h2
  | some r =>
    rw [hr] at h2
    simp only [Bool.and_eq_true, beq_iff_eq] at h2
    refine ⟨r, hr, h2.2, ?_, h2.1.2⟩
    rw [h2.1.1]; decide

/-! ### STEP 2 (b) — depths, presence of sets, PUs, NUMA nodes -/

section depth
variable {d : Dump} (h : WF d) {o : Obj} (ho : o ∈ d.objs)
include h ho

/-- normal objects live at a depth in `[0, d.depth)` -/
theorem WF.normal_depth (hn : isNormal o.type = true) : 0 ≤ o.depth ∧ o.depth < (d.depth : Int) := by
  have h1 := h.obj_depth_by_type ho
  rw [specialDepth_of_normal hn] at h1
  simp only [Bool.and_eq_true, decide_eq_true_eq] at h1
  omega

/-- non-normal objects live at their (negative) virtual depth -/
theorem WF.special_depth (hn : isNormal o.type = false) : specialDepth o.type = some o.depth ∧ o.depth < 0 := by
  have h1 := h.obj_depth_by_type ho
  obtain ⟨sd, hs, hneg⟩ := specialDepth_of_not_normal (h.obj_type_in_range ho) hn
  rw [hs] at h1
  simp only [beq_iff_eq] at h1
  rw [h1]; exact ⟨hs, hneg⟩

/-- normal and memory objects have all four sets -/
theorem WF.sets_present (hk : isNormal o.type = true ∨ isMemory o.type = true) :
    o.cpuset.isSome = true ∧ o.ccpuset.isSome = true ∧ o.nodeset.isSome = true ∧ o.cnodeset.isSome = true := by
  have h1 := h.obj_sets_presence ho
  have hs : isSpecial o.type = false := by
    rcases hk with hk | hk
    · exact not_special_of_normal hk
    · exact not_special_of_memory hk
  rw [hs] at h1
  simp only [Bool.false_eq_true, if_false, Bool.and_eq_true] at h1
  exact ⟨h1.1.1.1, h1.1.1.2, h1.1.2, h1.2⟩

/-- I/O and Misc objects have no set -/
theorem WF.sets_absent (hn : isNormal o.type = false) (hm : isMemory o.type = false) :
    o.cpuset = none ∧ o.ccpuset = none ∧ o.nodeset = none ∧ o.cnodeset = none := by
  have h1 := h.obj_sets_presence ho
  rw [special_of_not_normal_not_memory (h.obj_type_in_range ho) hn hm] at h1
  simp only [if_true, Bool.and_eq_true, Option.isNone_iff_eq_none] at h1
  exact ⟨h1.1.1.1, h1.1.1.2, h1.1.2, h1.2⟩

/-- PUs: non-negative os_index, singleton cpuset, deepest level -/
theorem WF.pu_facts (ht : o.type = tPU) :
    0 ≤ o.osidx ∧ cs o = single o.osidx.toNat ∧ o.depth = (d.depth : Int) - 1 := by
  have h1 := h.obj_pu_cpuset ho
  have h2 := h.top_pu_level_deepest
  simp only [Bool.and_eq_true, List.all_eq_true] at h2
  have h3 := h2.2 o ho
  simp only [ht, beq_self_eq_true, if_true, Bool.and_eq_true, decide_eq_true_eq, beq_iff_eq] at h1
  simp only [ht, bne_self_eq_false, Bool.false_or, beq_iff_eq] at h3
  refine ⟨h1.1.1, ?_, h3⟩
  unfold cs; rw [h1.1.2]; rfl

/-- NUMA nodes: non-negative os_index, singleton nodeset, virtual depth -3 -/
theorem WF.numa_facts (ht : o.type = tNUMA) :
    0 ≤ o.osidx ∧ nsOf o = single o.osidx.toNat ∧ o.depth = -3 := by
  have h1 := h.obj_numa_nodeset ho
  have h2 := h.obj_depth_by_type ho
  simp only [ht, beq_self_eq_true, if_true, Bool.and_eq_true, decide_eq_true_eq, beq_iff_eq] at h1
  rw [ht, show specialDepth tNUMA = some (-3) from rfl] at h2
  simp only [beq_iff_eq] at h2
  refine ⟨h1.1.1, ?_, h2⟩
  unfold nsOf; rw [h1.1.2]; rfl

end depth

theorem T_depth_of_wf {d : Dump} (h : WF d) : T_depth d := by
  intro o ho
  refine ⟨h.normal_depth ho, fun hn => (h.special_depth ho hn).2, fun hk => ?_, fun hn hm => ?_,
    h.pu_facts ho, h.numa_facts ho⟩
  · have := h.sets_present ho hk; exact ⟨this.1, this.2.2.1⟩
  · have := h.sets_absent ho hn hm; exact ⟨this.1, this.2.2.1⟩

/-! ### STEP 2 (c) — parents -/

theorem Dump.mem_of_obj? {d : Dump} {i : Int} {p : Obj} (hp : d.obj? i = some p) : p ∈ d.objs := by
  unfold Dump.obj? at hp
  split at hp
  · cases hp
  · exact List.mem_of_getElem? hp

section parent
variable {d : Dump} (h : WF d) {o : Obj} (ho : o ∈ d.objs)
include h ho

/-- the root (id 0) has no parent -/
theorem WF.root_parent (h0 : o.id = 0) : o.parent = -1 := by
  have h1 := h.obj_root_or_parent ho
  simpa [h0] using h1

/-- every non-root object has a parent in the dump, which is not itself -/
theorem WF.parent_exists (h0 : o.id ≠ 0) :
    ∃ p, d.obj? o.parent = some p ∧ p ∈ d.objs ∧ 0 ≤ o.parent ∧ o.parent ≠ (o.id : Int) := by
  have h1 := h.obj_root_or_parent ho
  have hne : (o.id == 0) = false := by simpa using h0
  rw [hne] at h1
  simp only [Bool.false_eq_true, if_false, Bool.and_eq_true, decide_eq_true_eq, idOk, Bool.or_eq_true,
    beq_iff_eq, bne_iff_ne, ne_eq] at h1
  obtain ⟨⟨hge, hid⟩, hself⟩ := h1
  have hlt : o.parent.toNat < d.objs.length := by
    rcases hid with hid | hid
    · omega
    · exact hid.2
  have hp : d.obj? o.parent = some d.objs[o.parent.toNat] := by
    unfold Dump.obj?
    rw [if_neg (by omega)]
    exact List.getElem?_eq_getElem hlt
  exact ⟨_, hp, Dump.mem_of_obj? hp, hge, hself⟩

variable {p : Obj} (hp : d.obj? o.parent = some p)
include hp

/-- a normal object has a normal parent -/
theorem WF.normal_parent_normal (hn : isNormal o.type = true) : isNormal p.type = true := by
  have h1 := h.obj_parent_kind ho
  rw [hp] at h1
  simpa [hn] using h1

/-- a memory object has a normal or memory (memcache) parent -/
theorem WF.memory_parent_kind (hm : isMemory o.type = true) :
    isNormal p.type = true ∨ isMemory p.type = true := by
  have h1 := h.obj_parent_kind ho
  rw [hp] at h1
  simp only [not_normal_of_memory hm, hm, Bool.false_eq_true, if_false, if_true, Bool.or_eq_true,
    beq_iff_eq] at h1
  rcases h1 with h1 | h1
  · exact Or.inl h1
  · exact Or.inr (by rw [h1]; decide)

/-- a normal object is strictly deeper than its parent -/
theorem WF.parent_depth_lt (hn : isNormal o.type = true) : p.depth < o.depth := by
  have h1 := h.obj_depth_increases ho
  rw [hp] at h1
  simpa [hn] using h1

/-- a normal object sits in the `children` array of its parent at its sibling rank -/
theorem WF.parent_child_slot (hn : isNormal o.type = true) : p.children[o.rank]? = some (o.id : Int) := by
  have h1 := h.obj_normal_child_slot ho
  rw [hp] at h1
  simpa [hn] using h1

/-- the sets of a normal or memory object are included in those of its parent -/
theorem WF.sets_in_parent (hs : isSpecial o.type = false) :
    subset (cs o) (cs p) = true ∧ subset (o.ccpuset.getD 0) (p.ccpuset.getD 0) = true ∧
    subset (nsOf o) (nsOf p) = true ∧ subset (o.cnodeset.getD 0) (p.cnodeset.getD 0) = true := by
  have h1 := h.obj_set_in_parent ho
  rw [hp] at h1
  simp only [hs, Bool.false_eq_true, if_false, Bool.and_eq_true] at h1
  exact ⟨h1.1.1.1, h1.1.1.2, h1.1.2, h1.2⟩

/-- a memory object has the cpuset of its parent -/
theorem WF.memory_shares_cpuset (hm : isMemory o.type = true) : o.cpuset = p.cpuset := by
  have h1 := h.obj_memory_child_shares_cpuset ho
  rw [hp] at h1
  simpa [hm] using h1

end parent

theorem T_parent_of_wf {d : Dump} (h : WF d) : T_parent d := by
  intro o ho
  by_cases h0 : o.id = 0
  · exact Or.inl ⟨h0, h.root_parent ho h0⟩
  · obtain ⟨p, hp, hpm, _, _⟩ := h.parent_exists ho h0
    refine Or.inr ⟨h0, p, hp, hpm, fun hn => ?_, fun hm => ?_⟩
    · have hs := h.sets_in_parent ho hp (not_special_of_normal hn)
      exact ⟨h.normal_parent_normal ho hp hn, h.parent_depth_lt ho hp hn, h.parent_child_slot ho hp hn,
        hs.1, hs.2.2.1⟩
    · exact ⟨h.memory_shares_cpuset ho hp hm, h.memory_parent_kind ho hp hm⟩

/-! ### STEP 2 (d) — the parts of `T_typedepth` / `T_sizes` that need no counting argument -/

theorem specialDepth_neg {t : Nat} {sd : Int} (hs : specialDepth t = some sd) : sd < 0 := by
  unfold specialDepth at hs
  repeat' (split at hs)
  all_goals (simp at hs; try omega)

theorem Nat.le_sum_of_mem' {a : Nat} {l : List Nat} (ha : a ∈ l) : a ≤ l.sum := by
  induction l with
  | nil => cases ha
  | cons b l ih =>
    rw [List.sum_cons]
    rcases List.mem_cons.mp ha with rfl | ha
    · omega
    · have := ih ha; omega

section typedepth
variable {d : Dump} (h : WF d)
include h

/-- "normal-level-types" -/
theorem WF.top_normal_level_types :
    d.levels.all (fun l =>
      if 0 ≤ l.depth then decide (0 ≤ l.type) && isNormal l.type.toNat &&
        (l.type != (tPU : Int) || l.depth == (d.depth : Int) - 1) &&
        (l.type != (tMACHINE : Int) || l.depth == 0)
      else (specialDepth l.type.toNat) == some l.depth && decide (0 ≤ l.type)) = true :=
  h.top_clause 9 rfl

/-- "type-depth-inverse", per type -/
theorem WF.top_type_depth_inverse {t : Nat} (ht : t < tMAX) :
    (match specialDepth t with
      | some sd => (d.typeDepths[t]?).getD 0 == sd
      | none =>
        match d.levels.filter (fun l => decide (0 ≤ l.depth) && l.type == (t : Int)) with
        | [] => (d.typeDepths[t]?).getD 0 == -1
        | [l] => (d.typeDepths[t]?).getD 0 == l.depth
        | _ => (d.typeDepths[t]?).getD 0 == -2) = true := by
  have := h.top_clause 10 rfl
  simp only [Bool.and_eq_true, List.all_eq_true, List.mem_range] at this
  exact this.2 t ht

/-- the dump is not empty -/
theorem WF.objs_pos : 0 < d.objs.length := by
  have := h.top_nobjs
  simp only [Bool.and_eq_true, beq_iff_eq, decide_eq_true_eq] at this
  omega

/-- `T_sizes`, second clause: a level is not longer than the object list -/
theorem WF.level_length_le {l : Level} (hl : l ∈ d.levels) : l.objs.length ≤ d.objs.length := by
  have h1 := h.top_levels_cover_objects
  simp only [beq_iff_eq] at h1
  rw [← h1]
  exact Nat.le_sum_of_mem' (List.mem_map.mpr ⟨l, hl, rfl⟩)

/-- `T_typedepth`, fifth clause: every normal depth has a level -/
theorem WF.level_at_depth {k : Nat} (hk : k < d.depth) : ∃ l ∈ d.levels, l.depth = (k : Int) := by
  have h1 := h.top_levels_listed
  simp only [Bool.and_eq_true, List.all_eq_true, List.mem_range] at h1
  have h2 := h1.1.1 k hk
  unfold levelOf at h2
  cases hf : d.levels.find? (fun l => l.depth == (k : Int)) with
  | none => rw [hf] at h2; cases h2
  | some l =>
    exact ⟨l, List.mem_of_find?_eq_some hf, by have := List.find?_some hf; simpa using this⟩

/-- every special (virtual) depth has a level -/
theorem WF.level_at_special_depth {k : Int} (hk : k ∈ [(-3 : Int), -4, -5, -6, -7, -8]) :
    ∃ l ∈ d.levels, l.depth = k := by
  have h1 := h.top_levels_listed
  simp only [Bool.and_eq_true, List.all_eq_true] at h1
  have h2 := h1.1.2 k hk
  unfold levelOf at h2
  cases hf : d.levels.find? (fun l => l.depth == k) with
  | none => rw [hf] at h2; cases h2
  | some l =>
    exact ⟨l, List.mem_of_find?_eq_some hf, by have := List.find?_some hf; simpa using this⟩

/-- the number of levels -/
theorem WF.levels_length : d.levels.length = d.depth + 6 := by
  have h1 := h.top_levels_listed
  simp only [Bool.and_eq_true, beq_iff_eq] at h1
  exact h1.2

/-- `T_typedepth`, sixth clause: special levels -/
theorem WF.special_level {l : Level} (hl : l ∈ d.levels) (hneg : l.depth < 0) :
    specialDepth l.type.toNat = some l.depth ∧ 0 ≤ l.type := by
  have h1 := h.top_normal_level_types
  simp only [List.all_eq_true] at h1
  have h2 := h1 l hl
  rw [if_neg (by omega)] at h2
  simpa using h2

/-- `T_typedepth`, second clause (the parts that do not need counting): the type of a normal level is a normal
    type; PU levels are the deepest, the Machine level is level 0 -/
theorem WF.normal_level {l : Level} (hl : l ∈ d.levels) (hge : 0 ≤ l.depth) :
    0 ≤ l.type ∧ l.type < (tMAX : Int) ∧ isNormal l.type.toNat = true ∧
    (l.type = (tPU : Int) → l.depth = (d.depth : Int) - 1) ∧ (l.type = (tMACHINE : Int) → l.depth = 0) := by
  have h1 := h.top_normal_level_types
  simp only [List.all_eq_true] at h1
  have h2 := h1 l hl
  rw [if_pos hge] at h2
  simp only [Bool.and_eq_true, decide_eq_true_eq, Bool.or_eq_true, bne_iff_ne, ne_eq, beq_iff_eq] at h2
  obtain ⟨⟨⟨h3, h4⟩, h5⟩, h6⟩ := h2
  have := lt14_of_normal h4
  refine ⟨h3, by unfold tMAX; omega, h4, fun e => ?_, fun e => ?_⟩
  · rcases h5 with h5 | h5
    · exact absurd e h5
    · exact h5
  · rcases h6 with h6 | h6
    · exact absurd e h6
    · exact h6

/-- `hwloc_get_type_depth` reads the `typeDepths` array -/
theorem WF.typeDepth_eq {t : Nat} (ht : t < tMAX) : typeDepth d (t : Int) = (d.typeDepths[t]?).getD 0 := by
  have hlen := h.top_typeDepths_length
  unfold typeDepth
  rw [if_pos ⟨by omega, by omega⟩]
  have hlt : t < d.typeDepths.length := by omega
  simp [List.getElem?_eq_getElem hlt]

/-- `T_typedepth`, fourth clause: special types have their virtual depth, normal types a depth ≥ -2 -/
theorem WF.typedepth_range {t : Nat} (ht : t < tMAX) :
    match specialDepth t with
    | some sd => typeDepth d (t : Int) = sd
    | none => typeDepth d (t : Int) ≥ -2 := by
  have h1 := h.top_type_depth_inverse ht
  rw [h.typeDepth_eq ht]
  cases hs : specialDepth t with
  | some sd => rw [hs] at h1; simpa using h1
  | none =>
    rw [hs] at h1
    simp only at h1 ⊢
    split at h1
    · simp only [beq_iff_eq] at h1; omega
    · rename_i l hl
      have hm : l ∈ d.levels.filter (fun l => decide (0 ≤ l.depth) && l.type == (t : Int)) := by
        rw [hl]; exact List.mem_singleton.mpr rfl
      simp only [List.mem_filter, Bool.and_eq_true, decide_eq_true_eq, beq_iff_eq] at hm h1
      omega
    · simp only [beq_iff_eq] at h1; omega

/-- `T_typedepth`, third clause: a non-negative type depth is the depth of a level of that type -/
theorem WF.typedepth_level {t : Nat} (ht : t < tMAX) (hge : 0 ≤ typeDepth d (t : Int)) :
    ∃ l ∈ d.levels, l.depth = typeDepth d (t : Int) ∧ l.type = (t : Int) := by
  have h1 := h.top_type_depth_inverse ht
  rw [h.typeDepth_eq ht] at hge ⊢
  cases hs : specialDepth t with
  | some sd =>
    rw [hs] at h1
    simp only [beq_iff_eq] at h1
    have := specialDepth_neg hs
    omega
  | none =>
    rw [hs] at h1
    simp only at h1
    split at h1
    · simp only [beq_iff_eq] at h1; omega
    · rename_i l hl
      have hm : l ∈ d.levels.filter (fun l => decide (0 ≤ l.depth) && l.type == (t : Int)) := by
        rw [hl]; exact List.mem_singleton.mpr rfl
      simp only [List.mem_filter, Bool.and_eq_true, decide_eq_true_eq, beq_iff_eq] at hm h1
      exact ⟨l, hm.1, h1.symm, hm.2.2⟩
    · simp only [beq_iff_eq] at h1; omega

/-- a normal level of type `t` forces `typeDepth t` to be its depth, or "multiple"
    (the last conjunct of the second clause of `T_typedepth`) -/
theorem WF.level_typedepth {l : Level} (hl : l ∈ d.levels) (hge : 0 ≤ l.depth) :
    typeDepth d l.type = l.depth ∨ typeDepth d l.type = depthMultiple := by
  obtain ⟨h0, hlt, hn, _, _⟩ := h.normal_level hl hge
  have ht : l.type.toNat < tMAX := by unfold tMAX at hlt ⊢; omega
  have hcast : ((l.type.toNat : Nat) : Int) = l.type := Int.toNat_of_nonneg h0
  have h1 := h.top_type_depth_inverse ht
  have h2 := h.typeDepth_eq ht
  rw [hcast] at h1 h2
  rw [h2]
  rw [specialDepth_of_normal hn] at h1
  simp only at h1
  have hm : l ∈ d.levels.filter (fun l' => decide (0 ≤ l'.depth) && l'.type == l.type) := by
    simp only [List.mem_filter, Bool.and_eq_true, decide_eq_true_eq, beq_iff_eq]
    exact ⟨hl, hge, trivial⟩
  split at h1
  · rename_i he; rw [he] at hm; cases hm
  · rename_i l' he
    rw [he] at hm
    have : l = l' := List.mem_singleton.mp hm
    subst this
    simp only [beq_iff_eq] at h1
    exact Or.inl h1
  · simp only [beq_iff_eq] at h1
    exact Or.inr h1

end typedepth


/-! ### STEP 3 — the pigeonhole on level depths -/

/-- a duplicate-free list included in a list that is not longer is a permutation of it -/
theorem perm_of_nodup_subset_length {α : Type} [DecidableEq α] {l₁ l₂ : List α} (h₁ : l₁.Nodup) (hsub : l₁ ⊆ l₂)
    (hlen : l₂.length ≤ l₁.length) : l₁.Perm l₂ := by
  induction l₁ generalizing l₂ with
  | nil =>
    have : l₂ = [] := List.eq_nil_of_length_eq_zero (by simpa using hlen)
    subst this; exact List.Perm.refl _
  | cons a t ih =>
    rw [List.nodup_cons] at h₁
    have ha : a ∈ l₂ := hsub List.mem_cons_self
    have htsub : t ⊆ l₂.erase a := by
      intro x hx
      have hxa : x ≠ a := fun e => h₁.1 (e ▸ hx)
      exact (List.mem_erase_of_ne hxa).2 (hsub (List.mem_cons_of_mem _ hx))
    have hl : (l₂.erase a).length ≤ t.length := by
      rw [List.length_erase]; simp only [ha, if_true, List.length_cons] at hlen ⊢; omega
    exact ((ih h₁.2 htsub hl).cons a).trans (List.perm_cons_erase ha).symm

/-- injectivity on the members of a list whose image is duplicate-free -/
theorem inj_of_nodup_map {α β : Type} {f : α → β} {l : List α} (h : (l.map f).Nodup) {x y : α} (hx : x ∈ l) (hy : y ∈ l)
    (e : f x = f y) : x = y := by
  induction l with
  | nil => cases hx
  | cons a t ih =>
    rw [List.map_cons, List.nodup_cons] at h
    rcases List.mem_cons.mp hx with hx' | hx' <;> rcases List.mem_cons.mp hy with hy' | hy'
    · rw [hx', hy']
    · subst hx'; exact absurd (List.mem_map.mpr ⟨y, hy', e.symm⟩) h.1
    · subst hy'; exact absurd (List.mem_map.mpr ⟨x, hx', e⟩) h.1
    · exact ih h.2 hx' hy'

/-- the depths every dump lists: `0 … depth-1` and the six virtual depths -/
def listedDepths (d : Dump) : List Int := (List.range d.depth).map Int.ofNat ++ [(-3 : Int), -4, -5, -6, -7, -8]

theorem listedDepths_nodup (d : Dump) : (listedDepths d).Nodup := by
  unfold listedDepths
  rw [List.nodup_append]
  refine ⟨?_, by decide, ?_⟩
  · rw [List.nodup_iff_pairwise_ne]
    exact List.Pairwise.map _ (fun a b hab e => hab (Int.ofNat.inj e)) (List.nodup_iff_pairwise_ne.mp List.nodup_range)
  · intro a ha b hb
    obtain ⟨k, _, rfl⟩ := List.mem_map.mp ha
    simp only [List.mem_cons, List.not_mem_nil, or_false] at hb
    have : (0 : Int) ≤ Int.ofNat k := Int.natCast_nonneg k
    omega

theorem levelOf_some {d : Dump} {k : Int} {l : Level} (hf : levelOf d k = some l) : l ∈ d.levels ∧ l.depth = k := by
  unfold levelOf at hf
  exact ⟨List.mem_of_find?_eq_some hf, by simpa using List.find?_some hf⟩

section pigeon
variable {d : Dump} (h : WF d)
include h

/-- the level depths are a permutation of the listed depths -/
theorem WF.level_depths_perm : (listedDepths d).Perm (d.levels.map (·.depth)) := by
  apply perm_of_nodup_subset_length (listedDepths_nodup d)
  · intro k hk
    unfold listedDepths at hk
    rcases List.mem_append.mp hk with hk | hk
    · obtain ⟨n, hn, rfl⟩ := List.mem_map.mp hk
      obtain ⟨l, hl, e⟩ := h.level_at_depth (List.mem_range.mp hn)
      exact List.mem_map.mpr ⟨l, hl, e⟩
    · obtain ⟨l, hl, e⟩ := h.level_at_special_depth hk
      exact List.mem_map.mpr ⟨l, hl, e⟩
  · rw [List.length_map, h.levels_length]
    simp [listedDepths]

/-- `T_levels`, first clause: level depths are distinct -/
theorem WF.level_depths_nodup : (d.levels.map (·.depth)).Nodup :=
  (h.level_depths_perm.nodup_iff).mp (listedDepths_nodup d)

/-- two levels of the same depth are the same level -/
theorem WF.level_ext {l l' : Level} (hl : l ∈ d.levels) (hl' : l' ∈ d.levels) (e : l.depth = l'.depth) : l = l' :=
  inj_of_nodup_map h.level_depths_nodup hl hl' e

/-- a level of non-negative depth is one of the `d.depth` normal levels -/
theorem WF.level_depth_lt {l : Level} (hl : l ∈ d.levels) (hge : 0 ≤ l.depth) : l.depth < (d.depth : Int) := by
  have hm : l.depth ∈ listedDepths d := (h.level_depths_perm.mem_iff).mpr (List.mem_map.mpr ⟨l, hl, rfl⟩)
  unfold listedDepths at hm
  rcases List.mem_append.mp hm with hm | hm
  · obtain ⟨n, hn, e⟩ := List.mem_map.mp hm
    have := List.mem_range.mp hn
    rw [← e]; exact Int.ofNat_lt.mpr this
  · simp only [List.mem_cons, List.not_mem_nil, or_false] at hm
    omega

/-- `levelOf` finds exactly the levels of the dump -/
theorem WF.levelOf_eq {l : Level} (hl : l ∈ d.levels) : levelOf d l.depth = some l := by
  unfold levelOf
  cases hf : d.levels.find? (fun l' => l'.depth == l.depth) with
  | none =>
    have := List.find?_eq_none.mp hf l hl
    simp at this
  | some l' =>
    have h1 : l'.depth = l.depth := by simpa using List.find?_some hf
    rw [h.level_ext (List.mem_of_find?_eq_some hf) hl h1]

/-- "normal-levels-nonempty" -/
theorem WF.normal_level_nonempty {l : Level} (hl : l ∈ d.levels) (hge : 0 ≤ l.depth) : l.objs ≠ [] := by
  have h1 := h.top_clause 15 rfl
  simp only [List.all_eq_true] at h1
  have h2 := h1 l hl
  simp only [Bool.or_eq_true, decide_eq_true_eq, Bool.not_eq_true', List.isEmpty_eq_false_iff] at h2
  rcases h2 with h2 | h2
  · omega
  · exact h2

/-- "depth-le-objects" -/
theorem WF.depth_le_objs : d.depth ≤ d.objs.length := by
  have h1 := h.top_clause 16 rfl
  simpa using h1

/-- the `MULTIPLE` conjunct of `T_typedepth` -/
theorem WF.typedepth_multiple_iff {t : Nat} (ht : t < tMAX) (hs : specialDepth t = none) :
    (typeDepth d (t : Int) = depthMultiple ↔
      2 ≤ (d.levels.filter (fun l => decide (0 ≤ l.depth) && l.type == (t : Int))).length) := by
  have h1 := h.top_type_depth_inverse ht
  rw [h.typeDepth_eq ht]
  rw [hs] at h1
  simp only at h1
  unfold depthMultiple
  split at h1
  · rename_i he
    simp only [beq_iff_eq] at h1
    rw [he, h1]; simp
  · rename_i l he
    have hm : l ∈ d.levels.filter (fun l => decide (0 ≤ l.depth) && l.type == (t : Int)) := by
      rw [he]; exact List.mem_singleton.mpr rfl
    simp only [List.mem_filter, Bool.and_eq_true, decide_eq_true_eq, beq_iff_eq] at hm h1
    rw [he, h1]
    simp only [List.length_cons, List.length_nil]
    omega
  · rename_i hne1 hne2
    simp only [beq_iff_eq] at h1
    rw [h1]
    refine ⟨fun _ => ?_, fun _ => rfl⟩
    match hq : d.levels.filter (fun l => decide (0 ≤ l.depth) && l.type == (t : Int)) with
    | [] => exact absurd hq hne1
    | [x] => exact absurd hq (hne2 x)
    | _ :: _ :: _ => rw [hq] at *; simp

end pigeon

theorem T_typedepth_of_wf {d : Dump} (h : WF d) : T_typedepth d := by
  refine ⟨h.top_typeDepths_length, fun l hl hge => ?_, fun t ht hs => h.typedepth_multiple_iff (List.mem_range.mp ht) hs,
    fun t ht hge => h.typedepth_level (List.mem_range.mp ht) hge, fun t ht => h.typedepth_range (List.mem_range.mp ht),
    fun k hk => h.level_at_depth (List.mem_range.mp hk), fun l hl hneg => h.special_level hl hneg⟩
  obtain ⟨h0, hlt, _, _, _⟩ := h.normal_level hl hge
  exact ⟨h.level_depth_lt hl hge, h0, hlt, h.normal_level_nonempty hl hge, h.level_typedepth hl hge⟩


/-! ### STEP 4 — arrays of ids whose entries resolve to objects that know their position -/

theorem Dump.obj?_some {d : Dump} {e : Int} {o : Obj} (ho : d.obj? e = some o) :
    0 ≤ e ∧ e.toNat < d.objs.length ∧ d.objs[e.toNat]? = some o := by
  unfold Dump.obj? at ho
  split at ho
  · cases ho
  · refine ⟨by omega, ?_, ho⟩
    exact (List.getElem?_eq_some_iff.mp ho).1

/-- an array of ids in which entry `i` resolves to an object whose `key` is `i`: no duplicates, every entry is a
    position of the object list, hence the array is not longer than the object list -/
theorem resolve_array {d : Dump} {xs : List Int} {key : Obj → Nat}
    (hx : ∀ i (hi : i < xs.length), ∃ o, d.obj? xs[i] = some o ∧ key o = i) :
    xs.Nodup ∧ (xs.map Int.toNat).Nodup ∧ (∀ e ∈ xs, 0 ≤ e ∧ e.toNat < d.objs.length) ∧ xs.length ≤ d.objs.length := by
  have hnd : (xs.map Int.toNat).Nodup := by
    rw [List.nodup_iff_pairwise_ne, List.pairwise_map, List.pairwise_iff_getElem]
    intro i j hi hj hij e
    obtain ⟨o1, h1, k1⟩ := hx i hi
    obtain ⟨o2, h2, k2⟩ := hx j hj
    have e1 := (Dump.obj?_some h1).2.2
    have e2 := (Dump.obj?_some h2).2.2
    rw [e] at e1
    have : o1 = o2 := Option.some.inj (e1.symm.trans e2)
    subst this; omega
  have hin : ∀ e ∈ xs, 0 ≤ e ∧ e.toNat < d.objs.length := by
    intro e he
    obtain ⟨i, hi, rfl⟩ := List.mem_iff_getElem.mp he
    obtain ⟨o, h1, _⟩ := hx i hi
    exact ⟨(Dump.obj?_some h1).1, (Dump.obj?_some h1).2.1⟩
  refine ⟨?_, hnd, hin, ?_⟩
  · rw [List.nodup_iff_pairwise_ne] at hnd ⊢
    rw [List.pairwise_map] at hnd
    exact hnd.imp (fun hab e => hab (by rw [e]))
  · have := hnd.length_le_of_subset (l₂ := List.range d.objs.length) (by
      intro n hn
      obtain ⟨e, he, rfl⟩ := List.mem_map.mp hn
      exact List.mem_range.mpr (hin e he).2)
    simpa using this

/-- `filterMap` over a list on which the function is total -/
theorem filterMap_getElem?_of_total {α β : Type} {f : α → Option β} {xs : List α} (hx : ∀ x ∈ xs, ∃ y, f x = some y) (i : Nat) :
    (xs.filterMap f)[i]? = (xs[i]?).bind f := by
  induction xs generalizing i with
  | nil => simp
  | cons x xs ih =>
    obtain ⟨y, hy⟩ := hx x List.mem_cons_self
    rw [List.filterMap_cons_some hy]
    cases i with
    | zero => simp [hy]
    | succ i => simpa using ih (fun x hx' => hx x (List.mem_cons_of_mem _ hx')) i

theorem filterMap_length_of_total {α β : Type} {f : α → Option β} {xs : List α} (hx : ∀ x ∈ xs, ∃ y, f x = some y) :
    (xs.filterMap f).length = xs.length := by
  induction xs with
  | nil => simp
  | cons x xs ih =>
    obtain ⟨y, hy⟩ := hx x List.mem_cons_self
    rw [List.filterMap_cons_some hy, List.length_cons, List.length_cons, ih (fun x hx' => hx x (List.mem_cons_of_mem _ hx'))]

section arrays
variable {d : Dump} (h : WF d)
include h

/-- "children-array", in quantified form -/
theorem WF.children_array {o : Obj} (ho : o ∈ d.objs) :
    o.children.length = o.arity ∧ o.firstChild = (o.children.head?).getD (-1) ∧
    ∀ i (hi : i < o.children.length), ∃ c, d.obj? o.children[i] = some c ∧ c.rank = i ∧ c.parent = (o.id : Int) ∧
      isNormal c.type = true ∧ c.nextSib = (o.children[i+1]?).getD (-1) := by
  have h1 := h.obj_clause 6 rfl ho
  simp only [Bool.and_eq_true, beq_iff_eq, List.all_eq_true, List.mem_range] at h1
  obtain ⟨⟨⟨h2, h3⟩, _⟩, h5⟩ := h1
  refine ⟨h2, h3, fun i hi => ?_⟩
  have h6 := h5 i (by omega)
  rw [List.getElem?_eq_getElem hi, Option.getD_some] at h6
  cases hc : d.obj? o.children[i] with
  | none => rw [hc] at h6; cases h6
  | some c =>
    rw [hc] at h6
    simp only [Bool.and_eq_true, beq_iff_eq] at h6
    exact ⟨c, rfl, h6.1.1.1.2, h6.1.1.1.1, h6.1.1.2, h6.2⟩

/-- "level-entries-valid", in quantified form -/
theorem WF.level_entries {l : Level} (hl : l ∈ d.levels) :
    ∀ i (hi : i < l.objs.length), ∃ o, d.obj? l.objs[i] = some o ∧ o.lidx = i ∧ o.depth = l.depth := by
  have h1 := h.top_clause 8 rfl
  simp only [List.all_eq_true, List.mem_range] at h1
  intro i hi
  have h6 := h1 l hl i hi
  rw [List.getElem?_eq_getElem hi, Option.getD_some] at h6
  cases hc : d.obj? l.objs[i] with
  | none => rw [hc] at h6; cases h6
  | some c =>
    rw [hc] at h6
    simp only [Bool.and_eq_true, beq_iff_eq] at h6
    exact ⟨c, rfl, h6.2, h6.1⟩

/-- "in-its-level", in quantified form -/
theorem WF.in_its_level {o : Obj} (ho : o ∈ d.objs) :
    ∃ l, levelOf d o.depth = some l ∧ l ∈ d.levels ∧ l.depth = o.depth ∧ l.objs[o.lidx]? = some (o.id : Int) ∧
      l.type = (o.type : Int) ∧ o.prevCousin = (if o.lidx = 0 then -1 else (l.objs[o.lidx - 1]?).getD (-2)) ∧
      o.nextCousin = (l.objs[o.lidx + 1]?).getD (-1) := by
  have h1 := h.obj_clause 13 rfl ho
  simp only at h1
  cases hf : levelOf d o.depth with
  | none => rw [hf] at h1; cases h1
  | some l =>
    rw [hf] at h1
    simp only [Bool.and_eq_true, beq_iff_eq] at h1
    exact ⟨l, rfl, (levelOf_some hf).1, (levelOf_some hf).2, h1.1.1.1, h1.1.1.2, h1.1.2, h1.2⟩

/-- `T_sizes`, third clause -/
theorem WF.children_length_le {o : Obj} (ho : o ∈ d.objs) : o.children.length ≤ d.objs.length := by
  have h1 := (h.children_array ho).2.2
  exact (resolve_array (key := (·.rank)) (fun i hi => by
    obtain ⟨c, hc, hr, _⟩ := h1 i hi; exact ⟨c, hc, hr⟩)).2.2.2

end arrays

theorem T_sizes_of_wf {d : Dump} (h : WF d) : T_sizes d :=
  ⟨h.depth_le_objs, fun _ hl => h.level_length_le hl, fun _ ho => h.children_length_le ho⟩


/-! ### STEP 5 — ids are positions (counting over the level arrays) -/

/-- all level entries -/
def levelEntries (d : Dump) : List Int := d.levels.flatMap (·.objs)

section ids
variable {d : Dump} (h : WF d)
include h

theorem WF.levelEntries_length : (levelEntries d).length = d.objs.length := by
  have h1 := h.top_levels_cover_objects
  simp only [beq_iff_eq] at h1
  unfold levelEntries
  rw [List.length_flatMap, h1]

theorem WF.level_resolve {l : Level} (hl : l ∈ d.levels) :
    l.objs.Nodup ∧ (l.objs.map Int.toNat).Nodup ∧ (∀ e ∈ l.objs, 0 ≤ e ∧ e.toNat < d.objs.length) ∧
      l.objs.length ≤ d.objs.length :=
  resolve_array (key := (·.lidx)) (fun i hi => by
    obtain ⟨c, hc, hr, _⟩ := h.level_entries hl i hi; exact ⟨c, hc, hr⟩)

/-- an entry of a level resolves to an object of that level's depth -/
theorem WF.level_entry_mem {l : Level} (hl : l ∈ d.levels) {e : Int} (he : e ∈ l.objs) :
    ∃ i o, l.objs[i]? = some e ∧ d.obj? e = some o ∧ o.lidx = i ∧ o.depth = l.depth := by
  obtain ⟨i, hi, rfl⟩ := List.mem_iff_getElem.mp he
  obtain ⟨o, h1, h2, h3⟩ := h.level_entries hl i hi
  exact ⟨i, o, List.getElem?_eq_getElem hi, h1, h2, h3⟩

/-- the level entries, as positions, have no duplicates -/
theorem WF.levelEntries_nodup : ((levelEntries d).map Int.toNat).Nodup := by
  unfold levelEntries
  rw [List.nodup_iff_pairwise_ne, List.pairwise_map, List.pairwise_flatMap]
  constructor
  · intro l hl
    have := (h.level_resolve hl).2.1
    rw [List.nodup_iff_pairwise_ne, List.pairwise_map] at this
    exact this
  · have h1 := h.level_depths_nodup
    rw [List.nodup_iff_pairwise_ne, List.pairwise_map] at h1
    refine h1.imp_of_mem ?_
    intro l1 l2 hl1 hl2 hne x hx y hy e
    obtain ⟨_, o1, _, r1, _, d1⟩ := h.level_entry_mem hl1 hx
    obtain ⟨_, o2, _, r2, _, d2⟩ := h.level_entry_mem hl2 hy
    have e1 := (Dump.obj?_some r1).2.2
    have e2 := (Dump.obj?_some r2).2.2
    rw [e] at e1
    have : o1 = o2 := Option.some.inj (e1.symm.trans e2)
    subst this
    exact hne (d1.symm.trans d2)

/-- the level entries are exactly the positions of the object list -/
theorem WF.levelEntries_perm : ((levelEntries d).map Int.toNat).Perm (List.range d.objs.length) := by
  apply perm_of_nodup_subset_length h.levelEntries_nodup
  · intro n hn
    obtain ⟨e, he, rfl⟩ := List.mem_map.mp hn
    unfold levelEntries at he
    obtain ⟨l, hl, hel⟩ := List.mem_flatMap.mp he
    exact List.mem_range.mpr ((h.level_resolve hl).2.2.1 e hel).2
  · rw [List.length_map, h.levelEntries_length, List.length_range]
    exact Nat.le_refl _

/-- the object at position `p` has id `p` -/
theorem WF.id_eq_pos {p : Nat} {o : Obj} (hp : d.objs[p]? = some o) : o.id = p := by
  have hlt : p < d.objs.length := (List.getElem?_eq_some_iff.mp hp).1
  have hm : p ∈ (levelEntries d).map Int.toNat := (h.levelEntries_perm.mem_iff).mpr (List.mem_range.mpr hlt)
  obtain ⟨e, he, rfl⟩ := List.mem_map.mp hm
  unfold levelEntries at he
  obtain ⟨l, hl, hel⟩ := List.mem_flatMap.mp he
  obtain ⟨i, o', hi, r, hli, hd⟩ := h.level_entry_mem hl hel
  have : o' = o := Option.some.inj ((Dump.obj?_some r).2.2.symm.trans hp)
  subst this
  obtain ⟨l', _, hl', hd', hent, _⟩ := h.in_its_level (List.mem_of_getElem? hp)
  have : l' = l := h.level_ext hl' hl (hd'.trans hd)
  subst this
  rw [hli, hi] at hent
  have e1 : e = (o'.id : Int) := Option.some.inj hent
  rw [e1]; simp

/-- an object is found at its id -/
theorem WF.obj?_id {o : Obj} (ho : o ∈ d.objs) : d.obj? (o.id : Int) = some o := by
  obtain ⟨p, hp⟩ := List.getElem?_of_mem ho
  have := h.id_eq_pos hp
  unfold Dump.obj?
  rw [if_neg (by omega), Int.toNat_natCast, this]
  exact hp

/-- an id that resolves to an object is the id of that object -/
theorem WF.id_of_obj? {e : Int} {o : Obj} (ho : d.obj? e = some o) : (o.id : Int) = e := by
  obtain ⟨h0, _, h2⟩ := Dump.obj?_some ho
  rw [h.id_eq_pos h2]; omega

end ids

theorem T_ids_of_wf {d : Dump} (h : WF d) : T_ids d := by
  intro p hp
  exact h.id_eq_pos (List.mem_zipIdx_iff_getElem?.mp hp)


/-! ### STEP 6 — levels, cousins, children arrays -/

section levels
variable {d : Dump} (h : WF d)
include h

/-- the objects of a level: entry `i` is the object the `i`-th id resolves to -/
theorem WF.levelObjs_getElem? {l : Level} (hl : l ∈ d.levels) (i : Nat) :
    (levelObjs d l.depth)[i]? = (l.objs[i]?).bind d.obj? := by
  unfold levelObjs levelIds
  rw [h.levelOf_eq hl]
  exact filterMap_getElem?_of_total (fun e he => by
    obtain ⟨_, o, _, r, _⟩ := h.level_entry_mem hl he; exact ⟨o, r⟩) i

theorem WF.levelObjs_length {l : Level} (hl : l ∈ d.levels) : (levelObjs d l.depth).length = l.objs.length := by
  unfold levelObjs levelIds
  rw [h.levelOf_eq hl]
  exact filterMap_length_of_total (fun e he => by
    obtain ⟨_, o, _, r, _⟩ := h.level_entry_mem hl he; exact ⟨o, r⟩)

theorem T_inlevel_of_wf : T_inlevel d := by
  intro o ho
  obtain ⟨l, _, hl, hd, hent, _⟩ := h.in_its_level ho
  refine ⟨⟨l, hl, hd⟩, ?_⟩
  rw [← hd, h.levelObjs_getElem? hl, hent]
  exact h.obj?_id ho

theorem T_levels_of_wf : T_levels d := by
  refine ⟨h.level_depths_nodup, fun l hl => ⟨h.levelObjs_length hl, fun p hp => ?_⟩⟩
  have hp' := List.mem_zipIdx_iff_getElem?.mp hp
  obtain ⟨o, i⟩ := p
  simp only at hp' ⊢
  rw [h.levelObjs_getElem? hl] at hp'
  cases hi : l.objs[i]? with
  | none => rw [hi] at hp'; cases hp'
  | some e =>
    rw [hi] at hp'
    have hr : d.obj? e = some o := hp'
    have hilt : i < l.objs.length := (List.getElem?_eq_some_iff.mp hi).1
    obtain ⟨o', r', hli, hd⟩ := h.level_entries hl i hilt
    rw [(List.getElem?_eq_some_iff.mp hi).2, hr] at r'
    have := Option.some.inj r'; subst this
    have hom : o ∈ d.objs := Dump.mem_of_obj? hr
    obtain ⟨l', _, hl', hd', _, hty, hprev, hnext⟩ := h.in_its_level hom
    have : l' = l := h.level_ext hl' hl (hd'.trans hd)
    subst this
    refine ⟨hom, hd, hli, hty.symm, ?_, ?_⟩
    · rw [h.levelObjs_getElem? hl, hnext, hli]
      cases hn : l'.objs[i + 1]? with
      | none => simp [Dump.obj?]
      | some e' => simp
    · rw [hprev, hli]
      by_cases h0 : i = 0
      · simp [h0, Dump.obj?]
      · rw [if_neg h0, if_neg h0, h.levelObjs_getElem? hl]
        have : i - 1 < l'.objs.length := by omega
        rw [List.getElem?_eq_getElem this]; simp

/-- the children of an object: entry `i` is the object the `i`-th id resolves to -/
theorem WF.childObjs_getElem? {o : Obj} (ho : o ∈ d.objs) (i : Nat) :
    (childObjs d o)[i]? = (o.children[i]?).bind d.obj? := by
  unfold childObjs
  exact filterMap_getElem?_of_total (fun e he => by
    obtain ⟨i, hi, rfl⟩ := List.mem_iff_getElem.mp he
    obtain ⟨c, hc, _⟩ := (h.children_array ho).2.2 i hi; exact ⟨c, hc⟩) i

theorem WF.childObjs_length {o : Obj} (ho : o ∈ d.objs) : (childObjs d o).length = o.children.length := by
  unfold childObjs
  exact filterMap_length_of_total (fun e he => by
    obtain ⟨i, hi, rfl⟩ := List.mem_iff_getElem.mp he
    obtain ⟨c, hc, _⟩ := (h.children_array ho).2.2 i hi; exact ⟨c, hc⟩)

theorem T_children_of_wf : T_children d := by
  intro o ho
  obtain ⟨hlen, hfirst, harr⟩ := h.children_array ho
  refine ⟨?_, h.childObjs_length ho, hlen, fun p hp => ?_⟩
  · rw [h.childObjs_getElem? ho, hfirst, List.head?_eq_getElem?]
    cases hn : o.children[0]? with
    | none => simp [Dump.obj?]
    | some e' => simp
  · have hp' := List.mem_zipIdx_iff_getElem?.mp hp
    obtain ⟨c, i⟩ := p
    simp only at hp' ⊢
    rw [h.childObjs_getElem? ho] at hp'
    cases hi : o.children[i]? with
    | none => rw [hi] at hp'; cases hp'
    | some e =>
      rw [hi] at hp'
      have hr : d.obj? e = some c := hp'
      have hilt : i < o.children.length := (List.getElem?_eq_some_iff.mp hi).1
      obtain ⟨c', r', hrank, hpar, hnorm, hnext⟩ := harr i hilt
      rw [(List.getElem?_eq_some_iff.mp hi).2, hr] at r'
      have := Option.some.inj r'; subst this
      refine ⟨Dump.mem_of_obj? hr, hpar, hrank, hnorm, ?_, ?_⟩
      · rw [h.id_of_obj? hr]
      · rw [h.childObjs_getElem? ho, hnext]
        cases hn : o.children[i + 1]? with
        | none => simp [Dump.obj?]
        | some e' => simp

end levels


/-! ### STEP 7 — the `cpuOr` / `cpuDisj` / `nNormal` folds of `mkAux` -/

theorem foldl_proj {α β γ : Type} (f : α → β → α) (g : γ → β → γ) (π : α → γ) (hstep : ∀ a b, π (f a b) = g (π a) b)
    (a : α) (l : List β) : π (l.foldl f a) = l.foldl g (π a) := by
  induction l generalizing a with
  | nil => rfl
  | cons b l ih => rw [List.foldl_cons, List.foldl_cons, ih, hstep]

/-- the part of the `mkAux` step that concerns normal children -/
def step3 (acc : List Nat × List Bool × List Nat) (o : Obj) : List Nat × List Bool × List Nat :=
  if o.parent < 0 then acc else
  if isNormal o.type then
    ((orInto (acc.1, acc.2.1) o.parent.toNat (o.cpuset.getD 0)).1, (orInto (acc.1, acc.2.1) o.parent.toNat (o.cpuset.getD 0)).2,
      acc.2.2.set o.parent.toNat (getN acc.2.2 o.parent.toNat + 1))
  else acc

theorem mkAux_proj (d : Dump) :
    ((mkAux d).cpuOr, (mkAux d).cpuDisj, (mkAux d).nNormal) =
      d.objs.foldl step3 (List.replicate d.objs.length 0, List.replicate d.objs.length true, List.replicate d.objs.length 0) := by
  unfold mkAux
  simp only []
  refine foldl_proj _ step3 (fun (a : Aux) => (a.cpuOr, a.cpuDisj, a.nNormal)) ?_ _ _
  intro a o
  unfold step3
  simp only []
  split
  · rfl
  · split
    · rfl
    · split
      · rfl
      · split <;> rfl


/-- `c` is a normal object whose parent is the object at position `q` -/
def isKid (q : Nat) (c : Obj) : Bool := decide (0 ≤ c.parent) && (c.parent.toNat == q) && isNormal c.type

/-- each cpuset is disjoint from the union of the previous ones (what `cpuDisj` records) -/
def seqDisj : Nat → List Obj → Prop
  | _, [] => True
  | x, c :: l => disjoint x (cs c) = true ∧ seqDisj (x ||| cs c) l

theorem step3_spec (acc : List Nat × List Bool × List Nat) (o : Obj) (n q : Nat)
    (hl1 : acc.1.length = n) (hl2 : acc.2.1.length = n) (hl3 : acc.2.2.length = n) (hq : q < n) :
    (step3 acc o).1.length = n ∧ (step3 acc o).2.1.length = n ∧ (step3 acc o).2.2.length = n ∧
    (isKid q o = true → getN (step3 acc o).1 q = getN acc.1 q ||| cs o ∧ getN (step3 acc o).2.2 q = getN acc.2.2 q + 1 ∧
      (getB (step3 acc o).2.1 q = true → getB acc.2.1 q = true ∧ disjoint (getN acc.1 q) (cs o) = true)) ∧
    (isKid q o = false → getN (step3 acc o).1 q = getN acc.1 q ∧ getN (step3 acc o).2.2 q = getN acc.2.2 q ∧
      getB (step3 acc o).2.1 q = getB acc.2.1 q) := by
  unfold step3
  by_cases hp : o.parent < 0
  · rw [if_pos hp]
    refine ⟨hl1, hl2, hl3, fun hk => ?_, fun _ => ⟨rfl, rfl, rfl⟩⟩
    simp only [isKid, Bool.and_eq_true, decide_eq_true_eq] at hk
    omega
  · rw [if_neg hp]
    by_cases hn : isNormal o.type = true
    · rw [if_pos hn]
      simp only [orInto]
      have hcs : o.cpuset.getD 0 = cs o := rfl
      rw [hcs]
      refine ⟨by rw [List.length_set]; exact hl1, by split <;> simp [hl2], by rw [List.length_set]; exact hl3, ?_, ?_⟩
      · intro hk
        simp only [isKid, Bool.and_eq_true, decide_eq_true_eq, beq_iff_eq] at hk
        rw [hk.1.2]
        refine ⟨by simp [getN, List.getElem?_set_self (hl1 ▸ hq)], by simp [getN, List.getElem?_set_self (hl3 ▸ hq)], ?_⟩
        by_cases hd : disjoint (getN acc.1 q) (cs o) = true
        · rw [if_pos hd]; exact fun hb => ⟨hb, hd⟩
        · rw [if_neg hd]
          intro hb
          simp [getB, List.getElem?_set_self (hl2 ▸ hq)] at hb
      · intro hk
        have hne : o.parent.toNat ≠ q := by
          intro e
          simp [isKid, e, hn] at hk
          omega
        refine ⟨by simp [getN, List.getElem?_set_ne hne], by simp [getN, List.getElem?_set_ne hne], ?_⟩
        split
        · rfl
        · simp [getB, List.getElem?_set_ne hne]
    · rw [if_neg hn]
      refine ⟨hl1, hl2, hl3, fun hk => ?_, fun _ => ⟨rfl, rfl, rfl⟩⟩
      simp only [isKid, Bool.and_eq_true] at hk
      exact absurd hk.2 hn

theorem fold3_spec (n q : Nat) (hq : q < n) (L : List Obj) : ∀ (acc : List Nat × List Bool × List Nat),
    acc.1.length = n → acc.2.1.length = n → acc.2.2.length = n →
    getN (L.foldl step3 acc).1 q = (L.filter (isKid q)).foldl (fun x c => x ||| cs c) (getN acc.1 q) ∧
    getN (L.foldl step3 acc).2.2 q = getN acc.2.2 q + (L.filter (isKid q)).length ∧
    (getB (L.foldl step3 acc).2.1 q = true → getB acc.2.1 q = true ∧ seqDisj (getN acc.1 q) (L.filter (isKid q))) := by
  induction L with
  | nil => intro acc _ _ _; exact ⟨rfl, rfl, fun hb => ⟨hb, trivial⟩⟩
  | cons o L ih =>
    intro acc hl1 hl2 hl3
    obtain ⟨k1, k2, k3, kpos, kneg⟩ := step3_spec acc o n q hl1 hl2 hl3 hq
    obtain ⟨i1, i2, i3⟩ := ih (step3 acc o) k1 k2 k3
    rw [List.foldl_cons]
    cases hk : isKid q o with
    | true =>
      obtain ⟨p1, p2, p3⟩ := kpos hk
      rw [List.filter_cons_of_pos hk, List.foldl_cons, List.length_cons, i1, i2, p1, p2]
      refine ⟨rfl, by omega, fun hb => ?_⟩
      obtain ⟨j1, j2⟩ := i3 hb
      obtain ⟨j3, j4⟩ := p3 j1
      rw [p1] at j2
      exact ⟨j3, j4, j2⟩
    | false =>
      obtain ⟨p1, p2, p3⟩ := kneg hk
      rw [List.filter_cons_of_neg (by simp [hk]), i1, i2, p1, p2]
      refine ⟨rfl, rfl, fun hb => ?_⟩
      obtain ⟨j1, j2⟩ := i3 hb
      rw [p1] at j2; rw [p3] at j1
      exact ⟨j1, j2⟩


/-- the normal objects whose parent is the object at position `q`, in the order of the object list -/
def kids (d : Dump) (q : Nat) : List Obj := d.objs.filter (isKid q)

theorem mkAux_kids (d : Dump) {q : Nat} (hq : q < d.objs.length) :
    getN (mkAux d).cpuOr q = orAll ((kids d q).map cs) ∧ getN (mkAux d).nNormal q = (kids d q).length ∧
    (getB (mkAux d).cpuDisj q = true → seqDisj 0 (kids d q)) := by
  have e := mkAux_proj d
  have e1 : (mkAux d).cpuOr = _ := congrArg Prod.fst e
  have e2 : (mkAux d).cpuDisj = _ := congrArg (fun x => x.2.1) e
  have e3 : (mkAux d).nNormal = _ := congrArg (fun x => x.2.2) e
  obtain ⟨i1, i2, i3⟩ := fold3_spec d.objs.length q hq d.objs
    (List.replicate d.objs.length 0, List.replicate d.objs.length true, List.replicate d.objs.length 0)
    (by simp) (by simp) (by simp)
  have z1 : getN (List.replicate d.objs.length 0) q = 0 := by simp [getN, hq]
  dsimp only at i1 i2 i3
  rw [z1] at i1 i2 i3
  rw [e1, e2, e3]
  refine ⟨?_, by unfold kids; simpa using i2, fun hb => (i3 hb).2⟩
  rw [i1]; unfold orAll kids; rw [List.foldl_map]

theorem disjoint_or_left {x c y : Nat} (hd : disjoint (x ||| c) y = true) : disjoint x y = true ∧ disjoint c y = true := by
  unfold disjoint at hd ⊢
  simp only [beq_iff_eq] at hd ⊢
  rw [Nat.and_or_distrib_right] at hd
  exact Nat.or_eq_zero_iff.mp hd

theorem disjoint_symm {x y : Nat} (hd : disjoint x y = true) : disjoint y x = true := by
  unfold disjoint at hd ⊢
  rw [Nat.and_comm]; exact hd

theorem seqDisj_pairwise (L : List Obj) : ∀ x, seqDisj x L →
    (∀ c ∈ L, disjoint x (cs c) = true) ∧ L.Pairwise (fun a b => disjoint (cs a) (cs b) = true) := by
  induction L with
  | nil => intro x _; exact ⟨fun c hc => (by cases hc), List.Pairwise.nil⟩
  | cons c L ih =>
    intro x hs
    obtain ⟨h1, h2⟩ := hs
    obtain ⟨h3, h4⟩ := ih _ h2
    refine ⟨fun c' hc' => ?_, List.pairwise_cons.mpr ⟨fun c' hc' => (disjoint_or_left (h3 c' hc')).2, h4⟩⟩
    rcases List.mem_cons.mp hc' with rfl | hc'
    · exact h1
    · exact (disjoint_or_left (h3 c' hc')).1

theorem orFold_perm {l₁ l₂ : List Nat} (hp : l₁.Perm l₂) : ∀ x : Nat, l₁.foldl (· ||| ·) x = l₂.foldl (· ||| ·) x := by
  induction hp with
  | nil => intro x; rfl
  | cons a _ ih => intro x; exact ih _
  | swap a b l =>
    intro x
    simp only [List.foldl_cons]
    rw [Nat.or_assoc, Nat.or_comm b a, ← Nat.or_assoc]
  | trans _ _ ih1 ih2 => intro x; rw [ih1, ih2]

theorem not_normal_nonpu_kind {t : Nat} (hlt : t < tMAX) (hn : ¬ (isNormal t = true ∧ t ≠ tPU)) :
    t = tPU ∨ isMemory t = true ∨ isIO t = true ∨ isMisc t = true := by
  have key : ∀ t, t < 20 → (isNormal t && t != tPU) = false → (t == tPU || isMemory t || isIO t || isMisc t) = true := by
    decide
  have := key t hlt (by
    cases h1 : isNormal t with
    | false => rfl
    | true =>
      simp only [Bool.true_and, bne_eq_false_iff_eq]
      exact Decidable.by_contra (fun h2 => hn ⟨h1, h2⟩))
  simpa [or_assoc] using this

section kids
variable {d : Dump} (h : WF d) {o : Obj} (ho : o ∈ d.objs)
include h ho

theorem WF.id_lt : o.id < d.objs.length := by
  have := Dump.obj?_some (h.obj?_id ho)
  simpa using this.2.1

/-- only normal non-PU objects have normal children -/
theorem WF.arity_zero (hn : ¬ (isNormal o.type = true ∧ o.type ≠ tPU)) : o.arity = 0 := by
  have h1 := h.obj_no_children_where_forbidden ho
  simp only [Bool.and_eq_true] at h1
  obtain ⟨⟨⟨⟨a1, _⟩, a3⟩, a4⟩, a5⟩ := h1
  rcases not_normal_nonpu_kind (h.obj_type_in_range ho) hn with e | e | e | e
  · simp only [e, beq_self_eq_true, if_true, Bool.and_eq_true, beq_iff_eq] at a1; exact a1.1
  · simp only [e, if_true, Bool.and_eq_true, beq_iff_eq] at a3; exact a3.1
  · simp only [e, if_true, Bool.and_eq_true, beq_iff_eq] at a4; exact a4.1
  · simp only [e, if_true, Bool.and_eq_true, beq_iff_eq] at a5; exact a5.1.1

/-- "children-counts", normal part: the number of normal objects whose parent is `o` is `o.arity` -/
theorem WF.kids_length : (kids d o.id).length = o.arity := by
  have h1 := h.obj_clause 7 rfl ho
  simp only [Bool.and_eq_true, beq_iff_eq] at h1
  rw [← (mkAux_kids d (h.id_lt ho)).2.1]
  exact h1.1.1.1

/-- the children array lists exactly the normal objects whose parent is `o` -/
theorem WF.childObjs_perm_kids : (childObjs d o).Perm (kids d o.id) := by
  have hT := T_children_of_wf h o ho
  obtain ⟨_, hlen, har, hall⟩ := hT
  apply perm_of_nodup_subset_length
  · rw [List.nodup_iff_pairwise_ne, List.pairwise_iff_getElem]
    intro i j hi hj hij e
    have r1 := (hall (_, i) (List.mem_zipIdx_iff_getElem?.mpr (List.getElem?_eq_getElem hi))).2.2.1
    have r2 := (hall (_, j) (List.mem_zipIdx_iff_getElem?.mpr (List.getElem?_eq_getElem hj))).2.2.1
    simp only at r1 r2
    rw [e] at r1; omega
  · intro c hc
    obtain ⟨i, hi, rfl⟩ := List.mem_iff_getElem.mp hc
    obtain ⟨r1, r2, _, r4, _⟩ := hall (_, i) (List.mem_zipIdx_iff_getElem?.mpr (List.getElem?_eq_getElem hi))
    simp only at r1 r2 r4
    unfold kids
    rw [List.mem_filter]
    refine ⟨r1, ?_⟩
    simp [isKid, r2, r4]
  · rw [h.kids_length ho, hlen, har]; exact Nat.le_refl _

/-- "cpuset-is-disjoint-union-of-children", in terms of `kids` -/
theorem WF.cpuset_kids (hn : isNormal o.type = true) (hpu : o.type ≠ tPU) :
    cs o = orAll ((kids d o.id).map cs) ∧ seqDisj 0 (kids d o.id) := by
  have h1 := h.obj_clause 19 rfl ho
  have hb : (o.type != tPU) = true := by simpa using hpu
  simp only [hn, hb, Bool.and_self, if_true, Bool.and_eq_true, beq_iff_eq] at h1
  obtain ⟨k1, _, k3⟩ := mkAux_kids d (h.id_lt ho)
  refine ⟨?_, k3 h1.2⟩
  show o.cpuset.getD 0 = _
  rw [h1.1, Option.getD_some, k1]

theorem WF.children_disjoint : (childObjs d o).Pairwise (fun a b => disjoint (cs a) (cs b) = true) := by
  by_cases hn : isNormal o.type = true ∧ o.type ≠ tPU
  · have h1 := (seqDisj_pairwise _ _ (h.cpuset_kids ho hn.1 hn.2).2).2
    exact ((h.childObjs_perm_kids ho).pairwise_iff (fun hd => disjoint_symm hd)).mpr h1
  · have h0 := h.arity_zero ho hn
    have hlen := (T_children_of_wf h o ho).2
    have : childObjs d o = [] := List.eq_nil_of_length_eq_zero (by omega)
    rw [this]; exact List.Pairwise.nil

theorem WF.children_union :
    (o.arity ≠ 0 → isNormal o.type = true ∧ o.type ≠ tPU ∧ cs o = orAll ((childObjs d o).map cs)) ∧
    (isNormal o.type = true → o.arity = 0 → cs o ≠ 0 → o.type = tPU) := by
  constructor
  · intro ha
    have hn : isNormal o.type = true ∧ o.type ≠ tPU := Decidable.by_contra (fun hn => ha (h.arity_zero ho hn))
    refine ⟨hn.1, hn.2, ?_⟩
    rw [(h.cpuset_kids ho hn.1 hn.2).1]
    unfold orAll
    exact (orFold_perm ((h.childObjs_perm_kids ho).map cs) 0).symm
  · intro hn ha hne
    apply Decidable.by_contra
    intro hpu
    have h1 := (h.cpuset_kids ho hn hpu).1
    have : kids d o.id = [] := List.eq_nil_of_length_eq_zero (by rw [h.kids_length ho]; exact ha)
    rw [this] at h1
    exact hne h1

end kids

theorem T_disjoint_of_wf {d : Dump} (h : WF d) : T_disjoint d := fun _ ho => h.children_disjoint ho
theorem T_union_of_wf {d : Dump} (h : WF d) : T_union d := fun _ ho => h.children_union ho

/-
  NOT DERIVED:
  * `T_order`     — DFS numbering (`o.id ≠ 0 → o.parent < o.id`) is NOT a consequence of `WF`: no WF clause orders
                    the ids ("root-or-parent" only says `o.parent ≠ o.id`).  It stays a hypothesis.
  Every other clause of `Tree` is derived above: `T_ids_of_wf`, `T_root_of_wf`, `T_parent_of_wf`, `T_children_of_wf`,
  `T_disjoint_of_wf`, `T_union_of_wf`, `T_depth_of_wf`, `T_levels_of_wf`, `T_inlevel_of_wf`, `T_typedepth_of_wf`,
  `T_sizes_of_wf`.
-/

/-- `Tree d` from `WF d` and exactly the clause not derived from it (the DFS numbering) -/
theorem Tree_of_wf_partial {d : Dump} (h : WF d) (rest : T_order d) : Tree d :=
  { ids := T_ids_of_wf h, root := T_root_of_wf h, parent := T_parent_of_wf h, children := T_children_of_wf h,
    disjoint := T_disjoint_of_wf h, union := T_union_of_wf h, depth := T_depth_of_wf h, levels := T_levels_of_wf h,
    inlevel := T_inlevel_of_wf h, typedepth := T_typedepth_of_wf h, sizes := T_sizes_of_wf h, order := rest }

end Hw.Topo
