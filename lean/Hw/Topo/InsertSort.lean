/-
  Hw.Topo.InsertSort — `hwloc__reorder_children` (an insertion sort on the first bit of the complete cpuset, the empty set last)
  really sorts: its result is a permutation of the list in which no element starts below an earlier one, and
  `hwloc__reorder_children_if_needed` returns such a list in both of its branches.
-/
import Hw.Topo.InsertOrder
namespace Hw.Topo.Ins

/-- `a` does not start after `b` -/
def le (a b : T) : Prop := ¬ lt b a

theorem firstLt_negtrans {a b c : Nat} (h1 : firstLt b a = false) (h2 : firstLt c b = false) : firstLt c a = false := by
  unfold firstLt at *
  by_cases ha : a = 0 <;> by_cases hb : b = 0 <;> by_cases hc : c = 0 <;> simp_all <;> omega

theorem le_trans {a b c : T} (h1 : le a b) (h2 : le b c) : le a c := by
  unfold le lt at *
  simp only [Bool.not_eq_true] at *
  exact firstLt_negtrans h1 h2

theorem le_of_lt {a b : T} (h : lt a b) : le a b := fun h' => lt_asymm h h'

theorem insertOrdered_sorted {c : T} : ∀ (acc : List T), acc.Pairwise le → (insertOrdered c acc).Pairwise le := by
  intro acc
  induction acc with
  | nil => intro _; simp [insertOrdered]
  | cons h tl ih =>
    intro hp
    have hpc := List.pairwise_cons.mp hp
    unfold insertOrdered
    simp only [List.takeWhile, List.dropWhile]
    by_cases hph : firstLt h.o.ckey c.o.ckey = true
    · simp only [hph]
      have := ih hpc.2
      unfold insertOrdered at this
      refine List.pairwise_cons.mpr ⟨?_, this⟩
      intro x hx
      rcases List.mem_append.mp hx with hx | hx
      · exact hpc.1 x ((List.takeWhile_sublist _).subset hx)
      · rcases List.mem_cons.mp hx with rfl | hx
        · exact le_of_lt hph
        · exact hpc.1 x ((List.dropWhile_sublist _).subset hx)
    · simp only [hph]
      have hch : le c h := hph
      refine List.pairwise_cons.mpr ⟨?_, hp⟩
      intro x hx
      rcases List.mem_cons.mp hx with rfl | hx
      · exact hch
      · exact le_trans hch (hpc.1 x hx)

theorem insertOrdered_perm (c : T) (acc : List T) : (insertOrdered c acc).Perm (c :: acc) := by
  unfold insertOrdered
  have e : c :: acc = c :: (acc.takeWhile (fun x => firstLt x.o.ckey c.o.ckey) ++ acc.dropWhile (fun x => firstLt x.o.ckey c.o.ckey)) := by
    rw [List.takeWhile_append_dropWhile]
  rw [e]
  exact List.perm_middle

theorem reorder_aux : ∀ (l acc : List T), acc.Pairwise le →
    (l.foldl (fun acc c => insertOrdered c acc) acc).Pairwise le ∧ (l.foldl (fun acc c => insertOrdered c acc) acc).Perm (acc ++ l) := by
  intro l
  induction l with
  | nil => intro acc h; simp [h]
  | cons c cs ih =>
    intro acc h
    simp only [List.foldl_cons]
    have := ih (insertOrdered c acc) (insertOrdered_sorted acc h)
    refine ⟨this.1, this.2.trans ?_⟩
    have p1 := (insertOrdered_perm c acc).append_right cs
    refine p1.trans ?_
    simp only [List.cons_append]
    exact List.perm_middle.symm

/-- **`hwloc__reorder_children` sorts**: a permutation in which no element starts below an earlier one -/
theorem reorder_sorted (l : List T) : (reorder l).Pairwise le ∧ (reorder l).Perm l := by
  have := reorder_aux l [] List.Pairwise.nil
  simpa [reorder] using this

theorem needsReorder_false : ∀ (l : List T), needsReorder l = false → l.Pairwise le := by
  intro l
  induction l with
  | nil => intro _; exact List.Pairwise.nil
  | cons a tl ih =>
    intro h
    cases tl with
    | nil => simp
    | cons b rest =>
      simp only [needsReorder, Bool.or_eq_false_iff] at h
      have hrest := ih h.2
      refine List.pairwise_cons.mpr ⟨?_, hrest⟩
      intro x hx
      have hab : le a b := by unfold le lt; simp [h.1]
      rcases List.mem_cons.mp hx with rfl | hx
      · exact hab
      · exact le_trans hab ((List.pairwise_cons.mp hrest).1 x hx)

/-- `hwloc__reorder_children_if_needed`: the result is ordered and a permutation of the input, whichever branch runs -/
theorem reorderIfNeeded_sorted (l : List T) : (reorderIfNeeded l).Pairwise le ∧ (reorderIfNeeded l).Perm l := by
  unfold reorderIfNeeded
  split
  · exact reorder_sorted l
  · rename_i h
    exact ⟨needsReorder_false l (by simpa using h), List.Perm.refl _⟩

end Hw.Topo.Ins
