/-
  Hw.Topo.StageMemory — model of `propagate_total_memory` (hwloc/topology.c) over the four-list tree:

      obj->total_memory = 0;
      for_each_child(child, obj)        { propagate_total_memory(child); obj->total_memory += child->total_memory; }
      for_each_memory_child(child, obj) { propagate_total_memory(child); obj->total_memory += child->total_memory; }
      if (obj->type == HWLOC_OBJ_NUMANODE) obj->total_memory += obj->attr->numanode.local_memory;

  `total_memory` is a `hwloc_uint64_t`: every `+=` wraps at 2^64 (`addW`).  I/O and Misc children are not visited (their
  total_memory is left as it is).  The local memory of an object is a parameter `loc : RObj → Nat` (the tree objects of
  `Hw.Topo.Restrict` do not carry attributes).
-/
import Hw.Topo.Render
namespace Hw.Topo.Restrict.Stage
open Hw.Topo Hw.Topo.Restrict

def W64 : Nat := 18446744073709551616
/-- `a += b` on `hwloc_uint64_t` -/
def addW (a b : Nat) : Nat := (a + b) % W64

mutual
/-- the value `propagate_total_memory(obj)` leaves in `obj->total_memory` -/
def totalT (loc : RObj → Nat) : Tree → Nat
  | .node o ns ms _ _ =>
    let b := totalAccL loc (totalAccL loc 0 ns) ms
    if o.type == tNUMA then addW b (loc o) else b
/-- the accumulation loop over one children list -/
def totalAccL (loc : RObj → Nat) (acc : Nat) : List Tree → Nat
  | [] => acc
  | t :: ts => totalAccL loc (addW acc (totalT loc t)) ts
end

mutual
/-- (gp_index, total_memory) of every object the function visits, depth-first (normal children, then memory children) -/
def totalsT (loc : RObj → Nat) : Tree → List (Nat × Nat)
  | .node o ns ms ios mis => (o.gp, totalT loc (.node o ns ms ios mis)) :: (totalsL loc ns ++ totalsL loc ms)
def totalsL (loc : RObj → Nat) : List Tree → List (Nat × Nat)
  | [] => []
  | t :: ts => totalsT loc t ++ totalsL loc ts
end

mutual
/-- the exact (unbounded) sum of the local memory of the NUMA nodes at or below an object (through normal and memory children) -/
def sumLocalT (loc : RObj → Nat) : Tree → Nat
  | .node o ns ms _ _ => (if o.type == tNUMA then loc o else 0) + (sumLocalL loc ns + sumLocalL loc ms)
def sumLocalL (loc : RObj → Nat) : List Tree → Nat
  | [] => 0
  | t :: ts => sumLocalT loc t + sumLocalL loc ts
end

end Hw.Topo.Restrict.Stage
