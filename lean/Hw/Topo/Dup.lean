/-
  Hw.Topo.Dup — model of hwloc_topology_dup (hwloc/topology.c hwloc__topology_dup / hwloc__duplicate_object,
  hwloc/distances.c hwloc_internal_distances_dup, hwloc/memattrs.c hwloc_internal_memattrs_dup,
  hwloc/cpukinds.c hwloc_internal_cpukinds_dup) at three levels:

  1. STATE level: `TopoState` = the tree dump (Hw.Topo.Types) + everything else `hwloc__topology_dup` copies
     (userdata pointers, page types, support, topology infos, distances, memattrs, cpukinds, grouping configuration)
     INCLUDING the internal caches (OBJS_VALID / CACHE_VALID flags, cached object pointers).  `dupState` is the
     identity on every field except the ones the C code resets: distances `iflags &= ~OBJS_VALID`, `objs` calloc'ed;
     memattrs `iflags &= ~(STATIC_NAME|CACHE_VALID)`, target / initiator `obj = NULL`; topology `userdata` is NOT
     copied (hwloc__topology_init sets it to NULL).  `pub` is the public view (what the API can report: caches are
     refreshed lazily and therefore invisible); `TopoEquivD a b := pub a = pub b`.
  2. ALLOCATION level: a bump allocator with alignment `A` (hwloc/shmem.c tma_shmem_malloc, A = 8) serving a trace of
     request sizes; `shmemLength` is hwloc_shmem_topology_get_length's arithmetic.
  3. PROVENANCE level: the pointer fields of the topology data structure as an enumeration, and the checker predicate
     of the harness ("every reachable pointer lies in a block handed out by the recording allocator, except userdata
     and NULL").
-/
import Hw.Topo.History
namespace Hw.Topo.Dup
open Hw.Topo Hw.Topo.Hist

/-! ## 1. state level -/

/-- `struct hwloc_internal_distances_s`; `cached` = number of non-NULL entries of the `objs` cache -/
structure Dist where
  id : Nat
  name : Option String
  kind : Nat
  iflags : Nat
  uniqueType : Int
  nbobjs : Nat
  types : Option (List Int)
  indexes : List Nat
  values : List Nat
  cached : Nat
deriving Repr, Inhabited, DecidableEq

/-- `struct hwloc_internal_memattr_initiator_s` -/
inductive Init
  | cpuset (set : Nat) (value : Nat)
  | object (type : Int) (gp : Nat) (cached : Bool) (value : Nat)
deriving Repr, Inhabited, DecidableEq

/-- `struct hwloc_internal_memattr_target_s` -/
structure Target where
  type : Int
  gp : Nat
  value : Nat
  cached : Bool
  inits : List Init
deriving Repr, Inhabited, DecidableEq

/-- `struct hwloc_internal_memattr_s` -/
structure MemAttr where
  name : String
  flags : Nat
  iflags : Nat
  targets : List Target
deriving Repr, Inhabited, DecidableEq

/-- `struct hwloc_internal_cpukind_s` -/
structure CpuKind where
  cpuset : Nat
  inf : Bool                                   -- bitmap `infinite` flag (registering an infinite set is possible)
  eff : Int
  forced : Int
  ranking : Nat
  infos : List (String × String)
deriving Repr, Inhabited, DecidableEq

structure TopoState where
  dump : Dump                                  -- tree, sets, attributes, infos, levels, allowed sets, flags, filters
  userdata : List Nat                          -- obj->userdata of every object (DFS order), as numbers
  pageTypes : List (Nat × List (Nat × Nat))    -- (object id, [(size, count)])
  state : Nat
  pid : Int
  udNotDecoded : Int
  topoUserdata : Nat                           -- topology->userdata
  support : List Nat                           -- bytes of the four support structures
  grouping : List Int                          -- grouping, verbose, nbaccuracies, accuracies (bit patterns), next_subkind, next_dist_id
  infos : List (String × String)               -- topology infos
  dists : List Dist
  memattrs : List MemAttr
  cpukinds : List CpuKind
deriving Repr, Inhabited, DecidableEq

/-- clear bit 0 (`HWLOC_INTERNAL_DIST_FLAG_OBJS_VALID`) -/
def clr1 (n : Nat) : Nat := n / 2 * 2
/-- clear bits 0 and 1 (`HWLOC_IMATTR_FLAG_STATIC_NAME | HWLOC_IMATTR_FLAG_CACHE_VALID`) -/
def clr2 (n : Nat) : Nat := n / 4 * 4

def Dist.invalidate (d : Dist) : Dist := { d with iflags := clr1 d.iflags, cached := 0 }
def Init.invalidate : Init → Init
  | .cpuset s v => .cpuset s v
  | .object t g _ v => .object t g false v
def Target.invalidate (t : Target) : Target := { t with cached := false, inits := t.inits.map Init.invalidate }
def MemAttr.invalidate (m : MemAttr) : MemAttr := { m with iflags := clr2 m.iflags, targets := m.targets.map Target.invalidate }

/-- `hwloc__topology_dup`: every field copied, caches invalidated, topology userdata left NULL -/
def dupState (s : TopoState) : TopoState :=
  { s with dists := s.dists.map Dist.invalidate, memattrs := s.memattrs.map MemAttr.invalidate, topoUserdata := 0 }

/-- the public view: what the API of a loaded topology can report (internal caches are refreshed on demand and are
not observable; the topology userdata pointer is outside the property, see `dup_topoUserdata`) -/
def pub (s : TopoState) : TopoState :=
  { s with dists := s.dists.map Dist.invalidate, memattrs := s.memattrs.map MemAttr.invalidate, topoUserdata := 0 }

/-- decidable observational equivalence of two topologies -/
def TopoEquivD (a b : TopoState) : Prop := pub a = pub b
instance (a b : TopoState) : Decidable (TopoEquivD a b) := inferInstanceAs (Decidable (pub a = pub b))

/-- first component in which the public views differ (diagnostics of the driver) -/
def firstDiff (a b : TopoState) : String :=
  let x := pub a; let y := pub b
  if x.dump != y.dump then
    (if x.dump.objs.length != y.dump.objs.length then "object-count"
     else match (x.dump.objs.zip y.dump.objs).find? (fun p => p.1 != p.2) with
       | some p => "object@" ++ toString p.1.id
       | none => if x.dump.levels != y.dump.levels then "levels" else if x.dump.flags != y.dump.flags then "flags"
                 else if x.dump.allowedCpuset != y.dump.allowedCpuset || x.dump.allowedNodeset != y.dump.allowedNodeset then "allowed-sets"
                 else if x.dump.filters != y.dump.filters then "filters" else "dump-other")
  else if x.userdata != y.userdata then "userdata"
  else if x.pageTypes != y.pageTypes then "page-types"
  else if x.state != y.state then "state"
  else if x.pid != y.pid then "pid"
  else if x.udNotDecoded != y.udNotDecoded then "userdata_not_decoded"
  else if x.support != y.support then "support"
  else if x.grouping != y.grouping then "grouping-config"
  else if x.infos != y.infos then "topology-infos"
  else if x.dists != y.dists then "distances"
  else if x.memattrs != y.memattrs then "memattrs"
  else if x.cpukinds != y.cpukinds then "cpukinds"
  else "none"

/-- first difference of the FULL internal states (used right after dup, where the model predicts the caches too) -/
def firstDiffExact (a b : TopoState) : String :=
  if pub a != pub b then firstDiff a b
  else if a.topoUserdata != b.topoUserdata then "topology-userdata"
  else if a.dists != b.dists then "distances-cache-flags"
  else if a.memattrs != b.memattrs then "memattrs-cache-flags"
  else "none"

/-! ### histories on a pair of copies -/

/-- a modelled modifying call (Hw.Topo.Hist.step: allow, add_info, modify_infos, set_subtype) on a full state -/
def stepS (s : TopoState) (op : HOp) : TopoState × Ret :=
  let r := Hist.step s.dump op
  ({ s with dump := r.1 }, r.2)

def run (s : TopoState) (h : List HOp) : TopoState := h.foldl (fun s op => (stepS s op).1) s

inductive Side | A | B
deriving Repr, DecidableEq

def stepPair (p : TopoState × TopoState) (x : Side × HOp) : TopoState × TopoState :=
  match x.1 with
  | .A => ((stepS p.1 x.2).1, p.2)
  | .B => (p.1, (stepS p.2 x.2).1)

def runPair (p : TopoState × TopoState) (l : List (Side × HOp)) : TopoState × TopoState := l.foldl stepPair p

def opsOf (sd : Side) (l : List (Side × HOp)) : List HOp := (l.filter (fun x => x.1 == sd)).map (·.2)

/-! ## 2. allocation level -/

def roundUp (n A : Nat) : Nat := (n + A - 1) / A * A

structure Block where
  start : Nat
  size : Nat
deriving Repr, DecidableEq, Inhabited

/-- bump allocator (`tma_shmem_malloc`): serve `sizes` in order starting at `cur`, advancing by the rounded size -/
def bump (A : Nat) : Nat → List Nat → List Block
  | _, [] => []
  | cur, s :: rest => ⟨cur, s⟩ :: bump A (cur + roundUp s A) rest

/-- total advance of the allocator (`tma_get_length_malloc`) -/
def bumpTotal (A : Nat) (sizes : List Nat) : Nat := (sizes.map (roundUp · A)).sum

/-- `hwloc_shmem_topology_get_length`: header + allocations, rounded up to the page size -/
def shmemLength (page header : Nat) (sizes : List Nat) : Nat := roundUp (header + bumpTotal 8 sizes) page

/-- some byte belongs to both extents -/
def Overlap (p ps q qs : Nat) : Prop := ∃ x, p ≤ x ∧ x < p + ps ∧ q ≤ x ∧ x < q + qs
def Block.Disjoint (a b : Block) : Prop := ¬ Overlap a.start a.size b.start b.size
def Block.inside (b : Block) (lo hi : Nat) : Prop := lo ≤ b.start ∧ b.start + b.size ≤ hi

/-! ## 3. provenance level -/

/-- every pointer FIELD of the topology data structure that `hwloc_topology_destroy` frees or that the API follows
(include/private/private.h struct hwloc_topology, include/hwloc.h struct hwloc_obj) -/
inductive PtrField
  | topoSelf | levelNbobjects | levels | levelArray | levelEntry | slevelObjs | slevelEntry | slevelFirst | slevelLast
  | allowedCpuset | allowedNodeset | supportDiscovery | supportCpubind | supportMembind | supportMisc
  | topoInfosArray | topoInfoName | topoInfoValue
  | objSelf | objSubtype | objName | objAttr | objPageTypes | objCpuset | objCompleteCpuset | objNodeset | objCompleteNodeset
  | bitmapUlongs | objInfosArray | objInfoName | objInfoValue | objChildren | objChildEntry
  | objParent | objNextCousin | objPrevCousin | objNextSibling | objPrevSibling | objFirstChild | objLastChild
  | objMemoryFirstChild | objIoFirstChild | objMiscFirstChild
  | objUserdata
  | distSelf | distName | distDifferentTypes | distIndexes | distValues | distObjs | distObjEntry | distPrev | distNext | firstDist | lastDist
  | memattrs | memattrName | memattrTargets | memattrTargetObj | memattrInitiators | memattrInitiatorCpuset | memattrInitiatorObj
  | cpukinds | cpukindCpuset | cpukindInfosArray | cpukindInfoName | cpukindInfoValue
deriving Repr, DecidableEq

/-- one pointer found by the walk: the field it was read from, its value and the extent it must cover -/
structure Ptr where
  field : PtrField
  addr : Nat
  size : Nat
deriving Repr, DecidableEq

def Block.contains (b : Block) (p : Ptr) : Bool := decide (b.start ≤ p.addr) && decide (p.addr + p.size ≤ b.start + b.size)

/-- the harness's checker: NULL and userdata are exempt, everything else lies inside a block of the recording allocator -/
def provOK (allocd : List Block) (ptrs : List Ptr) : Bool :=
  ptrs.all (fun p => p.addr == 0 || p.field == .objUserdata || allocd.any (fun b => b.contains p))

/-- the allocator hands out fresh blocks: none overlaps a block of the original topology -/
def Fresh (allocd old : List Block) : Prop := ∀ a ∈ allocd, ∀ o ∈ old, a.Disjoint o

end Hw.Topo.Dup
