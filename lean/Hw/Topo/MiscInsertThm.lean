/-
  Hw.Topo.MiscInsertThm — assembly: what `hwloc_topology_insert_misc_object` (dump-level model `insertMisc`) preserves,
  frame and gp_index facts, histories.
-/
import Hw.Topo.MiscInsertLevel
import Hw.Topo.MiscInsertAuxWF
namespace Hw.Topo.MiscIns
open Hw.Topo Hw.Topo.Hist

/-- object clauses proved to be preserved -/
def provedObj : List String := ["type-in-range", "not-filtered-out", "no-children-where-forbidden", "depth-by-type",
  "sets-presence", "set-in-complete", "pu-cpuset", "numa-nodeset", "pu-allowed", "numa-allowed", "cache-attrs", "group-depth",
  "set-in-parent", "memory-child-shares-cpuset", "depth-increases",
  "parent-kind", "normal-child-slot", "id-is-position", "root-or-parent", "siblings-ordered", "children-array",
  "special-list-heads", "special-list-links", "in-its-level"]

/-- object clauses that read the per-object aggregates `mkAux` (children counts, unions of the children's sets, memory sums) -/
def auxObj : List String := ["children-counts", "cpuset-is-disjoint-union-of-children", "memcache-nodeset", "nodeset-decomposition",
  "total-memory"]

theorem obj_names_split : ∀ c ∈ objClauses, c.1 ∈ provedObj ∨ c.1 ∈ auxObj := by decide

section
variable {d : Dump} (h : WF d) (p pos k : Nat) (name : Option String) (skip : Nat)
  (hp : p < pos) (hpos : pos ≤ d.objs.length) (hf : (d.filters[tMISC]?).getD 0 ≠ 1)
  (hk : ∀ l ∈ d.levels, l.depth = -7 → k ≤ l.objs.length)
  (hkdef : ∀ l ∈ d.levels, l.depth = -7 → k = (l.objs.filter (fun i => decide (i < (pos : Int)))).length)

local notation "DN" => after d p pos k name skip

include h hp hpos hf hk in
theorem after_obj_clauses (nm : String) (hnm : nm ∈ provedObj) (o' : Obj) (ho' : o' ∈ Dump.objs DN) :
    objClause nm DN (mkAux DN) o' = true := by
  have hloc : ∀ n ∈ localClauses, objClause n DN (mkAux DN) o' = true := fun n hn => c_local h p pos k name skip hf n hn o' ho'
  have hpar : ∀ n ∈ parentClauses, objClause n DN (mkAux DN) o' = true := fun n hn => c_parent h p pos k name skip hp hpos n hn o' ho'
  simp only [provedObj, List.mem_cons, List.not_mem_nil, or_false] at hnm
  rcases hnm with rfl | rfl | rfl | rfl | rfl | rfl | rfl | rfl | rfl | rfl | rfl | rfl | rfl | rfl | rfl | rfl | rfl | rfl | rfl | rfl | rfl | rfl | rfl | rfl
  · exact hloc _ (by decide)
  · exact hloc _ (by decide)
  · exact hloc _ (by decide)
  · exact hloc _ (by decide)
  · exact hloc _ (by decide)
  · exact hloc _ (by decide)
  · exact hloc _ (by decide)
  · exact hloc _ (by decide)
  · exact hloc _ (by decide)
  · exact hloc _ (by decide)
  · exact hloc _ (by decide)
  · exact hloc _ (by decide)
  · exact hpar _ (by decide)
  · exact hpar _ (by decide)
  · exact hpar _ (by decide)
  · exact c_parent_kind h p pos k name skip hp hpos o' ho'
  · exact c_normal_child_slot h p pos k name skip hp hpos o' ho'
  · exact c_id_is_position h p pos k name skip hpos o' ho'
  · exact c_root_or_parent h p pos k name skip hp hpos o' ho'
  · exact c_siblings_ordered h p pos k name skip hpos o' ho'
  · exact c_children_array h p pos k name skip hpos o' ho'
  · exact c_special_list_heads h p pos k name skip hp hpos o' ho'
  · exact c_special_list_links h p pos k name skip hp hpos o' ho'
  · exact c_in_its_level h p pos k name skip hpos hk o' ho'

include h hp hpos hk hkdef in
theorem after_top_clauses : ∀ c ∈ topClauses, c.2 DN (mkAux DN) = true := by
  intro c hc
  rw [← topClause_of_mem c hc]
  have hn : c.1 ∈ topClauses.map (·.1) := List.mem_map_of_mem hc
  simp only [topClauses, List.map_cons, List.map_nil, List.mem_cons, List.not_mem_nil, or_false] at hn
  rcases hn with e | e | e | e | e | e | e | e | e | e | e | e | e | e | e | e | e | e <;> rw [e]
  · exact t_nobjs h p pos k name skip hp hpos
  · exact t_root_is_machine h p pos k name skip hp hpos
  · exact t_machine_only_at_root h p pos k name skip hp
  · exact t_level0_is_root h p pos k name skip hp
  · exact t_pu_level_deepest h p pos k name skip
  · exact t_numa_exists h p pos k name skip
  · exact t_levels_listed h p pos k name skip
  · exact t_levels_cover_objects h p pos k name skip
  · exact t_level_entries_valid h p pos k name skip hpos hk
  · exact t_normal_level_types h p pos k name skip
  · exact t_type_depth_inverse h p pos k name skip
  · exact t_allowed_sets h p pos k name skip hp hpos
  · exact t_pu_osindex_unique h p pos k name skip
  · exact t_numa_osindex_unique h p pos k name skip
  · exact t_gp_index_unique h p pos k name skip
  · exact t_normal_levels_nonempty h p pos k name skip
  · exact t_depth_le_objects h p pos k name skip
  · exact t_levels_in_tree_order h p pos k name skip hkdef

end

section
variable {d : Dump} (h : WF d) (p pos k : Nat) (name : Option String) (skip : Nat)
  (hp : p < pos) (hpos : pos ≤ d.objs.length) (hf : (d.filters[tMISC]?).getD 0 ≠ 1)
  (hk : ∀ l ∈ d.levels, l.depth = -7 → k ≤ l.objs.length)
  (hkdef : ∀ l ∈ d.levels, l.depth = -7 → k = (l.objs.filter (fun i => decide (i < (pos : Int)))).length)

include h hp hpos hf hk hkdef in
/-- **the dump after the insertion is well formed**, for every insertion point behind the parent -/
theorem after_wf : WF (after d p pos k name skip) := by
  constructor
  · exact after_top_clauses h p pos k name skip hp hpos hk hkdef
  · intro c hc o' ho'
    rw [← objClause_of_mem c hc]
    rcases obj_names_split c hc with hm | hm
    · exact after_obj_clauses h p pos k name skip hp hpos hf hk c.1 hm o' ho'
    · simp only [auxObj, List.mem_cons, List.not_mem_nil, or_false] at hm
      rcases hm with e | e | e | e | e <;> rw [e]
      · exact c_children_counts h p pos k name skip hp hpos o' ho'
      · exact c_aux h p pos k name skip hp hpos _ (by decide) o' ho'
      · exact c_aux h p pos k name skip hp hpos _ (by decide) o' ho'
      · exact c_aux h p pos k name skip hp hpos _ (by decide) o' ho'
      · exact c_aux h p pos k name skip hp hpos _ (by decide) o' ho'

end

/-! ### the hypotheses on `pos` and `k` hold for the values the model uses -/

theorem newLidx_spec {d : Dump} (h : WF d) (pos : Nat) (l : Level) (hl : l ∈ d.levels) (h7 : l.depth = -7) :
    newLidx d pos = (l.objs.filter (fun i => decide (i < (pos : Int)))).length := by
  obtain ⟨l0, hl0, hm0, hd0, _⟩ := misc_level h
  have : l = l0 := h.level_ext hl hm0 (by rw [h7, hd0])
  subst this
  unfold newLidx miscLevel
  rw [hl0]; rfl

/-- **hwloc_topology_insert_misc_object preserves well-formedness** — every well-formed dump, every parent, every name,
    whether the call succeeds or is refused -/
theorem insertMisc_wf (d : Dump) (p : Nat) (name : Option String) (skip : Nat) (h : WF d) : WF (insertMisc d p name skip).1 := by
  unfold insertMisc
  by_cases hf : ((d.filters[tMISC]?).getD 0 == 1) = true
  · rw [if_pos hf]; exact h
  · rw [if_neg hf]
    by_cases hlen : d.objs.length ≤ p
    · rw [if_pos hlen]; exact h
    · rw [if_neg hlen]
      have hp : p < d.objs.length := by omega
      refine after_wf h p (subEnd d p) (newLidx d (subEnd d p)) name skip (subEnd_gt d p hp) (subEnd_le d p)
        (by simpa using hf) ?_ ?_
      · intro l hl h7
        rw [newLidx_spec h _ l hl h7]
        exact List.length_filter_le _ _
      · intro l hl h7
        exact newLidx_spec h _ l hl h7

/-- EINVAL (Misc objects filtered out: type filter KEEP_NONE) leaves the topology untouched -/
theorem insertMisc_filtered_unchanged (d : Dump) (p : Nat) (name : Option String) (skip : Nat)
    (hf : (d.filters[tMISC]?).getD 0 = 1) : insertMisc d p name skip = (d, .einval) := by
  unfold insertMisc
  rw [if_pos (by rw [hf]; rfl)]

/-- a refused call (any reason) returns the topology unchanged -/
theorem insertMisc_einval_unchanged (d : Dump) (p : Nat) (name : Option String) (skip : Nat)
    (he : (insertMisc d p name skip).2 = .einval) : (insertMisc d p name skip).1 = d := by
  unfold insertMisc at he ⊢
  by_cases hf : ((d.filters[tMISC]?).getD 0 == 1) = true
  · rw [if_pos hf]
  · rw [if_neg hf] at he ⊢
    by_cases hlen : d.objs.length ≤ p
    · rw [if_pos hlen]
    · rw [if_neg hlen] at he; cases he

/-- a successful call: the result is `after` at the end of the parent's subtree -/
theorem insertMisc_ok (d : Dump) (p : Nat) (name : Option String) (skip : Nat)
    (hf : (d.filters[tMISC]?).getD 0 ≠ 1) (hp : p < d.objs.length) :
    insertMisc d p name skip = (after d p (subEnd d p) (newLidx d (subEnd d p)) name skip, .ok 0) := by
  unfold insertMisc
  rw [if_neg (by simpa using hf), if_neg (by omega)]

/-! ### frame: what happens to the old objects, gp_index -/

/-- every field of an old object that is not a link and not one of the six updated fields is untouched -/
theorem upd_frame (p pos k : Nat) (last : Int) (o : Obj) :
    let o' := upd p pos k last o
    o'.type = o.type ∧ o'.depth = o.depth ∧ o'.osidx = o.osidx ∧ o'.gp = o.gp ∧ o'.rank = o.rank ∧ o'.arity = o.arity ∧
    o'.marity = o.marity ∧ o'.ioarity = o.ioarity ∧ o'.symm = o.symm ∧ o'.cpuset = o.cpuset ∧ o'.ccpuset = o.ccpuset ∧
    o'.nodeset = o.nodeset ∧ o'.cnodeset = o.cnodeset ∧ o'.totalMem = o.totalMem ∧ o'.attrs = o.attrs ∧ o'.subtype = o.subtype ∧
    o'.name = o.name ∧ o'.infos = o.infos ∧
    -- links: the same objects under the renaming
    o'.id = shN pos o.id ∧ o'.parent = shI pos o.parent ∧ o'.prevSib = shI pos o.prevSib ∧ o'.firstChild = shI pos o.firstChild ∧
    o'.lastChild = shI pos o.lastChild ∧ o'.memFirst = shI pos o.memFirst ∧ o'.ioFirst = shI pos o.ioFirst ∧
    o'.children = o.children.map (shI pos) ∧
    -- the parent
    o'.miscarity = (if o.id = p then o.miscarity + 1 else o.miscarity) ∧
    o'.miscFirst = (if o.id = p ∧ o.miscarity = 0 then (pos : Int) else shI pos o.miscFirst) ∧
    -- the previous last Misc child
    o'.nextSib = (if (o.id : Int) = last then (pos : Int) else shI pos o.nextSib) ∧
    -- Misc objects: renumbering of the later ones, new cousin of the two neighbours
    o'.lidx = (if o.type = tMISC ∧ k ≤ o.lidx then o.lidx + 1 else o.lidx) ∧
    o'.prevCousin = (if o.type = tMISC ∧ o.lidx = k then (pos : Int) else shI pos o.prevCousin) ∧
    o'.nextCousin = (if o.type = tMISC ∧ o.lidx + 1 = k then (pos : Int) else shI pos o.nextCousin) := by
  refine ⟨rfl, rfl, rfl, rfl, rfl, rfl, rfl, rfl, rfl, rfl, rfl, rfl, rfl, rfl, rfl, rfl, rfl, rfl, rfl, rfl, rfl, rfl, rfl, rfl, rfl, rfl,
    ?_, ?_, ?_, ?_, ?_, ?_⟩
  · show updMiscarity p o = _
    unfold updMiscarity; by_cases e : o.id = p <;> simp [e]
  · show updMiscFirst p pos o = _
    unfold updMiscFirst; by_cases e : o.id = p <;> by_cases e2 : o.miscarity = 0 <;> simp [e, e2]
  · show updNextSib last pos o = _
    unfold updNextSib; by_cases e : (o.id : Int) = last <;> simp [e]
  · show updLidx k o = _
    unfold updLidx; by_cases e : o.type = tMISC <;> by_cases e2 : k ≤ o.lidx <;> simp [e, e2]
  · show updPrevCousin pos k o = _
    unfold updPrevCousin; by_cases e : o.type = tMISC <;> by_cases e2 : o.lidx = k <;> simp [e, e2]
  · show updNextCousin pos k o = _
    unfold updNextCousin; by_cases e : o.type = tMISC <;> by_cases e2 : o.lidx + 1 = k <;> simp [e, e2]

/-- the objects after a successful call: the old object number `i` is found at number `shN pos i` as `upd … (old object)`,
    the new object at `pos`, and there is nothing else -/
theorem insertMisc_objs (d : Dump) (p : Nat) (name : Option String) (skip : Nat)
    (hf : (d.filters[tMISC]?).getD 0 ≠ 1) (hp : p < d.objs.length) :
    let pos := subEnd d p
    let k := newLidx d pos
    let d' := (insertMisc d p name skip).1
    p < pos ∧ pos ≤ d.objs.length ∧ d'.objs.length = d.objs.length + 1 ∧
    d'.objs[pos]? = some (newObj d p pos k name skip) ∧
    (∀ i, d'.objs[shN pos i]? = (d.objs[i]?).map (upd p pos k (lastId d p))) ∧
    d'.flags = d.flags ∧ d'.depth = d.depth ∧ d'.root = d.root ∧ d'.allowedCpuset = d.allowedCpuset ∧
    d'.allowedNodeset = d.allowedNodeset ∧ d'.filters = d.filters ∧ d'.typeDepths = d.typeDepths ∧ d'.nobjs = d.nobjs + 1 := by
  intro pos k d'
  have e : d' = after d p pos k name skip := by
    show (insertMisc d p name skip).1 = _
    rw [insertMisc_ok d p name skip hf hp]
  rw [e]
  exact ⟨subEnd_gt d p hp, subEnd_le d p, after_length d p pos k name skip, after_get_pos d p pos k name skip (subEnd_le d p),
    fun i => after_get_sh d p pos k name skip (subEnd_le d p) i, rfl, rfl, rfl, rfl, rfl, rfl, rfl, rfl⟩

/-- gp_index: the old values stay in place (in the old order), the new one is above all of them -/
theorem insertMisc_gps (d : Dump) (p : Nat) (name : Option String) (skip : Nat)
    (hf : (d.filters[tMISC]?).getD 0 ≠ 1) (hp : p < d.objs.length) :
    (insertMisc d p name skip).1.objs.map (·.gp) = insAt (d.objs.map (·.gp)) (subEnd d p) (maxGp d + 1 + skip) ∧
    ∀ o ∈ d.objs, o.gp < maxGp d + 1 + skip := by
  rw [insertMisc_ok d p name skip hf hp]
  refine ⟨after_gps p _ _ name skip, ?_⟩
  intro o ho
  have := gp_le_maxGp d o ho
  omega

/-! ### histories -/

theorem stepM_wf (d : Dump) (op : MOp) (h : WF d) : WF (stepM d op).1 := by
  cases op with
  | base op => exact step_wf d op h
  | misc p name skip => exact insertMisc_wf d p name skip h

theorem historyM_wf (d : Dump) (ops : List MOp) (h : WF d) : WF (runM d ops) := by
  unfold runM
  induction ops generalizing d with
  | nil => exact h
  | cons op ops ih => exact ih _ (stepM_wf d op h)

end Hw.Topo.MiscIns
