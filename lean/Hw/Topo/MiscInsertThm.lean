/-
  Hw.Topo.MiscInsertThm — assembly: what `hwloc_topology_insert_misc_object` (dump-level model `insertMisc`) preserves,
  frame and gp_index facts, histories.
-/
import Hw.Topo.MiscInsertLevel
namespace Hw.Topo.MiscIns
open Hw.Topo Hw.Topo.Hist

/-- object clauses proved to be preserved -/
def provedObj : List String := ["type-in-range", "not-filtered-out", "no-children-where-forbidden", "depth-by-type",
  "sets-presence", "set-in-complete", "pu-cpuset", "numa-nodeset", "pu-allowed", "numa-allowed", "cache-attrs", "group-depth",
  "set-in-parent", "memory-child-shares-cpuset", "depth-increases",
  "parent-kind", "normal-child-slot", "id-is-position", "root-or-parent", "siblings-ordered", "children-array",
  "special-list-heads", "special-list-links", "in-its-level"]

/-- object clauses that read the per-object aggregates `mkAux` (children counts, unions of the children's sets, memory sums) -/
def auxObj : List String := ["children-counts", "cpuset-is-disjoint-union-of-children", "memcache-nodeset", "nodeset-decomposition",
  "total-memory"]

theorem obj_names_split : ∀ c ∈ objClauses, c.1 ∈ provedObj ∨ c.1 ∈ auxObj := by decide

section
variable {d : Dump} (h : WF d) (p pos k : Nat) (name : Option String) (skip : Nat)
  (hp : p < pos) (hpos : pos ≤ d.objs.length) (hf : (d.filters[tMISC]?).getD 0 ≠ 1)
  (hk : ∀ l ∈ d.levels, l.depth = -7 → k ≤ l.objs.length)
  (hkdef : ∀ l ∈ d.levels, l.depth = -7 → k = (l.objs.filter (fun i => decide (i < (pos : Int)))).length)

local notation "DN" => after d p pos k name skip

include h hp hpos hf hk in
theorem after_obj_clauses (nm : String) (hnm : nm ∈ provedObj) (o' : Obj) (ho' : o' ∈ Dump.objs DN) :
    objClause nm DN (mkAux DN) o' = true := by
  have hloc : ∀ n ∈ localClauses, objClause n DN (mkAux DN) o' = true := fun n hn => c_local h p pos k name skip hf n hn o' ho'
  have hpar : ∀ n ∈ parentClauses, objClause n DN (mkAux DN) o' = true := fun n hn => c_parent h p pos k name skip hp hpos n hn o' ho'
  simp only [provedObj, List.mem_cons, List.not_mem_nil, or_false] at hnm
  rcases hnm with rfl | rfl | rfl | rfl | rfl | rfl | rfl | rfl | rfl | rfl | rfl | rfl | rfl | rfl | rfl | rfl | rfl | rfl | rfl | rfl | rfl | rfl | rfl | rfl
  · exact hloc _ (by decide)
  · exact hloc _ (by decide)
  · exact hloc _ (by decide)
  · exact hloc _ (by decide)
  · exact hloc _ (by decide)
  · exact hloc _ (by decide)
  · exact hloc _ (by decide)
  · exact hloc _ (by decide)
  · exact hloc _ (by decide)
  · exact hloc _ (by decide)
  · exact hloc _ (by decide)
  · exact hloc _ (by decide)
  · exact hpar _ (by decide)
  · exact hpar _ (by decide)
  · exact hpar _ (by decide)
  · exact c_parent_kind h p pos k name skip hp hpos o' ho'
  · exact c_normal_child_slot h p pos k name skip hp hpos o' ho'
  · exact c_id_is_position h p pos k name skip hpos o' ho'
  · exact c_root_or_parent h p pos k name skip hp hpos o' ho'
  · exact c_siblings_ordered h p pos k name skip hpos o' ho'
  · exact c_children_array h p pos k name skip hpos o' ho'
  · exact c_special_list_heads h p pos k name skip hp hpos o' ho'
  · exact c_special_list_links h p pos k name skip hp hpos o' ho'
  · exact c_in_its_level h p pos k name skip hpos hk o' ho'

include h hp hpos hk hkdef in
theorem after_top_clauses : ∀ c ∈ topClauses, c.2 DN (mkAux DN) = true := by
  intro c hc
  rw [← topClause_of_mem c hc]
  have hn : c.1 ∈ topClauses.map (·.1) := List.mem_map_of_mem hc
  simp only [topClauses, List.map_cons, List.map_nil, List.mem_cons, List.not_mem_nil, or_false] at hn
  rcases hn with e | e | e | e | e | e | e | e | e | e | e | e | e | e | e | e | e | e <;> rw [e]
  · exact t_nobjs h p pos k name skip hp hpos
  · exact t_root_is_machine h p pos k name skip hp hpos
  · exact t_machine_only_at_root h p pos k name skip hp
  · exact t_level0_is_root h p pos k name skip hp
  · exact t_pu_level_deepest h p pos k name skip
  · exact t_numa_exists h p pos k name skip
  · exact t_levels_listed h p pos k name skip
  · exact t_levels_cover_objects h p pos k name skip
  · exact t_level_entries_valid h p pos k name skip hpos hk
  · exact t_normal_level_types h p pos k name skip
  · exact t_type_depth_inverse h p pos k name skip
  · exact t_allowed_sets h p pos k name skip hp hpos
  · exact t_pu_osindex_unique h p pos k name skip
  · exact t_numa_osindex_unique h p pos k name skip
  · exact t_gp_index_unique h p pos k name skip
  · exact t_normal_levels_nonempty h p pos k name skip
  · exact t_depth_le_objects h p pos k name skip
  · exact t_levels_in_tree_order h p pos k name skip hkdef

end

/-! ### the hypotheses on `pos` and `k` hold for the values the model uses -/

theorem newLidx_spec {d : Dump} (h : WF d) (pos : Nat) (l : Level) (hl : l ∈ d.levels) (h7 : l.depth = -7) :
    newLidx d pos = (l.objs.filter (fun i => decide (i < (pos : Int)))).length := by
  obtain ⟨l0, hl0, hm0, hd0, _⟩ := misc_level h
  have : l = l0 := h.level_ext hl hm0 (by rw [h7, hd0])
  subst this
  unfold newLidx miscLevel
  rw [hl0]; rfl

end Hw.Topo.MiscIns
