/-
  Hw.Topo.InsertLemmas — the insertion routine on LAMINAR trees (children pairwise disjoint and included in their
  parent, recursively): it never reaches the object-losing situation `stuck`, every outcome is again a laminar tree, and
  the objects are conserved (exactly one more after an insertion, the same ones after a merge or a refused insertion).
-/
import Hw.Topo.Insert
namespace Hw.Topo.Ins

def sub (a b : Nat) : Prop := a &&& b = a
def dj (a b : Nat) : Prop := a &&& b = 0

theorem dj_comm {a b : Nat} : dj a b ↔ dj b a := by unfold dj; rw [Nat.and_comm]

theorem sub_trans {a b c : Nat} (h1 : sub a b) (h2 : sub b c) : sub a c := by
  unfold sub at *
  calc a &&& c = (a &&& b) &&& c := by rw [h1]
    _ = a &&& (b &&& c) := by rw [Nat.and_assoc]
    _ = a &&& b := by rw [h2]
    _ = a := h1

theorem sub_refl (a : Nat) : sub a a := by unfold sub; exact Nat.and_self a

/-- a non-empty set included in two sets makes them intersect -/
theorem not_dj_of_sub {d a b : Nat} (hd : d ≠ 0) (h1 : sub d a) (h2 : sub d b) : ¬ dj a b := by
  unfold sub dj at *
  intro h
  apply hd
  calc d = d &&& a := h1.symm
    _ = (d &&& b) &&& a := by rw [h2]
    _ = d &&& (a &&& b) := by rw [Nat.and_assoc, Nat.and_comm b a]
    _ = 0 := by rw [h]; simp

theorem dj_of_sub_left {d a b : Nat} (h1 : sub d a) (h : dj a b) : dj d b := by
  unfold sub dj at *
  calc d &&& b = (d &&& a) &&& b := by rw [h1]
    _ = d &&& (a &&& b) := by rw [Nat.and_assoc]
    _ = 0 := by rw [h]; simp

/-! ### what `cmpSets` tells -/

theorem cmpSets_equal {a b : Nat} (h : cmpSets a b = .equal) : a = b ∧ a ≠ 0 := by
  unfold cmpSets at h
  split at h <;> try contradiction
  rename_i h0
  split at h
  · rename_i he; exact ⟨he, fun ha => h0 (Or.inl ha)⟩
  · split at h <;> try contradiction
    split at h <;> try contradiction
    split at h <;> contradiction

theorem cmpSets_included {a b : Nat} (h : cmpSets a b = .included) : sub a b ∧ a ≠ 0 ∧ b ≠ 0 := by
  unfold cmpSets at h
  split at h <;> try contradiction
  rename_i h0
  split at h <;> try contradiction
  split at h
  · rename_i hs; exact ⟨hs, fun ha => h0 (Or.inl ha), fun hb => h0 (Or.inr hb)⟩
  · split at h <;> try contradiction
    split at h <;> contradiction

theorem cmpSets_contains {a b : Nat} (h : cmpSets a b = .contains) : sub b a ∧ a ≠ 0 ∧ b ≠ 0 := by
  unfold cmpSets at h
  split at h <;> try contradiction
  rename_i h0
  split at h <;> try contradiction
  split at h <;> try contradiction
  split at h
  · rename_i hs; exact ⟨by unfold sub; rw [Nat.and_comm]; exact hs, fun ha => h0 (Or.inl ha), fun hb => h0 (Or.inr hb)⟩
  · split at h <;> contradiction

theorem cmpSets_different {a b : Nat} (h : cmpSets a b = .different) : dj a b := by
  unfold cmpSets at h
  unfold dj
  split at h
  · rename_i h0; rcases h0 with h0 | h0 <;> simp [h0]
  · split at h <;> try contradiction
    split at h <;> try contradiction
    split at h <;> try contradiction
    split at h
    · assumption
    · contradiction

theorem cmpSets_intersects {a b : Nat} (h : cmpSets a b = .intersects) : ¬ dj a b := by
  unfold cmpSets at h
  unfold dj
  split at h <;> try contradiction
  split at h <;> try contradiction
  split at h <;> try contradiction
  split at h <;> try contradiction
  split at h
  · contradiction
  · assumption


/-! ### what one loop iteration decides -/

theorem typeCmp_ne_intersects (a b : IObj) : typeCmp a b ≠ .intersects := by
  unfold typeCmp
  split <;> try (intro h; cases h)
  split <;> try (intro h; cases h)
  split <;> (intro h; cases h)

theorem tryMerge_some {old new o' : IObj} (h : tryMerge old new = some o') : o'.gp = old.gp ∧ o'.key = old.key ∧ o'.mem = old.mem := by
  unfold tryMerge at h
  have hr : (replaceBy old new).gp = old.gp ∧ (replaceBy old new).key = old.key ∧ (replaceBy old new).mem = old.mem := by simp [replaceBy]
  repeat' split at h
  all_goals (cases h <;> first | exact hr | exact ⟨rfl, rfl, rfl⟩)

theorem decide1_merge {obj ko o' : IObj} (h : decide1 obj ko = .merge o') :
    obj.key = ko.key ∧ obj.key ≠ 0 ∧ o'.gp = ko.gp ∧ o'.key = ko.key ∧ o'.mem = ko.mem := by
  unfold decide1 at h
  split at h
  · rename_i hc
    have he := cmpSets_equal hc
    split at h
    · rename_i hm
      injection h with h; subst h
      have := tryMerge_some hm
      exact ⟨he.1, he.2, this.1, this.2.1, this.2.2⟩
    · split at h <;> try cases h
      exact ⟨he.1, he.2, rfl, rfl, rfl⟩
  all_goals cases h

theorem decide1_recurse {obj ko : IObj} (h : decide1 obj ko = .recurse) : sub obj.key ko.key ∧ obj.key ≠ 0 := by
  unfold decide1 at h
  split at h
  · rename_i hc
    have he := cmpSets_equal hc
    exact ⟨he.1 ▸ sub_refl _, he.2⟩
  · rename_i hc; have := cmpSets_included hc; exact ⟨this.1, this.2.1⟩
  all_goals cases h

theorem decide1_fail {obj ko : IObj} (h : decide1 obj ko = .fail) : ¬ dj obj.key ko.key := by
  unfold decide1 at h
  split at h
  · split at h
    · cases h
    · split at h <;> try cases h
      rename_i ht; exact absurd ht (typeCmp_ne_intersects _ _)
  · cases h
  · rename_i hc; exact cmpSets_intersects hc
  all_goals cases h

theorem decide1_differ {obj ko : IObj} (h : decide1 obj ko = .differ) : dj obj.key ko.key := by
  unfold decide1 at h
  split at h
  · split at h
    · cases h
    · split at h <;> cases h
  · cases h
  · cases h
  · rename_i hc; exact cmpSets_different hc
  · cases h

theorem decide1_contain {obj ko : IObj} {eq : Bool} (h : decide1 obj ko = .contain eq) :
    sub ko.key obj.key ∧ ko.key ≠ 0 ∧ (eq = true → obj.key = ko.key) := by
  unfold decide1 at h
  split at h
  · rename_i hc
    have he := cmpSets_equal hc
    split at h
    · cases h
    · split at h <;> try cases h
      exact ⟨he.1 ▸ sub_refl _, he.1 ▸ he.2, fun _ => he.1⟩
  · cases h
  · cases h
  · cases h
  · rename_i hc
    have := cmpSets_contains hc
    injection h with h; subst h
    exact ⟨this.1, this.2.2, fun h => by cases h⟩


/-! ### laminar trees, object counts, sizes -/

abbrev DJ (a b : T) : Prop := dj a.o.key b.o.key

theorem DJ_symm {a b : T} (h : DJ a b) : DJ b a := dj_comm.mp h

inductive Lam : T → Prop
  | mk {o : IObj} {kids : List T} :
      (∀ c ∈ kids, sub c.o.key o.key) → kids.Pairwise DJ → (∀ c ∈ kids, Lam c) → Lam (.node o kids)

theorem Lam.kids_sub {o : IObj} {kids : List T} (h : Lam (.node o kids)) : ∀ c ∈ kids, sub c.o.key o.key := by
  cases h; assumption
theorem Lam.kids_pw {o : IObj} {kids : List T} (h : Lam (.node o kids)) : kids.Pairwise DJ := by
  cases h; assumption
theorem Lam.kids_lam {o : IObj} {kids : List T} (h : Lam (.node o kids)) : ∀ c ∈ kids, Lam c := by
  cases h; assumption

theorem Lam.congr_key {o o' : IObj} {kids : List T} (h : Lam (.node o kids)) (hk : o'.key = o.key) : Lam (.node o' kids) :=
  .mk (fun c hc => hk ▸ h.kids_sub c hc) h.kids_pw h.kids_lam

/-- number of objects with gp_index `g` -/
def cntT (g : Nat) (t : T) : Nat := ((objsT t).map (·.gp)).count g
def cntL (g : Nat) (l : List T) : Nat := ((objsT.objsL l).map (·.gp)).count g

@[simp] theorem cntL_nil (g : Nat) : cntL g [] = 0 := by simp [cntL, objsT.objsL]
@[simp] theorem cntL_cons (g : Nat) (c : T) (cs : List T) : cntL g (c :: cs) = cntT g c + cntL g cs := by
  simp [cntL, cntT, objsT.objsL, List.count_append]
@[simp] theorem cntT_node (g : Nat) (o : IObj) (kids : List T) :
    cntT g (.node o kids) = (if o.gp = g then 1 else 0) + cntL g kids := by
  simp only [cntT, cntL, objsT, List.map_cons, List.count_cons]
  split <;> rename_i h <;> simp at h <;> simp [h] <;> omega
@[simp] theorem cntL_append (g : Nat) (a b : List T) : cntL g (a ++ b) = cntL g a + cntL g b := by
  induction a with
  | nil => simp
  | cons c cs ih => simp [ih]; omega

theorem cntL_take_drop (g : Nat) (l : List T) (i : Nat) (x : T) :
    cntL g (l.take i ++ x :: l.drop i) = cntL g l + cntT g x := by
  have h : cntL g l = cntL g (l.take i) + cntL g (l.drop i) := by
    rw [← cntL_append, List.take_append_drop]
  rw [h]; simp; omega

def size (t : T) : Nat := (objsT t).length
def sizeL (l : List T) : Nat := (objsT.objsL l).length

theorem size_node (o : IObj) (kids : List T) : size (.node o kids) = 1 + sizeL kids := by
  simp [size, sizeL, objsT]; omega
theorem sizeL_mem {c : T} {l : List T} (h : c ∈ l) : size c ≤ sizeL l := by
  induction l with
  | nil => cases h
  | cons x xs ih =>
    simp only [sizeL, objsT.objsL, List.length_append] at *
    rcases List.mem_cons.mp h with rfl | h
    · simp [size]
    · have := ih h; omega


/-! ### the main invariant -/

theorem pairwise_insert {R : T → T → Prop} (hs : ∀ a b, R a b → R b a) {l : List T} (hl : l.Pairwise R) {x : T}
    (hx : ∀ c ∈ l, R x c) (i : Nat) : (l.take i ++ x :: l.drop i).Pairwise R := by
  have hsplit : (l.take i ++ l.drop i).Pairwise R := by rw [List.take_append_drop]; exact hl
  have h3 := List.pairwise_append.mp hsplit
  refine List.pairwise_append.mpr ⟨h3.1, ?_, ?_⟩
  · exact List.pairwise_cons.mpr ⟨fun b hb => hx b (List.mem_of_mem_drop hb), h3.2.1⟩
  · intro a ha b hb
    rcases List.mem_cons.mp hb with rfl | hb
    · exact hs _ _ (hx a (List.mem_of_mem_take ha))
    · exact h3.2.2 a ha b hb

/-- what every outcome of an insertion below `orig` satisfies -/
def Good (g0 : Nat) (orig : T) : Res → Prop
  | .stuck => False
  | .inserted t' => Lam t' ∧ t'.o.key = orig.o.key ∧ ∀ g, cntT g t' = cntT g orig + (if g0 = g then 1 else 0)
  | .merged t' _ => Lam t' ∧ t'.o.key = orig.o.key ∧ ∀ g, cntT g t' = cntT g orig
  | .failed t' => Lam t' ∧ t'.o.key = orig.o.key ∧ ∀ g, cntT g t' = cntT g orig

theorem Good.wrap {g0 : Nat} {co : IObj} {before rest : List T} {c : T} {r : Res}
    (h : Good g0 c r) (hL : Lam (.node co (before ++ c :: rest))) :
    Good g0 (.node co (before ++ c :: rest)) (r.wrap co before rest) := by
  have key : ∀ c' : T, Lam c' → c'.o.key = c.o.key → Lam (.node co (before ++ c' :: rest)) := by
    intro c' hl' hk
    refine .mk ?_ ?_ ?_
    · intro x hx
      rcases List.mem_append.mp hx with hx | hx
      · exact hL.kids_sub x (List.mem_append_left _ hx)
      · rcases List.mem_cons.mp hx with rfl | hx
        · rw [hk]; exact hL.kids_sub c (by simp)
        · exact hL.kids_sub x (by simp [hx])
    · have hp := List.pairwise_append.mp hL.kids_pw
      have hc := List.pairwise_cons.mp hp.2.1
      refine List.pairwise_append.mpr ⟨hp.1, List.pairwise_cons.mpr ⟨?_, hc.2⟩, ?_⟩
      · intro b hb; show dj c'.o.key b.o.key; rw [hk]; exact hc.1 b hb
      · intro a ha b hb
        rcases List.mem_cons.mp hb with rfl | hb
        · show dj a.o.key b.o.key; rw [hk]; exact hp.2.2 a ha c (by simp)
        · exact hp.2.2 a ha b (by simp [hb])
    · intro x hx
      rcases List.mem_append.mp hx with hx | hx
      · exact hL.kids_lam x (List.mem_append_left _ hx)
      · rcases List.mem_cons.mp hx with rfl | hx
        · exact hl'
        · exact hL.kids_lam x (by simp [hx])
  cases r with
  | stuck => exact h
  | inserted c' =>
    obtain ⟨hl', ho, hc⟩ := h
    refine ⟨key c' hl' ho, rfl, fun g => ?_⟩
    simp [hc g]; omega
  | merged c' m =>
    obtain ⟨hl', ho, hc⟩ := h
    refine ⟨key c' hl' ho, rfl, fun g => ?_⟩
    simp [hc g]
  | failed c' =>
    obtain ⟨hl', ho, hc⟩ := h
    refine ⟨key c' hl' ho, rfl, fun g => ?_⟩
    simp [hc g]


theorem cntL_putback (g : Nat) : ∀ (taken lst : List T), cntL g (putback lst taken) = cntL g lst + cntL g taken := by
  intro taken
  induction taken with
  | nil => intro lst; simp [putback]
  | cons c cs ih =>
    intro lst
    simp only [putback, cntL_append, ih, cntL_cons]
    have h : cntL g lst = cntL g (lst.takeWhile (fun x => firstLt x.o.ckey c.o.ckey)) + cntL g (lst.dropWhile (fun x => firstLt x.o.ckey c.o.ckey)) := by
      rw [← cntL_append, List.takeWhile_append_dropWhile]
    omega

theorem putback_perm : ∀ (taken lst : List T), (putback lst taken).Perm (lst ++ taken) := by
  intro taken
  induction taken with
  | nil => intro lst; simp [putback]
  | cons c cs ih =>
    intro lst
    simp only [putback]
    have h1 := ih (c :: lst.dropWhile (fun x => firstLt x.o.ckey c.o.ckey))
    have h2 : (lst.takeWhile (fun x => firstLt x.o.ckey c.o.ckey) ++ (c :: lst.dropWhile (fun x => firstLt x.o.ckey c.o.ckey) ++ cs)).Perm
        (lst ++ c :: cs) := by
      have e : lst ++ c :: cs = lst.takeWhile (fun x => firstLt x.o.ckey c.o.ckey) ++ (lst.dropWhile (fun x => firstLt x.o.ckey c.o.ckey) ++ c :: cs) := by
        rw [← List.append_assoc, List.takeWhile_append_dropWhile]
      rw [e]
      apply List.Perm.append_left
      simp only [List.cons_append]
      exact (List.perm_middle).symm
    exact (List.Perm.append_left _ h1).trans h2

/-- the loop invariant; `IH` is the statement for the (smaller) children -/
theorem insLoop_good (N : Nat)
    (IH : ∀ c : T, size c < N → ∀ obj : IObj, Lam c → sub obj.key c.o.key → Good obj.gp c (ins obj c))
    (co : IObj) (kids : List T) (hL : Lam (.node co kids)) (g0 k0 : Nat) (hk0 : sub k0 co.key) :
    ∀ (rest before taken : List T) (putp : Option Nat) (obj : IObj), obj.gp = g0 → obj.key = k0 →
      kids = before ++ rest ∨ taken ≠ [] →
      (∀ g, cntL g before + cntL g taken + cntL g rest = cntL g kids) →
      (∀ c ∈ before, dj k0 c.o.key) →
      (∀ c ∈ taken, sub c.o.key k0 ∧ c.o.key ≠ 0) →
      (before ++ rest).Pairwise DJ → taken.Pairwise DJ → (∀ d ∈ taken, ∀ c ∈ rest, DJ d c) →
      (∀ a ∈ before, ∀ d ∈ taken, DJ a d) →
      (∀ c ∈ before ++ taken ++ rest, Lam c ∧ sub c.o.key co.key ∧ size c < N) →
      Good g0 (.node co kids) (insLoop obj co before taken putp rest) := by
  intro rest
  induction rest with
  | nil =>
    intro before taken putp obj hg hk _ hcnt hbef htak hpw hpt _ _ hall
    simp only [insLoop]
    refine ⟨.mk ?_ ?_ ?_, rfl, fun g => ?_⟩
    · intro c hc
      rcases List.mem_append.mp hc with hc | hc
      · exact (hall c (by simp [List.mem_of_mem_take hc])).2.1
      · rcases List.mem_cons.mp hc with rfl | hc
        · show sub obj.key co.key; rw [hk]; exact hk0
        · exact (hall c (by simp [List.mem_of_mem_drop hc])).2.1
    · apply pairwise_insert (fun a b h => DJ_symm h) (by simpa using hpw)
      intro c hc; show dj obj.key c.o.key; rw [hk]; exact hbef c hc
    · intro c hc
      have hnew : Lam (T.node obj taken) :=
        .mk (fun d hd => hk ▸ (htak d hd).1) hpt (fun d hd => (hall d (by simp [hd])).1)
      rcases List.mem_append.mp hc with hc | hc
      · exact (hall c (by simp [List.mem_of_mem_take hc])).1
      · rcases List.mem_cons.mp hc with rfl | hc
        · exact hnew
        · exact (hall c (by simp [List.mem_of_mem_drop hc])).1
    · have := hcnt g
      simp only [cntL_nil, Nat.add_zero] at this
      rw [cntT_node, cntL_take_drop, cntT_node, cntT_node, hg]
      split <;> omega
  | cons c rest ih =>
    intro before taken putp obj hg hk hshape hcnt hbef htak hpw hpt hcross hbt hall
    cases c with
    | node ko kk =>
    simp only [insLoop]
    have hcur := hall (T.node ko kk) (by simp)
    have hp := List.pairwise_append.mp hpw
    have hpc := List.pairwise_cons.mp hp.2.1
    -- a child already taken by OBJ is disjoint from the current one; this refutes `stuck`
    have notaken : sub k0 ko.key → taken = [] := by
      intro hs
      cases htk : taken with
      | nil => rfl
      | cons d ds =>
        exfalso
        have hd := htak d (by simp [htk])
        have hdc : DJ d (T.node ko kk) := hcross d (by simp [htk]) _ (by simp)
        exact not_dj_of_sub hd.2 (sub_refl _) (sub_trans hd.1 hs) hdc
    cases hd : decide1 obj ko with
    | merge o' =>
      simp only []
      have hm := decide1_merge hd
      have ht : taken = [] := notaken (by rw [← hk, hm.1]; exact sub_refl _)
      subst ht
      have hkids : kids = before ++ T.node ko kk :: rest := by
        rcases hshape with h | h
        · exact h
        · exact absurd rfl h
      simp only [List.isEmpty_nil, if_true]
      have hg1 : Good g0 (T.node ko kk) (.merged (T.node o' kk) ko.gp) := by
        refine ⟨(hcur.1).congr_key hm.2.2.2.1, hm.2.2.2.1, fun g => ?_⟩
        simp [hm.2.2.1]
      have := Good.wrap (co := co) (before := before) (rest := rest) hg1 (hkids ▸ hL)
      rw [hkids]; exact this
    | recurse =>
      simp only []
      have hr := decide1_recurse hd
      have ht : taken = [] := notaken (hk ▸ hr.1)
      subst ht
      have hkids : kids = before ++ T.node ko kk :: rest := by
        rcases hshape with h | h
        · exact h
        · exact absurd rfl h
      simp only [List.isEmpty_nil, if_true]
      have hg1 := IH (T.node ko kk) hcur.2.2 obj hcur.1 hr.1
      rw [hg] at hg1
      have := Good.wrap (co := co) (before := before) (rest := rest) hg1 (hkids ▸ hL)
      rw [hkids]; exact this
    | fail =>
      simp only []
      -- the kids of the result are a permutation of (before ++ c :: rest) ++ taken
      have hperm : ∀ l : List T,
          l = (match putp with
               | some i => (before ++ T.node ko kk :: rest).take i ++ putback ((before ++ T.node ko kk :: rest).drop i) taken
               | none => putback (before ++ T.node ko kk :: rest) taken) →
          l.Perm ((before ++ T.node ko kk :: rest) ++ taken) := by
        intro l hl
        subst hl
        cases putp with
        | none => exact putback_perm taken _
        | some i =>
          have := (List.Perm.append_left ((before ++ T.node ko kk :: rest).take i) (putback_perm taken ((before ++ T.node ko kk :: rest).drop i)))
          rw [← List.append_assoc, List.take_append_drop] at this
          exact this
      have hsrc : ((before ++ T.node ko kk :: rest) ++ taken).Pairwise DJ := by
        refine List.pairwise_append.mpr ⟨hpw, hpt, ?_⟩
        intro a ha d hd
        rcases List.mem_append.mp ha with ha | ha
        · exact hbt a ha d hd
        · exact DJ_symm (hcross d hd a ha)
      refine ⟨?_, rfl, fun g => ?_⟩
      · have hp' := hperm _ rfl
        refine .mk ?_ ((hp'.pairwise_iff (fun h => DJ_symm h)).mpr hsrc) ?_
        · intro x hx
          have hx' := hp'.mem_iff.mp hx
          exact (hall x (by
            simp only [List.mem_append, List.mem_cons] at hx' ⊢
            rcases hx' with (h | h) | h
            · exact Or.inl (Or.inl h)
            · exact Or.inr h
            · exact Or.inl (Or.inr h))).2.1
        · intro x hx
          have hx' := hp'.mem_iff.mp hx
          exact (hall x (by
            simp only [List.mem_append, List.mem_cons] at hx' ⊢
            rcases hx' with (h | h) | h
            · exact Or.inl (Or.inl h)
            · exact Or.inr h
            · exact Or.inl (Or.inr h))).1
      have hc := hcnt g
      simp only [cntL_cons] at hc
      rw [cntT_node, cntT_node]
      congr 1
      cases putp with
      | none => simp only [cntL_putback, cntL_append, cntL_cons]; omega
      | some i =>
        simp only [cntL_append, cntL_putback]
        have h : cntL g (List.take i (before ++ T.node ko kk :: rest)) + cntL g (List.drop i (before ++ T.node ko kk :: rest))
            = cntL g (before ++ T.node ko kk :: rest) := by
          rw [← cntL_append, List.take_append_drop]
        simp only [cntL_append, cntL_cons] at h
        omega
    | differ =>
      simp only []
      have hdj := decide1_differ hd
      apply ih (before ++ [T.node ko kk]) taken _ obj hg hk
      · rcases hshape with h | h
        · left; simp [h]
        · right; exact h
      · intro g; have := hcnt g; simp only [cntL_append, cntL_cons, cntL_nil] at *; omega
      · intro x hx
        rcases List.mem_append.mp hx with hx | hx
        · exact hbef x hx
        · simp at hx; subst hx; rw [← hk]; exact hdj
      · exact htak
      · simpa using hpw
      · exact hpt
      · intro d hd x hx; exact hcross d hd x (by simp [hx])
      · intro a ha d hd
        rcases List.mem_append.mp ha with ha | ha
        · exact hbt a ha d hd
        · simp at ha; subst ha; exact DJ_symm (hcross d hd _ (by simp))
      · intro x hx; apply hall
        simp only [List.mem_append, List.mem_cons, List.not_mem_nil, or_false] at hx ⊢
        rcases hx with ((h | h) | h) | h
        · exact Or.inl (Or.inl h)
        · exact Or.inr (Or.inl h)
        · exact Or.inl (Or.inr h)
        · exact Or.inr (Or.inr h)
    | contain eq =>
      simp only []
      have hc := decide1_contain hd
      have step : ∀ ko' obj' : IObj, ko'.key = ko.key → ko'.gp = ko.gp → obj'.gp = g0 → obj'.key = k0 →
          Good g0 (T.node co kids) (insLoop obj' co before (taken ++ [T.node ko' kk]) putp rest) := by
        intro ko' obj' hkk hkg hg' hk'
        have hDJ : ∀ x : T, DJ (T.node ko kk) x → DJ (T.node ko' kk) x := by
          intro x h; show dj ko'.key x.o.key; rw [hkk]; exact h
        apply ih before (taken ++ [T.node ko' kk]) putp obj' hg' hk'
        · right; simp
        · intro g; have := hcnt g
          simp only [cntL_append, cntL_cons, cntL_nil, cntT_node, hkg] at *; omega
        · exact hbef
        · intro x hx
          rcases List.mem_append.mp hx with hx | hx
          · exact htak x hx
          · simp at hx; subst hx; show sub ko'.key k0 ∧ ko'.key ≠ 0; rw [hkk, ← hk]; exact ⟨hc.1, hc.2.1⟩
        · exact List.pairwise_append.mpr ⟨hp.1, hpc.2, fun a ha b hb => hp.2.2 a ha b (by simp [hb])⟩
        · refine List.pairwise_append.mpr ⟨hpt, by simp, ?_⟩
          intro a ha b hb
          simp at hb; subst hb
          exact DJ_symm (hDJ a (DJ_symm (hcross a ha _ (by simp))))
        · intro d hd x hx
          rcases List.mem_append.mp hd with hd | hd
          · exact hcross d hd x (by simp [hx])
          · simp at hd; subst hd; exact hDJ x (hpc.1 x hx)
        · intro a ha d hd
          rcases List.mem_append.mp hd with hd | hd
          · exact hbt a ha d hd
          · simp at hd; subst hd; exact DJ_symm (hDJ a (DJ_symm (hp.2.2 a ha _ (by simp))))
        · intro x hx
          simp only [List.mem_append, List.mem_cons, List.not_mem_nil, or_false] at hx
          rcases hx with (h | (h | h)) | h
          · exact hall x (by simp [h])
          · exact hall x (by simp [h])
          · subst h
            refine ⟨(hcur.1).congr_key hkk, by show sub ko'.key co.key; rw [hkk]; exact hcur.2.1, ?_⟩
            have : size (T.node ko' kk) = size (T.node ko kk) := by simp [size_node]
            rw [this]; exact hcur.2.2
          · exact hall x (by simp [h])
      cases eq with
      | false => exact step ko obj rfl rfl hg hk
      | true => exact step { ko with mem := [] } { obj with mem := ko.mem } rfl rfl hg hk


theorem ins_good_aux : ∀ (N : Nat) (t : T), size t < N → ∀ obj : IObj, Lam t → sub obj.key t.o.key → Good obj.gp t (ins obj t) := by
  intro N
  induction N with
  | zero => intro t h; exact absurd h (Nat.not_lt_zero _)
  | succ N ih =>
    intro t hsz obj hL hs
    cases t with
    | node co kids =>
    simp only [ins]
    have hsz' : ∀ c ∈ kids, size c < N := by
      intro c hc
      have := sizeL_mem hc
      rw [size_node] at hsz; omega
    apply insLoop_good N ih co kids hL obj.gp obj.key hs kids [] [] none obj rfl rfl
    · left; simp
    · intro g; simp
    · intro c hc; cases hc
    · intro c hc; cases hc
    · simpa using hL.kids_pw
    · exact List.Pairwise.nil
    · intro d hd; cases hd
    · intro a ha; cases ha
    · intro c hc
      have hc' : c ∈ kids := by simpa using hc
      exact ⟨hL.kids_lam c hc', hL.kids_sub c hc', hsz' c hc'⟩

/-- **Insertion on a laminar tree.**  For every laminar tree `t` and every object whose set is included in the root's:
the C routine never returns while children hang below the unlinked object (`stuck`); an insertion yields a laminar tree with
exactly one more object (the new one), a merge or a refused insertion (intersection) yields a tree with exactly the same
objects, laminar again after a merge; the root keeps its set. -/
theorem ins_good (t : T) (obj : IObj) (hL : Lam t) (hs : sub obj.key t.o.key) : Good obj.gp t (ins obj t) :=
  ins_good_aux (size t + 1) t (Nat.lt_succ_self _) obj hL hs


/-! ### executable laminarity check (evaluated by the driver on the tree of every real topology before a Group insertion) -/

def pwDJB : List T → Bool
  | [] => true
  | c :: cs => cs.all (fun x => c.o.key &&& x.o.key == 0) && pwDJB cs

mutual
def lamB : T → Bool
  | .node o kids => kids.all (fun c => c.o.key &&& o.key == c.o.key) && pwDJB kids && lamBL kids
def lamBL : List T → Bool
  | [] => true
  | c :: cs => lamB c && lamBL cs
end

theorem pwDJB_sound : ∀ l : List T, pwDJB l = true → l.Pairwise DJ := by
  intro l
  induction l with
  | nil => intro _; exact List.Pairwise.nil
  | cons c cs ih =>
    intro h
    simp only [pwDJB, Bool.and_eq_true, List.all_eq_true, beq_iff_eq] at h
    exact List.pairwise_cons.mpr ⟨fun x hx => h.1 x hx, ih h.2⟩

theorem lamBL_mem : ∀ (l : List T), lamBL l = true → ∀ c ∈ l, lamB c = true := by
  intro l
  induction l with
  | nil => intro _ c hc; cases hc
  | cons x xs ih =>
    intro h c hc
    simp only [lamBL, Bool.and_eq_true] at h
    rcases List.mem_cons.mp hc with rfl | hc
    · exact h.1
    · exact ih h.2 c hc

theorem lamB_sound_aux : ∀ (N : Nat) (t : T), size t < N → lamB t = true → Lam t := by
  intro N
  induction N with
  | zero => intro t h; exact absurd h (Nat.not_lt_zero _)
  | succ N ih =>
    intro t hsz h
    cases t with
    | node o kids =>
    simp only [lamB, Bool.and_eq_true, List.all_eq_true, beq_iff_eq] at h
    refine .mk (fun c hc => h.1.1 c hc) (pwDJB_sound kids h.1.2) ?_
    intro c hc
    apply ih c _ (lamBL_mem kids h.2 c hc)
    have := sizeL_mem hc
    rw [size_node] at hsz; omega

theorem lamB_sound (t : T) (h : lamB t = true) : Lam t := lamB_sound_aux (size t + 1) t (Nat.lt_succ_self _) h

/-! ### the Group insertion entry point -/

theorem cmpSets_included_sub {a b : Nat} (h : cmpSets a b = .included) : sub a b := (cmpSets_included h).1

/-- `hwloc_topology_insert_group_object` on a laminar topology: whatever the arguments, the core insertion never loses objects, and
its outcome is described by `Good` -/
theorem insertGroup_good (filterGroup rootCpuset rootNodeset : Nat) (numas : List (Nat × Nat)) (root : T) (newGp : Nat) (a : GArgs)
    (hL : Lam root) (key : Nat) (r : Res)
    (h : insertGroup filterGroup rootCpuset rootNodeset numas root newGp a = .core key r) : Good newGp root r := by
  unfold insertGroup at h
  split at h
  · cases h
  · split at h
    · cases h
    · split at h
      · rename_i hc
        injection h with h1 h2
        subst h2
        exact ins_good root _ hL (cmpSets_included_sub hc)
      · cases h


/-! ### a whole discovery: any sequence of insertions -/

/-- insert the objects one after the other, as a discovery back end does; a refused object leaves the put-back tree;
`none` = an object was lost (`stuck`) -/
def insAll : T → List IObj → Option T
  | t, [] => some t
  | t, o :: os =>
    match ins o t with
    | .inserted t' => insAll t' os
    | .merged t' _ => insAll t' os
    | .failed t' => insAll t' os
    | .stuck => none

/-- **Any sequence of insertions keeps the tree laminar and loses nothing**: starting from a laminar tree, inserting any list
of objects whose sets lie inside the root's yields a laminar tree with the same root set; no object of the tree is ever lost
and every new gp_index appears at most as often as it was inserted -/
theorem insAll_good : ∀ (objs : List IObj) (t : T), Lam t → (∀ o ∈ objs, sub o.key t.o.key) →
    ∃ t', insAll t objs = some t' ∧ Lam t' ∧ t'.o.key = t.o.key ∧
      ∀ g, cntT g t ≤ cntT g t' ∧ cntT g t' ≤ cntT g t + (objs.map (·.gp)).count g := by
  intro objs
  induction objs with
  | nil => intro t hL _; exact ⟨t, rfl, hL, rfl, fun g => by simp⟩
  | cons o os ih =>
    intro t hL hs
    have h := ins_good t o hL (hs o (by simp))
    simp only [insAll]
    have next : ∀ t1 : T, Lam t1 → t1.o.key = t.o.key → (∀ g, cntT g t ≤ cntT g t1 ∧ cntT g t1 ≤ cntT g t + (if o.gp = g then 1 else 0)) →
        ∃ t', insAll t1 os = some t' ∧ Lam t' ∧ t'.o.key = t.o.key ∧
          ∀ g, cntT g t ≤ cntT g t' ∧ cntT g t' ≤ cntT g t + ((o :: os).map (·.gp)).count g := by
      intro t1 hL1 hk1 hc1
      obtain ⟨t', e, hL', hk', hc'⟩ := ih t1 hL1 (fun x hx => hk1 ▸ hs x (by simp [hx]))
      refine ⟨t', e, hL', hk'.trans hk1, fun g => ?_⟩
      have a := hc1 g; have b := hc' g
      simp only [List.map_cons, List.count_cons]
      split at a <;> rename_i hg <;> simp [hg] <;> omega
    cases hr : ins o t with
    | stuck => rw [hr] at h; exact absurd h id
    | inserted t1 =>
      rw [hr] at h
      exact next t1 h.1 h.2.1 (fun g => by have := h.2.2 g; by_cases hg : o.gp = g <;> simp [hg] at this ⊢ <;> omega)
    | merged t1 m =>
      rw [hr] at h
      exact next t1 h.1 h.2.1 (fun g => by have := h.2.2 g; by_cases hg : o.gp = g <;> simp [hg] at this ⊢ <;> omega)
    | failed t1 =>
      rw [hr] at h
      exact next t1 h.1 h.2.1 (fun g => by have := h.2.2 g; by_cases hg : o.gp = g <;> simp [hg] at this ⊢ <;> omega)

end Hw.Topo.Ins
