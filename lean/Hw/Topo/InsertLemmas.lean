/-
  Hw.Topo.InsertLemmas — the insertion routine on LAMINAR trees (children pairwise disjoint and included in their
  parent, recursively): it never reaches the object-losing situation `stuck`, every outcome is again a laminar tree, and
  the objects are conserved (exactly one more after an insertion, the same ones after a merge or a refused insertion).
-/
import Hw.Topo.Insert
namespace Hw.Topo.Ins

def sub (a b : Nat) : Prop := a &&& b = a
def dj (a b : Nat) : Prop := a &&& b = 0

theorem dj_comm {a b : Nat} : dj a b ↔ dj b a := by unfold dj; rw [Nat.and_comm]

theorem sub_trans {a b c : Nat} (h1 : sub a b) (h2 : sub b c) : sub a c := by
  unfold sub at *
  calc a &&& c = (a &&& b) &&& c := by rw [h1]
    _ = a &&& (b &&& c) := by rw [Nat.and_assoc]
    _ = a &&& b := by rw [h2]
    _ = a := h1

theorem sub_refl (a : Nat) : sub a a := by unfold sub; exact Nat.and_self a

/-- a non-empty set included in two sets makes them intersect -/
theorem not_dj_of_sub {d a b : Nat} (hd : d ≠ 0) (h1 : sub d a) (h2 : sub d b) : ¬ dj a b := by
  unfold sub dj at *
  intro h
  apply hd
  calc d = d &&& a := h1.symm
    _ = (d &&& b) &&& a := by rw [h2]
    _ = d &&& (a &&& b) := by rw [Nat.and_assoc, Nat.and_comm b a]
    _ = 0 := by rw [h]; simp

theorem dj_of_sub_left {d a b : Nat} (h1 : sub d a) (h : dj a b) : dj d b := by
  unfold sub dj at *
  calc d &&& b = (d &&& a) &&& b := by rw [h1]
    _ = d &&& (a &&& b) := by rw [Nat.and_assoc]
    _ = 0 := by rw [h]; simp

/-! ### what `cmpSets` tells -/

theorem cmpSets_equal {a b : Nat} (h : cmpSets a b = .equal) : a = b ∧ a ≠ 0 := by
  unfold cmpSets at h
  split at h <;> try contradiction
  rename_i h0
  split at h
  · rename_i he; exact ⟨he, fun ha => h0 (Or.inl ha)⟩
  · split at h <;> try contradiction
    split at h <;> try contradiction
    split at h <;> contradiction

theorem cmpSets_included {a b : Nat} (h : cmpSets a b = .included) : sub a b ∧ a ≠ 0 ∧ b ≠ 0 := by
  unfold cmpSets at h
  split at h <;> try contradiction
  rename_i h0
  split at h <;> try contradiction
  split at h
  · rename_i hs; exact ⟨hs, fun ha => h0 (Or.inl ha), fun hb => h0 (Or.inr hb)⟩
  · split at h <;> try contradiction
    split at h <;> contradiction

theorem cmpSets_contains {a b : Nat} (h : cmpSets a b = .contains) : sub b a ∧ a ≠ 0 ∧ b ≠ 0 := by
  unfold cmpSets at h
  split at h <;> try contradiction
  rename_i h0
  split at h <;> try contradiction
  split at h <;> try contradiction
  split at h
  · rename_i hs; exact ⟨by unfold sub; rw [Nat.and_comm]; exact hs, fun ha => h0 (Or.inl ha), fun hb => h0 (Or.inr hb)⟩
  · split at h <;> contradiction

theorem cmpSets_different {a b : Nat} (h : cmpSets a b = .different) : dj a b := by
  unfold cmpSets at h
  unfold dj
  split at h
  · rename_i h0; rcases h0 with h0 | h0 <;> simp [h0]
  · split at h <;> try contradiction
    split at h <;> try contradiction
    split at h <;> try contradiction
    split at h
    · assumption
    · contradiction

theorem cmpSets_intersects {a b : Nat} (h : cmpSets a b = .intersects) : ¬ dj a b := by
  unfold cmpSets at h
  unfold dj
  split at h <;> try contradiction
  split at h <;> try contradiction
  split at h <;> try contradiction
  split at h <;> try contradiction
  split at h
  · contradiction
  · assumption


/-! ### what one loop iteration decides -/

theorem typeCmp_ne_intersects (a b : IObj) : typeCmp a b ≠ .intersects := by
  unfold typeCmp
  split <;> try (intro h; cases h)
  split <;> try (intro h; cases h)
  split <;> (intro h; cases h)

theorem tryMerge_some {old new o' : IObj} (h : tryMerge old new = some o') : o'.gp = old.gp ∧ o'.key = old.key ∧ o'.mem = old.mem := by
  unfold tryMerge at h
  have hr : (replaceBy old new).gp = old.gp ∧ (replaceBy old new).key = old.key ∧ (replaceBy old new).mem = old.mem := by simp [replaceBy]
  repeat' split at h
  all_goals (cases h <;> first | exact hr | exact ⟨rfl, rfl, rfl⟩)

theorem decide1_merge {obj ko o' : IObj} (h : decide1 obj ko = .merge o') :
    obj.key = ko.key ∧ obj.key ≠ 0 ∧ o'.gp = ko.gp ∧ o'.key = ko.key ∧ o'.mem = ko.mem := by
  unfold decide1 at h
  split at h
  · rename_i hc
    have he := cmpSets_equal hc
    split at h
    · rename_i hm
      injection h with h; subst h
      have := tryMerge_some hm
      exact ⟨he.1, he.2, this.1, this.2.1, this.2.2⟩
    · split at h <;> try cases h
      exact ⟨he.1, he.2, rfl, rfl, rfl⟩
  all_goals cases h

theorem decide1_recurse {obj ko : IObj} (h : decide1 obj ko = .recurse) : sub obj.key ko.key ∧ obj.key ≠ 0 := by
  unfold decide1 at h
  split at h
  · rename_i hc
    have he := cmpSets_equal hc
    exact ⟨he.1 ▸ sub_refl _, he.2⟩
  · rename_i hc; have := cmpSets_included hc; exact ⟨this.1, this.2.1⟩
  all_goals cases h

theorem decide1_fail {obj ko : IObj} (h : decide1 obj ko = .fail) : ¬ dj obj.key ko.key := by
  unfold decide1 at h
  split at h
  · split at h
    · cases h
    · split at h <;> try cases h
      rename_i ht; exact absurd ht (typeCmp_ne_intersects _ _)
  · cases h
  · rename_i hc; exact cmpSets_intersects hc
  all_goals cases h

theorem decide1_differ {obj ko : IObj} (h : decide1 obj ko = .differ) : dj obj.key ko.key := by
  unfold decide1 at h
  split at h
  · split at h
    · cases h
    · split at h <;> cases h
  · cases h
  · cases h
  · rename_i hc; exact cmpSets_different hc
  · cases h

theorem decide1_contain {obj ko : IObj} {eq : Bool} (h : decide1 obj ko = .contain eq) :
    sub ko.key obj.key ∧ ko.key ≠ 0 ∧ (eq = true → obj.key = ko.key) := by
  unfold decide1 at h
  split at h
  · rename_i hc
    have he := cmpSets_equal hc
    split at h
    · cases h
    · split at h <;> try cases h
      exact ⟨he.1 ▸ sub_refl _, he.1 ▸ he.2, fun _ => he.1⟩
  · cases h
  · cases h
  · cases h
  · rename_i hc
    have := cmpSets_contains hc
    injection h with h; subst h
    exact ⟨this.1, this.2.2, fun h => by cases h⟩


/-! ### laminar trees, object counts, sizes -/

abbrev DJ (a b : T) : Prop := dj a.o.key b.o.key

theorem DJ_symm {a b : T} (h : DJ a b) : DJ b a := dj_comm.mp h

inductive Lam : T → Prop
  | mk {o : IObj} {kids : List T} :
      (∀ c ∈ kids, sub c.o.key o.key) → kids.Pairwise DJ → (∀ c ∈ kids, Lam c) → Lam (.node o kids)

theorem Lam.kids_sub {o : IObj} {kids : List T} (h : Lam (.node o kids)) : ∀ c ∈ kids, sub c.o.key o.key := by
  cases h; assumption
theorem Lam.kids_pw {o : IObj} {kids : List T} (h : Lam (.node o kids)) : kids.Pairwise DJ := by
  cases h; assumption
theorem Lam.kids_lam {o : IObj} {kids : List T} (h : Lam (.node o kids)) : ∀ c ∈ kids, Lam c := by
  cases h; assumption

theorem Lam.congr_key {o o' : IObj} {kids : List T} (h : Lam (.node o kids)) (hk : o'.key = o.key) : Lam (.node o' kids) :=
  .mk (fun c hc => hk ▸ h.kids_sub c hc) h.kids_pw h.kids_lam

/-- number of objects with gp_index `g` -/
def cntT (g : Nat) (t : T) : Nat := ((objsT t).map (·.gp)).count g
def cntL (g : Nat) (l : List T) : Nat := ((objsT.objsL l).map (·.gp)).count g

@[simp] theorem cntL_nil (g : Nat) : cntL g [] = 0 := by simp [cntL, objsT.objsL]
@[simp] theorem cntL_cons (g : Nat) (c : T) (cs : List T) : cntL g (c :: cs) = cntT g c + cntL g cs := by
  simp [cntL, cntT, objsT.objsL, List.count_append]
@[simp] theorem cntT_node (g : Nat) (o : IObj) (kids : List T) :
    cntT g (.node o kids) = (if o.gp = g then 1 else 0) + cntL g kids := by
  simp only [cntT, cntL, objsT, List.map_cons, List.count_cons]
  split <;> rename_i h <;> simp at h <;> simp [h] <;> omega
@[simp] theorem cntL_append (g : Nat) (a b : List T) : cntL g (a ++ b) = cntL g a + cntL g b := by
  induction a with
  | nil => simp
  | cons c cs ih => simp [ih]; omega

theorem cntL_take_drop (g : Nat) (l : List T) (i : Nat) (x : T) :
    cntL g (l.take i ++ x :: l.drop i) = cntL g l + cntT g x := by
  have h : cntL g l = cntL g (l.take i ++ l.drop i) := by rw [List.take_append_drop]
  rw [h]; simp; omega

def size (t : T) : Nat := (objsT t).length
def sizeL (l : List T) : Nat := (objsT.objsL l).length

theorem size_node (o : IObj) (kids : List T) : size (.node o kids) = 1 + sizeL kids := by
  simp [size, sizeL, objsT]; omega
theorem sizeL_mem {c : T} {l : List T} (h : c ∈ l) : size c ≤ sizeL l := by
  induction l with
  | nil => cases h
  | cons x xs ih =>
    simp only [sizeL, objsT.objsL, List.length_append] at *
    rcases List.mem_cons.mp h with rfl | h
    · simp [size]
    · have := ih h; omega

end Hw.Topo.Ins
