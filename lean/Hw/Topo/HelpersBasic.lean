/-
  Hw.Topo.HelpersBasic — foundation lemmas shared by all helper proofs (C09): mask-set algebra through
  `testBit`, object lookup, and the identification of the pointer chains (`next_sibling`, `next_cousin`,
  `prev_cousin`) with the children / level arrays on a dump satisfying `Tree`.
-/
import Hw.Topo.WFLemmas
import Hw.Topo.Distrib
namespace Hw.Topo

/-! ### sets -/

theorem subset_iff (a b : Nat) : subset a b = true ↔ ∀ i, a.testBit i = true → b.testBit i = true := by
  unfold subset
  rw [beq_iff_eq]
  constructor
  · intro h i hi
    rw [← h, Nat.testBit_and] at hi
    simp only [Bool.and_eq_true] at hi
    exact hi.2
  · intro h
    apply Nat.eq_of_testBit_eq
    intro i
    rw [Nat.testBit_and]
    cases ha : a.testBit i with
    | false => rfl
    | true => simp [h i ha]
theorem disjoint_iff (a b : Nat) : disjoint a b = true ↔ ∀ i, ¬ (a.testBit i = true ∧ b.testBit i = true) := by
  unfold disjoint
  rw [beq_iff_eq]
  constructor
  · intro h i hi
    have : (a &&& b).testBit i = true := by rw [Nat.testBit_and]; simp [hi.1, hi.2]
    rw [h] at this
    simp at this
  · intro h
    apply Nat.eq_of_testBit_eq
    intro i
    rw [Nat.testBit_and, Nat.zero_testBit]
    cases ha : a.testBit i with
    | false => rfl
    | true =>
      cases hb : b.testBit i with
      | false => rfl
      | true => exact absurd ⟨ha, hb⟩ (h i)
theorem ne_zero_iff (a : Nat) : a ≠ 0 ↔ ∃ i, a.testBit i = true := by
  constructor
  · intro h; exact Nat.exists_testBit_of_ne_zero h
  · intro ⟨i, hi⟩ h
    rw [h] at hi; simp at hi
theorem intersects_iff (a b : Nat) : intersects a b = true ↔ ∃ i, a.testBit i = true ∧ b.testBit i = true := by
  unfold intersects
  rw [bne_iff_ne, ne_zero_iff]
  constructor
  · intro ⟨i, hi⟩
    rw [Nat.testBit_and] at hi
    simp only [Bool.and_eq_true] at hi
    exact ⟨i, hi⟩
  · intro ⟨i, hi⟩
    exact ⟨i, by rw [Nat.testBit_and]; simp [hi.1, hi.2]⟩
theorem testBit_andnot (a b i : Nat) : (andnot a b).testBit i = (a.testBit i && !b.testBit i) := by
  unfold andnot
  rw [Nat.testBit_xor, Nat.testBit_and]
  cases a.testBit i <;> cases b.testBit i <;> rfl
theorem testBit_single (i j : Nat) : (single i).testBit j = decide (i = j) := by
  unfold single
  rw [Nat.one_shiftLeft, Nat.testBit_two_pow]
theorem testBit_orAll_aux (l : List Nat) (acc i : Nat) :
    (l.foldl (· ||| ·) acc).testBit i = (acc.testBit i || l.any (fun s => s.testBit i)) := by
  induction l generalizing acc with
  | nil => simp
  | cons x xs ih =>
    simp only [List.foldl_cons, List.any_cons]
    rw [ih, Nat.testBit_or, Bool.or_assoc]
theorem testBit_orAll (l : List Nat) (i : Nat) : (orAll l).testBit i = l.any (fun s => s.testBit i) := by
  unfold orAll
  rw [testBit_orAll_aux]; simp
theorem mem_bits (n i : Nat) : i ∈ bits n ↔ n.testBit i = true := by
  unfold bits
  rw [List.mem_filter, List.mem_range]
  constructor
  · intro h; exact h.2
  · intro h
    refine ⟨?_, h⟩
    have hge := Nat.ge_two_pow_of_testBit h
    have hn : n ≠ 0 := by
      intro h0; rw [h0] at h; simp at h
    have := (Nat.le_log2 hn).2 hge
    omega
theorem bits_sorted (n : Nat) : (bits n).Pairwise (· < ·) := by
  unfold bits
  exact List.Pairwise.filter _ List.pairwise_lt_range
theorem weight_eq_zero (n : Nat) : weight n = 0 ↔ n = 0 := by
  unfold weight
  rw [List.length_eq_zero_iff]
  constructor
  · intro h
    apply Classical.byContradiction
    intro hn
    obtain ⟨i, hi⟩ := (ne_zero_iff n).1 hn
    have := (mem_bits n i).2 hi
    rw [h] at this; simp at this
  · intro h
    rw [List.eq_nil_iff_forall_not_mem]
    intro i hi
    rw [mem_bits, h] at hi; simp at hi

/-! ### objects -/
theorem obj?_mem {d : Dump} {i : Int} {o : Obj} (h : d.obj? i = some o) : o ∈ d.objs := by
  unfold Dump.obj? at h
  split at h
  · cases h
  · exact List.mem_of_getElem? h
theorem obj?_natCast (d : Dump) (n : Nat) : d.obj? (n : Int) = d.objs[n]? := by
  unfold Dump.obj?
  have : ¬ ((n : Int) < 0) := by omega
  rw [if_neg this, Int.toNat_natCast]
theorem Tree.obj?_id {d : Dump} (ht : Tree d) {o : Obj} (ho : o ∈ d.objs) : d.obj? (o.id : Int) = some o := by
  obtain ⟨i, hi⟩ := List.mem_iff_getElem?.1 ho
  have := ht.ids (o, i) (List.mem_zipIdx_iff_getElem?.2 hi)
  simp only at this
  rw [obj?_natCast, this, hi]
theorem Tree.obj?_some_id {d : Dump} (ht : Tree d) {i : Int} {o : Obj} (h : d.obj? i = some o) : (o.id : Int) = i := by
  unfold Dump.obj? at h
  split at h
  · cases h
  · have := ht.ids (o, i.toNat) (List.mem_zipIdx_iff_getElem?.2 h)
    simp only at this
    omega
theorem Tree.eq_of_id_eq {d : Dump} (ht : Tree d) {a b : Obj} (ha : a ∈ d.objs) (hb : b ∈ d.objs)
    (h : a.id = b.id) : a = b := by
  have h1 := ht.obj?_id ha
  have h2 := ht.obj?_id hb
  rw [h, h2] at h1
  exact (Option.some.inj h1).symm
theorem Tree.rootObj {d : Dump} (ht : Tree d) :
    ∃ r, d.rootObj? = some r ∧ r ∈ d.objs ∧ r.id = 0 ∧ r.parent = -1 ∧ isNormal r.type = true ∧ r.depth = 0 := by
  obtain ⟨r, hr, h1, h2, h3⟩ := ht.root
  refine ⟨r, ?_, List.mem_of_getElem? hr, ?_, h1, h2, h3⟩
  · unfold Dump.rootObj?
    exact (obj?_natCast d 0).trans hr
  · exact ht.ids (r, 0) (List.mem_zipIdx_iff_getElem?.2 hr)

/-- `a` is `o` or one of its ancestors along the `parent` links -/
inductive AncSelf (d : Dump) : Obj → Obj → Prop
  | refl (o : Obj) : AncSelf d o o
  | up {a o p : Obj} : d.obj? o.parent = some p → AncSelf d a p → AncSelf d a o

/-! ### chains are arrays -/

theorem chain_eq_drop (d : Dump) (next : Obj → Int) (arr : List Obj)
    (h : ∀ p ∈ arr.zipIdx, d.obj? (next p.1) = arr[p.2 + 1]?) :
    ∀ fuel i, arr.length - i ≤ fuel → chain d next fuel (arr[i]?) = arr.drop i := by
  intro fuel
  induction fuel with
  | zero =>
    intro i hf
    have hle : arr.length ≤ i := by omega
    rw [List.getElem?_eq_none hle, List.drop_eq_nil_of_le hle]
    rfl
  | succ f ih =>
    intro i hf
    cases hi : arr[i]? with
    | none =>
      rw [List.drop_eq_nil_of_le (List.getElem?_eq_none_iff.1 hi)]
      rfl
    | some o =>
      obtain ⟨hlt, hget⟩ := List.getElem?_eq_some_iff.1 hi
      have hn := h (o, i) (List.mem_zipIdx_iff_getElem?.2 hi)
      simp only at hn
      rw [List.drop_eq_getElem_cons hlt, hget]
      show o :: chain d next f (d.obj? (next o)) = _
      rw [hn, ih (i + 1) (by omega)]

theorem chain_eq_take_reverse (d : Dump) (prev : Obj → Int) (arr : List Obj)
    (h : ∀ p ∈ arr.zipIdx, d.obj? (prev p.1) = (if p.2 = 0 then none else arr[p.2 - 1]?)) :
    ∀ i fuel, i < arr.length → i + 1 ≤ fuel → chain d prev fuel (arr[i]?) = (arr.take (i + 1)).reverse := by
  intro i
  induction i with
  | zero =>
    intro fuel hi hf
    obtain ⟨f, rfl⟩ : ∃ f, fuel = f + 1 := ⟨fuel - 1, by omega⟩
    have hget : arr[0]? = some arr[0] := List.getElem?_eq_getElem hi
    have hn := h (arr[0], 0) (List.mem_zipIdx_iff_getElem?.2 hget)
    simp only [if_true] at hn
    rw [hget]
    show arr[0] :: chain d prev f (d.obj? (prev arr[0])) = _
    rw [hn, List.take_succ_eq_append_getElem hi]
    simp [chain]
  | succ i ih =>
    intro fuel hi hf
    obtain ⟨f, rfl⟩ : ∃ f, fuel = f + 1 := ⟨fuel - 1, by omega⟩
    have hget : arr[i + 1]? = some arr[i + 1] := List.getElem?_eq_getElem hi
    have hn := h (arr[i + 1], i + 1) (List.mem_zipIdx_iff_getElem?.2 hget)
    simp only [Nat.add_sub_cancel] at hn
    rw [if_neg (by omega)] at hn
    rw [hget]
    show arr[i + 1] :: chain d prev f (d.obj? (prev arr[i + 1])) = _
    rw [hn, ih f (by omega) (by omega), List.take_succ_eq_append_getElem hi, List.reverse_append]
    rfl

theorem Tree.childChain_eq {d : Dump} (ht : Tree d) {o : Obj} (ho : o ∈ d.objs) : childChain d o = childObjs d o := by
  obtain ⟨h0, hlen, _, hall⟩ := ht.children o ho
  unfold childChain siblingsFrom
  rw [h0, chain_eq_drop d (·.nextSib) (childObjs d o) (fun p hp => (hall p hp).2.2.2.2.2) d.fuel 0]
  · rfl
  · have := ht.sizes.2.2 o ho
    unfold Dump.fuel
    omega

/-- membership in a children array -/
theorem Tree.mem_childObjs {d : Dump} (ht : Tree d) {p c : Obj} (hp : p ∈ d.objs) :
    c ∈ childObjs d p ↔ (c ∈ d.objs ∧ isNormal c.type = true ∧ c.parent = (p.id : Int)) := by
  constructor
  · intro h
    obtain ⟨i, hi⟩ := List.mem_iff_getElem?.1 h
    have := (ht.children p hp).2.2.2 (c, i) (List.mem_zipIdx_iff_getElem?.2 hi)
    exact ⟨this.1, this.2.2.2.1, this.2.1⟩
  · intro ⟨hc, hn, hpar⟩
    rcases ht.parent c hc with ⟨_, h1⟩ | ⟨_, p', hp', _, hnorm, _⟩
    · omega
    · rw [hpar, ht.obj?_id hp] at hp'
      cases hp'
      have hslot := (hnorm hn).2.2.1
      unfold childObjs
      rw [List.mem_filterMap]
      exact ⟨(c.id : Int), List.mem_of_getElem? hslot, ht.obj?_id hc⟩

theorem levelOf_some {d : Dump} {depth : Int} {l : Level} (h : levelOf d depth = some l) :
    l ∈ d.levels ∧ l.depth = depth := by
  unfold levelOf at h
  refine ⟨List.mem_of_find?_eq_some h, ?_⟩
  have := List.find?_some h
  exact beq_iff_eq.1 this

theorem levelObjs_cases (d : Dump) (depth : Int) :
    levelObjs d depth = [] ∨ ∃ l ∈ d.levels, l.depth = depth := by
  cases h : levelOf d depth with
  | none => left; unfold levelObjs levelIds; rw [h]; rfl
  | some l => right; exact ⟨l, levelOf_some h⟩

theorem Tree.levelObjs_length_le {d : Dump} (ht : Tree d) (depth : Int) :
    (levelObjs d depth).length ≤ d.objs.length := by
  rcases levelObjs_cases d depth with h | ⟨l, hl, rfl⟩
  · rw [h]; exact Nat.zero_le _
  · rw [(ht.levels.2 l hl).1]; exact ht.sizes.2.1 l hl

theorem Tree.cousinsFrom_level {d : Dump} (ht : Tree d) {l : Level} (hl : l ∈ d.levels) (i : Nat) :
    cousinsFrom d ((levelObjs d l.depth)[i]?) = (levelObjs d l.depth).drop i := by
  unfold cousinsFrom
  apply chain_eq_drop d (·.nextCousin) (levelObjs d l.depth)
    (fun p hp => ((ht.levels.2 l hl).2 p hp).2.2.2.2.1) d.fuel i
  have := ht.levelObjs_length_le l.depth
  unfold Dump.fuel
  omega
theorem Tree.prevCousinsFrom_level {d : Dump} (ht : Tree d) {l : Level} (hl : l ∈ d.levels) (i : Nat)
    (hi : i < (levelObjs d l.depth).length) :
    prevCousinsFrom d ((levelObjs d l.depth)[i]?) = ((levelObjs d l.depth).take (i + 1)).reverse := by
  unfold prevCousinsFrom
  apply chain_eq_take_reverse d (·.prevCousin) (levelObjs d l.depth)
    (fun p hp => ((ht.levels.2 l hl).2 p hp).2.2.2.2.2) i d.fuel hi
  have := ht.levelObjs_length_le l.depth
  unfold Dump.fuel
  omega
theorem Tree.levelObjs_nil {d : Dump} (_ht : Tree d) {depth : Int} (h : ∀ l ∈ d.levels, l.depth ≠ depth) :
    levelObjs d depth = [] := by
  rcases levelObjs_cases d depth with h' | ⟨l, hl, hd⟩
  · exact h'
  · exact absurd hd (h l hl)
theorem Tree.levelObjs_lidx {d : Dump} (ht : Tree d) {o : Obj} {depth : Int} {i : Nat}
    (h : (levelObjs d depth)[i]? = some o) : o.lidx = i ∧ o.depth = depth ∧ o ∈ d.objs := by
  rcases levelObjs_cases d depth with h' | ⟨l, hl, rfl⟩
  · rw [h'] at h; simp at h
  · have := (ht.levels.2 l hl).2 (o, i) (List.mem_zipIdx_iff_getElem?.2 h)
    exact ⟨this.2.2.1, this.2.1, this.1⟩
theorem Tree.levelObjs_next {d : Dump} (ht : Tree d) {o : Obj} {depth : Int} {i : Nat}
    (h : (levelObjs d depth)[i]? = some o) : d.obj? o.nextCousin = (levelObjs d depth)[i + 1]? := by
  rcases levelObjs_cases d depth with h' | ⟨l, hl, rfl⟩
  · rw [h'] at h; simp at h
  · exact ((ht.levels.2 l hl).2 (o, i) (List.mem_zipIdx_iff_getElem?.2 h)).2.2.2.2.1
theorem Tree.levelObjs_self {d : Dump} (ht : Tree d) {o : Obj} (ho : o ∈ d.objs) :
    (levelObjs d o.depth)[o.lidx]? = some o := (ht.inlevel o ho).2
theorem Tree.mem_levelObjs {d : Dump} (ht : Tree d) {o : Obj} {depth : Int} :
    o ∈ levelObjs d depth ↔ (o ∈ d.objs ∧ o.depth = depth) := by
  constructor
  · intro h
    obtain ⟨i, hi⟩ := List.mem_iff_getElem?.1 h
    have := ht.levelObjs_lidx hi
    exact ⟨this.2.2, this.2.1⟩
  · intro ⟨ho, hd⟩
    subst hd
    exact List.mem_of_getElem? (ht.levelObjs_self ho)

theorem Tree.iterNext_some {d : Dump} (ht : Tree d) (depth : Int) :
    ∀ fuel i o, (levelObjs d depth)[i]? = some o → (levelObjs d depth).length - i ≤ fuel →
      iterNext (nextByDepth d depth) fuel (some o) = (levelObjs d depth).drop (i + 1) := by
  intro fuel
  induction fuel with
  | zero =>
    intro i o hi hf
    have := (List.getElem?_eq_some_iff.1 hi).1
    omega
  | succ f ih =>
    intro i o hi hf
    have hd := (ht.levelObjs_lidx hi).2.1
    have hn := ht.levelObjs_next hi
    have hstep : nextByDepth d depth (some o) = (levelObjs d depth)[i + 1]? := by
      unfold nextByDepth
      simp only [hd, bne_self_eq_false, Bool.false_eq_true, if_false]
      exact hn
    unfold iterNext
    rw [hstep]
    cases hi' : (levelObjs d depth)[i + 1]? with
    | none =>
      rw [List.drop_eq_nil_of_le (List.getElem?_eq_none_iff.1 hi')]
    | some o' =>
      obtain ⟨hlt, hget⟩ := List.getElem?_eq_some_iff.1 hi'
      simp only
      rw [ih (i + 1) o' hi' (by omega), List.drop_eq_getElem_cons hlt, hget]

/-- `obj = NULL; while ((obj = hwloc_get_next_obj_by_depth(depth, obj)))` visits exactly the level, in order -/
theorem Tree.iterNext_nextByDepth {d : Dump} (ht : Tree d) (depth : Int) :
    iterNext (nextByDepth d depth) d.fuel none = levelObjs d depth := by
  unfold Dump.fuel iterNext
  have hstep : nextByDepth d depth none = (levelObjs d depth)[0]? := rfl
  rw [hstep]
  cases hi : (levelObjs d depth)[0]? with
  | none =>
    have := List.getElem?_eq_none_iff.1 hi
    simp only
    exact (List.eq_nil_of_length_eq_zero (by omega)).symm
  | some o =>
    obtain ⟨hlt, hget⟩ := List.getElem?_eq_some_iff.1 hi
    simp only
    rw [ht.iterNext_some depth _ 0 o hi (by have := ht.levelObjs_length_le depth; omega)]
    have := List.drop_eq_getElem_cons hlt
    rw [hget] at this
    rw [List.drop_zero] at this
    exact this.symm

end Hw.Topo
