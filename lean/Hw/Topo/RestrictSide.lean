/-
  Hw.Topo.RestrictSide — what hwloc_topology_restrict() does to the side structures (topology.c, post-restrict fixups):

      hwloc_internal_distances_invalidate_cached_objs(topology);   -- Hw.Dist.invalidate            (C13 model)
      hwloc_internal_memattrs_need_refresh(topology);              -- Hw.MemAttrs.needRefresh        (C14 model)
      hwloc_internal_cpukinds_restrict(topology);                  -- Hw.CpuKinds.restrictKinds      (C15 model)

  and what the next public query then sees (lazy refresh): Hw.Dist.refreshList, Hw.MemAttrs.ensureValid, against the objects `T`
  and the root cpuset `root` of the restricted tree.  The three models are the ones of C13/C14/C15 (each differential-tested
  against the same C code by its own engine); this file only composes them along a sequence of restricts and observations, which is
  what the engine `restrict` (lean/Driver/RestrictSide.lean) runs.  Core Lean only.
-/
import Hw.Attr.DistancesLemmas
import Hw.Attr.CpuKinds
import Hw.Attr.MemAttrsApi
namespace Hw.Topo.RestrictSide
open Hw.Dist

structure Side where
  dists : List Dist := []
  kinds : List Hw.CpuKinds.Kind := []
  attrs : List (Nat × Hw.MemAttrs.Attr) := []     -- (public id, attribute), ids ≥ 2 (not the convenience attributes)
  names : List String := []                        -- names of the distances structures, by model id (driver only)
  T : List Obj := []                               -- objects of the topology after the last successful restrict
  root : Nat := 0                                  -- its root cpuset

/-- a successful `hwloc_topology_restrict` that leaves the objects `T'` and the root cpuset `root'` -/
def Side.restrict (s : Side) (T' : List Obj) (root' : Nat) : Side :=
  let tbl := Hw.MemAttrs.needRefresh (s.attrs.map (·.2))
  { s with dists := invalidate s.dists,
           kinds := (Hw.CpuKinds.restrictKinds .dflt { kinds := s.kinds, root := s.root } root').kinds,
           attrs := (s.attrs.map (·.1)).zip tbl,
           T := T', root := root' }

def envOf (s : Side) : Hw.MemAttrs.Env :=
  { numaType := 14, root := s.root, nodes := [],
    objs := s.T.map (fun o => { type := o.ty.toNat, gp := o.gp, os := none, cpuset := none, effCpuset := 0, mem := 0, subtype := none }) }

/-- the public queries of one observation refresh what they look at (mask: 1 distances, 2 CPU kinds, 4 memory attributes) -/
def Side.observe (s : Side) (mask : Nat) : Side :=
  { s with dists := if mask.testBit 0 then refreshList s.T s.dists else s.dists,
           attrs := if mask.testBit 2 then s.attrs.map (fun p => (p.1, Hw.MemAttrs.ensureValid (envOf s) p.2)) else s.attrs }

/-! ### distances -/

theorem invalidate_invalidate (ds : List Dist) : invalidate (invalidate ds) = invalidate ds := by
  simp [invalidate, List.map_map, Function.comp_def]

/-- restrict, then a query that looks at the distances: every structure is re-resolved against the new topology -/
theorem restrict_observe_dists (s : Side) (T' : List Obj) (root' mask : Nat) (hm : mask.testBit 0 = true) :
    ((s.restrict T' root').observe mask).dists = s.dists.filterMap (fun d => refreshOne T' { d with valid := false }) := by
  simp [Side.restrict, Side.observe, hm, refreshList, invalidate, List.filterMap_map, Function.comp_def]

/-- a restrict that no query follows leaves nothing behind once a later restrict succeeded: the caches are simply stale -/
theorem restrict_restrict_dists (s : Side) (T1 T2 : List Obj) (r1 r2 : Nat) :
    ((s.restrict T1 r1).restrict T2 r2).dists = (s.restrict T2 r2).dists := by
  simp [Side.restrict, invalidate_invalidate]

/-- the compaction done by a refresh keeps the per-object TYPE array of a heterogeneous structure aligned with its index array
    and its objects: position `rank i` of the new arrays holds what position `i` of the old ones held, for every survivor `i`
    (hwloc_internal_distances_restrict moves `different_types[]` together with `indexes[]` and `objs[]`) -/
theorem refresh_types_aligned (T : Topo) (d d' : Dist) (hv : d.valid = false) (hh : d.hetero = true)
    (h : refreshOne T d = some d') (i : Nat) (hi : i < d.n) (li : liveOf (resolveAll T d) i = true) :
    d'.tys.getD (rank (liveOf (resolveAll T d)) i) (-1) = d.tys.getD i (-1) ∧
    d'.idx.getD (rank (liveOf (resolveAll T d)) i) 0 = d.idx.getD i 0 ∧
    d'.objs.getD (rank (liveOf (resolveAll T d)) i) none = (resolveAll T d).getD i none := by
  have hr := rank_eq_sub_countNone (resolveAll T d) d.n (resolveAll_length T d)
  unfold refreshOne at h
  simp only [hv, Bool.false_eq_true, if_false] at h
  by_cases h2 : d.n - countNone (resolveAll T d) < 2
  · simp [h2] at h
  · simp only [h2, if_false] at h
    by_cases h0 : countNone (resolveAll T d) ≠ 0
    · simp only [hr] at h
      rw [if_pos h0] at h
      simp only [Option.some.injEq] at h
      subst h
      have := compactLists_objs d.n (resolveAll T d) d.idx d.tys d.vals i hi li
      simp only [hh, if_true]
      exact ⟨this.2.2, this.2.1, this.1⟩
    · have h0' : countNone (resolveAll T d) = 0 := by omega
      simp only [h0', ne_eq, not_true_eq_false, if_false, Option.some.injEq] at h
      subst h
      have hall : ∀ i, i < d.n → liveOf (resolveAll T d) i = true := fun i hi =>
        all_live_of_countNone_zero _ h0' i (by rw [resolveAll_length]; exact hi)
      have hrk : rank (liveOf (resolveAll T d)) i = i :=
        rank_all_live _ i (fun q hq => hall q (by omega))
      rw [hrk]; exact ⟨rfl, rfl, rfl⟩

/-! ### CPU kinds -/

theorem restrict_kinds (s : Side) (T' : List Obj) (root' : Nat) :
    (s.restrict T' root').kinds = (Hw.CpuKinds.restrictKinds .dflt { kinds := s.kinds, root := s.root } root').kinds := rfl

/-- when no kind is emptied the kinds are the old ones, in order, each cut by the new root cpuset (nothing is re-ranked) -/
theorem restrict_kinds_none_emptied (s : Side) (T' : List Obj) (root' : Nat)
    (h : ∀ k ∈ s.kinds, k.cpuset &&& root' ≠ 0) :
    (s.restrict T' root').kinds = s.kinds.map (fun k => { k with cpuset := k.cpuset &&& root' }) := by
  have hf : (s.kinds.map (fun k => ({ k with cpuset := k.cpuset &&& root' } : Hw.CpuKinds.Kind))).filter
      (fun k => decide (k.cpuset ≠ 0)) = s.kinds.map (fun k => { k with cpuset := k.cpuset &&& root' }) := by
    apply List.filter_eq_self.mpr
    intro k hk
    obtain ⟨k0, hk0, rfl⟩ := List.mem_map.mp hk
    simpa using h k0 hk0
  simp only [Side.restrict, Hw.CpuKinds.restrictKinds, hf, Nat.sub_self, if_true]

/-! ### memory attributes -/

theorem needRefresh_needRefresh (tbl : Hw.MemAttrs.Table) :
    Hw.MemAttrs.needRefresh (Hw.MemAttrs.needRefresh tbl) = Hw.MemAttrs.needRefresh tbl := by
  simp only [Hw.MemAttrs.needRefresh, List.map_map]
  apply List.map_congr_left
  intro a _
  by_cases hc : a.conv <;> simp [Function.comp, hc]

/-- the targets a query sees after a restrict are exactly the surviving images of the stored ones (order kept): target object
    still there, and (attributes with initiators) at least one initiator left after clipping the cpuset initiators to the new root
    cpuset and dropping the object initiators that vanished -/
theorem refresh_attr_targets (e : Hw.MemAttrs.Env) (a : Hw.MemAttrs.Attr) (hv : a.valid = false) :
    (Hw.MemAttrs.ensureValid e a).targets = a.targets.filterMap (Hw.MemAttrs.refreshTarget e a.needInit) ∧
    (Hw.MemAttrs.ensureValid e a).valid = true ∧ (Hw.MemAttrs.ensureValid e a).name = a.name ∧
    (Hw.MemAttrs.ensureValid e a).flags = a.flags := by
  simp [Hw.MemAttrs.ensureValid, hv, Hw.MemAttrs.refreshAttr]

end Hw.Topo.RestrictSide
