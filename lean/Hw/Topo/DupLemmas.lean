/- Hw.Topo.DupLemmas — lemmas about the dup model (state level, bump allocator, provenance). -/
import Hw.Topo.Dup
namespace Hw.Topo.Dup
open Hw.Topo Hw.Topo.Hist

/-! ## state level -/

theorem clr1_idem (n : Nat) : clr1 (clr1 n) = clr1 n := by unfold clr1; omega
theorem clr2_idem (n : Nat) : clr2 (clr2 n) = clr2 n := by unfold clr2; omega
theorem clr1_bit0 (n : Nat) : clr1 n % 2 = 0 := by unfold clr1; omega
theorem clr2_bits (n : Nat) : clr2 n % 4 = 0 := by unfold clr2; omega
theorem clr1_upper (n : Nat) : clr1 n / 2 = n / 2 := by unfold clr1; omega
theorem clr2_upper (n : Nat) : clr2 n / 4 = n / 4 := by unfold clr2; omega

theorem Dist.invalidate_idem (d : Dist) : d.invalidate.invalidate = d.invalidate := by
  simp [Dist.invalidate, clr1_idem]

theorem Init.invalidate_idem (i : Init) : i.invalidate.invalidate = i.invalidate := by
  cases i <;> rfl

theorem map_idem {α : Type} (f : α → α) (h : ∀ x, f (f x) = f x) (l : List α) : (l.map f).map f = l.map f := by
  induction l with
  | nil => rfl
  | cons a t ih => simp [h]

theorem Target.invalidate_idem (t : Target) : t.invalidate.invalidate = t.invalidate := by
  simp only [Target.invalidate, map_idem _ Init.invalidate_idem]

theorem MemAttr.invalidate_idem (m : MemAttr) : m.invalidate.invalidate = m.invalidate := by
  simp only [MemAttr.invalidate, clr2_idem, map_idem _ Target.invalidate_idem]

theorem pub_idem (s : TopoState) : pub (pub s) = pub s := by
  simp only [pub, map_idem _ Dist.invalidate_idem, map_idem _ MemAttr.invalidate_idem]

/-- on the model, the copy IS the public view of the original (identity + invalidated caches) -/
theorem dupState_eq_pub (s : TopoState) : dupState s = pub s := rfl

theorem pub_dupState (s : TopoState) : pub (dupState s) = pub s := by
  rw [dupState_eq_pub, pub_idem]

theorem equiv_refl (a : TopoState) : TopoEquivD a a := rfl
theorem equiv_symm {a b : TopoState} (h : TopoEquivD a b) : TopoEquivD b a := Eq.symm h
theorem equiv_trans {a b c : TopoState} (h1 : TopoEquivD a b) (h2 : TopoEquivD b c) : TopoEquivD a c := Eq.trans h1 h2

theorem dup_equiv (s : TopoState) : TopoEquivD s (dupState s) := (pub_dupState s).symm

/-- what the equivalence contains: every component the property lists is equal -/
theorem equiv_fields {a b : TopoState} (h : TopoEquivD a b) :
    a.dump = b.dump ∧ a.userdata = b.userdata ∧ a.pageTypes = b.pageTypes ∧ a.state = b.state ∧ a.pid = b.pid ∧
    a.support = b.support ∧ a.grouping = b.grouping ∧ a.infos = b.infos ∧ a.cpukinds = b.cpukinds ∧
    a.dists.map Dist.invalidate = b.dists.map Dist.invalidate ∧
    a.memattrs.map MemAttr.invalidate = b.memattrs.map MemAttr.invalidate := by
  unfold TopoEquivD pub at h
  injection h with h1 h2 h3 h4 h5 h6 h7 h8 h9 h10 h11 h12 h13
  exact ⟨h1, h2, h3, h4, h5, h8, h9, h10, h13, h11, h12⟩

/-- the equivalence on distances is equality of everything but the cache: name, kind, types, indexes, values -/
theorem Dist.invalidate_eq {d e : Dist} (h : d.invalidate = e.invalidate) :
    d.id = e.id ∧ d.name = e.name ∧ d.kind = e.kind ∧ d.uniqueType = e.uniqueType ∧ d.nbobjs = e.nbobjs ∧
    d.types = e.types ∧ d.indexes = e.indexes ∧ d.values = e.values ∧ d.iflags / 2 = e.iflags / 2 := by
  unfold Dist.invalidate at h
  injection h with h1 h2 h3 h4 h5 h6 h7 h8 h9 h10
  refine ⟨h1, h2, h3, h5, h6, h7, h8, h9, ?_⟩
  unfold clr1 at h4; omega

/-- caches of the copy: every distances structure has OBJS_VALID clear and no cached object; every memattr has
STATIC_NAME and CACHE_VALID clear and no cached target / initiator object -/
def Init.uncached : Init → Bool
  | .cpuset _ _ => true
  | .object _ _ c _ => !c
def cachesInvalid (s : TopoState) : Bool :=
  s.dists.all (fun d => d.iflags % 2 == 0 && d.cached == 0) &&
  s.memattrs.all (fun m => m.iflags % 4 == 0 && m.targets.all (fun t => !t.cached && t.inits.all Init.uncached))

theorem Init.invalidate_uncached (i : Init) : i.invalidate.uncached = true := by cases i <;> rfl

theorem dup_caches_invalid (s : TopoState) : cachesInvalid (dupState s) = true := by
  simp only [cachesInvalid, dupState, Bool.and_eq_true, List.all_eq_true, List.mem_map]
  constructor
  · rintro d ⟨d0, _, rfl⟩
    simp [Dist.invalidate, clr1_bit0]
  · rintro m ⟨m0, _, rfl⟩
    simp only [MemAttr.invalidate, clr2_bits, BEq.rfl, true_and, List.mem_map]
    rintro t ⟨t0, _, rfl⟩
    simp only [Target.invalidate, Bool.not_false, true_and, List.mem_map]
    rintro i ⟨i0, _, rfl⟩
    exact Init.invalidate_uncached i0

theorem dup_topoUserdata (s : TopoState) : (dupState s).topoUserdata = 0 := rfl

/-! ### histories -/

theorem stepS_pub (s : TopoState) (op : HOp) : pub (stepS s op).1 = (stepS (pub s) op).1 := rfl
theorem stepS_ret_pub (s : TopoState) (op : HOp) : (stepS (pub s) op).2 = (stepS s op).2 := rfl

theorem run_pub (h : List HOp) : ∀ s : TopoState, pub (run s h) = run (pub s) h := by
  induction h with
  | nil => intro s; rfl
  | cons op t ih => intro s; simp only [run, List.foldl_cons] at ih ⊢; rw [ih, stepS_pub]

/-- the copy evolves exactly as the original would under the same history -/
theorem dup_commutes_history (s : TopoState) (h : List HOp) : TopoEquivD (run (dupState s) h) (run s h) := by
  unfold TopoEquivD
  rw [run_pub, run_pub, pub_dupState]

/-- equivalent topologies stay equivalent under the same history and return the same values -/
theorem equiv_step {a b : TopoState} (h : TopoEquivD a b) (op : HOp) :
    TopoEquivD (stepS a op).1 (stepS b op).1 ∧ (stepS a op).2 = (stepS b op).2 := by
  unfold TopoEquivD at *
  refine ⟨by rw [stepS_pub, stepS_pub, h], ?_⟩
  rw [← stepS_ret_pub a, ← stepS_ret_pub b, h]

theorem runPair_fst (l : List (Side × HOp)) : ∀ p, (runPair p l).1 = run p.1 (opsOf .A l) := by
  induction l with
  | nil => intro p; rfl
  | cons x t ih =>
    intro p
    obtain ⟨sd, op⟩ := x
    cases sd
    · simp only [runPair, List.foldl_cons] at ih ⊢
      rw [ih]; rfl
    · simp only [runPair, List.foldl_cons] at ih ⊢
      rw [ih]; rfl

theorem runPair_snd (l : List (Side × HOp)) : ∀ p, (runPair p l).2 = run p.2 (opsOf .B l) := by
  induction l with
  | nil => intro p; rfl
  | cons x t ih =>
    intro p
    obtain ⟨sd, op⟩ := x
    cases sd
    · simp only [runPair, List.foldl_cons] at ih ⊢
      rw [ih]; rfl
    · simp only [runPair, List.foldl_cons] at ih ⊢
      rw [ih]; rfl

/-! ## bump allocator -/

theorem roundUp_ge (n A : Nat) (hA : 0 < A) : n ≤ roundUp n A := by
  unfold roundUp
  have h1 := Nat.div_add_mod (n + A - 1) A
  have h2 := Nat.mod_lt (n + A - 1) hA
  have h3 : A * ((n + A - 1) / A) = (n + A - 1) / A * A := Nat.mul_comm _ _
  omega

theorem roundUp_mod (n A : Nat) : roundUp n A % A = 0 := by
  unfold roundUp; exact Nat.mul_mod_left _ _

/-- every block served from `cur` on lies in `[cur, cur + bumpTotal)` -/
theorem bump_inside (A : Nat) (hA : 0 < A) (sizes : List Nat) : ∀ cur, ∀ b ∈ bump A cur sizes,
    b.inside cur (cur + bumpTotal A sizes) := by
  induction sizes with
  | nil => intro cur b hb; simp [bump] at hb
  | cons s rest ih =>
    intro cur b hb
    simp only [bump, List.mem_cons] at hb
    have hr := roundUp_ge s A hA
    have ht : bumpTotal A (s :: rest) = roundUp s A + bumpTotal A rest := by simp [bumpTotal]
    rcases hb with rfl | hb
    · unfold Block.inside; simp only; omega
    · have := ih _ b hb
      unfold Block.inside at *; omega

theorem overlap_of_inside {a b : Block} {lo hi lo' hi' : Nat} (ha : a.inside lo hi) (hb : b.inside lo' hi') (h : hi ≤ lo') :
    a.Disjoint b := by
  unfold Block.Disjoint Overlap Block.inside at *
  rintro ⟨x, h1, h2, h3, h4⟩; omega

/-- P0: the blocks handed out by the bump allocator are pairwise disjoint (any alignment A > 0, any trace) -/
theorem bump_disjoint (A : Nat) (hA : 0 < A) (sizes : List Nat) : ∀ cur, (bump A cur sizes).Pairwise Block.Disjoint := by
  induction sizes with
  | nil => intro cur; simp [bump]
  | cons s rest ih =>
    intro cur
    simp only [bump, List.pairwise_cons]
    refine ⟨?_, ih _⟩
    intro b hb
    have hin := bump_inside A hA rest _ b hb
    have hr := roundUp_ge s A hA
    unfold Block.Disjoint Overlap Block.inside at *
    rintro ⟨x, h1, h2, h3, h4⟩
    simp only at h1 h2
    omega

/-- starts are aligned when the arena base is -/
theorem bump_aligned (A : Nat) (sizes : List Nat) : ∀ cur, cur % A = 0 → ∀ b ∈ bump A cur sizes, b.start % A = 0 := by
  induction sizes with
  | nil => intro cur _ b hb; simp [bump] at hb
  | cons s rest ih =>
    intro cur hc b hb
    simp only [bump, List.mem_cons] at hb
    rcases hb with rfl | hb
    · exact hc
    · refine ih _ ?_ b hb
      rw [Nat.add_mod, hc, roundUp_mod]; simp

theorem bump_length (A : Nat) (sizes : List Nat) : ∀ cur, (bump A cur sizes).length = sizes.length := by
  induction sizes with
  | nil => intro cur; rfl
  | cons s rest ih => intro cur; simp [bump, ih]

theorem bump_sizes (A : Nat) (sizes : List Nat) : ∀ cur, (bump A cur sizes).map (·.size) = sizes := by
  induction sizes with
  | nil => intro cur; rfl
  | cons s rest ih => intro cur; simp [bump, ih]

/-- a bump arena placed above every block of the original hands out fresh blocks -/
theorem bump_fresh (A : Nat) (hA : 0 < A) (sizes : List Nat) (base : Nat) (old : List Block)
    (hold : ∀ o ∈ old, o.start + o.size ≤ base) : Fresh (bump A base sizes) old := by
  intro a ha o ho
  have hin := bump_inside A hA sizes base a ha
  have := hold o ho
  unfold Block.Disjoint Overlap Block.inside at *
  rintro ⟨x, h1, h2, h3, h4⟩; omega

/-! ## provenance -/

theorem contains_spec {b : Block} {p : Ptr} (h : b.contains p = true) : b.start ≤ p.addr ∧ p.addr + p.size ≤ b.start + b.size := by
  simpa [Block.contains] using h

/-- the checker predicate implies block-level disjointness from the original when the allocator hands out fresh
blocks: no byte of any walked extent (other than userdata / NULL) belongs to a block of the original -/
theorem prov_disjoint {allocd old : List Block} {ptrs : List Ptr} (hok : provOK allocd ptrs = true) (hf : Fresh allocd old)
    (p : Ptr) (hp : p ∈ ptrs) (hnull : p.addr ≠ 0) (hud : p.field ≠ .objUserdata) (o : Block) (ho : o ∈ old) :
    ¬ Overlap p.addr p.size o.start o.size := by
  unfold provOK at hok
  rw [List.all_eq_true] at hok
  have h := hok p hp
  simp only [Bool.or_eq_true, beq_iff_eq, List.any_eq_true] at h
  rcases h with (h | h) | ⟨b, hb, hc⟩
  · exact absurd h hnull
  · exact absurd h hud
  · have hd := hf b hb o ho
    have ⟨c1, c2⟩ := contains_spec hc
    unfold Block.Disjoint Overlap at hd
    rintro ⟨x, h1, h2, h3, h4⟩
    exact hd ⟨x, by omega, by omega, h3, h4⟩

/-- two walked extents that lie in different allocator blocks do not overlap (no aliasing inside the copy either) -/
theorem prov_distinct_blocks {a b : Block} {p q : Ptr} (hd : a.Disjoint b) (hp : a.contains p = true) (hq : b.contains q = true) :
    ¬ Overlap p.addr p.size q.addr q.size := by
  have ⟨c1, c2⟩ := contains_spec hp
  have ⟨d1, d2⟩ := contains_spec hq
  unfold Block.Disjoint Overlap at hd
  rintro ⟨x, h1, h2, h3, h4⟩
  exact hd ⟨x, by omega, by omega, by omega, by omega⟩

end Hw.Topo.Dup
