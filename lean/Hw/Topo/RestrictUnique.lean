/-
  Hw.Topo.RestrictUnique — the three uniqueness clauses of WF after restrict (B2): pu-osindex-unique, numa-osindex-unique,
  gp-index-unique.  restrict creates no object and changes neither type nor os_index nor gp_index, and every object of the result
  is an object of the input (counting: `cnt_restrict`), so a value that occurred at most once occurs at most once afterwards.
-/
import Hw.Topo.RestrictAllowed
namespace Hw.Topo.Restrict
open Hw.Topo Hw.Gen.Restrict

def tyOs (y : RObj) : Nat × Int := (y.type, y.osidx)

/-- os_index is unique among the objects of type `ty` (C01 clauses pu-osindex-unique / numa-osindex-unique on the tree) -/
def osUniqueT (ty : Nat) (t : Tree) : Prop := (((objsT t).filter (fun o => o.type == ty)).map (·.osidx)).Nodup

instance (ty : Nat) (t : Tree) : Decidable (osUniqueT ty t) := by unfold osUniqueT; exact inferInstance

theorem cnt_tyOs_single (x : RObj) (ty : Nat) (a : Int) :
    cnt tyOs (ty, a) [x] = if x.type = ty ∧ x.osidx = a then 1 else 0 := by
  unfold cnt tyOs
  simp only [List.map_cons, List.map_nil, List.count_cons, List.count_nil, Nat.zero_add, beq_iff_eq, Prod.mk.injEq]

theorem count_filter_map (l : List RObj) (ty : Nat) (a : Int) :
    ((l.filter (fun o => o.type == ty)).map (·.osidx)).count a = cnt tyOs (ty, a) l := by
  induction l with
  | nil => rfl
  | cons x xs ih =>
    rw [cnt_cons, cnt_tyOs_single, ← ih]
    simp only [List.filter_cons]
    by_cases hx : x.type = ty
    · simp only [hx, beq_self_eq_true, if_true, List.map_cons, List.count_cons, beq_iff_eq, true_and]
      omega
    · have hb : (x.type == ty) = false := by simpa using hx
      simp only [hb, Bool.false_eq_true, if_false, hx, false_and, Nat.zero_add]

theorem osUniqueT_iff (ty : Nat) (t : Tree) : osUniqueT ty t ↔ ∀ a, cnt tyOs (ty, a) (objsT t) ≤ 1 := by
  unfold osUniqueT
  rw [List.nodup_iff_count]
  constructor
  · intro h a; rw [← count_filter_map]; exact h a
  · intro h a; rw [count_filter_map]; exact h a

/-- preserved by every restrict call -/
theorem osUnique_restrict (ty : Nat) (t : Topo) (s : CSet) (flags : Nat) (h : osUniqueT ty t.tree) :
    osUniqueT ty (restrict t s flags).1.tree := by
  rw [osUniqueT_iff] at h ⊢
  intro a
  refine Nat.le_trans (cnt_restrict tyOs (ty, a) t s flags (fun p o => ?_) (fun _ _ => rfl)) (h a)
  have h1 : (shrinkG p o).type = o.type := type_shrinkG p o
  have h2 : (shrinkG p o).osidx = o.osidx := by
    show (ident (shrinkG p o)).osidx = (ident o).osidx
    rw [ident_shrinkG]
  unfold tyOs
  rw [h1, h2]

theorem robjOf_osidx (o : Obj) : (robjOf o).osidx = o.osidx := rfl

/-- holds for the tree of every well-formed dump -/
theorem wf_osUnique {d : Dump} (h : WF d) (t : Tree) (ht : treeOf d = .ok t) : osUniqueT tPU t ∧ osUniqueT tNUMA t := by
  have hp := treeOf_perm h t ht
  have key : ∀ ty, ((d.objs.filter (fun o => o.type == ty)).map (·.osidx)).Nodup → osUniqueT ty t := by
    intro ty hn
    unfold osUniqueT
    have h1 : (((objsT t).filter (fun o => o.type == ty)).map (·.osidx)).Perm
        ((((d.objs.map robjOf)).filter (fun o => o.type == ty)).map (·.osidx)) := (hp.filter _).map _
    rw [h1.nodup_iff, List.filter_map, List.map_map]
    exact hn
  exact ⟨key tPU h.pu_osidx_unique, key tNUMA h.numa_osidx_unique⟩

/-! ### the rendered clauses -/

theorem ro_osidx_gp (nl : List (Nat × List Nat)) (os : List Occ) (ex : RObj → Extra) (oc : Occ) :
    (renderObj nl os ex oc).osidx = oc.t.obj.osidx ∧ (renderObj nl os ex oc).gp = oc.t.obj.gp := by
  cases oc with | mk a b c d e t => cases t; exact ⟨rfl, rfl⟩

theorem render_filter_osidx (t : Tree) (h : Hdr) (ex : RObj → Extra) (ty : Nat) :
    (((render t h ex).objs.filter (fun o => o.type == ty)).map (·.osidx)) = ((objsT t).filter (fun o => o.type == ty)).map (·.osidx) := by
  rw [render_objs, ← occs_map_obj t, List.filter_map, List.filter_map, List.map_map, List.map_map]
  have e1 : ((fun (o : Obj) => o.type == ty) ∘ rObj t ex) = ((fun (o : RObj) => o.type == ty) ∘ fun (oc : Occ) => oc.t.obj) := by
    funext oc
    simp only [Function.comp]
    unfold rObj
    rw [ro_type]
  have e2 : ((fun (o : Obj) => o.osidx) ∘ rObj t ex) = ((fun (o : RObj) => o.osidx) ∘ fun (oc : Occ) => oc.t.obj) := by
    funext oc
    simp only [Function.comp]
    unfold rObj
    rw [(ro_osidx_gp _ _ _ _).1]
  rw [e1, e2]

theorem render_map_gp (t : Tree) (h : Hdr) (ex : RObj → Extra) : (render t h ex).objs.map (·.gp) = (objsT t).map (·.gp) := by
  rw [render_objs, ← occs_map_obj t, List.map_map, List.map_map]
  congr 1
  funext oc
  simp only [Function.comp]
  unfold rObj
  rw [(ro_osidx_gp _ _ _ _).2]

theorem clause_pu_osindex_unique : topClause "pu-osindex-unique" = fun d _ =>
    decide (((d.objs.filter (fun o => o.type == tPU)).map (·.osidx)).Nodup) := by
  simp only [topClause, topClauses, List.find?, String.reduceBEq]
theorem clause_numa_osindex_unique : topClause "numa-osindex-unique" = fun d _ =>
    decide (((d.objs.filter (fun o => o.type == tNUMA)).map (·.osidx)).Nodup) := by
  simp only [topClause, topClauses, List.find?, String.reduceBEq]
theorem clause_gp_index_unique : topClause "gp-index-unique" = fun d _ => decide ((d.objs.map (·.gp)).Nodup) := by
  simp only [topClause, topClauses, List.find?, String.reduceBEq]

/-- **pu-osindex-unique, numa-osindex-unique, gp-index-unique** for the rendering of every tree that satisfies them -/
theorem render_unique (t : Tree) (h : Hdr) (ex : RObj → Extra) :
    (osUniqueT tPU t → topClause "pu-osindex-unique" (render t h ex) (mkAux (render t h ex)) = true) ∧
    (osUniqueT tNUMA t → topClause "numa-osindex-unique" (render t h ex) (mkAux (render t h ex)) = true) ∧
    (((objsT t).map (·.gp)).Nodup → topClause "gp-index-unique" (render t h ex) (mkAux (render t h ex)) = true) := by
  refine ⟨fun hu => ?_, fun hu => ?_, fun hu => ?_⟩
  · rw [clause_pu_osindex_unique]
    simp only [decide_eq_true_eq]
    rw [render_filter_osidx]; exact hu
  · rw [clause_numa_osindex_unique]
    simp only [decide_eq_true_eq]
    rw [render_filter_osidx]; exact hu
  · rw [clause_gp_index_unique]
    simp only [decide_eq_true_eq]
    rw [render_map_gp]; exact hu

/-! ### type-in-range and not-filtered-out -/

/-- no object of a type whose filter is KEEP_NONE (C01 clause not-filtered-out on the tree) -/
def notFilteredT (filters : List Nat) (t : Tree) : Bool := (objsT t).all (fun x => filterOf filters x.type != 1)

theorem restrict_filters (t : Topo) (s : CSet) (flags : Nat) : (restrict t s flags).1.filters = t.filters := by
  unfold restrict
  cases hp : plan t s flags with
  | none => rfl
  | some p =>
    simp only []
    cases hc : restrictCore t p with
    | none => rfl
    | some t' => exact (restrictCore_root t p t' hc).2.2.2.1

theorem wf_notFiltered {d : Dump} (h : WF d) (t : Tree) (ht : treeOf d = .ok t) : notFilteredT d.filters t = true := by
  unfold notFilteredT
  rw [List.all_eq_true]
  intro x hx
  obtain ⟨c, hc, e⟩ := List.mem_map.1 ((treeOf_perm h t ht).mem_iff.1 hx)
  have := h.not_filtered c hc
  rw [← e, robjOf_type]
  unfold filterOf
  simpa using this

/-- preserved by every restrict call: the result has no object of a new type, and the filters are not touched -/
theorem notFiltered_restrict (t : Topo) (s : CSet) (flags : Nat) (h : notFilteredT t.filters t.tree = true) :
    notFilteredT (restrict t s flags).1.filters (restrict t s flags).1.tree = true := by
  rw [restrict_filters]
  unfold notFilteredT at h ⊢
  rw [List.all_eq_true] at h ⊢
  intro x hx
  have hpos : 0 < cnt (fun y => y.type) x.type (objsT (restrict t s flags).1.tree) := (cnt_pos_iff _ _ _).2 ⟨x, hx, rfl⟩
  have hle := cnt_restrict (fun y => y.type) x.type t s flags (fun p o => type_shrinkG p o) (fun _ _ => rfl)
  obtain ⟨x0, hx0, e⟩ := (cnt_pos_iff _ _ _).1 (Nat.lt_of_lt_of_le hpos hle)
  have := h x0 hx0
  rw [e] at this
  exact this

theorem clause_type_in_range : objClause "type-in-range" = fun _ _ o => decide (o.type < tMAX) := by
  simp only [objClause, objClauses, List.find?, String.reduceBEq]
theorem clause_not_filtered_out : objClause "not-filtered-out" = fun d _ o => (d.filters[o.type]?).getD 0 != 1 := by
  simp only [objClause, objClauses, List.find?, String.reduceBEq]

/-- **type-in-range** (every typed tree) and **not-filtered-out** for the rendering -/
theorem render_type_filter (t : Tree) (h : Hdr) (ex : RObj → Extra) (o : Obj) (ho : o ∈ (render t h ex).objs) :
    (typedT t = true → objClause "type-in-range" (render t h ex) (mkAux (render t h ex)) o = true) ∧
    (notFilteredT h.filters t = true → objClause "not-filtered-out" (render t h ex) (mkAux (render t h ex)) o = true) := by
  obtain ⟨oc, hoc, rfl⟩ := render_mem t h ex o ho
  constructor
  · intro ht
    rw [clause_type_in_range]
    have hty := (typedT_facts oc.t (occs_typed.1 t ht 0 (-1) 0 (-1) (-1) oc hoc)).2.2.2.2
    show decide ((renderObj (normalLevels t) (occs t) ex oc).type < tMAX) = true
    rw [ro_type]
    exact decide_eq_true hty
  · intro hn
    rw [clause_not_filtered_out]
    unfold notFilteredT at hn
    have := List.all_eq_true.1 hn _ (occ_obj_mem t oc hoc)
    show ((h.filters[(renderObj (normalLevels t) (occs t) ex oc).type]?).getD 0 != 1) = true
    rw [ro_type]
    exact this

end Hw.Topo.Restrict
