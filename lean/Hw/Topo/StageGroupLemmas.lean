/-
  Hw.Topo.StageGroupLemmas — `hwloc_set_group_depth` (model Hw.Topo.StageGroup) numbers the Group levels 0, 1, 2, … from the
  root level downwards and gives every object of the k-th Group level the depth k.
-/
import Hw.Topo.StageGroup
namespace Hw.Topo.Restrict.Stage
open Hw.Topo Hw.Topo.Restrict

/-- **the k-th level whose first object is a Group (counting from `gd`) gets depth k, all its objects the same** -/
theorem groupDepthsFrom_spec : ∀ (L : List (List RObj)) (gd : Nat),
    groupDepthsFrom gd L = ((L.filter isGroupLevel).zipIdx gd).flatMap (fun p => p.1.map (fun o => (o.gp, p.2)))
  | [], gd => by simp [groupDepthsFrom]
  | l :: ls, gd => by
    rw [groupDepthsFrom]
    by_cases h : isGroupLevel l = true
    · rw [if_pos h, List.filter_cons_of_pos h, List.zipIdx_cons, List.flatMap_cons, groupDepthsFrom_spec ls (gd + 1)]
    · rw [if_neg h, List.filter_cons_of_neg h, groupDepthsFrom_spec ls gd]

/-- every depth written lies in `[gd, gd + number of Group levels)` -/
theorem groupDepthsFrom_range : ∀ (L : List (List RObj)) (gd : Nat), ∀ p ∈ groupDepthsFrom gd L,
    gd ≤ p.2 ∧ p.2 < gd + (L.filter isGroupLevel).length
  | [], gd => by intro p hp; simp [groupDepthsFrom] at hp
  | l :: ls, gd => by
    intro p hp
    rw [groupDepthsFrom] at hp
    by_cases h : isGroupLevel l = true
    · rw [if_pos h] at hp
      rw [List.filter_cons_of_pos h, List.length_cons]
      rcases List.mem_append.1 hp with hp | hp
      · obtain ⟨o, _, rfl⟩ := List.mem_map.1 hp
        exact ⟨Nat.le_refl _, by omega⟩
      · have := groupDepthsFrom_range ls (gd + 1) p hp
        omega
    · rw [if_neg h] at hp
      rw [List.filter_cons_of_neg h]
      exact groupDepthsFrom_range ls gd p hp

/-- the depths written are below the number of levels; in particular never `(unsigned) -1` (WF clause `group-depth`) when the
    topology has fewer than 2^32 - 1 levels (`nb_levels` is an `unsigned`) -/
theorem setGroupDepth_lt (t : Tree) : ∀ p ∈ setGroupDepth t, p.2 < (connectLevels t).length := by
  intro p hp
  have := (groupDepthsFrom_range (connectLevels t) 0 p hp).2
  have hl := List.length_filter_le isGroupLevel (connectLevels t)
  omega

end Hw.Topo.Restrict.Stage
