/-
  Hw.Topo.InsertOrder — a refused insertion leaves the tree EXACTLY as it was.

  On a tree whose children lists are ordered by the first bit of their complete cpuset (the order hwloc maintains and
  hwloc_topology_check asserts) and whose objects have no offline / disallowed bits (complete cpuset = cpuset, so that the
  position the routine remembers for OBJ, computed from cpusets, is meaningful for the put-back, which compares complete
  cpusets), the put-back path of `hwloc___insert_object_by_cpuset` re-creates the original children lists at every level.
-/
import Hw.Topo.InsertLemmas
namespace Hw.Topo.Ins

/-! ### first bits -/

theorem tz_spec {m : Nat} (h : m ≠ 0) : m.testBit (tz m) = true ∧ ∀ j, j < tz m → m.testBit j = false := by
  unfold tz
  cases hl : Hw.lowest (fun i => m.testBit i) (m.log2 + 1) with
  | none =>
    have := (Hw.lowest_none.mp hl) m.log2 (Nat.lt_succ_self _)
    simp [Nat.testBit_log2 h] at this
  | some j =>
    have := Hw.lowest_some.mp hl
    exact ⟨this.2.1, this.2.2⟩

/-- a non-empty subset starts at or after the first bit of its superset -/
theorem tz_le_of_sub {t k : Nat} (hs : sub t k) (ht : t ≠ 0) : tz k ≤ tz t := by
  have hk : k ≠ 0 := by
    intro hk; unfold sub at hs; rw [hk] at hs; simp at hs; exact ht hs.symm
  have h1 := (tz_spec ht).1
  have h2 : k.testBit (tz t) = true := by
    have : (t &&& k).testBit (tz t) = true := by rw [hs]; exact h1
    rw [Nat.testBit_and] at this
    simp at this; exact this.2
  apply Nat.le_of_not_lt
  intro hlt
  have := (tz_spec hk).2 (tz t) hlt
  rw [h2] at this; cases this

/-- disjoint non-empty sets start at different bits -/
theorem tz_ne_of_dj {a b : Nat} (hd : dj a b) (ha : a ≠ 0) (hb : b ≠ 0) : tz a ≠ tz b := by
  intro he
  have h1 := (tz_spec ha).1
  have h2 := (tz_spec hb).1
  rw [← he] at h2
  have : (a &&& b).testBit (tz a) = true := by rw [Nat.testBit_and, h1, h2]; rfl
  unfold dj at hd
  rw [hd] at this
  simp at this

theorem firstLt_irrefl (a : Nat) : firstLt a a = false := by
  unfold firstLt
  by_cases h : a = 0 <;> simp [h]

theorem firstLt_trans {a b c : Nat} (h1 : firstLt a b = true) (h2 : firstLt b c = true) : firstLt a c = true := by
  unfold firstLt at *
  simp only [Bool.and_eq_true, bne_iff_ne, ne_eq, Bool.or_eq_true, beq_iff_eq, decide_eq_true_eq] at *
  refine ⟨h1.1, ?_⟩
  rcases h1.2 with hb | hab
  · exact absurd hb h2.1
  · rcases h2.2 with hc | hbc
    · exact Or.inl hc
    · exact Or.inr (Nat.lt_trans hab hbc)

/-! ### the order on siblings -/

def lt (a b : T) : Prop := firstLt a.o.ckey b.o.ckey = true

theorem lt_irrefl (a : T) : ¬ lt a a := by unfold lt; rw [firstLt_irrefl]; simp
theorem lt_trans {a b c : T} (h1 : lt a b) (h2 : lt b c) : lt a c := firstLt_trans h1 h2
theorem lt_asymm {a b : T} (h1 : lt a b) (h2 : lt b a) : False := lt_irrefl a (lt_trans h1 h2)

/-- two strictly sorted lists with the same elements are equal -/
theorem sorted_perm_eq : ∀ (l1 l2 : List T), l1.Pairwise lt → l2.Pairwise lt → l1.Perm l2 → l1 = l2 := by
  intro l1
  induction l1 with
  | nil => intro l2 _ _ hp; exact (List.Perm.nil_eq hp)
  | cons a l1 ih =>
    intro l2 h1 h2 hp
    cases l2 with
    | nil => exact absurd hp.symm (List.Perm.nil_eq · |> fun h => by cases h)
    | cons b l2 =>
      have hab : a = b := by
        apply Classical.byContradiction
        intro hne
        have ha : a ∈ b :: l2 := hp.mem_iff.mp (by simp)
        have hb : b ∈ a :: l1 := hp.mem_iff.mpr (by simp)
        have ha' : a ∈ l2 := by
          rcases List.mem_cons.mp ha with h | h
          · exact absurd h hne
          · exact h
        have hb' : b ∈ l1 := by
          rcases List.mem_cons.mp hb with h | h
          · exact absurd h.symm hne
          · exact h
        exact lt_asymm ((List.pairwise_cons.mp h1).1 b hb') ((List.pairwise_cons.mp h2).1 a ha')
      subst hab
      rw [ih l2 (List.pairwise_cons.mp h1).2 (List.pairwise_cons.mp h2).2 (List.Perm.cons_inv hp)]

/-! ### the put-back loop rebuilds a sorted list -/

theorem dropWhile_all_gt {c : T} : ∀ (lst : List T), lst.Pairwise lt → (∀ x ∈ lst, lt x c ∨ lt c x) →
    ∀ x ∈ lst.dropWhile (fun x => firstLt x.o.ckey c.o.ckey), lt c x := by
  intro lst
  induction lst with
  | nil => intro _ _ x hx; cases hx
  | cons h tl ih =>
    intro hp htot x hx
    simp only [List.dropWhile] at hx
    split at hx
    · exact ih (List.pairwise_cons.mp hp).2 (fun y hy => htot y (by simp [hy])) x hx
    · rename_i hph
      have hch : lt c h := by
        rcases htot h (by simp) with h' | h'
        · exact absurd h' (by simpa [lt] using hph)
        · exact h'
      rcases List.mem_cons.mp hx with rfl | hx
      · exact hch
      · exact lt_trans hch ((List.pairwise_cons.mp hp).1 x hx)

theorem takeWhile_all {c : T} : ∀ (lst : List T), ∀ a ∈ lst.takeWhile (fun x => firstLt x.o.ckey c.o.ckey), lt a c := by
  intro lst
  induction lst with
  | nil => intro a ha; cases ha
  | cons h tl ih =>
    intro a ha
    simp only [List.takeWhile] at ha
    split at ha
    · rename_i hp
      rcases List.mem_cons.mp ha with rfl | ha
      · exact hp
      · exact ih a ha
    · cases ha

theorem putback_sorted : ∀ (taken lst : List T), lst.Pairwise lt → taken.Pairwise lt →
    (∀ x ∈ lst, ∀ t ∈ taken, lt x t ∨ lt t x) → (putback lst taken).Pairwise lt := by
  intro taken
  induction taken with
  | nil => intro lst h _ _; simpa [putback] using h
  | cons c cs ih =>
    intro lst hl ht htot
    simp only [putback]
    have hsplit : lst = lst.takeWhile (fun x => firstLt x.o.ckey c.o.ckey) ++ lst.dropWhile (fun x => firstLt x.o.ckey c.o.ckey) :=
      (List.takeWhile_append_dropWhile).symm
    have hpa : (lst.takeWhile (fun x => firstLt x.o.ckey c.o.ckey) ++ lst.dropWhile (fun x => firstLt x.o.ckey c.o.ckey)).Pairwise lt := by
      rw [← hsplit]; exact hl
    have hp3 := List.pairwise_append.mp hpa
    have hdw := dropWhile_all_gt lst hl (fun x hx => htot x hx c (by simp))
    have htc := List.pairwise_cons.mp ht
    have hrec : (putback (c :: lst.dropWhile (fun x => firstLt x.o.ckey c.o.ckey)) cs).Pairwise lt := by
      apply ih
      · exact List.pairwise_cons.mpr ⟨hdw, hp3.2.1⟩
      · exact htc.2
      · intro x hx t ht'
        rcases List.mem_cons.mp hx with rfl | hx
        · exact Or.inl (htc.1 t ht')
        · exact htot x ((List.dropWhile_sublist _).subset hx) t (by simp [ht'])
    refine List.pairwise_append.mpr ⟨hp3.1, hrec, ?_⟩
    intro a ha b hb
    have hac : lt a c := by
      exact takeWhile_all _ a ha
    have hb' := (putback_perm cs _).mem_iff.mp hb
    rcases List.mem_append.mp hb' with hb' | hb'
    · rcases List.mem_cons.mp hb' with rfl | hb'
      · exact hac
      · exact hp3.2.2 a ha b hb'
    · exact lt_trans hac (htc.1 b hb')


/-! ### ordered trees and the exactness of the put-back -/

/-- children ordered by the first bit of their complete cpuset, no offline / disallowed bits below the root, recursively -/
inductive Ord : T → Prop
  | mk {o : IObj} {kids : List T} :
      kids.Pairwise lt → (∀ c ∈ kids, c.o.key = c.o.ckey) → (∀ c ∈ kids, Ord c) → Ord (.node o kids)

theorem Ord.pw {o : IObj} {kids : List T} (h : Ord (.node o kids)) : kids.Pairwise lt := by cases h; assumption
theorem Ord.keq {o : IObj} {kids : List T} (h : Ord (.node o kids)) : ∀ c ∈ kids, c.o.key = c.o.ckey := by cases h; assumption
theorem Ord.kids {o : IObj} {kids : List T} (h : Ord (.node o kids)) : ∀ c ∈ kids, Ord c := by cases h; assumption

/-- a child kept before the remembered position starts below every child taken by OBJ -/
theorem lt_of_before_putp {k0 : Nat} {a b : T} (hf : firstLt k0 a.o.key = false) (hs : sub b.o.key k0) (hb : b.o.key ≠ 0)
    (hd : DJ a b) (ha : a.o.key = a.o.ckey) (hbk : b.o.key = b.o.ckey) : lt a b := by
  have hk0 : k0 ≠ 0 := by
    intro hk; unfold sub at hs; rw [hk] at hs; simp at hs; exact hb hs.symm
  unfold firstLt at hf
  simp only [Bool.and_eq_false_iff, bne_eq_false_iff_eq, Bool.or_eq_false_iff, beq_eq_false_iff_ne, ne_eq,
    decide_eq_false_iff_not, Nat.not_lt] at hf
  rcases hf with hf | hf
  · exact absurd hf hk0
  · have h1 := tz_le_of_sub hs hb
    have h2 := tz_ne_of_dj hd hf.1 hb
    unfold lt firstLt
    rw [← ha, ← hbk]
    simp only [Bool.and_eq_true, bne_iff_ne, ne_eq, Bool.or_eq_true, beq_iff_eq, decide_eq_true_eq]
    exact ⟨hf.1, Or.inr (by omega)⟩

theorem insLoop_failed (N : Nat)
    (IH : ∀ c : T, size c < N → ∀ obj : IObj, Lam c → Ord c → sub obj.key c.o.key → ∀ c', ins obj c = .failed c' → c' = c)
    (co : IObj) (kids : List T) (k0 : Nat) (hkids : kids.Pairwise lt) :
    ∀ (rest before taken : List T) (putp : Option Nat) (obj : IObj), obj.key = k0 →
      ((before ++ taken ++ rest).Perm kids ∨ ∃ d ∈ taken, d.o.key = k0) →
      (kids = before ++ rest ∨ taken ≠ []) →
      (∀ c ∈ taken, sub c.o.key k0 ∧ c.o.key ≠ 0) →
      (∀ d ∈ taken, ∀ c ∈ rest, DJ d c) → (∀ a ∈ before, ∀ d ∈ taken, DJ a d) → (before ++ rest).Pairwise DJ →
      (before ++ rest).Pairwise lt → taken.Pairwise lt → (∀ t ∈ taken, ∀ x ∈ rest, lt t x) →
      (∀ x ∈ before, ∀ t ∈ taken, lt x t ∨ lt t x) →
      (∀ a ∈ before.take (putp.getD before.length), firstLt k0 a.o.key = false) → (∀ i, putp = some i → i ≤ before.length) →
      (∀ c ∈ before ++ taken ++ rest, c.o.key = c.o.ckey) →
      (∀ c ∈ rest, Lam c ∧ Ord c ∧ size c < N) →
      ∀ t', insLoop obj co before taken putp rest = .failed t' → t' = .node co kids := by
  intro rest
  induction rest with
  | nil =>
    intro before taken putp obj _ _ _ _ _ _ _ _ _ _ _ _ _ _ _ t' h
    simp only [insLoop] at h
    cases h
  | cons c rest ih =>
    intro before taken putp obj hk hperm hshape htak hcross hbt hdj hS1 hS2 hS3 hS4 hS5 hS6 hkeq hrest t' h
    cases c with
    | node ko kk =>
    simp only [insLoop] at h
    have hp := List.pairwise_append.mp hS1
    have hpc := List.pairwise_cons.mp hp.2.1
    have hq := List.pairwise_append.mp hdj
    have hqc := List.pairwise_cons.mp hq.2.1
    cases hd : decide1 obj ko with
    | merge o' =>
      rw [hd] at h; simp only [] at h
      split at h <;> cases h
    | recurse =>
      rw [hd] at h; simp only [] at h
      split at h
      · rename_i hte
        have ht : taken = [] := by simpa using hte
        subst ht
        have hkk : kids = before ++ T.node ko kk :: rest := by
          rcases hshape with h' | h'
          · exact h'
          · exact absurd rfl h'
        have hc := hrest (T.node ko kk) (by simp)
        cases hr : ins obj (T.node ko kk) with
        | failed c' =>
          rw [hr] at h
          simp only [Res.wrap] at h
          injection h with h
          rw [← h, IH _ hc.2.2 obj hc.1 hc.2.1 (decide1_recurse hd).1 c' hr, hkk]
        | inserted c' => rw [hr] at h; simp only [Res.wrap] at h; cases h
        | merged c' m => rw [hr] at h; simp only [Res.wrap] at h; cases h
        | stuck => rw [hr] at h; simp only [Res.wrap] at h; cases h
      · cases h
    | fail =>
      rw [hd] at h; simp only [] at h
      injection h with h
      subst h
      congr 1
      -- no child with OBJ's own set was taken: it would be disjoint from the intersecting child
      have hperm' : (before ++ taken ++ T.node ko kk :: rest).Perm kids := by
        rcases hperm with h' | ⟨d, hd', hdk⟩
        · exact h'
        · exfalso
          have : DJ d (T.node ko kk) := hcross d hd' _ (by simp)
          exact decide1_fail hd (by rw [hk, ← hdk]; exact this)
      have hcur : (before ++ T.node ko kk :: rest).Pairwise lt := hS1
      have htot : ∀ x ∈ before ++ T.node ko kk :: rest, ∀ t ∈ taken, lt x t ∨ lt t x := by
        intro x hx t ht
        rcases List.mem_append.mp hx with hx | hx
        · exact hS4 x hx t ht
        · exact Or.inr (hS3 t ht x hx)
      have hR : ∀ R : List T, R.Pairwise lt → R.Perm ((before ++ T.node ko kk :: rest) ++ taken) → R = kids := by
        intro R hs hpm
        apply sorted_perm_eq R kids hs hkids
        refine hpm.trans (List.Perm.trans ?_ hperm')
        rw [List.append_assoc, List.append_assoc]
        exact List.Perm.append_left _ List.perm_append_comm
      cases putp with
      | none =>
        exact hR _ (putback_sorted taken _ hcur hS2 htot) (putback_perm taken _)
      | some i =>
        have hi : i ≤ before.length := hS6 i rfl
        apply hR
        · have hsplit : ((before ++ T.node ko kk :: rest).take i ++ (before ++ T.node ko kk :: rest).drop i).Pairwise lt := by
            rw [List.take_append_drop]; exact hcur
          have h3 := List.pairwise_append.mp hsplit
          refine List.pairwise_append.mpr ⟨h3.1, ?_, ?_⟩
          · exact putback_sorted taken _ h3.2.1 hS2 (fun x hx t ht => htot x (List.mem_of_mem_drop hx) t ht)
          · intro a ha b hb
            have hb' := (putback_perm taken _).mem_iff.mp hb
            rcases List.mem_append.mp hb' with hb' | hb'
            · exact h3.2.2 a ha b hb'
            · have ha' : a ∈ before.take i := by
                rw [List.take_append_of_le_length hi] at ha; exact ha
              have hf := hS5 a (by simpa using ha')
              have hab := hbt a (List.mem_of_mem_take ha') b hb'
              exact lt_of_before_putp hf (htak b hb').1 (htak b hb').2 hab
                (hkeq a (by simp [List.mem_of_mem_take ha'])) (hkeq b (by simp [hb']))
        · have := List.Perm.append_left ((before ++ T.node ko kk :: rest).take i) (putback_perm taken ((before ++ T.node ko kk :: rest).drop i))
          rw [← List.append_assoc, List.take_append_drop] at this
          exact this
    | differ =>
      rw [hd] at h; simp only [] at h
      have hdj1 := decide1_differ hd
      refine ih (before ++ [T.node ko kk]) taken _ obj hk ?_ ?_ htak ?_ ?_ ?_ ?_ hS2 ?_ ?_ ?_ ?_ ?_ ?_ t' h
      · rcases hperm with h' | h'
        · left
          refine List.Perm.trans ?_ h'
          simp only [List.append_assoc, List.cons_append, List.nil_append]
          exact List.Perm.append_left _ (List.perm_middle.symm)
        · exact Or.inr h'
      · rcases hshape with h' | h'
        · left; simp [h']
        · exact Or.inr h'
      · intro d hd' x hx; exact hcross d hd' x (by simp [hx])
      · intro a ha d hd'
        rcases List.mem_append.mp ha with ha | ha
        · exact hbt a ha d hd'
        · simp at ha; subst ha; exact DJ_symm (hcross d hd' _ (by simp))
      · simpa using hdj
      · simpa using hS1
      · intro t ht x hx; exact hS3 t ht x (by simp [hx])
      · intro x hx t ht
        rcases List.mem_append.mp hx with hx | hx
        · exact hS4 x hx t ht
        · simp at hx; subst hx; exact Or.inr (hS3 t ht _ (by simp))
      · -- the remembered position
        intro a ha
        cases putp with
        | some i =>
          have hi := hS6 i rfl
          simp only [Option.isNone_some, Bool.false_and, Bool.false_eq_true, if_false, Option.getD_some] at ha
          rw [List.take_append_of_le_length hi] at ha
          exact hS5 a (by simpa using ha)
        | none =>
          simp only [Option.isNone_none, Bool.true_and] at ha
          by_cases hfl : firstLt obj.key ko.key = true
          · simp only [hfl, if_true, Option.getD_some] at ha
            rw [List.take_append_of_le_length (Nat.le_refl _), List.take_length] at ha
            exact hS5 a (by simpa using ha)
          · simp only [hfl, Bool.false_eq_true, if_false, Option.getD_none] at ha
            rw [List.take_of_length_le (Nat.le_refl _)] at ha
            rcases List.mem_append.mp ha with ha | ha
            · exact hS5 a (by simpa using ha)
            · simp at ha; subst ha; rw [← hk]; show firstLt obj.key ko.key = false; simpa using hfl
      · intro i hi
        cases putp with
        | some j =>
          simp only [Option.isNone_some, Bool.false_and, Bool.false_eq_true, if_false] at hi
          have := hS6 j rfl; injection hi with hi; subst hi; simp; omega
        | none =>
          simp only [Option.isNone_none, Bool.true_and] at hi
          split at hi
          · injection hi with hi; subst hi; simp
          · cases hi
      · intro x hx; apply hkeq
        simp only [List.mem_append, List.mem_cons, List.not_mem_nil, or_false] at hx ⊢
        rcases hx with ((h' | h') | h') | h'
        · exact Or.inl (Or.inl h')
        · exact Or.inr (Or.inl h')
        · exact Or.inl (Or.inr h')
        · exact Or.inr (Or.inr h')
      · intro x hx; exact hrest x (by simp [hx])
    | contain eq =>
      rw [hd] at h; simp only [] at h
      have hc := decide1_contain hd
      have step : ∀ ko' obj' : IObj, ko'.key = ko.key → ko'.ckey = ko.ckey → obj'.key = k0 →
          ((ko' = ko) ∨ ko'.key = k0) →
          insLoop obj' co before (taken ++ [T.node ko' kk]) putp rest = .failed t' → t' = T.node co kids := by
        intro ko' obj' hkk hck hk' hwhich h'
        have hlt1 : ∀ x : T, lt (T.node ko kk) x → lt (T.node ko' kk) x := by
          intro x hx; show firstLt ko'.ckey x.o.ckey = true; rw [hck]; exact hx
        have hlt2 : ∀ x : T, lt x (T.node ko kk) → lt x (T.node ko' kk) := by
          intro x hx; show firstLt x.o.ckey ko'.ckey = true; rw [hck]; exact hx
        have hDJ : ∀ x : T, DJ (T.node ko kk) x → DJ (T.node ko' kk) x := by
          intro x hx; show dj ko'.key x.o.key; rw [hkk]; exact hx
        refine ih before (taken ++ [T.node ko' kk]) putp obj' hk' ?_ ?_ ?_ ?_ ?_ ?_ ?_ ?_ ?_ ?_ hS5 hS6 ?_ ?_ t' h'
        · rcases hwhich with rfl | hk0'
          · rcases hperm with hp' | ⟨d, hd', hdk⟩
            · left
              have e : before ++ (taken ++ [T.node ko' kk]) ++ rest = before ++ taken ++ T.node ko' kk :: rest := by simp
              rw [e]; exact hp'
            · exact Or.inr ⟨d, by simp [hd'], hdk⟩
          · exact Or.inr ⟨T.node ko' kk, by simp, hk0'⟩
        · right; simp
        · intro x hx
          rcases List.mem_append.mp hx with hx | hx
          · exact htak x hx
          · simp at hx; subst hx; show sub ko'.key k0 ∧ ko'.key ≠ 0; rw [hkk, ← hk]; exact ⟨hc.1, hc.2.1⟩
        · intro d hd' x hx
          rcases List.mem_append.mp hd' with hd' | hd'
          · exact hcross d hd' x (by simp [hx])
          · simp at hd'; subst hd'; exact hDJ x (hqc.1 x hx)
        · intro a ha d hd'
          rcases List.mem_append.mp hd' with hd' | hd'
          · exact hbt a ha d hd'
          · simp at hd'; subst hd'; exact DJ_symm (hDJ a (DJ_symm (hq.2.2 a ha _ (by simp))))
        · exact List.pairwise_append.mpr ⟨hq.1, hqc.2, fun a ha b hb => hq.2.2 a ha b (by simp [hb])⟩
        · exact List.pairwise_append.mpr ⟨hp.1, hpc.2, fun a ha b hb => hp.2.2 a ha b (by simp [hb])⟩
        · refine List.pairwise_append.mpr ⟨hS2, by simp, ?_⟩
          intro a ha b hb
          simp at hb; subst hb
          exact hlt2 a (hS3 a ha _ (by simp))
        · intro t ht x hx
          rcases List.mem_append.mp ht with ht | ht
          · exact hS3 t ht x (by simp [hx])
          · simp at ht; subst ht; exact hlt1 x (hpc.1 x hx)
        · intro x hx t ht
          rcases List.mem_append.mp ht with ht | ht
          · exact hS4 x hx t ht
          · simp at ht; subst ht; exact Or.inl (hlt2 x (hp.2.2 x hx _ (by simp)))
        · intro x hx
          simp only [List.mem_append, List.mem_cons, List.not_mem_nil, or_false] at hx
          rcases hx with (h'' | (h'' | h'')) | h''
          · exact hkeq x (by simp [h''])
          · exact hkeq x (by simp [h''])
          · subst h''; show ko'.key = ko'.ckey; rw [hkk, hck]; exact hkeq (T.node ko kk) (by simp)
          · exact hkeq x (by simp [h''])
        · intro x hx; exact hrest x (by simp [hx])
      cases eq with
      | false => exact step ko obj rfl rfl hk (Or.inl rfl) h
      | true =>
        exact step { ko with mem := [] } { obj with mem := ko.mem } rfl rfl hk
          (Or.inr (by show ko.key = k0; rw [← hk]; exact (hc.2.2 rfl).symm)) h


theorem ins_failed_aux : ∀ (N : Nat) (t : T), size t < N → ∀ obj : IObj, Lam t → Ord t → sub obj.key t.o.key →
    ∀ t', ins obj t = .failed t' → t' = t := by
  intro N
  induction N with
  | zero => intro t h; exact absurd h (Nat.not_lt_zero _)
  | succ N ih =>
    intro t hsz obj hL hO _ t' h
    cases t with
    | node co kids =>
    simp only [ins] at h
    have hsz' : ∀ c ∈ kids, size c < N := by
      intro c hc
      have := sizeL_mem hc
      rw [size_node] at hsz; omega
    refine insLoop_failed N ih co kids obj.key hO.pw kids [] [] none obj rfl (Or.inl (by simp)) (Or.inl (by simp))
      (fun c hc => by cases hc) (fun d hd => by cases hd) (fun a ha => by cases ha) (by simpa using hL.kids_pw)
      (by simpa using hO.pw) List.Pairwise.nil (fun t ht => by cases ht) (fun x hx => by cases hx)
      (fun a ha => by simp at ha) (fun i hi => by cases hi) (fun c hc => hO.keq c (by simpa using hc))
      (fun c hc => ⟨hL.kids_lam c hc, hO.kids c hc, hsz' c hc⟩) t' h

/-- **A refused insertion changes nothing.**  On a laminar tree whose children lists are ordered by first bit and whose objects
have no offline / disallowed bits, an insertion that fails on an intersection returns exactly the original tree: every child
taken by the new object is put back at its original position, at every level of the recursion. -/
theorem ins_failed_unchanged (t : T) (obj : IObj) (hL : Lam t) (hO : Ord t) (hs : sub obj.key t.o.key) (t' : T)
    (h : ins obj t = .failed t') : t' = t :=
  ins_failed_aux (size t + 1) t (Nat.lt_succ_self _) obj hL hO hs t' h


/-! ### executable check of `Ord` -/

def pwLtB : List T → Bool
  | [] => true
  | c :: cs => cs.all (fun x => firstLt c.o.ckey x.o.ckey) && pwLtB cs

mutual
def ordB : T → Bool
  | .node _ kids => pwLtB kids && kids.all (fun c => c.o.key == c.o.ckey) && ordBL kids
def ordBL : List T → Bool
  | [] => true
  | c :: cs => ordB c && ordBL cs
end

theorem pwLtB_sound : ∀ l : List T, pwLtB l = true → l.Pairwise lt := by
  intro l
  induction l with
  | nil => intro _; exact List.Pairwise.nil
  | cons c cs ih =>
    intro h
    simp only [pwLtB, Bool.and_eq_true, List.all_eq_true] at h
    exact List.pairwise_cons.mpr ⟨fun x hx => h.1 x hx, ih h.2⟩

theorem ordBL_mem : ∀ (l : List T), ordBL l = true → ∀ c ∈ l, ordB c = true := by
  intro l
  induction l with
  | nil => intro _ c hc; cases hc
  | cons x xs ih =>
    intro h c hc
    simp only [ordBL, Bool.and_eq_true] at h
    rcases List.mem_cons.mp hc with rfl | hc
    · exact h.1
    · exact ih h.2 c hc

theorem ordB_sound_aux : ∀ (N : Nat) (t : T), size t < N → ordB t = true → Ord t := by
  intro N
  induction N with
  | zero => intro t h; exact absurd h (Nat.not_lt_zero _)
  | succ N ih =>
    intro t hsz h
    cases t with
    | node o kids =>
    simp only [ordB, Bool.and_eq_true, List.all_eq_true, beq_iff_eq] at h
    refine .mk (pwLtB_sound kids h.1.1) (fun c hc => h.1.2 c hc) ?_
    intro c hc
    apply ih c _ (ordBL_mem kids h.2 c hc)
    have := sizeL_mem hc
    rw [size_node] at hsz; omega

theorem ordB_sound (t : T) (h : ordB t = true) : Ord t := ordB_sound_aux (size t + 1) t (Nat.lt_succ_self _) h

end Hw.Topo.Ins
