/-
  Hw.Topo.InsertOrder — a refused insertion leaves the tree EXACTLY as it was.

  On a tree whose children lists are ordered by the first bit of their complete cpuset (the order hwloc maintains and
  hwloc_topology_check asserts) and whose objects have no offline / disallowed bits (complete cpuset = cpuset, so that the
  position the routine remembers for OBJ, computed from cpusets, is meaningful for the put-back, which compares complete
  cpusets), the put-back path of `hwloc___insert_object_by_cpuset` re-creates the original children lists at every level.
-/
import Hw.Topo.InsertLemmas
namespace Hw.Topo.Ins

/-! ### first bits -/

theorem tz_spec {m : Nat} (h : m ≠ 0) : m.testBit (tz m) = true ∧ ∀ j, j < tz m → m.testBit j = false := by
  unfold tz
  cases hl : Hw.lowest (fun i => m.testBit i) (m.log2 + 1) with
  | none =>
    have := (Hw.lowest_none.mp hl) m.log2 (Nat.lt_succ_self _)
    simp [Nat.testBit_log2 h] at this
  | some j =>
    have := Hw.lowest_some.mp hl
    exact ⟨this.2.1, this.2.2⟩

/-- a non-empty subset starts at or after the first bit of its superset -/
theorem tz_le_of_sub {t k : Nat} (hs : sub t k) (ht : t ≠ 0) : tz k ≤ tz t := by
  have hk : k ≠ 0 := by
    intro hk; unfold sub at hs; rw [hk] at hs; simp at hs; exact ht hs.symm
  have h1 := (tz_spec ht).1
  have h2 : k.testBit (tz t) = true := by
    have : (t &&& k).testBit (tz t) = true := by rw [hs]; exact h1
    rw [Nat.testBit_and] at this
    simp at this; exact this.2
  apply Nat.le_of_not_lt
  intro hlt
  have := (tz_spec hk).2 (tz t) hlt
  rw [h2] at this; cases this

/-- disjoint non-empty sets start at different bits -/
theorem tz_ne_of_dj {a b : Nat} (hd : dj a b) (ha : a ≠ 0) (hb : b ≠ 0) : tz a ≠ tz b := by
  intro he
  have h1 := (tz_spec ha).1
  have h2 := (tz_spec hb).1
  rw [← he] at h2
  have : (a &&& b).testBit (tz a) = true := by rw [Nat.testBit_and, h1, h2]; rfl
  unfold dj at hd
  rw [hd] at this
  simp at this

theorem firstLt_irrefl (a : Nat) : firstLt a a = false := by
  unfold firstLt
  by_cases h : a = 0 <;> simp [h]

theorem firstLt_trans {a b c : Nat} (h1 : firstLt a b = true) (h2 : firstLt b c = true) : firstLt a c = true := by
  unfold firstLt at *
  simp only [Bool.and_eq_true, bne_iff_ne, ne_eq, Bool.or_eq_true, beq_iff_eq, decide_eq_true_eq] at *
  refine ⟨h1.1, ?_⟩
  rcases h1.2 with hb | hab
  · exact absurd hb h2.1
  · rcases h2.2 with hc | hbc
    · exact Or.inl hc
    · exact Or.inr (Nat.lt_trans hab hbc)

/-! ### the order on siblings -/

def lt (a b : T) : Prop := firstLt a.o.ckey b.o.ckey = true

theorem lt_irrefl (a : T) : ¬ lt a a := by unfold lt; rw [firstLt_irrefl]; simp
theorem lt_trans {a b c : T} (h1 : lt a b) (h2 : lt b c) : lt a c := firstLt_trans h1 h2
theorem lt_asymm {a b : T} (h1 : lt a b) (h2 : lt b a) : False := lt_irrefl a (lt_trans h1 h2)

/-- two strictly sorted lists with the same elements are equal -/
theorem sorted_perm_eq : ∀ (l1 l2 : List T), l1.Pairwise lt → l2.Pairwise lt → l1.Perm l2 → l1 = l2 := by
  intro l1
  induction l1 with
  | nil => intro l2 _ _ hp; exact (List.Perm.nil_eq hp)
  | cons a l1 ih =>
    intro l2 h1 h2 hp
    cases l2 with
    | nil => exact absurd hp.symm (List.Perm.nil_eq · |> fun h => by cases h)
    | cons b l2 =>
      have hab : a = b := by
        apply Classical.byContradiction
        intro hne
        have ha : a ∈ b :: l2 := hp.mem_iff.mp (by simp)
        have hb : b ∈ a :: l1 := hp.mem_iff.mpr (by simp)
        have ha' : a ∈ l2 := by
          rcases List.mem_cons.mp ha with h | h
          · exact absurd h hne
          · exact h
        have hb' : b ∈ l1 := by
          rcases List.mem_cons.mp hb with h | h
          · exact absurd h.symm hne
          · exact h
        exact lt_asymm ((List.pairwise_cons.mp h1).1 b hb') ((List.pairwise_cons.mp h2).1 a ha')
      subst hab
      rw [ih l2 (List.pairwise_cons.mp h1).2 (List.pairwise_cons.mp h2).2 (List.Perm.cons_inv hp)]

/-! ### the put-back loop rebuilds a sorted list -/

theorem dropWhile_all_gt {c : T} : ∀ (lst : List T), lst.Pairwise lt → (∀ x ∈ lst, lt x c ∨ lt c x) →
    ∀ x ∈ lst.dropWhile (fun x => firstLt x.o.ckey c.o.ckey), lt c x := by
  intro lst
  induction lst with
  | nil => intro _ _ x hx; cases hx
  | cons h tl ih =>
    intro hp htot x hx
    simp only [List.dropWhile] at hx
    split at hx
    · exact ih (List.pairwise_cons.mp hp).2 (fun y hy => htot y (by simp [hy])) x hx
    · rename_i hph
      have hch : lt c h := by
        rcases htot h (by simp) with h' | h'
        · exact absurd h' (by simpa [lt] using hph)
        · exact h'
      rcases List.mem_cons.mp hx with rfl | hx
      · exact hch
      · exact lt_trans hch ((List.pairwise_cons.mp hp).1 x hx)

theorem putback_sorted : ∀ (taken lst : List T), lst.Pairwise lt → taken.Pairwise lt →
    (∀ x ∈ lst, ∀ t ∈ taken, lt x t ∨ lt t x) → (putback lst taken).Pairwise lt := by
  intro taken
  induction taken with
  | nil => intro lst h _ _; simpa [putback] using h
  | cons c cs ih =>
    intro lst hl ht htot
    simp only [putback]
    have hsplit : lst = lst.takeWhile (fun x => firstLt x.o.ckey c.o.ckey) ++ lst.dropWhile (fun x => firstLt x.o.ckey c.o.ckey) :=
      (List.takeWhile_append_dropWhile).symm
    have hpa : (lst.takeWhile (fun x => firstLt x.o.ckey c.o.ckey) ++ lst.dropWhile (fun x => firstLt x.o.ckey c.o.ckey)).Pairwise lt := by
      rw [← hsplit]; exact hl
    have hp3 := List.pairwise_append.mp hpa
    have hdw := dropWhile_all_gt lst hl (fun x hx => htot x hx c (by simp))
    have htc := List.pairwise_cons.mp ht
    have hrec : (putback (c :: lst.dropWhile (fun x => firstLt x.o.ckey c.o.ckey)) cs).Pairwise lt := by
      apply ih
      · exact List.pairwise_cons.mpr ⟨hdw, hp3.2.1⟩
      · exact htc.2
      · intro x hx t ht'
        rcases List.mem_cons.mp hx with rfl | hx
        · exact Or.inl (htc.1 t ht')
        · exact htot x (List.mem_of_mem_dropWhile hx) t (by simp [ht'])
    refine List.pairwise_append.mpr ⟨hp3.1, hrec, ?_⟩
    intro a ha b hb
    have hac : lt a c := by
      have := List.mem_takeWhile_imp ha
      simpa [lt] using this
    have hb' := (putback_perm cs _).mem_iff.mp hb
    rcases List.mem_append.mp hb' with hb' | hb'
    · rcases List.mem_cons.mp hb' with rfl | hb'
      · exact hac
      · exact hp3.2.2 a ha b hb'
    · exact lt_trans hac (htc.1 b hb')

end Hw.Topo.Ins
