/-
  Hw.Topo.StageSymmetric — `hwloc_propagate_symmetric_subtree` (hwloc/topology.c) on the four-list tree, as the C runs:

      root->symmetric_subtree = 0;
      if (!arity) goto good;
      for_each_child(child, root) { recurse(child); if (!child->symmetric_subtree) ok = 0; }      -- normal children only
      if (!ok) return;
      if (arity == 1) goto good;
      array = copy of root->children;
      while (1) {
        for (i = 1; i < arity; i++) if (array[i]->depth != array[0]->depth || array[i]->arity != array[0]->arity) return;
        if (!array[0]->arity) break;
        for (i = 0; i < arity; i++) array[i] = array[i]->first_child;
      }
     good: root->symmetric_subtree = 1;

  `dep` = the `depth` field of a normal object (written by hwloc_connect_levels; `depthIn t` = the index of the level of
  `connectLevels t` that holds the object).  Memory, I/O and Misc children are never read.
-/
import Hw.Topo.Render
namespace Hw.Topo.Restrict.Stage
open Hw.Topo Hw.Topo.Restrict

/-- one pass of the `for (i = 1; …)` comparison: every other entry has the depth and the arity of entry 0 -/
def rowSame (dep : RObj → Int) (a0 : Tree) (rest : List Tree) : Bool :=
  rest.all (fun a => dep a.obj == dep a0.obj && a.ns.length == a0.ns.length)

/-- the `while (1)` loop over the array; `fuel` bounds the number of rows (`walk_fuel`: the size of the subtrees suffices; running
    out of fuel answers `false`, which never happens with that bound).  After a successful comparison with `array[0]->arity != 0`
    every entry has a first child, so `filterMap` steps every entry. -/
def walk (dep : RObj → Int) : Nat → List Tree → Bool
  | _, [] => true
  | 0, _ :: _ => false
  | f + 1, a0 :: rest =>
    if rowSame dep a0 rest then
      if a0.ns.isEmpty then true else walk dep f ((a0 :: rest).filterMap (fun a => a.ns.head?))
    else false

mutual
/-- the value left in `symmetric_subtree` of the root of `t` -/
def symT (dep : RObj → Int) : Tree → Bool
  | .node _ ns _ _ _ => ns.isEmpty || (symAllL dep ns && (ns.length == 1 || walk dep (sizeL ns) ns))
/-- `ok`: every normal child is symmetric -/
def symAllL (dep : RObj → Int) : List Tree → Bool
  | [] => true
  | t :: ts => symT dep t && symAllL dep ts
end

mutual
/-- (gp_index, flag) of every object the function visits (the normal objects), depth-first -/
def symsT (dep : RObj → Int) : Tree → List (Nat × Bool)
  | .node o ns ms ios mis => (o.gp, symT dep (.node o ns ms ios mis)) :: symsL dep ns
def symsL (dep : RObj → Int) : List Tree → List (Nat × Bool)
  | [] => []
  | t :: ts => symsT dep t ++ symsL dep ts
end

/-- the `depth` field of a normal object: index of the level that lists its gp_index (-1 if none) -/
def depthOfGp (levels : List (List RObj)) (gp : Nat) : Int :=
  match levels.findIdx? (fun l => l.any (fun x => x.gp == gp)) with
  | some k => (k : Int)
  | none => -1
def depthIn (levels : List (List RObj)) (o : RObj) : Int := depthOfGp levels o.gp

mutual
/-- the subtrees the function visits: the object and, recursively, its normal children, depth-first -/
def subsN : Tree → List Tree
  | .node o ns ms ios mis => .node o ns ms ios mis :: subsNL ns
def subsNL : List Tree → List Tree
  | [] => []
  | t :: ts => subsN t ++ subsNL ts
end

/-- the stage on the tree the level merging leaves -/
def symmetricStage (t : Tree) : List (Nat × Bool) := symsT (depthIn (connectLevels t)) t

/-! ### the rule, stated without the loop -/

mutual
/-- (depth, arity) of the object, of its first child, of the first child of that, … down to an object without normal child -/
def spineT (dep : RObj → Int) : Tree → List (Int × Nat)
  | .node o ns _ _ _ => (dep o, ns.length) :: spineL dep ns
def spineL (dep : RObj → Int) : List Tree → List (Int × Nat)
  | [] => []
  | t :: _ => spineT dep t
end

mutual
/-- the normal-children skeleton: memory, I/O and Misc children dropped everywhere -/
def skelT : Tree → Tree
  | .node o ns _ _ _ => .node o (skelL ns) [] [] []
def skelL : List Tree → List Tree
  | [] => []
  | t :: ts => skelT t :: skelL ts
end

mutual
/-- every object at distance k below the root (normal children only) has depth and arity `sp[k]`, and `sp` ends where the objects
    without normal child are reached -/
def uniformT (dep : RObj → Int) : Tree → List (Int × Nat) → Prop
  | .node o ns _ _ _, sp =>
    match sp with
    | [] => False
    | x :: sp' => x = (dep o, ns.length) ∧ (ns = [] → sp' = []) ∧ uniformL dep ns sp'
def uniformL (dep : RObj → Int) : List Tree → List (Int × Nat) → Prop
  | [], _ => True
  | t :: ts, sp => uniformT dep t sp ∧ uniformL dep ts sp
end

end Hw.Topo.Restrict.Stage
