/-
  Hw.Topo.Insert — model of the core insertion routine `hwloc___insert_object_by_cpuset`
  (hwloc/topology.c) with `hwloc_obj_cmp_sets`, `hwloc_type_cmp`, `hwloc__insert_try_merge_group`,
  the put-back path taken on an intersection, and of the part of
  `hwloc_topology_insert_group_object` that precedes it (set clipping, cpuset from nodeset,
  comparison with the root).

  The tree holds the normal children only (memory children ride along as a list of gp_index
  values because one branch of the routine moves them).  `key` is the set the C code compares for
  this insertion: complete_cpuset when the new object has one, cpuset otherwise
  (`hwloc_obj_cmp_sets`, `hwloc__object_cpusets_compare_first`; every linked object has both).

  The loop is modelled as the C loop runs: `before` = children of CUR kept so far, `taken` = children
  already moved below OBJ, `putp` = the remembered position.  Situations in which the C code would
  lose objects (returning from the loop while children were already moved below OBJ) are the
  explicit result `stuck`; `InsertLemmas` proves it unreachable on laminar trees.
-/
import Hw.Base.Basic
import Hw.Topo.Types
import Hw.Gen.RestrictConsts
namespace Hw.Topo.Ins
open Hw.Topo

structure IObj where
  gp : Nat
  type : Nat
  key : Nat
  ckey : Nat := 0           -- complete_cpuset: what `hwloc__object_cpusets_compare_first` compares between two LINKED objects
  dm : Bool := false        -- attr->group.dont_merge
  kind : Nat := 0
  subkind : Nat := 0
  mem : List Nat := []      -- gp_index of the memory children, in list order
deriving DecidableEq, Repr, Inhabited

inductive T where
  | node (o : IObj) (kids : List T)
deriving Repr, Inhabited

def T.o : T → IObj | .node o _ => o
def T.kids : T → List T | .node _ k => k

inductive Cmp where
  | equal | included | contains | intersects | different
deriving DecidableEq, Repr

/-- `hwloc_obj_cmp_sets`: DIFFERENT when a set is empty, `hwloc_bitmap_compare_inclusion` otherwise -/
def cmpSets (a b : Nat) : Cmp :=
  if a = 0 ∨ b = 0 then .different
  else if a = b then .equal
  else if a &&& b = a then .included
  else if a &&& b = b then .contains
  else if a &&& b = 0 then .different
  else .intersects

def orderOf (ty : Nat) : Nat := (Hw.Gen.Restrict.typeOrder[ty]?).getD 0

/-- `hwloc_type_cmp` on normal types (never UNORDERED there) -/
def typeCmp (a b : IObj) : Cmp :=
  if orderOf a.type > orderOf b.type then .included
  else if orderOf a.type < orderOf b.type then .contains
  else if a.type = tGROUP ∧ (a.kind ≠ b.kind ∨ a.subkind ≠ b.subkind) then .different
  else .equal

def kindMemory : Nat := 1001

/-- `hwloc_replace_linked_object(old, new)`: the linked cell keeps its tree pointers (children, memory
children), its gp_index and userdata, and takes every other field of `new`; the sets are equal -/
def replaceBy (old new : IObj) : IObj := { new with gp := old.gp, key := old.key, ckey := old.ckey, mem := old.mem }

/-- `hwloc__insert_try_merge_group(old, new)`: the resulting linked object when merged -/
def tryMerge (old new : IObj) : Option IObj :=
  if new.type = tGROUP ∧ old.type = tGROUP then
    if new.dm then (if old.dm then none else some (replaceBy old new))
    else if old.dm then some old
    else if new.kind < old.kind then some (replaceBy old new) else some old
  else if new.type = tGROUP ∧ new.dm = false then
    if old.type = tPU ∧ new.kind = kindMemory then none else some old
  else if old.type = tGROUP ∧ old.dm = false then
    if new.type = tPU ∧ old.kind = kindMemory then none else some (replaceBy old new)
  else none

/-- number of trailing zero bits (meaningful for non-zero masks) -/
def tz (m : Nat) : Nat := (Hw.lowest (fun i => m.testBit i) (m.log2 + 1)).getD 0

/-- `hwloc_bitmap_compare_first(a, b) < 0`: the first bit of `a` is below the first bit of `b`, the empty set
being greater than everything -/
def firstLt (a b : Nat) : Bool := a != 0 && (b == 0 || tz a < tz b)

/-- what one iteration of the loop decides for child `ko` -/
inductive Dec where
  | merge (o : IObj)          -- return: merged into this child, whose contents become `o`
  | recurse                   -- return the insertion below this child
  | fail                      -- intersection: put back and fail
  | differ                    -- keep the child in CUR
  | contain (eqSets : Bool)   -- move the child below OBJ (with its memory children when the sets are equal)
deriving DecidableEq, Repr

def decide1 (obj ko : IObj) : Dec :=
  match cmpSets obj.key ko.key with
  | .equal =>
    match tryMerge ko obj with
    | some o' => .merge o'
    | none =>
      match typeCmp obj ko with
      | .equal => .merge ko               -- merge_insert_equal: the old object stays
      | .included => .recurse
      | .different => .recurse            -- Groups of different kinds that refuse to merge: below the old one
      | .contains => .contain true
      | .intersects => .fail
  | .included => .recurse
  | .intersects => .fail
  | .different => .differ
  | .contains => .contain false

/-- the put-back loop: re-insert the children taken by OBJ into CUR's list, the cursor only moving forward; both objects
are linked ones, so their complete cpusets are compared -/
def putback : List T → List T → List T
  | lst, [] => lst
  | lst, c :: cs =>
    lst.takeWhile (fun x => firstLt x.o.ckey c.o.ckey) ++ putback (c :: lst.dropWhile (fun x => firstLt x.o.ckey c.o.ckey)) cs

inductive Res where
  | inserted (t : T)            -- the new CUR subtree, OBJ linked somewhere below
  | merged (t : T) (gp : Nat)   -- the new CUR subtree, OBJ merged into the object `gp`
  | failed (t : T)              -- intersection: the CUR subtree after the put-back
  | stuck                       -- the C code would return while children are attached to an unlinked OBJ
deriving Repr, Inhabited

def Res.wrap (co : IObj) (before rest : List T) : Res → Res
  | .inserted c => .inserted (.node co (before ++ c :: rest))
  | .merged c g => .merged (.node co (before ++ c :: rest)) g
  | .failed c => .failed (.node co (before ++ c :: rest))
  | .stuck => .stuck

mutual
/-- `hwloc___insert_object_by_cpuset(topology, cur, obj)` -/
def ins (obj : IObj) : T → Res
  | .node co kids => insLoop obj co [] [] none kids

def insLoop (obj : IObj) (co : IObj) (before taken : List T) (putp : Option Nat) : List T → Res
  | [] =>
    let pos := putp.getD before.length
    .inserted (.node co (before.take pos ++ T.node obj taken :: before.drop pos))
  | c :: rest =>
    match c with
    | .node ko kk =>
      match decide1 obj ko with
      | .merge o' => if taken.isEmpty then .merged (.node co (before ++ T.node o' kk :: rest)) ko.gp else .stuck
      | .recurse => if taken.isEmpty then (ins obj (.node ko kk)).wrap co before rest else .stuck
      | .fail =>
        let cur := before ++ T.node ko kk :: rest
        .failed (.node co (match putp with
                           | some i => cur.take i ++ putback (cur.drop i) taken
                           | none => putback cur taken))
      | .differ =>
        insLoop obj co (before ++ [T.node ko kk]) taken
          (if putp.isNone && firstLt obj.key ko.key then some before.length else putp) rest
      | .contain eq =>
        insLoop (if eq then { obj with mem := ko.mem } else obj) co before
          (taken ++ [if eq then T.node { ko with mem := [] } kk else T.node ko kk]) putp rest
end

/-! ### after the insertion: `hwloc_obj_add_children_sets(res)` and `hwloc__reorder_children(res->parent)` -/

/-- insertion step of `hwloc__reorder_children`: before the first element whose first bit is not below the child's -/
def insertOrdered (c : T) (acc : List T) : List T :=
  acc.takeWhile (fun x => firstLt x.o.ckey c.o.ckey) ++ c :: acc.dropWhile (fun x => firstLt x.o.ckey c.o.ckey)

def reorder (kids : List T) : List T := kids.foldl (fun acc c => insertOrdered c acc) []

/-- `hwloc__reorder_children_if_needed`: only when some consecutive pair is out of order (the insertion sort above reverses
children with identical first bits, e.g. CPU-less ones) -/
def needsReorder : List T → Bool
  | a :: b :: rest => firstLt b.o.ckey a.o.ckey || needsReorder (b :: rest)
  | _ => false

def reorderIfNeeded (kids : List T) : List T := if needsReorder kids then reorder kids else kids

/-- `hwloc_obj_add_children_sets`: the complete cpuset of `res` gets the bits of its children's -/
def addChildrenSets : T → T
  | .node o kids => .node { o with ckey := kids.foldl (fun acc c => acc ||| c.o.ckey) o.ckey } kids

mutual
/-- find `res` (by gp_index), complete its sets, reorder the children of its parent -/
def fixOrder (gp : Nat) : T → T
  | .node o kids =>
    if kids.any (fun c => c.o.gp == gp) then
      .node o (reorderIfNeeded (kids.map (fun c => if c.o.gp == gp then addChildrenSets c else c)))
    else .node o (fixOrderL gp kids)
def fixOrderL (gp : Nat) : List T → List T
  | [] => []
  | c :: cs => fixOrder gp c :: fixOrderL gp cs
end

/-! ### `hwloc_topology_insert_group_object` up to the insertion -/

structure GArgs where
  cpuset : Option Nat
  nodeset : Option Nat
  dm : Bool
  kind : Nat
  subkind : Nat
deriving Repr

inductive GRes where
  | einval                     -- refused (no usable set, or Groups are filtered out)
  | mergedRoot                 -- not strictly inside the root: "just merge root"
  | core (key : Nat) (r : Res) -- inserted by cpuset `key`
deriving Repr

/-- the cpuset the Group is inserted with: its own one clipped to the root, or the union of the cpusets of the NUMA nodes of its
nodeset; `none` = EINVAL -/
def groupKey (rootCpuset rootNodeset : Nat) (numas : List (Nat × Nat)) (a : GArgs) : Option Nat :=
  let c := a.cpuset.map (· &&& rootCpuset)
  let n := a.nodeset.map (· &&& rootNodeset)
  if c.getD 0 ≠ 0 then c
  else if n.getD 0 = 0 then none
  else some (numas.foldl (fun acc p => if (n.getD 0).testBit p.1 then acc ||| p.2 else acc) 0)

def insertGroup (filterGroup : Nat) (rootCpuset rootNodeset : Nat) (numas : List (Nat × Nat)) (root : T) (newGp : Nat) (a : GArgs) : GRes :=
  if filterGroup = 1 then .einval           -- HWLOC_TYPE_FILTER_KEEP_NONE
  else match groupKey rootCpuset rootNodeset numas a with
    | none => .einval
    | some key =>
      if cmpSets key root.o.key = .included then
        .core key (ins { gp := newGp, type := tGROUP, key := key, dm := a.dm, kind := a.kind, subkind := a.subkind } root)
      else .mergedRoot

/-! ### observations compared with the real topology -/

/-- (gp, parent gp, kind, subkind, dont_merge (Groups only), memory children) of every node in DFS order -/
def rows (parent : Nat) : T → List (Nat × Nat × List Nat × List Nat)
  | .node o kids => (o.gp, parent, (if o.type = tGROUP then [o.kind, o.subkind, if o.dm then 1 else 0] else []), o.mem) :: rowsL o.gp kids
where rowsL (parent : Nat) : List T → List (Nat × Nat × List Nat × List Nat)
  | [] => []
  | c :: cs => rows parent c ++ rowsL parent cs

def objsT : T → List IObj
  | .node o kids => o :: objsL kids
where objsL : List T → List IObj
  | [] => []
  | c :: cs => objsT c ++ objsL cs

end Hw.Topo.Ins
